(* Proofs about model/ImageHist.v (property C20): image objects over all histories. *)
From Vx Require Import base.Prelude base.ListX model.Image model.ImageHist proofs.ImageProofs.
From Coq Require Import ZifyBool.

Local Open Scope Z_scope.

(* ================================================================== empty boxes *)

Lemma rn_zero q : rn 0 q = (0, 1).
Proof. reflexivity. Qed.

Lemma rn_pos p q : 0 < p -> 0 < q -> 0 < fst (rn p q) /\ 0 < snd (rn p q).
Proof.
  intros Hp Hq. destruct (rn_nearest_even p q Hp Hq) as [m [e [F [S [[M1 _] _]]]]].
  rewrite F, S. change (2 ^ 52) with 4503599627370496 in M1.
  split; [apply Z.mul_pos_pos; [lia|]|]; apply pow2_pos; lia.
Qed.

Lemma f_of_int_pos k : 0 < k -> 0 < fst (f_of_int k) /\ 0 < snd (f_of_int k).
Proof. intros H. apply rn_pos; lia. Qed.

Lemma f_div_pos a b : 0 < a -> 0 < b ->
  0 < fst (f_div (f_of_int a) (f_of_int b)) /\ 0 < snd (f_div (f_of_int a) (f_of_int b)).
Proof.
  intros Ha Hb. destruct (f_of_int_pos a Ha) as [A1 A2]. destruct (f_of_int_pos b Hb) as [B1 B2].
  unfold f_div. apply rn_pos; nia.
Qed.

Lemma f_div_zero b : f_div (f_of_int 0) b = (0, 1).
Proof. reflexivity. Qed.

(* a box without columns or without lines gives an empty picture *)
Lemma resize_dims_empty_box wPix hPix w h cw ch :
  0 < wPix -> 0 < hPix -> 0 < cw -> 0 < ch -> 0 <= w -> 0 <= h -> w = 0 \/ h = 0 ->
  resize_dims wPix hPix w h cw ch = RDims 0 0.
Proof.
  intros HW HH Hcw Hch Hw Hh Z0. unfold resize_dims.
  replace ((cw =? 0) || (ch =? 0)) with false by lia.
  replace ((wPix <=? 0) || (hPix <=? 0) || (w <? 0) || (h <? 0) || (cw <? 0) || (ch <? 0)) with false by lia.
  pose proof (ceil_div_pos wPix cw HW Hcw) as C. pose proof (ceil_div_pos hPix ch HH Hch) as L.
  set (columns := ceil_div wPix cw) in *. set (lines := ceil_div hPix ch) in *.
  replace ((columns <=? w) && (lines <=? h)) with false by lia.
  assert (S : fst (if f_leb (f_div (f_of_int w) (f_of_int columns)) (f_div (f_of_int h) (f_of_int lines))
                   then f_div (f_of_int w) (f_of_int columns) else f_div (f_of_int h) (f_of_int lines)) = 0).
  { destruct (Z.eq_dec w 0) as [-> | Nw].
    - rewrite f_div_zero. destruct (Z.eq_dec h 0) as [-> | Nh].
      + rewrite f_div_zero. reflexivity.
      + destruct (f_div_pos h lines ltac:(lia) L) as [P1 P2].
        unfold f_leb. cbn [fst snd]. replace (0 * _ <=? _ * 1) with true by lia. reflexivity.
    - assert (h = 0) by lia. subst h. rewrite f_div_zero.
      destruct (f_div_pos w columns ltac:(lia) C) as [P1 P2].
      unfold f_leb. cbn [fst snd].
      replace (fst (f_div (f_of_int w) (f_of_int columns)) * 1 <=? 0 * snd (f_div (f_of_int w) (f_of_int columns))) with false by lia.
      reflexivity. }
  rewrite !product_zero by exact S. reflexivity.
Qed.

Lemma ceil_div_0 b : 0 < b -> ceil_div 0 b = 0.
Proof. intros H. unfold ceil_div. rewrite Z.div_0_l, Z.mod_0_l by lia. reflexivity. Qed.

Lemma box_ok_cases w h : box_ok w h = true -> (dom w /\ dom h) \/ (0 <= w /\ 0 <= h /\ (w = 0 \/ h = 0)).
Proof. unfold box_ok, dom. intros H. lia. Qed.

(* ================================================================== block image objects *)

Lemma px_eqb_refl p : px_eqb p p = true.
Proof. destruct p as [[[r g] b] a]. unfold px_eqb. rewrite !Z.eqb_refl. reflexivity. Qed.

Lemma image_eqb_refl im : image_eqb im im = true.
Proof.
  unfold image_eqb. rewrite !Z.eqb_refl. cbn [andb].
  apply forallb_forall. intros y _. apply forallb_forall. intros x _. apply px_eqb_refl.
Qed.

Lemma src_ok_dom src : src_ok src = true -> dom (iw src) /\ dom (ih src).
Proof. unfold src_ok, dom. lia. Qed.

(* Resize: the picture, and the facts the property predicate asks for *)
Lemma block_resize_facts src w h :
  src_ok src = true -> box_ok w h = true ->
  exists im, resize_image src w h 1 2 = Some im /\ 0 <= iw im /\ 0 <= ih im /\
             block_cells (iw im) (ih im) = (iw im, (ih im + 1) / 2) /\
             block_resized_ok src im w h (iw im) ((ih im + 1) / 2) = true.
Proof.
  intros Hs Hb. destruct (src_ok_dom src Hs) as [DW DH].
  assert (K : exists nw nh, resize_dims (iw src) (ih src) w h 1 2 = RDims nw nh /\ 0 <= nw /\ 0 <= nh /\
            0 <= nw <= w /\ 0 <= (nh + 1) / 2 <= h /\ nw <= iw src /\ (nh + 1) / 2 <= (ih src + 1) / 2 /\
            (if (0 <? w) && (0 <? h) then resize_ok (iw src) (ih src) w h 1 2 nw nh else (nw =? 0) && (nh =? 0)) = true).
  { destruct (box_ok_cases w h Hb) as [[Dw Dh] | [Pw [Ph Z0]]].
    - destruct (fits_box (iw src) (ih src) w h 1 2 DW DH Dw Dh dom_1 dom_2) as [nw [nh [E [P1 [P2 [F1 F2]]]]]].
      destruct (block_cells_fit (iw src) (ih src) w h DW DH Dw Dh) as [c1 [c2 [BE [B1 [B2 [B3 B4]]]]]].
      unfold block_cell_size in BE. rewrite E in BE. unfold block_cells in BE. injection BE as <- <-.
      pose proof (block_height nw nh P2) as BH. unfold block_cells in BH. cbn [snd] in BH. rewrite BH in B2, B4.
      exists nw, nh. repeat split; try lia; try assumption.
      replace ((0 <? w) && (0 <? h)) with true by (unfold dom in *; lia).
      apply resize_ok_model; try assumption; [apply dom_1 | apply dom_2].
    - unfold dom in DW, DH.
      rewrite (resize_dims_empty_box (iw src) (ih src) w h 1 2) by lia.
      exists 0, 0. change ((0 + 1) / 2) with 0.
      assert (0 <= (ih src + 1) / 2) by (apply Z.div_pos; lia).
      repeat split; try lia.
      replace ((0 <? w) && (0 <? h)) with false by lia. reflexivity. }
  destruct K as [nw [nh [E [P1 [P2 [F1 [F2 [N1 [N2 R]]]]]]]]].
  unfold resize_image. rewrite E.
  destruct ((nw =? iw src) && (nh =? ih src)) eqn:Q.
  - assert (nw = iw src /\ nh = ih src) as [-> ->] by lia.
    exists src. split; [reflexivity|]. split; [lia|]. split; [lia|].
    split.
    { pose proof (block_height (iw src) (ih src) P2) as BH. unfold block_cells in *. cbn [snd] in BH. rewrite BH. reflexivity. }
    unfold block_resized_ok, from_source_ok. rewrite !Z.eqb_refl. cbn [andb]. rewrite image_eqb_refl.
    rewrite R. lia.
  - set (im := nn_scale src nw nh).
    assert (IW : iw im = nw) by reflexivity. assert (IHt : ih im = nh) by reflexivity.
    exists im. rewrite IW, IHt. split; [reflexivity|]. split; [lia|]. split; [lia|].
    split.
    { pose proof (block_height nw nh P2) as BH. unfold block_cells in *. cbn [snd] in BH. rewrite BH. reflexivity. }
    unfold block_resized_ok, from_source_ok. rewrite IW, IHt, Q.
    assert (FS : forallb (fun y => forallb (fun x =>
               px_eqb (img_at im x y) (to8 (img_at src (nn_src nw (iw src) x) (nn_src nh (ih src) y))))
               (zseq nw)) (zseq nh) = true).
    { apply forallb_zseq. intros y Hy. apply forallb_zseq. intros x Hx.
      unfold im. rewrite img_at_nn_scale by assumption. apply px_eqb_refl. }
    rewrite FS, R. lia.
Qed.

(* ---------------- Draw *)

Lemma draw_from_complete width i cells k c :
  zget cells k = Some c ->
  In ((i + k) - (i + k) / width * width, (i + k) / width, c) (draw_from width i cells).
Proof.
  revert i k. induction cells as [|c0 t IH]; intros i k H.
  - unfold zget in H. destruct (k <? 0); [discriminate|]. destruct (Z.to_nat k); discriminate.
  - pose proof (zget_some_range _ _ _ H) as R. cbn [draw_from].
    destruct (Z.eq_dec k 0) as [-> | N].
    + rewrite zget_cons_0 in H. injection H as <-. left. rewrite Z.add_0_r. reflexivity.
    + right. rewrite zget_cons_S in H by lia.
      specialize (IH (i + 1) (k - 1) H). replace (i + 1 + (k - 1)) with (i + k) in IH by ring. exact IH.
Qed.

Lemma existsb_false_forall {A} (f : A -> bool) l : (forall x, In x l -> f x = false) -> existsb f l = false.
Proof.
  intros H. destruct (existsb f l) eqn:E; [|reflexivity].
  apply existsb_exists in E. destruct E as [x [I F]]. rewrite (H x I) in F. discriminate.
Qed.

Lemma draw_from_nodup width i cells : 0 < width -> 0 <= i -> nodup_pos (draw_from width i cells) = true.
Proof.
  intros Hw. revert i. induction cells as [|c0 t IH]; intros i Hi; [reflexivity|].
  cbn [draw_from nodup_pos]. rewrite IH by lia. rewrite andb_true_r.
  apply negb_true_iff. apply existsb_false_forall. intros [[x y] c] I.
  destruct (draw_from_In width (i + 1) t x y c I) as [k [K1 [K2 [K3 _]]]].
  unfold at_pos.
  pose proof (Z.div_mod i width ltac:(lia)) as D1. pose proof (Z.div_mod (i + 1 + k) width ltac:(lia)) as D2.
  destruct (y =? i / width) eqn:EY; [|lia].
  apply Z.eqb_eq in EY. replace (x =? i - i / width * width) with false; [reflexivity|].
  symmetry. apply Z.eqb_neq. subst x. rewrite EY. rewrite EY in K2. nia.
Qed.

Lemma nodup_pos_filter f l : nodup_pos l = true -> nodup_pos (filter f l) = true.
Proof.
  induction l as [|[[x y] c] t IH]; intros H; [reflexivity|].
  cbn [nodup_pos] in H. apply andb_prop in H. destruct H as [H1 H2].
  cbn [filter]. destruct (f (x, y, c)); [|apply IH; exact H2].
  cbn [nodup_pos]. rewrite (IH H2), andb_true_r.
  apply negb_true_iff in H1. apply negb_true_iff. apply existsb_false_forall. intros d I.
  apply filter_In in I. destruct I as [I _].
  destruct (at_pos x y d) eqn:E; [|reflexivity].
  assert (existsb (at_pos x y) t = true) by (apply existsb_exists; exists d; auto). congruence.
Qed.

Lemma kind_cases kind : kind = 0 \/ kind = 1 -> (kind =? 0) = true /\ kind = 0 \/ (kind =? 0) = false /\ kind = 1.
Proof. intros [-> | ->]; [left | right]; split; reflexivity. Qed.

(* what Draw puts on the screen for an encoded picture satisfies the predicate of the property *)
Lemma block_drawn_ok kind im ww wh :
  kind = 0 \/ kind = 1 -> 0 <= iw im -> 0 <= ih im ->
  drawn_ok kind im (iw im) ((ih im + 1) / 2) ww wh
    (filter (in_window ww wh) (block_draw (iw im) (block_encode (enc_of kind) im))) = true.
Proof.
  intros Hk Hw Hh. unfold drawn_ok.
  set (cells := block_encode (enc_of kind) im).
  assert (LEN : zlen cells = iw im * ((ih im + 1) / 2)) by (apply block_encode_len; assumption).
  assert (HH : 0 <= (ih im + 1) / 2) by (apply Z.div_pos; lia).
  apply andb_true_intro; split; [apply andb_true_intro; split|].
  - apply forallb_forall. intros [[x y] c] I. apply filter_In in I. destruct I as [I W].
    destruct (Z.eq_dec (iw im) 0) as [E0 | N0].
    { rewrite E0, Z.mul_0_l in LEN. apply zlen_zero_nil in LEN. rewrite LEN in I. destruct I. }
    destruct (block_draw_inside (iw im) ((ih im + 1) / 2) cells x y c ltac:(lia) LEN I) as [X [Y G]].
    unfold in_window in W.
    assert (CS : cell_shows_ok kind im x y c = true).
    { unfold cell_shows_ok. unfold cells, enc_of in G.
      destruct (kind_cases kind Hk) as [[K _] | [K _]]; rewrite K in *.
      - destruct (half_block_pixels im x y Hw Hh X Y) as [c' [G' [GL [T B]]]].
        rewrite G in G'. injection G' as <-. rewrite GL, T, B, !Z.eqb_refl. reflexivity.
      - rewrite full_block_pixels in G by assumption. injection G as <-. rewrite !Z.eqb_refl. reflexivity. }
    rewrite CS. lia.
  - apply forallb_zseq. intros y Hy. apply forallb_zseq. intros x Hx.
    assert (X : 0 <= x < iw im) by lia. assert (Y : 0 <= y < (ih im + 1) / 2) by lia.
    pose proof (block_encode_get (enc_of kind) im x y Hw Hh X Y) as G. fold cells in G.
    pose proof (draw_from_complete (iw im) 0 cells _ _ G) as I. rewrite !Z.add_0_l in I.
    destruct (cell_index (iw im) x y X) as [E1 E2]. rewrite E2, E1 in I.
    apply existsb_exists. exists (x, y, enc_of kind (img_at im x (2 * y)) (img_at im x (2 * y + 1))). split.
    + apply filter_In. split; [exact I|]. unfold in_window. lia.
    + unfold at_pos. rewrite !Z.eqb_refl. reflexivity.
  - apply nodup_pos_filter. destruct (Z.eq_dec (iw im) 0) as [E0 | N0].
    + rewrite E0, Z.mul_0_l in LEN. apply zlen_zero_nil in LEN. rewrite LEN. reflexivity.
    + apply draw_from_nodup; lia.
Qed.

(* ---------------- the invariant between an object and what the property remembers *)

Definition binv (kind : Z) (s : bobj) (sp : bspec) : Prop :=
  if sp_live sp
  then b_width s = sp_w sp /\ b_height s = sp_h sp /\ sp_w sp = iw (sp_pic sp) /\
       sp_h sp = (ih (sp_pic sp) + 1) / 2 /\ 0 <= iw (sp_pic sp) /\ 0 <= ih (sp_pic sp) /\
       b_cells s = block_encode (enc_of kind) (sp_pic sp)
  else b_cells s = [].

Lemma binv_no_panic kind s sp : binv kind s sp -> (b_width s =? 0) && negb (is_nil (b_cells s)) = false.
Proof.
  unfold binv. destruct (sp_live sp).
  - intros [W [_ [W2 [_ [P1 [P2 C]]]]]]. destruct (b_width s =? 0) eqn:E; [|reflexivity].
    assert (L : zlen (b_cells s) = 0).
    { rewrite C, block_encode_len by assumption. rewrite <- W2, <- W. lia. }
    apply zlen_zero_nil in L. rewrite L. reflexivity.
  - intros ->. rewrite andb_false_r. reflexivity.
Qed.

Lemma block_run_cons kind src s o t obs :
  block_run kind src s (o :: t) = Some obs ->
  exists s' ob obs', block_step kind src s o = Some (s', ob) /\ block_run kind src s' t = Some obs' /\ obs = ob :: obs'.
Proof.
  cbn [block_run]. destruct (block_step kind src s o) as [[s' ob]|]; [|discriminate].
  destruct (block_run kind src s' t) as [obs'|] eqn:E; [|discriminate]. intros H. injection H as <-.
  exists s', ob, obs'. repeat split. exact E.
Qed.

Theorem block_model_ok kind src :
  kind = 0 \/ kind = 1 -> src_ok src = true ->
  forall ops s sp obs,
    forallb bop_ok ops = true -> binv kind s sp ->
    block_run kind src s ops = Some obs ->
    blockhist_ok kind src sp (combine ops obs) = true.
Proof.
  intros Hk Hs. induction ops as [|o t IH]; intros s sp obs OK I R; [reflexivity|].
  cbn [forallb] in OK. apply andb_prop in OK. destruct OK as [O1 O2].
  destruct (block_run_cons _ _ _ _ _ _ R) as [s' [ob [obs' [ST [RT ->]]]]]. clear R.
  destruct o as [w h | ww wh |].
  - (* Resize *)
    cbn [bop_ok] in O1. destruct (block_resize_facts src w h Hs O1) as [im [E [P1 [P2 [BC RO]]]]].
    cbn [block_step] in ST. rewrite E in ST. rewrite BC in ST. cbn [fst snd b_width b_height] in ST.
    injection ST as <- <-. cbn [combine blockhist_ok]. rewrite RO. cbn [is_nil andb Z.eqb].
    eapply IH; [exact O2 | | exact RT].
    unfold binv. cbn [sp_live sp_w sp_h sp_pic b_width b_height b_cells]. repeat split; assumption.
  - (* Draw *)
    cbn [block_step] in ST. rewrite (binv_no_panic kind s sp I) in ST.
    injection ST as <- <-. cbn [combine blockhist_ok]. rewrite (IH s sp obs' O2 I RT), andb_true_r. cbn [Z.eqb andb].
    unfold binv in I. destruct (sp_live sp).
    + destruct I as [W [H [W2 [H2 [P1 [P2 C]]]]]]. rewrite W, H, C, !Z.eqb_refl. cbn [andb].
      rewrite W2, H2. apply block_drawn_ok; assumption.
    + rewrite I. reflexivity.
  - (* Destroy *)
    cbn [block_step] in ST. injection ST as <- <-. cbn [combine blockhist_ok is_nil Z.eqb andb].
    eapply IH; [exact O2 | | exact RT]. unfold binv. reflexivity.
Qed.

Lemma binv_new kind : binv kind b_new bspec0.
Proof. reflexivity. Qed.

(* in the domain every history runs (and, by block_model_ok, without a panic) *)
Lemma block_run_total kind src :
  src_ok src = true -> forall ops s, forallb bop_ok ops = true -> exists obs, block_run kind src s ops = Some obs.
Proof.
  intros Hs. induction ops as [|o t IH]; intros s OK; [exists []; reflexivity|].
  cbn [forallb] in OK. apply andb_prop in OK. destruct OK as [O1 O2]. cbn [block_run].
  destruct o as [w h | ww wh |]; cbn [block_step].
  - destruct (block_resize_facts src w h Hs O1) as [im [E _]]. rewrite E.
    match goal with |- context [block_run kind src ?S t] => destruct (IH S O2) as [obs' ->] end. eexists; reflexivity.
  - destruct ((b_width s =? 0) && negb (is_nil (b_cells s))); destruct (IH s O2) as [obs' ->]; eexists; reflexivity.
  - match goal with |- context [block_run kind src ?S t] => destruct (IH S O2) as [obs' ->] end. eexists; reflexivity.
Qed.

Lemma block_run_length kind src ops : forall s obs, block_run kind src s ops = Some obs -> length obs = length ops.
Proof.
  induction ops as [|o t IH]; intros s obs R; cbn [block_run] in R.
  - injection R as <-. reflexivity.
  - destruct (block_step kind src s o) as [[s' ob]|]; [|discriminate].
    destruct (block_run kind src s' t) as [obs'|] eqn:E; [|discriminate]. injection R as <-.
    cbn [length]. f_equal. eapply IH; exact E.
Qed.

(* ---------------- history independence *)

Definition b_destroyed (s : bobj) : bobj := {| b_width := b_width s; b_height := b_height s; b_cells := [] |}.

Lemma block_exec_app kind src a b s :
  block_exec kind src s (a ++ b) =
  match block_exec kind src s a with Some s' => block_exec kind src s' b | None => None end.
Proof.
  revert s. induction a as [|o t IH]; intros s; [reflexivity|].
  cbn [app block_exec]. destruct (block_step kind src s o) as [[s' ob]|]; [apply IH | reflexivity].
Qed.

Lemma block_exec_summary kind src ops : forall m0 s0 s1 s',
  block_exec kind src s0 (bsum_ops m0) = Some s1 ->
  block_exec kind src s1 ops = Some s' ->
  block_exec kind src s0 (bsum_ops (fold_left bsum_step ops m0)) = Some s'.
Proof.
  induction ops as [|o t IH]; intros m0 s0 s1 s' E0 E1.
  - cbn [block_exec] in E1. injection E1 as <-. exact E0.
  - cbn [block_exec] in E1. cbn [fold_left].
    destruct (block_step kind src s1 o) as [[s2 ob]|] eqn:ST; [|discriminate].
    apply (IH (bsum_step m0 o) s0 s2 s'); [|exact E1]. clear IH E1.
    destruct o as [w h | ww wh |]; cbn [bsum_step].
    + cbn [block_step] in ST. unfold bsum_ops. cbn [fst snd app block_exec block_step].
      destruct (resize_image src w h 1 2) as [im|]; [|discriminate]. injection ST as <- _. reflexivity.
    + cbn [block_step] in ST. destruct ((b_width s1 =? 0) && negb (is_nil (b_cells s1))); injection ST as <- _; exact E0.
    + cbn [block_step] in ST. injection ST as <- _.
      unfold bsum_ops in *. cbn [fst snd]. destruct (snd m0).
      * (* already destroyed: Destroy again changes nothing *)
        rewrite block_exec_app in E0. rewrite block_exec_app.
        destruct (block_exec kind src s0 match fst m0 with Some (w, h) => [BResize w h] | None => [] end) as [sr|]; [|discriminate].
        cbn [block_exec block_step] in *. injection E0 as <-. reflexivity.
      * rewrite app_nil_r in E0. rewrite block_exec_app, E0. reflexivity.
Qed.

(* The state after any history is the state after the last Resize alone on a new object
   (followed by Destroy when one came after it). *)
Theorem block_history_independent kind src ops s :
  block_exec kind src b_new ops = Some s ->
  block_exec kind src b_new (bsum_ops (bsum ops)) = Some s.
Proof. intros E. apply (block_exec_summary kind src ops (None, false) b_new b_new s); [reflexivity | exact E]. Qed.

(* ... so what a Draw shows is a function of the source and the box of the last Resize (block_shown) *)
Theorem block_draw_after_history kind src ops s ww wh :
  kind = 0 \/ kind = 1 -> src_ok src = true -> forallb bop_ok ops = true ->
  block_exec kind src b_new ops = Some s ->
  exists dr, block_shown kind src (bsum ops) ww wh = Some dr /\
             block_step kind src s (BDraw ww wh) = Some (s, (0, b_width s, b_height s, empty_image, dr)).
Proof.
  intros Hk Hs OK E. apply block_history_independent in E.
  assert (BO : match fst (bsum ops) with Some (w, h) => box_ok w h = true | None => True end).
  { unfold bsum. assert (G : forall l m, forallb bop_ok l = true ->
        match fst m with Some (w, h) => box_ok w h = true | None => True end ->
        match fst (fold_left bsum_step l m) with Some (w, h) => box_ok w h = true | None => True end).
    { induction l as [|o t IH]; intros m O M; [exact M|]. cbn [forallb] in O. apply andb_prop in O. destruct O as [O1 O2].
      cbn [fold_left]. apply IH; [exact O2|]. destruct o; cbn [bsum_step fst]; auto. }
    apply G; [exact OK | exact I]. }
  unfold block_shown, bsum_ops in *. destruct (bsum ops) as [[[w h]|] d]; cbn [fst snd] in *.
  - destruct (block_resize_facts src w h Hs BO) as [im [RI [P1 [P2 [BC _]]]]].
    cbn [app block_exec block_step] in E. rewrite RI in *. rewrite BC in E. cbn [fst snd] in E.
    destruct d; cbn [app block_exec block_step b_width b_height b_cells] in E; injection E as <-;
      cbn [block_step b_width b_height b_cells is_nil negb].
    + rewrite andb_false_r. eexists; split; reflexivity.
    + assert (NP : (iw im =? 0) && negb (is_nil (block_encode (enc_of kind) im)) = false).
      { destruct (iw im =? 0) eqn:E0; [|reflexivity].
        assert (L : zlen (block_encode (enc_of kind) im) = 0) by (rewrite block_encode_len by assumption; lia).
        apply zlen_zero_nil in L. rewrite L. reflexivity. }
      rewrite NP. eexists; split; reflexivity.
  - destruct d; cbn [app block_exec block_step b_new b_width b_height b_cells] in E; injection E as <-;
      cbn [block_step b_new b_width b_height b_cells is_nil negb]; rewrite andb_false_r;
      eexists; split; reflexivity.
Qed.

(* the cell size after any history is that of the last Resize: inside its box, never upscaled *)
Theorem block_cell_size_after_history kind src ops s w h :
  src_ok src = true -> box_ok w h = true ->
  block_exec kind src b_new ops = Some s -> fst (bsum ops) = Some (w, h) ->
  0 <= b_width s <= w /\ 0 <= b_height s <= h /\
  b_width s <= iw src /\ b_height s <= (ih src + 1) / 2 /\
  block_cell_size (iw src) (ih src) w h = Some (b_width s, b_height s).
Proof.
  intros Hs Hb E L. apply block_history_independent in E.
  unfold bsum_ops in E. rewrite L in E. cbn [app block_exec block_step] in E.
  destruct (block_resize_facts src w h Hs Hb) as [im [RI [P1 [P2 [BC RO]]]]].
  rewrite RI in E. rewrite BC in E. cbn [fst snd] in E.
  assert (CS : block_cell_size (iw src) (ih src) w h = Some (iw im, (ih im + 1) / 2)).
  { unfold block_cell_size. unfold resize_image in RI.
    destruct (resize_dims (iw src) (ih src) w h 1 2) as [| |nw nh]; try discriminate.
    destruct ((nw =? iw src) && (nh =? ih src)) eqn:Q; injection RI as <-.
    - assert (nw = iw src /\ nh = ih src) as [-> ->] by lia. exact (f_equal Some BC).
    - cbn [nn_scale iw ih] in *. exact (f_equal Some BC). }
  unfold block_resized_ok in RO.
  assert (W : b_width s = iw im /\ b_height s = (ih im + 1) / 2).
  { destruct (snd (bsum ops)); cbn [app block_exec block_step b_width b_height] in E; injection E as <-; split; reflexivity. }
  destruct W as [-> ->]. rewrite CS. repeat split; lia.
Qed.

Theorem block_cell_size_no_resize kind src ops s :
  block_exec kind src b_new ops = Some s -> fst (bsum ops) = None -> b_width s = 0 /\ b_height s = 0.
Proof.
  intros E L. apply block_history_independent in E. unfold bsum_ops in E. rewrite L in E.
  destruct (snd (bsum ops)); cbn [app block_exec block_step b_new b_width b_height] in E; injection E as <-; split; reflexivity.
Qed.

(* Destroy, then Draw: nothing is drawn (and nothing panics), whatever the object was *)
Theorem block_destroy_then_draw kind src s ww wh :
  exists s', block_step kind src s BDestroy = Some (s', (0, b_width s, b_height s, empty_image, [])) /\
             block_step kind src s' (BDraw ww wh) = Some (s', (0, b_width s, b_height s, empty_image, [])).
Proof.
  eexists. split; [reflexivity|]. cbn [block_step b_width b_height b_cells is_nil negb]. rewrite andb_false_r. reflexivity.
Qed.

(* ================================================================== kitty / sixel image objects *)

Lemma geom_ok_dom wPix hPix cw ch : geom_ok wPix hPix cw ch = true -> dom wPix /\ dom hPix /\ dom cw /\ dom ch.
Proof. unfold geom_ok, dom. lia. Qed.

Lemma gfx_resize_facts wPix hPix cw ch w h :
  geom_ok wPix hPix cw ch = true -> box_ok w h = true ->
  exists nw nh, resize_dims wPix hPix w h cw ch = RDims nw nh /\ 0 <= nw /\ 0 <= nh /\
    gfx_resized_ok wPix hPix cw ch w h (ceil_div nw cw) (ceil_div nh ch) nw nh = true.
Proof.
  intros G B. destruct (geom_ok_dom _ _ _ _ G) as [DW [DH [Dcw Dch]]].
  destruct (box_ok_cases w h B) as [[Dw Dh] | [Pw [Ph Z0]]].
  - destruct (fits_box wPix hPix w h cw ch DW DH Dw Dh Dcw Dch) as [nw [nh [E [P1 [P2 [F1 F2]]]]]].
    destruct (kitty_cells_fit wPix hPix w h cw ch DW DH Dw Dh Dcw Dch) as [c1 [c2 [KE [K1 [K2 [K3 K4]]]]]].
    unfold kitty_cell_size in KE. rewrite E in KE. unfold pix_cells in KE. injection KE as <- <-.
    exists nw, nh. repeat split; try assumption.
    unfold gfx_resized_ok. rewrite !Z.eqb_refl.
    replace ((0 <? w) && (0 <? h)) with true by (unfold dom in *; lia).
    rewrite (resize_ok_model wPix hPix w h cw ch nw nh DW DH Dw Dh Dcw Dch E). lia.
  - unfold dom in *. rewrite (resize_dims_empty_box wPix hPix w h cw ch) by lia.
    exists 0, 0. repeat split; try lia.
    unfold gfx_resized_ok. rewrite !ceil_div_0 by lia.
    pose proof (ceil_div_pos wPix cw ltac:(lia) ltac:(lia)). pose proof (ceil_div_pos hPix ch ltac:(lia) ltac:(lia)).
    replace ((0 <? w) && (0 <? h)) with false by lia. cbn. lia.
Qed.

(* the invariant between the world of one object and what the property remembers *)
Definition ginv (kind : Z) (g : gworld) (sp : hspec) : Prop :=
  g_placed g = hs_placed sp /\
  match hs_cur sp with
  | Some p =>
      o_w (g_obj g) = hs_w sp /\ o_h (g_obj g) = hs_h sp /\ g_lastpic g = Some p /\
      if kind =? 2
      then 0 < o_w (g_obj g) /\ 0 < o_h (g_obj g) /\
           ((o_uploaded (g_obj g) = false /\ o_buf (g_obj g) = Some p /\ hs_resized sp = true) \/
            (o_uploaded (g_obj g) = true /\ g_term g = Some p /\ hs_term sp = Some p))
      else o_buf (g_obj g) = Some p
  | None => if kind =? 2 then o_w (g_obj g) = 0 \/ o_h (g_obj g) = 0 else o_buf (g_obj g) = None
  end.

Lemma opic_eqb_refl p : opic_eqb p p = true.
Proof. destruct p as [[a b]|]; [|reflexivity]. unfold opic_eqb, option_eqb, pic_eqb. cbn [fst snd]. rewrite !Z.eqb_refl. reflexivity. Qed.

Lemma opic_eqb_eq p q : opic_eqb p q = true <-> p = q.
Proof.
  split; [|intros ->; apply opic_eqb_refl].
  destruct p as [[a b]|], q as [[c d]|]; unfold opic_eqb, option_eqb, pic_eqb; cbn [fst snd]; try discriminate; try reflexivity.
  intros H. assert (a = c /\ b = d) as [-> ->] by lia. reflexivity.
Qed.

Ltac fin := repeat match goal with
                   | |- _ /\ _ => split
                   | |- _ = _ => reflexivity
                   | |- True => exact Logic.I
                   end.

Ltac gsimpl := cbn [andb orb negb b2z pic_w pic_h hs_cur hs_w hs_h hs_term hs_resized hs_placed
                    g_obj g_placed g_term g_lastpic o_w o_h o_uploaded o_buf Z.eqb Pos.eqb].

Lemma show_step_ok kind wPix hPix cw ch g sp ww wh g' ob :
  kind = 2 \/ kind = 3 -> ginv kind g sp ->
  gfx_step kind wPix hPix cw ch g (HShow ww wh) = Some (g', ob) ->
  show_ok kind sp ww wh ob = true /\ ginv kind g' (hspec_show kind sp ww wh) /\
  hs_cur (hspec_show kind sp ww wh) = hs_cur sp.
Proof.
  intros Hk I ST.
  destruct g as [[ow oh up buf] pl term lp]. destruct sp as [cur hw hh ht rs hp].
  unfold ginv in I. gsimpl. cbn [g_obj g_placed g_term g_lastpic o_w o_h o_uploaded o_buf hs_cur hs_w hs_h hs_term hs_resized hs_placed] in *.
  destruct I as [-> IC].
  unfold show_ok, hspec_show, ginv. unfold hspec_places.
  cbn [gfx_step g_obj g_placed g_term g_lastpic o_w o_h o_uploaded o_buf hs_cur hs_w hs_h hs_term hs_resized hs_placed] in *.
  destruct Hk as [-> | ->]; cbn [Z.eqb Pos.eqb] in *; injection ST as <- <-; rewrite ?Z.eqb_refl.
  - (* kitty *)
    destruct cur as [[pw ph]|].
    + destruct IC as [-> [-> [-> [PW [PH IC]]]]].
      assert (F : negb ((hw =? 0) || (hh =? 0)) && negb ((ww <? hw) || (wh <? hh)) = (hw <=? ww) && (hh <=? wh)) by lia.
      rewrite F. change (opic_eqb (Some (pw, ph)) None) with false. rewrite !Z.eqb_refl. gsimpl.
      destruct IC as [[-> [-> ->]] | [-> [-> ->]]]; gsimpl;
        destruct ((hw <=? ww) && (hh <=? wh)); gsimpl;
        rewrite ?opic_eqb_refl; change (opic_eqb (Some (pw, ph)) None) with false; gsimpl; rewrite ?Z.eqb_refl.
      * split; [destruct (negb (opic_eqb ht (Some (pw, ph)))); reflexivity|]. fin; try assumption. right. fin.
      * fin; try assumption. left. fin.
      * split; [destruct rs; reflexivity|]. fin; try assumption. right. fin.
      * fin; try assumption. right. fin.
    + assert (F : negb ((ow =? 0) || (oh =? 0)) = false) by lia. rewrite F.
      cbn [opic_eqb option_eqb]. gsimpl. fin. exact IC.
  - (* sixel *)
    destruct cur as [[pw ph]|].
    + destruct IC as [-> [-> [-> ->]]].
      assert (F : negb ((ww <? hw) || (wh <? hh)) = (hw <=? ww) && (hh <=? wh)) by lia. rewrite F.
      change (opic_eqb (Some (pw, ph)) None) with false. rewrite !Z.eqb_refl. gsimpl.
      destruct ((hw <=? ww) && (hh <=? wh)); gsimpl; rewrite ?opic_eqb_refl; gsimpl; rewrite ?Z.eqb_refl; fin.
    + rewrite IC. cbn [opic_eqb option_eqb]. gsimpl. rewrite !andb_false_r. gsimpl. fin.
Qed.

Lemma gfx_run_cons kind wPix hPix cw ch g o t obs :
  gfx_run kind wPix hPix cw ch g (o :: t) = Some obs ->
  exists g' ob obs', gfx_step kind wPix hPix cw ch g o = Some (g', ob) /\
                     gfx_run kind wPix hPix cw ch g' t = Some obs' /\ obs = ob :: obs'.
Proof.
  cbn [gfx_run]. destruct (gfx_step kind wPix hPix cw ch g o) as [[g' ob]|]; [|discriminate].
  destruct (gfx_run kind wPix hPix cw ch g' t) as [obs'|] eqn:E; [|discriminate]. intros H. injection H as <-.
  exists g', ob, obs'. repeat split. exact E.
Qed.

(* the model meets the property predicate on every history *)
Theorem gfx_model_ok kind wPix hPix cw ch :
  kind = 2 \/ kind = 3 -> geom_ok wPix hPix cw ch = true ->
  forall ops g sp obs,
    forallb hop_ok ops = true -> ginv kind g sp ->
    gfx_run kind wPix hPix cw ch g ops = Some obs ->
    gfxhist_ok kind wPix hPix cw ch sp (combine ops obs) = true.
Proof.
  intros Hk G. destruct (geom_ok_dom _ _ _ _ G) as [_ [_ [Dcw Dch]]].
  induction ops as [|o t IH]; intros g sp obs OK I R; [reflexivity|].
  cbn [forallb] in OK. apply andb_prop in OK. destruct OK as [O1 O2].
  destruct (gfx_run_cons _ _ _ _ _ _ _ _ _ R) as [g' [ob [obs' [ST [RT ->]]]]]. clear R.
  cbn [combine] in *.
  destruct o as [w h | ww wh |].
  - (* Resize *)
    cbn [hop_ok] in O1. destruct (gfx_resize_facts wPix hPix cw ch w h G O1) as [nw [nh [E [P1 [P2 RO]]]]].
    cbn [gfx_step] in ST. rewrite E in ST. unfold pix_cells in ST.
    injection ST as <- <-. cbn [gfxhist_ok]. rewrite RO. cbn [Z.eqb andb].
    refine (IH _ _ _ O2 _ RT).
    destruct g as [[ow oh up buf] pl term lp]. destruct sp as [cur hw hh ht rs hp].
    unfold ginv in *. unfold hspec_resize.
    cbn [g_obj g_placed g_term g_lastpic o_w o_h o_uploaded o_buf hs_cur hs_w hs_h hs_term hs_resized hs_placed] in *.
    destruct I as [-> _].
    assert (EM : (nw <=? 0) || (nh <=? 0) = negb ((0 <? nw) && (0 <? nh))) by lia. rewrite EM.
    unfold dom in Dcw, Dch.
    destruct Hk as [-> | ->]; cbn [Z.eqb Pos.eqb]; destruct ((0 <? nw) && (0 <? nh)) eqn:NE; cbn [negb o_w o_h o_uploaded o_buf]; fin.
    + apply ceil_div_pos; lia.
    + apply ceil_div_pos; lia.
    + left. fin.
    + assert (nw = 0 \/ nh = 0) as [-> | ->] by lia; [left | right]; apply ceil_div_0; lia.
  - (* Show *)
    cbn [gfxhist_ok].
    destruct (show_step_ok _ _ _ _ _ _ _ _ _ _ _ Hk I ST) as [S1 [S2 S3]]. rewrite S1. cbn [andb].
    exact (IH _ _ _ O2 S2 RT).
  - (* Destroy *)
    cbn [gfx_step] in ST. cbn [gfxhist_ok].
    destruct g as [[ow oh up buf] pl term lp]. destruct sp as [cur hw hh ht rs hp].
    unfold ginv in I. cbn [g_obj g_placed g_term g_lastpic o_w o_h o_uploaded o_buf hs_cur hs_w hs_h hs_term hs_resized hs_placed] in *.
    destruct I as [-> _].
    destruct Hk as [-> | ->]; cbn [Z.eqb Pos.eqb] in *; injection ST as <- <-; cbn [Z.eqb andb];
      refine (IH _ _ _ O2 _ RT); unfold ginv, hspec_destroy;
      cbn [g_obj g_placed g_term g_lastpic o_w o_h o_uploaded o_buf hs_cur hs_w hs_h hs_term hs_resized hs_placed Z.eqb Pos.eqb]; fin.
    left. reflexivity.
Qed.

Lemma ginv_new kind : kind = 2 \/ kind = 3 -> ginv kind gworld0 hspec0.
Proof. intros [-> | ->]; unfold ginv; cbn; fin. left. reflexivity. Qed.

Lemma gfx_run_total kind wPix hPix cw ch :
  geom_ok wPix hPix cw ch = true ->
  forall ops g, forallb hop_ok ops = true -> exists obs, gfx_run kind wPix hPix cw ch g ops = Some obs.
Proof.
  intros G. induction ops as [|o t IH]; intros g OK; [exists []; reflexivity|].
  cbn [forallb] in OK. apply andb_prop in OK. destruct OK as [O1 O2]. cbn [gfx_run].
  assert (S : exists g' ob, gfx_step kind wPix hPix cw ch g o = Some (g', ob)).
  { destruct o as [w h | ww wh |]; cbn [gfx_step].
    - destruct (gfx_resize_facts wPix hPix cw ch w h G O1) as [nw [nh [E _]]]. rewrite E. unfold pix_cells.
      eexists; eexists; reflexivity.
    - destruct (kind =? 2); eexists; eexists; reflexivity.
    - destruct (kind =? 2); eexists; eexists; reflexivity. }
  destruct S as [g' [ob ->]]. destruct (IH g' O2) as [obs' ->]. eexists; reflexivity.
Qed.

(* the cell size after any history is that of the last Resize (none after a KittyImage's Destroy) *)
Theorem gfx_cell_size_after_history kind wPix hPix cw ch :
  geom_ok wPix hPix cw ch = true ->
  forall ops g acc g',
    forallb hop_ok ops = true ->
    match acc with
    | Some (w, h) => kitty_cell_size wPix hPix w h cw ch = Some (o_w (g_obj g), o_h (g_obj g))
    | None => o_w (g_obj g) = 0 /\ o_h (g_obj g) = 0
    end ->
    gfx_exec kind wPix hPix cw ch g ops = Some g' ->
    match last_box kind acc ops with
    | Some (w, h) => kitty_cell_size wPix hPix w h cw ch = Some (o_w (g_obj g'), o_h (g_obj g'))
    | None => o_w (g_obj g') = 0 /\ o_h (g_obj g') = 0
    end.
Proof.
  intros G. induction ops as [|o t IH]; intros g acc g' OK A E.
  - cbn [gfx_exec] in E. injection E as <-. exact A.
  - cbn [forallb] in OK. apply andb_prop in OK. destruct OK as [O1 O2]. cbn [gfx_exec] in E.
    destruct (gfx_step kind wPix hPix cw ch g o) as [[g1 ob]|] eqn:ST; [|discriminate].
    destruct o as [w h | ww wh |]; cbn [last_box].
    + apply (IH g1 (Some (w, h)) g' O2); [|exact E].
      cbn [hop_ok] in O1. destruct (gfx_resize_facts wPix hPix cw ch w h G O1) as [nw [nh [RD _]]].
      cbn [gfx_step] in ST. rewrite RD in ST. unfold pix_cells in ST.
      unfold kitty_cell_size. rewrite RD. unfold pix_cells.
      injection ST as <- _. cbn [g_obj].
      destruct (kind =? 2); destruct ((nw <=? 0) || (nh <=? 0)); reflexivity.
    + apply (IH g1 acc g' O2); [|exact E].
      cbn [gfx_step] in ST. destruct (kind =? 2); injection ST as <- _; cbn [g_obj]; [|exact A].
      match goal with |- context [if ?c then _ else _] => destruct c end; exact A.
    + cbn [gfx_step] in ST. destruct (kind =? 2); injection ST as <- _.
      * refine (IH _ None g' O2 _ E). cbn [g_obj o_w o_h]. split; reflexivity.
      * refine (IH _ acc g' O2 _ E). cbn [g_obj o_w o_h]. exact A.
Qed.

(* a Sixel was never under the former guard *)
Lemma sixel_unguarded tr : forall cur, no_encoding_guard 3 cur tr = false.
Proof.
  induction tr as [|[o ob] t IH]; intros cur; [reflexivity|].
  destruct o as [w h | ww wh |]; cbn [no_encoding_guard].
  - destruct ob as [[[[[[[[[a1 a2] a3] a4] a5] a6] a7] a8] a9] a10]. apply IH.
  - cbn [Z.eqb Pos.eqb andb orb]. apply IH.
  - apply IH.
Qed.

(* from a new object: the statements as the property file quotes them *)
Theorem block_model_ok_new kind src ops obs :
  kind = 0 \/ kind = 1 -> src_ok src = true -> forallb bop_ok ops = true ->
  block_run kind src b_new ops = Some obs ->
  blockhist_ok kind src bspec0 (combine ops obs) = true.
Proof. intros Hk Hs OK R. exact (block_model_ok kind src Hk Hs ops b_new bspec0 obs OK (binv_new kind) R). Qed.

Theorem gfx_model_ok_new kind wPix hPix cw ch ops obs :
  kind = 2 \/ kind = 3 -> geom_ok wPix hPix cw ch = true -> forallb hop_ok ops = true ->
  gfx_run kind wPix hPix cw ch gworld0 ops = Some obs ->
  gfxhist_ok kind wPix hPix cw ch hspec0 (combine ops obs) = true.
Proof. intros Hk G OK R. exact (gfx_model_ok kind wPix hPix cw ch Hk G ops gworld0 hspec0 obs OK (ginv_new kind Hk) R). Qed.

Theorem gfx_cell_size_after_history_new kind wPix hPix cw ch ops g :
  geom_ok wPix hPix cw ch = true -> forallb hop_ok ops = true ->
  gfx_exec kind wPix hPix cw ch gworld0 ops = Some g ->
  match last_box kind None ops with
  | Some (w, h) =>
      kitty_cell_size wPix hPix w h cw ch = Some (o_w (g_obj g), o_h (g_obj g)) /\
      (0 < w -> 0 < h ->
       0 <= o_w (g_obj g) <= w /\ 0 <= o_h (g_obj g) <= h /\
       o_w (g_obj g) <= ceil_div wPix cw /\ o_h (g_obj g) <= ceil_div hPix ch)
  | None => o_w (g_obj g) = 0 /\ o_h (g_obj g) = 0
  end.
Proof.
  intros G OK E.
  pose proof (gfx_cell_size_after_history kind wPix hPix cw ch G ops gworld0 None g OK (conj eq_refl eq_refl) E) as K.
  assert (Q : forall l acc, forallb hop_ok l = true ->
              match acc with Some (a, b) => box_ok a b = true | None => True end ->
              match last_box kind acc l with Some (a, b) => box_ok a b = true | None => True end).
  { induction l as [|o t IH]; intros acc O A; [exact A|]. cbn [forallb] in O. apply andb_prop in O. destruct O as [O1 O2].
    destruct o; cbn [last_box]; apply IH; auto. destruct (kind =? 2); [exact Logic.I | exact A]. }
  specialize (Q ops None OK Logic.I).
  destruct (last_box kind None ops) as [[w h]|]; [|exact K].
  split; [exact K|]. intros Pw Ph.
  destruct (geom_ok_dom _ _ _ _ G) as [DW [DH [Dcw Dch]]].
  assert (Dw : dom w) by (unfold box_ok, dom in *; lia). assert (Dh : dom h) by (unfold box_ok, dom in *; lia).
  destruct (kitty_cells_fit wPix hPix w h cw ch DW DH Dw Dh Dcw Dch) as [c1 [c2 [KE F]]].
  rewrite K in KE. injection KE as <- <-. exact F.
Qed.
