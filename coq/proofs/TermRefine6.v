(* C06 - the decidable statement of the property on observed histories (model/VtCheck.v)
   against the model: a history on which the implementation's observations are the model's
   (no mismatch) satisfies the statement on every observation (no violation); and the
   statement on every observation implies the one on the complete observations only. *)
From Vx Require Import base.Prelude base.ListX model.Colour model.Sgr model.Term model.TermCheck
  model.VtSpec model.TermAbs model.VtCheck proofs.TermProofs proofs.TermRefine proofs.TermRefine5.
Require Import ZifyBool Lia.

Local Open Scope Z_scope.

(* ------------------------------------------------------------------ boolean equalities *)

Lemma r6_zlist_true a b : zlist_eqb a b = true -> a = b.
Proof.
  revert b; induction a as [|x a IH]; intros [|y b] H; cbn in H; try discriminate; [reflexivity|].
  apply andb_prop in H; destruct H as [H1 H2]. apply Z.eqb_eq in H1. f_equal; [exact H1|now apply IH].
Qed.

Lemma r6_list_refl {A} (e : A -> A -> bool) l : (forall x, e x x = true) -> list_eqb e l l = true.
Proof. intros He; induction l as [|x l IH]; cbn; [reflexivity|]. rewrite He, IH; reflexivity. Qed.

Lemma r6_zlist_refl a : zlist_eqb a a = true.
Proof. apply r6_list_refl, Z.eqb_refl. Qed.

Lemma r6_zll_true a b : zll_eqb a b = true -> a = b.
Proof.
  revert b; induction a as [|x a IH]; intros [|y b] H; cbn in H; try discriminate; [reflexivity|].
  apply andb_prop in H; destruct H as [H1 H2]. apply r6_zlist_true in H1. f_equal; [exact H1|now apply IH].
Qed.

Lemma r6_pen_true a b : pen_eqb a b = true -> a = b.
Proof.
  destruct a, b; unfold pen_eqb; cbn. intros H.
  repeat (apply andb_prop in H; destruct H as [H ?]).
  f_equal; lia.
Qed.

Lemma r6_style_true a b : style_eqb a b = true -> a = b.
Proof.
  destruct a as [p l lp], b as [p' l' lp']; unfold style_eqb; cbn. intros H.
  apply andb_prop in H; destruct H as [H H3]. apply andb_prop in H; destruct H as [H1 H2].
  apply r6_pen_true in H1. apply r6_zlist_true in H2, H3. congruence.
Qed.

Lemma r6_pen_refl a : pen_eqb a a = true.
Proof. unfold pen_eqb. rewrite !Z.eqb_refl. reflexivity. Qed.

Lemma r6_style_refl a : style_eqb a a = true.
Proof. unfold style_eqb. rewrite r6_pen_refl, !r6_zlist_refl. reflexivity. Qed.

Lemma r6_tcell_true a b : tcell_eqb a b = true -> a = b.
Proof.
  destruct a as [g w s wr], b as [g' w' s' wr']; unfold tcell_eqb; cbn. intros H.
  repeat (apply andb_prop in H; destruct H as [H ?]).
  apply r6_zlist_true in H. apply r6_style_true in H1. apply Bool.eqb_prop in H0. apply Z.eqb_eq in H2.
  congruence.
Qed.

Lemma r6_scells_true a b : list_eqb scell_eqb a b = true -> a = b.
Proof.
  revert b; induction a as [|x a IH]; intros [|y b] H; cbn in H; try discriminate; [reflexivity|].
  apply andb_prop in H; destruct H as [H1 H2]. f_equal; [|now apply IH].
  destruct x as [[r c] x], y as [[r' c'] y]. cbn in H1.
  apply andb_prop in H1; destruct H1 as [H1 H3]. apply andb_prop in H1; destruct H1 as [H1 H4].
  apply r6_tcell_true in H3. apply Z.eqb_eq in H1, H4. congruence.
Qed.

Lemma r6_titem_true a b : titem_eqb a b = true -> a = b.
Proof.
  destruct a, b; cbn; intros H; try discriminate; try reflexivity;
    repeat (apply andb_prop in H; destruct H as [H ?]);
    repeat match goal with
           | Hz : zlist_eqb _ _ = true |- _ => apply r6_zlist_true in Hz
           | Hz : zll_eqb _ _ = true |- _ => apply r6_zll_true in Hz
           | Hz : (_ =? _) = true |- _ => apply Z.eqb_eq in Hz
           end; congruence.
Qed.

Lemma r6_disp_refl d : disp_eqb d d = true.
Proof. destruct d; cbn; [apply Z.eqb_refl|]. rewrite r6_zlist_refl, Z.eqb_refl, r6_style_refl. reflexivity. Qed.

Lemma r6_dgrid_refl g : dgrid_eqb g g = true.
Proof. apply r6_list_refl. intros l. apply r6_list_refl, r6_disp_refl. Qed.

Lemma r6_slot_refl s : slot_eqb s s = true.
Proof. destruct s as [[r c] p]; cbn. rewrite !Z.eqb_refl, r6_style_refl. reflexivity. Qed.

Lemma r6_vt_refl v : vt_eqb v v = true.
Proof.
  unfold vt_eqb. rewrite !Z.eqb_refl, !r6_dgrid_refl, r6_style_refl, !r6_slot_refl, Bool.eqb_reflx.
  destruct (v_hidden v); cbn; [rewrite r6_dgrid_refl|]; reflexivity.
Qed.

(* ------------------------------------------------------------------ sparse / dense *)

Definition hit (r c : Z) (e : scell) : bool := let '(r', c', _) := e in (r =? r') && (c =? c').

Lemma find_nohit l r c : (forall e, In e l -> hit r c e = false) -> find_cell l r c = cell0.
Proof.
  induction l as [|[[r' c'] x] l IH]; intros H; cbn; [reflexivity|].
  pose proof (H _ (or_introl eq_refl)) as H0; cbn in H0. rewrite H0. apply IH. intros e He; apply H; right; exact He.
Qed.

Lemma find_app_nohit a b r c : (forall e, In e a -> hit r c e = false) -> find_cell (a ++ b) r c = find_cell b r c.
Proof.
  induction a as [|[[r' c'] x] a IH]; intros H; cbn; [reflexivity|].
  pose proof (H _ (or_introl eq_refl)) as H0; cbn in H0. rewrite H0. apply IH. intros e He; apply H; right; exact He.
Qed.

Lemma sparse_row_in line : forall r c0 e, In e (sparse_row r c0 line) -> exists c' x, e = (r, c', x) /\ c0 <= c'.
Proof.
  induction line as [|x line IH]; intros r c0 e H; cbn in H; [contradiction|].
  destruct (tcell_eqb x cell0).
  - destruct (IH _ _ _ H) as [c' [y [E L]]]. exists c', y; split; [exact E|lia].
  - destruct H as [H|H]; [exists c0, x; split; [symmetry; exact H|lia]|].
    destruct (IH _ _ _ H) as [c' [y [E L]]]. exists c', y; split; [exact E|lia].
Qed.

Lemma sparse_grid_in g : forall r0 e, In e (sparse_grid r0 g) -> exists r' c' x, e = (r', c', x) /\ r0 <= r'.
Proof.
  induction g as [|l g IH]; intros r0 e H; cbn in H; [contradiction|].
  apply in_app_or in H; destruct H as [H|H].
  - destruct (sparse_row_in _ _ _ _ H) as [c' [x [E _]]]. exists r0, c', x; split; [exact E|lia].
  - destruct (IH _ _ H) as [r' [c' [x [E L]]]]. exists r', c', x; split; [exact E|lia].
Qed.

Lemma find_sparse_row line : forall r c0 rest j,
  (j < length line)%nat ->
  (forall e, In e rest -> hit r (c0 + Z.of_nat j) e = false) ->
  find_cell (sparse_row r c0 line ++ rest) r (c0 + Z.of_nat j) = nth j line cell0.
Proof.
  induction line as [|x line IH]; intros r c0 rest j Hj Hrest; cbn in Hj; [lia|].
  destruct j as [|j].
  - cbn [nth sparse_row]. replace (c0 + Z.of_nat 0) with c0 in * by lia.
    destruct (tcell_eqb x cell0) eqn:E.
    + apply r6_tcell_true in E; subst x.
      apply find_nohit. intros e He. apply in_app_or in He; destruct He as [He|He]; [|apply Hrest; exact He].
      destruct (sparse_row_in _ _ _ _ He) as [c' [y [Ee L]]]; subst e; unfold hit.
      apply Bool.andb_false_iff; right; apply Z.eqb_neq; lia.
    + cbn. rewrite !Z.eqb_refl. reflexivity.
  - cbn [nth sparse_row]. replace (c0 + Z.of_nat (S j)) with ((c0 + 1) + Z.of_nat j) in * by lia.
    destruct (tcell_eqb x cell0) eqn:E.
    + apply IH; [lia|exact Hrest].
    + cbn [app find_cell]. replace (c0 + 1 + Z.of_nat j =? c0) with false by lia. rewrite andb_false_r.
      apply IH; [lia|exact Hrest].
Qed.

Lemma find_sparse_grid g : forall r0 i j,
  (i < length g)%nat -> (j < length (nth i g []))%nat ->
  find_cell (sparse_grid r0 g) (r0 + Z.of_nat i) (Z.of_nat j) = nth j (nth i g []) cell0.
Proof.
  induction g as [|l g IH]; intros r0 i j Hi Hj; cbn in Hi; [lia|].
  destruct i as [|i]; cbn [nth sparse_grid] in *.
  - replace (r0 + Z.of_nat 0) with r0 by lia.
    change (Z.of_nat j) with (0 + Z.of_nat j) at 1. replace (Z.of_nat j) with (0 + Z.of_nat j) at 1 by lia.
    apply find_sparse_row; [exact Hj|].
    intros e He. destruct (sparse_grid_in _ _ _ He) as [r' [c' [x [Ee L]]]]; subst e; unfold hit.
    apply Bool.andb_false_iff; left; apply Z.eqb_neq; lia.
  - rewrite find_app_nohit.
    + replace (r0 + Z.of_nat (S i)) with ((r0 + 1) + Z.of_nat i) by lia. apply IH; [lia|exact Hj].
    + intros e He. destruct (sparse_row_in _ _ _ _ He) as [c' [x [Ee _]]]; subst e; unfold hit.
      apply Bool.andb_false_iff; left; apply Z.eqb_neq; lia.
Qed.

Lemma map_seq_nth {A} (d : A) (l : list A) : forall k (f : nat -> A),
  (forall i, (i < length l)%nat -> f (k + i)%nat = nth i l d) -> map f (seq k (length l)) = l.
Proof.
  induction l as [|x l IH]; intros k f H; cbn; [reflexivity|]. f_equal.
  - pose proof (H 0%nat ltac:(cbn; lia)) as H0. rewrite Nat.add_0_r in H0. exact H0.
  - apply IH. intros i Hi. replace (S k + i)%nat with (k + S i)%nat by lia. apply (H (S i)). cbn; lia.
Qed.

Lemma dense_sparse w h g : grid_ok w h g -> dense h w (sparse_grid 0 g) = g.
Proof.
  intros [Hh Hrows]. unfold dense, zseq. rewrite map_map.
  replace (Z.to_nat h) with (length g) by (unfold zlen in Hh; lia).
  apply (map_seq_nth []). intros i Hi. cbn [plus].
  assert (Hl : zlen (nth i g []) = w).
  { rewrite Forall_forall in Hrows. apply (Hrows (nth i g [])). apply nth_In; exact Hi. }
  rewrite map_map. replace (Z.to_nat w) with (length (nth i g [])) by (unfold zlen in Hl; lia).
  apply (map_seq_nth cell0). intros j Hj. cbn [plus].
  replace (Z.of_nat i) with (0 + Z.of_nat i) by lia. apply find_sparse_grid; assumption.
Qed.

(* ------------------------------------------------------------------ an observation of a model state *)

Lemma abs_ext t t' :
  t_prim t' = t_prim t -> t_alt t' = t_alt t -> t_onalt t' = t_onalt t ->
  t_row t' = t_row t -> t_col t' = t_col t -> t_last t' = t_last t -> t_pen t' = t_pen t ->
  t_top t' = t_top t -> t_bot t' = t_bot t ->
  abs_saved (t_svp t') = abs_saved (t_svp t) -> abs_saved (t_sva t') = abs_saved (t_sva t) ->
  abs t' = abs t.
Proof.
  intros Hp Ha Ho Hr Hc Hl Hpen Ht Hb Hsp Hsa. unfold abs, height, width, active.
  rewrite Hp, Ha, Ho, Hr, Hc, Hl, Hpen, Ht, Hb, Hsp, Hsa. reflexivity.
Qed.

Lemma saved_eqb_abs a b : saved_eqb a b = true -> abs_saved b = abs_saved a.
Proof.
  unfold saved_eqb, abs_saved. intros H.
  repeat (apply andb_prop in H; destruct H as [H ?]).
  apply Z.eqb_eq in H. apply r6_style_true in H6.
  match goal with Hc : (s_col a =? s_col b) = true |- _ => apply Z.eqb_eq in Hc; rename Hc into Hcol end.
  congruence.
Qed.

(* what an observation that matches a model state shows of it *)
Lemma obs_matches_shows e w h t ob :
  WFs0 e w h t -> o_out ob = 0 -> obs_matches t ob = true -> obs_shows ob (abs t) = true.
Proof.
  intros W Hout H. unfold obs_matches in H.
  repeat (apply andb_prop in H; destruct H as [H ?]).
  repeat match goal with Hz : (_ =? _) = true |- _ => apply Z.eqb_eq in Hz end.
  repeat match goal with Hz : Bool.eqb _ _ = true |- _ => apply Bool.eqb_prop in Hz end.
  unfold obs_shows. rewrite Hout. change (0 =? 0) with true. cbn [andb].
  assert (HL : light_ok ob (abs t) = true).
  { unfold light_ok, abs; cbn.
    repeat match goal with Hz : _ = _ |- _ => rewrite Hz end.
    rewrite !Z.eqb_refl, Bool.eqb_reflx. reflexivity. }
  rewrite HL. cbn [andb].
  unfold term_of_obs. destruct (o_full ob) as [f|] eqn:Ef; [|reflexivity].
  match goal with Hf : full_matches t f = true |- _ => rename Hf into HF end.
  unfold full_matches in HF.
  do 9 (apply andb_prop in HF; destruct HF as [HF ?]).
  repeat match goal with Hz : list_eqb scell_eqb _ _ = true |- _ => apply r6_scells_true in Hz end.
  repeat match goal with Hz : saved_eqb _ _ = true |- _ => apply saved_eqb_abs in Hz end.
  apply r6_style_true in HF.
  match goal with Hz : Bool.eqb (t_onalt t) _ = true |- _ => apply Bool.eqb_prop in Hz; rename Hz into Honalt end.
  pose proof (WFs_height e w h t W) as Hh. pose proof (WFs_width e w h t W) as Hw.
  match goal with
  | |- vt_eqb (abs ?t') _ = true => assert (HA : abs t' = abs t)
  end.
  { apply abs_ext; cbn; try congruence.
    - replace (o_rows ob) with h by congruence. replace (o_cols ob) with w by congruence.
      replace (f_prim f) with (sparse_grid 0 (t_prim t)) by congruence. apply dense_sparse, W.
    - replace (o_rows ob) with h by congruence. replace (o_cols ob) with w by congruence.
      replace (f_alt f) with (sparse_grid 0 (t_alt t)) by congruence. apply dense_sparse, W. }
  rewrite HA. apply r6_vt_refl.
Qed.

(* ------------------------------------------------------------------ no mismatch => no violation *)

Definition enc_ok (s : vop * titem * obs) : bool := let '(o, it, _) := s in titem_eqb it (enc o).
Definition feed_of (s : vop * titem * obs) : hstep * obs := let '(_, it, o) := s in (HFeed true it, o).

Lemma check_every_none steps : forallb enc_ok steps = true -> spec_check_every None steps = true.
Proof.
  induction steps as [|[[o it] ob] rest IH]; intros H; cbn in *; [reflexivity|].
  apply andb_prop in H; destruct H as [H1 H2]. rewrite H1. cbn. apply IH, H2.
Qed.

Lemma check_every_of_model w h : forall steps t,
  Inv w h t -> forallb enc_ok steps = true ->
  check_steps t (map feed_of steps) = true ->
  spec_check_every (Some (abs t)) steps = true.
Proof.
  induction steps as [|[[o it] ob] rest IH]; intros t HI Henc Hc; [reflexivity|].
  cbn [forallb enc_ok] in Henc. apply andb_prop in Henc; destruct Henc as [He Henc].
  cbn [spec_check_every]. rewrite He. cbn [andb].
  apply r6_titem_true in He; subst it.
  destruct (spec_step (abs t) o) as [v1|] eqn:Es; [|apply check_every_none, Henc].
  unfold spec_step in Es.
  destruct (vop_ok o) eqn:Hok; cbn [negb] in Es; [|discriminate].
  destruct (v_pending (abs t) && negb (allowed_pending o)) eqn:Hp; [discriminate|].
  inversion Es; subst v1; clear Es.
  assert (Hpend : t_last t = true -> allowed_pending o = true).
  { intros Hl. change (v_pending (abs t)) with (t_last t) in Hp. rewrite Hl in Hp.
    destruct (allowed_pending o); [reflexivity | discriminate]. }
  destruct (sim_step w h t o HI Hok Hpend) as [t1 [E1 [I1 A1]]].
  assert (Hev : t_ev t = 0) by (destruct (wf_ev _ _ _ _ (Inv_WF w h t HI)) as [Hev _]; exact Hev).
  cbn [map feed_of check_steps hstep_run] in Hc. rewrite (drain_id t Hev), E1 in Hc.
  apply andb_prop in Hc; destruct Hc as [Hc Hrest]. apply andb_prop in Hc; destruct Hc as [Hout Hm].
  apply Z.eqb_eq in Hout.
  rewrite <- A1.
  rewrite (obs_matches_shows 0 w h t1 ob (Inv_WF w h t1 I1) Hout Hm). cbn [andb].
  apply IH; assumption.
Qed.

Lemma vt_history_eq cols rows o0 steps :
  vt_history (cols, rows, o0, steps) = (HResize cols rows, o0) :: map feed_of steps.
Proof. reflexivity. Qed.

Theorem no_mismatch_no_violation (c : vt_case) :
  vt_case_wf c = true -> hist_model_ok (vt_history c) = true -> vt_holds_every c = true.
Proof.
  destruct c as [[[cols rows] o0] steps]. intros Hwf Hm.
  unfold vt_case_wf in Hwf.
  repeat (apply andb_prop in Hwf; destruct Hwf as [Hwf ?]).
  assert (Hw : 2 <= cols <= 65535) by lia. assert (Hh : 2 <= rows <= 65535) by lia.
  destruct (start_inv cols rows Hw Hh) as [I0 A0].
  rewrite vt_history_eq in Hm. unfold hist_model_ok in Hm. cbn [check_steps hstep_run] in Hm.
  change (resize term_new cols rows) with (term_start cols rows) in Hm.
  rewrite (term_start_eq cols rows) in Hm by lia.
  apply andb_prop in Hm; destruct Hm as [Hm Hrest]. apply andb_prop in Hm; destruct Hm as [Hout Hm0].
  apply Z.eqb_eq in Hout.
  unfold vt_holds_every.
  replace (2 <=? cols) with true by lia. replace (2 <=? rows) with true by lia. cbn [andb].
  rewrite <- A0.
  rewrite (obs_matches_shows 0 cols rows _ o0 (Inv_WF _ _ _ I0) Hout Hm0). cbn [andb].
  match goal with Hf : match o_full o0 with _ => _ end = true |- _ => rewrite Hf end. cbn [andb].
  apply (check_every_of_model cols rows); [exact I0| |exact Hrest].
  match goal with Hf : forallb _ steps = true |- _ => exact Hf end.
Qed.

(* ------------------------------------------------------------------ every => complete *)

Lemma check_every_complete : forall steps v, spec_check_every v steps = true -> spec_check v steps = true.
Proof.
  induction steps as [|[[o it] ob] rest IH]; intros v H; [reflexivity|].
  cbn [spec_check_every spec_check] in *.
  apply andb_prop in H; destruct H as [H1 H]. rewrite H1. cbn [andb].
  destruct v as [v0|]; [|apply IH, H].
  destruct (spec_step v0 o) as [v1|]; [|apply IH, H].
  apply andb_prop in H; destruct H as [H2 H3]. unfold obs_shows in H2.
  apply andb_prop in H2; destruct H2 as [H2 H4]. apply andb_prop in H2; destruct H2 as [H2 _].
  rewrite H2, H4, (IH _ H3). reflexivity.
Qed.

Theorem holds_every_holds (c : vt_case) : vt_holds_every c = true -> vt_holds c = true.
Proof.
  destruct c as [[[cols rows] o0] steps]. unfold vt_holds_every, vt_holds. intros H.
  apply andb_prop in H; destruct H as [H Hs]. apply andb_prop in H; destruct H as [H Hf].
  apply andb_prop in H; destruct H as [H Ho]. apply andb_prop in H; destruct H as [Hc Hr].
  apply check_every_complete in Hs. rewrite Hs, Hc, Hr.
  unfold obs_shows in Ho.
  apply andb_prop in Ho; destruct Ho as [Ho Ht]. apply andb_prop in Ho; destruct Ho as [Ho _].
  rewrite Ho. cbn [andb].
  unfold term_of_obs in *. destruct (o_full o0); [|discriminate]. rewrite Ht. reflexivity.
Qed.
