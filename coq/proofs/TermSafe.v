(* C05 - events, histories and drawing over the emulator model: the theorems of C05. *)
From Vx Require Import base.Prelude base.ListX model.Colour model.Sgr model.Term model.TermCheck
  proofs.SgrProofs proofs.TermProofs.
Require Import ZifyBool Lia.

Local Open Scope Z_scope.

Ltac case_if :=
  match goal with
  | |- context[if ?b then _ else _] => destruct b eqn:?
  end.

(* ------------------------------------------------------------------ events *)

Definition okres' (e w h : Z) (r : tres term) : Prop := exists t', r = TOk t' /\ WFs0 e w h t'.

Lemma post_event_ok e w h t : WFs0 e w h t -> e < 2 ->
  okres' (e + 1) w h (post_event t).
Proof.
  intros H He; unfold post_event. destruct H as [? ? ? ? ? ? ? ? ? ? ? ? ? ? [Ee Hr]].
  destruct (t_ev t >=? 2) eqn:E; [lia|].
  eexists; split; [reflexivity|]. constructor; simpl; auto. split; lia.
Qed.

Lemma post_event_stall w h t : WFs0 2 w h t -> post_event t = TStall.
Proof.
  intros H; unfold post_event. destruct H as [? ? ? ? ? ? ? ? ? ? ? ? ? ? [Ee Hr]].
  destruct (t_ev t >=? 2) eqn:E; [reflexivity|lia].
Qed.

Lemma drain_ok e w h t : WFs0 e w h t -> WFs0 (if 0 <? e then e - 1 else e) w h (drain t).
Proof.
  intros H; unfold drain. destruct H as [? ? ? ? ? ? ? ? ? ? ? ? ? ? [Ee Hr]]. rewrite Ee.
  destruct (0 <? e) eqn:E; constructor; simpl; auto; split; lia.
Qed.

(* sequences as the parser delivers them *)
Definition item_ok (it : titem) : Prop :=
  match it with
  | TPrint _ w => 0 <= w
  | TCsi _ ps _ => Forall nonempty ps
  | _ => True
  end.

Lemma zlist_eqb_eq a : forall b, zlist_eqb a b = true -> a = b.
Proof.
  unfold zlist_eqb; induction a as [|x a IH]; intros [|y b] H; simpl in H; try discriminate; auto.
  apply andb_prop in H; destruct H as [H1 H2]. f_equal; [lia | now apply IH].
Qed.

Lemma key_is_eq k s : key_is k s = true -> k = s.
Proof. apply zlist_eqb_eq. Qed.

Lemma osc_event t p : raises_event (TOsc p) = true -> osc t p = post_event t.
Proof.
  unfold raises_event, osc.
  destruct (cut59 p) as [[sel val] found].
  destruct found; cbn [negb andb]; [|discriminate].
  destruct (key_is sel [48] || key_is sel [50]) eqn:K1; [reflexivity|].
  destruct (key_is sel [56]) eqn:K8.
  { apply key_is_eq in K8; subst sel. vm_compute. discriminate. }
  destruct (key_is sel [57]) eqn:K9; [reflexivity|].
  cbn [orb].
  destruct (key_is sel [55; 55; 55]) eqn:K7; [|discriminate].
  cbn [andb].
  destruct (cut59 val) as [[sel2 val2] found2].
  destruct found2; cbn [negb andb]; [|discriminate].
  destruct (key_is sel2 [110; 111; 116; 105; 102; 121]); cbn [andb]; [|discriminate].
  destruct (cut59 val2) as [[a b] found3]. destruct found3; cbn [negb]; [reflexivity|discriminate].
Qed.

Lemma osc_quiet e w h t p : WFs0 e w h t -> raises_event (TOsc p) = false -> okres e w h (osc t p).
Proof.
  intros H; unfold raises_event, osc.
  destruct (cut59 p) as [[sel val] found].
  destruct found; cbn [negb andb]; [|intros _; now apply okres_ok].
  destruct (key_is sel [48] || key_is sel [50]) eqn:K1; [discriminate|].
  cbn [orb].
  destruct (key_is sel [56]) eqn:K8.
  { intros _. destruct (cut59 val) as [[a b] f]. destruct f; cbn [negb]; apply okres_ok; auto.
    now apply WFs_set_pen. }
  destruct (key_is sel [57]) eqn:K9; [discriminate|]. cbn [orb].
  destruct (key_is sel [55; 55; 55]) eqn:K7; [|intros _; now apply okres_ok].
  cbn [andb].
  destruct (cut59 val) as [[sel2 val2] found2].
  destruct found2; cbn [negb andb]; [|intros _; now apply okres_ok].
  destruct (key_is sel2 [110; 111; 116; 105; 102; 121]); cbn [andb]; [|intros _; now apply okres_ok].
  destruct (cut59 val2) as [[a b] found3]. destruct found3; cbn [negb]; [discriminate|intros _; now apply okres_ok].
Qed.

Lemma c0_quiet e w h t r : WFs0 e w h t -> r <> 7 -> okres e w h (c0 t r).
Proof.
  intros H Hr; unfold c0.
  destruct (r =? 7) eqn:E7; [lia|].
  repeat case_if; first [now apply lf_ok | apply okres_ok;
    first [now apply bs_ok | now apply cht_ok | now apply cr_ok | now apply WFs_set_cs | assumption]].
Qed.

Lemma update_quiet e w h t it :
  WFs0 e w h t -> item_ok it -> raises_event it = false -> okres e w h (update t it).
Proof.
  intros H Hi Hq; destruct it as [g pw|c|i f|i p f|p| | |]; cbn [update item_ok] in *.
  - now apply print_ok.
  - apply c0_quiet; auto. simpl in Hq; lia.
  - now apply esc_ok.
  - now apply csi_ok.
  - now apply osc_quiet.
  - now apply okres_ok.
  - discriminate.
  - now apply okres_ok.
Qed.

Lemma update_event t it : raises_event it = true -> update t it = post_event t.
Proof.
  intros Hr; destruct it as [g pw|c|i f|i p f|p| | |]; cbn [update] in *; try discriminate.
  - simpl in Hr. unfold c0. rewrite Hr. reflexivity.
  - now apply osc_event.
  - reflexivity.
Qed.

(* ------------------------------------------------------------------ histories *)

Definition hstep_ok (s : hstep) : Prop :=
  match s with
  | HFeed _ it => item_ok it
  | HResize w h => 1 <= w /\ 1 <= h
  end.

(* the number of pending events along a history, computed from the schedule and the
   sequences alone; None: an event is posted on the full channel *)
Fixpoint pending (ev : Z) (hs : list hstep) : option Z :=
  match hs with
  | [] => Some ev
  | HFeed d it :: rest =>
      let ev1 := if d then (if 0 <? ev then ev - 1 else ev) else ev in
      if raises_event it then (if ev1 >=? 2 then None else pending (ev1 + 1) rest)
      else pending ev1 rest
  | HResize _ _ :: rest => pending ev rest
  end.

Definition stall_free (hs : list hstep) : bool :=
  match pending 0 hs with Some _ => true | None => false end.

Lemma run_outcome : forall hs e w h t,
  WFs0 e w h t -> Forall hstep_ok hs ->
  match pending e hs with
  | Some e' => exists t' w' h', run t hs = TOk t' /\ WFs0 e' w' h' t'
  | None => run t hs = TStall
  end.
Proof.
  induction hs as [|s rest IH]; intros e w h t H Hok; cbn [pending run].
  - exists t, w, h; auto.
  - inversion Hok as [|? ? Hs Hrest]; subst.
    destruct s as [d it|w' h']; cbn [hstep_run hstep_ok] in *.
    + set (e1 := if d then (if 0 <? e then e - 1 else e) else e).
      assert (H1 : WFs0 e1 w h (if d then drain t else t)).
      { unfold e1; destruct d; [now apply drain_ok | assumption]. }
      assert (He1 : 0 <= e1 <= 2) by (destruct H1 as [? ? ? ? ? ? ? ? ? ? ? ? ? ? [_ ?]]; assumption).
      destruct (raises_event it) eqn:R.
      * rewrite (update_event _ _ R).
        destruct (e1 >=? 2) eqn:E2.
        { assert (e1 = 2) by lia. rewrite H0 in H1. rewrite (post_event_stall _ _ _ H1). reflexivity. }
        destruct (post_event_ok e1 w h _ H1 ltac:(lia)) as [t1 [E1 W1]].
        rewrite E1; cbn [tbind]. now apply (IH (e1 + 1) w h).
      * destruct (update_quiet e1 w h _ it H1 Hs R) as [t1 [E1 W1]].
        rewrite E1; cbn [tbind]. now apply (IH e1 w h).
    + destruct Hs as [Hw Hh].
      destruct (resize_ok e t w' h' (WFs_resizable e w h t H) Hw Hh) as [t1 [E1 W1]].
      rewrite E1; cbn [tbind]. now apply (IH e w' h').
Qed.

Lemma term_new_resizable : resizable 0 term_new.
Proof.
  unfold resizable, term_new, saved_ok; simpl. repeat split; try lia.
  - unfold default_tabs. apply Forall_forall; intros x Hx.
    apply in_map_iff in Hx; destruct Hx as [k [<- _]]; lia.
  - exists 0; constructor.
Qed.

Lemma start_ok w h : 1 <= w -> 1 <= h -> okres 0 w h (term_start w h).
Proof. intros Hw Hh; unfold term_start. now apply resize_ok; [apply term_new_resizable| |]. Qed.

Lemma pending_firstn n : forall hs e, pending e hs <> None -> pending e (firstn n hs) <> None.
Proof.
  induction n as [|n IH]; intros hs e H; [simpl; discriminate|].
  destruct hs as [|s rest]; [simpl; discriminate|].
  cbn [firstn pending] in *. destruct s as [d it|w h]; [|now apply IH].
  repeat case_if; try congruence; now apply IH.
Qed.

Lemma Forall_firstn_hs {A} (P : A -> Prop) n (l : list A) : Forall P l -> Forall P (firstn n l).
Proof. apply Forall_firstn'. Qed.

(* from New(): after the first resize, for every prefix of every history *)
Theorem term_safe_run w h hs :
  1 <= w -> 1 <= h -> Forall hstep_ok hs -> stall_free hs = true ->
  forall n, exists t', run term_new (HResize w h :: firstn n hs) = TOk t' /\ WF t'.
Proof.
  intros Hw Hh Hok Hsf n. cbn [run hstep_run].
  destruct (start_ok w h Hw Hh) as [t0 [E0 W0]]. unfold term_start in E0. rewrite E0; cbn [tbind].
  pose proof (run_outcome (firstn n hs) 0 w h t0 W0 (Forall_firstn_hs _ n hs Hok)) as Ho.
  unfold stall_free in Hsf.
  pose proof (pending_firstn n hs 0) as Hp.
  destruct (pending 0 hs) eqn:P; [|discriminate].
  specialize (Hp ltac:(discriminate)).
  destruct (pending 0 (firstn n hs)) as [e'|]; [|congruence].
  destruct Ho as (t' & w' & h' & E & W). exists t'; split; auto. exists e', w', h'; exact W.
Qed.

(* without the guard: the only possible failure is the stall, never a panic *)
Theorem term_never_panics w h hs :
  1 <= w -> 1 <= h -> Forall hstep_ok hs ->
  run term_new (HResize w h :: hs) <> TPanic.
Proof.
  intros Hw Hh Hok. cbn [run hstep_run].
  destruct (start_ok w h Hw Hh) as [t0 [E0 W0]]. unfold term_start in E0. rewrite E0; cbn [tbind].
  pose proof (run_outcome hs 0 w h t0 W0 Hok) as Ho.
  destruct (pending 0 hs).
  - destruct Ho as (t' & w' & h' & E & W). rewrite E; discriminate.
  - rewrite Ho; discriminate.
Qed.

(* a stall happens exactly when the schedule lets three events accumulate *)
Theorem stall_iff w h hs :
  1 <= w -> 1 <= h -> Forall hstep_ok hs ->
  (run term_new (HResize w h :: hs) = TStall <-> stall_free hs = false).
Proof.
  intros Hw Hh Hok. cbn [run hstep_run].
  destruct (start_ok w h Hw Hh) as [t0 [E0 W0]]. unfold term_start in E0. rewrite E0; cbn [tbind].
  pose proof (run_outcome hs 0 w h t0 W0 Hok) as Ho. unfold stall_free.
  destruct (pending 0 hs).
  - destruct Ho as (t' & w' & h' & E & W). rewrite E; split; discriminate.
  - rewrite Ho; split; reflexivity.
Qed.

(* if the goroutine consumes an event before every sequence, nothing ever stalls *)
Definition always_drained (hs : list hstep) : Prop :=
  Forall (fun s => match s with HFeed d _ => d = true | HResize _ _ => True end) hs.

Lemma pending_drained : forall hs e, always_drained hs -> 0 <= e <= 2 ->
  exists e', pending e hs = Some e' /\ 0 <= e' <= 2.
Proof.
  induction hs as [|s rest IH]; intros e Hd He; cbn [pending]; [eauto|].
  inversion Hd as [|? ? Hs Hrest]; subst.
  destruct s as [d it|w h]; [|now apply IH].
  subst d. destruct (0 <? e) eqn:E0; repeat case_if; try (exfalso; lia); apply IH; auto; lia.
Qed.

Theorem events_never_stall_drained hs : always_drained hs -> stall_free hs = true.
Proof.
  intros Hd; unfold stall_free.
  destruct (pending_drained hs 0 Hd ltac:(lia)) as [e' [E _]]; now rewrite E.
Qed.

(* ------------------------------------------------------------------ draw *)

Lemma draw_row_inside_ok w fuel (line : trow) row col c r x :
  row_ok w line -> 0 <= col -> In (c, r, x) (draw_row fuel line row col) -> 0 <= c < w /\ r = row.
Proof.
  intros [Hl HF] Hc Hin.
  assert (Hgen : forall fuel col, 0 <= col -> In (c, r, x) (draw_row fuel line row col) -> col <= c < w /\ r = row).
  { clear fuel col Hc Hin. induction fuel as [|k IH]; intros col Hc Hin; cbn [draw_row] in Hin; [destruct Hin|].
    destruct (zget line col) as [cell|] eqn:G; [|destruct Hin].
    pose proof (zget_some_range _ _ _ G) as Hr.
    assert (Hcell : cell_ok cell) by (rewrite Forall_forall in HF; apply HF; eapply zget_In; eauto).
    destruct Hin as [Heq|Hin].
    - inversion Heq; subst; split; [lia|reflexivity].
    - unfold cell_ok in Hcell. apply IH in Hin; [|case_if; lia].
      destruct Hin as [H1 H2]. split; [|assumption]. revert H1; case_if; lia. }
  destruct (Hgen fuel col Hc Hin); split; [lia|assumption].
Qed.

Lemma draw_rows_inside w (g : grid) : forall row c r x,
  Forall (row_ok w) g -> 0 <= row -> In (c, r, x) (draw_rows g row) ->
  0 <= c < w /\ row <= r < row + zlen g.
Proof.
  induction g as [|line rest IH]; intros row c r x HF Hr Hin; cbn [draw_rows] in Hin; [destruct Hin|].
  inversion HF as [|? ? Hl Hrest]; subst. rewrite zlen_cons. pose proof (zlen_nonneg rest).
  apply in_app_or in Hin; destruct Hin as [Hin|Hin].
  - eapply draw_row_inside_ok in Hin; [|exact Hl|lia]. destruct Hin; subst; lia.
  - apply IH in Hin; [|assumption|lia]. destruct Hin; lia.
Qed.

(* every SetCell of Draw addresses a cell of the window (whose size is the terminal's),
   and so does the cursor it shows *)
Theorem draw_inside e w h t : WFs0 e w h t ->
  (forall c r x, In (c, r, x) (draw t) -> 0 <= c < w /\ 0 <= r < h) /\
  0 <= t_col t < w /\ 0 <= t_row t < h.
Proof.
  intros H; split; [|destruct H; auto].
  intros c r x Hin. destruct (WFs_active _ _ _ _ H) as [Hl HF].
  destruct (draw_rows_inside w (active t) 0 c r x HF ltac:(lia) Hin); lia.
Qed.

(* ------------------------------------------------------------------ the invariant, spelled out *)

(* what C05 demands of the state after every step *)
Definition well_formed (t : term) : Prop :=
  exists cols rows,
    1 <= cols /\ 1 <= rows /\
    zlen (t_prim t) = rows /\ zlen (t_alt t) = rows /\
    (forall line, In line (t_prim t) \/ In line (t_alt t) -> zlen line = cols) /\
    height t = rows /\ width t = cols /\
    0 <= t_row t < rows /\ 0 <= t_col t < cols /\
    0 <= t_top t /\ t_top t <= t_bot t /\ t_bot t < rows /\
    t_left t = 0 /\ t_right t = cols - 1 /\
    0 <= t_ev t <= 2.

Lemma WF_well_formed t : WF t -> well_formed t.
Proof.
  intros (e & w & h & H). exists w, h.
  pose proof (WFs_height _ _ _ _ H). pose proof (WFs_width _ _ _ _ H).
  destruct H as [? ? [Hp HFp] [Ha HFa] ? ? ? ? ? ? ? ? ? ? [Ee Hr]].
  repeat split; auto; try lia.
  intros line [Hin|Hin]; [rewrite Forall_forall in HFp; apply HFp in Hin | rewrite Forall_forall in HFa; apply HFa in Hin];
    apply Hin.
Qed.
