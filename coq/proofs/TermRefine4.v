(* C06 - simulation lemmas, part 4: printing and SGR; dispatch; the refinement theorem. *)
From Vx Require Import base.Prelude base.ListX model.Colour model.Sgr model.Term model.TermCheck
  model.VtSpec model.TermAbs proofs.SgrProofs proofs.TermProofs proofs.TermRefine proofs.TermRefine2
  proofs.TermRefine3.
Require Import ZifyBool Lia.

Local Open Scope Z_scope.

#[local] Hint Rewrite @zget_app_if @zget_map @zget_zfirstn @zget_zskipn' @zget_zrepeat @zget_single
  @zlen_app @zlen_map @zlen_zfirstn @zlen_zskipn @zlen_zrepeat @zlen_single : zg.

(* ------------------------------------------------------------------ print *)

(* the two phases of print *)
Definition print_wrap (w0 : Z) (t : term) : tres term :=
  let wrap := (t_last t || (t_col t + w0 - 1 >? t_right t)) && m_awm (t_md t) in
  if wrap then
    let t := set_last t false in
    t <- on_row t (t_row t) (fun line => upd_range set_wrapped (width t - 1) (width t) line) ;;
    nel t
  else TOk t.

Definition print_place (g : text) (w0 : Z) (t : term) : tres term :=
  let col := t_col t in
  let rw := t_row t in
  t <- (if m_irm (t_md t) then on_row t rw (fun line => irm_shift line col (t_right t) w0) else TOk t) ;;
  let col := if col >? width t - 1 then width t - 1 else col in
  let rw := if rw >? height t - 1 then height t - 1 else rw in
  if w0 =? 0 then TOk t else
  t <- on_row t rw (fun line => zupd line col (mkCell g w0 (t_pen t) false)) ;;
  t <- range_in_row t rw (set_space (t_pen t)) (col + 1) (Z.min (col + w0) (t_right t + 1)) ;;
  let t := if negb (m_awm (t_md t)) && (t_col t + w0 >? t_right t) then t
           else set_col t (t_col t + w0) in
  TOk (if (t_col t >=? t_right t + 1) && m_awm (t_md t)
       then set_col (set_last t true) (t_right t) else t).

Lemma print_split t g0 w0 :
  print t g0 w0 =
  (let g := shift_grapheme (t_cs t) g0 in
   let t1 := if cs_ss (t_cs t)
             then set_cs t (mkChars (cs_des (t_cs t)) (cs_saved (t_cs t)) (cs_saved (t_cs t)) (cs_ss (t_cs t)))
             else t in
   tbind (print_wrap w0 t1) (print_place g w0)).
Proof. reflexivity. Qed.

Lemma shift_plain c g : chars_plain c -> shift_grapheme c g = g.
Proof.
  intros [_ Hd]. unfold shift_grapheme. destruct g as [|b [|b2 r]]; auto.
  rewrite Hd. change (0 =? 1) with false. rewrite Bool.andb_false_r. reflexivity.
Qed.

Lemma set_wrapped_line (l : trow) lo hi : 0 <= lo -> lo <= hi -> hi <= zlen l ->
  abs_line (map_range set_wrapped lo hi l) = abs_line l.
Proof.
  intros H1 H2 H3. apply list_ext_all; intros i. unfold abs_line.
  rewrite !zget_map, zget_map_range by assumption.
  case_if; [|reflexivity]. destruct (zget l i); reflexivity.
Qed.

Section Print.
Variables (w h : Z) (t : term).
Hypothesis HI : Inv w h t.
Let HW := Inv_WF w h t HI.

(* phase 1: the deferred or forced wrap is a line feed plus carriage return *)
Lemma print_wrap_sim pw : 1 <= pw <= 2 ->
  exists t2, print_wrap pw t = TOk t2 /\ Inv w h t2 /\ t_last t2 = false /\ t_col t2 + pw <= w /\
    abs t2 = (if v_pending (abs t) || (v_col (abs t) + pw >? v_cols (abs t))
              then let v' := index_down (set_pos (abs t) (v_row (abs t)) (v_col (abs t)) false) in
                   set_pos v' (v_row v') 0 false
              else abs t).
Proof.
  intros Hpw. pose proof HI as [? Hw Hh Hirm Hlnm Hawm Halt Hcs Hsp Hsa].
  unfold print_wrap; cbv zeta. rewrite Hawm, Bool.andb_true_r.
  change (v_pending (abs t)) with (t_last t). change (v_col (abs t)) with (t_col t).
  rewrite (abs_cols w h t HI).
  pose proof HW as [? ? ? ? Hrow Hcol ? ? ? Hleft Hright ? ? ? ?].
  assert (Hc : (t_col t + pw - 1 >? t_right t) = (t_col t + pw >? w)) by lia. rewrite Hc.
  destruct (t_last t || (t_col t + pw >? w)) eqn:Wr.
  - pose proof (Inv_set_last w h t false HI) as HI1.
    destruct (cur_row w h t HI) as [line [Hg [Hl HFl]]].
    change (width (set_last t false)) with (width t). rewrite (Inv_width w h t HI).
    change (t_row (set_last t false)) with (t_row t).
    assert (Hf : upd_range set_wrapped (w - 1) w line = Some (map_range set_wrapped (w - 1) w line)).
    { unfold upd_range. destruct (w - 1 <? w) eqn:E; [|lia].
      destruct ((w - 1 <? 0) || (zlen line <? w)) eqn:E2; [lia|]. reflexivity. }
    match goal with |- context[on_row ?tt ?rr ?f0] =>
      rewrite (on_row_eval 0 w h tt rr f0 line _ (Inv_WF w h _ HI1) Hrow Hg Hf) end. cbn [tbind].
    set (line' := map_range set_wrapped (w - 1) w line).
    assert (Hl' : row_ok w line').
    { split; [unfold line'; rewrite map_range_length; lia|]. apply map_range_Forall; auto. }
    set (t1 := set_active (set_last t false) (upd_nat (active (set_last t false)) (Z.to_nat (t_row t)) line')).
    assert (I1 : Inv w h t1).
    { apply Inv_set_active; auto. destruct (WFs_active _ _ _ _ (Inv_WF w h _ HI1)) as [Hlen HF]. split.
      - rewrite zlen_upd_nat; assumption.
      - now apply upd_nat_Forall. }
    assert (A1 : abs t1 = set_pos (abs t) (t_row t) (t_col t) false).
    { unfold t1. change (t_row t) with (t_row (set_last t false)) at 1.
      rewrite (abs_row_op w h (set_last t false) line line' HI1 Hg Hl').
      unfold line'. rewrite set_wrapped_line by lia.
      rewrite <- (cur_line_abs w h (set_last t false) line HI1 Hg), (set_cur_line_same w h _ HI1).
      apply abs_move; reflexivity. }
    assert (L1 : t_last t1 = false) by (unfold t1, set_active; destruct (t_onalt (set_last t false)); reflexivity).
    destruct (sim_nel w h t1 I1 L1) as [t2 [E2 [I2 A2]]].
    exists t2; split; [exact E2|]; split; [exact I2|].
    rewrite A2, A1. cbv zeta.
    assert (L2 : t_last t2 = false /\ t_col t2 = 0).
    { change (t_last t2) with (v_pending (abs t2)). change (t_col t2) with (v_col (abs t2)). rewrite A2. cbn. auto. }
    destruct L2 as [L2 C2]. rewrite C2. repeat split; auto; lia.
  - exists t; split; [reflexivity|]; split; [assumption|].
    destruct (t_last t) eqn:L; [discriminate|]. repeat split; auto. cbn in Wr. lia.
Qed.


Lemma v_cols_set_cur_line v l : v_cols (set_cur_line v l) = v_cols v. Proof. reflexivity. Qed.
Lemma v_row_set_cur_line v l : v_row (set_cur_line v l) = v_row v. Proof. reflexivity. Qed.

Definition spec_place (v : vt) (g : text) (pw : Z) : vt :=
  let c := v_col v in
  let l := cur_line v in
  let l := put c (show g pw (v_pen v)) l in
  let l := if pw =? 2 then put (c + 1) (show [32] 1 (v_pen v)) l else l in
  let v := set_cur_line v l in
  if c + pw >=? v_cols v then set_pos v (v_row v) (v_cols v - 1) true
  else set_pos v (v_row v) (c + pw) false.

Lemma zget_put {A} (l : list A) r x i : 0 <= r < zlen l ->
  zget (put r x l) i = if i =? r then Some x else zget l i.
Proof.
  intros Hr. unfold put. autorewrite with zg.
  destruct (Z_lt_dec i 0); [rewrite !zget_neg by lia; pw_finish|]. pw_finish.
Qed.

Lemma zlen_put {A} (l : list A) r x : 0 <= r < zlen l -> zlen (put r x l) = zlen l.
Proof. intros Hr. unfold put. autorewrite with zg. lia. Qed.

(* phase 2: the glyph and, for a wide one, the space after it *)
Lemma print_place_sim g pw : 1 <= pw <= 2 -> t_last t = false -> t_col t + pw <= w ->
  exists t', print_place g pw t = TOk t' /\ Inv w h t' /\ abs t' = spec_place (abs t) g pw.
Proof.
  intros Hpw Hlast Hfit. pose proof HI as [? Hw Hh Hirm Hlnm Hawm Halt Hcs Hsp Hsa].
  pose proof HW as [? ? ? ? Hrow Hcol ? ? ? Hleft Hright ? ? ? ?].
  destruct (cur_row w h t HI) as [line [Hg [Hl HFl]]].
  destruct (WFs_active _ _ _ _ HW) as [Hlen HF].
  unfold print_place; cbv zeta. rewrite Hirm; cbn [tbind].
  rewrite (Inv_width w h t HI), (Inv_height w h t HI).
  assert ((t_col t >? w - 1) = false) as -> by lia. assert ((t_row t >? h - 1) = false) as -> by lia.
  assert ((pw =? 0) = false) as -> by lia.
  (* the glyph *)
  set (cell := mkCell g pw (t_pen t) false).
  assert (Hf : zupd line (t_col t) cell = Some (upd_nat line (Z.to_nat (t_col t)) cell)).
  { unfold zupd. destruct ((t_col t <? 0) || (zlen line <=? t_col t)) eqn:E; [lia|]. reflexivity. }
  match goal with |- context[on_row t (t_row t) ?f0] =>
    rewrite (on_row_eval 0 w h t (t_row t) f0 line _ HW Hrow Hg Hf) end. cbn [tbind].
  set (la := upd_nat line (Z.to_nat (t_col t)) cell).
  assert (Hla : row_ok w la).
  { split; [unfold la; rewrite zlen_upd_nat; assumption|]. apply upd_nat_Forall; auto. unfold cell_ok, cell; simpl; lia. }
  set (t4 := set_active t (upd_nat (active t) (Z.to_nat (t_row t)) la)).
  assert (Hg4 : grid_ok w h (upd_nat (active t) (Z.to_nat (t_row t)) la)).
  { split; [rewrite zlen_upd_nat; assumption | now apply upd_nat_Forall]. }
  assert (I4 : Inv w h t4) by (apply Inv_set_active; assumption).
  assert (Hr4 : t_row t4 = t_row t) by apply t_row_set_active.
  assert (Hp4 : t_pen t4 = t_pen t) by apply t_pen_set_active.
  assert (Ha4 : active t4 = upd_nat (active t) (Z.to_nat (t_row t)) la) by apply active_set_active.
  assert (Hz4 : zget (active t4) (t_row t) = Some la).
  { rewrite Ha4, zget_upd_nat by zl. assert ((t_row t =? t_row t) = true) as -> by lia. reflexivity. }
  assert (Hright4 : t_right t4 = w - 1) by (destruct (Inv_WF w h t4 I4); assumption).
  rewrite Hright4, Hp4.
  (* the space after a wide glyph *)
  set (hi := Z.min (t_col t + pw) (w - 1 + 1)).
  set (lb := if t_col t + 1 <? hi then map_range (set_space (t_pen t)) (t_col t + 1) hi la else la).
  assert (Hlb : row_ok w lb).
  { unfold lb. case_if; [|assumption]. destruct Hla as [Hla1 Hla2].
    split; [rewrite map_range_length; lia|]. apply map_range_Forall; auto. intros c _; unfold cell_ok; simpl; lia. }
  assert (E5 : range_in_row t4 (t_row t) (set_space (t_pen t)) (t_col t + 1) hi
               = TOk (set_active t (upd_nat (active t) (Z.to_nat (t_row t)) lb))).
  { unfold range_in_row, lb. destruct (t_col t + 1 <? hi) eqn:E.
    - assert (Hf5 : upd_range (set_space (t_pen t)) (t_col t + 1) hi la
                    = Some (map_range (set_space (t_pen t)) (t_col t + 1) hi la)).
      { unfold upd_range. rewrite E. destruct Hla as [Hla1 _].
        destruct ((t_col t + 1 <? 0) || (zlen la <? hi)) eqn:E2; [lia|]. reflexivity. }
      rewrite (on_row_eval 0 w h t4 (t_row t) _ la _ (Inv_WF w h t4 I4) Hrow Hz4 Hf5).
      unfold t4 at 1. rewrite set_active_twice, Ha4, upd_nat_twice. reflexivity.
    - reflexivity. }
  rewrite E5; cbn [tbind].
  set (t5 := set_active t (upd_nat (active t) (Z.to_nat (t_row t)) lb)).
  assert (Hg5 : grid_ok w h (upd_nat (active t) (Z.to_nat (t_row t)) lb)).
  { split; [rewrite zlen_upd_nat; assumption | now apply upd_nat_Forall]. }
  assert (I5 : Inv w h t5) by (apply Inv_set_active; assumption).
  assert (A5 : abs t5 = set_cur_line (abs t) (abs_line lb)) by (apply (abs_row_op w h t line lb HI Hg Hlb)).
  assert (Hmd5 : t_md t5 = t_md t) by apply t_md_set_active.
  assert (Hc5 : t_col t5 = t_col t) by (unfold t5, set_active; destruct (t_onalt t); reflexivity).
  assert (Hrt5 : t_right t5 = w - 1) by (destruct (Inv_WF w h t5 I5); assumption).
  assert (Hl5 : t_last t5 = false) by (unfold t5, set_active; destruct (t_onalt t); cbn; exact Hlast).
  rewrite Hmd5, Hawm, Hc5, Hrt5. cbn [negb andb].
  cbn [t_col t_right t_md set_col set_cursor]. rewrite Hmd5, Hawm, Hrt5, Bool.andb_true_r.
  (* the line *)
  assert (AL : abs_line lb =
               (if pw =? 2 then put (t_col t + 1) (show [32] 1 (t_pen t)) (put (t_col t) (show g pw (t_pen t)) (abs_line line))
                else put (t_col t) (show g pw (t_pen t)) (abs_line line))).
  { cbv zeta. apply list_ext_all; intros i. unfold abs_line at 1. rewrite zget_map. unfold lb, hi.
    destruct (pw =? 2) eqn:P2.
    - assert (pw = 2) by lia; subst pw.
      assert ((t_col t + 1 <? Z.min (t_col t + 2) (w - 1 + 1)) = true) as -> by lia.
      destruct Hla as [Hla1 _].
      rewrite zget_map_range by lia. unfold la. rewrite zget_upd_nat by lia.
      rewrite !zget_put by (rewrite ?zlen_put, zlen_abs_line; rewrite ?zlen_abs_line; lia).
      unfold abs_line. rewrite zget_map.
      repeat case_if; try (exfalso; lia); try reflexivity.
      destruct (zget line i) eqn:G; [reflexivity|]. apply zget_none_range in G. exfalso; lia.
    - assert (pw = 1) by lia; subst pw.
      assert ((t_col t + 1 <? Z.min (t_col t + 1) (w - 1 + 1)) = false) as -> by lia.
      unfold la. rewrite zget_upd_nat by lia. rewrite zget_put by (rewrite zlen_abs_line; lia).
      unfold abs_line. rewrite zget_map. case_if; reflexivity. }
  unfold spec_place; cbv zeta. rewrite !v_cols_set_cur_line, !v_row_set_cur_line.
  change (v_col (abs t)) with (t_col t). change (v_pen (abs t)) with (t_pen t). change (v_row (abs t)) with (t_row t).
  rewrite (cur_line_abs w h t line HI Hg), (abs_cols w h t HI).
  destruct (t_col t + pw >=? w - 1 + 1) eqn:Ew.
  - assert ((t_col t + pw >=? w) = true) as -> by lia.
    eexists; split; [reflexivity|]. split.
    + apply (Inv_frame w h t5); auto.
      destruct (Inv_WF w h t5 I5). constructor; cbn; auto; lia.
    + etransitivity; [apply (abs_move t5); reflexivity|]. rewrite A5, AL.
      cbn [t_row t_col t_last set_col set_cursor set_last]. unfold t5. rewrite t_row_set_active. reflexivity.
  - assert ((t_col t + pw >=? w) = false) as -> by lia.
    eexists; split; [reflexivity|]. split.
    + apply (Inv_frame w h t5); auto.
      apply WFs_set_col; [apply I5 | lia].
    + etransitivity; [apply (abs_move t5); reflexivity|]. rewrite A5, AL.
      cbn [t_row t_col t_last set_col set_cursor set_last]. fold t5. rewrite Hl5. unfold t5. rewrite t_row_set_active. reflexivity.
Qed.

End Print.

(* printing one glyph of width 1 or 2 *)
Lemma sim_print w h t g pw : Inv w h t -> (pw =? 1) || (pw =? 2) = true ->
  exists t', print t g pw = TOk t' /\ Inv w h t' /\ abs t' = do_print (abs t) g pw.
Proof.
  intros HI Hpw0. assert (Hpw : 1 <= pw <= 2) by lia.
  pose proof HI as [? Hw Hh Hirm Hlnm Hawm Halt Hcs Hsp Hsa].
  rewrite print_split; cbv zeta. rewrite (shift_plain _ g Hcs).
  destruct Hcs as [Hss Hd]. rewrite Hss.
  destruct (print_wrap_sim w h t HI pw Hpw) as [t2 [E2 [I2 [L2 [F2 A2]]]]].
  rewrite E2; cbn [tbind].
  destruct (print_place_sim w h t2 I2 g pw Hpw L2 F2) as [t' [E' [I' A']]].
  exists t'; split; [exact E'|]; split; [exact I'|].
  rewrite A', A2. unfold do_print, spec_place; cbv zeta.
  destruct (v_pending (abs t) || (v_col (abs t) + pw >? v_cols (abs t))); reflexivity.
Qed.
