(* C06 - simulation lemmas, part 2: scrolling, line and character insertion/deletion, erase in
   display, printing. *)
From Vx Require Import base.Prelude base.ListX model.Colour model.Sgr model.Term model.TermCheck
  model.VtSpec model.TermAbs proofs.SgrProofs proofs.TermProofs proofs.TermRefine.
Require Import ZifyBool Lia.

Local Open Scope Z_scope.

#[local] Hint Rewrite @zget_app_if @zget_map @zget_zfirstn @zget_zskipn' @zget_zrepeat @zget_single
  @zlen_app @zlen_map @zlen_zfirstn @zlen_zskipn @zlen_zrepeat @zlen_single : zg.

Lemma copy_row_same {A} (dst src : list A) : zlen src = zlen dst -> copy_row dst src = src.
Proof.
  intros H. unfold copy_row.
  rewrite firstn_all2 by (unfold zlen in H; lia).
  rewrite skipn_all2 by (unfold zlen in H; lia). apply app_nil_r.
Qed.

Lemma abs_line_erase_all bgc (l : trow) w : zlen l = w ->
  abs_line (map_range (erase_cell bgc) 0 w l) = zrepeat (Blank bgc) w.
Proof.
  intros Hl. pose proof (zlen_nonneg l).
  rewrite abs_line_erase by lia.
  rewrite (zskipn_all (abs_line l) w) by (rewrite zlen_abs_line; lia).
  rewrite app_nil_r. replace (w - 0) with w by lia. reflexivity.
Qed.

Lemma erase_cells_full bgc (l : trow) w : zlen l = w -> 1 <= w ->
  erase_cells bgc 0 (w - 1 + 1) l = Some (map_range (erase_cell bgc) 0 w l).
Proof.
  intros Hl Hw. unfold erase_cells, upd_range. replace (w - 1 + 1) with w by lia.
  destruct (0 <? w) eqn:E; [|lia]. destruct ((0 <? 0) || (zlen l <? w)) eqn:E2; [lia|]. reflexivity.
Qed.

Lemma set_last_id t : t_last t = false -> set_last t false = t.
Proof. destruct t; cbn; intros ->; reflexivity. Qed.

Section Grid.
Variables (w h : Z) (t : term).
Hypothesis HI : Inv w h t.
Let HW := Inv_WF w h t HI.

Lemma active_rows : zlen (active t) = h /\ Forall (row_ok w) (active t).
Proof. apply (WFs_active _ _ _ _ HW). Qed.

Lemma abs_grid_len : zlen (abs_grid (active t)) = h.
Proof. unfold abs_grid; rewrite zlen_map; apply active_rows. Qed.

(* scrollUp(n) in the reference terminal's terms *)
Lemma scroll_up_sim n : 1 <= n ->
  exists t', scroll_up t n = TOk t' /\ Inv w h t' /\
    abs t' = set_grid (abs t) (region_up (abs t) (v_grid (abs t)) (t_top t) (t_bot t)
                                          (Z.min n (t_bot t - t_top t + 1))).
Proof.
  intros Hn. destruct active_rows as [Hlen HF].
  destruct (scroll_up_ok 0 w h t n HW ltac:(lia)) as [t' [E W']].
  unfold scroll_up in E |- *; cbv zeta in E |- *.
  match type of E with context[mapi_opt ?f 0 (active t)] =>
    destruct (mapi_opt f 0 (active t)) as [g'|] eqn:Hm; [|discriminate] end.
  cbn [of_opt tbind] in E |- *. inversion E; subst t'. clear E.
  assert (Hg' : grid_ok w h g').
  { pose proof (WFs_active _ _ _ _ W') as Ha. rewrite active_set_active in Ha. exact Ha. }
  eexists; split; [reflexivity|]. split; [now apply Inv_set_active|].
  rewrite (abs_set_active w h); auto. f_equal.
  apply list_ext_all; intros i.
  change (v_grid (abs t)) with (abs_grid (active t)).
  pose proof (mapi_opt_zget _ _ _ _ Hm i) as Hz.
  unfold abs_grid at 1. rewrite zget_map. unfold trow, grid in *. rewrite Hz. clear Hz.
  unfold region_up, blank_line, blanks. rewrite (abs_cols w h t HI). change (v_pen (abs t)) with (t_pen t).
  autorewrite with zg. rewrite !abs_grid_len. unfold abs_grid. rewrite !zget_map.
  destruct HW as [? ? ? ? ? ? Htop Htb Hbot Hleft Hright ? ? ? ?].
  destruct (Z_lt_dec i 0); [rewrite !zget_neg by lia; pw_finish|].
  destruct (@zget (list tcell) (active t) i) as [line|] eqn:G.
  - pose proof (zget_some_range _ _ _ G) as Hi.
    assert (Hline : row_ok w line) by (rewrite Forall_forall in HF; apply HF; eapply zget_In; eauto).
    destruct Hline as [Hl HFl]. replace (0 + i) with i by lia.
    destruct ((i >? t_bot t) || (i <? t_top t)) eqn:C1.
    + cbn [option_map]. pw_finish. all: try (rewrite G; reflexivity).
      all: try (match goal with |- context[zget (active t) ?j] => replace j with i by zl end; rewrite G; reflexivity).
    + destruct (i + n >? t_bot t) eqn:C2.
      * rewrite Hleft, Hright, (erase_cells_full _ line w Hl ltac:(lia)). cbn [option_map].
        change (map abs_cell (map_range (erase_cell (pen_bg t)) 0 w line))
          with (abs_line (map_range (erase_cell (pen_bg t)) 0 w line)).
        rewrite (abs_line_erase_all _ line w Hl). pw_finish.
      * destruct (@zget (list tcell) (active t) (i + n)) as [src|] eqn:G2.
        2:{ apply zget_none_range in G2. exfalso; zl. }
        assert (Hsrc : row_ok w src) by (rewrite Forall_forall in HF; apply HF; eapply zget_In; eauto).
        rewrite (copy_row_same line src) by (destruct Hsrc; lia). cbn [option_map].
        pw_finish.
        all: try (match goal with |- context[zget (active t) ?j] => replace j with (i + n) by zl end; rewrite G2; reflexivity).
  - apply zget_none_range in G. pw_finish. all: try (rewrite zget_beyond by zl; reflexivity).
Qed.


(* scrollDown(n) *)
Lemma scroll_down_sim n : 1 <= n ->
  exists t', scroll_down t n = TOk t' /\ Inv w h t' /\
    abs t' = set_grid (abs t) (region_down (abs t) (v_grid (abs t)) (t_top t) (t_bot t)
                                            (Z.min n (t_bot t - t_top t + 1))).
Proof.
  intros Hn. destruct active_rows as [Hlen HF].
  destruct (scroll_down_ok 0 w h t n HW ltac:(lia)) as [t' [E W']].
  unfold scroll_down in E |- *; cbv zeta in E |- *.
  destruct ((t_top t <=? t_bot t) && ((t_top t <? 0) || (zlen (active t) <=? t_bot t))) eqn:G0; [discriminate|].
  match type of E with context[mapi_opt ?f 0 (active t)] =>
    destruct (mapi_opt f 0 (active t)) as [g'|] eqn:Hm; [|discriminate] end.
  cbn [of_opt tbind] in E |- *. inversion E; subst t'. clear E.
  assert (Hg' : grid_ok w h g').
  { pose proof (WFs_active _ _ _ _ W') as Ha. rewrite active_set_active in Ha. exact Ha. }
  eexists; split; [reflexivity|]. split; [now apply Inv_set_active|].
  rewrite (abs_set_active w h); auto. f_equal.
  apply list_ext_all; intros i.
  change (v_grid (abs t)) with (abs_grid (active t)).
  pose proof (mapi_opt_zget _ _ _ _ Hm i) as Hz.
  unfold abs_grid at 1. rewrite zget_map. unfold trow, grid in *. rewrite Hz. clear Hz.
  unfold region_down, blank_line, blanks. rewrite (abs_cols w h t HI). change (v_pen (abs t)) with (t_pen t).
  autorewrite with zg. rewrite !abs_grid_len. unfold abs_grid. rewrite !zget_map.
  destruct HW as [? ? ? ? ? ? Htop Htb Hbot Hleft Hright ? ? ? ?].
  destruct (Z_lt_dec i 0); [rewrite !zget_neg by lia; pw_finish|].
  destruct (@zget (list tcell) (active t) i) as [line|] eqn:G.
  - pose proof (zget_some_range _ _ _ G) as Hi.
    assert (Hline : row_ok w line) by (rewrite Forall_forall in HF; apply HF; eapply zget_In; eauto).
    destruct Hline as [Hl HFl]. replace (0 + i) with i by lia.
    destruct ((i >? t_bot t) || (i <? t_top t)) eqn:C1.
    + cbn [option_map]. pw_finish. all: try (rewrite G; reflexivity).
      all: try (match goal with |- context[zget (active t) ?j] => replace j with i by zl end; rewrite G; reflexivity).
    + destruct (i - n <? t_top t) eqn:C2.
      * rewrite Hleft, Hright, (erase_cells_full _ line w Hl ltac:(lia)). cbn [option_map].
        change (map abs_cell (map_range (erase_cell (pen_bg t)) 0 w line))
          with (abs_line (map_range (erase_cell (pen_bg t)) 0 w line)).
        rewrite (abs_line_erase_all _ line w Hl). pw_finish.
      * destruct (@zget (list tcell) (active t) (i - n)) as [src|] eqn:G2.
        2:{ apply zget_none_range in G2. exfalso; zl. }
        assert (Hsrc : row_ok w src) by (rewrite Forall_forall in HF; apply HF; eapply zget_In; eauto).
        rewrite (copy_row_same line src) by (destruct Hsrc; lia). cbn [option_map].
        pw_finish.
        all: try (match goal with |- context[zget (active t) ?j] => replace j with (i - n) by zl end; rewrite G2; reflexivity).
  - apply zget_none_range in G. pw_finish. all: try (rewrite zget_beyond by zl; reflexivity).
Qed.


Hypothesis Hlast : t_last t = false.

(* index / reverse index *)
Lemma sim_ind : exists t', ind t = TOk t' /\ Inv w h t' /\ abs t' = index_down (abs t).
Proof.
  pose proof (Inv_set_last w h t false HI) as HI1.
  unfold ind; cbv zeta. unfold index_down.
  change (v_row (abs t)) with (t_row t). change (v_bot (abs t)) with (t_bot t).
  rewrite (abs_rows w h t HI).
  change (t_row (set_last t false)) with (t_row t). change (t_bot (set_last t false)) with (t_bot t).
  destruct (t_row t =? t_bot t) eqn:E1.
  - rewrite (set_last_id t Hlast). destruct (scroll_up_sim 1 ltac:(lia)) as [t' [E [I A]]].
    exists t'; split; [exact E|]; split; [exact I|]. rewrite A.
    change (v_top (abs t)) with (t_top t).
    destruct HW. replace (Z.min 1 (t_bot t - t_top t + 1)) with 1 by lia. reflexivity.
  - change (height (set_last t false)) with (height t). rewrite (Inv_height w h t HI).
    destruct (t_row t >=? h - 1) eqn:E2.
    + assert ((t_row t =? h - 1) = true) as -> by (destruct HW; lia).
      exists (set_last t false). split; [reflexivity|]. split; [exact HI1 | now apply abs_set_last_false].
    + assert ((t_row t =? h - 1) = false) as -> by lia.
      eexists; split; [reflexivity|]. split.
      * apply (Inv_frame w h t); auto. apply WFs_set_row; [now apply WFs_set_last | destruct HW; cbn; lia].
      * apply abs_move; reflexivity.
Qed.

Lemma sim_ri : exists t', ri t = TOk t' /\ Inv w h t' /\ abs t' = index_up (abs t).
Proof.
  pose proof (Inv_set_last w h t false HI) as HI1.
  unfold ri; cbv zeta. unfold index_up.
  change (v_row (abs t)) with (t_row t). change (v_top (abs t)) with (t_top t).
  change (t_row (set_last t false)) with (t_row t). change (t_top (set_last t false)) with (t_top t).
  assert ((t_row t <? 0) = false) as -> by (destruct HW; lia).
  destruct (t_row t =? t_top t) eqn:E1.
  - rewrite (set_last_id t Hlast). destruct (scroll_down_sim 1 ltac:(lia)) as [t' [E [I A]]].
    exists t'; split; [exact E|]; split; [exact I|]. rewrite A.
    change (v_bot (abs t)) with (t_bot t).
    destruct HW. replace (Z.min 1 (t_bot t - t_top t + 1)) with 1 by lia. reflexivity.
  - destruct (t_row t >? 0) eqn:E2.
    + assert ((t_row t =? 0) = false) as -> by lia.
      eexists; split; [reflexivity|]. split.
      * apply (Inv_frame w h t); auto. apply WFs_set_row; [now apply WFs_set_last | destruct HW; cbn; lia].
      * apply abs_move; reflexivity.
    + assert ((t_row t =? 0) = true) as -> by (destruct HW; lia).
      exists (set_last t false). split; [reflexivity|]. split; [exact HI1 | now apply abs_set_last_false].
Qed.

Lemma sim_nel : exists t', nel t = TOk t' /\ Inv w h t' /\
  abs t' = (let v' := index_down (abs t) in set_pos v' (v_row v') 0 false).
Proof.
  destruct sim_ind as [t1 [E [I A]]]. unfold nel. rewrite E; cbn [tbind].
  eexists; split; [reflexivity|]. split.
  - apply (Inv_frame w h t1); auto. apply WFs_set_col; [apply I | destruct I as [[] ? ?]; lia].
  - cbv zeta. rewrite <- A.
    assert (Hl1 : t_last t1 = false).
    { change (t_last t1) with (v_pending (abs t1)). rewrite A. unfold index_down.
      repeat case_if; cbn; first [exact Hlast | reflexivity]. }
    apply abs_move; try reflexivity; [destruct I as [[] ? ?]; assumption | exact Hl1].
Qed.

Lemma sim_lf : exists t', lf t = TOk t' /\ Inv w h t' /\ abs t' = index_down (abs t).
Proof.
  destruct sim_ind as [t1 [E [I A]]]. unfold lf. rewrite E; cbn [tbind].
  assert (m_lnm (t_md t1) = false) as -> by apply I.
  exists t1; split; [reflexivity|]; split; assumption.
Qed.


Lemma in_margins_region : in_margins t = in_region (abs t).
Proof.
  unfold in_margins, in_region. change (v_top (abs t)) with (t_top t). change (v_row (abs t)) with (t_row t).
  change (v_bot (abs t)) with (t_bot t). destruct HW. lia.
Qed.

Lemma abs_set_col t2 c : abs (set_col t2 c) = set_pos (abs t2) (t_row t2) c (t_last t2).
Proof. apply abs_move; reflexivity. Qed.

(* the clamp of IL / DL *)
Lemma ildl_count x : pv_ok x -> t_top t <= t_row t <= t_bot t ->
  (if t_bot t - t_row t <? dflt1 (clamp_ps x) - 1 then t_bot t - t_row t + 1 else dflt1 (clamp_ps x))
  = Z.min (dflt x) (t_bot t - t_row t + 1).
Proof.
  intros Hx Hr. destruct HI as [[] ? ?]. unfold dflt1, dflt. split_pv x Hx; repeat case_if; lia.
Qed.

Lemma sim_dl x : pv_ok x ->
  exists t', dl t (clamp_ps x) = TOk t' /\ Inv w h t' /\ abs t' = delete_lines (abs t) (dflt x).
Proof.
  intros Hx. destruct active_rows as [Hlen HF].
  unfold dl; cbv zeta. rewrite (set_last_id t Hlast). unfold delete_lines.
  rewrite <- in_margins_region.
  destruct (in_margins t) eqn:M; cbn [negb].
  2:{ exists t; split; [reflexivity|]; split; [assumption|reflexivity]. }
  pose proof (in_margins_true t M) as Hr.
  rewrite (ildl_count x Hx Hr).
  change (v_bot (abs t)) with (t_bot t). change (v_row (abs t)) with (t_row t).
  set (k := Z.min (dflt x) (t_bot t - t_row t + 1)).
  assert (Hk : 1 <= k <= t_bot t - t_row t + 1).
  { unfold k, dflt. unfold pv_ok in Hx. case_if; lia. }
  destruct ((t_row t <? 0) || (zlen (active t) <=? t_bot t)) eqn:G0; [destruct HW; zl|].
  match goal with |- context[mapi_opt ?f 0 (active t)] =>
    destruct (grid_loop_ok 0 w h t f HW) as [g' [Hm Hg']] end.
  { intros r line Hrr Hl. destruct HW. case_if; eauto. case_if.
    - destruct (zget_ok (row_ok w) (active t) (r + k)) as [src [Hs Hsok]]; [zl | assumption |].
      unfold trow, grid in *. rewrite Hs; eexists; split; [reflexivity|]; now apply copy_row_ok.
    - apply erase_cells_ok; auto; lia. }
  match goal with |- context[of_opt ?m] => replace m with (Some g') by (symmetry; exact Hm) end.
  cbn [of_opt tbind].
  eexists; split; [reflexivity|]. split.
  { apply (Inv_frame w h (set_active t g')); [now apply Inv_set_active | | reflexivity ..].
    apply WFs_set_col; [apply WFs_set_active; assumption|]. destruct HW; lia. }
  rewrite abs_set_col, (abs_set_active w h t g' HI Hg').
  assert (Hrow : t_row (set_active t g') = t_row t) by (unfold set_active; destruct (t_onalt t); reflexivity).
  assert (Hlst : t_last (set_active t g') = false) by (unfold set_active; destruct (t_onalt t); cbn; exact Hlast).
  rewrite Hrow, Hlst.
  replace (t_left t) with 0 by (destruct HW; lia).
  f_equal. f_equal.
  apply list_ext_all; intros i.
  change (v_grid (abs t)) with (abs_grid (active t)).
  pose proof (mapi_opt_zget _ _ _ _ Hm i) as Hz.
  unfold abs_grid at 1. rewrite zget_map. unfold trow, grid in *. rewrite Hz. clear Hz.
  unfold region_up, blank_line, blanks. rewrite (abs_cols w h t HI). change (v_pen (abs t)) with (t_pen t).
  autorewrite with zg. rewrite !abs_grid_len. unfold abs_grid. rewrite !zget_map.
  destruct HW as [? ? ? ? ? ? Htop Htb Hbot Hleft Hright ? ? ? ?].
  destruct (Z_lt_dec i 0); [rewrite !zget_neg by lia; pw_finish|].
  destruct (@zget (list tcell) (active t) i) as [line|] eqn:G.
  - pose proof (zget_some_range _ _ _ G) as Hi.
    assert (Hline : row_ok w line) by (rewrite Forall_forall in HF; apply HF; eapply zget_In; eauto).
    destruct Hline as [Hl HFl]. replace (0 + i) with i by lia.
    destruct ((t_row t <=? i) && (i <=? t_bot t)) eqn:C1.
    + destruct (i <=? t_bot t - k) eqn:C2.
      * destruct (@zget (list tcell) (active t) (i + k)) as [src|] eqn:G2.
        2:{ apply zget_none_range in G2. exfalso; zl. }
        assert (Hsrc : row_ok w src) by (rewrite Forall_forall in HF; apply HF; eapply zget_In; eauto).
        rewrite (copy_row_same line src) by (destruct Hsrc; lia). cbn [option_map].
        pw_finish.
        all: try (match goal with |- context[zget (active t) ?j] => replace j with (i + k) by zl end; rewrite G2; reflexivity).
      * rewrite Hleft, Hright, (erase_cells_full _ line w Hl ltac:(lia)). cbn [option_map].
        change (map abs_cell (map_range (erase_cell (pen_bg t)) 0 w line))
          with (abs_line (map_range (erase_cell (pen_bg t)) 0 w line)).
        rewrite (abs_line_erase_all _ line w Hl). pw_finish.
    + cbn [option_map]. pw_finish. all: try (rewrite G; reflexivity).
      all: try (match goal with |- context[zget (active t) ?j] => replace j with i by zl end; rewrite G; reflexivity).
  - apply zget_none_range in G. pw_finish. all: try (rewrite zget_beyond by zl; reflexivity).
Qed.


Lemma sim_il x : pv_ok x ->
  exists t', il t (clamp_ps x) = TOk t' /\ Inv w h t' /\ abs t' = insert_lines (abs t) (dflt x).
Proof.
  intros Hx. destruct active_rows as [Hlen HF].
  unfold il; cbv zeta. rewrite (set_last_id t Hlast). unfold insert_lines.
  rewrite <- in_margins_region.
  destruct (in_margins t) eqn:M; cbn [negb].
  2:{ exists t; split; [reflexivity|]; split; [assumption|reflexivity]. }
  pose proof (in_margins_true t M) as Hr.
  rewrite (ildl_count x Hx Hr).
  change (v_bot (abs t)) with (t_bot t). change (v_row (abs t)) with (t_row t).
  set (k := Z.min (dflt x) (t_bot t - t_row t + 1)).
  assert (Hk : 1 <= k <= t_bot t - t_row t + 1).
  { unfold k, dflt. unfold pv_ok in Hx. case_if; lia. }
  destruct ((t_row t + k <=? t_bot t) && ((t_row t + k <? 0) || (zlen (active t) <=? t_bot t))) eqn:G0;
    [destruct HW; zl|].
  match goal with |- context[mapi_opt ?f 0 (active t)] =>
    destruct (grid_loop_ok 0 w h t f HW) as [g' [Hm Hg']] end.
  { intros r line Hrr Hl. destruct HW. case_if; eauto.
    destruct (zget_ok (row_ok w) (active t) (r - k)) as [src [Hs Hsok]]; [zl | assumption |].
    unfold trow, grid in *. rewrite Hs; eexists; split; [reflexivity|]; now apply copy_row_ok. }
  match goal with |- context[of_opt ?m] => replace m with (Some g') by (symmetry; exact Hm) end.
  cbn [of_opt tbind].
  destruct ((0 <? k) && ((t_row t <? 0) || (zlen (active t) <? t_row t + k))) eqn:G1; [destruct HW; zl|].
  match goal with |- context[mapi_opt ?f 0 g'] =>
    destruct (grid_loop_gen w h g' f Hg') as [g'' [Hm2 Hg'']] end.
  { intros r line Hrr Hl. destruct HW. case_if; eauto. apply erase_cells_ok; auto; lia. }
  match goal with |- context[of_opt ?m] => replace m with (Some g'') by (symmetry; exact Hm2) end.
  cbn [of_opt tbind].
  eexists; split; [reflexivity|]. split.
  { apply (Inv_frame w h (set_active t g'')); [now apply Inv_set_active | | reflexivity ..].
    apply WFs_set_col; [apply WFs_set_active; assumption|]. destruct HW; lia. }
  rewrite abs_set_col, (abs_set_active w h t g'' HI Hg'').
  assert (Hrow : t_row (set_active t g'') = t_row t) by (unfold set_active; destruct (t_onalt t); reflexivity).
  assert (Hlst : t_last (set_active t g'') = false) by (unfold set_active; destruct (t_onalt t); cbn; exact Hlast).
  rewrite Hrow, Hlst.
  replace (t_left t) with 0 by (destruct HW; lia).
  f_equal. f_equal.
  apply list_ext_all; intros i.
  change (v_grid (abs t)) with (abs_grid (active t)).
  pose proof (mapi_opt_zget _ _ _ _ Hm2 i) as Hz2. pose proof (mapi_opt_zget _ _ _ _ Hm i) as Hz.
  unfold abs_grid at 1. rewrite zget_map. unfold trow, grid in *. rewrite Hz2, Hz. clear Hz Hz2.
  unfold region_down, blank_line, blanks. rewrite (abs_cols w h t HI). change (v_pen (abs t)) with (t_pen t).
  autorewrite with zg. rewrite !abs_grid_len. unfold abs_grid. rewrite !zget_map.
  destruct HW as [? ? ? ? ? ? Htop Htb Hbot Hleft Hright ? ? ? ?].
  destruct (Z_lt_dec i 0); [rewrite !zget_neg by lia; pw_finish|].
  destruct (@zget (list tcell) (active t) i) as [line|] eqn:G.
  - pose proof (zget_some_range _ _ _ G) as Hi.
    assert (Hline : row_ok w line) by (rewrite Forall_forall in HF; apply HF; eapply zget_In; eauto).
    destruct Hline as [Hl HFl]. replace (0 + i) with i by lia.
    destruct ((t_row t + k <=? i) && (i <=? t_bot t)) eqn:C1.
    + destruct (@zget (list tcell) (active t) (i - k)) as [src|] eqn:G2.
      2:{ apply zget_none_range in G2. exfalso; zl. }
      assert (Hsrc : row_ok w src) by (rewrite Forall_forall in HF; apply HF; eapply zget_In; eauto).
      rewrite (copy_row_same line src) by (destruct Hsrc; lia).
      assert (((t_row t <=? i) && (i <? t_row t + k)) = false) as -> by lia.
      cbn [option_map]. pw_finish.
      all: try (match goal with |- context[zget (active t) ?j] => replace j with (i - k) by zl end; rewrite G2; reflexivity).
    + destruct ((t_row t <=? i) && (i <? t_row t + k)) eqn:C2.
      * rewrite Hleft, Hright, (erase_cells_full _ line w Hl ltac:(lia)). cbn [option_map].
        change (map abs_cell (map_range (erase_cell (pen_bg t)) 0 w line))
          with (abs_line (map_range (erase_cell (pen_bg t)) 0 w line)).
        rewrite (abs_line_erase_all _ line w Hl). pw_finish.
      * cbn [option_map]. pw_finish. all: try (rewrite G; reflexivity).
        all: try (match goal with |- context[zget (active t) ?j] => replace j with i by zl end; rewrite G; reflexivity).
  - apply zget_none_range in G. pw_finish. all: try (rewrite zget_beyond by zl; reflexivity).
Qed.

End Grid.
