(* C18 - what the differential run's predicates MEAN (characterisations as propositions), and
   that the model satisfies every registered stream predicate up to the recorded finding.

   1. cells_match (model/Sgr.v, the codec round-trip predicate with blank cells) is characterised
      by an inductive relation [blank_image] and, equivalently, by a choice list [fill]:
      got is want with each blank cell either dropped or replaced by one space carrying that
      blank's pen, in order.  The English round-trip clause (every cell that has a grapheme comes
      back as itself with its own pen, in order; nothing else but such spaces comes back; without
      blank cells the lists are equal) is derived from the characterisation.
   2. codec_holds_gen / render_holds_gen as propositions about an observation.
   3. model_ok -> holds \/ known for the codec and render streams (all capability combinations,
      legacy quirk on or off), and the list-level statements about the functions the harness
      registers (c18_*_mismatches / c18_*_violations / c18_*_known). *)
From Vx Require Import base.Prelude gen.GenSgr model.Colour model.Sgr proofs.SgrProofs.

(* ------------------------------------------------------------------ *)
(* 1. cells_match                                                       *)

(* [blank_image want got]: got is want with each blank cell (empty grapheme) either dropped or
   replaced by one space (code point 32) carrying that blank cell's pen; every other cell is
   kept as it is; order is kept; nothing else occurs in got. *)
Inductive blank_image : list pcell -> list pcell -> Prop :=
| bi_nil : blank_image [] []
| bi_drop : forall p t got, blank_image t got -> blank_image (([], p) :: t) got
| bi_space : forall p t got, blank_image t got -> blank_image (([], p) :: t) (([32], p) :: got)
| bi_keep : forall g p t got, g <> [] -> blank_image t got -> blank_image ((g, p) :: t) ((g, p) :: got).

(* the same as a function of one choice per cell (ignored for cells that have a grapheme) *)
Definition cell_image (c : pcell) (as_space : bool) : list pcell :=
  match fst c with
  | [] => if as_space then [([32], snd c)] else []
  | _ => [c]
  end.
Fixpoint fill (want : list pcell) (sel : list bool) : list pcell :=
  match want, sel with
  | c :: t, b :: s => cell_image c b ++ fill t s
  | _, _ => []
  end.

(* order-preserving sub-list *)
Inductive subseq {A} : list A -> list A -> Prop :=
| ss_nil : subseq [] []
| ss_skip : forall x s l, subseq s l -> subseq s (x :: l)
| ss_take : forall x s l, subseq s l -> subseq (x :: s) (x :: l).

(* a cell as the renderer shows it: a blank becomes a space, the pen is kept *)
Definition shown_pcell (c : pcell) : pcell := (shown (fst c), snd c).

Lemma pcell_eqb_refl c : pcell_eqb c c = true.
Proof. destruct c as [g p]; unfold pcell_eqb; cbn [fst snd]; rewrite list_eqb_Z_refl, pen_eqb_refl; reflexivity. Qed.

Lemma zlist_eqb_nil_false (g : text) : g <> [] -> zlist_eqb g [] = false.
Proof. destruct g; [congruence | reflexivity]. Qed.

Lemma cells_match_image want : forall got, cells_match want got = true -> blank_image want got.
Proof.
  induction want as [|[g p] t IH]; intros got H.
  - destruct got; [constructor | discriminate].
  - cbn [cells_match] in H. destruct g as [|r g].
    + cbn [zlist_eqb list_eqb] in H. apply orb_prop in H as [H|H].
      * apply bi_drop; auto.
      * destruct got as [|c got]; [discriminate|].
        apply andb_prop in H as [H1 H2]. apply pcell_eqb_eq in H1; subst c.
        apply bi_space; auto.
    + cbn [zlist_eqb list_eqb] in H. destruct got as [|c got]; [discriminate|].
      apply andb_prop in H as [H1 H2]. apply pcell_eqb_eq in H1; subst c.
      apply bi_keep; [discriminate | auto].
Qed.

Lemma image_cells_match want got : blank_image want got -> cells_match want got = true.
Proof.
  induction 1 as [|p t got _ IH|p t got _ IH|g p t got Hg _ IH].
  - reflexivity.
  - cbn [cells_match zlist_eqb list_eqb]. rewrite IH; reflexivity.
  - cbn [cells_match zlist_eqb list_eqb]. rewrite pcell_eqb_refl, IH; apply orb_true_r.
  - cbn [cells_match]. rewrite (zlist_eqb_nil_false g Hg), pcell_eqb_refl, IH; reflexivity.
Qed.

Theorem cells_match_iff_image want got : cells_match want got = true <-> blank_image want got.
Proof. split; [apply cells_match_image | apply image_cells_match]. Qed.

Lemma image_fill want got : blank_image want got ->
  exists sel, length sel = length want /\ got = fill want sel.
Proof.
  induction 1 as [|p t got _ [s [L E]]|p t got _ [s [L E]]|g p t got Hg _ [s [L E]]].
  - exists []; split; reflexivity.
  - exists (false :: s); split; [cbn [length]; congruence | subst got; reflexivity].
  - exists (true :: s); split; [cbn [length]; congruence | subst got; reflexivity].
  - exists (false :: s); split; [cbn [length]; congruence|].
    subst got; destruct g; [congruence | reflexivity].
Qed.

Lemma fill_image want : forall sel, length sel = length want -> blank_image want (fill want sel).
Proof.
  induction want as [|[g p] t IH]; intros [|b s] L; try discriminate; [constructor|].
  injection L as L. cbn [fill]; unfold cell_image; cbn [fst snd].
  destruct g as [|r g].
  - destruct b; cbn [app]; [apply bi_space | apply bi_drop]; auto.
  - cbn [app]; apply bi_keep; [discriminate | auto].
Qed.

Theorem cells_match_iff_fill want got :
  cells_match want got = true <-> exists sel, length sel = length want /\ got = fill want sel.
Proof.
  rewrite cells_match_iff_image; split.
  - apply image_fill.
  - intros [sel [L ->]]; apply fill_image; exact L.
Qed.

(* the English round-trip clause, from the characterisation *)

Lemma subseq_refl {A} (l : list A) : subseq l l.
Proof. induction l; [apply ss_nil | apply ss_take; assumption]. Qed.

Lemma subseq_In {A} (s l : list A) : subseq s l -> forall x, In x s -> In x l.
Proof.
  induction 1 as [|y s l _ IH|y s l _ IH]; intros x Hx; [contradiction | right; auto |].
  destruct Hx as [->|Hx]; [left; reflexivity | right; auto].
Qed.

Lemma subseq_length {A} (s l : list A) : subseq s l -> (length s <= length l)%nat.
Proof. induction 1; cbn; lia. Qed.

(* every cell that has a grapheme comes back as itself, in order (lower bound: exactly these,
   which is what the codec decoders return); whatever comes back is a cell of want as the
   renderer shows it, in order (upper bound: all of them, which is what render's output reads as) *)
Lemma image_sandwich want got : blank_image want got ->
  subseq (filter nonblank want) got /\ subseq got (map shown_pcell want).
Proof.
  induction 1 as [|p t got _ [IH1 IH2]|p t got _ [IH1 IH2]|g p t got Hg _ [IH1 IH2]].
  - split; constructor.
  - split; [exact IH1 | cbn [map]; apply ss_skip; exact IH2].
  - split; [cbn [filter]; apply ss_skip; exact IH1 | cbn [map]; apply ss_take; exact IH2].
  - split.
    + cbn [filter]; unfold nonblank; cbn [fst]; rewrite (zlist_eqb_nil_false g Hg); cbn [negb].
      apply ss_take; exact IH1.
    + cbn [map]; unfold shown_pcell at 1; cbn [fst snd].
      replace (shown g) with g by (destruct g; [congruence | reflexivity]).
      apply ss_take; exact IH2.
Qed.

Lemma image_nonblank want got : blank_image want got -> forallb nonblank want = true -> got = want.
Proof.
  induction 1 as [|p t got _ IH|p t got _ IH|g p t got Hg _ IH]; intros N;
    try reflexivity; cbn [forallb] in N; apply andb_prop in N as [N1 N2];
    try (unfold nonblank in N1; cbn in N1; discriminate).
  f_equal; auto.
Qed.

Lemma image_origin want got : blank_image want got ->
  forall c, In c got -> (In c want /\ nonblank c = true) \/ (exists p, c = ([32], p) /\ In ([], p) want).
Proof.
  induction 1 as [|p t got _ IH|p t got _ IH|g p t got Hg _ IH]; intros c Hc.
  - contradiction.
  - destruct (IH c Hc) as [[H1 H2]|[q [H1 H2]]]; [left; split; [right|]; auto | right; exists q; split; [|right]; auto].
  - destruct Hc as [<-|Hc]; [right; exists p; split; [reflexivity | left; reflexivity]|].
    destruct (IH c Hc) as [[H1 H2]|[q [H1 H2]]]; [left; split; [right|]; auto | right; exists q; split; [|right]; auto].
  - destruct Hc as [<-|Hc].
    + left; split; [left; reflexivity|]. unfold nonblank; cbn [fst]; rewrite (zlist_eqb_nil_false g Hg); reflexivity.
    + destruct (IH c Hc) as [[H1 H2]|[q [H1 H2]]]; [left; split; [right|]; auto | right; exists q; split; [|right]; auto].
Qed.

(* ------------------------------------------------------------------ *)
(* 2. the stream predicates as propositions                            *)

Lemma pen_eqb_iff a b : pen_eqb a b = true <-> a = b.
Proof. split; [apply pen_eqb_eq | intros ->; apply pen_eqb_refl]. Qed.

Lemma pcells_eqb_iff a b : pcells_eqb a b = true <-> a = b.
Proof. split; [apply pcells_eqb_eq | intros ->; apply pcells_eqb_refl]. Qed.

Definition codec_roundtrip_prop (with_styledE : bool) (cells : list cell) (o : codec_obs) : Prop :=
  let want := map pcell_of cells in
  blank_image want (o_parsed o) /\ blank_image want (o_term o) /\
  (forallb no_link cells = true ->
     blank_image want (o_styled o) /\ (with_styledE = true -> blank_image want (o_styledE o))) /\
  o_fin_parse o = pen0 /\ o_fin_term o = pen0.

Theorem codec_holds_gen_spec w legacy cells o : forallb wf_scellb cells = true ->
  (codec_holds_gen w (legacy, cells, o) = true <-> codec_roundtrip_prop w cells o).
Proof.
  intros W; unfold codec_holds_gen, codec_roundtrip_prop; rewrite W; cbv zeta.
  rewrite !andb_true_iff, !pen_eqb_iff, !cells_match_iff_image.
  destruct (forallb no_link cells).
  - rewrite andb_true_iff, cells_match_iff_image.
    destruct w.
    + rewrite cells_match_iff_image; intuition.
    + intuition; discriminate.
  - intuition; discriminate.
Qed.

Definition render_roundtrip_prop (with_styled rgb smulx : bool) (cells : list pcell) (o : render_obs) : Prop :=
  let want := map (fun c => (shown (fst c), eff_pen rgb smulx (snd c))) cells in
  r_parsed o = want /\ (with_styled = true -> r_styled o = want) /\ r_term o = want /\ r_fin_term o = pen0.

Theorem render_holds_gen_spec w legacy rgb smulx cells o : forallb wf_spcellb cells = true ->
  (render_holds_gen w ((legacy, rgb, smulx), cells, o) = true <-> render_roundtrip_prop w rgb smulx cells o).
Proof.
  intros W; unfold render_holds_gen, render_roundtrip_prop; rewrite W; cbv zeta.
  rewrite !andb_true_iff, !pen_eqb_iff, !pcells_eqb_iff.
  destruct w.
  - rewrite pcells_eqb_iff; intuition.
  - intuition; discriminate.
Qed.

(* ------------------------------------------------------------------ *)
(* 3. the model satisfies the registered predicates up to the finding  *)

(* the legacy quirk only changes how extended (38 / 48) colours are written *)
Lemma fgbg_legacy_irrelevant legacy b0 br ext rst c :
  match color_params c with [n] => 16 <=? n | [_; _; _] => true | _ => false end = false ->
  fgbg_sgr legacy b0 br ext rst (color_params c) = fgbg_sgr false b0 br ext rst (color_params c).
Proof.
  destruct legacy; [|reflexivity]. unfold fgbg_sgr.
  destruct (color_params c) as [|n [|g [|b [|? ?]]]]; intros H; try reflexivity; try discriminate.
  destruct (n <? 8) eqn:E1; [reflexivity|]. destruct (n <? 16) eqn:E2; [reflexivity|]. lia.
Qed.

Lemma pen_delta_legacy_irrelevant legacy rgb smulx prev next :
  uses_ext_colour (eff_pen rgb smulx next) = false ->
  pen_delta legacy rgb smulx prev next = pen_delta false rgb smulx prev next.
Proof.
  unfold uses_ext_colour, eff_pen; cbn [fg bg]. intros H; apply orb_false_elim in H as [H1 H2].
  unfold pen_delta.
  rewrite (fgbg_legacy_irrelevant legacy 30 90 38 39 _ H1), (fgbg_legacy_irrelevant legacy 40 100 48 49 _ H2).
  reflexivity.
Qed.

Lemma existsb_false_cons {A} (f : A -> bool) x l : existsb f (x :: l) = false -> f x = false /\ existsb f l = false.
Proof. cbn [existsb]; intros H; apply orb_false_elim in H; exact H. Qed.

Lemma enc_loop_legacy_irrelevant legacy cs :
  existsb (fun c => uses_ext_colour (spen (snd c))) cs = false ->
  forall cur, enc_loop legacy cur cs = enc_loop false cur cs.
Proof.
  induction cs as [|[g st] t IH]; intros H cur; [reflexivity|].
  apply existsb_false_cons in H as [H1 H2]; cbn [snd] in H1.
  cbn [enc_loop]. rewrite (IH H2 st).
  rewrite (pen_delta_legacy_irrelevant legacy true true (spen cur) (spen st)); [reflexivity|].
  rewrite eff_pen_id; exact H1.
Qed.

Lemma render_loop_legacy_irrelevant legacy rgb smulx cs :
  existsb (fun c => uses_ext_colour (eff_pen rgb smulx (snd c))) cs = false ->
  forall cur, render_loop legacy rgb smulx cur cs = render_loop false rgb smulx cur cs.
Proof.
  induction cs as [|[g p] t IH]; intros H cur; [reflexivity|].
  apply existsb_false_cons in H as [H1 H2]; cbn [snd] in H1.
  cbn [render_loop]. rewrite (IH H2 p), (pen_delta_legacy_irrelevant legacy rgb smulx cur p H1); reflexivity.
Qed.

(* every observation that equals the model's prediction satisfies the registered predicate
   [codec_holds] or lies in the recorded finding's class [codec_known] *)
Theorem codec_model_holds_or_known c : codec_model_ok c = true ->
  codec_holds c = true \/ codec_known c = true.
Proof.
  destruct c as [[legacy cells] o]; intros H.
  destruct legacy.
  - destruct (existsb (fun c => uses_ext_colour (spen (snd c))) cells) eqn:E.
    + right. unfold codec_known; rewrite E; cbn [andb].
      exact (proj1 (codec_model_holds _ H)).
    + left. assert (H' : codec_model_ok (false, cells, o) = true).
      { unfold codec_model_ok in *; unfold encode_cells in *.
        rewrite (enc_loop_legacy_irrelevant true cells E style0) in H; exact H. }
      exact (proj2 (codec_model_holds _ H') eq_refl).
  - left; exact (proj2 (codec_model_holds _ H) eq_refl).
Qed.

Theorem render_model_holds_or_known c : render_model_ok c = true ->
  render_holds c = true \/ render_known c = true.
Proof.
  destruct c as [[[[legacy rgb] smulx] cells] o]; intros H.
  destruct legacy.
  - destruct (existsb (fun c => uses_ext_colour (eff_pen rgb smulx (snd c))) cells) eqn:E.
    + right. unfold render_known; rewrite E; cbn [andb].
      exact (proj1 (render_model_holds _ H)).
    + left. assert (H' : render_model_ok ((false, rgb, smulx), cells, o) = true).
      { unfold render_model_ok in *; unfold render_row in *.
        rewrite (render_loop_legacy_irrelevant true rgb smulx cells E pen0) in H; exact H. }
      exact (proj2 (render_model_holds _ H') eq_refl).
  - left; exact (proj2 (render_model_holds _ H) eq_refl).
Qed.

(* list level: the functions the harness registers *)
Lemma bad_from_nil {A} (bad : A -> bool) l : forall i, bad_from bad i l = [] -> forall x, In x l -> bad x = false.
Proof.
  induction l as [|y l IH]; intros i H x Hx; [contradiction|].
  cbn [bad_from] in H. destruct (bad y) eqn:E; [discriminate|].
  destruct Hx as [<-|Hx]; [exact E | exact (IH _ H x Hx)].
Qed.

Lemma bad_from_incl {A} (b1 b2 : A -> bool) l :
  (forall x, In x l -> b1 x = true -> b2 x = true) ->
  forall i k, In k (bad_from b1 i l) -> In k (bad_from b2 i l).
Proof.
  induction l as [|y l IH]; intros Hx i k Hk; [contradiction|].
  cbn [bad_from] in *.
  assert (Hl : forall x, In x l -> b1 x = true -> b2 x = true) by (intros x I; apply Hx; right; exact I).
  destruct (b1 y) eqn:E1.
  - rewrite (Hx y (or_introl eq_refl) E1). destruct Hk as [<-|Hk]; [left; reflexivity | right; apply IH; assumption].
  - destruct (b2 y); [right|]; apply IH; assumption.
Qed.

Lemma bad_from_all_false {A} (bad : A -> bool) l : (forall x, In x l -> bad x = false) -> forall i, bad_from bad i l = [].
Proof.
  induction l as [|y l IH]; intros H i; [reflexivity|].
  cbn [bad_from]. rewrite (H y (or_introl eq_refl)). apply IH; intros x I; apply H; right; exact I.
Qed.

Theorem codec_stream_sound cases : c18_codec_mismatches cases = [] ->
  forall k, In k (c18_codec_violations cases) -> In k (c18_codec_known cases).
Proof.
  unfold c18_codec_mismatches, c18_codec_violations, c18_codec_known, bad_indices; intros M.
  apply bad_from_incl; intros c I V.
  pose proof (bad_from_nil _ _ _ M c I) as Hm. apply negb_false_iff in Hm.
  destruct (codec_model_holds_or_known c Hm) as [Hh|Hk]; [rewrite Hh in V; discriminate | exact Hk].
Qed.

Theorem render_stream_sound cases : c18_render_mismatches cases = [] ->
  forall k, In k (c18_render_violations cases) -> In k (c18_render_known cases).
Proof.
  unfold c18_render_mismatches, c18_render_violations, c18_render_known, bad_indices; intros M.
  apply bad_from_incl; intros c I V.
  pose proof (bad_from_nil _ _ _ M c I) as Hm. apply negb_false_iff in Hm.
  destruct (render_model_holds_or_known c Hm) as [Hh|Hk]; [rewrite Hh in V; discriminate | exact Hk].
Qed.

Theorem sgr_stream_sound cases : c18_sgr_mismatches cases = [] -> c18_sgr_violations cases = [].
Proof.
  unfold c18_sgr_mismatches, c18_sgr_violations, bad_indices; intros M.
  apply bad_from_all_false; intros c I.
  pose proof (bad_from_nil _ _ _ M c I) as Hm. apply negb_false_iff in Hm.
  rewrite (sgr_model_holds c Hm); reflexivity.
Qed.

(* ------------------------------------------------------------------ *)
(* 4. the predicates evaluated on what the MODEL returns, without an observation as hypothesis:
      for every capability combination and with the legacy quirk on or off *)

Definition no_ext_render (rgb smulx : bool) (cells : list pcell) : bool :=
  negb (existsb (fun c => uses_ext_colour (eff_pen rgb smulx (snd c))) cells).
Definition no_ext_codec (cells : list cell) : bool :=
  negb (existsb (fun c => uses_ext_colour (spen (snd c))) cells).

Theorem render_predicate_on_model legacy rgb smulx cells : Forall wf_spcell cells ->
  exists parsed term,
    parse_styled_string (render_row legacy rgb smulx cells) = Ok (parsed, pen0) /\
    term_feed (render_row legacy rgb smulx cells) = Ok (term, pen0) /\
    (forall out styled,
       render_holds_gen false ((legacy, rgb, smulx), cells, mkRenderObs out parsed styled term pen0) = true) /\
    (legacy = false \/ no_ext_render rgb smulx cells = true ->
     exists styled, new_styled_string pen0 (render_row legacy rgb smulx cells) = Ok (styled, pen0) /\
       forall out, render_holds ((legacy, rgb, smulx), cells, mkRenderObs out parsed styled term pen0) = true).
Proof.
  intros W.
  pose proof (render_loop_decode_blank sgr_run sgr_run_ok sgr_run_reset legacy (sgr_legacy legacy) rgb smulx cells W pen0 wf_pen0) as R1.
  pose proof (render_loop_decode_blank (styled_sgr pen0) (styled_sgr_ok pen0) styled_reset false (no_legacy _) rgb smulx cells W pen0 wf_pen0) as R2.
  rewrite eff_pen0 in R1, R2.
  assert (Wb : forallb wf_spcellb cells = true) by (apply forallb_forall; apply Forall_forall; exact W).
  set (want := map (fun c => (shown (fst c), eff_pen rgb smulx (snd c))) cells) in *.
  exists want, want. split; [exact R1|]. split; [exact R1|]. split.
  - intros out styled. apply (render_holds_gen_spec false legacy rgb smulx cells _ Wb).
    unfold render_roundtrip_prop; cbn [r_parsed r_styled r_term r_fin_term]; fold want.
    repeat split; try reflexivity. discriminate.
  - intros G. exists want.
    assert (E : render_row legacy rgb smulx cells = render_row false rgb smulx cells).
    { destruct G as [->|G]; [reflexivity|]. unfold no_ext_render in G; apply negb_true_iff in G.
      unfold render_row; apply render_loop_legacy_irrelevant; exact G. }
    split; [rewrite E; exact R2|].
    intros out. apply (render_holds_gen_spec true legacy rgb smulx cells _ Wb).
    unfold render_roundtrip_prop; cbn [r_parsed r_styled r_term r_fin_term]; fold want.
    repeat split; reflexivity.
Qed.

Theorem codec_predicate_on_model legacy cells : Forall wf_scell cells ->
  let got := shown_cells cells in
  parse_styled_string (encode_cells legacy cells) = Ok (got, pen0) /\
  term_feed (encode_cells legacy cells) = Ok (got, pen0) /\
  new_styled_string pen0 (ss_encode cells) = Ok (got, pen0) /\
  (forall encE encS styledE,
     codec_holds_gen false (legacy, cells, mkCodecObs encE encS got got styledE got pen0 pen0) = true) /\
  (legacy = false \/ no_ext_codec cells = true ->
   new_styled_string pen0 (encode_cells legacy cells) = Ok (got, pen0) /\
   forall encE encS, codec_holds (legacy, cells, mkCodecObs encE encS got got got got pen0 pen0) = true).
Proof.
  intros W got.
  pose proof (enc_loop_decode_blank sgr_run sgr_run_ok sgr_run_reset legacy (sgr_legacy legacy) cells W style0 wf_pen0) as R1.
  pose proof (enc_loop_decode_blank (styled_sgr pen0) (styled_sgr_ok pen0) styled_reset false (no_legacy _) cells W style0 wf_pen0) as R2.
  change (spen style0) with pen0 in R1, R2. fold got in R1, R2.
  assert (Wb : forallb wf_scellb cells = true) by (apply forallb_forall; apply Forall_forall; exact W).
  assert (I : blank_image (map pcell_of cells) got) by (apply cells_match_iff_image, cells_match_shown).
  split; [exact R1|]. split; [exact R1|]. split; [exact R2|]. split.
  - intros encE encS styledE. apply (codec_holds_gen_spec false legacy cells _ Wb).
    unfold codec_roundtrip_prop; cbn [o_parsed o_term o_styled o_styledE o_fin_parse o_fin_term].
    repeat split; try assumption; try reflexivity. discriminate.
  - intros G.
    assert (E : encode_cells legacy cells = ss_encode cells).
    { destruct G as [->|G]; [reflexivity|]. unfold no_ext_codec in G; apply negb_true_iff in G.
      unfold encode_cells, ss_encode; apply enc_loop_legacy_irrelevant; exact G. }
    split; [rewrite E; exact R2|].
    intros encE encS. apply (codec_holds_gen_spec true legacy cells _ Wb).
    unfold codec_roundtrip_prop; cbn [o_parsed o_term o_styled o_styledE o_fin_parse o_fin_term].
    repeat split; intros; try assumption; reflexivity.
Qed.
