(* UTF-8 layer: the bytes Go writes for a string of valid code points are decoded by the
   parser model's readRune (decode_all) into exactly those code points. *)
From Coq Require Import Lia ZifyBool.
From Vx Require Import base.Prelude base.ListX model.ParserTypes model.Parser model.RenderTypes
  model.RenderCheck model.RenderBytes.
Ltac Zify.zify_post_hook ::= Z.div_mod_to_equations.

Definition rune_ok (r : Z) : Prop := 0 <= r < 55296 \/ 57344 <= r < 1114112.
Lemma rune_okb_ok r : rune_okb r = true -> rune_ok r.
Proof. unfold rune_okb, rune_ok. lia. Qed.

Lemma decode1_enc r rest : rune_ok r -> decode1 (utf8_enc r ++ rest) = Some (r, rest).
Proof.
  intros H. unfold utf8_enc.
  destruct (r <? 128) eqn:E1.
  { cbn [app decode1]. rewrite E1. reflexivity. }
  destruct (r <? 2048) eqn:E2.
  { cbn [app decode1]. unfold in_range, cont, in_range.
    destruct (192 + r / 64 <? 128) eqn:A; [lia|].
    destruct ((194 <=? 192 + r / 64) && (192 + r / 64 <=? 223)) eqn:B; [|lia].
    destruct ((128 <=? 128 + r mod 64) && (128 + r mod 64 <=? 191)) eqn:C; [|lia].
    f_equal. f_equal. lia. }
  destruct (r <? 65536) eqn:E3.
  { cbn [app decode1]. unfold in_range, cont, in_range.
    destruct (224 + r / 4096 <? 128) eqn:A; [lia|].
    destruct ((194 <=? 224 + r / 4096) && (224 + r / 4096 <=? 223)) eqn:B; [lia|].
    destruct ((224 <=? 224 + r / 4096) && (224 + r / 4096 <=? 239)) eqn:C; [|lia].
    destruct (224 + r / 4096 =? 224) eqn:D1; destruct (224 + r / 4096 =? 237) eqn:D2; try lia.
    - destruct (((160 <=? 128 + (r / 64) mod 64) && (128 + (r / 64) mod 64 <=? 191)) &&
                ((128 <=? 128 + r mod 64) && (128 + r mod 64 <=? 191))) eqn:F; [|lia].
      f_equal. f_equal. lia.
    - destruct (((128 <=? 128 + (r / 64) mod 64) && (128 + (r / 64) mod 64 <=? 159)) &&
                ((128 <=? 128 + r mod 64) && (128 + r mod 64 <=? 191))) eqn:F; [|unfold rune_ok in H; lia].
      f_equal. f_equal. lia.
    - destruct (((128 <=? 128 + (r / 64) mod 64) && (128 + (r / 64) mod 64 <=? 191)) &&
                ((128 <=? 128 + r mod 64) && (128 + r mod 64 <=? 191))) eqn:F; [|lia].
      f_equal. f_equal. lia. }
  cbn [app decode1]. unfold in_range, cont, in_range. unfold rune_ok in H.
  destruct (240 + r / 262144 <? 128) eqn:A; [lia|].
  destruct ((194 <=? 240 + r / 262144) && (240 + r / 262144 <=? 223)) eqn:B; [lia|].
  destruct ((224 <=? 240 + r / 262144) && (240 + r / 262144 <=? 239)) eqn:C; [lia|].
  destruct ((240 <=? 240 + r / 262144) && (240 + r / 262144 <=? 244)) eqn:D; [|lia].
  destruct (240 + r / 262144 =? 240) eqn:D1; destruct (240 + r / 262144 =? 244) eqn:D2; try lia.
  - destruct ((((144 <=? 128 + (r / 4096) mod 64) && (128 + (r / 4096) mod 64 <=? 191)) &&
               ((128 <=? 128 + (r / 64) mod 64) && (128 + (r / 64) mod 64 <=? 191))) &&
              ((128 <=? 128 + r mod 64) && (128 + r mod 64 <=? 191))) eqn:F; [|lia].
    f_equal. f_equal. lia.
  - destruct ((((128 <=? 128 + (r / 4096) mod 64) && (128 + (r / 4096) mod 64 <=? 143)) &&
               ((128 <=? 128 + (r / 64) mod 64) && (128 + (r / 64) mod 64 <=? 191))) &&
              ((128 <=? 128 + r mod 64) && (128 + r mod 64 <=? 191))) eqn:F; [|lia].
    f_equal. f_equal. lia.
  - destruct ((((128 <=? 128 + (r / 4096) mod 64) && (128 + (r / 4096) mod 64 <=? 191)) &&
               ((128 <=? 128 + (r / 64) mod 64) && (128 + (r / 64) mod 64 <=? 191))) &&
              ((128 <=? 128 + r mod 64) && (128 + r mod 64 <=? 191))) eqn:F; [|lia].
    f_equal. f_equal. lia.
Qed.

Lemma utf8_enc_len r : (1 <= length (utf8_enc r))%nat.
Proof. unfold utf8_enc. destruct (r <? 128); [cbn; lia|]. destruct (r <? 2048); [cbn; lia|]. destruct (r <? 65536); cbn; lia. Qed.

Lemma decode_fuel_nil fuel : decode_fuel fuel [] = [].
Proof. destruct fuel; reflexivity. Qed.

Lemma decode_fuel_enc rs : forall fuel, (length (utf8_bytes rs) <= fuel)%nat -> Forall rune_ok rs ->
  decode_fuel fuel (utf8_bytes rs) = rs.
Proof.
  induction rs as [|r rs IH]; intros fuel Hlen Hok.
  - apply decode_fuel_nil.
  - inversion Hok as [|? ? Hr Hrs]; subst.
    unfold utf8_bytes in *. cbn [flat_map] in *. rewrite app_length in Hlen.
    pose proof (utf8_enc_len r) as Hl.
    destruct fuel as [|f]; [lia|]. cbn [decode_fuel]. rewrite decode1_enc by exact Hr.
    f_equal. apply IH; [lia|exact Hrs].
Qed.

Theorem decode_utf8 rs : Forall rune_ok rs -> decode_all (utf8_bytes rs) = rs.
Proof. intros H. unfold decode_all. apply decode_fuel_enc; [lia|exact H]. Qed.

(* ---------- everything the renderer serialises is such a code point ---------- *)
Lemma rfmt_cons c r args : rfmt (c :: r) args =
  if c =? 37 then
    match r with
    | d :: r' =>
        if d =? 100 then match args with AInt n :: a' => rdec n ++ rfmt r' a' | _ => [37; 33; 100] ++ rfmt r' (tl args) end
        else if d =? 115 then match args with AStr s :: a' => s ++ rfmt r' a' | _ => [37; 33; 115] ++ rfmt r' (tl args) end
        else c :: rfmt r args
    | [] => c :: rfmt r args
    end
  else c :: rfmt r args.
Proof.
  destruct (c =? 37) eqn:E.
  - apply Z.eqb_eq in E; subst c. destruct r as [|d r']; [reflexivity|].
    destruct (d =? 100) eqn:E1; [apply Z.eqb_eq in E1; subst; reflexivity|].
    destruct (d =? 115) eqn:E2; [apply Z.eqb_eq in E2; subst; reflexivity|].
    destruct d as [|q|q]; try reflexivity.
    repeat (destruct q as [q|q|]; try reflexivity); discriminate.
  - destruct c as [|q|q]; try reflexivity.
    repeat (destruct q as [q|q|]; try reflexivity); discriminate.
Qed.

Definition arg_ok (a : rarg) : Prop := match a with AInt _ => True | AStr s => Forall rune_ok s end.

Lemma dec_digits_ok f : forall n, 0 <= n -> Forall rune_ok (dec_digits f n).
Proof.
  induction f as [|f IH]; intros n Hn; [constructor|].
  cbn [dec_digits]. destruct (n <? 10) eqn:E.
  - constructor; [unfold rune_ok; lia|constructor].
  - apply Forall_app. split; [apply IH; lia|]. constructor; [unfold rune_ok; lia|constructor].
Qed.
Lemma rdec_ok n : Forall rune_ok (rdec n).
Proof.
  unfold rdec. destruct (n <? 0) eqn:E.
  - constructor; [unfold rune_ok; lia|]. apply dec_digits_ok. lia.
  - apply dec_digits_ok. lia.
Qed.

Lemma rfmt_ok : forall k f args, (length f <= k)%nat -> Forall rune_ok f -> Forall arg_ok args ->
  Forall rune_ok (rfmt f args).
Proof.
  induction k as [|k IH]; intros f args Hl Hf Ha.
  - destruct f; [constructor|cbn in Hl; lia].
  - destruct f as [|c r]; [constructor|]. cbn [length] in Hl.
    inversion Hf as [|? ? Hc Hr]; subst.
    assert (Hplain : Forall rune_ok (c :: rfmt r args)).
    { constructor; [exact Hc|]. apply IH; [lia|exact Hr|exact Ha]. }
    assert (Htl : Forall arg_ok (tl args)) by (destruct args; [constructor|inversion Ha; assumption]).
    rewrite rfmt_cons. destruct (c =? 37); [|exact Hplain].
    destruct r as [|d r']; [exact Hplain|]. cbn [length] in Hl.
    inversion Hr as [|? ? Hd Hr']; subst.
    destruct (d =? 100).
    { destruct args as [|[n|s] a'].
      + apply Forall_app. split; [repeat constructor; unfold rune_ok; lia|]. apply IH; [lia|exact Hr'|exact Htl].
      + apply Forall_app. split; [apply rdec_ok|]. apply IH; [lia|exact Hr'|exact Htl].
      + apply Forall_app. split; [repeat constructor; unfold rune_ok; lia|]. apply IH; [lia|exact Hr'|exact Htl]. }
    destruct (d =? 115); [|exact Hplain].
    destruct args as [|[n|s] a'].
    + apply Forall_app. split; [repeat constructor; unfold rune_ok; lia|]. apply IH; [lia|exact Hr'|exact Htl].
    + apply Forall_app. split; [repeat constructor; unfold rune_ok; lia|]. apply IH; [lia|exact Hr'|exact Htl].
    + inversion Ha as [|? ? Hs Ha']; subst. apply Forall_app. split; [exact Hs|]. apply IH; [lia|exact Hr'|exact Ha'].
Qed.

Lemma rfmt_ok' f args : forallb rune_okb f = true -> Forall arg_ok args -> Forall rune_ok (rfmt f args).
Proof.
  intros Hf Ha. apply (rfmt_ok (length f)); [lia| |exact Ha].
  rewrite forallb_forall in Hf. apply Forall_forall. intros x Hx. apply rune_okb_ok. auto.
Qed.

Lemma okb_forall rs : forallb rune_okb rs = true -> Forall rune_ok rs.
Proof. rewrite forallb_forall. intros H. apply Forall_forall. intros x Hx. apply rune_okb_ok. auto. Qed.

Lemma ser_ok k : tok_utf8b k = true -> Forall rune_ok (ser k).
Proof.
  intros H. destruct k; cbn [tok_utf8b] in H; unfold ser.
  - apply rfmt_ok'; [reflexivity|repeat constructor].
  - apply okb_forall. reflexivity.
  - unfold ser_colour. destruct ps as [|a [|b [|c [|d t]]]]; try (apply okb_forall; reflexivity); [|apply rfmt_ok'; [reflexivity|repeat constructor]].
    destruct (a <? 8); [|destruct (a <? 16)]; apply rfmt_ok'; try reflexivity; repeat constructor.
  - unfold ser_colour. destruct ps as [|a [|b [|c [|d t]]]]; try (apply okb_forall; reflexivity); [|apply rfmt_ok'; [reflexivity|repeat constructor]].
    destruct (a <? 8); [|destruct (a <? 16)]; apply rfmt_ok'; try reflexivity; repeat constructor.
  - destruct ps as [|a [|b [|c [|d t]]]]; try (apply okb_forall; reflexivity); apply rfmt_ok'; try reflexivity; repeat constructor.
  - unfold ser_attr, attr_table. cbn [assoc_z].
    repeat match goal with |- context [if ?c then _ else _] => destruct c; [apply okb_forall; reflexivity|] end. constructor.
  - apply rfmt_ok'; [reflexivity|repeat constructor].
  - apply andb_prop in H. destruct H as [Hp Hu]. apply rfmt_ok'; [reflexivity|]. repeat constructor; cbn; now apply okb_forall.
  - now apply okb_forall.
  - apply rfmt_ok'; [reflexivity|]. repeat constructor; cbn; now apply okb_forall.
  - apply okb_forall. reflexivity.
  - apply rfmt_ok'; [reflexivity|repeat constructor].
  - apply rfmt_ok'; [reflexivity|repeat constructor].
  - apply rfmt_ok'; [reflexivity|repeat constructor].
  - apply rfmt_ok'; [reflexivity|repeat constructor].
  - apply rfmt_ok'; [reflexivity|repeat constructor].
  - apply rfmt_ok'; [reflexivity|]. repeat constructor; cbn; now apply okb_forall.
Qed.

Lemma ser_all_ok ks : forallb tok_utf8b ks = true -> Forall rune_ok (ser_all ks).
Proof.
  induction ks as [|k ks IH]; intros H; [constructor|].
  cbn [forallb] in H. apply andb_prop in H. destruct H as [Hk Hks].
  unfold ser_all. cbn [flat_map]. apply Forall_app. split; [now apply ser_ok|now apply IH].
Qed.
