(* C10 — proofs over model/Conc.v.
   Part B (the LTS): FIFO per poster, the input pipeline, the shutdown handshake.
   Part A (the translated access table): closed by vm_compute at the end of the file. *)
From Vx Require Import base.Prelude gen.GenAccess model.Conc.
Require Import Setoid.
Local Open Scope nat_scope.

(* ---------- generic ---------- *)
Lemma run_app : forall N ans a b s,
  run N ans (a ++ b) s = match run N ans a s with Some s' => run N ans b s' | None => None end.
Proof.
  induction a as [|l a IH]; intros b s; simpl; [reflexivity|].
  destruct (step N ans l s); [apply IH|reflexivity].
Qed.

Lemma reachable_ind' : forall N ans script (P : state -> Prop),
  P (init script) ->
  (forall s l s', reachable N ans script s -> P s -> step N ans l s = Some s' -> P s') ->
  forall s, reachable N ans script s -> P s.
Proof.
  intros N ans script P H0 Hstep s [tr Htr]. revert s Htr.
  induction tr as [|l tr IH] using rev_ind; intros s Htr.
  - simpl in Htr. inversion Htr; subst; exact H0.
  - rewrite run_app in Htr. destruct (run N ans tr (init script)) as [s1|] eqn:E1; [|discriminate].
    simpl in Htr. destruct (step N ans l s1) as [s2|] eqn:E2; [|discriminate]. inversion Htr; subst.
    eapply Hstep; [exists tr; exact E1 | apply IH; reflexivity | exact E2].
Qed.

Lemma reachable_step : forall N ans script s l s',
  reachable N ans script s -> step N ans l s = Some s' -> reachable N ans script s'.
Proof.
  intros N ans script s l s' [tr Htr] Hs. exists (tr ++ [l]). rewrite run_app, Htr. simpl. rewrite Hs. reflexivity.
Qed.

Lemma reachable_run : forall N ans script tr s s',
  reachable N ans script s -> run N ans tr s = Some s' -> reachable N ans script s'.
Proof.
  intros N ans script tr s s' [t0 H0] Hr. exists (t0 ++ tr). rewrite run_app, H0. exact Hr.
Qed.

(* ---------- subsequences ---------- *)
Inductive Subseq {A} : list A -> list A -> Prop :=
  | sub_nil : forall l, Subseq [] l
  | sub_take : forall x a b, Subseq a b -> Subseq (x :: a) (x :: b)
  | sub_skip : forall x a b, Subseq a b -> Subseq a (x :: b).

Lemma subseq_refl : forall A (l : list A), Subseq l l.
Proof. induction l; constructor; auto. Qed.

Lemma subseq_app_r : forall A (a b c : list A), Subseq a b -> Subseq a (b ++ c).
Proof. intros A a b c H; induction H; simpl; constructor; auto. Qed.

Lemma subseq_trans : forall A (a b c : list A), Subseq a b -> Subseq b c -> Subseq a c.
Proof.
  intros A a b c Hab Hbc. revert a Hab. induction Hbc; intros a0 Hab.
  - inversion Hab; subst. constructor.
  - inversion Hab; subst; [constructor | constructor; auto | apply sub_skip; auto].
  - apply sub_skip; auto.
Qed.

Lemma subseq_accepted : forall h : list (Z * bool), Subseq (accepted h) (map fst h).
Proof.
  unfold accepted. induction h as [|[x b] h IH]; simpl; [constructor|].
  destruct b; simpl; [apply sub_take | apply sub_skip]; exact IH.
Qed.

Lemma proj_app : forall i a b, proj i (a ++ b) = proj i a ++ proj i b.
Proof. intros; unfold proj; rewrite filter_app, map_app; reflexivity. Qed.
Lemma proj_input_app : forall a b, proj_input (a ++ b) = proj_input a ++ proj_input b.
Proof. intros; unfold proj_input; rewrite filter_app, map_app; reflexivity. Qed.
Lemma accepted_app : forall a b, accepted (a ++ b) = accepted a ++ accepted b.
Proof. intros; unfold accepted; rewrite filter_app, map_app; reflexivity. Qed.

(* ---------- FIFO per poster ---------- *)
Definition fifo_inv (script : nat -> list post) (s : state) : Prop :=
  forall i, proj i (delivered s ++ q s) = accepted (hist s i)
            /\ map fst (hist s i) ++ map snd (todo s i) = map snd (script i).

Lemma upd_same : forall A (f : nat -> A) i v, upd f i v i = v.
Proof. intros; unfold upd; rewrite Nat.eqb_refl; reflexivity. Qed.
Lemma upd_other : forall A (f : nat -> A) i j v, j <> i -> upd f i v j = f j.
Proof. intros A f i j v H; unfold upd. destruct (Nat.eqb j i) eqn:E; [apply Nat.eqb_eq in E; contradiction|reflexivity]. Qed.

Lemma proj_single_poster : forall i j x, proj i [(SPoster j, x)] = if Nat.eqb j i then [x] else [].
Proof. intros; unfold proj; simpl. destruct (Nat.eqb j i); reflexivity. Qed.

Lemma fifo_step : forall N ans script l s s',
  fifo_inv script s -> step N ans l s = Some s' -> fifo_inv script s'.
Proof.
  intros N ans script l s s' Hinv Hs. destruct s as [q0 d0 td hs ty inp0 pp0 cc cd sq sc ip0 mp0 sd].
  unfold fifo_inv in *. simpl in Hinv.
  destruct l; simpl in Hs.
  - (* LPost *)
    destruct (td i) as [|[blk x] rest] eqn:Etd; [discriminate|].
    unfold full in Hs; simpl in Hs.
    destruct (Nat.leb N (length q0)).
    + destruct blk; [discriminate|]. inversion Hs; subst; clear Hs. simpl. intro j.
      destruct (Nat.eq_dec j i) as [->|Hne].
      * rewrite !upd_same. destruct (Hinv i) as [H1 H2]. rewrite Etd in H2. split.
        -- rewrite accepted_app. simpl. rewrite app_nil_r. exact H1.
        -- rewrite map_app. simpl. rewrite <- app_assoc. exact H2.
      * rewrite !upd_other by exact Hne. apply Hinv.
    + inversion Hs; subst; clear Hs. simpl. intro j.
      rewrite app_assoc, proj_app, proj_single_poster.
      destruct (Nat.eq_dec j i) as [->|Hne].
      * rewrite !upd_same, Nat.eqb_refl. destruct (Hinv i) as [H1 H2]. rewrite Etd in H2. split.
        -- rewrite accepted_app, H1. reflexivity.
        -- rewrite map_app. simpl. rewrite <- app_assoc. exact H2.
      * rewrite !upd_other by exact Hne.
        destruct (Nat.eqb i j) eqn:E; [apply Nat.eqb_eq in E; congruence|]. rewrite app_nil_r. apply Hinv.
  - (* LPoll *)
    destruct mp0; try discriminate; (destruct q0 as [|e r]; [discriminate|]); inversion Hs; subst; simpl;
      intro j; rewrite <- app_assoc; simpl; apply Hinv.
  - destruct mp0; try discriminate; inversion Hs; subst; simpl; exact Hinv.
  - destruct mp0; try discriminate; inversion Hs; subst; simpl; exact Hinv.
  - destruct mp0; try discriminate; destruct ip0; try discriminate; inversion Hs; subst; simpl; exact Hinv.
  - (* LMain *)
    destruct mp0; try discriminate.
    + inversion Hs; subst; clear Hs. unfold full; simpl. intro j.
      destruct (Nat.leb N (length q0)); [apply Hinv|].
      rewrite app_assoc, proj_app. unfold proj at 2. simpl. rewrite app_nil_r. apply Hinv.
    + destruct cc; [discriminate|]. inversion Hs; subst; simpl; exact Hinv.
    + inversion Hs; subst; simpl; exact Hinv.
    + destruct cd; [|discriminate]. inversion Hs; subst; simpl; exact Hinv.
    + inversion Hs; subst; simpl; exact Hinv.
  - (* LParser *)
    destruct pp0; try discriminate.
    + destruct cc; inversion Hs; subst; simpl; exact Hinv.
    + destruct inp0; [discriminate|]. inversion Hs; subst; simpl; exact Hinv.
    + destruct l; [inversion Hs; subst; simpl; exact Hinv|].
      destruct (Nat.ltb (length sq) 2); [|discriminate]. inversion Hs; subst; simpl; exact Hinv.
    + destruct (Nat.ltb (length sq) 2); [|discriminate]. inversion Hs; subst; simpl; exact Hinv.
    + inversion Hs; subst; simpl; exact Hinv.
    + destruct cd; [discriminate|]. inversion Hs; subst; simpl; exact Hinv.
  - (* LInput *)
    destruct ip0; try discriminate.
    + destruct sq as [|[evs|] r]; [discriminate| |]; inversion Hs; subst; simpl; exact Hinv.
    + destruct l as [|x r]; [inversion Hs; subst; simpl; exact Hinv|].
      unfold full in Hs; simpl in Hs. destruct (Nat.leb N (length q0)); [discriminate|].
      inversion Hs; subst; clear Hs. simpl. intro j.
      rewrite app_assoc, proj_app. unfold proj at 2. simpl. rewrite app_nil_r. apply Hinv.
  - inversion Hs; subst; simpl; exact Hinv.
Qed.

Lemma fifo_init : forall script, fifo_inv script (init script).
Proof. intros script i. simpl. split; reflexivity. Qed.

Lemma fifo_reachable : forall N ans script s, reachable N ans script s -> fifo_inv script s.
Proof.
  intros N ans script. apply reachable_ind'; [apply fifo_init|].
  intros s l s' _ H Hs. eapply fifo_step; eauto.
Qed.


Theorem fifo_subsequence : forall N ans script s i,
  reachable N ans script s ->
  Subseq (proj i (delivered s)) (map snd (script i)) /\
  Subseq (proj i (delivered s ++ q s)) (map snd (script i)).
Proof.
  intros N ans script s i Hr. destruct (fifo_reachable _ _ _ _ Hr i) as [H1 H2].
  assert (Hall : Subseq (proj i (delivered s ++ q s)) (map snd (script i))).
  { rewrite H1, <- H2. apply subseq_app_r. apply subseq_accepted. }
  split; [|exact Hall].
  eapply subseq_trans; [|exact Hall]. rewrite proj_app. apply subseq_app_r. apply subseq_refl.
Qed.

(* all-blocking scripts: nothing is ever dropped *)
Definition blocking_inv (i : nat) (s : state) : Prop :=
  (forall p, In p (todo s i) -> fst p = true) /\ (forall h, In h (hist s i) -> snd h = true).

Lemma blocking_step : forall N ans i l s s',
  blocking_inv i s -> step N ans l s = Some s' -> blocking_inv i s'.
Proof.
  intros N ans i l s s' [Ht Hh] Hs. destruct s as [q0 d0 td hs ty inp0 pp0 cc cd sq sc ip0 mp0 sd].
  unfold blocking_inv in *; simpl in *.
  assert (Hsame : todo s' = td /\ hist s' = hs -> (forall p, In p (todo s' i) -> fst p = true) /\ (forall h, In h (hist s' i) -> snd h = true)).
  { intros [-> ->]. split; assumption. }
  destruct l; simpl in Hs.
  - destruct (td i0) as [|[blk x] rest] eqn:Etd; [discriminate|]. unfold full in Hs; simpl in Hs.
    destruct (Nat.eq_dec i i0) as [<-|Hne].
    + assert (Hblk : blk = true) by (apply (Ht (blk, x)); rewrite Etd; left; reflexivity). subst blk.
      destruct (Nat.leb N (length q0)); [discriminate|]. inversion Hs; subst; clear Hs. simpl. rewrite !upd_same. split.
      * intros p Hp. apply Ht. rewrite Etd. right. exact Hp.
      * intros h Hin. apply in_app_or in Hin. destruct Hin as [Hin|[<-|[]]]; [apply Hh; exact Hin|reflexivity].
    + destruct (Nat.leb N (length q0)); [destruct blk; [discriminate|]|]; inversion Hs; subst; clear Hs; simpl;
        rewrite !upd_other by exact Hne; split; assumption.
  - destruct mp0; try discriminate; (destruct q0; [discriminate|]); inversion Hs; subst; apply Hsame; split; reflexivity.
  - destruct mp0; try discriminate; inversion Hs; subst; apply Hsame; split; reflexivity.
  - destruct mp0; try discriminate; inversion Hs; subst; apply Hsame; split; reflexivity.
  - destruct mp0; try discriminate; destruct ip0; try discriminate; inversion Hs; subst; apply Hsame; split; reflexivity.
  - destruct mp0; try discriminate.
    + inversion Hs; subst; apply Hsame; split; reflexivity.
    + destruct cc; [discriminate|]. inversion Hs; subst; apply Hsame; split; reflexivity.
    + inversion Hs; subst; apply Hsame; split; reflexivity.
    + destruct cd; [|discriminate]. inversion Hs; subst; apply Hsame; split; reflexivity.
    + inversion Hs; subst; apply Hsame; split; reflexivity.
  - destruct pp0; try discriminate.
    + destruct cc; inversion Hs; subst; apply Hsame; split; reflexivity.
    + destruct inp0; [discriminate|]. inversion Hs; subst; apply Hsame; split; reflexivity.
    + destruct l; [inversion Hs; subst; apply Hsame; split; reflexivity|].
      destruct (Nat.ltb (length sq) 2); [|discriminate]. inversion Hs; subst; apply Hsame; split; reflexivity.
    + destruct (Nat.ltb (length sq) 2); [|discriminate]. inversion Hs; subst; apply Hsame; split; reflexivity.
    + inversion Hs; subst; apply Hsame; split; reflexivity.
    + destruct cd; [discriminate|]. inversion Hs; subst; apply Hsame; split; reflexivity.
  - destruct ip0; try discriminate.
    + destruct sq as [|[evs|] r]; [discriminate| |]; inversion Hs; subst; apply Hsame; split; reflexivity.
    + destruct l as [|x r]; [inversion Hs; subst; apply Hsame; split; reflexivity|].
      unfold full in Hs; simpl in Hs. destruct (Nat.leb N (length q0)); [discriminate|].
      inversion Hs; subst; apply Hsame; split; reflexivity.
  - inversion Hs; subst; apply Hsame; split; reflexivity.
Qed.

Lemma accepted_all : forall h : list (Z * bool), (forall x, In x h -> snd x = true) -> accepted h = map fst h.
Proof.
  unfold accepted. induction h as [|[x b] h IH]; intros H; simpl; [reflexivity|].
  assert (b = true) by (apply (H (x, b)); left; reflexivity). subst b. simpl. f_equal. apply IH. intros y Hy. apply H. right. exact Hy.
Qed.

Theorem fifo_no_loss : forall N ans script s i,
  reachable N ans script s ->
  (forall p, In p (script i) -> fst p = true) ->
  proj i (delivered s) ++ proj i (q s) ++ map snd (todo s i) = map snd (script i).
Proof.
  intros N ans script s i Hr Hall.
  assert (Hb : blocking_inv i s).
  { revert s Hr. apply reachable_ind'.
    - split; simpl; [exact Hall|intros h []].
    - intros s l s' _ H Hs. eapply blocking_step; eauto. }
  destruct (fifo_reachable _ _ _ _ Hr i) as [H1 H2]. destruct Hb as [_ Hh].
  rewrite app_assoc, <- proj_app, H1, accepted_all by exact Hh. exact H2.
Qed.

(* ---------- the input pipeline loses and reorders nothing ---------- *)
Definition pipe_inv (s : state) : Prop := proj_input (delivered s ++ q s) ++ pipeline s = typed s.

Lemma items_events_app : forall a b, items_events (a ++ b) = items_events a ++ items_events b.
Proof. intros; unfold items_events; rewrite map_app, concat_app; reflexivity. Qed.

Lemma seq_events_app : forall a b, concat (map seq_events (a ++ b)) = concat (map seq_events a) ++ concat (map seq_events b).
Proof. intros; rewrite map_app, concat_app; reflexivity. Qed.

Lemma proj_input_snoc_other : forall l e, src_eqb (fst e) SInput = false -> proj_input (l ++ [e]) = proj_input l.
Proof. intros l e H. rewrite proj_input_app. unfold proj_input at 2. simpl. rewrite H. simpl. apply app_nil_r. Qed.
Lemma proj_input_snoc_input : forall l x, proj_input (l ++ [(SInput, x)]) = proj_input l ++ [x].
Proof. intros l x. rewrite proj_input_app. reflexivity. Qed.

Definition is_resume (l : label) : bool := match l with LResume => true | _ => false end.

Lemma pipe_step : forall N ans l s s',
  pipe_inv s -> is_resume l = false -> step N ans l s = Some s' -> pipe_inv s'.
Proof.
  intros N ans l s s' Hinv Hnr Hs. destruct s as [q0 d0 td hs ty inp0 pp0 cc cd sq sc ip0 mp0 sd].
  unfold pipe_inv, pipeline in *. simpl in Hinv.
  destruct l; simpl in Hs; try discriminate.
  - destruct (td i) as [|[blk x] rest]; [discriminate|]. unfold full in Hs; simpl in Hs.
    destruct (Nat.leb N (length q0)); [destruct blk; [discriminate|]|]; injection Hs as <-; simpl; [exact Hinv|].
    rewrite (app_assoc d0 q0), proj_input_snoc_other by reflexivity. exact Hinv.
  - destruct mp0; try discriminate; (destruct q0 as [|e r]; [discriminate|]); injection Hs as <-; simpl;
      rewrite <- app_assoc; simpl; exact Hinv.
  - destruct mp0; try discriminate; injection Hs as <-; simpl; exact Hinv.
  - destruct mp0; try discriminate; injection Hs as <-; simpl; exact Hinv.
  - destruct mp0; try discriminate.
    + injection Hs as <-. unfold full; simpl. destruct (Nat.leb N (length q0)); [exact Hinv|].
      rewrite (app_assoc d0 q0), proj_input_snoc_other by reflexivity. exact Hinv.
    + destruct cc; [discriminate|]. injection Hs as <-; simpl; exact Hinv.
    + injection Hs as <-. simpl. rewrite items_events_app, <- Hinv. rewrite <- !app_assoc. reflexivity.
    + destruct cd; [|discriminate]. injection Hs as <-; simpl; exact Hinv.
    + injection Hs as <-; simpl; exact Hinv.
  - destruct pp0; try discriminate.
    + destruct cc; injection Hs as <-; simpl; exact Hinv.
    + destruct inp0 as [|it r]; [discriminate|]. injection Hs as <-; simpl.
      simpl in Hinv. unfold items_events in *. simpl in Hinv. exact Hinv.
    + destruct l as [|x r]; [injection Hs as <-; simpl; exact Hinv|].
      destruct (Nat.ltb (length sq) 2); [|discriminate]. injection Hs as <-. simpl.
      rewrite seq_events_app. simpl. rewrite app_nil_r. simpl in Hinv. rewrite <- Hinv. rewrite <- !app_assoc. reflexivity.
    + destruct (Nat.ltb (length sq) 2); [|discriminate]. injection Hs as <-. simpl.
      rewrite seq_events_app. simpl. rewrite app_nil_r. exact Hinv.
    + injection Hs as <-; simpl; exact Hinv.
    + destruct cd; [discriminate|]. injection Hs as <-; simpl; exact Hinv.
  - destruct ip0; try discriminate.
    + destruct sq as [|[evs|] r]; [discriminate| |]; injection Hs as <-; simpl; simpl in Hinv; rewrite <- ?app_assoc in Hinv; exact Hinv.
    + destruct l as [|x r]; [injection Hs as <-; simpl; exact Hinv|].
      unfold full in Hs; simpl in Hs. destruct (Nat.leb N (length q0)); [discriminate|].
      injection Hs as <-. simpl.
      rewrite (app_assoc d0 q0), proj_input_snoc_input. simpl in Hinv. rewrite <- Hinv. rewrite <- !app_assoc. reflexivity.
  - injection Hs as <-. simpl. rewrite items_events_app. unfold items_events at 2. simpl. rewrite app_nil_r.
    rewrite <- Hinv. rewrite <- !app_assoc. reflexivity.
Qed.

Theorem input_fifo : forall N ans script tr s,
  forallb (fun l => negb (is_resume l)) tr = true ->
  run N ans tr (init script) = Some s ->
  proj_input (delivered s) ++ proj_input (q s) ++ pipeline s = typed s.
Proof.
  intros N ans script tr s Hnr Hrun.
  assert (H : pipe_inv s).
  { assert (G : forall tr s0 s1, pipe_inv s0 -> forallb (fun l => negb (is_resume l)) tr = true ->
                  run N ans tr s0 = Some s1 -> pipe_inv s1).
    { induction tr0 as [|l t IH]; intros s0 s1 H0 Hn Hr; simpl in *.
      - inversion Hr; subst; exact H0.
      - apply andb_prop in Hn. destruct Hn as [Hl Ht]. destruct (step N ans l s0) as [s2|] eqn:E; [|discriminate].
        eapply IH; [|exact Ht|exact Hr]. eapply pipe_step; eauto. destruct (is_resume l); [discriminate|reflexivity]. }
    eapply G; [|exact Hnr|exact Hrun]. reflexivity. }
  unfold pipe_inv in H. rewrite proj_input_app, <- app_assoc in H. exact H.
Qed.


Definition normal (p : ppc) : bool := match p with PTop | PRead | PEmit _ => true | _ => false end.
Definition pre_eof (p : ppc) : bool := match p with PTop | PRead | PEmit _ | PEof => true | _ => false end.
Definition before_send (m : mpc) : bool := match m with MRun | MPostQuit | MSendClose _ => true | _ => false end.
Definition mid (m : mpc) : bool := match m with MWriteDA1 _ | MWait _ => true | _ => false end.
Definition is_rest (m : mpc) : bool := match m with MRest _ => true | _ => false end.
Definition is_wait (m : mpc) : bool := match m with MWait _ => true | _ => false end.

Record HInv (ans : bool) (s : state) : Prop := mkHInv {
  hE : pre_eof (pp s) = true -> ip s <> IDone /\ ~ In None (seqs s);
  hE' : pre_eof (pp s) = false -> ip s = IDone \/ In None (seqs s);
  hD : closedch s = true -> pp s = PDone;
  hG0 : susp_done s = 0 -> returned (mp s) = false;
  hG1 : susp_done s = 0 -> before_send (mp s) = true -> closech s = false /\ normal (pp s) = true;
  hG2 : susp_done s = 0 -> mid (mp s) = true -> normal (pp s) = closech s;
  hG3 : susp_done s = 0 -> is_rest (mp s) = true -> pp s = PDone /\ closech s = false /\ closedch s = false;
  hF : susp_done s = 0 -> pp s = PDone -> is_rest (mp s) = false -> closedch s = true;
  hI : ans = true -> is_wait (mp s) = true -> closech s = true -> pp s = PRead -> inp s <> [];
  hH : susp_done s <> 0 -> pp s = PDone /\ closedch s = false /\ is_rest (mp s) = false
}.

Lemma hinv_init : forall ans script, HInv ans (init script).
Proof.
  intros; constructor; simpl; intros; try discriminate; try congruence; auto.
  split; [discriminate|intros []].
Qed.

Lemma in_none_snoc_some : forall (l : list seqv) x, In None (l ++ [Some x]) <-> In None l.
Proof.
  intros; rewrite in_app_iff; simpl; split; [intros [H|[H|[]]]; [exact H|discriminate]|auto].
Qed.

Ltac finish :=
  simpl in *; intros;
  repeat (match goal with
         | H : _ /\ _ |- _ => destruct H
         | H : ?a = ?a -> _ |- _ => specialize (H eq_refl)
         | H : ?P -> _, H' : ?P |- _ => specialize (H H')
         | H : In None (_ ++ [Some _]) |- _ => apply in_none_snoc_some in H
         | |- context [In None (_ ++ [Some _])] => rewrite in_none_snoc_some
         | H : ?x = _ |- _ => is_var x; subst x
         | H : _ = ?x |- _ => is_var x; subst x
         end; simpl in *);
  try solve [ discriminate | congruence | auto | tauto | right; apply in_or_app; right; left; reflexivity
            | split; [discriminate|auto] | split; [congruence|auto]
            | intuition (try discriminate; try congruence) ].

Lemma hinv_step : forall N ans l s s', HInv ans s -> step N ans l s = Some s' -> HInv ans s'.
Proof.
  intros N ans l s s' H Hs. destruct s as [q0 d0 td hs ty inp0 pp0 cc cd sq sc ip0 mp0 sd].
  destruct H as [E E' D G0 G1 G2 G3 F I HH]. simpl in *.
  destruct l; simpl in Hs.
  - (* LPost *)
    destruct (td i) as [|[blk x] rest]; [discriminate|]. unfold full in Hs; simpl in Hs.
    destruct (Nat.leb N (length q0)); [destruct blk; [discriminate|]|]; injection Hs as <-; constructor; finish.
  - destruct mp0; try discriminate; (destruct q0; [discriminate|]); injection Hs as <-; constructor; finish.
  - (* LCallClose *)
    destruct mp0; try discriminate; injection Hs as <-; constructor; finish.
  - destruct mp0; try discriminate; injection Hs as <-; constructor; finish.
  - (* LResume *)
    destruct mp0; try discriminate; destruct ip0; try discriminate; injection Hs as <-; constructor; finish.
  - (* LMain *)
    destruct mp0; try discriminate.
    + injection Hs as <-; constructor; finish.
    + destruct cc; [discriminate|]. injection Hs as <-; constructor; finish.
    + injection Hs as <-; constructor; finish.
      all: try (destruct inp0; discriminate).
    + destruct cd; [|discriminate]. injection Hs as <-; constructor; finish.
    + destruct sd, c; injection Hs as <-; constructor; finish.
  - (* LParser *)
    destruct pp0; try discriminate.
    + destruct cc; injection Hs as <-; constructor; finish.
    + destruct inp0; [discriminate|]. injection Hs as <-; constructor; finish.
    + destruct l; [injection Hs as <-; constructor; finish|].
      destruct (Nat.ltb (length sq) 2); [|discriminate]. injection Hs as <-; constructor; finish.
    + destruct (Nat.ltb (length sq) 2); [|discriminate]. injection Hs as <-; constructor; finish.
    + injection Hs as <-; constructor; finish.
    + destruct cd; [discriminate|]. injection Hs as <-; constructor; finish.
  - (* LInput *)
    destruct ip0; try discriminate.
    + destruct sq as [|[evs|] r]; [discriminate| |]; injection Hs as <-; constructor; finish.
    + destruct l as [|x r]; [injection Hs as <-; constructor; finish|].
      unfold full in Hs; simpl in Hs. destruct (Nat.leb N (length q0)); [discriminate|]. injection Hs as <-; constructor; finish.
  - injection Hs as <-; constructor; finish. destruct inp0; discriminate.
Qed.


Lemma hinv_reachable : forall N ans script s, reachable N ans script s -> HInv ans s.
Proof.
  intros N ans script. apply reachable_ind'; [apply hinv_init|].
  intros s l s' _ H Hs. eapply hinv_step; eauto.
Qed.

(* ---------- progress ---------- *)
Definition queue_blocked (N : nat) (s : state) : Prop :=
  N <= length (q s) /\ exists x r, ip s = IPost (x :: r).

Lemma progress_inv : forall N s,
  HInv true s -> in_shutdown (mp s) = true -> susp_done s = 0 ->
  (exists l, handshake l = true /\ enabled N true l s = true) \/ queue_blocked N s.
Proof.
  intros N s H Hsh Hsd. destruct s as [q0 d0 td hs ty inp0 pp0 cc cd sq sc ip0 mp0 sd].
  destruct H as [E E' D G0 G1 G2 G3 F I HH]. simpl in *. subst sd.
  specialize (G0 eq_refl). specialize (G1 eq_refl). specialize (G2 eq_refl). specialize (G3 eq_refl). specialize (F eq_refl).
  assert (Hmain : forall c, mp0 = MWait c -> cd = true -> exists l, handshake l = true /\
            enabled N true l (mkState q0 d0 td hs ty inp0 pp0 cc cd sq sc ip0 mp0 0) = true).
  { intros c -> ->. exists LMain. split; reflexivity. }
  destruct mp0; try discriminate.
  - left. exists LMain. split; reflexivity.
  - left. exists LMain. split; [reflexivity|]. unfold enabled; simpl. destruct (G1 eq_refl) as [-> _]. reflexivity.
  - left. exists LMain. split; reflexivity.
  - (* MWait *)
    destruct cd eqn:Ecd; [left; eapply Hmain; reflexivity|].
    (* the input side: can the input goroutine move, when the parser waits for room in sequences? *)
    assert (Hin : sq <> [] -> ip0 <> IDone ->
              (exists l, handshake l = true /\ enabled N true l (mkState q0 d0 td hs ty inp0 pp0 cc false sq sc ip0 (MWait c) 0) = true)
              \/ queue_blocked N (mkState q0 d0 td hs ty inp0 pp0 cc false sq sc ip0 (MWait c) 0)).
    { intros Hsq Hip. destruct ip0 as [|l|]; [| |congruence].
      - left. exists LInput. split; [reflexivity|]. unfold enabled; simpl. destruct sq as [|[evs|] r]; [congruence| |]; reflexivity.
      - destruct l as [|x r].
        + left. exists LInput. split; reflexivity.
        + destruct (Nat.leb N (length q0)) eqn:Efull.
          * right. split; [apply Nat.leb_le; exact Efull|]. simpl. eauto.
          * left. exists LInput. split; [reflexivity|]. unfold enabled, step, full; simpl. rewrite Efull. reflexivity. }
    destruct pp0.
    + left. exists LParser. split; [reflexivity|]. unfold enabled; simpl. destruct cc; reflexivity.
    + (* PRead *) specialize (G2 eq_refl). simpl in G2. subst cc.
      left. exists LParser. split; [reflexivity|]. unfold enabled; simpl.
      destruct inp0; [exfalso; apply (I eq_refl eq_refl eq_refl eq_refl); reflexivity|reflexivity].
    + destruct l as [|x r].
      * left. exists LParser. split; reflexivity.
      * destruct (Nat.ltb (length sq) 2) eqn:El.
        -- left. exists LParser. split; [reflexivity|]. unfold enabled; simpl. rewrite El. reflexivity.
        -- destruct (E eq_refl) as [Hip _]. apply Hin; [|exact Hip]. destruct sq; [discriminate|discriminate].
    + destruct (Nat.ltb (length sq) 2) eqn:El.
      * left. exists LParser. split; [reflexivity|]. unfold enabled; simpl. rewrite El. reflexivity.
      * destruct (E eq_refl) as [Hip _]. apply Hin; [|exact Hip]. destruct sq; [discriminate|discriminate].
    + left. exists LParser. split; reflexivity.
    + left. exists LParser. split; reflexivity.
    + discriminate (F eq_refl eq_refl).
  - left. exists LMain. split; reflexivity.
Qed.

(* ---------- the ranking function ---------- *)
Lemma sum_app : forall a b, Conc.sum (a ++ b) = Conc.sum a + Conc.sum b.
Proof. induction a; intros; simpl; [reflexivity|]. rewrite IHa. lia. Qed.

Lemma rank_inp_app : forall a b, rank_inp (a ++ b) = rank_inp a + rank_inp b.
Proof. intros; unfold rank_inp; rewrite map_app, sum_app; reflexivity. Qed.

Lemma rank_step : forall N ans l s s',
  is_call l = false -> step N ans l s = Some s' ->
  rank s' + (if handshake l then 1 else 0) <= rank s + label_cost l.
Proof.
  intros N ans l s s' Hc Hs. destruct s as [q0 d0 td hs ty inp0 pp0 cc cd sq sc ip0 mp0 sd].
  destruct l; simpl in Hc; try discriminate; simpl in Hs.
  - destruct (td i) as [|[blk x] rest]; [discriminate|]. unfold full in Hs; simpl in Hs.
    destruct (Nat.leb N (length q0)); [destruct blk; [discriminate|]|]; injection Hs as <-; unfold rank; simpl; lia.
  - destruct mp0; try discriminate; (destruct q0; [discriminate|]); injection Hs as <-; unfold rank; simpl; lia.
  - destruct mp0; try discriminate.
    + injection Hs as <-; unfold rank; simpl; lia.
    + destruct cc; [discriminate|]. injection Hs as <-; unfold rank; simpl; lia.
    + injection Hs as <-; unfold rank; cbn [mp pp inp seqs ip rank_mp handshake label_cost]. rewrite rank_inp_app.
      assert (rank_inp (if ans then da1_items else []) <= rank_inp da1_items) by (destruct ans; vm_compute; lia).
      remember (rank_inp da1_items) as D. lia.
    + destruct cd; [|discriminate]. injection Hs as <-; unfold rank; simpl; lia.
    + injection Hs as <-; unfold rank; simpl. destruct c; simpl; lia.
  - destruct pp0; try discriminate.
    + destruct cc; injection Hs as <-; unfold rank; simpl; lia.
    + destruct inp0 as [|it r]; [discriminate|]. injection Hs as <-; unfold rank; simpl. change (rank_inp (it :: r)) with (icost it + rank_inp r). unfold icost. lia.
    + destruct l as [|x r]; [injection Hs as <-; unfold rank; simpl; lia|].
      destruct (Nat.ltb (length sq) 2); [|discriminate]. injection Hs as <-; unfold rank; simpl.
      rewrite map_app, sum_app. simpl. unfold scost. lia.
    + destruct (Nat.ltb (length sq) 2); [|discriminate]. injection Hs as <-; unfold rank; simpl.
      rewrite map_app, sum_app. simpl. lia.
    + injection Hs as <-; unfold rank; simpl; lia.
    + destruct cd; [discriminate|]. injection Hs as <-; unfold rank; simpl; lia.
  - destruct ip0; try discriminate.
    + destruct sq as [|[evs|] r]; [discriminate| |]; injection Hs as <-; unfold rank; simpl; unfold ecost; lia.
    + destruct l as [|x r]; [injection Hs as <-; unfold rank; simpl; lia|].
      unfold full in Hs; simpl in Hs. destruct (Nat.leb N (length q0)); [discriminate|]. injection Hs as <-; unfold rank; simpl; lia.
  - injection Hs as <-; unfold rank; simpl. rewrite rank_inp_app. change (rank_inp [it]) with (icost it + 0). lia.
Qed.

Lemma rank_run : forall N ans tr s s',
  forallb (fun l => negb (is_call l)) tr = true -> run N ans tr s = Some s' ->
  rank s' + hs_count tr <= rank s + typed_cost tr.
Proof.
  induction tr as [|l tr IH]; intros s s' Hc Hr; simpl in *.
  - injection Hr as <-. unfold hs_count, typed_cost; simpl; lia.
  - apply andb_prop in Hc. destruct Hc as [Hl Ht]. destruct (step N ans l s) as [s1|] eqn:E; [|discriminate].
    specialize (IH _ _ Ht Hr). assert (Hl' : is_call l = false) by (destruct (is_call l); [discriminate|reflexivity]).
    pose proof (rank_step _ _ _ _ _ Hl' E) as Hs.
    unfold hs_count, typed_cost in *; simpl. destruct (handshake l); simpl; lia.
Qed.

(* shutdown phase is left only by returning *)
Lemma shutdown_step : forall N ans l s s',
  in_shutdown (mp s) = true -> susp_done s = 0 -> step N ans l s = Some s' ->
  (in_shutdown (mp s') = true /\ susp_done s' = 0) \/ returned (mp s') = true.
Proof.
  intros N ans l s s' Hsh Hsd Hs. destruct s as [q0 d0 td hs ty inp0 pp0 cc cd sq sc ip0 mp0 sd]. simpl in *.
  destruct l; simpl in Hs.
  - destruct (td i) as [|[blk x] rest]; [discriminate|]. unfold full in Hs; simpl in Hs.
    destruct (Nat.leb N (length q0)); [destruct blk; [discriminate|]|]; injection Hs as <-; simpl; auto.
  - destruct mp0; try discriminate.
  - destruct mp0; try discriminate.
  - destruct mp0; try discriminate.
  - destruct mp0; try discriminate.
  - destruct mp0; try discriminate.
    + injection Hs as <-; simpl; auto.
    + destruct cc; [discriminate|]. injection Hs as <-; simpl; auto.
    + injection Hs as <-; simpl; auto.
    + destruct cd; [|discriminate]. injection Hs as <-; simpl; auto.
    + injection Hs as <-; simpl. right. destruct c; reflexivity.
  - destruct pp0; try discriminate.
    + destruct cc; injection Hs as <-; simpl; auto.
    + destruct inp0; [discriminate|]. injection Hs as <-; simpl; auto.
    + destruct l; [injection Hs as <-; simpl; auto|].
      destruct (Nat.ltb (length sq) 2); [|discriminate]. injection Hs as <-; simpl; auto.
    + destruct (Nat.ltb (length sq) 2); [|discriminate]. injection Hs as <-; simpl; auto.
    + injection Hs as <-; simpl; auto.
    + destruct cd; [discriminate|]. injection Hs as <-; simpl; auto.
  - destruct ip0; try discriminate.
    + destruct sq as [|[evs|] r]; [discriminate| |]; injection Hs as <-; simpl; auto.
    + destruct l as [|x r]; [injection Hs as <-; simpl; auto|].
      unfold full in Hs; simpl in Hs. destruct (Nat.leb N (length q0)); [discriminate|]. injection Hs as <-; simpl; auto.
  - injection Hs as <-; simpl; auto.
Qed.

Lemma returned_step : forall N ans l s s',
  is_call l = false -> returned (mp s) = true -> step N ans l s = Some s' -> returned (mp s') = true.
Proof.
  intros N ans l s s' Hc Hret Hs. destruct s as [q0 d0 td hs ty inp0 pp0 cc cd sq sc ip0 mp0 sd]. simpl in *.
  destruct l; simpl in Hc; try discriminate; simpl in Hs.
  - destruct (td i) as [|[blk x] rest]; [discriminate|]. unfold full in Hs; simpl in Hs.
    destruct (Nat.leb N (length q0)); [destruct blk; [discriminate|]|]; injection Hs as <-; simpl; auto.
  - destruct mp0; try discriminate; (destruct q0; [discriminate|]); injection Hs as <-; simpl; auto.
  - destruct mp0; try discriminate.
  - destruct pp0; try discriminate.
    + destruct cc; injection Hs as <-; simpl; auto.
    + destruct inp0; [discriminate|]. injection Hs as <-; simpl; auto.
    + destruct l; [injection Hs as <-; simpl; auto|].
      destruct (Nat.ltb (length sq) 2); [|discriminate]. injection Hs as <-; simpl; auto.
    + destruct (Nat.ltb (length sq) 2); [|discriminate]. injection Hs as <-; simpl; auto.
    + injection Hs as <-; simpl; auto.
    + destruct cd; [discriminate|]. injection Hs as <-; simpl; auto.
  - destruct ip0; try discriminate.
    + destruct sq as [|[evs|] r]; [discriminate| |]; injection Hs as <-; simpl; auto.
    + destruct l as [|x r]; [injection Hs as <-; simpl; auto|].
      unfold full in Hs; simpl in Hs. destruct (Nat.leb N (length q0)); [discriminate|]. injection Hs as <-; simpl; auto.
  - injection Hs as <-; simpl; auto.
Qed.

Lemma shutdown_run : forall N ans tr s s',
  forallb (fun l => negb (is_call l)) tr = true ->
  in_shutdown (mp s) = true -> susp_done s = 0 -> run N ans tr s = Some s' ->
  (in_shutdown (mp s') = true /\ susp_done s' = 0) \/ returned (mp s') = true.
Proof.
  induction tr as [|l tr IH]; intros s s' Hc Hsh Hsd Hr; simpl in *.
  - injection Hr as <-. left; auto.
  - apply andb_prop in Hc. destruct Hc as [Hl Ht]. destruct (step N ans l s) as [s1|] eqn:E; [|discriminate].
    destruct (shutdown_step _ _ _ _ _ Hsh Hsd E) as [[H1 H2]|H1].
    + eapply IH; eauto.
    + right. clear IH Hsh Hsd E. revert s1 H1 Hr. induction tr as [|l2 tr IH2]; intros s1 H1 Hr; simpl in *.
      * injection Hr as <-. exact H1.
      * apply andb_prop in Ht. destruct Ht as [Hl2 Ht2]. destruct (step N ans l2 s1) as [s2|] eqn:E2; [|discriminate].
        eapply IH2; [exact Ht2| |exact Hr]. eapply returned_step; [|exact H1|exact E2].
        destruct (is_call l2); [discriminate|reflexivity].
Qed.

(* THE shutdown theorem, all interleavings *)
Theorem shutdown_completes : forall N script s tr s',
  reachable N true script s -> in_shutdown (mp s) = true -> susp_done s = 0 ->
  forallb (fun l => negb (is_call l)) tr = true -> run N true tr s = Some s' ->
  rank s' + hs_count tr <= rank s + typed_cost tr /\
  (returned (mp s') = true \/
   (exists l, handshake l = true /\ enabled N true l s' = true) \/ queue_blocked N s').
Proof.
  intros N script s tr s' Hr Hsh Hsd Hc Hrun. split; [eapply rank_run; eauto|].
  destruct (shutdown_run _ _ _ _ _ Hc Hsh Hsd Hrun) as [[H1 H2]|H1]; [|left; exact H1].
  right. apply progress_inv; [|exact H1|exact H2].
  eapply hinv_reachable. eapply reachable_run; eauto.
Qed.

(* no goroutine of the parser outlives a returned Close/Suspend; the input goroutine has
   seen or will see EOF, and can always take its next step unless the queue is full *)
Theorem library_goroutines_end : forall N ans script s,
  reachable N ans script s -> returned (mp s) = true ->
  pp s = PDone /\
  (ip s = IDone \/ enabled N ans LInput s = true \/ queue_blocked N s).
Proof.
  intros N ans script s Hr Hret. pose proof (hinv_reachable _ _ _ _ Hr) as H.
  destruct s as [q0 d0 td hs ty inp0 pp0 cc cd sq sc ip0 mp0 sd]. destruct H as [E E' D G0 G1 G2 G3 F I HH]. simpl in *.
  assert (Hsd : sd <> 0). { intro Hz. rewrite (G0 Hz) in Hret. discriminate. }
  destruct (HH Hsd) as [Hpp _]. split; [exact Hpp|]. subst pp0. destruct (E' eq_refl) as [Hd|Hn]; [left; exact Hd|].
  destruct ip0 as [|l|]; [| |left; reflexivity].
  - right; left. unfold enabled; simpl. destruct sq as [|[evs|] r]; [destruct Hn| |]; reflexivity.
  - destruct l as [|x r]; [right; left; reflexivity|].
    destruct (Nat.leb N (length q0)) eqn:Ef.
    + right; right. split; [apply Nat.leb_le; exact Ef|simpl; eauto].
    + right; left. unfold enabled, step, full; simpl. rewrite Ef. reflexivity.
Qed.

(* ---------- the refuted histories ---------- *)
(* Suspend();Close()  (or a second Suspend): stuck for ever *)
Definition stuck2 (s : state) : Prop :=
  susp_done s <> 0 /\ pp s = PDone /\ closedch s = false /\
  match mp s with MPostQuit | MSendClose _ | MWriteDA1 _ | MWait _ => True | _ => False end.

Lemma stuck2_step : forall N ans l s s', stuck2 s -> step N ans l s = Some s' -> stuck2 s'.
Proof.
  intros N ans l s s' [H1 [H2 [H3 H4]]] Hs. destruct s as [q0 d0 td hs ty inp0 pp0 cc cd sq sc ip0 mp0 sd].
  unfold stuck2 in *. simpl in *. subst pp0 cd.
  destruct l; simpl in Hs.
  - destruct (td i) as [|[blk x] rest]; [discriminate|]. unfold full in Hs; simpl in Hs.
    destruct (Nat.leb N (length q0)); [destruct blk; [discriminate|]|]; injection Hs as <-; simpl; auto.
  - destruct mp0; try discriminate; contradiction.
  - destruct mp0; try discriminate; contradiction.
  - destruct mp0; try discriminate; contradiction.
  - destruct mp0; try discriminate; contradiction.
  - destruct mp0; try discriminate; try contradiction.
    + injection Hs as <-; simpl; auto.
    + destruct cc; [discriminate|]. injection Hs as <-; simpl; auto.
    + injection Hs as <-; simpl; auto.
  - discriminate.
  - destruct ip0; try discriminate.
    + destruct sq as [|[evs|] r]; [discriminate| |]; injection Hs as <-; simpl; auto.
    + destruct l as [|x r]; [injection Hs as <-; simpl; auto|].
      unfold full in Hs; simpl in Hs. destruct (Nat.leb N (length q0)); [discriminate|]. injection Hs as <-; simpl; auto.
  - injection Hs as <-; simpl; auto.
Qed.

Theorem suspend_then_close_refuted : forall N ans script s s0,
  reachable N ans script s -> mp s = MSuspended ->
  (step N ans LCallClose s = Some s0 \/ step N ans LCallSuspend s = Some s0) ->
  forall tr s', run N ans tr s0 = Some s' -> returned (mp s') = false.
Proof.
  intros N ans script s s0 Hr Hm Hcall.
  assert (Hst : stuck2 s0).
  { pose proof (hinv_reachable _ _ _ _ Hr) as H. destruct s as [q0 d0 td hs ty inp0 pp0 cc cd sq sc ip0 mp0 sd].
    destruct H as [E E' D G0 G1 G2 G3 F I HH]. simpl in *. subst mp0.
    assert (Hsd : sd <> 0). { intro Hz. specialize (G0 Hz). discriminate. }
    destruct (HH Hsd) as [Hp [Hc _]].
    destruct Hcall as [Hc0|Hc0]; simpl in Hc0; injection Hc0 as <-; unfold stuck2; simpl; auto. }
  clear Hcall. intros tr. revert s0 Hst. induction tr as [|l tr IH]; intros s0 Hst s' Hrun; simpl in Hrun.
  - injection Hrun as <-. destruct Hst as [_ [_ [_ H4]]]. destruct (mp s0); try contradiction; reflexivity.
  - destruct (step N ans l s0) as [s1|] eqn:E; [|discriminate]. eapply IH; [|exact Hrun]. eapply stuck2_step; eauto.
Qed.

(* a full queue with four unprocessed input sequences: Close never returns *)
Definition stuckq (N : nat) (s : state) : Prop :=
  N <= length (q s) /\ (exists x r, ip s = IPost (x :: r)) /\ length (seqs s) = 2 /\
  ((exists x r, pp s = PEmit (x :: r)) \/ pp s = PEof) /\ closedch s = false /\
  match mp s with MPostQuit | MSendClose _ | MWriteDA1 _ | MWait _ => True | _ => False end.

Lemma stuckq_step : forall N ans l s s', stuckq N s -> step N ans l s = Some s' -> stuckq N s'.
Proof.
  intros N ans l s s' [H1 [[x [r H2]] [H3 [H4 [H5 H6]]]]] Hs.
  destruct s as [q0 d0 td hs ty inp0 pp0 cc cd sq sc ip0 mp0 sd].
  unfold stuckq in *. simpl in *. subst ip0 cd.
  assert (Hfull : Nat.leb N (length q0) = true) by (apply Nat.leb_le; exact H1).
  destruct l; simpl in Hs.
  - destruct (td i) as [|[blk z] rest]; [discriminate|]. unfold full in Hs; simpl in Hs. rewrite Hfull in Hs.
    destruct blk; [discriminate|]. injection Hs as <-; simpl. repeat split; eauto.
  - destruct mp0; try discriminate; contradiction.
  - destruct mp0; try discriminate; contradiction.
  - destruct mp0; try discriminate; contradiction.
  - destruct mp0; try discriminate; contradiction.
  - destruct mp0; try discriminate; try contradiction.
    + injection Hs as <-. unfold full; simpl. rewrite Hfull. simpl. repeat split; eauto.
    + destruct cc; [discriminate|]. injection Hs as <-; simpl; repeat split; eauto.
    + injection Hs as <-; simpl; repeat split; eauto.
  - destruct H4 as [[y [t H4]]|H4]; subst pp0; rewrite H3 in Hs; simpl in Hs; discriminate.
  - unfold full in Hs; simpl in Hs. rewrite Hfull in Hs. discriminate.
  - injection Hs as <-; simpl; repeat split; eauto.
Qed.

Theorem close_full_queue_refuted : forall N ans s,
  stuckq N s -> forall tr s', run N ans tr s = Some s' -> returned (mp s') = false.
Proof.
  intros N ans s Hst tr. revert s Hst. induction tr as [|l tr IH]; intros s Hst s' Hrun; simpl in Hrun.
  - injection Hrun as <-. destruct Hst as [_ [_ [_ [_ [_ H6]]]]]. destruct (mp s); try contradiction; reflexivity.
  - destruct (step N ans l s) as [s1|] eqn:E; [|discriminate]. eapply IH; [|exact Hrun]. eapply stuckq_step; eauto.
Qed.

(* room: the queue can take everything that is still on its way through the input pipeline,
   plus what Close itself will post *)
Definition pending_main (ans : bool) (m : mpc) : nat :=
  match m with
  | MPostQuit => 1 + (if ans then 1 else 0)
  | MSendClose _ | MWriteDA1 _ => if ans then 1 else 0
  | _ => 0
  end.
Definition room (N : nat) (ans : bool) (s : state) : Prop :=
  length (q s) + length (pipeline s) + pending_main ans (mp s) <= N.

Lemma room_step : forall N ans l s s',
  handshake l = true -> step N ans l s = Some s' ->
  length (q s') + length (pipeline s') + pending_main ans (mp s')
  <= length (q s) + length (pipeline s) + pending_main ans (mp s).
Proof.
  intros N ans l s s' Hh Hs. destruct s as [q0 d0 td hs ty inp0 pp0 cc cd sq sc ip0 mp0 sd].
  unfold pipeline. destruct l; simpl in Hh; try discriminate; simpl in Hs.
  - destruct mp0; try discriminate.
    + injection Hs as <-. unfold full; simpl. destruct (Nat.leb N (length q0)); simpl; [lia|]. rewrite app_length; simpl; lia.
    + destruct cc; [discriminate|]. injection Hs as <-; simpl; lia.
    + injection Hs as <-; simpl. rewrite items_events_app, !app_length. destruct ans; simpl; lia.
    + destruct cd; [|discriminate]. injection Hs as <-; simpl; lia.
    + injection Hs as <-; simpl. destruct c; simpl; lia.
  - destruct pp0; try discriminate.
    + destruct cc; injection Hs as <-; simpl; lia.
    + destruct inp0 as [|it r]; [discriminate|]. injection Hs as <-; simpl. unfold items_events; simpl.
      rewrite !app_length. unfold item_events. lia.
    + destruct l as [|x r]; [injection Hs as <-; simpl; lia|].
      destruct (Nat.ltb (length sq) 2); [|discriminate]. injection Hs as <-; simpl.
      rewrite seq_events_app. simpl. rewrite !app_length. simpl. lia.
    + destruct (Nat.ltb (length sq) 2); [|discriminate]. injection Hs as <-; simpl.
      rewrite seq_events_app. simpl. rewrite !app_length. simpl. lia.
    + injection Hs as <-; simpl; lia.
    + destruct cd; [discriminate|]. injection Hs as <-; simpl; lia.
  - destruct ip0; try discriminate.
    + destruct sq as [|[evs|] r]; [discriminate| |]; injection Hs as <-; simpl; rewrite ?app_length; lia.
    + destruct l as [|x r]; [injection Hs as <-; simpl; lia|].
      unfold full in Hs; simpl in Hs. destruct (Nat.leb N (length q0)); [discriminate|]. injection Hs as <-; simpl.
      rewrite !app_length. simpl. lia.
Qed.

Lemma handshake_not_call : forall l, handshake l = true -> is_call l = false.
Proof. destruct l; simpl; intros; congruence. Qed.

(* With room, Close/Suspend DO reach their return label: a run of at most [rank s] handshake
   steps exists from every reachable state inside a first shutdown. *)
Theorem shutdown_can_return : forall N script s,
  reachable N true script s -> in_shutdown (mp s) = true -> susp_done s = 0 -> room N true s ->
  exists tr s', forallb handshake tr = true /\ run N true tr s = Some s' /\ returned (mp s') = true
                /\ length tr <= rank s.
Proof.
  intros N script s. remember (rank s) as n eqn:En. assert (Hn : rank s <= n) by lia. clear En.
  revert s Hn. induction n as [|n IH]; intros s Hn Hr Hsh Hsd Hroom.
  - (* rank 0 is impossible inside a shutdown *)
    exfalso. destruct s as [q0 d0 td hs ty inp0 pp0 cc cd sq sc ip0 mp0 sd]. unfold rank in Hn. simpl in *.
    destruct mp0; simpl in *; try discriminate; lia.
  - destruct (progress_inv N s (hinv_reachable _ _ _ _ Hr) Hsh Hsd) as [[l [Hh He]]|[Hfull [x [r Hip]]]].
    + unfold enabled in He. destruct (step N true l s) as [s1|] eqn:E; [|discriminate].
      pose proof (rank_step _ _ _ _ _ (handshake_not_call _ Hh) E) as Hrk. rewrite Hh in Hrk.
      assert (Hlc : label_cost l = 0) by (destruct l; simpl in Hh; try discriminate; reflexivity). rewrite Hlc in Hrk.
      destruct (shutdown_step _ _ _ _ _ Hsh Hsd E) as [[H1 H2]|H1].
      * assert (Hroom1 : room N true s1).
        { unfold room in *. pose proof (room_step _ _ _ _ _ Hh E). lia. }
        destruct (IH s1 ltac:(lia) (reachable_step _ _ _ _ _ _ Hr E) H1 H2 Hroom1) as [tr [s' [Ht [Hrun [Hret Hlen]]]]].
        exists (l :: tr), s'. simpl. rewrite Hh, E. repeat split; auto. lia.
      * exists [l], s1. simpl. rewrite Hh, E. repeat split; auto. lia.
    + exfalso. unfold room, pipeline in Hroom. rewrite Hip in Hroom. simpl in Hroom. lia.
Qed.

(* ---------- the decidable checkers mean what the theorems say ---------- *)
Local Open Scope Z_scope.
Lemma subseqb_sound : forall a b, subseqb a b = true -> Subseq a b.
Proof.
  intros a b; revert a. induction b as [|y b IH]; intros a H.
  - destruct a; [constructor|discriminate].
  - destruct a as [|x a]; [constructor|]. simpl in H. destruct (x =? y) eqn:E.
    + apply Z.eqb_eq in E; subst. apply sub_take. apply IH. exact H.
    + apply sub_skip. apply IH. exact H.
Qed.

Lemma subseqb_complete : forall a b, Subseq a b -> subseqb a b = true.
Proof.
  assert (Hskip : forall b a x, subseqb (x :: a) b = true -> subseqb a b = true).
  { induction b as [|y b IH]; intros a x H; [discriminate|].
    destruct a as [|z a]; [reflexivity|]. simpl in *. destruct (x =? y).
    - destruct (z =? y); [eapply IH; exact H|exact H].
    - destruct (z =? y); [eapply IH; eapply IH; exact H|eapply IH; exact H]. }
  intros a b H; induction H; simpl.
  - destruct l; reflexivity.
  - rewrite Z.eqb_refl. exact IHSubseq.
  - destruct a as [|y a]; [reflexivity|]. destruct (y =? x) eqn:E; [|exact IHSubseq].
    eapply Hskip. exact IHSubseq.
Qed.
Local Close Scope Z_scope.

(* ------------------------------------------------------------------------------------ *)
(* Part A: the lock-set discipline over the translated table                              *)
(* ------------------------------------------------------------------------------------ *)
From Coq Require String.
Import String.StringSyntax.
Local Open Scope string_scope.

(* fields excluded from the positive statement, and why (see props/C10.v) *)
Definition excluded_nosig : list String.string :=
  ["Vaxis.parser"; "Vaxis.tw"; "Vaxis.pastePending"; "Vaxis.userCursorStyle"].
Definition excluded_full : list String.string :=
  ["Vaxis.console"; "Vaxis.parser"; "Vaxis.tw"; "Vaxis.appIDLast"; "Vaxis.pastePending"; "Vaxis.caps"; "Vaxis.charCache";
   "Vaxis.cursorNext"; "Vaxis.cursorLast"; "Vaxis.closed"; "Vaxis.userCursorStyle"; "Vaxis.renders";
   "Vaxis.elapsed"; "writer.buf"].

Lemma roles_closed_full :
  forallb (fun rt => closed_under calls entries (fst rt) (snd rt)) tbl_full = true.
Proof. vm_compute. reflexivity. Qed.
Lemma roles_closed_nosig :
  forallb (fun rt => closed_under calls_nosig entries_nosig (fst rt) (snd rt)) tbl_nosig = true.
Proof. vm_compute. reflexivity. Qed.
Lemma locks_sound_full : locks_sound calls entries L_full = true.
Proof. vm_compute. reflexivity. Qed.
Lemma locks_sound_nosig : locks_sound calls_nosig entries_nosig L_nosig = true.
Proof. vm_compute. reflexivity. Qed.

(* exactly these fields are flagged: nothing else, and each of them really is *)
Lemma racy_full : racy_fields tbl_full L_full = excluded_full.
Proof. vm_compute. reflexivity. Qed.
Lemma racy_nosig : racy_fields tbl_nosig L_nosig = excluded_nosig.
Proof. vm_compute. reflexivity. Qed.

Opaque sites calls entries field_names fn_names tbl_full L_full tbl_nosig L_nosig.

Lemma racy_fields_spec : forall tbl L fn,
  In fn field_names -> ~ In (snd fn) (racy_fields tbl L) -> field_ok tbl L (fst fn) = true.
Proof.
  intros tbl L fn Hin Hn. destruct (field_ok tbl L (fst fn)) eqn:E; [reflexivity|].
  exfalso. apply Hn. unfold racy_fields. apply in_map. apply filter_In. split; [exact Hin|]. rewrite E. reflexivity.
Qed.

Lemma pairs_gen : forall (ss : list site) (p : site -> site -> bool) f a b,
  (let l := filter (fun s => (s_field s =? f)%Z) ss in forallb (fun a => forallb (fun b => p a b) l) l) = true ->
  In a ss -> In b ss -> s_field a = f -> s_field b = f -> p a b = true.
Proof.
  intros ss p f a b H Ha Hb Hfa Hfb. cbv zeta in H. rewrite forallb_forall in H.
  assert (Hia : In a (filter (fun s => (s_field s =? f)%Z) ss)) by (apply filter_In; split; [exact Ha|apply Z.eqb_eq; exact Hfa]).
  assert (Hib : In b (filter (fun s => (s_field s =? f)%Z) ss)) by (apply filter_In; split; [exact Hb|apply Z.eqb_eq; exact Hfb]).
  specialize (H a Hia). rewrite forallb_forall in H. exact (H b Hib).
Qed.

Lemma field_ok_pairs : forall tbl L f a b,
  field_ok tbl L f = true -> In a sites -> In b sites -> s_field a = f -> s_field b = f ->
  pair_ok tbl L a b = true.
Proof. intros tbl L f a b H. exact (pairs_gen sites (pair_ok tbl L) f a b H). Qed.

Theorem lockset_ok_full : forall fn a b,
  In fn field_names -> ~ In (snd fn) excluded_full ->
  In a sites -> In b sites -> s_field a = fst fn -> s_field b = fst fn ->
  pair_ok tbl_full L_full a b = true.
Proof.
  intros fn a b Hin Hn. eapply field_ok_pairs. apply racy_fields_spec; [exact Hin|]. rewrite racy_full. exact Hn.
Qed.

Theorem lockset_ok_nosig : forall fn a b,
  In fn field_names -> ~ In (snd fn) excluded_nosig ->
  In a sites -> In b sites -> s_field a = fst fn -> s_field b = fst fn ->
  pair_ok tbl_nosig L_nosig a b = true.
Proof.
  intros fn a b Hin Hn. eapply field_ok_pairs. apply racy_fields_spec; [exact Hin|]. rewrite racy_nosig. exact Hn.
Qed.

(* what pair_ok = true says *)
Lemma pair_ok_spec : forall tbl L a b, pair_ok tbl L a b = true ->
  kinds_ok (s_kind a) (s_kind b) = true
  \/ (exists l, In l (site_locks L a) /\ In l (site_locks L b))
  \/ (forall ra rb, In ra (site_roles tbl a) -> In rb (site_roles tbl b) -> conc_roles ra rb = false).
Proof.
  intros tbl L a b H. unfold pair_ok in H. apply orb_prop in H. destruct H as [H|H].
  - apply orb_prop in H. destruct H as [H|H]; [left; exact H|]. right; left.
    destruct (zinter (site_locks L a) (site_locks L b)) as [|l r] eqn:E; [discriminate|].
    exists l. assert (Hl : In l (zinter (site_locks L a) (site_locks L b))) by (rewrite E; left; reflexivity).
    unfold zinter in Hl. apply filter_In in Hl. destruct Hl as [H1 H2]. split; [exact H1|].
    unfold zmem in H2. apply existsb_exists in H2. destruct H2 as [y [Hy Hy2]]. apply Z.eqb_eq in Hy2. subst. exact Hy.
  - right; right. intros ra rb Hra Hrb. unfold may_race in H.
    destruct (conc_roles ra rb) eqn:E; [|reflexivity]. exfalso.
    assert (Ht : existsb (fun ra0 => existsb (fun rb0 => conc_roles ra0 rb0) (site_roles tbl b)) (site_roles tbl a) = true).
    { apply existsb_exists. exists ra. split; [exact Hra|]. apply existsb_exists. exists rb. split; [exact Hrb|exact E]. }
    rewrite Ht in H. discriminate.
Qed.
