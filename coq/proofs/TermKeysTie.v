(* Proofs for property C13, part 3: the mode model of C13 (model/TermMouse.v) against the emulator model of
   C05/C06 (model/Term.v) on the control functions and the state they share: DECSET / DECRST walk every
   parameter in both, panic on the same (empty) parameter, and compute the same alternate-screen bit. *)
From Vx Require Import base.Prelude base.ListX model.Colour model.Sgr model.Term model.TermMouse.
Local Open Scope Z_scope.

Lemma set_active_md t g : t_md (set_active t g) = t_md t.
Proof. unfold set_active. destruct (t_onalt t); reflexivity. Qed.

Lemma ed_md t ps t' : ed t ps = TOk t' -> t_md t' = t_md t.
Proof.
  unfold ed.
  destruct (ps =? 0).
  { destruct (_ && _); [discriminate|]. unfold tbind. destruct (of_opt _); try discriminate.
    intros H; injection H as <-. now rewrite set_active_md. }
  destruct (ps =? 1).
  { destruct (_ || _); [discriminate|]. unfold tbind. destruct (of_opt _); try discriminate.
    intros H; injection H as <-. now rewrite set_active_md. }
  destruct (ps =? 2).
  { unfold tbind. destruct (of_opt _); try discriminate.
    intros H; injection H as <-. now rewrite set_active_md. }
  intros H; injection H as <-. reflexivity.
Qed.

Lemma decsc_md t : t_md (decsc t) = t_md t.
Proof. unfold decsc. destruct (Term.m_smcup (t_md t)); reflexivity. Qed.

Lemma decrc_smcup t : Term.m_smcup (t_md (decrc t)) = Term.m_smcup (t_md t).
Proof.
  unfold decrc. cbn zeta.
  set (s := if Term.m_smcup (t_md t) then t_sva t else t_svp t). clearbody s.
  repeat match goal with |- context [if ?c then _ else _] => destruct c end; reflexivity.
Qed.

(* the alternate-screen bit after one parameter *)
Lemma decset1_smcup t k t' md : decset1 t k = TOk t' -> Term.m_smcup (t_md t) = TermMouse.m_smcup md ->
  Term.m_smcup (t_md t') = TermMouse.m_smcup (dec_mode md k true).
Proof.
  intros H E.
  assert (S : TermMouse.m_smcup (dec_mode md k true) = if k =? 1049 then true else TermMouse.m_smcup md).
  { unfold dec_mode.
    repeat match goal with |- context [k =? ?c] => destruct (Z.eqb_spec k c); [subst k; reflexivity|] end.
    reflexivity. }
  rewrite S. unfold decset1 in H.
  destruct (Z.eqb_spec k 6); [subst; injection H as <-; exact E|].
  destruct (Z.eqb_spec k 7); [subst; injection H as <-; exact E|].
  destruct (Z.eqb_spec k 25); [subst; injection H as <-; exact E|].
  destruct (k =? 1049).
  - cbn zeta in H. unfold tbind in H.
    destruct (if Term.m_smcup _ then _ else _) as [t1| |]; try discriminate.
    injection H as <-. reflexivity.
  - injection H as <-. exact E.
Qed.

Lemma decrst1_smcup t k t' md : decrst1 t k = TOk t' -> Term.m_smcup (t_md t) = TermMouse.m_smcup md ->
  Term.m_smcup (t_md t') = TermMouse.m_smcup (dec_mode md k false).
Proof.
  intros H E.
  assert (S : TermMouse.m_smcup (dec_mode md k false) = if k =? 1049 then false else TermMouse.m_smcup md).
  { unfold dec_mode.
    repeat match goal with |- context [k =? ?c] => destruct (Z.eqb_spec k c); [subst k; reflexivity|] end.
    reflexivity. }
  rewrite S. unfold decrst1 in H.
  destruct (Z.eqb_spec k 6); [subst; injection H as <-; exact E|].
  destruct (Z.eqb_spec k 7); [subst; injection H as <-; exact E|].
  destruct (Z.eqb_spec k 25); [subst; injection H as <-; exact E|].
  destruct (k =? 1049).
  - unfold tbind in H.
    destruct (if Term.m_smcup _ then _ else _) as [t1| |]; try discriminate.
    injection H as <-. rewrite decrc_smcup. reflexivity.
  - injection H as <-. exact E.
Qed.

(* the whole parameter list: Term.fold_params and TermMouse.mode_params visit the same parameters *)
Lemma fold_params_modes (b : bool) : forall params t t' md,
  fold_params (if b then decset1 else decrst1) params t = TOk t' ->
  Term.m_smcup (t_md t) = TermMouse.m_smcup md ->
  exists md', mode_params b params md = Some md' /\ Term.m_smcup (t_md t') = TermMouse.m_smcup md'.
Proof.
  induction params as [|p rest IH]; intros t t' md H E; cbn [fold_params mode_params] in *.
  - injection H as <-. eauto.
  - destruct p as [|k p'].
    + cbn in H. discriminate.
    + change (of_opt (zget (k :: p') 0)) with (TOk k) in H. cbn [tbind] in H.
      destruct ((if b then decset1 else decrst1) t k) as [t1| |] eqn:E1; try discriminate.
      cbn [tbind] in H. apply IH with (md := dec_mode md k b) in H; [exact H|].
      destruct b; [eapply decset1_smcup|eapply decrst1_smcup]; eassumption.
Qed.

Theorem modes_tie_emulator (b : bool) t t' params md :
  Term.csi t [63] params (if b then 104 else 108) = TOk t' ->
  Term.m_smcup (t_md t) = TermMouse.m_smcup md ->
  exists md', child_csi md [63] params (if b then 104 else 108) = Some md' /\
              Term.m_smcup (t_md t') = TermMouse.m_smcup md'.
Proof.
  intros H E. destruct b.
  - change (Term.csi t [63] params 104) with (fold_params decset1 params t) in H.
    change (child_csi md [63] params 104) with (mode_params true params md).
    exact (fold_params_modes true params t t' md H E).
  - change (Term.csi t [63] params 108) with (fold_params decrst1 params t) in H.
    change (child_csi md [63] params 108) with (mode_params false params md).
    exact (fold_params_modes false params t t' md H E).
Qed.

(* and in the other direction the emulator model can only fail where it panics or stalls for reasons of its
   own (erasing a malformed grid): an empty parameter fails both *)
Lemma fold_params_empty f t rest : fold_params f ([] :: rest) t = TPanic.
Proof. reflexivity. Qed.

(* the full reset: both models switch everything off *)
Theorem modes_tie_ris t t' md : Term.esc t [] 99 = TOk t' ->
  Term.m_smcup (t_md t') = TermMouse.m_smcup (child_esc md [] 99).
Proof.
  change (Term.esc t [] 99) with (ris t). unfold ris, tbind.
  destruct (make_grid _ _); try discriminate. intros H; injection H as <-. reflexivity.
Qed.
