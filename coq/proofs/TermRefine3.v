(* C06 - simulation lemmas, part 3: erase in display, scroll up/down with parameters,
   delete/insert characters, printing. *)
From Vx Require Import base.Prelude base.ListX model.Colour model.Sgr model.Term model.TermCheck
  model.VtSpec model.TermAbs proofs.SgrProofs proofs.TermProofs proofs.TermRefine proofs.TermRefine2.
Require Import ZifyBool Lia.

Local Open Scope Z_scope.

#[local] Hint Rewrite @zget_app_if @zget_map @zget_zfirstn @zget_zskipn' @zget_zrepeat @zget_single
  @zlen_app @zlen_map @zlen_zfirstn @zlen_zskipn @zlen_zrepeat @zlen_single : zg.

Lemma t_md_set_active t g : t_md (set_active t g) = t_md t.
Proof. unfold set_active; destruct (t_onalt t); reflexivity. Qed.
Lemma t_cs_set_active t g : t_cs (set_active t g) = t_cs t.
Proof. unfold set_active; destruct (t_onalt t); reflexivity. Qed.
Lemma t_svp_set_active t g : t_svp (set_active t g) = t_svp t.
Proof. unfold set_active; destruct (t_onalt t); reflexivity. Qed.
Lemma t_sva_set_active t g : t_sva (set_active t g) = t_sva t.
Proof. unfold set_active; destruct (t_onalt t); reflexivity. Qed.

Lemma set_active_twice t g1 g2 : set_active (set_active t g1) g2 = set_active t g2.
Proof. unfold set_active; destruct (t_onalt t) eqn:E; cbn; reflexivity. Qed.

Lemma upd_nat_twice {A} (l : list A) n x y : upd_nat (upd_nat l n x) n y = upd_nat l n y.
Proof. revert n; induction l as [|a l IH]; intros [|n]; simpl; auto. now rewrite IH. Qed.

Lemma t_row_set_active t g : t_row (set_active t g) = t_row t.
Proof. unfold set_active; destruct (t_onalt t); reflexivity. Qed.
Lemma t_pen_set_active t g : t_pen (set_active t g) = t_pen t.
Proof. unfold set_active; destruct (t_onalt t); reflexivity. Qed.

Lemma zget_map_range_const {A} (x : A) lo hi (l : list A) i :
  0 <= lo -> lo <= hi -> hi <= zlen l ->
  zget (map_range (fun _ => x) lo hi l) i = if (lo <=? i) && (i <? hi) then Some x else zget l i.
Proof.
  intros H1 H2 H3. rewrite zget_map_range by assumption.
  destruct ((lo <=? i) && (i <? hi)) eqn:E; [|reflexivity].
  destruct (zget l i) eqn:G; [reflexivity|]. apply zget_none_range in G; lia.
Qed.

Section Grid3.
Variables (w h : Z) (t : term).
Hypothesis HI : Inv w h t.
Hypothesis Hlast : t_last t = false.
Let HW := Inv_WF w h t HI.

Lemma sim_su x : pv_ok x ->
  exists t', scroll_up t (dflt1 (clamp_ps x)) = TOk t' /\ Inv w h t' /\ abs t' = scroll_up_n (abs t) (dflt x).
Proof.
  intros Hx. pose proof (clamp_ps_range x) as Hc.
  destruct (scroll_up_sim w h t HI (dflt1 (clamp_ps x))) as [t' [E [I A]]]; [unfold dflt1; case_if; lia|].
  exists t'; split; [exact E|]; split; [exact I|]. rewrite A. unfold scroll_up_n.
  change (v_top (abs t)) with (t_top t). change (v_bot (abs t)) with (t_bot t).
  f_equal. f_equal. destruct HI as [[] ? ?]. unfold dflt1, dflt. split_pv x Hx; repeat case_if; lia.
Qed.

Lemma sim_sd x : pv_ok x ->
  exists t', scroll_down t (dflt1 (clamp_ps x)) = TOk t' /\ Inv w h t' /\ abs t' = scroll_down_n (abs t) (dflt x).
Proof.
  intros Hx. pose proof (clamp_ps_range x) as Hc.
  destruct (scroll_down_sim w h t HI (dflt1 (clamp_ps x))) as [t' [E [I A]]]; [unfold dflt1; case_if; lia|].
  exists t'; split; [exact E|]; split; [exact I|]. rewrite A. unfold scroll_down_n.
  change (v_top (abs t)) with (t_top t). change (v_bot (abs t)) with (t_bot t).
  f_equal. f_equal. destruct HI as [[] ? ?]. unfold dflt1, dflt. split_pv x Hx; repeat case_if; lia.
Qed.

(* ED 2 needs only the well-formedness invariant (it is also what the alternate screen
   switch runs, in a state where the mode flag and the active screen disagree) *)
Lemma ed2_core (t0 : term) : WFs0 0 w h t0 ->
  exists g', ed t0 2 = TOk (set_active (set_last t0 false) g') /\ grid_ok w h g' /\
    abs_grid g' = zrepeat (zrepeat (Blank (pen_bg t0)) w) h.
Proof.
  intros HW0.
  destruct (WFs_active _ _ _ _ HW0) as [Hlen HF].
  unfold ed; cbv zeta.
  change (2 =? 0) with false; change (2 =? 1) with false; change (2 =? 2) with true; cbv iota.
  change (active (set_last t0 false)) with (active t0).
  rewrite (WFs_width 0 w h t0 HW0).
  match goal with |- context[mapi_opt ?f 0 (active t0)] =>
    destruct (grid_loop_ok 0 w h t0 f HW0) as [g' [Hm Hg']] end.
  { intros r line Hrr Hl. destruct HW0. apply erase_cells_ok; auto; lia. }
  match goal with |- context[of_opt ?m] => replace m with (Some g') by (symmetry; exact Hm) end.
  cbn [of_opt tbind].
  exists g'; split; [reflexivity|]. split; [assumption|].
  apply list_ext_all; intros i.
  pose proof (mapi_opt_zget _ _ _ _ Hm i) as Hz.
  unfold abs_grid at 1. rewrite zget_map. unfold trow, grid in *. rewrite Hz. clear Hz.
  autorewrite with zg.
  destruct (Z_lt_dec i 0); [rewrite !zget_neg by lia; pw_finish|].
  destruct (@zget (list tcell) (active t0) i) as [line|] eqn:G.
  - pose proof (zget_some_range _ _ _ G) as Hi.
    assert (Hline : row_ok w line) by (rewrite Forall_forall in HF; apply HF; eapply zget_In; eauto).
    destruct Hline as [Hl HFl].
    assert (Ee : erase_cells (pen_bg t0) 0 w line = Some (map_range (erase_cell (pen_bg t0)) 0 w line)).
    { unfold erase_cells, upd_range. destruct HW0. destruct (0 <? w) eqn:E; [|lia].
      destruct ((0 <? 0) || (zlen line <? w)) eqn:E2; [lia|]. reflexivity. }
    rewrite Ee. cbn [option_map].
    change (map abs_cell (map_range (erase_cell (pen_bg t0)) 0 w line))
      with (abs_line (map_range (erase_cell (pen_bg t0)) 0 w line)).
    rewrite (abs_line_erase_all _ line w Hl). pw_finish.
  - apply zget_none_range in G. pw_finish.
Qed.

Lemma ed2_sim (t0 : term) : Inv w h t0 ->
  exists t', ed t0 2 = TOk t' /\ Inv w h t' /\
    abs t' = set_pos (set_grid (abs t0) (zrepeat (blank_line (abs t0)) h)) (t_row t0) (t_col t0) false.
Proof.
  intros HI0. pose proof (Inv_WF w h t0 HI0) as HW0.
  destruct (ed2_core t0 HW0) as [g' [E [Hg' A]]].
  pose proof (Inv_set_last w h t0 false HI0) as HI1.
  eexists; split; [exact E|]. split; [now apply Inv_set_active|].
  rewrite (abs_set_active w h (set_last t0 false) g' HI1 Hg'), A.
  assert (Ea : abs (set_last t0 false) = set_pos (abs t0) (t_row t0) (t_col t0) false) by (apply abs_move; reflexivity).
  rewrite Ea. unfold set_grid, set_pos, blank_line, blanks; cbn. rewrite (Inv_width w h t0 HI0). reflexivity.
Qed.

Lemma erase_cells_some bgc lo hi (line : trow) :
  0 <= lo -> lo <= hi -> hi <= zlen line ->
  erase_cells bgc lo hi line = Some (map_range (erase_cell bgc) lo hi line) \/
  (lo = hi /\ erase_cells bgc lo hi line = Some line).
Proof.
  intros H1 H2 H3. unfold erase_cells, upd_range. destruct (lo <? hi) eqn:E.
  - left. destruct ((lo <? 0) || (zlen line <? hi)) eqn:E2; [lia|]. reflexivity.
  - right. split; [lia|reflexivity].
Qed.

Lemma abs_line_erase' bgc lo hi (l l' : trow) :
  0 <= lo -> lo <= hi -> hi <= zlen l -> erase_cells bgc lo hi l = Some l' ->
  abs_line l' = zfirstn lo (abs_line l) ++ zrepeat (Blank bgc) (hi - lo) ++ zskipn hi (abs_line l).
Proof.
  intros H1 H2 H3 E. destruct (erase_cells_some bgc lo hi l H1 H2 H3) as [E1|[E0 E1]]; rewrite E1 in E; inversion E; subst.
  - now apply abs_line_erase.
  - replace (hi - hi) with 0 by lia. cbn [zrepeat Z.to_nat repeat app]. now rewrite zfirstn_zskipn.
Qed.

Lemma sim_ed0 : exists t', ed t 0 = TOk t' /\ Inv w h t' /\ abs t' = erase_display (abs t) 0.
Proof.
  destruct (WFs_active _ _ _ _ HW) as [Hlen HF].
  destruct (cur_row w h t HI) as [cl [Hcl [Hcll Hclf]]].
  unfold ed; cbv zeta. change (0 =? 0) with true; cbv iota.
  rewrite (set_last_id t Hlast). rewrite (Inv_width w h t HI).
  destruct ((t_row t <? 0) && ((t_row t <? -1) && (0 <? w) || (Z.max 0 (t_col t) <? w))) eqn:G0; [destruct HW; lia|].
  match goal with |- context[mapi_opt ?f 0 (active t)] =>
    destruct (grid_loop_ok 0 w h t f HW) as [g' [Hm Hg']] end.
  { intros r line Hrr Hl. destruct HW. repeat case_if; eauto; apply erase_cells_ok; auto; lia. }
  match goal with |- context[of_opt ?m] => replace m with (Some g') by (symmetry; exact Hm) end.
  cbn [of_opt tbind].
  eexists; split; [reflexivity|]. split; [now apply Inv_set_active|].
  rewrite (abs_set_active w h t g' HI Hg').
  unfold erase_display. change (0 =? 0) with true; cbv iota. f_equal.
  rewrite (cur_line_abs w h t cl HI Hcl).
  change (v_row (abs t)) with (t_row t). change (v_col (abs t)) with (t_col t).
  rewrite (abs_rows w h t HI), (abs_cols w h t HI).
  apply list_ext_all; intros i.
  change (v_grid (abs t)) with (abs_grid (active t)).
  pose proof (mapi_opt_zget _ _ _ _ Hm i) as Hz.
  unfold abs_grid at 1. rewrite zget_map. unfold trow, grid in *. rewrite Hz. clear Hz.
  unfold blank_line, blanks. rewrite (abs_cols w h t HI). change (v_pen (abs t)) with (t_pen t).
  autorewrite with zg. rewrite ?(abs_grid_len w h t HI). unfold abs_grid. rewrite ?zget_map.
  destruct HW as [? ? ? ? Hrow Hcol ? ? ? ? ? ? ? ? ?].
  destruct (Z_lt_dec i 0); [rewrite !zget_neg by lia; pw_finish|].
  destruct (@zget (list tcell) (active t) i) as [line|] eqn:G.
  - pose proof (zget_some_range _ _ _ G) as Hi.
    assert (Hline : row_ok w line) by (rewrite Forall_forall in HF; apply HF; eapply zget_In; eauto).
    destruct Hline as [Hl HFl]. replace (0 + i) with i by lia.
    destruct (i <? t_row t) eqn:C1.
    + cbn [option_map]. pw_finish. all: try (rewrite G; reflexivity).
    + destruct (i =? t_row t) eqn:C2.
      * assert (i = t_row t) by lia; subst i. rewrite Hcl in G; inversion G; subst line.
        destruct (erase_cells (pen_bg t) (Z.max 0 (t_col t)) w cl) as [l'|] eqn:Ee.
        2:{ destruct (erase_cells_ok (pen_bg t) (Z.max 0 (t_col t)) w cl w) as [l' [E' _]]; [split; auto | lia | congruence]. }
        cbn [option_map].
        change (map abs_cell l') with (abs_line l').
        rewrite (abs_line_erase' (pen_bg t) (Z.max 0 (t_col t)) w cl l' ltac:(lia) ltac:(lia) ltac:(zl) Ee).
        replace (Z.max 0 (t_col t)) with (t_col t) by lia.
        rewrite (zskipn_all (abs_line cl) w) by (rewrite zlen_abs_line; lia). rewrite app_nil_r.
        pw_finish.
      * destruct (erase_cells (pen_bg t) 0 w line) as [l'|] eqn:Ee.
        2:{ destruct (erase_cells_ok (pen_bg t) 0 w line w) as [l' [E' _]]; [split; auto | lia | congruence]. }
        cbn [option_map]. change (map abs_cell l') with (abs_line l').
        rewrite (abs_line_erase' (pen_bg t) 0 w line l' ltac:(lia) ltac:(lia) ltac:(zl) Ee).
        rewrite (zskipn_all (abs_line line) w) by (rewrite zlen_abs_line; lia). rewrite app_nil_r.
        replace (w - 0) with w by lia. cbn [zfirstn Z.to_nat firstn app].
        pw_finish.
  - apply zget_none_range in G. pw_finish.
Qed.


Lemma sim_ed1 : exists t', ed t 1 = TOk t' /\ Inv w h t' /\ abs t' = erase_display (abs t) 1.
Proof.
  destruct (WFs_active _ _ _ _ HW) as [Hlen HF].
  destruct (cur_row w h t HI) as [cl [Hcl [Hcll Hclf]]].
  unfold ed; cbv zeta. change (1 =? 0) with false; change (1 =? 1) with true; cbv iota.
  rewrite (set_last_id t Hlast). rewrite (Inv_width w h t HI), (Inv_height w h t HI).
  destruct ((h <? t_row t) && (0 <? w) || (h <=? t_row t) && (0 <? Z.min (t_col t + 1) w)) eqn:G0; [destruct HW; lia|].
  match goal with |- context[mapi_opt ?f 0 (active t)] =>
    destruct (grid_loop_ok 0 w h t f HW) as [g' [Hm Hg']] end.
  { intros r line Hrr Hl. destruct HW. repeat case_if; eauto; apply erase_cells_ok; auto; lia. }
  match goal with |- context[of_opt ?m] => replace m with (Some g') by (symmetry; exact Hm) end.
  cbn [of_opt tbind].
  eexists; split; [reflexivity|]. split; [now apply Inv_set_active|].
  rewrite (abs_set_active w h t g' HI Hg').
  unfold erase_display. change (1 =? 0) with false; change (1 =? 1) with true; cbv iota. f_equal.
  rewrite (cur_line_abs w h t cl HI Hcl).
  change (v_row (abs t)) with (t_row t). change (v_col (abs t)) with (t_col t).
  apply list_ext_all; intros i.
  change (v_grid (abs t)) with (abs_grid (active t)).
  pose proof (mapi_opt_zget _ _ _ _ Hm i) as Hz.
  unfold abs_grid at 1. rewrite zget_map. unfold trow, grid in *. rewrite Hz. clear Hz.
  unfold blank_line, blanks. rewrite (abs_cols w h t HI). change (v_pen (abs t)) with (t_pen t).
  autorewrite with zg. rewrite ?(abs_grid_len w h t HI). unfold abs_grid. rewrite ?zget_map.
  destruct HW as [? ? ? ? Hrow Hcol ? ? ? ? ? ? ? ? ?].
  destruct (Z_lt_dec i 0); [rewrite !zget_neg by lia; pw_finish|].
  destruct (@zget (list tcell) (active t) i) as [line|] eqn:G.
  - pose proof (zget_some_range _ _ _ G) as Hi.
    assert (Hline : row_ok w line) by (rewrite Forall_forall in HF; apply HF; eapply zget_In; eauto).
    destruct Hline as [Hl HFl]. replace (0 + i) with i by lia.
    destruct (i <? t_row t) eqn:C1.
    + destruct (erase_cells (pen_bg t) 0 w line) as [l'|] eqn:Ee.
      2:{ destruct (erase_cells_ok (pen_bg t) 0 w line w) as [l' [E' _]]; [split; auto | lia | congruence]. }
      cbn [option_map]. change (map abs_cell l') with (abs_line l').
      rewrite (abs_line_erase' (pen_bg t) 0 w line l' ltac:(lia) ltac:(lia) ltac:(zl) Ee).
      rewrite (zskipn_all (abs_line line) w) by (rewrite zlen_abs_line; lia). rewrite app_nil_r.
      replace (w - 0) with w by lia. cbn [zfirstn Z.to_nat firstn app].
      pw_finish.
    + destruct (i =? t_row t) eqn:C2.
      * assert (i = t_row t) by lia; subst i. rewrite Hcl in G; inversion G; subst line.
        destruct (erase_cells (pen_bg t) 0 (Z.min (t_col t + 1) w) cl) as [l'|] eqn:Ee.
        2:{ destruct (erase_cells_ok (pen_bg t) 0 (Z.min (t_col t + 1) w) cl w) as [l' [E' _]]; [split; auto | lia | congruence]. }
        cbn [option_map].
        change (map abs_cell l') with (abs_line l').
        rewrite (abs_line_erase' (pen_bg t) 0 (Z.min (t_col t + 1) w) cl l' ltac:(lia) ltac:(lia) ltac:(zl) Ee).
        replace (Z.min (t_col t + 1) w) with (t_col t + 1) by lia.
        replace (t_col t + 1 - 0) with (t_col t + 1) by lia. cbn [zfirstn Z.to_nat firstn app].
        pw_finish.
      * cbn [option_map]. pw_finish. all: try (rewrite G; reflexivity).
        all: try (match goal with |- context[zget (active t) ?j] => replace j with i by zl end; rewrite G; reflexivity).
  - apply zget_none_range in G. pw_finish. all: try (rewrite zget_beyond by zl; reflexivity).
Qed.

Lemma sim_ed x : pv_ok x ->
  exists t', ed t (clamp_ps x) = TOk t' /\ Inv w h t' /\ abs t' = erase_display (abs t) x.
Proof.
  intros Hx. split_pv x Hx.
  - destruct (Z.eq_dec x 0) as [->|N0]; [apply sim_ed0|].
    destruct (Z.eq_dec x 1) as [->|N1]; [apply sim_ed1|].
    destruct (Z.eq_dec x 2) as [->|N2].
    + destruct (ed2_sim t HI) as [t' [E [I A]]]. exists t'; split; [exact E|]; split; [exact I|].
      rewrite A. unfold erase_display. change (2 =? 0) with false; change (2 =? 1) with false; change (2 =? 2) with true; cbv iota.
      rewrite (abs_rows w h t HI). unfold set_pos, set_grid; cbn. rewrite Hlast. reflexivity.
    + unfold ed, erase_display; cbv zeta.
      assert (x =? 0 = false) as -> by lia. assert (x =? 1 = false) as -> by lia. assert (x =? 2 = false) as -> by lia.
      exists t; split; [reflexivity|]; split; [assumption|reflexivity].
  - unfold ed, erase_display; cbv zeta.
    change (65535 =? 0) with false; change (65535 =? 1) with false; change (65535 =? 2) with false; cbv iota.
    assert (x =? 0 = false) as -> by lia. assert (x =? 1 = false) as -> by lia. assert (x =? 2 = false) as -> by lia.
    exists t; split; [reflexivity|]; split; [assumption|reflexivity].
Qed.


(* entering / leaving the alternate screen *)
Lemma sim_alt_on : exists t', decset1 t 1049 = TOk t' /\ Inv w h t' /\ abs t' = alt_on (abs t).
Proof.
  destruct (sim_decsc w h t HI) as [I1 A1].
  pose proof HI as [? Hw Hh Hirm Hlnm Hawm Halt [Hss Hdes] Hsp Hsa].
  unfold decset1; cbv zeta.
  change (1049 =? 6) with false; change (1049 =? 7) with false; change (1049 =? 25) with false;
    change (1049 =? 1049) with true; cbv iota.
  change (m_smcup (t_md (set_onalt (decsc t) true))) with (m_smcup (t_md (decsc t))).
  assert (Hsm : t_md (decsc t) = t_md t) by (unfold decsc; destruct (m_smcup (t_md t)); reflexivity).
  rewrite Hsm, Halt. unfold alt_on. rewrite <- A1.
  destruct (t_onalt t) eqn:Eo.
  - (* already there: only the cursor is saved *)
    cbn [tbind].
    assert (Hh1 : v_hidden (abs (decsc t)) = Some (abs_grid (t_prim t))).
    { unfold abs; cbn. unfold decsc. rewrite Halt; cbn. rewrite Eo. reflexivity. }
    rewrite Hh1.
    eexists; split; [reflexivity|]. split.
    + destruct I1 as [W1 Hw1 Hh1' Hirm1 Hlnm1 Hawm1 Ha1 Hcs1 Hsp1 Hsa1].
      constructor; cbn [t_md t_cs t_svp t_sva t_onalt set_md set_onalt set_grids m_irm m_lnm m_awm m_smcup md_smcup];
        try assumption; try reflexivity.
      apply WFs_set_md, WFs_set_onalt, W1.
    + unfold decsc. rewrite Halt. unfold abs, height, width, active; cbn. rewrite Eo. reflexivity.
  - (* switch and clear *)
    assert (W1 : WFs0 0 w h (set_onalt (decsc t) true)) by (apply WFs_set_onalt, I1).
    destruct (ed2_core (set_onalt (decsc t) true) W1) as [g' [E [Hg' Ag]]].
    rewrite E; cbn [tbind].
    assert (Hh1 : v_hidden (abs (decsc t)) = None).
    { unfold abs; cbn. unfold decsc. rewrite Halt; cbn. rewrite Eo. reflexivity. }
    rewrite Hh1.
    eexists; split; [reflexivity|]. split.
    + assert (Hd : decsc t = set_svp t (save_of t)) by (unfold decsc; rewrite Halt; reflexivity).
      rewrite Hd.
      assert (Hf : forall b g, t_md (set_active (set_last (set_onalt (set_svp t (save_of t)) true) b) g) = t_md t
                     /\ t_cs (set_active (set_last (set_onalt (set_svp t (save_of t)) true) b) g) = t_cs t
                     /\ t_svp (set_active (set_last (set_onalt (set_svp t (save_of t)) true) b) g) = save_of t
                     /\ t_sva (set_active (set_last (set_onalt (set_svp t (save_of t)) true) b) g) = t_sva t
                     /\ t_onalt (set_active (set_last (set_onalt (set_svp t (save_of t)) true) b) g) = true)
        by (intros; unfold set_active; cbn; repeat split).
      destruct (Hf false g') as (F1 & F2 & F3 & F4 & F5).
      constructor; cbn [t_md t_cs t_svp t_sva t_onalt set_md m_irm m_lnm m_awm m_smcup md_smcup];
        rewrite ?F1, ?F2, ?F3, ?F4, ?F5; try assumption; try reflexivity.
      * apply WFs_set_md, WFs_set_active; [apply WFs_set_last | exact Hg']. rewrite <- Hd. exact W1.
      * split; assumption.
      * split; [exact Hawm | split; [reflexivity | exact Hdes]].
    + unfold blank_line, blanks.
      assert (Hh2 : zlen g' = h) by apply Hg'.
      assert (Hw2 : match g' with [] => 0 | r :: _ => zlen r end = w).
      { destruct Hg' as [Hl HF]. destruct g' as [|r g']; [rewrite zlen_nil in Hl; lia|].
        inversion HF as [|? ? Hr]; subst; apply Hr. }
      assert (Hd : decsc t = set_svp t (save_of t)) by (unfold decsc; rewrite Halt; reflexivity).
      rewrite Hd. rewrite Hd in Ag.
      remember (set_md (set_active (set_last (set_onalt (set_svp t (save_of t)) true) false) g')
                       (md_smcup (t_md (set_active (set_last (set_onalt (set_svp t (save_of t)) true) false) g')) true)) as T eqn:HT.
      assert (P1 : active T = g') by (subst T; unfold set_active, active; cbn; reflexivity).
      assert (P2 : t_onalt T = true) by (subst T; unfold set_active; cbn; reflexivity).
      assert (P3 : t_prim T = t_prim t) by (subst T; unfold set_active; cbn; reflexivity).
      assert (P4 : t_row T = t_row t /\ t_col T = t_col t /\ t_last T = false /\ t_pen T = t_pen t
                   /\ t_top T = t_top t /\ t_bot T = t_bot t /\ t_svp T = save_of t /\ t_sva T = t_sva t)
        by (subst T; unfold set_active; cbn; repeat split).
      clear HT.
      destruct P4 as (Q1 & Q2 & Q3 & Q4 & Q5 & Q6 & Q7 & Q8).
      unfold abs at 1. unfold height, width. rewrite P1, P2, P3, Q1, Q2, Q3, Q4, Q5, Q6, Q7, Q8, Hh2, Hw2, Ag.
      destruct (WFs_active _ _ _ _ HW) as [Hl0 HF0]. unfold active in Hl0, HF0. rewrite Eo in Hl0, HF0.
      assert (Hw0 : match t_prim t with [] => 0 | r :: _ => zlen r end = w).
      { destruct (t_prim t) as [|r g0]; [rewrite zlen_nil in Hl0; lia|]. inversion HF0 as [|? ? Hr]; subst; apply Hr. }
      unfold abs, height, width, active; cbn. rewrite Eo, Hl0, Hw0, Hlast. reflexivity.
Qed.


Lemma sim_alt_off : exists t', decrst1 t 1049 = TOk t' /\ Inv w h t' /\ abs t' = alt_off (abs t).
Proof.
  pose proof HI as [? Hw Hh Hirm Hlnm Hawm Halt [Hss Hdes] Hsp Hsa].
  unfold decrst1; cbv zeta.
  change (1049 =? 6) with false; change (1049 =? 7) with false; change (1049 =? 25) with false;
    change (1049 =? 1049) with true; cbv iota.
  rewrite Halt. unfold alt_off.
  destruct (t_onalt t) eqn:Eo.
  - (* leave the alternate screen: it is cleared, the normal screen and its cursor come back *)
    destruct (ed2_core t HW) as [g' [E [Hg' Ag]]].
    rewrite E; cbn [tbind].
    remember (set_md (set_onalt (set_active (set_last t false) g') false)
                     (md_smcup (t_md (set_onalt (set_active (set_last t false) g') false)) false)) as T eqn:HT.
    assert (IT : Inv w h T).
    { subst T. constructor; try assumption.
      - apply WFs_set_md, WFs_set_onalt, WFs_set_active; [now apply WFs_set_last | exact Hg'].
      - cbn [t_md set_md set_onalt set_grids m_irm md_smcup]. rewrite t_md_set_active. exact Hirm.
      - cbn [t_md set_md set_onalt set_grids m_lnm md_smcup]. rewrite t_md_set_active. exact Hlnm.
      - cbn [t_md set_md set_onalt set_grids m_awm md_smcup]. rewrite t_md_set_active. exact Hawm.
      - reflexivity.
      - cbn [t_cs set_md set_onalt set_grids]. rewrite t_cs_set_active. split; assumption.
      - cbn [t_svp set_md set_onalt set_grids]. rewrite t_svp_set_active. exact Hsp.
      - cbn [t_sva set_md set_onalt set_grids]. rewrite t_sva_set_active. exact Hsa. }
    assert (AT : abs T = match v_hidden (abs t) with
                         | Some g => mkVt (v_rows (abs t)) (v_cols (abs t)) g None (v_row (abs t)) (v_col (abs t))
                                          (v_pending (abs t)) (v_pen (abs t)) (v_top (abs t)) (v_bot (abs t))
                                          (v_saved_n (abs t)) (v_saved_a (abs t))
                         | None => abs t
                         end).
    { subst T. unfold abs, height, width, active, set_active; cbn. rewrite Eo; cbn.
      destruct HW as [? ? [Hlp HFp] [Hla HFa] ? ? ? ? ? ? ? ? ? ? ?].
      assert (Hwp : match t_prim t with [] => 0 | r :: _ => zlen r end = w).
      { destruct (t_prim t) as [|r g0]; [rewrite zlen_nil in Hlp; lia|]. inversion HFp as [|? ? Hr]; subst; apply Hr. }
      assert (Hwa : match t_alt t with [] => 0 | r :: _ => zlen r end = w).
      { destruct (t_alt t) as [|r g0]; [rewrite zlen_nil in Hla; lia|]. inversion HFa as [|? ? Hr]; subst; apply Hr. }
      rewrite Hlp, Hla, Hwp, Hwa, Hlast. reflexivity. }
    destruct (sim_decrc w h T IT) as [I2 A2].
    exists (decrc T); split; [reflexivity|]; split; [exact I2|]. rewrite A2, AT. reflexivity.
  - (* not on the alternate screen: only the cursor is restored *)
    cbn [tbind].
    remember (set_md (set_onalt t false) (md_smcup (t_md (set_onalt t false)) false)) as T eqn:HT.
    assert (ET : T = t).
    { subst T. destruct t; cbn in *. subst. destruct t_md; cbn in *. subst. reflexivity. }
    rewrite ET. destruct (sim_decrc w h t HI) as [I2 A2].
    exists (decrc t); split; [reflexivity|]; split; [exact I2|]. rewrite A2.
    assert (v_hidden (abs t) = None) as -> by (unfold abs; cbn; rewrite Eo; reflexivity). reflexivity.
Qed.


(* the count of ICH / DCH / ECH against the clamp of ps() *)
Lemma count_cases x : pv_ok x ->
  let ps := dflt1 (clamp_ps x) in
  let k := Z.min (dflt x) (w - t_col t) in
  1 <= ps /\ 1 <= k <= w - t_col t /\ (ps = k \/ (w - t_col t <= ps /\ k = w - t_col t)).
Proof.
  intros Hx; cbv zeta. destruct HI as [[] ? ?]. unfold dflt1, dflt. unfold pv_ok in Hx.
  split_pv x Hx; repeat case_if; lia.
Qed.

Lemma sim_dch x : pv_ok x ->
  exists t', dch t (clamp_ps x) = TOk t' /\ Inv w h t' /\ abs t' = delete_chars (abs t) (dflt x).
Proof.
  intros Hx. destruct (count_cases x Hx) as (Hps & Hk & Hpk).
  set (ps := dflt1 (clamp_ps x)) in *. set (k := Z.min (dflt x) (w - t_col t)) in *.
  destruct (cur_row w h t HI) as [line [Hg [Hl HFl]]].
  unfold dch; cbv zeta. rewrite (set_last_id t Hlast). fold ps.
  destruct HW as [? ? ? ? Hrow Hcol ? ? ? Hleft Hright ? ? ? ?].
  destruct (t_right t <? t_col t) eqn:G0; [lia|].
  match goal with |- context[on_row t (t_row t) ?f0] => set (f := f0) end.
  assert (Hf : exists line', f line = Some line' /\ row_ok w line').
  { unfold f. destruct ((t_col t <? 0) || (zlen line <=? t_right t)) eqn:G1; [lia|].
    apply (line_loop_ok _ line w); [split; assumption|]. intros i c Hi Hc. repeat case_if; eauto.
    - eexists; split; [reflexivity|]; unfold cell_ok; simpl; lia.
    - apply (zget_cell_ok w); [split; assumption | lia]. }
  destruct Hf as [line' [Hf Hl']].
  rewrite (on_row_eval 0 w h t (t_row t) f line line' (Inv_WF w h t HI) Hrow Hg Hf).
  eexists; split; [reflexivity|]. split.
  { apply Inv_set_active; auto. destruct (WFs_active _ _ _ _ (Inv_WF w h t HI)) as [Hlen HF]. split.
    - rewrite zlen_upd_nat; assumption.
    - now apply upd_nat_Forall. }
  rewrite (abs_row_op w h t line line' HI Hg Hl').
  unfold delete_chars. rewrite (cur_line_abs w h t line HI Hg), (abs_cols w h t HI).
  change (v_col (abs t)) with (t_col t). fold k. f_equal.
  unfold f in Hf. destruct ((t_col t <? 0) || (zlen line <=? t_right t)) eqn:G1; [lia|].
  apply list_ext_all; intros i. unfold abs_line at 1. rewrite zget_map, (mapi_opt_zget _ _ _ _ Hf i).
  unfold blanks. change (v_pen (abs t)) with (t_pen t).
  autorewrite with zg. rewrite !zlen_abs_line. unfold abs_line. rewrite ?zget_map.
  destruct (Z_lt_dec i 0); [rewrite !zget_neg by lia; pw_finish|].
  destruct (zget line i) as [c|] eqn:G.
  - pose proof (zget_some_range _ _ _ G) as Hi. replace (0 + i) with i by lia.
    destruct ((t_col t <=? i) && (i <=? t_right t)) eqn:C1.
    + destruct (i + ps >? t_right t) eqn:C2.
      * cbn [option_map]. rewrite abs_cell_erase. pw_finish.
      * pw_finish.
    + cbn [option_map]. pw_finish. all: try (rewrite G; reflexivity).
  - apply zget_none_range in G. pw_finish. all: try (rewrite zget_beyond by lia; reflexivity).
Qed.


Lemma sim_ich x : pv_ok x ->
  exists t', ich t (clamp_ps x) = TOk t' /\ Inv w h t' /\ abs t' = insert_chars (abs t) (dflt x).
Proof.
  intros Hx. destruct (count_cases x Hx) as (Hps & Hk & Hpk).
  set (ps := dflt1 (clamp_ps x)) in *. set (k := Z.min (dflt x) (w - t_col t)) in *.
  destruct (cur_row w h t HI) as [line [Hg [Hl HFl]]].
  unfold ich; cbv zeta. fold ps.
  pose proof HW as [? ? ? ? Hrow Hcol ? ? ? Hleft Hright ? ? ? ?].
  match goal with |- context[on_row t (t_row t) ?f0] => set (f := f0) end.
  assert (Hf : exists line1, f line = Some line1 /\ row_ok w line1).
  { unfold f. case_if; [lia|].
    apply (line_loop_ok _ line w); [split; assumption|]. intros i c Hi Hc. case_if; eauto.
    apply (zget_cell_ok w); [split; assumption | lia]. }
  destruct Hf as [line1 [Hf [Hl1 HF1]]].
  rewrite (on_row_eval 0 w h t (t_row t) f line line1 HW Hrow Hg Hf). cbn [tbind].
  set (t1 := set_active t (upd_nat (active t) (Z.to_nat (t_row t)) line1)).
  assert (Hg1 : grid_ok w h (upd_nat (active t) (Z.to_nat (t_row t)) line1)).
  { destruct (WFs_active _ _ _ _ HW) as [Hlen HF]. split; [rewrite zlen_upd_nat; assumption|].
    apply upd_nat_Forall; [assumption | split; assumption]. }
  assert (I1 : Inv w h t1) by (apply Inv_set_active; assumption).
  assert (Hr1 : t_row t1 = t_row t) by apply t_row_set_active.
  assert (Ha1 : active t1 = upd_nat (active t) (Z.to_nat (t_row t)) line1) by apply active_set_active.
  assert (Hz1 : zget (active t1) (t_row t1) = Some line1).
  { rewrite Ha1, Hr1, zget_upd_nat by (destruct (WFs_active _ _ _ _ HW); zl).
    assert ((t_row t =? t_row t) = true) as -> by lia. reflexivity. }
  rewrite (Inv_width w h t1 I1).
  assert (Hhi : Z.min (t_col t + ps) w = t_col t + k) by lia. rewrite Hhi.
  set (line2 := map_range (fun _ : tcell => blank_cell (pen_bg t1)) (t_col t) (t_col t + k) line1).
  assert (Hf2 : upd_range (fun _ : tcell => blank_cell (pen_bg t1)) (t_col t) (t_col t + k) line1 = Some line2).
  { unfold upd_range. destruct (t_col t <? t_col t + k) eqn:E; [|lia].
    destruct ((t_col t <? 0) || (zlen line1 <? t_col t + k)) eqn:E2; [lia|]. reflexivity. }
  rewrite (on_row_eval 0 w h t1 (t_row t1) _ line1 line2 (Inv_WF w h t1 I1) ltac:(lia) Hz1 Hf2).
  assert (Hl2 : row_ok w line2).
  { split; [unfold line2; rewrite map_range_length; lia|].
    apply map_range_Forall; auto. intros c _; unfold cell_ok; simpl; lia. }
  unfold t1 at 1. rewrite set_active_twice, Ha1, Hr1, upd_nat_twice.
  eexists; split; [reflexivity|]. split.
  { apply Inv_set_active; auto. destruct (WFs_active _ _ _ _ HW) as [Hlen HF]. split.
    - rewrite zlen_upd_nat; assumption.
    - now apply upd_nat_Forall. }
  rewrite (abs_row_op w h t line line2 HI Hg Hl2).
  unfold insert_chars. rewrite (cur_line_abs w h t line HI Hg), (abs_cols w h t HI).
  change (v_col (abs t)) with (t_col t). fold k. f_equal.
  unfold f in Hf. destruct ((t_col t <? t_right t) && (ps <=? t_right t) && (zlen line <=? t_right t)) eqn:G1; [lia|].
  apply list_ext_all; intros i. unfold abs_line at 1, line2. rewrite zget_map, zget_map_range_const by lia.
  rewrite (mapi_opt_zget _ _ _ _ Hf i).
  unfold blanks. change (v_pen (abs t)) with (t_pen t).
  assert (Hpb : pen_bg t1 = bg (spen (t_pen t))) by (unfold pen_bg, t1; rewrite t_pen_set_active; reflexivity).
  rewrite Hpb.
  autorewrite with zg. rewrite !zlen_abs_line. unfold abs_line. rewrite ?zget_map.
  destruct (Z_lt_dec i 0); [rewrite !zget_neg by lia; pw_finish|].
  destruct ((t_col t <=? i) && (i <? t_col t + k)) eqn:C0.
  - cbn [option_map]. rewrite abs_cell_blank. pw_finish.
  - destruct (zget line i) as [c|] eqn:G.
    + pose proof (zget_some_range _ _ _ G) as Hi. replace (0 + i) with i by lia.
      destruct ((t_col t <? i) && (i <=? t_right t) && (0 <=? i - ps)) eqn:C1.
      * pw_finish.
      * cbn [option_map]. pw_finish. all: try (rewrite G; reflexivity).
    + apply zget_none_range in G. pw_finish. all: try (rewrite zget_beyond by lia; reflexivity).
Qed.

End Grid3.
