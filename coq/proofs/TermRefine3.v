(* C06 - simulation lemmas, part 3: erase in display, scroll up/down with parameters,
   delete/insert characters, printing. *)
From Vx Require Import base.Prelude base.ListX model.Colour model.Sgr model.Term model.TermCheck
  model.VtSpec model.TermAbs proofs.SgrProofs proofs.TermProofs proofs.TermRefine proofs.TermRefine2.
Require Import ZifyBool Lia.

Local Open Scope Z_scope.

#[local] Hint Rewrite @zget_app_if @zget_map @zget_zfirstn @zget_zskipn' @zget_zrepeat @zget_single
  @zlen_app @zlen_map @zlen_zfirstn @zlen_zskipn @zlen_zrepeat @zlen_single : zg.

Section Grid3.
Variables (w h : Z) (t : term).
Hypothesis HI : Inv w h t.
Hypothesis Hlast : t_last t = false.
Let HW := Inv_WF w h t HI.

Lemma sim_su x : pv_ok x ->
  exists t', scroll_up t (dflt1 (clamp_ps x)) = TOk t' /\ Inv w h t' /\ abs t' = scroll_up_n (abs t) (dflt x).
Proof.
  intros Hx. pose proof (clamp_ps_range x) as Hc.
  destruct (scroll_up_sim w h t HI (dflt1 (clamp_ps x))) as [t' [E [I A]]]; [unfold dflt1; case_if; lia|].
  exists t'; split; [exact E|]; split; [exact I|]. rewrite A. unfold scroll_up_n.
  change (v_top (abs t)) with (t_top t). change (v_bot (abs t)) with (t_bot t).
  f_equal. f_equal. destruct HI as [[] ? ?]. unfold dflt1, dflt. split_pv x Hx; repeat case_if; lia.
Qed.

Lemma sim_sd x : pv_ok x ->
  exists t', scroll_down t (dflt1 (clamp_ps x)) = TOk t' /\ Inv w h t' /\ abs t' = scroll_down_n (abs t) (dflt x).
Proof.
  intros Hx. pose proof (clamp_ps_range x) as Hc.
  destruct (scroll_down_sim w h t HI (dflt1 (clamp_ps x))) as [t' [E [I A]]]; [unfold dflt1; case_if; lia|].
  exists t'; split; [exact E|]; split; [exact I|]. rewrite A. unfold scroll_down_n.
  change (v_top (abs t)) with (t_top t). change (v_bot (abs t)) with (t_bot t).
  f_equal. f_equal. destruct HI as [[] ? ?]. unfold dflt1, dflt. split_pv x Hx; repeat case_if; lia.
Qed.

(* erase in display, in the reference terminal's terms; [ed] does not need the wrap flag
   to be clear for ps = 2 (used by the alternate screen switch) *)
Lemma ed2_sim (t0 : term) : Inv w h t0 ->
  exists t', ed t0 2 = TOk t' /\ Inv w h t' /\
    abs t' = set_pos (set_grid (abs t0) (zrepeat (blank_line (abs t0)) h)) (t_row t0) (t_col t0) false.
Proof.
  intros HI0. pose proof (Inv_WF w h t0 HI0) as HW0.
  destruct (WFs_active _ _ _ _ HW0) as [Hlen HF].
  unfold ed; cbv zeta.
  change (2 =? 0) with false; change (2 =? 1) with false; change (2 =? 2) with true; cbv iota.
  change (active (set_last t0 false)) with (active t0).
  rewrite (Inv_width w h t0 HI0).
  match goal with |- context[mapi_opt ?f 0 (active t0)] =>
    destruct (grid_loop_ok 0 w h t0 f HW0) as [g' [Hm Hg']] end.
  { intros r line Hrr Hl. destruct HW0. apply erase_cells_ok; auto; lia. }
  match goal with |- context[of_opt ?m] => replace m with (Some g') by (symmetry; exact Hm) end.
  cbn [of_opt tbind].
  pose proof (Inv_set_last w h t0 false HI0) as HI1.
  eexists; split; [reflexivity|]. split; [now apply Inv_set_active|].
  rewrite (abs_set_active w h (set_last t0 false) g' HI1 Hg').
  assert (Ea : abs (set_last t0 false) = set_pos (abs t0) (t_row t0) (t_col t0) false) by (apply abs_move; reflexivity).
  rewrite Ea. unfold set_grid, set_pos; cbn. f_equal.
  apply list_ext_all; intros i.
  pose proof (mapi_opt_zget _ _ _ _ Hm i) as Hz.
  unfold abs_grid at 1. rewrite zget_map. unfold trow, grid in *. rewrite Hz. clear Hz.
  unfold blank_line, blanks. cbn. rewrite (Inv_width w h t0 HI0).
  autorewrite with zg.
  destruct (Z_lt_dec i 0); [rewrite !zget_neg by lia; pw_finish|].
  destruct (@zget (list tcell) (active t0) i) as [line|] eqn:G.
  - pose proof (zget_some_range _ _ _ G) as Hi.
    assert (Hline : row_ok w line) by (rewrite Forall_forall in HF; apply HF; eapply zget_In; eauto).
    destruct Hline as [Hl HFl].
    assert (Ee : erase_cells (pen_bg t0) 0 w line = Some (map_range (erase_cell (pen_bg t0)) 0 w line)).
    { unfold erase_cells, upd_range. destruct HW0. destruct (0 <? w) eqn:E; [|lia].
      destruct ((0 <? 0) || (zlen line <? w)) eqn:E2; [lia|]. reflexivity. }
    rewrite Ee. cbn [option_map].
    change (map abs_cell (map_range (erase_cell (pen_bg t0)) 0 w line))
      with (abs_line (map_range (erase_cell (pen_bg t0)) 0 w line)).
    rewrite (abs_line_erase_all _ line w Hl). pw_finish.
  - apply zget_none_range in G. pw_finish.
Qed.


Lemma erase_cells_some bgc lo hi (line : trow) :
  0 <= lo -> lo <= hi -> hi <= zlen line ->
  erase_cells bgc lo hi line = Some (map_range (erase_cell bgc) lo hi line) \/
  (lo = hi /\ erase_cells bgc lo hi line = Some line).
Proof.
  intros H1 H2 H3. unfold erase_cells, upd_range. destruct (lo <? hi) eqn:E.
  - left. destruct ((lo <? 0) || (zlen line <? hi)) eqn:E2; [lia|]. reflexivity.
  - right. split; [lia|reflexivity].
Qed.

Lemma abs_line_erase' bgc lo hi (l l' : trow) :
  0 <= lo -> lo <= hi -> hi <= zlen l -> erase_cells bgc lo hi l = Some l' ->
  abs_line l' = zfirstn lo (abs_line l) ++ zrepeat (Blank bgc) (hi - lo) ++ zskipn hi (abs_line l).
Proof.
  intros H1 H2 H3 E. destruct (erase_cells_some bgc lo hi l H1 H2 H3) as [E1|[E0 E1]]; rewrite E1 in E; inversion E; subst.
  - now apply abs_line_erase.
  - replace (hi - hi) with 0 by lia. cbn [zrepeat Z.to_nat repeat app]. now rewrite zfirstn_zskipn.
Qed.

Lemma sim_ed0 : exists t', ed t 0 = TOk t' /\ Inv w h t' /\ abs t' = erase_display (abs t) 0.
Proof.
  destruct (WFs_active _ _ _ _ HW) as [Hlen HF].
  destruct (cur_row w h t HI) as [cl [Hcl [Hcll Hclf]]].
  unfold ed; cbv zeta. change (0 =? 0) with true; cbv iota.
  rewrite (set_last_id t Hlast). rewrite (Inv_width w h t HI).
  destruct ((t_row t <? 0) && ((t_row t <? -1) && (0 <? w) || (Z.max 0 (t_col t) <? w))) eqn:G0; [destruct HW; lia|].
  match goal with |- context[mapi_opt ?f 0 (active t)] =>
    destruct (grid_loop_ok 0 w h t f HW) as [g' [Hm Hg']] end.
  { intros r line Hrr Hl. destruct HW. repeat case_if; eauto; apply erase_cells_ok; auto; lia. }
  match goal with |- context[of_opt ?m] => replace m with (Some g') by (symmetry; exact Hm) end.
  cbn [of_opt tbind].
  eexists; split; [reflexivity|]. split; [now apply Inv_set_active|].
  rewrite (abs_set_active w h t g' HI Hg').
  unfold erase_display. change (0 =? 0) with true; cbv iota. f_equal.
  rewrite (cur_line_abs w h t cl HI Hcl).
  change (v_row (abs t)) with (t_row t). change (v_col (abs t)) with (t_col t).
  rewrite (abs_rows w h t HI), (abs_cols w h t HI).
  apply list_ext_all; intros i.
  change (v_grid (abs t)) with (abs_grid (active t)).
  pose proof (mapi_opt_zget _ _ _ _ Hm i) as Hz.
  unfold abs_grid at 1. rewrite zget_map. unfold trow, grid in *. rewrite Hz. clear Hz.
  unfold blank_line, blanks. rewrite (abs_cols w h t HI). change (v_pen (abs t)) with (t_pen t).
  autorewrite with zg. rewrite ?(abs_grid_len w h t HI). unfold abs_grid. rewrite ?zget_map.
  destruct HW as [? ? ? ? Hrow Hcol ? ? ? ? ? ? ? ? ?].
  destruct (Z_lt_dec i 0); [rewrite !zget_neg by lia; pw_finish|].
  destruct (@zget (list tcell) (active t) i) as [line|] eqn:G.
  - pose proof (zget_some_range _ _ _ G) as Hi.
    assert (Hline : row_ok w line) by (rewrite Forall_forall in HF; apply HF; eapply zget_In; eauto).
    destruct Hline as [Hl HFl]. replace (0 + i) with i by lia.
    destruct (i <? t_row t) eqn:C1.
    + cbn [option_map]. pw_finish. all: try (rewrite G; reflexivity).
    + destruct (i =? t_row t) eqn:C2.
      * assert (i = t_row t) by lia; subst i. rewrite Hcl in G; inversion G; subst line.
        destruct (erase_cells (pen_bg t) (Z.max 0 (t_col t)) w cl) as [l'|] eqn:Ee.
        2:{ destruct (erase_cells_ok (pen_bg t) (Z.max 0 (t_col t)) w cl w) as [l' [E' _]]; [split; auto | lia | congruence]. }
        cbn [option_map].
        change (map abs_cell l') with (abs_line l').
        rewrite (abs_line_erase' (pen_bg t) (Z.max 0 (t_col t)) w cl l' ltac:(lia) ltac:(lia) ltac:(zl) Ee).
        replace (Z.max 0 (t_col t)) with (t_col t) by lia.
        rewrite (zskipn_all (abs_line cl) w) by (rewrite zlen_abs_line; lia). rewrite app_nil_r.
        pw_finish.
      * destruct (erase_cells (pen_bg t) 0 w line) as [l'|] eqn:Ee.
        2:{ destruct (erase_cells_ok (pen_bg t) 0 w line w) as [l' [E' _]]; [split; auto | lia | congruence]. }
        cbn [option_map]. change (map abs_cell l') with (abs_line l').
        rewrite (abs_line_erase' (pen_bg t) 0 w line l' ltac:(lia) ltac:(lia) ltac:(zl) Ee).
        rewrite (zskipn_all (abs_line line) w) by (rewrite zlen_abs_line; lia). rewrite app_nil_r.
        replace (w - 0) with w by lia. cbn [zfirstn Z.to_nat firstn app].
        pw_finish.
  - apply zget_none_range in G. pw_finish.
Qed.


Lemma sim_ed1 : exists t', ed t 1 = TOk t' /\ Inv w h t' /\ abs t' = erase_display (abs t) 1.
Proof.
  destruct (WFs_active _ _ _ _ HW) as [Hlen HF].
  destruct (cur_row w h t HI) as [cl [Hcl [Hcll Hclf]]].
  unfold ed; cbv zeta. change (1 =? 0) with false; change (1 =? 1) with true; cbv iota.
  rewrite (set_last_id t Hlast). rewrite (Inv_width w h t HI), (Inv_height w h t HI).
  destruct ((h <? t_row t) && (0 <? w) || (h <=? t_row t) && (0 <? Z.min (t_col t + 1) w)) eqn:G0; [destruct HW; lia|].
  match goal with |- context[mapi_opt ?f 0 (active t)] =>
    destruct (grid_loop_ok 0 w h t f HW) as [g' [Hm Hg']] end.
  { intros r line Hrr Hl. destruct HW. repeat case_if; eauto; apply erase_cells_ok; auto; lia. }
  match goal with |- context[of_opt ?m] => replace m with (Some g') by (symmetry; exact Hm) end.
  cbn [of_opt tbind].
  eexists; split; [reflexivity|]. split; [now apply Inv_set_active|].
  rewrite (abs_set_active w h t g' HI Hg').
  unfold erase_display. change (1 =? 0) with false; change (1 =? 1) with true; cbv iota. f_equal.
  rewrite (cur_line_abs w h t cl HI Hcl).
  change (v_row (abs t)) with (t_row t). change (v_col (abs t)) with (t_col t).
  apply list_ext_all; intros i.
  change (v_grid (abs t)) with (abs_grid (active t)).
  pose proof (mapi_opt_zget _ _ _ _ Hm i) as Hz.
  unfold abs_grid at 1. rewrite zget_map. unfold trow, grid in *. rewrite Hz. clear Hz.
  unfold blank_line, blanks. rewrite (abs_cols w h t HI). change (v_pen (abs t)) with (t_pen t).
  autorewrite with zg. rewrite ?(abs_grid_len w h t HI). unfold abs_grid. rewrite ?zget_map.
  destruct HW as [? ? ? ? Hrow Hcol ? ? ? ? ? ? ? ? ?].
  destruct (Z_lt_dec i 0); [rewrite !zget_neg by lia; pw_finish|].
  destruct (@zget (list tcell) (active t) i) as [line|] eqn:G.
  - pose proof (zget_some_range _ _ _ G) as Hi.
    assert (Hline : row_ok w line) by (rewrite Forall_forall in HF; apply HF; eapply zget_In; eauto).
    destruct Hline as [Hl HFl]. replace (0 + i) with i by lia.
    destruct (i <? t_row t) eqn:C1.
    + destruct (erase_cells (pen_bg t) 0 w line) as [l'|] eqn:Ee.
      2:{ destruct (erase_cells_ok (pen_bg t) 0 w line w) as [l' [E' _]]; [split; auto | lia | congruence]. }
      cbn [option_map]. change (map abs_cell l') with (abs_line l').
      rewrite (abs_line_erase' (pen_bg t) 0 w line l' ltac:(lia) ltac:(lia) ltac:(zl) Ee).
      rewrite (zskipn_all (abs_line line) w) by (rewrite zlen_abs_line; lia). rewrite app_nil_r.
      replace (w - 0) with w by lia. cbn [zfirstn Z.to_nat firstn app].
      pw_finish.
    + destruct (i =? t_row t) eqn:C2.
      * assert (i = t_row t) by lia; subst i. rewrite Hcl in G; inversion G; subst line.
        destruct (erase_cells (pen_bg t) 0 (Z.min (t_col t + 1) w) cl) as [l'|] eqn:Ee.
        2:{ destruct (erase_cells_ok (pen_bg t) 0 (Z.min (t_col t + 1) w) cl w) as [l' [E' _]]; [split; auto | lia | congruence]. }
        cbn [option_map].
        change (map abs_cell l') with (abs_line l').
        rewrite (abs_line_erase' (pen_bg t) 0 (Z.min (t_col t + 1) w) cl l' ltac:(lia) ltac:(lia) ltac:(zl) Ee).
        replace (Z.min (t_col t + 1) w) with (t_col t + 1) by lia.
        replace (t_col t + 1 - 0) with (t_col t + 1) by lia. cbn [zfirstn Z.to_nat firstn app].
        pw_finish.
      * cbn [option_map]. pw_finish. all: try (rewrite G; reflexivity).
        all: try (match goal with |- context[zget (active t) ?j] => replace j with i by zl end; rewrite G; reflexivity).
  - apply zget_none_range in G. pw_finish. all: try (rewrite zget_beyond by zl; reflexivity).
Qed.

Lemma sim_ed x : pv_ok x ->
  exists t', ed t (clamp_ps x) = TOk t' /\ Inv w h t' /\ abs t' = erase_display (abs t) x.
Proof.
  intros Hx. split_pv x Hx.
  - destruct (Z.eq_dec x 0) as [->|N0]; [apply sim_ed0|].
    destruct (Z.eq_dec x 1) as [->|N1]; [apply sim_ed1|].
    destruct (Z.eq_dec x 2) as [->|N2].
    + destruct (ed2_sim t HI) as [t' [E [I A]]]. exists t'; split; [exact E|]; split; [exact I|].
      rewrite A. unfold erase_display. change (2 =? 0) with false; change (2 =? 1) with false; change (2 =? 2) with true; cbv iota.
      rewrite (abs_rows w h t HI). unfold set_pos, set_grid; cbn. rewrite Hlast. reflexivity.
    + unfold ed, erase_display; cbv zeta.
      assert (x =? 0 = false) as -> by lia. assert (x =? 1 = false) as -> by lia. assert (x =? 2 = false) as -> by lia.
      exists t; split; [reflexivity|]; split; [assumption|reflexivity].
  - unfold ed, erase_display; cbv zeta.
    change (65535 =? 0) with false; change (65535 =? 1) with false; change (65535 =? 2) with false; cbv iota.
    assert (x =? 0 = false) as -> by lia. assert (x =? 1 = false) as -> by lia. assert (x =? 2 = false) as -> by lia.
    exists t; split; [reflexivity|]; split; [assumption|reflexivity].
Qed.

End Grid3.
