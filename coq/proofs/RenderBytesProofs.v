(* The renderer's tokens survive the wire: serialised the way vaxis.go writes them and read by
   the parser model (= the VT500 reference, C02) from a clean ground state, they come back
   exactly, text rune by rune; the parser ends in a clean ground state again. *)
From Coq Require Import Lia ZifyBool.
From Vx Require Import base.Prelude base.ListX gen.GenModes model.ParserTypes gen.GenParser model.Parser
  model.Vt500Spec proofs.ParserTable proofs.ParserConform proofs.ParserSem
  model.RenderTypes model.RenderCheck model.RenderBytes proofs.RenderBytesDigits.

(* ground, no string pending, no string data left over *)
Definition clean (p : pst) : Prop := st p = Ground /\ exitf p = None /\ oscData p = [].

Lemma clean_init : clean pinit.
Proof. repeat split. Qed.

Definition esc_state (p : pst) : pst := set_st (set_timer (set_params (set_inter (set_timer p false) []) []) true) Escape.

Lemma esc_post_clean p : clean p -> esc_post p = (esc_state p, []).
Proof. intros [_ [He _]]. unfold esc_post, esc_state. rewrite He. reflexivity. Qed.

(* ---------- control sequences ---------- *)
Lemma feed_params_fr ps : forall p,
  csi_open p -> Forall (fun r => 48 <= r <= 59) ps ->
  exists p', feed p ps = (p', [], true) /\ params p' = params p ++ ps /\ inter p' = inter p /\
             exitf p' = exitf p /\ oscData p' = oscData p /\ csi_open p'.
Proof.
  induction ps as [|r ps IH]; intros p Ho Hr.
  - exists p. cbn. rewrite app_nil_r. repeat split; auto.
  - inversion Hr as [|? ? H1 H2]; subst. cbn [feed]. rewrite (step_param p r Ho H1).
    set (p1 := set_st (set_params (set_timer p false) (params p ++ [r])) CsiParam).
    destruct (IH p1 (or_intror eq_refl) H2) as [p' [Hf [Hp [Hi [He [Hd Hop]]]]]].
    exists p'. rewrite Hf. cbn.
    split; [reflexivity|]. split; [rewrite Hp; unfold p1; cbn; now rewrite <- app_assoc|].
    split; [rewrite Hi; reflexivity|]. split; [rewrite He; reflexivity|]. split; [rewrite Hd; reflexivity|exact Hop].
Qed.

Lemma feed_inters_fr is : forall p,
  csi_any p -> Forall (fun r => 32 <= r <= 47) is ->
  exists p', feed p is = (p', [], true) /\ inter p' = inter p ++ is /\ params p' = params p /\
             exitf p' = exitf p /\ oscData p' = oscData p /\ csi_any p'.
Proof.
  induction is as [|r is IH]; intros p Ha Hr.
  - exists p. cbn. rewrite app_nil_r. repeat split; auto.
  - inversion Hr as [|? ? H1 H2]; subst. cbn [feed]. rewrite (step_inter p r Ha H1).
    set (p1 := set_st (set_inter (set_timer p false) (inter p ++ [r])) CsiIntermediate).
    destruct (IH p1 (or_intror eq_refl) H2) as [p' [Hf [Hi [Hp [He [Hd Hany]]]]]].
    exists p'. rewrite Hf. cbn.
    split; [reflexivity|]. split; [rewrite Hi; unfold p1; cbn; now rewrite <- app_assoc|].
    split; [rewrite Hp; reflexivity|]. split; [rewrite He; reflexivity|]. split; [rewrite Hd; reflexivity|exact Hany].
Qed.

Definition csi_seq (priv ps is : list Z) (f : Z) : list Z := [27; 91] ++ priv ++ ps ++ is ++ [f].

Theorem csi_clean p priv ps is f :
  clean p ->
  (priv = [] \/ exists m, priv = [m] /\ 60 <= m <= 63) ->
  Forall (fun r => 48 <= r <= 59) ps -> Forall (fun r => 32 <= r <= 47) is -> 64 <= f <= 126 ->
  exists p', feed p (csi_seq priv ps is f) = (p', [ICsi (priv ++ is) (csi_decode ps) f], true) /\ clean p'.
Proof.
  intros Hc Hpriv Hps His Hf. unfold csi_seq.
  cbn [app feed]. rewrite step_esc, (esc_post_clean p Hc). cbn [fst snd].
  destruct Hc as [_ [Hex Hod]].
  set (pe := esc_state p).
  rewrite (step_bracket pe eq_refl).
  set (pb := set_st (set_ignoreST (set_params (set_inter (set_timer pe false) []) []) false) CsiEntry).
  assert (Hq : exists pq, feed pb priv = (pq, [], true) /\ csi_open pq /\ inter pq = priv /\ params pq = [] /\
                          exitf pq = None /\ oscData pq = []).
  { destruct Hpriv as [->|[m [-> Hm]]].
    - exists pb. cbn. repeat split; auto. now left.
    - cbn [feed]. rewrite (step_priv pb m eq_refl Hm). eexists. split; [reflexivity|].
      split; [now right|]. repeat split; assumption. }
  destruct Hq as [pq [Fq [Oq [Iq [Pq [Eq Dq]]]]]].
  rewrite feed_app, Fq.
  destruct (feed_params_fr ps pq Oq Hps) as [pp [Fp [Pp [Ip [Ep [Dp Opp]]]]]].
  rewrite feed_app, Fp.
  destruct (feed_inters_fr is pp (or_introl Opp) His) as [pi [Fi [Ii [Pi [Ei [Di Ai]]]]]].
  rewrite feed_app, Fi.
  cbn [feed]. rewrite (step_final pi f Ai Hf).
  eexists. split.
  { cbn. rewrite Ii, Ip, Iq, Pi, Pp, Pq. cbn [app]. reflexivity. }
  split; [reflexivity|]. split; cbn; [rewrite Ei, Ep; exact Eq|rewrite Di, Dp; exact Dq].
Qed.

(* ---------- strings ---------- *)
Definition osc_seq (pl : list Z) : list Z := [27; 93] ++ pl ++ [27; 92].

Theorem osc_clean p pl :
  clean p -> Forall (fun r => 32 <= r) pl -> pl <> [] ->
  exists p', feed p (osc_seq pl) = (p', [IOsc pl], true) /\ clean p'.
Proof.
  intros Hc Hpl Hne. unfold osc_seq. cbn [app feed]. rewrite step_esc, (esc_post_clean p Hc). cbn [fst snd].
  destruct Hc as [_ [Hex Hod]].
  set (pe := esc_state p).
  rewrite (step_osc_open pe eq_refl).
  set (po := set_st (set_ignoreST (set_exit (set_timer pe false) (Some ExOscEnd)) false) OscString).
  destruct (feed_osc_payload pl po eq_refl Hpl) as [pp [Fp [Sp [Dp [Ep Ip]]]]].
  rewrite feed_app, Fp. cbn [feed]. rewrite step_esc.
  destruct (esc_post_st pp) as [Hs2 _].
  assert (Hig : ignoreST (fst (esc_post pp)) = true).
  { unfold esc_post. rewrite Ep. unfold po; cbn. apply Ip. exact Hne. }
  rewrite (step_st_suppressed _ Hs2 Hig).
  eexists. split.
  { cbn. unfold esc_post. rewrite Ep. unfold po; cbn. rewrite Dp. unfold po; cbn. unfold pe, esc_state; cbn.
    rewrite Hod. reflexivity. }
  repeat split.
Qed.

(* ---------- text ---------- *)
Theorem text_clean rs : forall p,
  clean p -> Forall (fun r => 32 <= r) rs ->
  exists p', feed p rs = (p', map (fun r => IPrint [r]) rs, true) /\ clean p'.
Proof.
  induction rs as [|r rs IH]; intros p Hc Hr.
  - exists p. cbn. auto.
  - inversion Hr as [|? ? H1 H2]; subst. cbn [feed]. destruct Hc as [Hst [Hex Hod]].
    rewrite (step_print p r Hst H1).
    destruct (IH (set_st (set_timer p false) Ground)) as [p' [Hf Hc']]; [repeat split; assumption|exact H2|].
    exists p'. rewrite Hf. cbn. split; [reflexivity|exact Hc'].
Qed.

(* ---------- tokens ---------- *)
Definition pss_ok (pss : list (list Z)) : Prop := Forall (fun p => p <> []) pss /\ Forall (Forall small) pss.

Lemma csi_tok_clean p priv pss is f :
  clean p -> (priv = [] \/ exists m, priv = [m] /\ 60 <= m <= 63) -> pss_ok pss ->
  Forall (fun r => 32 <= r <= 47) is -> 64 <= f <= 126 ->
  exists p', feed p (csi_seq priv (pstr pss) is f) = (p', [ICsi (priv ++ is) pss f], true) /\ clean p'.
Proof.
  intros Hc Hp [Hn Hs] Hi Hf.
  destruct (csi_clean p priv (pstr pss) is f Hc Hp (pstr_chars pss Hs) Hi Hf) as [p' [F C]].
  exists p'. split; [|exact C]. rewrite F.
  destruct pss as [|q t]; [reflexivity|]. rewrite csi_decode_pstr; [reflexivity|discriminate|exact Hn|exact Hs].
Qed.

(* a token is read back: from any clean state, its serialisation is consumed entirely, delivers
   items that mean exactly the token (text rune by rune), and leaves a clean state *)
Definition reads (k : tok) : Prop :=
  forall p, clean p -> exists p' o, feed p (ser k) = (p', o, true) /\ clean p' /\ toks_of_items o = explode1 k.

Lemma reads_csi k priv pss is f :
  ser k = csi_seq priv (pstr pss) is f ->
  (priv = [] \/ exists m, priv = [m] /\ 60 <= m <= 63) -> pss_ok pss ->
  Forall (fun r => 32 <= r <= 47) is -> 64 <= f <= 126 ->
  csi_toks (priv ++ is) pss f = explode1 k -> reads k.
Proof.
  intros E Hp Hok Hi Hf Ht p Hc. rewrite E.
  destruct (csi_tok_clean p priv pss is f Hc Hp Hok Hi Hf) as [p' [F C]].
  exists p', [ICsi (priv ++ is) pss f]. split; [exact F|]. split; [exact C|].
  cbn [toks_of_items flat_map item_toks]. rewrite app_nil_r. exact Ht.
Qed.

Lemma reads_osc k pl :
  ser k = osc_seq pl -> Forall (fun r => 32 <= r) pl -> pl <> [] -> osc_toks pl = explode1 k -> reads k.
Proof.
  intros E Hpl Hne Ht p Hc. rewrite E.
  destruct (osc_clean p pl Hc Hpl Hne) as [p' [F C]].
  exists p', [IOsc pl]. split; [exact F|]. split; [exact C|].
  cbn [toks_of_items flat_map item_toks]. rewrite app_nil_r. exact Ht.
Qed.

Lemma smallb_small n : smallb n = true -> small n.
Proof. unfold smallb, small. lia. Qed.
Lemma printable_forall rs : printable rs = true -> Forall (fun r => 32 <= r) rs.
Proof. unfold printable. rewrite forallb_forall, Forall_forall. intros H x Hx. specialize (H x Hx). lia. Qed.

Ltac pss_ok_tac := split; repeat constructor; try discriminate; try assumption; try (unfold small in *; lia).

Ltac small_tac := unfold small in *; lia.
Ltac ser_eq :=
  unfold ser, ser_colour;
  cbn [rfmt seq_cup seq_sgrReset seq_fgReset seq_fgSet seq_fgBrightSet seq_fgIndexSet seq_fgRGBSet
       seq_bgReset seq_bgSet seq_bgBrightSet seq_bgIndexSet seq_bgRGBSet seq_ulColorReset seq_ulIndexSet
       seq_ulRGBSet seq_ulStyleSet seq_osc8 seq_explicitWidth decset_fmt decrst_fmt seq_cursorStyleSet
       seq_mouseShape mode_cursorVisibility mode_synchronizedUpdate app];
  rewrite ?rdec_dd by small_tac;
  unfold csi_seq, osc_seq; cbn [pstr sub_str app]; repeat (rewrite <- app_assoc || (progress (cbn [app]))); reflexivity.

Lemma reads_cup r c : small r -> small c -> reads (KCup r c).
Proof.
  intros Hr Hc.
  apply (reads_csi _ [] [[r]; [c]] [] 72); [ser_eq|now left|pss_ok_tac|constructor|lia|reflexivity].
Qed.

Lemma reads_fixed k priv pss is f :
  ser k = csi_seq priv (pstr pss) is f ->
  (priv = [] \/ exists m, priv = [m] /\ 60 <= m <= 63) -> pss_ok pss ->
  Forall (fun r => 32 <= r <= 47) is -> 64 <= f <= 126 ->
  csi_toks (priv ++ is) pss f = explode1 k -> reads k.
Proof. exact (reads_csi k priv pss is f). Qed.

Lemma reads_sgr_reset : reads KSgrReset.
Proof. apply (reads_csi _ [] [] [] 109); [reflexivity|now left|split; constructor|constructor|lia|reflexivity]. Qed.

Ltac priv63 := right; exists 63; split; [reflexivity|lia].
Lemma reads_show : reads KShowCursor.
Proof. apply (reads_csi _ [63] [[25]] [] 104); [reflexivity|priv63|pss_ok_tac|constructor|lia|reflexivity]. Qed.
Lemma reads_hide : reads KHideCursor.
Proof. apply (reads_csi _ [63] [[25]] [] 108); [reflexivity|priv63|pss_ok_tac|constructor|lia|reflexivity]. Qed.
Lemma reads_sync_on : reads KSyncOn.
Proof. apply (reads_csi _ [63] [[2026]] [] 104); [reflexivity|priv63|pss_ok_tac|constructor|lia|reflexivity]. Qed.
Lemma reads_sync_off : reads KSyncOff.
Proof. apply (reads_csi _ [63] [[2026]] [] 108); [reflexivity|priv63|pss_ok_tac|constructor|lia|reflexivity]. Qed.

Lemma reads_cursor_style n : small n -> reads (KCursorStyle n).
Proof.
  intros Hn. apply (reads_csi _ [] [[n]] [32] 113); [ser_eq|now left|pss_ok_tac|repeat constructor; lia|lia|reflexivity].
Qed.

Lemma reads_ul_style n : small n -> reads (KUlStyle n).
Proof.
  intros Hn. apply (reads_csi _ [] [[4; n]] [] 109); [ser_eq|now left|pss_ok_tac|constructor|lia|reflexivity].
Qed.

(* plain attribute codes: fifteen closed cases *)
Lemma reads_attr1 n : ser (KSgr n) = csi_seq [] (pstr [[n]]) [] 109 -> small n -> sgr_tok [n] = KSgr n -> reads (KSgr n).
Proof.
  intros E Hn Ht. apply (reads_csi _ [] [[n]] [] 109); [exact E|now left|pss_ok_tac|constructor|lia|].
  cbn [app csi_toks map explode1]. rewrite Ht. reflexivity.
Qed.

Lemma reads_attr n : existsb (Z.eqb n) (map fst attr_table) = true -> reads (KSgr n).
Proof.
  intros H. apply existsb_exists in H. destruct H as [x [Hin Hx]]. apply Z.eqb_eq in Hx. subst x.
  cbn in Hin.
  repeat (destruct Hin as [<-|Hin]; [apply reads_attr1; [reflexivity|small_tac|reflexivity]|]).
  destruct Hin.
Qed.

(* ---------- colours ---------- *)
Ltac ifs := repeat match goal with
  | |- context [if ?c then _ else _] => match type of c with bool => let E := fresh "E" in destruct c eqn:E; try lia end
  end.
Lemma sgr_fg_lo x : 30 <= x <= 37 -> sgr_tok [x] = KFg [x - 30].
Proof. intros H. unfold sgr_tok, in_range. ifs. reflexivity. Qed.
Lemma sgr_fg_hi x : 90 <= x <= 97 -> sgr_tok [x] = KFg [x - 90 + 8].
Proof. intros H. unfold sgr_tok, in_range. ifs. reflexivity. Qed.
Lemma sgr_bg_lo x : 40 <= x <= 47 -> sgr_tok [x] = KBg [x - 40].
Proof. intros H. unfold sgr_tok, in_range. ifs. reflexivity. Qed.
Lemma sgr_bg_hi x : 100 <= x <= 107 -> sgr_tok [x] = KBg [x - 100 + 8].
Proof. intros H. unfold sgr_tok, in_range. ifs. reflexivity. Qed.

Ltac eight n H := let E := fresh "E" in
  assert (E : n = 0 \/ n = 1 \/ n = 2 \/ n = 3 \/ n = 4 \/ n = 5 \/ n = 6 \/ n = 7) by lia;
  repeat (destruct E as [->|E]; [reflexivity|]); subst; reflexivity.

Lemma fg_lo_ser n : 0 <= n < 8 -> rfmt seq_fgSet [AInt n] = csi_seq [] (pstr [[30 + n]]) [] 109.
Proof. intros H. eight n H. Qed.
Lemma fg_hi_ser n : 0 <= n < 8 -> rfmt seq_fgBrightSet [AInt n] = csi_seq [] (pstr [[90 + n]]) [] 109.
Proof. intros H. eight n H. Qed.
Lemma bg_lo_ser n : 0 <= n < 8 -> rfmt seq_bgSet [AInt n] = csi_seq [] (pstr [[40 + n]]) [] 109.
Proof. intros H. eight n H. Qed.
Lemma bg_hi_ser n : 0 <= n < 8 -> rfmt seq_bgBrightSet [AInt n] = csi_seq [] (pstr [[100 + n]]) [] 109.
Proof. intros H. eight n H. Qed.

Ltac csi_rest := [> now left | pss_ok_tac | constructor | lia | ].

Lemma reads_fg1 n : small n -> reads (KFg [n]).
Proof.
  intros Hn. destruct (Z_lt_le_dec n 8) as [H8|H8]; [|destruct (Z_lt_le_dec n 16) as [H16|H16]].
  - apply (reads_csi _ [] [[30 + n]] [] 109); [|now left|pss_ok_tac|constructor|lia|].
    + unfold ser, ser_colour. destruct (n <? 8) eqn:E; [|lia]. apply fg_lo_ser. small_tac.
    + cbn [app csi_toks map explode1]. rewrite sgr_fg_lo by small_tac. repeat f_equal. lia.
  - apply (reads_csi _ [] [[90 + (n - 8)]] [] 109); [|now left|pss_ok_tac|constructor|lia|].
    + unfold ser, ser_colour. destruct (n <? 8) eqn:E; [lia|]. destruct (n <? 16) eqn:E2; [|lia]. apply fg_hi_ser. lia.
    + cbn [app csi_toks map explode1]. rewrite sgr_fg_hi by lia. repeat f_equal. lia.
  - apply (reads_csi _ [] [[38; 5; n]] [] 109); [|now left|pss_ok_tac|constructor|lia|reflexivity].
    unfold ser, ser_colour. destruct (n <? 8) eqn:E; [lia|]. destruct (n <? 16) eqn:E2; [lia|]. ser_eq.
Qed.

Lemma reads_bg1 n : small n -> reads (KBg [n]).
Proof.
  intros Hn. destruct (Z_lt_le_dec n 8) as [H8|H8]; [|destruct (Z_lt_le_dec n 16) as [H16|H16]].
  - apply (reads_csi _ [] [[40 + n]] [] 109); [|now left|pss_ok_tac|constructor|lia|].
    + unfold ser, ser_colour. destruct (n <? 8) eqn:E; [|lia]. apply bg_lo_ser. small_tac.
    + cbn [app csi_toks map explode1]. rewrite sgr_bg_lo by small_tac. repeat f_equal. lia.
  - apply (reads_csi _ [] [[100 + (n - 8)]] [] 109); [|now left|pss_ok_tac|constructor|lia|].
    + unfold ser, ser_colour. destruct (n <? 8) eqn:E; [lia|]. destruct (n <? 16) eqn:E2; [|lia]. apply bg_hi_ser. lia.
    + cbn [app csi_toks map explode1]. rewrite sgr_bg_hi by lia. repeat f_equal. lia.
  - apply (reads_csi _ [] [[48; 5; n]] [] 109); [|now left|pss_ok_tac|constructor|lia|reflexivity].
    unfold ser, ser_colour. destruct (n <? 8) eqn:E; [lia|]. destruct (n <? 16) eqn:E2; [lia|]. ser_eq.
Qed.

Lemma reads_fg ps : colour_wfb ps = true -> reads (KFg ps).
Proof.
  intros H. destruct ps as [|a [|b [|c [|d t]]]]; cbn [colour_wfb] in H; try discriminate.
  - apply (reads_csi _ [] [[39]] [] 109); [reflexivity|now left|pss_ok_tac|constructor|lia|reflexivity].
  - apply reads_fg1. now apply smallb_small.
  - apply andb_prop in H; destruct H as [H Hc]. apply andb_prop in H; destruct H as [Ha Hb].
    apply smallb_small in Ha, Hb, Hc.
    apply (reads_csi _ [] [[38; 2; a; b; c]] [] 109); [ser_eq|now left|pss_ok_tac|constructor|lia|reflexivity].
Qed.

Lemma reads_bg ps : colour_wfb ps = true -> reads (KBg ps).
Proof.
  intros H. destruct ps as [|a [|b [|c [|d t]]]]; cbn [colour_wfb] in H; try discriminate.
  - apply (reads_csi _ [] [[49]] [] 109); [reflexivity|now left|pss_ok_tac|constructor|lia|reflexivity].
  - apply reads_bg1. now apply smallb_small.
  - apply andb_prop in H; destruct H as [H Hc]. apply andb_prop in H; destruct H as [Ha Hb].
    apply smallb_small in Ha, Hb, Hc.
    apply (reads_csi _ [] [[48; 2; a; b; c]] [] 109); [ser_eq|now left|pss_ok_tac|constructor|lia|reflexivity].
Qed.

Lemma reads_ul ps : colour_wfb ps = true -> reads (KUl ps).
Proof.
  intros H. destruct ps as [|a [|b [|c [|d t]]]]; cbn [colour_wfb] in H; try discriminate.
  - apply (reads_csi _ [] [[59]] [] 109); [reflexivity|now left|pss_ok_tac|constructor|lia|reflexivity].
  - apply smallb_small in H.
    apply (reads_csi _ [] [[58; 5; a]] [] 109); [ser_eq|now left|pss_ok_tac|constructor|lia|reflexivity].
  - apply andb_prop in H; destruct H as [H Hc]. apply andb_prop in H; destruct H as [Ha Hb].
    apply smallb_small in Ha, Hb, Hc.
    apply (reads_csi _ [] [[58; 2; a; b; c]] [] 109); [ser_eq|now left|pss_ok_tac|constructor|lia|reflexivity].
Qed.

(* ---------- strings and text ---------- *)
Lemma split_semi1_app p u : forall acc, Forall (fun r => r <> 59) p ->
  split_semi1 (p ++ 59 :: u) acc = Some (acc ++ p, u).
Proof.
  induction p as [|c p IH]; intros acc H.
  - cbn. rewrite app_nil_r. reflexivity.
  - inversion H as [|? ? Hc Hp]; subst. cbn [app split_semi1]. destruct (c =? 59) eqn:E; [lia|].
    rewrite IH by exact Hp. rewrite <- app_assoc. reflexivity.
Qed.

Lemma no_semi_forall p : forallb (fun r => negb (r =? 59)) p = true -> Forall (fun r => r <> 59) p.
Proof. rewrite forallb_forall, Forall_forall. intros H x Hx. specialize (H x Hx). lia. Qed.

Lemma reads_link p u : printable p = true -> printable u = true -> forallb (fun r => negb (r =? 59)) p = true ->
  reads (KLink p u).
Proof.
  intros Hp Hu Hs. apply printable_forall in Hp, Hu. apply no_semi_forall in Hs.
  apply (reads_osc _ ([56; 59] ++ p ++ 59 :: u)).
  - ser_eq.
  - repeat (constructor; [lia|]). apply Forall_app. split; [exact Hp|]. constructor; [lia|exact Hu].
  - discriminate.
  - unfold osc_toks. cbn [app strip_prefix]. change (56 =? 56) with true. change (59 =? 59) with true. cbv iota.
    rewrite split_semi1_app by exact Hs. reflexivity.
Qed.

Lemma reads_textw w g : small w -> printable g = true -> reads (KTextW w g).
Proof.
  intros Hw Hg. apply printable_forall in Hg.
  apply (reads_osc _ ([54; 54; 59; 119; 61] ++ dd w ++ 59 :: g)).
  - ser_eq.
  - repeat (constructor; [lia|]). apply Forall_app. split.
    + eapply Forall_impl; [|apply dd_digits; small_tac]. cbn. intros; lia.
    + constructor; [lia|exact Hg].
  - discriminate.
  - unfold osc_toks. cbn [app strip_prefix]. change (56 =? 54) with false. cbv iota.
    change (54 =? 54) with true. change (59 =? 59) with true. change (119 =? 119) with true. change (61 =? 61) with true.
    cbv iota. rewrite split_semi1_app by (apply dd_no_semi; small_tac). cbn [app].
    rewrite atoi_dd by exact Hw. reflexivity.
Qed.

Lemma reads_shape s : printable s = true -> reads (KMouseShape s).
Proof.
  intros Hs. apply printable_forall in Hs.
  apply (reads_osc _ ([50; 50; 59] ++ s)).
  - ser_eq.
  - repeat (constructor; [lia|]). exact Hs.
  - discriminate.
  - unfold osc_toks. cbn [app strip_prefix]. change (56 =? 50) with false. change (54 =? 50) with false. cbv iota.
    change (50 =? 50) with true. change (59 =? 59) with true. cbv iota. reflexivity.
Qed.

Lemma toks_of_prints rs : toks_of_items (map (fun r => IPrint [r]) rs) = map (fun r => KText [r]) rs.
Proof. induction rs as [|r rs IH]; [reflexivity|]. cbn [map toks_of_items flat_map item_toks app]. f_equal. exact IH. Qed.

Lemma reads_text g : printable g = true -> reads (KText g).
Proof.
  intros Hg p Hc. apply printable_forall in Hg.
  destruct (text_clean g p Hc Hg) as [p' [F C]].
  exists p', (map (fun r => IPrint [r]) g). split; [exact F|]. split; [exact C|]. apply toks_of_prints.
Qed.

Lemma reads_space : reads KSpace.
Proof.
  intros p Hc. destruct (text_clean [32] p Hc) as [p' [F C]]; [repeat constructor; lia|].
  exists p', [IPrint [32]]. split; [exact F|]. split; [exact C|reflexivity].
Qed.

Theorem tok_reads k : tok_wfb k = true -> reads k.
Proof.
  destruct k; cbn [tok_wfb]; intros H.
  - apply andb_prop in H. destruct H as [Hr Hc]. apply reads_cup; now apply smallb_small.
  - apply reads_sgr_reset.
  - now apply reads_fg.
  - now apply reads_bg.
  - now apply reads_ul.
  - now apply reads_attr.
  - apply reads_ul_style. now apply smallb_small.
  - apply andb_prop in H. destruct H as [H Hs]. apply andb_prop in H. destruct H as [Hp Hu]. now apply reads_link.
  - now apply reads_text.
  - apply andb_prop in H. destruct H as [Hw Hg]. apply reads_textw; [now apply smallb_small|exact Hg].
  - apply reads_space.
  - apply reads_show.
  - apply reads_hide.
  - apply reads_cursor_style. now apply smallb_small.
  - apply reads_sync_on.
  - apply reads_sync_off.
  - now apply reads_shape.
Qed.

(* ---------- whole frames ---------- *)
Theorem ser_all_reads ks : forall p, forallb tok_wfb ks = true -> clean p ->
  exists p' o, feed p (ser_all ks) = (p', o, true) /\ clean p' /\ toks_of_items o = explode ks.
Proof.
  induction ks as [|k ks IH]; intros p Hw Hc.
  - exists p, []. cbn. auto.
  - cbn [forallb] in Hw. apply andb_prop in Hw. destruct Hw as [Hk Hks].
    destruct (tok_reads k Hk p Hc) as [p1 [o1 [F1 [C1 T1]]]].
    destruct (IH p1 Hks C1) as [p2 [o2 [F2 [C2 T2]]]].
    exists p2, (o1 ++ o2). unfold ser_all. cbn [flat_map]. rewrite feed_app, F1. fold (ser_all ks). rewrite F2.
    split; [reflexivity|]. split; [exact C2|].
    unfold toks_of_items, explode. rewrite flat_map_app. cbn [flat_map].
    fold (toks_of_items o1). fold (toks_of_items o2). rewrite T1, T2. reflexivity.
Qed.

(* from the parser's initial state: what a terminal reads from the code points of a flush *)
Theorem toks_of_ser ks : forallb tok_wfb ks = true -> toks_of_runes (ser_all ks) = explode ks.
Proof.
  intros H. destruct (ser_all_reads ks pinit H clean_init) as [p' [o [F [_ T]]]].
  unfold toks_of_runes. rewrite F. exact T.
Qed.
