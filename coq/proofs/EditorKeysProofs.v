(* C17 — modifier masks of key events (model/EditorKeys.v): proofs. *)
From Vx Require Import base.Prelude model.IdealEditor model.Editors model.EditorKeys.
Local Open Scope Z_scope.

Lemma ti_typed_plain : forall m s, Z.land m chord_bits = 0 -> ti_typed m s = EDefault false s.
Proof. intros m s H. unfold ti_typed, ti_mods_block. rewrite H. reflexivity. Qed.

Lemma ti_typed_chord : forall m s, Z.land m chord_bits <> 0 -> ti_typed m s = EDefault true s.
Proof.
  intros m s H. unfold ti_typed, ti_mods_block.
  destruct (Z.eqb_spec (Z.land m chord_bits) 0); [contradiction | reflexivity].
Qed.

Lemma ti_mods_block_lor : forall m x, Z.land x chord_bits = 0 ->
  ti_mods_block (Z.lor m x) = ti_mods_block m.
Proof.
  intros m x H. unfold ti_mods_block.
  rewrite Z.land_lor_distr_l, H, Z.lor_0_r. reflexivity.
Qed.

Lemma ti_typed_lor : forall m x s, Z.land x chord_bits = 0 -> ti_typed (Z.lor m x) s = ti_typed m s.
Proof. intros. unfold ti_typed. rewrite ti_mods_block_lor by assumption. reflexivity. Qed.

Lemma ti_typed_is_insertion : forall m c s tbl, Z.land m chord_bits = 0 ->
  ti_iop (OEv (ti_typed m (c :: s))) tbl = IIns (match tbl with (_, cs) :: _ => cs | [] => [] end).
Proof. intros. rewrite ti_typed_plain by assumption. reflexivity. Qed.

Lemma ti_typed_step : forall chars alnum st m x s, Z.land x chord_bits = 0 ->
  ti_step chars alnum st (OEv (ti_typed (Z.lor m x) s)) = ti_step chars alnum st (OEv (ti_typed m s)).
Proof. intros. rewrite ti_typed_lor by assumption. reflexivity. Qed.

Lemma ti_bound_keeps : forall own m letter k, Z.land m retitle_bits = 0 ->
  Z.testbit m 6 = false \/ letter = false -> ti_bound own m letter k = EKey k.
Proof.
  intros own m letter k H [H6 | Hl]; unfold ti_bound; rewrite H, Z.eqb_refl; cbn [negb orb].
  - rewrite H6. reflexivity.
  - rewrite Hl, andb_false_r. reflexivity.
Qed.

Lemma ti_bound_caps_letter : forall own m k, Z.testbit m 6 = true ->
  ti_bound own m true k = EDefault (ti_mods_block (Z.lor own m)) [].
Proof. intros. unfold ti_bound. rewrite H, orb_true_r. reflexivity. Qed.

Lemma tf_bound_keeps : forall m k, Z.land m retitle_bits = 0 -> tf_bound m k = TKey k.
Proof. intros. unfold tf_bound. rewrite H. reflexivity. Qed.
