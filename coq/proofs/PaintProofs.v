(* C14 — layout followed by render (App.layout + Surface.render), composed. *)
From Vx Require Import base.Prelude base.ListX model.Surface model.Widgets
  proofs.SurfaceProofs proofs.WidgetsProofs proofs.RenderProofs.
From Coq Require Import ZifyBool.

(* Draw any tree of built-in widgets with Max = the window size and render the result into the
   root window of a cleared cols x rows screen: unless a documented-unbounded panic occurs,
   nothing panics and every screen cell shows what [shown] prescribes for the drawn tree
   (blank where the tree paints nothing). *)
Lemma layout_then_render ws cols rows : 0 <= cols < 65536 -> 0 <= rows < 65536 ->
  match draw ws cols rows with
  | DPanic => contract_panic ws cols rows = true /\ paint_run (ws, cols, rows) = (1, [])
  | DOk s =>
      exists sc, paint_run (ws, cols, rows) = (0, sc_buf sc) /\ screen_wf sc /\
        sc_cols sc = cols /\ sc_rows sc = rows /\
        forall x y, 0 <= x < cols -> 0 <= y < rows ->
          screen_get sc x y =
            Some (match (if in_rect 0 0 (s_w s) (s_h s) x y then shown stable_perm s 0 0 x y else None) with
                  | Some c => c | None => wblank end)
  end.
Proof.
  intros Hc Hr. pose proof (draw_contract_all ws cols rows Hc Hr) as Hd. unfold draw_contract in Hd.
  unfold paint_run. destruct (draw ws cols rows) as [|s]; [split; [exact Hd | reflexivity]|].
  destruct Hd as (Hwf & _ & _). unfold render.
  destruct (render_gen_spec stable_perm s Hwf (app_window cols rows s) ltac:(unfold app_window, win_new; discriminate)) as (ps & E & Hps).
  rewrite E.
  destruct (screen_apply_spec ps (new_screen wblank cols rows) (new_screen_wf wblank cols rows ltac:(lia) ltac:(lia)))
    as (sc & E2 & Hscwf & Ec & Er & Hget).
  rewrite E2. exists sc. cbn [new_screen sc_cols sc_rows] in Ec, Er, Hget.
  split; [reflexivity|]. split; [exact Hscwf|]. split; [exact Ec|]. split; [exact Er|].
  intros x y Hx Hy. rewrite (Hget x y Hx Hy), Hps.
  pose proof (wf_tree_node s Hwf) as (Hsw & Hsh & _).
  destruct (app_window_clip cols rows s x y ltac:(lia) ltac:(lia)) as [-> ->].
  replace (in_rect 0 0 cols rows x y) with true by (unfold in_rect; lia). cbn [andb].
  destruct (if in_rect 0 0 (s_w s) (s_h s) x y then shown stable_perm s 0 0 x y else None); [reflexivity|].
  unfold screen_get, new_screen; cbn [sc_buf].
  rewrite zget_zrepeat by lia. apply zget_zrepeat; lia.
Qed.

Lemma paint_run_ok ws cols rows : 0 <= cols < 65536 -> 0 <= rows < 65536 ->
  paint_ok ((ws, cols, rows), paint_run (ws, cols, rows)) = true.
Proof.
  intros Hc Hr. pose proof (layout_then_render ws cols rows Hc Hr) as H. unfold paint_ok.
  destruct (draw ws cols rows) as [|s].
  - destruct H as [H1 ->]. cbn. exact H1.
  - destruct H as (sc & -> & (_ & _ & Hlen & Hall) & Ec & Er & _).
    replace (0 =? 1) with false by reflexivity. cbn [andb].
    rewrite Hlen, Er. rewrite !Z.eqb_refl. cbn [andb].
    apply forallb_forall. intros r Hin. rewrite Forall_forall in Hall. rewrite (Hall r Hin), Ec. apply Z.eqb_refl.
Qed.
