(* asIndex returns the nearest palette entry: proof for an arbitrary palette. *)
From Vx Require Import base.Prelude base.ListX gen.GenPalette model.Colour.

Section Scan.
Variable o : Z * Z * Z.

(* acc describes a minimum of the already visited prefix [pre] *)
Definition acc_ok (pre : list (Z * Z * Z)) (acc : option (Z * Z)) : Prop :=
  match acc with
  | None => pre = []
  | Some (bi, bd) =>
      (exists v, zget pre bi = Some v /\ wdist o v = bd) /\
      (forall v, In v pre -> bd <= wdist o v)
  end.

Lemma scan_ok pal : forall pre acc,
  acc_ok pre acc -> acc_ok (pre ++ pal) (scan o pal (zlen pre) acc).
Proof.
  induction pal as [|v t IH]; intros pre acc H; cbn [scan].
  - now rewrite app_nil_r.
  - replace (pre ++ v :: t) with ((pre ++ [v]) ++ t) by (now rewrite <- app_assoc).
    replace (zlen pre + 1) with (zlen (pre ++ [v])) by (rewrite zlen_app; reflexivity).
    apply IH. destruct acc as [[bi bd]|]; cbn [acc_ok] in *.
    + destruct H as [[w [Hw Hd]] Hmin].
      destruct (wdist o v <? bd) eqn:E.
      * split.
        -- exists v; split; [|reflexivity].
           rewrite zget_app_r by lia. now rewrite Z.sub_diag.
        -- intros x Hx; apply in_app_or in Hx as [Hx|[<-|[]]]; [|lia].
           specialize (Hmin x Hx); lia.
      * split.
        -- exists w; split; [|assumption].
           rewrite zget_app_l; [assumption|]. apply zget_some_range in Hw; lia.
        -- intros x Hx; apply in_app_or in Hx as [Hx|[<-|[]]]; [auto|lia].
    + subst pre; split.
      * exists v; split; reflexivity.
      * intros x [<-|[]]; lia.
Qed.

Lemma scan_some pal acc i : pal <> [] -> scan o pal i acc <> None.
Proof.
  destruct pal as [|v t]; [congruence|]; intros _; cbn [scan].
  assert (G : forall t i a, a <> None -> scan o t i a <> None).
  { clear; induction t as [|x t IH]; intros i a Ha; cbn [scan]; [assumption|].
    apply IH; destruct a as [[bi bd]|]; [|congruence]; destruct (_ <? _); congruence. }
  apply G; destruct acc as [[bi bd]|]; [|congruence]; destruct (_ <? _); congruence.
Qed.
End Scan.

Lemma forallb_le_intro (c best : Z * Z * Z) pal :
  (forall v, In v pal -> wdist c best <= wdist c v) ->
  forallb (fun v => wdist c best <=? wdist c v) pal = true.
Proof. intros H; apply forallb_forall; intros v Hv; apply Z.leb_le; auto. Qed.

(* for every palette of at most 240 entries *)
Theorem as_index_pal_nearest pal c :
  pal <> [] -> zlen pal <= 240 -> nearest_ok pal c (as_index_pal pal c) = true.
Proof.
  intros Hne Hlen; unfold nearest_ok, as_index_pal.
  destruct (negb (is_rgb c)) eqn:Ergb; [apply Z.eqb_refl|].
  pose proof (scan_ok (split3 c) pal [] None eq_refl) as H; cbn [app] in H.
  change (zlen (@nil (Z * Z * Z))) with 0 in H.
  destruct (scan (split3 c) pal 0 None) as [[bi bd]|] eqn:Es; [|now apply scan_some in Es].
  cbn [acc_ok] in H; destruct H as [[w [Hw Hd]] Hmin].
  pose proof (zget_some_range _ _ _ Hw) as Hr.
  unfold index_color, u8. rewrite Z.mod_small by lia.
  replace (bi + 16 + tag_indexed - tag_indexed) with (bi + 16) by lia.
  replace (bi + 16 - 16) with bi by lia. rewrite Hw.
  subst bd. cbv zeta. rewrite forallb_le_intro by assumption.
  repeat (apply andb_true_intro; split); try apply Z.leb_le; try apply Z.ltb_lt; lia.
Qed.

Lemma colorIndex3_spec : colorIndex3 = map split3 colorIndex.
Proof. vm_compute. reflexivity. Qed.

Lemma colorIndex3_len : zlen colorIndex3 = 240.
Proof. reflexivity. Qed.

Theorem as_index_nearest c : nearest_ok colorIndex3 c (as_index c) = true.
Proof.
  apply as_index_pal_nearest; [discriminate | rewrite colorIndex3_len; lia].
Qed.

(* nearest_ok, unfolded into the statement the property makes *)
Theorem nearest_ok_spec pal c r :
  nearest_ok pal c r = true ->
  if is_rgb c
  then exists n best, r = index_color n /\ 16 <= n <= 255 /\ zget pal (n - 16) = Some best /\
                      forall v, In v pal -> wdist (split3 c) best <= wdist (split3 c) v
  else r = c.
Proof.
  unfold nearest_ok; destruct (is_rgb c); cbn [negb]; [|apply Z.eqb_eq].
  intros H. repeat (apply andb_prop in H as [H ?]).
  destruct (zget pal (r - tag_indexed - 16)) as [best|] eqn:E; [|discriminate].
  exists (r - tag_indexed), best; unfold index_color.
  repeat split; try lia; [assumption|].
  intros v Hv. rewrite forallb_forall in H0. apply Z.leb_le; auto.
Qed.
