(* C14 — proofs about Surface.render: the paints it produces are exactly "every surface of the
   tree at its offset, clipped to the windows of its ancestors, later children over earlier". *)
From Vx Require Import base.Prelude base.ListX model.Surface proofs.SurfaceProofs.
From Coq Require Import ZifyBool Permutation Sorted.

(* ------------------------------------------------------------------ windows *)

Lemma win_set_cell_spec (win : window) : forall col row,
  win_set_cell win col row =
    let '(ox, oy) := win_org win in
    if win_clip win (ox + col) (oy + row) then Some (ox + col, oy + row) else None.
Proof.
  induction win as [|[[[c r] w] h] p IH]; intros col row.
  - cbn. f_equal.
  - cbn [win_set_cell win_clip]. cbn [win_org]. specialize (IH (col + c) (row + r)).
    destruct (win_org p) as [px py] eqn:Eorg.
    unfold in_rect.
    destruct ((row >=? h) || (col >=? w)) eqn:E1.
    { replace ((px + c <=? px + c + col) && (px + c + col <? px + c + w) &&
               (py + r <=? py + r + row) && (py + r + row <? py + r + h)) with false by lia.
      reflexivity. }
    destruct ((row <? 0) || (col <? 0)) eqn:E2.
    { replace ((px + c <=? px + c + col) && (px + c + col <? px + c + w) &&
               (py + r <=? py + r + row) && (py + r + row <? py + r + h)) with false by lia.
      reflexivity. }
    replace ((px + c <=? px + c + col) && (px + c + col <? px + c + w) &&
             (py + r <=? py + r + row) && (py + r + row <? py + r + h)) with true by lia.
    cbn [andb]. rewrite IH.
    replace (px + (col + c)) with (px + c + col) by lia.
    replace (py + (row + r)) with (py + r + row) by lia. reflexivity.
Qed.

(* Window.New: the child window's clip is the parent's clip intersected with the nominal
   rectangle of the child — the clamping of Width/Height changes nothing *)
Lemma win_new_spec (win : window) col row cols rows x y :
  win <> [] -> 0 <= cols -> 0 <= rows ->
  let '(ox, oy) := win_org win in
  win_org (win_new win col row cols rows) = (ox + col, oy + row) /\
  win_clip (win_new win col row cols rows) x y =
    win_clip win x y && in_rect (ox + col) (oy + row) cols rows x y.
Proof.
  intros Hne Hc Hr. destruct win as [|[[[c r] w] h] p]; [congruence|].
  unfold win_new. cbn [win_w win_h]. cbn [win_org win_clip].
  destruct (win_org p) as [px py] eqn:Eorg.
  split; [reflexivity|].
  replace (cols <? 0) with false by lia. replace (rows <? 0) with false by lia.
  unfold in_rect.
  destruct (win_clip p x y); [|rewrite !andb_false_r; reflexivity].
  rewrite !andb_true_r.
  destruct (cols + col >? w) eqn:E1; destruct (rows + row >? h) eqn:E2; lia.
Qed.

(* ------------------------------------------------------------------ paint lists *)

Fixpoint last_paint {A} (ps : list (Z * Z * A)) (x y : Z) : option A :=
  match ps with
  | [] => None
  | (px, py, c) :: t =>
      match last_paint t x y with
      | Some v => Some v
      | None => if (px =? x) && (py =? y) then Some c else None
      end
  end.

Lemma last_paint_app {A} (a b : list (Z * Z * A)) x y :
  last_paint (a ++ b) x y = later (last_paint a x y) (last_paint b x y).
Proof.
  induction a as [|[[px py] c] t IH]; cbn [app last_paint later].
  - destruct (last_paint b x y); reflexivity.
  - rewrite IH. destruct (last_paint b x y); cbn [later]; reflexivity.
Qed.

Lemma last_paint_concat {A} (l : list (list (Z * Z * A))) x y : forall acc,
  last_paint (acc ++ concat l) x y =
  fold_left later (map (fun ps => last_paint ps x y) l) (last_paint acc x y).
Proof.
  induction l as [|p t IH]; intros acc; cbn [concat map fold_left].
  - rewrite app_nil_r; reflexivity.
  - rewrite app_assoc, IH, last_paint_app. reflexivity.
Qed.

(* ------------------------------------------------------------------ the surface's own buffer *)

Lemma render_self_spec {A} (win : window) w : 0 < w ->
  forall (buf : list A) i, 0 <= i ->
  exists ps, render_self win w buf i = Some ps /\
    forall x y, last_paint ps x y =
      let '(ox, oy) := win_org win in
      if win_clip win x y && (0 <=? x - ox) && (x - ox <? w) && (i <=? (y - oy) * w + (x - ox))
      then zget buf ((y - oy) * w + (x - ox) - i) else None.
Proof.
  intros Hw. induction buf as [|c t IH]; intros i Hi.
  - exists []; split; [reflexivity|]. intros x y. destruct (win_org win) as [ox oy].
    cbn [last_paint]. destruct (_ && _ && _ && _); [|reflexivity].
    unfold zget. destruct (_ <? 0); [reflexivity|]. now destruct (Z.to_nat _).
  - cbn [render_self]. replace (w =? 0) with false by lia.
    destruct (IH (i + 1) ltac:(lia)) as (r & Er & Hr). rewrite Er.
    eexists; split; [reflexivity|]. intros x y.
    pose proof (win_set_cell_spec win (i mod w) (i / w)) as Hset.
    specialize (Hr x y). destruct (win_org win) as [ox oy].
    pose proof (Z.div_mod i w ltac:(lia)) as Hdm. pose proof (Z.mod_pos_bound i w Hw) as Hmb.
    set (j := (y - oy) * w + (x - ox)) in *.
    (* is the head paint at (x,y)?  exactly when j = i *)
    assert (Hhead : forall v, (match win_set_cell win (i mod w) (i / w) with
                               | Some (px, py) => (px, py, c) :: r
                               | None => r end) = v ->
              last_paint v x y =
              match last_paint r x y with
              | Some u => Some u
              | None => if win_clip win x y && (0 <=? x - ox) && (x - ox <? w) && (j =? i) then Some c else None
              end).
    { intros v <-. rewrite Hset.
      destruct (win_clip win (ox + i mod w) (oy + i / w)) eqn:Eclip.
      - cbn [last_paint]. destruct (last_paint r x y); [reflexivity|].
        destruct ((ox + i mod w =? x) && (oy + i / w =? y)) eqn:Eat.
        + assert (x = ox + i mod w /\ y = oy + i / w) as [-> ->] by lia.
          rewrite Eclip. subst j.
          replace (0 <=? ox + i mod w - ox) with true by lia.
          replace (ox + i mod w - ox <? w) with true by lia.
          replace ((oy + i / w - oy) * w + (ox + i mod w - ox) =? i) with true by lia.
          reflexivity.
        + destruct (win_clip win x y && (0 <=? x - ox) && (x - ox <? w) && (j =? i)) eqn:E2; [|reflexivity].
          exfalso. assert (Hj : j = i) by lia. subst j.
          assert (Hx : 0 <= x - ox < w) by lia.
          assert (Hd : i / w = y - oy) by (rewrite <- Hj; apply addr_div; exact Hx).
          assert (Hm : i mod w = x - ox) by (rewrite <- Hj; apply addr_mod; exact Hx).
          lia.
      - destruct (last_paint r x y); [reflexivity|].
        destruct (win_clip win x y && (0 <=? x - ox) && (x - ox <? w) && (j =? i)) eqn:E2; [|reflexivity].
        exfalso. assert (Hj : j = i) by lia. subst j.
        assert (Hx : 0 <= x - ox < w) by lia.
        assert (Hd : i / w = y - oy) by (rewrite <- Hj; apply addr_div; exact Hx).
        assert (Hm : i mod w = x - ox) by (rewrite <- Hj; apply addr_mod; exact Hx).
        replace (ox + i mod w) with x in Eclip by lia. replace (oy + i / w) with y in Eclip by lia.
        lia. }
    rewrite (Hhead _ eq_refl), Hr. clear Hhead Hr.
    destruct (win_clip win x y && (0 <=? x - ox) && (x - ox <? w)) eqn:Ein; cbn [andb]; [|reflexivity].
    destruct (i + 1 <=? j) eqn:E1.
    + replace (i <=? j) with true by lia. replace (j =? i) with false by lia.
      rewrite (zget_cons_S c t (j - i)) by lia. replace (j - i - 1) with (j - (i + 1)) by lia.
      destruct (zget t (j - (i + 1))); reflexivity.
    + destruct (j =? i) eqn:E2.
      * replace (i <=? j) with true by lia. replace (j - i) with 0 by lia. reflexivity.
      * replace (i <=? j) with false by lia. reflexivity.
Qed.

(* with len(Buffer) = w*h this is: the buffer cell of the point, inside rectangle and clip *)
Lemma render_self_wf {A} (win : window) w h (buf : list A) :
  0 <= w -> 0 <= h -> zlen buf = w * h ->
  exists ps, render_self win w buf 0 = Some ps /\
    forall x y, last_paint ps x y =
      let '(ox, oy) := win_org win in
      if win_clip win x y && in_rect ox oy w h x y then zget buf ((y - oy) * w + (x - ox)) else None.
Proof.
  intros Hw Hh Hl. destruct (Z.eq_dec w 0) as [->|Hw0].
  - assert (buf = []) by (apply zlen_zero_nil; lia). subst buf.
    exists []; split; [reflexivity|]. intros x y. destruct (win_org win) as [ox oy].
    unfold in_rect. replace ((ox <=? x) && (x <? ox + 0)) with false by lia. cbn [andb].
    rewrite andb_false_r. reflexivity.
  - destruct (render_self_spec win w ltac:(lia) buf 0 ltac:(lia)) as (ps & E & H).
    exists ps; split; [exact E|]. intros x y. specialize (H x y).
    destruct (win_org win) as [ox oy]. rewrite H. unfold in_rect.
    replace ((y - oy) * w + (x - ox) - 0) with ((y - oy) * w + (x - ox)) by lia.
    destruct (win_clip win x y); cbn [andb]; [|reflexivity].
    destruct ((0 <=? x - ox) && (x - ox <? w)) eqn:Ex.
    + replace ((ox <=? x) && (x <? ox + w)) with true by lia. cbn [andb].
      destruct (0 <=? (y - oy) * w + (x - ox)) eqn:Ej.
      * replace (oy <=? y) with true by nia. cbn [andb].
        destruct (y <? oy + h) eqn:Ey; [reflexivity|].
        destruct (zget buf ((y - oy) * w + (x - ox))) eqn:Eg; [|reflexivity].
        apply zget_some_range in Eg. nia.
      * replace (oy <=? y) with false by nia. cbn [andb]. reflexivity.
    + replace ((ox <=? x) && (x <? ox + w)) with false by lia. reflexivity.
Qed.

(* ------------------------------------------------------------------ reordering *)

Lemma reorder_map {B C} (g : B -> C) perm (l : list B) :
  reorder perm (map g l) = map g (reorder perm l).
Proof.
  unfold reorder. induction perm as [|i t IH]; cbn [flat_map map]; [reflexivity|].
  rewrite map_app, IH. f_equal. rewrite nth_error_map. destruct (nth_error l i); reflexivity.
Qed.

Lemma concat_opt_some {B} (l : list (list B)) : concat_opt (map Some l) = Some (concat l).
Proof. induction l as [|a t IH]; cbn; [reflexivity|]. rewrite IH; reflexivity. Qed.

Lemma map_some_exists {K B} (f : K -> option B) (Q : K -> B -> Prop) (l : list K) :
  Forall (fun k => exists b, f k = Some b /\ Q k b) l ->
  exists bs, map f l = map Some bs /\ Forall2 Q l bs.
Proof.
  induction 1 as [|k t (b & E & Hq) _ (bs & E2 & F2)].
  - exists []; split; constructor.
  - exists (b :: bs); split; [cbn; congruence | constructor; assumption].
Qed.

Lemma Forall2_map_eq {K B C} (Q : K -> B -> Prop) (g : K -> C) (h : B -> C) (l : list K) (bs : list B) :
  Forall2 Q l bs -> (forall k b, Q k b -> h b = g k) -> map h bs = map g l.
Proof. intros F HQ; induction F as [|k b l' bs' Hq _ IH]; cbn; [reflexivity|]. rewrite IH, (HQ k b Hq); reflexivity. Qed.

Lemma Forall2_in_right {K B} (Q : K -> B -> Prop) (l : list K) (bs : list B) b :
  Forall2 Q l bs -> In b bs -> exists k, In k l /\ Q k b.
Proof.
  induction 1 as [|k b' l' bs' Hq _ IH]; intros Hin; [destruct Hin|].
  destruct Hin as [<-|Hin]; [exists k; split; [left; reflexivity | exact Hq]|].
  destruct (IH Hin) as (k' & Hk' & Hq'); exists k'; split; [right; exact Hk' | exact Hq'].
Qed.

Lemma fold_later_none {A} (l : list (option A)) :
  Forall (fun o => o = None) l -> fold_left later l None = None.
Proof. induction 1 as [|o t -> _ IH]; cbn; auto. Qed.

(* ------------------------------------------------------------------ render = shown *)

Section Render.
Context {A : Type}.
Variable sorter : list Z -> list nat.

(* the paints of render are exactly what [shown] prescribes, inside the window's clip *)
Lemma render_gen_spec : forall (s : surface A), wf_tree s -> forall win, win <> [] ->
  exists ps, render_gen sorter win s = Some ps /\
    forall x y, last_paint ps x y =
      let '(ox, oy) := win_org win in
      if win_clip win x y then shown sorter s ox oy x y else None.
Proof.
  induction s as [w h buf kids IH] using surface_ind'. intros Hwf win Hne.
  apply wf_tree_unfold in Hwf. destruct Hwf as ((Hw & Hh & Hl) & Hk). cbn [s_w s_h s_buf] in *.
  cbn [render_gen].
  destruct (render_self_wf win w h buf ltac:(lia) ltac:(lia) Hl) as (own & Eown & Hown). rewrite Eown.
  set (f := fun k : Z * Z * Z * surface A =>
              let '(col, row, z, ch) := k in render_gen sorter (win_new win col row (s_w ch) (s_h ch)) ch).
  destruct (win_org win) as [ox oy] eqn:Eorg.
  set (g := fun (x y : Z) (k : Z * Z * Z * surface A) =>
              let '(col, row, z, ch) := k in
              if in_rect (ox + col) (oy + row) (s_w ch) (s_h ch) x y
              then shown sorter ch (ox + col) (oy + row) x y else None).
  assert (Hkids : Forall (fun k => exists ps, f k = Some ps /\
                     forall x y, last_paint ps x y = if win_clip win x y then g x y k else None) kids).
  { rewrite Forall_forall in IH, Hk. apply Forall_forall. intros [[[col row] z] ch] Hin.
    specialize (IH _ Hin (Hk _ Hin)). cbn [kid_surf] in IH.
    pose proof (wf_tree_node ch (Hk _ Hin)) as (Hcw & Hch & _).
    assert (Hne2 : win_new win col row (s_w ch) (s_h ch) <> []) by (unfold win_new; discriminate).
    destruct (IH _ Hne2) as (ps & E & Hps). exists ps; split; [exact E|]. intros x y.
    rewrite Hps.
    pose proof (win_new_spec win col row (s_w ch) (s_h ch) x y Hne ltac:(lia) ltac:(lia)) as Hn.
    rewrite Eorg in Hn. destruct Hn as [-> ->]. cbn [g].
    destruct (win_clip win x y); cbn [andb]; reflexivity. }
  destruct (map_some_exists f _ kids Hkids) as (pss & Emap & F2).
  fold f. rewrite Emap, reorder_map, concat_opt_some.
  eexists; split; [reflexivity|]. intros x y.
  rewrite last_paint_concat, Hown. try rewrite Eorg.
  cbn [shown].
  destruct (win_clip win x y) eqn:Eclip; cbn [andb].
  - fold (g x y). f_equal.
    rewrite <- reorder_map. f_equal.
    eapply Forall2_map_eq; [exact F2|]. intros k ps Hps. cbv beta in Hps.
    rewrite Hps, Eclip. reflexivity.
  - apply fold_later_none. apply Forall_forall. intros o Hin.
    apply in_map_iff in Hin. destruct Hin as (ps & <- & Hin).
    unfold reorder in Hin. apply in_flat_map in Hin. destruct Hin as (i & _ & Hin).
    destruct (nth_error pss i) as [p|] eqn:En; [|destruct Hin].
    destruct Hin as [<-|[]]. apply nth_error_In in En.
    destruct (Forall2_in_right _ _ _ _ F2 En) as (k & _ & Hps).
    rewrite Hps, Eclip. reflexivity.
Qed.

End Render.

(* ------------------------------------------------------------------ the screen *)

Definition screen_wf {A} (sc : screen A) : Prop :=
  0 <= sc_cols sc /\ 0 <= sc_rows sc /\ zlen (sc_buf sc) = sc_rows sc /\
  Forall (fun l => zlen l = sc_cols sc) (sc_buf sc).

Lemma Forall_upd_nat {B} (P : B -> Prop) (l : list B) n x :
  Forall P l -> P x -> Forall P (upd_nat l n x).
Proof.
  intros Hl Hx; revert n; induction Hl as [|a t Ha Ht IH]; intros [|n]; cbn [upd_nat]; constructor; auto.
Qed.

Lemma Forall_zupd {B} (P : B -> Prop) (l l' : list B) i x :
  Forall P l -> P x -> zupd l i x = Some l' -> Forall P l'.
Proof.
  unfold zupd; intros Hl Hx. destruct ((i <? 0) || (zlen l <=? i)); [discriminate|].
  intros H; injection H as <-. apply Forall_upd_nat; assumption.
Qed.

Lemma new_screen_wf {A} (blank : A) cols rows : 0 <= cols -> 0 <= rows -> screen_wf (new_screen blank cols rows).
Proof.
  intros Hc Hr; unfold screen_wf, new_screen; cbn [sc_cols sc_rows sc_buf].
  repeat split; try lia; [apply zlen_repeat; lia|].
  apply Forall_forall; intros l Hin. unfold zrepeat in Hin. apply repeat_spec in Hin; subst l.
  apply zlen_repeat; lia.
Qed.

Lemma screen_set_cell_spec {A} (sc : screen A) x y c : screen_wf sc ->
  exists sc', screen_set_cell sc x y c = Some sc' /\ screen_wf sc' /\
    sc_cols sc' = sc_cols sc /\ sc_rows sc' = sc_rows sc /\
    forall x' y', screen_get sc' x' y' =
      if (0 <=? x) && (x <? sc_cols sc) && (0 <=? y) && (y <? sc_rows sc) && (x' =? x) && (y' =? y)
      then Some c else screen_get sc x' y'.
Proof.
  intros (Hc & Hr & Hl & Hall). unfold screen_set_cell.
  destruct ((x <? 0) || (y <? 0)) eqn:E1.
  { exists sc; repeat split; auto. intros x' y'.
    replace ((0 <=? x) && (x <? sc_cols sc) && (0 <=? y)) with false by lia. reflexivity. }
  destruct (x >=? sc_cols sc) eqn:E2.
  { exists sc; repeat split; auto. intros x' y'.
    replace ((0 <=? x) && (x <? sc_cols sc)) with false by lia. reflexivity. }
  destruct (y >=? sc_rows sc) eqn:E3.
  { exists sc; repeat split; auto. intros x' y'.
    replace ((0 <=? x) && (x <? sc_cols sc) && (0 <=? y) && (y <? sc_rows sc)) with false by lia. reflexivity. }
  destruct (zget_in_range (sc_buf sc) y ltac:(lia)) as (line & Eline). rewrite Eline.
  assert (Hline : zlen line = sc_cols sc).
  { rewrite Forall_forall in Hall. apply Hall. eapply zget_In; eauto. }
  destruct (proj2 (zupd_some_iff line x c) ltac:(lia)) as (line' & Eline'). rewrite Eline'.
  destruct (proj2 (zupd_some_iff (sc_buf sc) y line') ltac:(lia)) as (b & Eb). rewrite Eb.
  eexists; split; [reflexivity|]. repeat split; cbn [sc_cols sc_rows sc_buf]; try lia.
  - rewrite (zupd_length _ _ _ _ Eb). exact Hl.
  - eapply Forall_zupd; [exact Hall | | exact Eb]. rewrite (zupd_length _ _ _ _ Eline'). exact Hline.
  - intros x' y'. unfold screen_get; cbn [sc_buf].
    replace ((0 <=? x) && (x <? sc_cols sc) && (0 <=? y) && (y <? sc_rows sc)) with true by lia.
    cbn [andb]. rewrite (zget_zupd _ _ _ y' _ Eb).
    destruct (y' =? y) eqn:Ey.
    + assert (y' = y) by lia; subst y'. rewrite (zget_zupd _ _ _ x' _ Eline'), Eline.
      rewrite andb_true_r. reflexivity.
    + rewrite andb_false_r. reflexivity.
Qed.

(* applying a paint list to a screen: each screen cell holds the last paint at it *)
Lemma screen_apply_spec {A} (ps : list (Z * Z * A)) : forall sc, screen_wf sc ->
  exists sc', screen_apply sc ps = Some sc' /\ screen_wf sc' /\
    sc_cols sc' = sc_cols sc /\ sc_rows sc' = sc_rows sc /\
    forall x y, 0 <= x < sc_cols sc -> 0 <= y < sc_rows sc ->
      screen_get sc' x y = match last_paint ps x y with Some c => Some c | None => screen_get sc x y end.
Proof.
  induction ps as [|[[px py] c] t IH]; intros sc Hwf; cbn [screen_apply last_paint].
  - exists sc; split; [reflexivity|]. split; [exact Hwf|]. repeat split; auto.
  - destruct (screen_set_cell_spec sc px py c Hwf) as (sc1 & E1 & Hwf1 & Ec1 & Er1 & Hget1). rewrite E1.
    destruct (IH sc1 Hwf1) as (sc2 & E2 & Hwf2 & Ec2 & Er2 & Hget2).
    exists sc2; split; [exact E2|]. split; [exact Hwf2|]. split; [congruence|]. split; [congruence|].
    intros x y Hx Hy. rewrite Hget2 by lia. destruct (last_paint t x y); [reflexivity|].
    rewrite Hget1. destruct ((px =? x) && (py =? y)) eqn:Eat.
    + replace ((0 <=? px) && (px <? sc_cols sc) && (0 <=? py) && (py <? sc_rows sc) && (x =? px) && (y =? py)) with true by lia.
      reflexivity.
    + replace ((0 <=? px) && (px <? sc_cols sc) && (0 <=? py) && (py <? sc_rows sc) && (x =? px) && (y =? py)) with false by lia.
      reflexivity.
Qed.

(* render of a well-formed surface tree into any window, applied to any screen: no panic, and
   every screen cell inside the window's clip shows what [shown] prescribes, every other cell
   is untouched *)
Lemma render_paints_screen {A} (sorter : list Z -> list nat) (s : surface A) win (sc : screen A) :
  wf_tree s -> win <> [] -> screen_wf sc ->
  exists ps sc', render_gen sorter win s = Some ps /\ screen_apply sc ps = Some sc' /\
    sc_cols sc' = sc_cols sc /\ sc_rows sc' = sc_rows sc /\
    forall x y, 0 <= x < sc_cols sc -> 0 <= y < sc_rows sc ->
      screen_get sc' x y =
        match (let '(ox, oy) := win_org win in
               if win_clip win x y then shown sorter s ox oy x y else None) with
        | Some c => Some c
        | None => screen_get sc x y
        end.
Proof.
  intros Hs Hne Hsc.
  destruct (render_gen_spec sorter s Hs win Hne) as (ps & E & Hps).
  destruct (screen_apply_spec ps sc Hsc) as (sc' & E2 & _ & Ec & Er & Hget).
  exists ps, sc'; repeat split; try assumption.
  intros x y Hx Hy. rewrite (Hget x y Hx Hy), Hps. reflexivity.
Qed.

(* ------------------------------------------------------------------ z-order *)

(* what sort.Slice guarantees: the output is a permutation of the input positions and is
   ascending in z (ties in any order) *)
Definition sorter_ok (sorter : list Z -> list nat) : Prop :=
  forall zs, Permutation (sorter zs) (seq 0 (length zs)) /\
             StronglySorted Z.le (reorder (sorter zs) zs).

Lemma reorder_seq_gen {B} (l pre : list B) :
  reorder (seq (length pre) (length l)) (pre ++ l) = l.
Proof.
  revert pre; induction l as [|a t IH]; intros pre; [reflexivity|].
  cbn [length seq]. unfold reorder; cbn [flat_map].
  rewrite nth_error_app2 by lia. rewrite Nat.sub_diag. cbn [nth_error app].
  f_equal. specialize (IH (pre ++ [a])). rewrite app_length in IH. cbn [length] in IH.
  rewrite Nat.add_1_r, <- app_assoc in IH. exact IH.
Qed.

Lemma reorder_seq {B} (l : list B) : reorder (seq 0 (length l)) l = l.
Proof. exact (reorder_seq_gen l []). Qed.

Lemma reorder_perm {B} (perm : list nat) (l : list B) :
  Permutation perm (seq 0 (length l)) -> Permutation (reorder perm l) l.
Proof.
  intros H. rewrite <- (reorder_seq l) at 2. unfold reorder. apply Permutation_flat_map, H.
Qed.

(* [shown] paints the children in ascending z: there is an ordering of the children — a
   permutation of them, ascending in z — such that the point shows the own cell overridden by
   each child in that order. *)
Lemma shown_sorted {A} (sorter : list Z -> list nat) (Hs : sorter_ok sorter)
      w h (buf : list A) kids ox oy x y :
  exists kids', Permutation kids' kids /\ StronglySorted Z.le (map kid_z kids') /\
    shown sorter (Surf w h buf kids) ox oy x y =
    fold_left later
      (map (fun k => if in_rect (ox + kid_col k) (oy + kid_row k) (s_w (kid_surf k)) (s_h (kid_surf k)) x y
                     then shown sorter (kid_surf k) (ox + kid_col k) (oy + kid_row k) x y else None) kids')
      (if in_rect ox oy w h x y then zget buf ((y - oy) * w + (x - ox)) else None).
Proof.
  destruct (Hs (map kid_z kids)) as (Hp & Hsorted). rewrite map_length in Hp.
  exists (reorder (sorter (map kid_z kids)) kids). split; [apply reorder_perm, Hp|].
  split; [rewrite <- reorder_map; exact Hsorted|].
  cbn [shown]. rewrite <- reorder_map. f_equal. f_equal.
  apply map_ext. intros [[[c r] z] ch]. reflexivity.
Qed.

(* the last Some of a list ascending in z comes from a child whose z is maximal among the
   children that show something *)
Lemma fold_later_top {A} (l : list (Z * option A)) : StronglySorted Z.le (map fst l) ->
  forall own,
  (Forall (fun p => snd p = None) l /\ fold_left later (map snd l) own = own) \/
  (exists zt ct, In (zt, Some ct) l /\ fold_left later (map snd l) own = Some ct /\
                 forall z c, In (z, Some c) l -> z <= zt).
Proof.
  induction l as [|[z o] t IH]; intros Hs own; cbn [map fold_left].
  - left; split; [constructor | reflexivity].
  - cbn [map fst] in Hs. cbn [snd]. apply StronglySorted_inv in Hs. destruct Hs as [Hs Hle].
    destruct (IH Hs (later own o)) as [(Hnone & E)|(zt & ct & Hin & E & Hmax)].
    + destruct o as [c|].
      * right. exists z, c. split; [left; reflexivity|]. split; [rewrite E; reflexivity|].
        intros z' c' [Heq|Hin]; [injection Heq as -> _; lia|].
        rewrite Forall_forall in Hnone. specialize (Hnone _ Hin). discriminate.
      * left. split; [constructor; [reflexivity | exact Hnone] | rewrite E; reflexivity].
    + right. exists zt, ct. split; [right; exact Hin|]. split; [exact E|].
      intros z' c' [Heq|Hin']; [|eapply Hmax; exact Hin'].
      injection Heq as -> _. rewrite Forall_forall in Hle. apply Hle.
      apply (in_map fst) in Hin. exact Hin.
Qed.

Definition kid_shows {A} (sorter : list Z -> list nat) (ox oy x y : Z) (k : Z * Z * Z * surface A) : option A :=
  if in_rect (ox + kid_col k) (oy + kid_row k) (s_w (kid_surf k)) (s_h (kid_surf k)) x y
  then shown sorter (kid_surf k) (ox + kid_col k) (oy + kid_row k) x y else None.

(* z-order, order-free: at any point, either no child shows anything and the surface's own
   cell is shown, or the cell comes from a child that shows it and whose z-index is >= that
   of every child showing something there (equal z: whichever sort.Slice put last) *)
Lemma shown_topmost {A} (sorter : list Z -> list nat) (Hs : sorter_ok sorter)
      w h (buf : list A) kids ox oy x y :
  ((forall k, In k kids -> kid_shows sorter ox oy x y k = None) /\
   shown sorter (Surf w h buf kids) ox oy x y =
     (if in_rect ox oy w h x y then zget buf ((y - oy) * w + (x - ox)) else None)) \/
  (exists k c, In k kids /\ kid_shows sorter ox oy x y k = Some c /\
     shown sorter (Surf w h buf kids) ox oy x y = Some c /\
     forall k' c', In k' kids -> kid_shows sorter ox oy x y k' = Some c' -> kid_z k' <= kid_z k).
Proof.
  destruct (shown_sorted sorter Hs w h buf kids ox oy x y) as (kids' & Hp & Hsorted & E).
  change (fun k : Z * Z * Z * surface A =>
            if in_rect (ox + kid_col k) (oy + kid_row k) (s_w (kid_surf k)) (s_h (kid_surf k)) x y
            then shown sorter (kid_surf k) (ox + kid_col k) (oy + kid_row k) x y else None)
    with (@kid_shows A sorter ox oy x y) in E.
  set (l := map (fun k => (kid_z k, kid_shows sorter ox oy x y k)) kids').
  assert (E1 : map fst l = map kid_z kids') by (subst l; rewrite map_map; reflexivity).
  assert (E2 : map snd l = map (kid_shows sorter ox oy x y) kids') by (subst l; rewrite map_map; reflexivity).
  rewrite <- E1 in Hsorted. rewrite <- E2 in E.
  destruct (fold_later_top l Hsorted
              (if in_rect ox oy w h x y then zget buf ((y - oy) * w + (x - ox)) else None))
    as [(Hnone & Efold)|(zt & ct & Hin & Efold & Hmax)].
  - left. split; [|rewrite E; exact Efold].
    intros k Hk. apply (Permutation_in _ (Permutation_sym Hp)) in Hk.
    rewrite Forall_forall in Hnone.
    apply (Hnone (kid_z k, kid_shows sorter ox oy x y k)). subst l.
    apply (in_map (fun k => (kid_z k, kid_shows sorter ox oy x y k))), Hk.
  - right. subst l. apply in_map_iff in Hin. destruct Hin as (k & Heq & Hk).
    injection Heq as Hz Hc. exists k, ct. split; [eapply Permutation_in; eauto|].
    split; [exact Hc|]. split; [rewrite E; exact Efold|].
    intros k' c' Hk' Hc'. rewrite Hz. apply (Hmax _ c').
    apply (Permutation_in _ (Permutation_sym Hp)) in Hk'.
    rewrite <- Hc'. apply (in_map (fun k => (kid_z k, kid_shows sorter ox oy x y k))), Hk'.
Qed.

(* ------------------------------------------------------------------ the executable sorter *)

Definition zle_pair (a b : Z * nat) : Prop := fst a <= fst b.

Lemma ins_by_perm z i l : Permutation (ins_by z i l) ((z, i) :: l).
Proof.
  induction l as [|[z' j] t IH]; cbn [ins_by]; [reflexivity|].
  destruct (z <? z'); [reflexivity|].
  rewrite IH. apply perm_swap.
Qed.

Lemma ins_by_sorted z i l : StronglySorted zle_pair l -> StronglySorted zle_pair (ins_by z i l).
Proof.
  induction 1 as [|[z' j] t Ht IH Hle]; cbn [ins_by].
  - constructor; constructor.
  - destruct (z <? z') eqn:E.
    + constructor; [constructor; assumption|]. constructor; [unfold zle_pair; cbn; lia|].
      eapply Forall_impl; [|exact Hle]. unfold zle_pair; cbn; intros; lia.
    + constructor; [exact IH|].
      eapply Permutation_Forall; [symmetry; apply ins_by_perm|].
      constructor; [unfold zle_pair; cbn; lia | exact Hle].
Qed.

Lemma fold_ins_spec l : forall acc, StronglySorted zle_pair acc ->
  Permutation (fold_left (fun acc p => ins_by (fst p) (snd p) acc) l acc) (l ++ acc) /\
  StronglySorted zle_pair (fold_left (fun acc p => ins_by (fst p) (snd p) acc) l acc).
Proof.
  induction l as [|[z i] t IH]; intros acc Hacc; cbn [fold_left app]; [split; [reflexivity | exact Hacc]|].
  cbn [fst snd]. destruct (IH (ins_by z i acc) (ins_by_sorted z i acc Hacc)) as [Hp Hs].
  split; [|exact Hs]. rewrite Hp, ins_by_perm. symmetry. apply Permutation_middle.
Qed.

Lemma index_from_snd zs : forall n, map snd (index_from n zs) = seq n (length zs).
Proof. induction zs as [|z t IH]; intros n; cbn; [reflexivity|]. now rewrite IH. Qed.

Lemma index_from_nth (zs pre : list Z) :
  Forall (fun p => nth_error (pre ++ zs) (snd p) = Some (fst p)) (index_from (length pre) zs).
Proof.
  revert pre; induction zs as [|z t IH]; intros pre; cbn [index_from]; constructor.
  - cbn [fst snd]. rewrite nth_error_app2 by lia. now rewrite Nat.sub_diag.
  - specialize (IH (pre ++ [z])). rewrite app_length, <- app_assoc in IH. cbn [length app] in IH.
    rewrite Nat.add_1_r in IH. exact IH.
Qed.

Lemma reorder_lookup (zs : list Z) (l : list (Z * nat)) :
  Forall (fun p => nth_error zs (snd p) = Some (fst p)) l -> reorder (map snd l) zs = map fst l.
Proof.
  induction 1 as [|[z i] t Hh _ IH]; [reflexivity|].
  unfold reorder in *. cbn [map flat_map fst snd] in *. rewrite Hh, IH. reflexivity.
Qed.

Lemma stable_perm_ok : sorter_ok stable_perm.
Proof.
  intros zs. unfold stable_perm.
  destruct (fold_ins_spec (index_from 0 zs) [] ltac:(constructor)) as [Hp Hs].
  rewrite app_nil_r in Hp. split.
  - rewrite <- (index_from_snd zs 0). apply Permutation_map, Hp.
  - rewrite reorder_lookup.
    + clear Hp. induction Hs as [|p t Ht IH Hle]; cbn [map]; constructor; [exact IH|].
      apply Forall_map. exact Hle.
    + eapply Permutation_Forall; [symmetry; exact Hp|]. exact (index_from_nth zs []).
Qed.

(* ------------------------------------------------------------------ the model meets render_ok *)

Lemma tree_wf_b_sound : forall s : surface Z, tree_wf_b s = true -> wf_tree s.
Proof.
  induction s as [w h buf kids IH] using surface_ind'. cbn [tree_wf_b]. intros H.
  apply andb_prop in H. destruct H as [H1 H2].
  apply wf_tree_unfold. split; [unfold wf_node; cbn [s_w s_h s_buf]; lia|].
  rewrite forallb_forall in H2. rewrite Forall_forall in IH. apply Forall_forall.
  intros [[[c r] z] ch] Hin. cbn [kid_surf]. apply (IH _ Hin). apply (H2 _ Hin).
Qed.

Lemma row_go_intro (f : Z -> Z -> Z -> bool) (y : Z) : forall (l : list Z) (x0 : Z),
  (forall j c, zget l j = Some c -> f (x0 + j) y c = true) ->
  (fix go (x : Z) (l : list Z) : bool :=
     match l with [] => true | c :: l' => f x y c && go (x + 1) l' end) x0 l = true.
Proof.
  induction l as [|c t IH]; intros x0 H; [reflexivity|].
  apply andb_true_intro; split.
  - rewrite <- (Z.add_0_r x0). apply H. apply zget_cons_0.
  - apply IH. intros j c' Hj. pose proof (zget_some_range _ _ _ Hj) as Hr.
    replace (x0 + 1 + j) with (x0 + (j + 1)) by lia. apply H.
    rewrite zget_cons_S by lia. replace (j + 1 - 1) with j by lia. exact Hj.
Qed.

Lemma all_rows_intro (f : Z -> Z -> Z -> bool) : forall (rows : list (list Z)) (y0 : Z),
  (forall k r, zget rows k = Some r -> forall j c, zget r j = Some c -> f j (y0 + k) c = true) ->
  all_rows f y0 rows = true.
Proof.
  induction rows as [|r t IH]; intros y0 H; [reflexivity|]. cbn [all_rows].
  apply andb_true_intro; split.
  - apply row_go_intro. intros j c Hj. cbn [Z.add]. rewrite <- (Z.add_0_r y0).
    apply (H 0 r (zget_cons_0 r t) j c Hj).
  - apply IH. intros k r' Hk j c Hj. pose proof (zget_some_range _ _ _ Hk) as Hr.
    replace (y0 + 1 + k) with (y0 + (k + 1)) by lia. apply (H (k + 1) r'); [|exact Hj].
    rewrite zget_cons_S by lia. replace (k + 1 - 1) with k by lia. exact Hk.
Qed.

Lemma render_run_ok cols rows (s : surface Z) : 0 <= cols -> 0 <= rows ->
  render_ok ((cols, rows, s), render_run (cols, rows, s)) = true.
Proof.
  intros Hc Hr. unfold render_ok. destruct (render_run (cols, rows, s)) as [out scr] eqn:Erun.
  destruct (tree_wf_b s) eqn:Ewf; [|reflexivity]. revert Erun.
  apply tree_wf_b_sound in Ewf. unfold render_run, render.
  destruct (render_gen_spec stable_perm s Ewf [(0, 0, cols, rows)] ltac:(discriminate)) as (ps & E & Hps).
  rewrite E.
  destruct (screen_apply_spec ps (new_screen 0 cols rows) (new_screen_wf 0 cols rows Hc Hr))
    as (sc & E2 & (_ & _ & Hlen & Hall) & Ec & Er & Hget).
  rewrite E2. intros Erun; injection Erun as <- <-.
  cbn [new_screen sc_cols sc_rows] in Ec, Er, Hget. rewrite Ec in Hall. rewrite Er in Hlen.
  replace (0 =? 0) with true by reflexivity. rewrite Hlen, Z.eqb_refl. cbn [andb].
  apply andb_true_intro; split.
  - apply forallb_forall. intros r Hin. rewrite Forall_forall in Hall. rewrite (Hall r Hin). apply Z.eqb_refl.
  - apply all_rows_intro. intros k r Hk j c Hj. cbn [Z.add].
    pose proof (zget_some_range _ _ _ Hk) as Hkr. rewrite Hlen in Hkr.
    assert (Hrl : zlen r = cols) by (rewrite Forall_forall in Hall; apply Hall; eapply zget_In; eauto).
    pose proof (zget_some_range _ _ _ Hj) as Hjr. rewrite Hrl in Hjr.
    specialize (Hget j k Hjr Hkr). unfold screen_get in Hget at 1. rewrite Hk, Hj in Hget.
    rewrite Hps in Hget. cbn [win_org win_clip] in Hget.
    replace (in_rect (0 + 0) (0 + 0) cols rows j k && true) with true in Hget by (unfold in_rect; lia).
    replace (0 + 0) with 0 in Hget by lia.
    destruct (shown stable_perm s 0 0 j k) as [v|].
    + injection Hget as ->. apply Z.eqb_refl.
    + unfold screen_get, new_screen in Hget; cbn [sc_buf] in Hget.
      rewrite zget_zrepeat in Hget by lia. rewrite zget_zrepeat in Hget by lia.
      injection Hget as ->. reflexivity.
Qed.

(* ------------------------------------------------------------------ clipped to ALL ancestors, any window *)

(* the path of a painted cell: the rectangles (absolute origin, size) of the nodes from the
   root's child down to the node whose buffer holds the cell *)
Inductive paint_path {A} : surface A -> Z -> Z -> Z -> Z -> A -> list frame -> Prop :=
| PP_own w h buf kids ox oy x y c :
    in_rect ox oy w h x y = true -> zget buf ((y - oy) * w + (x - ox)) = Some c ->
    paint_path (Surf w h buf kids) ox oy x y c []
| PP_kid w h buf kids ox oy x y c col row z ch path :
    In (col, row, z, ch) kids -> paint_path ch (ox + col) (oy + row) x y c path ->
    paint_path (Surf w h buf kids) ox oy x y c ((ox + col, oy + row, s_w ch, s_h ch) :: path).

Lemma fold_later_some {A} (l : list (option A)) : forall own c,
  fold_left later l own = Some c -> own = Some c \/ In (Some c) l.
Proof.
  induction l as [|o t IH]; intros own c H; cbn [fold_left] in H; [left; exact H|].
  destruct (IH _ _ H) as [E|Hin]; [|right; right; exact Hin].
  destruct o as [v|]; cbn [later] in E; [right; left; exact E | left; exact E].
Qed.

Lemma reorder_in {B} (perm : list nat) (l : list B) b : In b (reorder perm l) -> In b l.
Proof.
  unfold reorder. intros H. apply in_flat_map in H. destruct H as (i & _ & H).
  destruct (nth_error l i) as [v|] eqn:E; [|destruct H]. destruct H as [<-|[]].
  eapply nth_error_In; eauto.
Qed.

(* whatever [shown] shows at a point is a buffer cell of some node, and the point is inside
   the rectangle of every node on the path from the root's child to that node *)
Lemma shown_paint_path {A} (sorter : list Z -> list nat) : forall (s : surface A) ox oy x y c,
  shown sorter s ox oy x y = Some c ->
  exists path, paint_path s ox oy x y c path /\ Forall (fun r => rect_has r x y = true) path.
Proof.
  induction s as [w h buf kids IH] using surface_ind'. intros ox oy x y c H.
  cbn [shown] in H. apply fold_later_some in H. destruct H as [H|H].
  - destruct (in_rect ox oy w h x y) eqn:Ein; [|discriminate].
    exists []. split; [constructor; assumption | constructor].
  - apply reorder_in in H. apply in_map_iff in H. destruct H as ([[[col row] z] ch] & E & Hin).
    destruct (in_rect (ox + col) (oy + row) (s_w ch) (s_h ch) x y) eqn:Ein; [|discriminate].
    rewrite Forall_forall in IH. specialize (IH _ Hin). cbn [kid_surf] in IH.
    destruct (IH _ _ _ _ _ E) as (path & Hp & Hall).
    exists ((ox + col, oy + row, s_w ch, s_h ch) :: path). split.
    + econstructor; eassumption.
    + constructor; [exact Ein | exact Hall].
Qed.

Lemma paint_path_justified : forall (s : surface Z) ox oy x y v path,
  paint_path s ox oy x y v path -> Forall (fun r => rect_has r x y = true) path ->
  justified s ox oy x y v = true.
Proof.
  intros s ox oy x y v path Hp. induction Hp as [w h buf kids ox oy x y c Hin Hget | w h buf kids ox oy x y c col row z ch path Hin Hp IH];
    intros Hall; cbn [justified].
  - rewrite Hin, Hget, Z.eqb_refl. reflexivity.
  - apply orb_true_intro. right. apply existsb_exists. exists (col, row, z, ch). split; [exact Hin|].
    inversion Hall as [|? ? Hr Ht]; subst. cbn [rect_has] in Hr. rewrite Hr. cbn [andb]. apply IH, Ht.
Qed.

Lemma justified_paint_path : forall (s : surface Z) ox oy x y v,
  justified s ox oy x y v = true ->
  exists path, paint_path s ox oy x y v path /\ Forall (fun r => rect_has r x y = true) path.
Proof.
  induction s as [w h buf kids IH] using surface_ind'. intros ox oy x y v H.
  cbn [justified] in H. apply orb_prop in H. destruct H as [H|H].
  - apply andb_prop in H. destruct H as [Hin Hc].
    destruct (zget buf ((y - oy) * w + (x - ox))) as [c|] eqn:Eg; [|discriminate].
    assert (c = v) by lia; subst c. exists []. split; [constructor; assumption | constructor].
  - apply existsb_exists in H. destruct H as ([[[col row] z] ch] & Hin & H).
    apply andb_prop in H. destruct H as [Hr Hj].
    rewrite Forall_forall in IH. specialize (IH _ Hin). cbn [kid_surf] in IH.
    destruct (IH _ _ _ _ _ Hj) as (path & Hp & Hall).
    exists ((ox + col, oy + row, s_w ch, s_h ch) :: path). split.
    + econstructor; eassumption.
    + constructor; [exact Hr | exact Hall].
Qed.

Lemma shown_justified (sorter : list Z -> list nat) (s : surface Z) ox oy x y v :
  shown sorter s ox oy x y = Some v -> justified s ox oy x y v = true.
Proof.
  intros H. destruct (shown_paint_path sorter s ox oy x y v H) as (path & Hp & Hall).
  eapply paint_path_justified; eassumption.
Qed.

(* render into ANY window (larger than, equal to or smaller than the root surface; any chain of
   Window.New frames), on any screen: every screen cell is either untouched or shows a buffer
   cell of some node of the tree at that node's offset, inside the window's clip and inside the
   rectangle of every ancestor of that node below the root. *)
Lemma render_clipped_to_ancestors {A} (sorter : list Z -> list nat) (s : surface A) win (sc : screen A) :
  wf_tree s -> win <> [] -> screen_wf sc ->
  exists ps sc', render_gen sorter win s = Some ps /\ screen_apply sc ps = Some sc' /\
    forall x y, 0 <= x < sc_cols sc -> 0 <= y < sc_rows sc ->
      screen_get sc' x y = screen_get sc x y \/
      exists c path, screen_get sc' x y = Some c /\ win_clip win x y = true /\
        paint_path s (fst (win_org win)) (snd (win_org win)) x y c path /\
        Forall (fun r => rect_has r x y = true) path.
Proof.
  intros Hs Hne Hsc.
  destruct (render_paints_screen sorter s win sc Hs Hne Hsc) as (ps & sc' & E1 & E2 & _ & _ & Hget).
  exists ps, sc'. split; [exact E1|]. split; [exact E2|]. intros x y Hx Hy.
  specialize (Hget x y Hx Hy). destruct (win_org win) as [ox oy]. cbn [fst snd].
  destruct (win_clip win x y) eqn:Eclip; [|left; exact Hget].
  destruct (shown sorter s ox oy x y) as [c|] eqn:Esh; [|left; exact Hget].
  right. destruct (shown_paint_path sorter s ox oy x y c Esh) as (path & Hp & Hall).
  exists c, path. repeat split; assumption.
Qed.

(* a Window.New frame for a child is never larger than the child: a window exceeds its surface
   only at the root *)
Lemma win_new_within (win : window) col row cols rows :
  0 <= cols -> 0 <= rows ->
  win_w (win_new win col row cols rows) <= cols /\ win_h (win_new win col row cols rows) <= rows.
Proof.
  intros Hc Hr. unfold win_new; cbn [win_w win_h].
  replace (cols <? 0) with false by lia. replace (rows <? 0) with false by lia.
  destruct (cols + col >? win_w win) eqn:E1; destruct (rows + row >? win_h win) eqn:E2; lia.
Qed.

(* ... and Window.New(0,0,w,h) of a window no larger than w x h clips exactly as that window:
   sharing the parent's window with a same-size child at (0,0) is equivalent below the root only *)
Lemma win_new_same_size (win : window) w h x y :
  win <> [] -> 0 <= w -> 0 <= h -> win_w win <= w -> win_h win <= h ->
  win_clip (win_new win 0 0 w h) x y = win_clip win x y.
Proof.
  intros Hne Hw Hh Hww Hwh.
  pose proof (win_new_spec win 0 0 w h x y Hne Hw Hh) as H.
  destruct (win_org win) as [ox oy] eqn:Eorg. destruct H as [_ ->].
  destruct win as [|[[[c r] ww] wh] p]; [congruence|].
  cbn [win_clip]. rewrite Eorg. cbn [win_w win_h] in Hww, Hwh.
  unfold in_rect. destruct (win_clip p x y); lia.
Qed.

(* ------------------------------------------------------------------ the model meets the strengthened checks *)

Lemma all_rows_and (f g : Z -> Z -> Z -> bool) : forall rows y0,
  all_rows f y0 rows = true -> all_rows g y0 rows = true ->
  all_rows (fun x y c => f x y c && g x y c) y0 rows = true.
Proof.
  induction rows as [|r t IH]; intros y0 Hf Hg; [reflexivity|]. cbn [all_rows] in *.
  apply andb_prop in Hf. apply andb_prop in Hg. destruct Hf as [Hf1 Hf2], Hg as [Hg1 Hg2].
  apply andb_true_intro; split; [|apply IH; assumption].
  clear - Hf1 Hg1. generalize dependent 0. induction r as [|c l IHl]; intros x0 Hf Hg; [reflexivity|].
  apply andb_prop in Hf. apply andb_prop in Hg. destruct Hf as [Hf1 Hf2], Hg as [Hg1 Hg2].
  rewrite Hf1, Hg1. cbn [andb]. apply IHl; assumption.
Qed.

Lemma all_rows_impl (f g : Z -> Z -> Z -> bool) : (forall x y c, f x y c = true -> g x y c = true) ->
  forall rows y0, all_rows f y0 rows = true -> all_rows g y0 rows = true.
Proof.
  intros Himp. induction rows as [|r t IH]; intros y0 Hf; [reflexivity|]. cbn [all_rows] in *.
  apply andb_prop in Hf. destruct Hf as [Hf1 Hf2].
  apply andb_true_intro; split; [|apply IH; assumption].
  clear - Hf1 Himp. generalize dependent 0. induction r as [|c l IHl]; intros x0 Hf; [reflexivity|].
  apply andb_prop in Hf. destruct Hf as [Hf1 Hf2].
  rewrite (Himp _ _ _ Hf1). cbn [andb]. apply IHl; assumption.
Qed.

(* exact agreement with [shown] inside the clip implies the clipping clause *)
Lemma shown_rows_clipped (win : window) (s : surface Z) scr :
  all_rows (fun x y c => match (if win_clip win x y then shown stable_perm s (fst (win_org win)) (snd (win_org win)) x y else None) with
                         | Some v => c =? v | None => c =? 0 end) 0 scr = true ->
  clipped_ok win s scr = true.
Proof.
  unfold clipped_ok. destruct (win_org win) as [ox oy]. cbn [fst snd].
  apply all_rows_impl. intros x y c H.
  destruct (win_clip win x y) eqn:Eclip; [|rewrite H; reflexivity].
  destruct (shown stable_perm s ox oy x y) as [v|] eqn:Esh; [|rewrite H; reflexivity].
  assert (c = v) by lia; subst c. rewrite (shown_justified _ _ _ _ _ _ _ Esh). cbn [andb]. apply orb_true_r.
Qed.

Lemma fold_win_new_ne : forall (fr : list frame) (w0 : window), w0 <> [] ->
  fold_left (fun win (f : frame) => let '(c, r, w, h) := f in win_new win c r w h) fr w0 <> [].
Proof.
  induction fr as [|[[[c r] w] h] t IH]; intros w0 H0; cbn [fold_left]; [exact H0|].
  apply IH. unfold win_new. discriminate.
Qed.

Lemma win_chain_ne cols rows frames : win_chain cols rows frames <> [].
Proof. unfold win_chain. apply fold_win_new_ne. discriminate. Qed.

Lemma renderwin_run_ok cols rows frames (s : surface Z) : 0 <= cols -> 0 <= rows ->
  renderwin_ok ((cols, rows, frames, s), renderwin_run (cols, rows, frames, s)) = true.
Proof.
  intros Hc Hr. unfold renderwin_ok. destruct (renderwin_run (cols, rows, frames, s)) as [out scr] eqn:Erun.
  destruct (tree_wf_b s) eqn:Ewf; [|reflexivity]. revert Erun.
  apply tree_wf_b_sound in Ewf. unfold renderwin_run, render.
  set (win := win_chain cols rows frames).
  assert (Hne : win <> []) by apply win_chain_ne.
  destruct (render_gen_spec stable_perm s Ewf win Hne) as (ps & E & Hps).
  rewrite E.
  destruct (screen_apply_spec ps (new_screen 0 cols rows) (new_screen_wf 0 cols rows Hc Hr))
    as (sc & E2 & (_ & _ & Hlen & Hall) & Ec & Er & Hget).
  rewrite E2. intros Erun; injection Erun as <- <-.
  cbn [new_screen sc_cols sc_rows] in Ec, Er, Hget. rewrite Ec in Hall. rewrite Er in Hlen.
  assert (Hrows : all_rows (fun x y c => match (if win_clip win x y then shown stable_perm s (fst (win_org win)) (snd (win_org win)) x y else None) with
                         | Some v => c =? v | None => c =? 0 end) 0 (sc_buf sc) = true).
  { apply all_rows_intro. intros k r Hk j c Hj. cbn [Z.add].
    pose proof (zget_some_range _ _ _ Hk) as Hkr. rewrite Hlen in Hkr.
    assert (Hrl : zlen r = cols) by (rewrite Forall_forall in Hall; apply Hall; eapply zget_In; eauto).
    pose proof (zget_some_range _ _ _ Hj) as Hjr. rewrite Hrl in Hjr.
    specialize (Hget j k Hjr Hkr). unfold screen_get in Hget at 1. rewrite Hk, Hj in Hget.
    rewrite Hps in Hget. destruct (win_org win) as [ox oy]. cbn [fst snd].
    destruct (if win_clip win j k then shown stable_perm s ox oy j k else None) as [v|].
    + injection Hget as ->. apply Z.eqb_refl.
    + unfold screen_get, new_screen in Hget; cbn [sc_buf] in Hget.
      rewrite zget_zrepeat in Hget by lia. rewrite zget_zrepeat in Hget by lia.
      injection Hget as ->. reflexivity. }
  pose proof (shown_rows_clipped win s _ Hrows) as Hclip.
  destruct (win_org win) as [ox oy] eqn:Eorg. cbn [fst snd] in Hrows.
  replace (0 =? 0) with true by reflexivity. rewrite Hlen, Z.eqb_refl. cbn [andb].
  rewrite Hrows, Hclip, !andb_true_r.
  apply forallb_forall. intros r Hin. rewrite Forall_forall in Hall. rewrite (Hall r Hin). apply Z.eqb_refl.
Qed.

Lemma render_run_ok2 cols rows (s : surface Z) : 0 <= cols -> 0 <= rows ->
  render_ok2 ((cols, rows, s), render_run (cols, rows, s)) = true.
Proof.
  intros Hc Hr. unfold render_ok2. rewrite render_run_ok by assumption. cbn [andb].
  pose proof (renderwin_run_ok cols rows [] s Hc Hr) as H. unfold renderwin_ok in H.
  change (renderwin_run (cols, rows, [], s)) with (render_run (cols, rows, s)) in H.
  destruct (render_run (cols, rows, s)) as [out scr]. destruct (tree_wf_b s); [|reflexivity].
  change (win_chain cols rows []) with [(0, 0, cols, rows)] in H.
  destruct (win_org [(0, 0, cols, rows)]) as [ox oy]. apply andb_prop in H. exact (proj2 H).
Qed.


(* ------------------------------------------------------------------ App.Run's call: clipped to the root surface as well *)

Lemma app_window_clip {A} cols rows (s : surface A) x y : 0 <= s_w s -> 0 <= s_h s ->
  win_org (app_window cols rows s) = (0, 0) /\
  win_clip (app_window cols rows s) x y = in_rect 0 0 cols rows x y && in_rect 0 0 (s_w s) (s_h s) x y.
Proof.
  intros Hw Hh. unfold app_window.
  pose proof (win_new_spec [(0, 0, cols, rows)] 0 0 (s_w s) (s_h s) x y ltac:(discriminate) Hw Hh) as H.
  cbn [win_org] in H. cbn [Z.add] in H. destruct H as [H1 H2]. split; [exact H1|].
  rewrite H2. cbn [win_clip win_org]. cbn [Z.add]. rewrite andb_true_r. reflexivity.
Qed.

(* under App.Run's call: every painted cell also lies inside the root surface *)
Lemma apprun_clipped_to_root {A} (sorter : list Z -> list nat) (s : surface A) cols rows (sc : screen A) :
  wf_tree s -> screen_wf sc ->
  exists ps sc', render_gen sorter (app_window cols rows s) s = Some ps /\ screen_apply sc ps = Some sc' /\
    forall x y, 0 <= x < sc_cols sc -> 0 <= y < sc_rows sc ->
      screen_get sc' x y = screen_get sc x y \/
      exists c path, screen_get sc' x y = Some c /\
        in_rect 0 0 (s_w s) (s_h s) x y = true /\ in_rect 0 0 cols rows x y = true /\
        paint_path s 0 0 x y c path /\ Forall (fun r => rect_has r x y = true) path.
Proof.
  intros Hs Hsc. pose proof (wf_tree_node s Hs) as (Hw & Hh & _).
  destruct (render_clipped_to_ancestors sorter s (app_window cols rows s) sc Hs ltac:(unfold app_window, win_new; discriminate) Hsc)
    as (ps & sc' & E1 & E2 & H).
  exists ps, sc'. split; [exact E1|]. split; [exact E2|]. intros x y Hx Hy.
  destruct (H x y Hx Hy) as [Hu|(c & path & Hg & Hclip & Hp & Hall)]; [left; exact Hu|].
  right. destruct (app_window_clip cols rows s x y ltac:(lia) ltac:(lia)) as [Eorg Eclip].
  rewrite Eorg in Hp. cbn [fst snd] in Hp. rewrite Eclip in Hclip. apply andb_prop in Hclip.
  exists c, path. repeat split; try tauto.
Qed.

Lemma apprun_run_ok cols rows (s : surface Z) : 0 <= cols -> 0 <= rows ->
  apprun_ok ((cols, rows, s), apprun_run (cols, rows, s)) = true.
Proof.
  intros Hc Hr. unfold apprun_ok, apprun_run. cbv beta iota.
  match goal with |- context [renderwin_run ?i] => set (o := renderwin_run i); set (inp := i) in * end.
  assert (H : renderwin_ok (inp, o) = true) by (apply renderwin_run_ok; assumption).
  clearbody o. destruct o as [out scr]. subst inp.
  apply andb_true_intro; split; [exact H|]. unfold renderwin_ok in H.
  destruct (tree_wf_b s) eqn:Ewf; [|reflexivity].
  apply tree_wf_b_sound in Ewf. pose proof (wf_tree_node s Ewf) as (Hw & Hh & _).
  change (win_chain cols rows [(0, 0, s_w s, s_h s)]) with (app_window cols rows s) in H.
  destruct (win_org (app_window cols rows s)) as [ox oy].
  apply andb_prop in H. destruct H as [H _]. apply andb_prop in H. destruct H as [_ H].
  unfold root_clip_ok. revert H. apply all_rows_impl. intros x y c H.
  destruct (app_window_clip cols rows s x y ltac:(lia) ltac:(lia)) as [_ Eclip].
  destruct (win_clip (app_window cols rows s) x y) eqn:E.
  - symmetry in Eclip. apply andb_prop in Eclip. rewrite (proj2 Eclip). apply orb_true_r.
  - rewrite H. reflexivity.
Qed.


(* ---------------------------------------------------------------- App.Run over a history of resizes *)

Lemma apprun_fst_wf i : 0 <= fst (fst i) -> 0 <= snd (fst i) -> tree_wf_b (snd i) = true ->
  fst (apprun_run i) = 0.
Proof.
  destruct i as [[cols rows] s]. cbn [fst snd]. intros Hc Hr Hwf.
  pose proof (apprun_run_ok cols rows s Hc Hr) as H.
  destruct (apprun_run (cols, rows, s)) as [out scr]. cbn [fst].
  unfold apprun_ok in H. apply andb_prop in H. destruct H as [H _].
  unfold renderwin_ok in H. rewrite Hwf in H.
  destruct (win_org (win_chain cols rows [(0, 0, s_w s, s_h s)])) as [ox oy].
  repeat (apply andb_prop in H; destruct H as [H ?]). apply Z.eqb_eq in H. exact H.
Qed.

Lemma apphist_frames_run_ok inp : sizes_nonneg inp = true ->
  apphist_frames_ok inp (map snd (map apprun_run inp)) = true \/
  exists i, In i inp /\ fst (apprun_run i) <> 0.
Proof.
  induction inp as [|i inp IH]; intros Hs; [left; reflexivity|].
  cbn [sizes_nonneg forallb] in Hs. apply andb_prop in Hs. destruct Hs as [Hi Hs].
  apply andb_prop in Hi. destruct Hi as [Hc Hr]. apply Z.leb_le in Hc. apply Z.leb_le in Hr.
  destruct (Z.eq_dec (fst (apprun_run i)) 0) as [E0|N0].
  - destruct (IH Hs) as [H|(j & Hj & Hn)].
    + left. cbn [map apphist_frames_ok]. rewrite H, andb_true_r.
      destruct i as [[cols rows] s]. cbn [fst snd] in *.
      pose proof (apprun_run_ok cols rows s Hc Hr) as Hok.
      destruct (apprun_run (cols, rows, s)) as [out scr]. cbn [fst snd] in *. subst out. exact Hok.
    + right. exists j. split; [right; exact Hj|exact Hn].
  - right. exists i. split; [left; reflexivity|exact N0].
Qed.

Lemma apphist_run_ok inp : sizes_nonneg inp = true -> apphist_ok (inp, apphist_run inp) = true.
Proof.
  intros Hs. unfold apphist_ok, apphist_run.
  destruct (forallb (fun i : render_input => tree_wf_b (snd i)) inp) eqn:Ewf;
    [|destruct (existsb _ _); reflexivity].
  assert (Hall : forall i, In i inp -> fst (apprun_run i) = 0).
  { intros i Hi. rewrite forallb_forall in Ewf. unfold sizes_nonneg in Hs. rewrite forallb_forall in Hs.
    specialize (Hs i Hi). apply andb_prop in Hs. destruct Hs as [Hc Hr].
    apply Z.leb_le in Hc. apply Z.leb_le in Hr. apply apprun_fst_wf; auto. }
  assert (Eex : existsb (fun r : render_obs => fst r =? 1) (map apprun_run inp) = false).
  { apply not_true_is_false. intros H. apply existsb_exists in H. destruct H as (r & Hr & H1).
    apply in_map_iff in Hr. destruct Hr as (i & <- & Hi). rewrite (Hall i Hi) in H1. discriminate. }
  rewrite Eex. cbn [Z.eqb andb].
  destruct (apphist_frames_run_ok inp Hs) as [H|(j & Hj & Hn)]; [exact H|].
  exfalso. apply Hn. apply Hall. exact Hj.
Qed.

(* the model's history has no disagreement with itself and every frame depends on its own step only *)
Lemma apphist_run_frame inp k i : sizes_nonneg inp = true ->
  forallb (fun i : render_input => tree_wf_b (snd i)) inp = true ->
  nth_error inp k = Some i ->
  fst (apphist_run inp) = 0 /\ nth_error (snd (apphist_run inp)) k = Some (snd (apprun_run i)).
Proof.
  intros Hs Ewf Hk. unfold apphist_run.
  assert (Eex : existsb (fun r : render_obs => fst r =? 1) (map apprun_run inp) = false).
  { apply not_true_is_false. intros H. apply existsb_exists in H. destruct H as (r & Hr & H1).
    apply in_map_iff in Hr. destruct Hr as (j & <- & Hj).
    rewrite forallb_forall in Ewf. unfold sizes_nonneg in Hs. rewrite forallb_forall in Hs.
    specialize (Hs j Hj). apply andb_prop in Hs. destruct Hs as [Hc Hr].
    apply Z.leb_le in Hc. apply Z.leb_le in Hr. rewrite (apprun_fst_wf j Hc Hr (Ewf j Hj)) in H1. discriminate. }
  rewrite Eex. cbn [fst snd]. split; [reflexivity|].
  rewrite !map_map. rewrite nth_error_map, Hk. reflexivity.
Qed.

Example apphist_cached_refuted :
  sizes_nonneg grow_hist = true /\
  apphist_run grow_hist = (0, [[[1;2;3;4;5];[6;7;8;9;10]]; [[11;12;13]]; [[21;22;23;24;25;26];[27;28;29;30;41;42]]]) /\
  apphist_cached_run grow_hist = (0, [[[1;2;3;4;5];[6;7;8;9;10]]; [[11;12;13]]; [[21;22;23;0;0;0];[0;0;0;0;0;0]]]) /\
  apphist_ok (grow_hist, apphist_cached_run grow_hist) = false /\
  apphist_obs_eqb (apphist_run grow_hist) (apphist_cached_run grow_hist) = false.
Proof. repeat split; vm_compute; reflexivity. Qed.

(* z-order is the mathematical order of the integers: an overlay at MaxInt (2^63-1) over a
   background at -1, whichever is added first; MinInt below everything *)
Example z_extreme_order :
  let maxint := 9223372036854775807 in let minint := -9223372036854775808 in
  let bg := Surf 2 1 [7;8] [] in let ov := Surf 1 1 [9] [] in let lo := Surf 2 1 [5;6] [] in
  stable_perm [-1; maxint] = [0%nat; 1%nat] /\ stable_perm [maxint; -1] = [1%nat; 0%nat] /\
  stable_perm [-1; maxint; 0] = [0%nat; 2%nat; 1%nat] /\ stable_perm [1; minint; maxint; -1] = [1%nat; 3%nat; 0%nat; 2%nat] /\
  render_run (3, 1, Surf 3 1 [1;2;3] [(0, 0, -1, bg); (0, 0, maxint, ov)]) = (0, [[9;8;3]]) /\
  render_run (3, 1, Surf 3 1 [1;2;3] [(0, 0, maxint, ov); (0, 0, -1, bg)]) = (0, [[9;8;3]]) /\
  render_run (3, 1, Surf 3 1 [1;2;3] [(0, 0, -1, bg); (0, 0, maxint, ov); (0, 0, minint, lo)]) = (0, [[9;8;3]]).
Proof. cbv zeta. repeat split; vm_compute; reflexivity. Qed.
