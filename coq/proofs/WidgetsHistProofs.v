(* C14 — proofs about model/WidgetsHist.v: the layout contract along a history of draws on one
   widget object, and which widgets' Draw is a function of (fields, constraint) only. *)
From Vx Require Import base.Prelude base.ListX model.Surface model.Widgets model.WidgetsHist
  proofs.SurfaceProofs proofs.WidgetsProofs.
From Coq Require Import ZifyBool.

(* ------------------------------------------------------------------ fresh state, stateless widgets *)

Lemma center_draw_const (f : Z -> Z -> cres) maxw maxh :
  center_draw (fun _ _ => f maxw maxh) maxw maxh = center_draw f maxw maxh.
Proof. unfold center_draw. reflexivity. Qed.

Lemma center_draw_unbounded (f : Z -> Z -> cres) maxw maxh :
  unbounded maxw maxh = true -> center_draw f maxw maxh = DPanic.
Proof. unfold unbounded, center_draw. intros ->. reflexivity. Qed.

(* Draw on an object in the state it is built with is the [draw] of model/Widgets.v *)
Lemma sdraw_fresh : forall ws maxw maxh, snd (sdraw ws 0 maxw maxh) = draw ws maxw maxh.
Proof.
  induction ws as [r soft lines|ch IH|lines|chars|drawcur gap items]; intros maxw maxh;
    try reflexivity.
  - cbn [sdraw draw]. destruct (unbounded maxw maxh) eqn:Eu.
    + cbn [snd]. symmetry. apply center_draw_unbounded, Eu.
    + specialize (IH maxw maxh). destruct (sdraw ch 0 maxw maxh) as [t' r]. cbn [snd] in *. subst r.
      apply (center_draw_const (fun mw mh => cres_of (draw ch mw mh))).
  - cbn [sdraw draw]. unfold list_draw_at, unbounded.
    destruct ((maxh =? 65535) || (maxw =? 65535)); [reflexivity|].
    cbn [Z.to_nat skipn].
    destruct (list_loop _ _ _ 0 gap maxh) as [s|]; [|reflexivity].
    unfold list_finish_at. cbn [Z.eqb].
    destruct (list_finish drawcur s maxw); reflexivity.
Qed.

(* A tree without a reachable Dynamic: Draw writes nothing and does not read [top] *)
Lemma sdraw_stateless : forall ws top maxw maxh,
  scroll_root ws = false -> sdraw ws top maxw maxh = (top, draw ws maxw maxh).
Proof.
  induction ws as [r soft lines|ch IH|lines|chars|drawcur gap items]; intros top maxw maxh Hs;
    try reflexivity; [|discriminate].
  cbn [scroll_root] in Hs. cbn [sdraw draw]. destruct (unbounded maxw maxh) eqn:Eu.
  - rewrite center_draw_unbounded by exact Eu. reflexivity.
  - rewrite (IH top maxw maxh Hs).
    rewrite (center_draw_const (fun mw mh => cres_of (draw ch mw mh))). reflexivity.
Qed.

(* a panic leaves the state as it was *)
Lemma sdraw_panic_keeps : forall ws top maxw maxh,
  snd (sdraw ws top maxw maxh) = DPanic -> fst (sdraw ws top maxw maxh) = top.
Proof.
  induction ws as [r soft lines|ch IH|lines|chars|drawcur gap items]; intros top maxw maxh;
    try reflexivity.
  - cbn [sdraw]. destruct (unbounded maxw maxh) eqn:Eu; [reflexivity|].
    specialize (IH top maxw maxh). destruct (sdraw ch top maxw maxh) as [t' r]. cbn [fst snd] in *.
    intros Hp. apply IH. destruct r as [|chS]; [reflexivity|].
    exfalso. unfold center_draw in Hp. unfold unbounded in Eu. rewrite Eu in Hp. cbn in Hp. discriminate.
  - cbn [sdraw]. unfold list_draw_at. destruct (unbounded maxw maxh); [reflexivity|].
    destruct (list_loop _ _ _ 0 gap maxh) as [s|]; [|reflexivity].
    destruct (list_finish_at top drawcur s maxw); [cbn; discriminate | reflexivity].
Qed.

(* ------------------------------------------------------------------ the contract in every state *)

Lemma In_skipn {A} (x : A) n : forall l, In x (skipn n l) -> In x l.
Proof.
  induction n as [|n IH]; intros l H; [exact H|].
  destruct l as [|a t]; [exact H|]. right. apply IH. exact H.
Qed.

Lemma list_finish_at_spec top drawcur (s : wsurface) maxw : wf_tree s -> 0 <= maxw < 65536 ->
  exists s', list_finish_at top drawcur s maxw = Some s' /\ wf_tree s' /\ s_w s' = s_w s /\ s_h s' = s_h s.
Proof.
  intros Hs Hw. unfold list_finish_at. destruct (top =? 0); [apply list_finish_spec; assumption|].
  destruct drawcur; cbn [negb].
  - destruct (gutter_keeps (Z.to_nat (s_h s)) s 0 Hs ltac:(lia)) as (s1 & E1 & K1 & K2 & K3 & _).
    exists s1; repeat split; assumption.
  - exists s; repeat split; auto.
Qed.

Definition sdraw_contract (ws : wspec) (top maxw maxh : Z) : Prop :=
  match snd (sdraw ws top maxw maxh) with
  | DOk s => wf_tree s /\ 0 <= s_w s <= maxw /\ 0 <= s_h s <= maxh
  | DPanic => contract_panic ws maxw maxh = true
  end.

(* whatever scroll state earlier draws have left: a panic only where documented, otherwise a
   well-formed surface tree no larger than the maximum *)
Lemma sdraw_contract_all : forall ws top maxw maxh,
  0 <= maxw < 65536 -> 0 <= maxh < 65536 -> sdraw_contract ws top maxw maxh.
Proof.
  induction ws as [r soft lines|ch IH|lines|chars|drawcur gap items]; intros top maxw maxh Hw Hh;
    unfold sdraw_contract;
    try (cbn [sdraw snd]; exact (draw_contract_all _ maxw maxh Hw Hh)).
  - cbn [sdraw contract_panic]. unfold unbounded.
    destruct ((maxh =? 65535) || (maxw =? 65535)) eqn:Eu; [reflexivity|]. cbn [orb].
    specialize (IH top maxw maxh Hw Hh). unfold sdraw_contract in IH.
    destruct (sdraw ch top maxw maxh) as [t' r]. cbn [fst snd] in *.
    destruct r as [|chS].
    + pose proof (center_draw_spec (fun _ _ => cres_of DPanic) maxw maxh ltac:(lia) ltac:(lia)) as H.
      cbn [cres_of] in H |- *. rewrite H. exact IH.
    + destruct (center_draw_ok (fun _ _ => cres_of (DOk chS)) maxw maxh chS ltac:(lia) ltac:(lia))
        as (s & E & Hs & E1 & E2 & _); [reflexivity | apply IH|].
      rewrite E. repeat split; try assumption; lia.
  - cbn [sdraw contract_panic]. unfold list_draw_at, unbounded.
    destruct ((maxh =? 65535) || (maxw =? 65535)) eqn:Eu; [reflexivity|]. cbn [orb].
    set (off := if drawcur then 2 else 0).
    set (rs := map (fun it => draw it (u16 (maxw - off)) 65535) (skipn (Z.to_nat top) items)).
    assert (Hrs : Forall dres_wf rs).
    { subst rs. apply Forall_map. apply Forall_forall. intros it _.
      pose proof (draw_contract_all it (u16 (maxw - off)) 65535 (u16_range _) ltac:(lia)) as Hit.
      unfold draw_contract in Hit.
      destruct (draw it (u16 (maxw - off)) 65535); cbn [dres_wf]; tauto. }
    pose proof (list_loop_spec rs (new_surface wblank maxw maxh) off 0 gap maxh
                  (new_surface_wf_tree wblank maxw maxh Hw Hh) Hrs) as Hl.
    destruct (list_loop (new_surface wblank maxw maxh) rs off 0 gap maxh) as [s|].
    + destruct Hl as (L1 & L2 & L3).
      destruct (list_finish_at_spec top drawcur s maxw L1 Hw) as (s' & E & F1 & F2 & F3). rewrite E.
      cbn [snd]. cbn [new_surface s_w s_h] in L2, L3. repeat split; try assumption; lia.
    + cbn [snd]. subst rs. apply in_map_iff in Hl. destruct Hl as (it & Hd & Hin).
      apply In_skipn in Hin.
      pose proof (draw_contract_all it (u16 (maxw - off)) 65535 (u16_range _) ltac:(lia)) as Hit.
      unfold draw_contract in Hit. rewrite Hd in Hit.
      apply existsb_exists. exists it; split; [exact Hin|].
      eapply contract_panic_needs_bounded; exact Hit.
Qed.

(* every widget of the tree drawn in that state is within the maximum it was given *)
Lemma list_finish_at_items top drawcur (s s' : wsurface) maxw W : wf_tree s -> 0 <= maxw < 65536 ->
  list_finish_at top drawcur s maxw = Some s' -> Forall (placed (list_off drawcur) W) (s_kids s) ->
  Forall (fun k => s_w (item_surf drawcur k) <= W) (s_kids s').
Proof.
  intros Hs Hw. unfold list_finish_at. destruct (top =? 0); [apply list_finish_items; assumption|].
  destruct drawcur; cbn [negb].
  - destruct (gutter_keeps (Z.to_nat (s_h s)) s 0 Hs ltac:(lia)) as (s1 & E1 & _ & _ & _ & Hk1).
    rewrite E1. intros E Hk; injection E as <-. rewrite Hk1.
    eapply Forall_impl; [|exact Hk]. apply (placed_item_surf true).
  - intros E Hk; injection E as <-. eapply Forall_impl; [|exact Hk]. apply (placed_item_surf false).
Qed.

Lemma tree_ok_sdraw : forall ws top maxw maxh s, 0 <= maxw < 65536 -> 0 <= maxh < 65536 ->
  snd (sdraw ws top maxw maxh) = DOk s -> tree_ok ws maxw maxh (observe s) = true.
Proof.
  induction ws as [r soft lines|ch IH|lines|chars|drawcur gap items];
    intros top maxw maxh s Hw Hh Ed;
    try (cbn [sdraw snd] in Ed; exact (tree_ok_draw _ maxw maxh s Hw Hh Ed));
    match type of Ed with snd (sdraw ?w _ _ _) = _ =>
      pose proof (sdraw_contract_all w top maxw maxh Hw Hh) as Hc end;
    unfold sdraw_contract in Hc; rewrite Ed in Hc; destruct Hc as (Hwf & Hsw & Hsh);
    cbn [tree_ok]; destruct (observe_shape s) as (Eow & Eoh & Ek); rewrite Eow, Eoh;
    replace ((s_w s <=? maxw) && (s_h s <=? maxh)) with true by lia; cbn [andb].
  - (* Center *)
    cbn [sdraw] in Ed. unfold unbounded in Ed.
    destruct ((maxh =? 65535) || (maxw =? 65535)) eqn:Eu; [discriminate|].
    pose proof (sdraw_contract_all ch top maxw maxh Hw Hh) as Hcc. unfold sdraw_contract in Hcc.
    specialize (IH top maxw maxh).
    destruct (sdraw ch top maxw maxh) as [t' rr]. cbn [fst snd] in *.
    destruct rr as [|chS].
    + pose proof (center_draw_spec (fun _ _ => cres_of DPanic) maxw maxh ltac:(lia) ltac:(lia)) as H.
      cbn [cres_of] in H, Ed. congruence.
    + destruct Hcc as (_ & Hcw & Hch).
      destruct (center_margins (fun _ _ => cres_of (DOk chS)) maxw maxh chS ltac:(lia) ltac:(lia)
                  eq_refl Hcw Hch) as (s2 & offX & offY & E2 & E3 & E4 & Ek2 & M).
      rewrite E2 in Ed. injection Ed as <-.
      rewrite Ek, Ek2. cbn [map kid_otree]. rewrite E3, E4.
      rewrite centred_ok by tauto. cbn [andb]. apply IH; [assumption | assumption | reflexivity].
  - (* list.Dynamic *)
    cbn [sdraw] in Ed. unfold list_draw_at, unbounded in Ed.
    destruct ((maxh =? 65535) || (maxw =? 65535)) eqn:Eu; [discriminate|].
    fold (list_off drawcur) in Ed.
    set (W := u16 (maxw - list_off drawcur)) in *.
    assert (HW : 0 <= W < 65536) by apply u16_range.
    set (its := skipn (Z.to_nat top) items) in *.
    pose proof (new_surface_wf_tree wblank maxw maxh Hw Hh) as Hs0.
    pose proof (list_loop_spec _ (new_surface wblank maxw maxh) (list_off drawcur) 0 gap maxh Hs0 (items_wf its W HW)) as Hl.
    destruct (list_loop (new_surface wblank maxw maxh) _ (list_off drawcur) 0 gap maxh) as [s1|] eqn:El; [|discriminate].
    destruct Hl as (L1 & _ & _).
    destruct (list_finish_at top drawcur s1 maxw) as [s2|] eqn:Ef; [|discriminate].
    cbn [snd] in Ed. injection Ed as <-.
    apply list_kids_ok.
    eapply list_finish_at_items; [exact L1 | exact Hw | exact Ef|].
    eapply list_loop_placed; [apply (items_within its W HW) | | exact El]. constructor.
Qed.

(* ... and the observation of that draw passes the decidable contract check [draw_ok] *)
Lemma sdraw_obs_ok ws top maxw maxh : 0 <= maxw < 65536 -> 0 <= maxh < 65536 ->
  draw_ok ((ws, maxw, maxh), dres_obs (snd (sdraw ws top maxw maxh))) = true.
Proof.
  intros Hw Hh. unfold draw_ok.
  pose proof (sdraw_contract_all ws top maxw maxh Hw Hh) as Hc. unfold sdraw_contract in Hc.
  destruct (snd (sdraw ws top maxw maxh)) as [|s] eqn:Ed; cbn [dres_obs].
  - cbn. exact Hc.
  - destruct Hc as (Hwf & _).
    replace (0 =? 1) with false by reflexivity.
    rewrite (observe_wf s Hwf), (tree_ok_sdraw ws top maxw maxh s Hw Hh Ed). reflexivity.
Qed.

(* ------------------------------------------------------------------ histories *)

(* at every step of every history, from every scroll state: the contract *)
Lemma hist_run_contract : forall steps top, Forall in_u16 steps ->
  forallb draw_ok (combine steps (hist_run top steps)) = true.
Proof.
  induction steps as [|[[ws maxw] maxh] t IH]; intros top Hr; [reflexivity|].
  inversion Hr as [|? ? Hin Ht]; subst. destruct Hin as [Hw Hh]. cbn [hist_run].
  pose proof (sdraw_obs_ok ws top maxw maxh Hw Hh) as Hok.
  destruct (sdraw ws top maxw maxh) as [top' r]. cbn [snd] in Hok.
  cbn [combine forallb]. apply andb_true_intro; split; [exact Hok | apply IH, Ht].
Qed.

Lemma hist_run_length : forall steps top, length (hist_run top steps) = length steps.
Proof.
  induction steps as [|[[ws maxw] maxh] t IH]; intros top; [reflexivity|].
  cbn [hist_run]. destruct (sdraw ws top maxw maxh) as [top' r]. cbn [length]. f_equal. apply IH.
Qed.

(* history-independence, widgets without scroll state: from ANY state every step returns what
   a fresh copy returns *)
Lemma hist_stateless : forall steps top,
  forallb (fun inp : draw_input => negb (scroll_root (fst (fst inp)))) steps = true ->
  hist_run top steps = map draw_run steps.
Proof.
  induction steps as [|[[ws maxw] maxh] t IH]; intros top H; [reflexivity|].
  cbn [forallb fst] in H. apply andb_prop in H. destruct H as [H1 H2].
  cbn [hist_run map]. rewrite sdraw_stateless by (destruct (scroll_root ws); [discriminate | reflexivity]).
  rewrite (IH top H2). reflexivity.
Qed.

(* history-independence in general: as long as every step, taken alone on a fresh value, leaves
   the scroll state as built, every step of the history returns what a fresh copy returns *)
Lemma hist_independent : forall steps,
  forallb step_anchored steps = true -> hist_run 0 steps = map draw_run steps.
Proof.
  induction steps as [|[[ws maxw] maxh] t IH]; intros H; [reflexivity|].
  cbn [forallb] in H. apply andb_prop in H. destruct H as [H1 H2].
  cbn [hist_run map]. unfold step_anchored in H1.
  pose proof (sdraw_fresh ws maxw maxh) as Hf.
  destruct (sdraw ws 0 maxw maxh) as [top' r]. cbn [fst snd] in *.
  replace top' with 0 by lia. subst r. rewrite (IH H2). reflexivity.
Qed.

Lemma hist_tops_anchored : forall steps,
  forallb step_anchored steps = true -> Forall (fun t => t = 0) (hist_tops 0 steps).
Proof.
  induction steps as [|[[ws maxw] maxh] t IH]; intros H; [constructor|].
  cbn [forallb] in H. apply andb_prop in H. destruct H as [H1 H2].
  cbn [hist_tops]. constructor; [reflexivity|].
  unfold step_anchored in H1. replace (fst (sdraw ws 0 maxw maxh)) with 0 by lia. apply IH, H2.
Qed.

(* ------------------------------------------------------------------ which fields keep the anchor *)

Definition kid_rh (k : Z * Z * Z * wsurface) : Z * Z := (kid_row k, s_h (kid_surf k)).

Lemma reset_top_ext gap : forall k1 k2 i top, map kid_rh k1 = map kid_rh k2 ->
  reset_top gap k1 i top = reset_top gap k2 i top.
Proof.
  induction k1 as [|[[[c1 r1] z1] ch1] t1 IH]; intros [|[[[c2 r2] z2] ch2] t2] i top H;
    try discriminate; [reflexivity|].
  cbn [map kid_rh kid_row kid_surf] in H. injection H as -> Hh Ht.
  cbn [reset_top]. rewrite Hh. destruct ((r2 <=? 0) && (0 <? r2 + s_h ch2 + gap)); apply IH, Ht.
Qed.

Lemma reset_top_below gap : forall kids i top,
  Forall (fun k => 0 < kid_row k) kids -> reset_top gap kids i top = top.
Proof.
  induction kids as [|[[[c r] z] ch] t IH]; intros i top H; [reflexivity|].
  inversion H as [|? ? Hr Ht]; subst. cbn [kid_row] in Hr. cbn [reset_top].
  replace (r <=? 0) with false by lia. cbn [andb]. apply IH, Ht.
Qed.

Lemma keeps_kids (a b : wsurface) : keeps a b -> s_kids b = s_kids a.
Proof. intros (_ & _ & _ & H). exact H. Qed.

(* the gutter and the cursor surface do not move a child nor change its height *)
Lemma list_finish_rh drawcur (s s' : wsurface) maxw : wf_tree s -> 0 <= maxw < 65536 ->
  list_finish drawcur s maxw = Some s' -> map kid_rh (s_kids s') = map kid_rh (s_kids s).
Proof.
  intros Hs Hw. unfold list_finish. destruct drawcur; cbn [negb].
  2:{ intros E; injection E as <-. reflexivity. }
  destruct (gutter_keeps (Z.to_nat (s_h s)) s 0 Hs ltac:(lia)) as (s1 & E1 & K1). rewrite E1.
  pose proof (keeps_kids _ _ K1) as Hk. destruct K1 as (K1 & _).
  destruct (s_kids s1) as [|[[[c0 r0] z0] ch] rest] eqn:Ek.
  - intros E; injection E as <-. rewrite Ek, <- Hk. reflexivity.
  - pose proof (wf_tree_kids s1 K1) as Hkk. rewrite Ek in Hkk. inversion Hkk as [|? ? Hch Hrest]; subst.
    cbn [kid_surf] in Hch. pose proof (wf_tree_node ch Hch) as (Hcw & Hchh & _).
    destruct (cursor_col_keeps (Z.to_nat (s_h ch)) (new_surface wblank maxw (s_h ch)) 0) as (cur & Ec & C1).
    { apply new_surface_wf_tree; lia. } { lia. }
    rewrite Ec. intros E; injection E as <-. cbn [s_kids]. rewrite <- Hk.
    cbn [map]. unfold kid_rh. cbn [kid_row kid_surf]. f_equal. f_equal.
    destruct (add_child_shape cur 2 0 ch) as (_ & -> & _). destruct C1 as (_ & _ & -> & _). reflexivity.
Qed.

(* children are stacked downwards: every child the loop adds is at or below the row it starts at *)
Lemma list_loop_rows rs : forall (s s' : wsurface) off ah gap maxh,
  0 <= gap -> Forall dres_wf rs -> list_loop s rs off ah gap maxh = Some s' ->
  exists new, s_kids s' = s_kids s ++ new /\ Forall (fun k => ah <= kid_row k) new.
Proof.
  induction rs as [|r t IH]; intros s s' off ah gap maxh Hg Hrs; cbn [list_loop].
  - intros E; injection E as <-. exists []. rewrite app_nil_r. split; [reflexivity | constructor].
  - inversion Hrs as [|? ? Hr Ht]; subst. destruct r as [|chS]; [discriminate|].
    cbn [dres_wf] in Hr. pose proof (wf_tree_node chS Hr) as (_ & Hh & _).
    destruct (add_child_shape s off ah chS) as (_ & _ & _ & A4).
    destruct (ah + s_h chS + gap >=? maxh).
    + intros E; injection E as <-. exists [(off, ah, 0, chS)]. split; [exact A4|].
      constructor; [cbn [kid_row]; lia | constructor].
    + intros E. destruct (IH _ _ _ _ _ _ Hg Ht E) as (new & En & Hn).
      exists ((off, ah, 0, chS) :: new). split.
      * rewrite En, A4, <- app_assoc. reflexivity.
      * constructor; [cbn [kid_row]; lia|]. eapply Forall_impl; [|exact Hn]. cbn beta. intros k Hk. lia.
Qed.

Lemma list_draw_at_anchored drawcur gap items maxw maxh :
  0 <= maxw < 65536 -> 0 <= maxh < 65536 ->
  (0 <? gap) || ((gap =? 0) && first_item_has_row items) = true ->
  fst (list_draw_at 0 drawcur gap items maxw maxh) = 0.
Proof.
  intros Hw Hh Hg. unfold list_draw_at. destruct (unbounded maxw maxh); [reflexivity|].
  cbn [Z.to_nat skipn].
  set (off := if drawcur then 2 else 0).
  set (rs := map (fun it => draw it (u16 (maxw - off)) 65535) items).
  assert (Hrs : Forall dres_wf rs).
  { subst rs. apply Forall_map. apply Forall_forall. intros it _.
    pose proof (draw_contract_all it (u16 (maxw - off)) 65535 (u16_range _) ltac:(lia)) as Hit.
    unfold draw_contract in Hit.
    destruct (draw it (u16 (maxw - off)) 65535); cbn [dres_wf]; tauto. }
  pose proof (new_surface_wf_tree wblank maxw maxh Hw Hh) as Hs0.
  pose proof (list_loop_spec rs (new_surface wblank maxw maxh) off 0 gap maxh Hs0 Hrs) as Hl.
  destruct (list_loop (new_surface wblank maxw maxh) rs off 0 gap maxh) as [s|] eqn:El; [|reflexivity].
  destruct Hl as (L1 & _ & _).
  unfold list_finish_at. cbn [Z.eqb].
  destruct (list_finish drawcur s maxw) as [s'|] eqn:Ef; [|reflexivity]. cbn [fst].
  rewrite (reset_top_ext gap _ _ 0 0 (list_finish_rh drawcur s s' maxw L1 Hw Ef)).
  (* the first iteration of the loop *)
  destruct items as [|it0 rest]; subst rs; cbn [map list_loop] in El.
  { injection El as <-. reflexivity. }
  inversion Hrs as [|? ? Hr0 Hrt]; subst.
  destruct (draw it0 (u16 (maxw - off)) 65535) as [|ch0] eqn:Ed0; [discriminate|].
  cbn [dres_wf] in Hr0. pose proof (wf_tree_node ch0 Hr0) as (_ & Hh0 & _).
  assert (Hpos : 0 <= gap /\ 0 < 0 + s_h ch0 + gap).
  { destruct (0 <? gap) eqn:Eg; [lia|]. cbn [orb] in Hg. apply andb_prop in Hg. destruct Hg as [Hg0 Hfr].
    split; [lia|]. unfold first_item_has_row in Hfr.
    destruct it0 as [r soft lines| | | |]; try discriminate. destruct lines as [|l ls]; [discriminate|].
    cbn [draw] in Ed0.
    destruct (text_draw_spec soft (l :: ls) (u16 (maxw - off)) 65535 (u16_range _) ltac:(lia))
      as (s0 & E0 & _ & _ & Hsh & _).
    rewrite E0 in Ed0. injection Ed0 as <-. rewrite zlen_cons in Hsh.
    pose proof (zlen_nonneg ls). lia. }
  destruct Hpos as [Hg0 Hpos].
  assert (A4 : s_kids (add_child (new_surface wblank maxw maxh) off 0 ch0) = [(off, 0, 0, ch0)])
    by reflexivity.
  destruct (0 + s_h ch0 + gap >=? maxh).
  - injection El as <-. try rewrite A4. cbn [s_kids reset_top].
    destruct ((0 <=? 0) && (0 <? 0 + s_h ch0 + gap)); reflexivity.
  - destruct (list_loop_rows _ _ _ _ _ _ _ Hg0 Hrt El) as (new & En & Hn).
    rewrite En. try rewrite A4. cbn [s_kids app reset_top].
    assert (Hb : Forall (fun k : Z * Z * Z * wsurface => 0 < kid_row k) new).
    { eapply Forall_impl; [|exact Hn]. cbn beta. intros k Hk. lia. }
    destruct ((0 <=? 0) && (0 <? 0 + s_h ch0 + gap)); apply reset_top_below; exact Hb.
Qed.

(* decided on the fields alone: these widget values keep the anchor under every constraint *)
Lemma anchored_fields_sound : forall ws maxw maxh,
  0 <= maxw < 65536 -> 0 <= maxh < 65536 ->
  anchored_fields ws = true -> step_anchored (ws, maxw, maxh) = true.
Proof.
  unfold step_anchored.
  induction ws as [r soft lines|ch IH|lines|chars|drawcur gap items]; intros maxw maxh Hw Hh Ha;
    try reflexivity.
  - cbn [anchored_fields] in Ha. cbn [sdraw]. destruct (unbounded maxw maxh); [reflexivity|].
    specialize (IH maxw maxh Hw Hh Ha). destruct (sdraw ch 0 maxw maxh) as [t' r]. exact IH.
  - cbn [anchored_fields] in Ha. cbn [sdraw].
    rewrite (list_draw_at_anchored drawcur gap items maxw maxh Hw Hh Ha). reflexivity.
Qed.

Lemma stateless_anchored ws : scroll_root ws = false -> anchored_fields ws = true.
Proof.
  induction ws as [r soft lines|ch IH|lines|chars|drawcur gap items]; intros H;
    try reflexivity; [apply IH, H | discriminate].
Qed.

(* every draw in a history of widget values with anchored fields returns what a fresh copy
   returns, and that meets the contract *)
Lemma hist_anchored_fields : forall steps, Forall in_u16 steps ->
  forallb (fun inp : draw_input => anchored_fields (fst (fst inp))) steps = true ->
  hist_run 0 steps = map draw_run steps.
Proof.
  intros steps Hr Ha. apply hist_independent.
  apply forallb_forall. intros [[ws maxw] maxh] Hin.
  rewrite Forall_forall in Hr. specialize (Hr _ Hin). destruct Hr as [Hw Hh].
  rewrite forallb_forall in Ha. specialize (Ha _ Hin). cbn [fst] in Ha.
  apply anchored_fields_sound; assumption.
Qed.

(* ------------------------------------------------------------------ the guard is not vacuous *)

(* list.Dynamic keeps a scroll position between draws (that state is C19's subject).  It can
   move without any event: a Dynamic whose first item has height 0 (an empty Text) with Gap 0
   anchors at item 1 on its first Draw, so the second Draw of the same value returns 2 children
   where a fresh value returns 3.  The contract clauses hold in both (hist_run_contract). *)
Definition empty_first_list : wspec :=
  WList true 0 [WText false true []; WText false true [[(4, 1)]]; WText false true [[(5, 1)]]].

Lemma list_scroll_state_moves :
  step_anchored (empty_first_list, 10, 4) = false /\
  hist_tops 0 [(empty_first_list, 10, 4); (empty_first_list, 10, 4)] = [0; 1] /\
  map (fun o : draw_obs => zlen (o_kids (snd o)))
      (hist_run 0 [(empty_first_list, 10, 4); (empty_first_list, 10, 4)]) = [3; 2] /\
  map (fun o : draw_obs => zlen (o_kids (snd o)))
      (map draw_run [(empty_first_list, 10, 4); (empty_first_list, 10, 4)]) = [3; 3].
Proof. repeat split; vm_compute; reflexivity. Qed.
