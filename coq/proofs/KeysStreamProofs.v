(* C09 over the input parser: every report, fed to a parser in ANY clean state (whatever reports
   went through the same instance before), delivers exactly what it delivers on its own and leaves
   the parser clean again; hence the decoded key stream of a history of reports is the concatenation
   of the per-report decodings, and every statement about decodeKey on a sequence (round-trips,
   cross-protocol equivalence) holds for its wire bytes after any history. *)
From Coq Require Import Lia ZifyBool.
From Vx Require Import base.Prelude base.ListX model.ParserTypes gen.GenParser model.Parser model.Vt500Spec
  proofs.ParserTable proofs.ParserConform proofs.ParserSem gen.GenKeys model.Keys model.KeysStream.
Local Open Scope Z_scope.

Definition clean (p : pst) : Prop :=
  st p = Ground /\ ignoreST p = false /\ exitf p = None /\ oscData p = [].

Lemma clean_b_spec p : clean_b p = true <-> clean p.
Proof.
  unfold clean_b, clean. destruct p as [s e i pa ig od ad d t]; cbn.
  destruct s, ig, e, od; cbn; split; intros H; try discriminate; try tauto;
    try (destruct H as [H1 [H2 [H3 H4]]]; discriminate).
Qed.

Lemma clean_pinit : clean pinit.
Proof. repeat split. Qed.

(* ---------- single steps from a clean state ---------- *)
Lemma step_print_clean p r : clean p -> 32 <= r ->
  exists p', step p r = (p', [IPrint [r]], true) /\ clean p'.
Proof.
  intros [Hst [Hi [He Ho]]] Hr. rewrite (step_print p r Hst Hr). eexists. split; [reflexivity|].
  repeat split; assumption.
Qed.

Ltac spec_any He :=
  rewrite step_is_spec_step; unfold spec_step; cbn -[run_exit]; unfold run_trans; cbn -[run_exit];
  rewrite He; cbn.

Lemma step_c0_clean p b : clean p -> 0 <= b < 32 -> b <> 27 ->
  exists p', step p b = (p', [IC0 b], true) /\ clean p'.
Proof.
  intros [Hst [Hi [He Ho]]] Hb Hn.
  assert (Hc : b = 24 \/ b = 26 \/ (b <= 23 \/ b = 25 \/ 28 <= b)) by lia.
  destruct Hc as [->|[->|Hc]].
  - spec_any He. eexists. split; [reflexivity|]. repeat split; cbn; assumption.
  - spec_any He. eexists. split; [reflexivity|]. repeat split; cbn; assumption.
  - destruct Hc as [Hc|[->|Hc]]; eval_step Hst; unfold in_range; solve_cmp; cbn;
      (eexists; split; [reflexivity|]; repeat split; cbn; assumption).
Qed.

(* ESC from a clean state: nothing is delivered, everything collected is forgotten *)
Lemma esc_post_clean p : clean p ->
  snd (esc_post p) = [] /\ st (fst (esc_post p)) = Escape /\ inter (fst (esc_post p)) = [] /\
  params (fst (esc_post p)) = [] /\ ignoreST (fst (esc_post p)) = false /\
  exitf (fst (esc_post p)) = None /\ oscData (fst (esc_post p)) = [].
Proof.
  intros [Hst [Hi [He Ho]]]. unfold esc_post. rewrite He. cbn. repeat split; assumption.
Qed.

(* frame: the fields of [clean] other than the state *)
Definition frame (p p' : pst) : Prop :=
  exitf p' = exitf p /\ oscData p' = oscData p.

Lemma step_esc_final q c : st q = Escape -> ignoreST q = false -> esc_final_ok c = true ->
  exists q', step q c = (q', [IEsc (inter q) c], true) /\ st q' = Ground /\ ignoreST q' = false /\ frame q q'.
Proof.
  intros Hst Hi Hc. unfold esc_final_ok, in_range in Hc.
  assert (H : c = 92 \/ 48 <= c <= 78 \/ 81 <= c <= 87 \/ c = 89 \/ c = 90 \/ 96 <= c <= 126 \/ c = 127) by lia.
  destruct H as [->|H].
  - rewrite (step_st_delivered q Hst Hi). eexists. split; [reflexivity|]. repeat split.
  - destruct H as [H|[H|[->|[->|[H| ->]]]]]; eval_step Hst;
      (eexists; split; [reflexivity|]; repeat split).
Qed.

Lemma step_esc_O q : st q = Escape ->
  exists q', step q 79 = (q', [], true) /\ st q' = Ss3 /\ ignoreST q' = false /\ frame q q'.
Proof. intros Hst. eval_step Hst. eexists. split; [reflexivity|]. repeat split. Qed.

Lemma step_ss3_final q c : st q = Ss3 -> 32 <= c -> c <> 127 ->
  exists q', step q c = (q', [ISS3 c], true) /\ st q' = Ground /\ ignoreST q' = ignoreST q /\ frame q q'.
Proof. intros Hst H1 H2. eval_step Hst. eexists. split; [reflexivity|]. repeat split. Qed.

(* ---------- CSI body, keeping track of the frame ---------- *)
Lemma feed_params_fr ps : forall p,
  csi_open p -> Forall (fun r => 48 <= r <= 59) ps ->
  exists p', feed p ps = (p', [], true) /\ params p' = params p ++ ps /\ inter p' = inter p /\
             csi_open p' /\ ignoreST p' = ignoreST p /\ frame p p'.
Proof.
  induction ps as [|r ps IH]; intros p Ho Hr.
  - exists p. cbn. rewrite app_nil_r. repeat split; auto.
  - inversion Hr as [|? ? H1 H2]; subst. cbn [feed]. rewrite (step_param p r Ho H1).
    set (p1 := set_st (set_params (set_timer p false) (params p ++ [r])) CsiParam).
    destruct (IH p1 (or_intror eq_refl) H2) as [p' [Hf [Hp [Hi [Hop [Hig [Hfe Hfo]]]]]]].
    exists p'. rewrite Hf. cbn.
    split; [reflexivity|]. split; [rewrite Hp; unfold p1; cbn; now rewrite <- app_assoc|].
    split; [rewrite Hi; reflexivity|]. split; [exact Hop|].
    split; [rewrite Hig; reflexivity|]. split; [rewrite Hfe|rewrite Hfo]; reflexivity.
Qed.

Lemma feed_inters_fr is : forall p,
  csi_any p -> Forall (fun r => 32 <= r <= 47) is ->
  exists p', feed p is = (p', [], true) /\ inter p' = inter p ++ is /\ params p' = params p /\
             csi_any p' /\ ignoreST p' = ignoreST p /\ frame p p'.
Proof.
  induction is as [|r is IH]; intros p Ha Hr.
  - exists p. cbn. rewrite app_nil_r. repeat split; auto.
  - inversion Hr as [|? ? H1 H2]; subst. cbn [feed]. rewrite (step_inter p r Ha H1).
    set (p1 := set_st (set_inter (set_timer p false) (inter p ++ [r])) CsiIntermediate).
    destruct (IH p1 (or_intror eq_refl) H2) as [p' [Hf [Hi [Hp [Hany [Hig [Hfe Hfo]]]]]]].
    exists p'. rewrite Hf. cbn.
    split; [reflexivity|]. split; [rewrite Hi; unfold p1; cbn; now rewrite <- app_assoc|].
    split; [rewrite Hp; reflexivity|]. split; [exact Hany|].
    split; [rewrite Hig; reflexivity|]. split; [rewrite Hfe|rewrite Hfo]; reflexivity.
Qed.

Lemma csi_dec_is ps : csi_dec ps = csi_decode ps.
Proof. reflexivity. Qed.

Lemma csi_clean p priv ps is f : clean p ->
  (priv = [] \/ exists m, priv = [m] /\ 60 <= m <= 63) ->
  Forall (fun r => 48 <= r <= 59) ps -> Forall (fun r => 32 <= r <= 47) is -> 64 <= f <= 126 ->
  exists p', feed p ([27; 91] ++ priv ++ ps ++ is ++ [f]) = (p', [ICsi (priv ++ is) (csi_dec ps) f], true) /\ clean p'.
Proof.
  intros Hcl Hpriv Hps His Hf.
  destruct (esc_post_clean p Hcl) as [Ho [Hs [Hi [Hp [Hig [Hex Hod]]]]]].
  cbn [app feed]. rewrite step_esc. rewrite Ho.
  set (pe := fst (esc_post p)) in *.
  rewrite (step_bracket pe Hs).
  set (pb := set_st (set_ignoreST (set_params (set_inter (set_timer pe false) []) []) false) CsiEntry).
  assert (Hq : exists pq, feed pb priv = (pq, [], true) /\ csi_open pq /\ inter pq = priv /\ params pq = [] /\
                          ignoreST pq = false /\ frame pb pq).
  { destruct Hpriv as [->|[m [-> Hm]]].
    - exists pb. cbn. split; [reflexivity|]. split; [now left|]. repeat split.
    - cbn [feed]. rewrite (step_priv pb m eq_refl Hm). eexists. split; [reflexivity|].
      split; [now right|]. repeat split. }
  destruct Hq as [pq [Fq [Oq [Iq [Pq [Gq [Eq1 Eq2]]]]]]].
  rewrite feed_app, Fq.
  destruct (feed_params_fr ps pq Oq Hps) as [pp [Fp [Pp [Ip [Opp [Gp [Ep1 Ep2]]]]]]].
  rewrite feed_app, Fp.
  destruct (feed_inters_fr is pp (or_introl Opp) His) as [pi [Fi [Ii [Pi [Ai [Gi [Ei1 Ei2]]]]]]].
  rewrite feed_app, Fi.
  cbn [feed]. rewrite (step_final pi f Ai Hf).
  eexists. split.
  { cbn. rewrite Ii, Ip, Iq, Pi, Pp, Pq. cbn [app]. rewrite ?app_nil_r. reflexivity. }
  unfold clean. cbn. split; [reflexivity|].
  split; [rewrite Gi, Gp, Gq; reflexivity|].
  split; [rewrite Ei1, Ep1, Eq1; unfold pb; cbn; exact Hex|].
  rewrite Ei2, Ep2, Eq2. unfold pb; cbn. exact Hod.
Qed.

(* ---------- OSC replies ---------- *)
Lemma osc_bel_clean p pl : clean p -> Forall (fun r => 32 <= r) pl ->
  exists p', feed p ([27; 93] ++ pl ++ [7]) = (p', [IOsc pl], true) /\ clean p'.
Proof.
  intros Hcl Hpl.
  destruct (esc_post_clean p Hcl) as [Ho [Hs [_ [_ [_ [_ Hod]]]]]].
  cbn [app feed]. rewrite step_esc. rewrite Ho. set (pe := fst (esc_post p)) in *.
  rewrite (step_osc_open pe Hs).
  set (po := set_st (set_ignoreST (set_exit (set_timer pe false) (Some ExOscEnd)) false) OscString).
  destruct (feed_osc_payload pl po eq_refl Hpl) as [pp [Fp [Sp [Dp [Ep _]]]]].
  rewrite feed_app, Fp. cbn [feed]. rewrite (step_osc_bel pp Sp (eq_trans Ep eq_refl)).
  eexists. split.
  { cbn. rewrite Dp. unfold po; cbn. rewrite Hod. reflexivity. }
  repeat split.
Qed.

Lemma osc_st_clean p pl : clean p -> Forall (fun r => 32 <= r) pl -> pl <> [] ->
  exists p', feed p ([27; 93] ++ pl ++ [27; 92]) = (p', [IOsc pl], true) /\ clean p'.
Proof.
  intros Hcl Hpl Hne.
  destruct (esc_post_clean p Hcl) as [Ho [Hs [_ [_ [_ [_ Hod]]]]]].
  cbn [app feed]. rewrite step_esc. rewrite Ho. set (pe := fst (esc_post p)) in *.
  rewrite (step_osc_open pe Hs).
  set (po := set_st (set_ignoreST (set_exit (set_timer pe false) (Some ExOscEnd)) false) OscString).
  destruct (feed_osc_payload pl po eq_refl Hpl) as [pp [Fp [Sp [Dp [Ep Ip]]]]].
  rewrite feed_app, Fp. cbn [feed]. rewrite step_esc.
  destruct (esc_post_st pp) as [Hs2 _].
  assert (Hig : ignoreST (fst (esc_post pp)) = true).
  { unfold esc_post. rewrite Ep. unfold po; cbn. apply Ip. exact Hne. }
  rewrite (step_st_suppressed _ Hs2 Hig).
  eexists. split.
  { cbn. unfold esc_post. rewrite Ep. unfold po; cbn. rewrite Dp. unfold po; cbn. rewrite Hod. reflexivity. }
  repeat split.
Qed.
