(* C09 over the input parser: every report, fed to a parser in ANY clean state (whatever reports
   went through the same instance before), delivers exactly what it delivers on its own and leaves
   the parser clean again; hence the decoded key stream of a history of reports is the concatenation
   of the per-report decodings, and every statement about decodeKey on a sequence (round-trips,
   cross-protocol equivalence) holds for its wire bytes after any history. *)
From Coq Require Import Lia ZifyBool.
From Vx Require Import base.Prelude base.ListX model.ParserTypes gen.GenParser model.Parser model.Vt500Spec
  proofs.ParserTable proofs.ParserConform proofs.ParserSem gen.GenKeys model.Keys model.KeysStream proofs.KeysProofs.
Local Open Scope Z_scope.

Definition clean (p : pst) : Prop :=
  st p = Ground /\ ignoreST p = false /\ exitf p = None /\ oscData p = [].

Lemma clean_b_spec p : clean_b p = true <-> clean p.
Proof.
  unfold clean_b, clean. destruct p as [s e i pa ig od ad d t]; cbn.
  destruct s, ig, e, od; cbn; split; intros H; try discriminate; try tauto;
    try (destruct H as [H1 [H2 [H3 H4]]]; discriminate).
Qed.

Lemma clean_pinit : clean pinit.
Proof. repeat split. Qed.

(* ---------- single steps from a clean state ---------- *)
Lemma step_print_clean p r : clean p -> 32 <= r ->
  exists p', step p r = (p', [IPrint [r]], true) /\ clean p'.
Proof.
  intros [Hst [Hi [He Ho]]] Hr. rewrite (step_print p r Hst Hr). eexists. split; [reflexivity|].
  repeat split; assumption.
Qed.

Ltac spec_any He :=
  rewrite step_is_spec_step; unfold spec_step; cbn -[run_exit]; unfold run_trans; cbn -[run_exit];
  rewrite He; cbn.

Lemma step_c0_clean p b : clean p -> 0 <= b < 32 -> b <> 27 ->
  exists p', step p b = (p', [IC0 b], true) /\ clean p'.
Proof.
  intros [Hst [Hi [He Ho]]] Hb Hn.
  assert (Hc : b = 24 \/ b = 26 \/ (b <= 23 \/ b = 25 \/ 28 <= b)) by lia.
  destruct Hc as [->|[->|Hc]].
  - spec_any He. eexists. split; [reflexivity|]. repeat split; cbn; assumption.
  - spec_any He. eexists. split; [reflexivity|]. repeat split; cbn; assumption.
  - destruct Hc as [Hc|[->|Hc]]; eval_step Hst; unfold in_range; solve_cmp; cbn;
      (eexists; split; [reflexivity|]; repeat split; cbn; assumption).
Qed.

(* ESC from a clean state: nothing is delivered, everything collected is forgotten *)
Lemma esc_post_clean p : clean p ->
  snd (esc_post p) = [] /\ st (fst (esc_post p)) = Escape /\ inter (fst (esc_post p)) = [] /\
  params (fst (esc_post p)) = [] /\ ignoreST (fst (esc_post p)) = false /\
  exitf (fst (esc_post p)) = None /\ oscData (fst (esc_post p)) = [].
Proof.
  intros [Hst [Hi [He Ho]]]. unfold esc_post. rewrite He. cbn. repeat split; assumption.
Qed.

(* frame: the fields of [clean] other than the state *)
Definition frame (p p' : pst) : Prop :=
  exitf p' = exitf p /\ oscData p' = oscData p.

Lemma step_esc_final q c : st q = Escape -> ignoreST q = false -> esc_final_ok c = true ->
  exists q', step q c = (q', [IEsc (inter q) c], true) /\ st q' = Ground /\ ignoreST q' = false /\ frame q q'.
Proof.
  intros Hst Hi Hc. unfold esc_final_ok, in_range in Hc.
  assert (H : c = 92 \/ 48 <= c <= 78 \/ 81 <= c <= 87 \/ c = 89 \/ c = 90 \/ 96 <= c <= 126 \/ c = 127) by lia.
  destruct H as [->|H].
  - rewrite (step_st_delivered q Hst Hi). eexists. split; [reflexivity|]. repeat split.
  - destruct H as [H|[H|[->|[->|[H| ->]]]]]; eval_step Hst;
      (eexists; split; [reflexivity|]; repeat split).
Qed.

Lemma step_esc_O q : st q = Escape ->
  exists q', step q 79 = (q', [], true) /\ st q' = Ss3 /\ ignoreST q' = false /\ frame q q'.
Proof. intros Hst. eval_step Hst. eexists. split; [reflexivity|]. repeat split. Qed.

Lemma step_ss3_final q c : st q = Ss3 -> 32 <= c -> c <> 127 ->
  exists q', step q c = (q', [ISS3 c], true) /\ st q' = Ground /\ ignoreST q' = ignoreST q /\ frame q q'.
Proof. intros Hst H1 H2. eval_step Hst. eexists. split; [reflexivity|]. repeat split. Qed.

(* ---------- CSI body, keeping track of the frame ---------- *)
Lemma feed_params_fr ps : forall p,
  csi_open p -> Forall (fun r => 48 <= r <= 59) ps ->
  exists p', feed p ps = (p', [], true) /\ params p' = params p ++ ps /\ inter p' = inter p /\
             csi_open p' /\ ignoreST p' = ignoreST p /\ frame p p'.
Proof.
  induction ps as [|r ps IH]; intros p Ho Hr.
  - exists p. cbn. rewrite app_nil_r. repeat split; auto.
  - inversion Hr as [|? ? H1 H2]; subst. cbn [feed]. rewrite (step_param p r Ho H1).
    set (p1 := set_st (set_params (set_timer p false) (params p ++ [r])) CsiParam).
    destruct (IH p1 (or_intror eq_refl) H2) as [p' [Hf [Hp [Hi [Hop [Hig [Hfe Hfo]]]]]]].
    exists p'. rewrite Hf. cbn.
    split; [reflexivity|]. split; [rewrite Hp; unfold p1; cbn; now rewrite <- app_assoc|].
    split; [rewrite Hi; reflexivity|]. split; [exact Hop|].
    split; [rewrite Hig; reflexivity|]. split; [rewrite Hfe|rewrite Hfo]; reflexivity.
Qed.

Lemma feed_inters_fr is : forall p,
  csi_any p -> Forall (fun r => 32 <= r <= 47) is ->
  exists p', feed p is = (p', [], true) /\ inter p' = inter p ++ is /\ params p' = params p /\
             csi_any p' /\ ignoreST p' = ignoreST p /\ frame p p'.
Proof.
  induction is as [|r is IH]; intros p Ha Hr.
  - exists p. cbn. rewrite app_nil_r. repeat split; auto.
  - inversion Hr as [|? ? H1 H2]; subst. cbn [feed]. rewrite (step_inter p r Ha H1).
    set (p1 := set_st (set_inter (set_timer p false) (inter p ++ [r])) CsiIntermediate).
    destruct (IH p1 (or_intror eq_refl) H2) as [p' [Hf [Hi [Hp [Hany [Hig [Hfe Hfo]]]]]]].
    exists p'. rewrite Hf. cbn.
    split; [reflexivity|]. split; [rewrite Hi; unfold p1; cbn; now rewrite <- app_assoc|].
    split; [rewrite Hp; reflexivity|]. split; [exact Hany|].
    split; [rewrite Hig; reflexivity|]. split; [rewrite Hfe|rewrite Hfo]; reflexivity.
Qed.

Lemma csi_dec_is ps : csi_dec ps = csi_decode ps.
Proof. reflexivity. Qed.

Lemma csi_clean p priv ps is f : clean p ->
  (priv = [] \/ exists m, priv = [m] /\ 60 <= m <= 63) ->
  Forall (fun r => 48 <= r <= 59) ps -> Forall (fun r => 32 <= r <= 47) is -> 64 <= f <= 126 ->
  exists p', feed p ([27; 91] ++ priv ++ ps ++ is ++ [f]) = (p', [ICsi (priv ++ is) (csi_dec ps) f], true) /\ clean p'.
Proof.
  intros Hcl Hpriv Hps His Hf.
  destruct (esc_post_clean p Hcl) as [Ho [Hs [Hi [Hp [Hig [Hex Hod]]]]]].
  cbn [app feed]. rewrite step_esc. rewrite Ho.
  set (pe := fst (esc_post p)) in *.
  rewrite (step_bracket pe Hs).
  set (pb := set_st (set_ignoreST (set_params (set_inter (set_timer pe false) []) []) false) CsiEntry).
  assert (Hq : exists pq, feed pb priv = (pq, [], true) /\ csi_open pq /\ inter pq = priv /\ params pq = [] /\
                          ignoreST pq = false /\ frame pb pq).
  { destruct Hpriv as [->|[m [-> Hm]]].
    - exists pb. cbn. split; [reflexivity|]. split; [now left|]. repeat split.
    - cbn [feed]. rewrite (step_priv pb m eq_refl Hm). eexists. split; [reflexivity|].
      split; [now right|]. repeat split. }
  destruct Hq as [pq [Fq [Oq [Iq [Pq [Gq [Eq1 Eq2]]]]]]].
  rewrite feed_app, Fq.
  destruct (feed_params_fr ps pq Oq Hps) as [pp [Fp [Pp [Ip [Opp [Gp [Ep1 Ep2]]]]]]].
  rewrite feed_app, Fp.
  destruct (feed_inters_fr is pp (or_introl Opp) His) as [pi [Fi [Ii [Pi [Ai [Gi [Ei1 Ei2]]]]]]].
  rewrite feed_app, Fi.
  cbn [feed]. rewrite (step_final pi f Ai Hf).
  eexists. split.
  { cbn. rewrite Ii, Ip, Iq, Pi, Pp, Pq. cbn [app]. rewrite ?app_nil_r. reflexivity. }
  unfold clean. cbn. split; [reflexivity|].
  split; [rewrite Gi, Gp, Gq; reflexivity|].
  split; [rewrite Ei1, Ep1, Eq1; unfold pb; cbn; exact Hex|].
  rewrite Ei2, Ep2, Eq2. unfold pb; cbn. exact Hod.
Qed.

(* ---------- OSC replies ---------- *)
Lemma osc_bel_clean p pl : clean p -> Forall (fun r => 32 <= r) pl ->
  exists p', feed p ([27; 93] ++ pl ++ [7]) = (p', [IOsc pl], true) /\ clean p'.
Proof.
  intros Hcl Hpl.
  destruct (esc_post_clean p Hcl) as [Ho [Hs [_ [_ [_ [_ Hod]]]]]].
  cbn [app feed]. rewrite step_esc. rewrite Ho. set (pe := fst (esc_post p)) in *.
  rewrite (step_osc_open pe Hs).
  set (po := set_st (set_ignoreST (set_exit (set_timer pe false) (Some ExOscEnd)) false) OscString).
  destruct (feed_osc_payload pl po eq_refl Hpl) as [pp [Fp [Sp [Dp [Ep _]]]]].
  rewrite feed_app, Fp. cbn [feed]. rewrite (step_osc_bel pp Sp (eq_trans Ep eq_refl)).
  eexists. split.
  { cbn. rewrite Dp. unfold po; cbn. rewrite Hod. reflexivity. }
  repeat split.
Qed.

Lemma osc_st_clean p pl : clean p -> Forall (fun r => 32 <= r) pl -> pl <> [] ->
  exists p', feed p ([27; 93] ++ pl ++ [27; 92]) = (p', [IOsc pl], true) /\ clean p'.
Proof.
  intros Hcl Hpl Hne.
  destruct (esc_post_clean p Hcl) as [Ho [Hs [_ [_ [_ [_ Hod]]]]]].
  cbn [app feed]. rewrite step_esc. rewrite Ho. set (pe := fst (esc_post p)) in *.
  rewrite (step_osc_open pe Hs).
  set (po := set_st (set_ignoreST (set_exit (set_timer pe false) (Some ExOscEnd)) false) OscString).
  destruct (feed_osc_payload pl po eq_refl Hpl) as [pp [Fp [Sp [Dp [Ep Ip]]]]].
  rewrite feed_app, Fp. cbn [feed]. rewrite step_esc.
  destruct (esc_post_st pp) as [Hs2 _].
  assert (Hig : ignoreST (fst (esc_post pp)) = true).
  { unfold esc_post. rewrite Ep. unfold po; cbn. apply Ip. exact Hne. }
  rewrite (step_st_suppressed _ Hs2 Hig).
  eexists. split.
  { cbn. unfold esc_post. rewrite Ep. unfold po; cbn. rewrite Dp. unfold po; cbn. rewrite Hod. reflexivity. }
  repeat split.
Qed.

(* ---------- one report from any clean state ---------- *)
Lemma forallb_Forall_rng l a b : forallb (fun r => in_range r a b) l = true -> Forall (fun r => a <= r <= b) l.
Proof.
  intros H. apply Forall_forall. intros x Hx. rewrite forallb_forall in H. specialize (H x Hx).
  unfold in_range in H. lia.
Qed.
Lemma forallb_Forall_ge l a : forallb (fun r => a <=? r) l = true -> Forall (fun r => a <= r) l.
Proof.
  intros H. apply Forall_forall. intros x Hx. rewrite forallb_forall in H. specialize (H x Hx). lia.
Qed.

Theorem report_from_clean p r : clean p -> report_ok r = true ->
  exists p', feed p (report_wire r) = (p', report_items r, true) /\ clean p'.
Proof.
  intros Hcl Hok. destruct r as [r|b|c|c|priv ps is f|pl|pl]; cbn [report_ok report_wire report_items] in *.
  - destruct (step_print_clean p r Hcl ltac:(lia)) as [p' [Hs Hc]].
    exists p'. cbn [feed]. rewrite Hs. split; [reflexivity|exact Hc].
  - unfold in_range in Hok.
    destruct (step_c0_clean p b Hcl ltac:(lia) ltac:(lia)) as [p' [Hs Hc]].
    exists p'. cbn [feed]. rewrite Hs. split; [reflexivity|exact Hc].
  - destruct (esc_post_clean p Hcl) as [Ho [Hs [Hi [_ [Hig [Hex Hod]]]]]].
    cbn [feed]. rewrite step_esc, Ho.
    destruct (step_esc_final _ c Hs Hig Hok) as [q' [Hq [Hst [Hg [He1 He2]]]]].
    rewrite Hq, Hi. exists q'. split; [reflexivity|].
    repeat split; [exact Hst|exact Hg|rewrite He1; exact Hex|rewrite He2; exact Hod].
  - destruct (esc_post_clean p Hcl) as [Ho [Hs [_ [_ [Hig [Hex Hod]]]]]].
    cbn [feed]. rewrite step_esc, Ho.
    destruct (step_esc_O _ Hs) as [q1 [Hq1 [Hst1 [Hg1 [E11 E12]]]]]. rewrite Hq1.
    destruct (step_ss3_final q1 c Hst1 ltac:(lia) ltac:(lia)) as [q2 [Hq2 [Hst2 [Hg2 [E21 E22]]]]]. rewrite Hq2.
    exists q2. split; [reflexivity|].
    repeat split; [exact Hst2|rewrite Hg2; exact Hg1|rewrite E21, E11; exact Hex|rewrite E22, E12; exact Hod].
  - apply andb_prop in Hok as [Hok Hf]. apply andb_prop in Hok as [Hok His]. apply andb_prop in Hok as [Hpriv Hps].
    apply csi_clean; [exact Hcl| | apply forallb_Forall_rng; exact Hps | apply forallb_Forall_rng; exact His
                      | unfold in_range in Hf; lia].
    destruct priv as [|m [|m2 t]]; [now left| |discriminate].
    right. exists m. split; [reflexivity|]. unfold in_range in Hpriv. lia.
  - apply osc_bel_clean; [exact Hcl|apply forallb_Forall_ge; exact Hok].
  - apply andb_prop in Hok as [Hpl Hne].
    apply osc_st_clean; [exact Hcl|apply forallb_Forall_ge; exact Hpl|].
    destruct pl; [discriminate|discriminate].
Qed.

(* ---------- a history of reports ---------- *)
Theorem reports_from_clean rs : forall p, clean p -> Forall (fun r => report_ok r = true) rs ->
  exists p', feed p (flat_map report_wire rs) = (p', flat_map report_items rs, true) /\ clean p'.
Proof.
  induction rs as [|r rs IH]; intros p Hcl Hok.
  - exists p. split; [reflexivity|exact Hcl].
  - inversion Hok as [|? ? H1 H2]; subst. cbn [flat_map].
    destruct (report_from_clean p r Hcl H1) as [p1 [F1 C1]].
    destruct (IH p1 C1 H2) as [p2 [F2 C2]].
    exists p2. rewrite feed_app, F1, F2. split; [reflexivity|exact C2].
Qed.

Lemma events_of_app u a b : events_of u (a ++ b) = events_of u a ++ events_of u b.
Proof. unfold events_of. apply flat_map_app. Qed.

Lemma events_of_flat_map {A} u (f : A -> list item) l :
  events_of u (flat_map f l) = flat_map (fun x => events_of u (f x)) l.
Proof.
  induction l as [|x l IH]; [reflexivity|]. cbn [flat_map]. rewrite events_of_app, IH. reflexivity.
Qed.

Lemma flat_map_ext_In {A B} (f g : A -> list B) l :
  (forall x, In x l -> f x = g x) -> flat_map f l = flat_map g l.
Proof.
  induction l as [|x l IH]; intros H; [reflexivity|]. cbn [flat_map].
  rewrite (H x (or_introl eq_refl)), IH; [reflexivity|]. intros y Hy. apply H. now right.
Qed.

Lemma run_events_report u p r : clean p -> report_ok r = true ->
  run_events u p (report_wire r) = events_of u (report_items r).
Proof.
  intros Hcl Hok. destruct (report_from_clean p r Hcl Hok) as [p' [F _]].
  unfold run_events, run_items. rewrite F. reflexivity.
Qed.

(* the decoded stream of a history = the concatenation of what each report decodes to when it is the
   only thing a fresh parser ever sees *)
Theorem stream_history_independent u p rs : clean p -> Forall (fun r => report_ok r = true) rs ->
  run_events u p (flat_map report_wire rs) = flat_map (fun r => run_events u pinit (report_wire r)) rs.
Proof.
  intros Hcl Hok. destruct (reports_from_clean rs p Hcl Hok) as [p' [F _]].
  unfold run_events at 1, run_items. rewrite F. rewrite events_of_flat_map.
  apply flat_map_ext_In. intros r Hr. rewrite Forall_forall in Hok.
  symmetry. apply run_events_report; [exact clean_pinit|apply Hok; exact Hr].
Qed.

(* a report after any history, from any clean state *)
Theorem report_after_history u p hist r : clean p ->
  Forall (fun r => report_ok r = true) hist -> report_ok r = true ->
  run_events u p (flat_map report_wire hist ++ report_wire r) =
  run_events u p (flat_map report_wire hist) ++ run_events u pinit (report_wire r).
Proof.
  intros Hcl Hh Hr.
  destruct (reports_from_clean hist p Hcl Hh) as [p1 [F1 C1]].
  destruct (report_from_clean p1 r C1 Hr) as [p2 [F2 _]].
  unfold run_events at 1 2, run_items. rewrite feed_app, F1, F2, events_of_app.
  rewrite (run_events_report u pinit r clean_pinit Hr). reflexivity.
Qed.

(* ---------- decimal parameters: the parser's decoder reads the rendering back ---------- *)
Ltac Zify.zify_post_hook ::= Z.div_mod_to_equations.

Definition sm63 (n : Z) : Prop := 0 <= n < 9223372036854775808.

Lemma i64_sm63 x : sm63 x -> i64 x = x.
Proof. unfold sm63, i64. intros H. cbv zeta. destruct (_ <? _) eqn:E; lia. Qed.

Lemma kdigits_S f n : kdigits (S f) n = if n <? 10 then [48 + n] else kdigits f (n / 10) ++ [48 + n mod 10].
Proof. reflexivity. Qed.

Lemma kdigits_digits f : forall n, 0 <= n -> Forall (fun r => 48 <= r <= 57) (kdigits f n).
Proof.
  induction f as [|f IH]; intros n Hn; [constructor|].
  rewrite kdigits_S. destruct (n <? 10) eqn:E.
  - constructor; [lia|constructor].
  - apply Forall_app. split; [apply IH; lia|]. constructor; [lia|constructor].
Qed.

Lemma kdigits_nonempty f n : kdigits (S f) n <> [].
Proof.
  rewrite kdigits_S. destruct (n <? 10); [discriminate|].
  intros H. apply app_eq_nil in H. destruct H as [_ H]. discriminate.
Qed.

Lemma kdd_digits n : 0 <= n -> Forall (fun r => 48 <= r <= 57) (kdd n).
Proof. apply kdigits_digits. Qed.
Lemma kdd_nonempty n : kdd n <> [].
Proof. apply kdigits_nonempty. Qed.

Lemma csi_params_digit d t ps cur acc : 48 <= d <= 57 ->
  csi_params (d :: t) ps cur acc = csi_params t (i64 (i64 (ps * 10) + (d - 48))) cur acc.
Proof.
  intros H. cbn [csi_params]. destruct (d =? 59) eqn:E1; [lia|]. destruct (d =? 58) eqn:E2; [lia|]. reflexivity.
Qed.

Lemma csi_params_dec f : forall n rest cur acc,
  sm63 n -> n < 10 ^ Z.of_nat f ->
  csi_params (kdigits f n ++ rest) 0 cur acc = csi_params rest n cur acc.
Proof.
  induction f as [|f IH]; intros n rest cur acc Hs Hf.
  - cbn in Hf. unfold sm63 in Hs. assert (n = 0) by lia. subst. reflexivity.
  - rewrite kdigits_S. destruct (n <? 10) eqn:E.
    + cbn [app]. rewrite csi_params_digit by (unfold sm63 in Hs; lia).
      f_equal. unfold sm63 in Hs. rewrite (i64_sm63 (0 * 10)) by (unfold sm63; lia).
      rewrite i64_sm63 by (unfold sm63; lia). lia.
    + rewrite <- app_assoc. cbn [app].
      assert (Hp : 10 ^ Z.of_nat (S f) = 10 * 10 ^ Z.of_nat f).
      { rewrite Nat2Z.inj_succ, Z.pow_succ_r by lia. reflexivity. }
      unfold sm63 in Hs.
      rewrite IH by (unfold sm63; lia).
      rewrite csi_params_digit by lia. f_equal.
      rewrite (i64_sm63 (n / 10 * 10)) by (unfold sm63; lia).
      rewrite i64_sm63 by (unfold sm63; lia). lia.
Qed.

Lemma csi_params_kdd n rest cur acc : sm63 n ->
  csi_params (kdd n ++ rest) 0 cur acc = csi_params rest n cur acc.
Proof.
  intros H. apply csi_params_dec; [exact H|]. unfold sm63 in H.
  change (Z.of_nat 20) with 20. lia.
Qed.

Lemma sub_str_chars p : Forall sm63 p -> Forall (fun r => 48 <= r <= 59) (sub_str p).
Proof.
  induction p as [|n t IH]; intros H; [constructor|].
  inversion H as [|? ? Hn Ht]; subst.
  assert (Hd : Forall (fun r => 48 <= r <= 59) (kdd n)).
  { eapply Forall_impl; [|apply kdd_digits; unfold sm63 in Hn; lia]. cbn. intros; lia. }
  destruct t as [|m t']; [exact Hd|].
  change (sub_str (n :: m :: t')) with (kdd n ++ 58 :: sub_str (m :: t')).
  apply Forall_app. split; [exact Hd|]. constructor; [lia|]. apply IH. exact Ht.
Qed.

Lemma pstr_chars ps : Forall (Forall sm63) ps -> Forall (fun r => 48 <= r <= 59) (pstr ps).
Proof.
  induction ps as [|p t IH]; intros H; [constructor|].
  inversion H as [|? ? Hp Ht]; subst.
  destruct t as [|q t']; [apply sub_str_chars; exact Hp|].
  change (pstr (p :: q :: t')) with (sub_str p ++ 59 :: pstr (q :: t')).
  apply Forall_app. split; [apply sub_str_chars; exact Hp|]. constructor; [lia|]. apply IH. exact Ht.
Qed.

Lemma csi_params_sub p : forall rest cur acc, p <> [] -> Forall sm63 p ->
  csi_params (sub_str p ++ rest) 0 cur acc = csi_params rest (last p 0) (cur ++ removelast p) acc.
Proof.
  induction p as [|n t IH]; intros rest cur acc Hne H; [congruence|].
  inversion H as [|? ? Hn Ht]; subst.
  destruct t as [|m t'].
  - cbn [sub_str last removelast]. rewrite app_nil_r. apply csi_params_kdd. exact Hn.
  - change (sub_str (n :: m :: t')) with (kdd n ++ 58 :: sub_str (m :: t')).
    rewrite <- app_assoc. rewrite csi_params_kdd by exact Hn.
    cbn [app csi_params]. change (58 =? 59) with false. change (58 =? 58) with true. cbv iota.
    rewrite IH by (try discriminate; exact Ht).
    change (last (n :: m :: t') 0) with (last (m :: t') 0).
    change (removelast (n :: m :: t')) with (n :: removelast (m :: t')).
    rewrite <- app_assoc. reflexivity.
Qed.

Lemma csi_params_pstr ps : forall acc, ps <> [] -> Forall (fun p => p <> []) ps -> Forall (Forall sm63) ps ->
  csi_params (pstr ps) 0 [] acc = acc ++ ps.
Proof.
  induction ps as [|p t IH]; intros acc Hne Hn Hs; [congruence|].
  inversion Hn as [|? ? Hp Hnt]; subst. inversion Hs as [|? ? Hsp Hst]; subst.
  destruct t as [|q t'].
  - cbn [pstr]. rewrite <- (app_nil_r (sub_str p)). rewrite csi_params_sub by assumption.
    cbn [csi_params app]. rewrite <- app_removelast_last by exact Hp. reflexivity.
  - change (pstr (p :: q :: t')) with (sub_str p ++ 59 :: pstr (q :: t')).
    rewrite csi_params_sub by assumption.
    cbn [csi_params app]. change (59 =? 59) with true. cbv iota.
    rewrite <- app_removelast_last by exact Hp.
    rewrite IH by (try discriminate; assumption). rewrite <- app_assoc. reflexivity.
Qed.

Lemma pstr_nonempty ps : ps <> [] -> Forall (fun p => p <> []) ps -> pstr ps <> [].
Proof.
  intros Hne Hn. destruct ps as [|p t]; [congruence|]. inversion Hn as [|? ? Hp _]; subst.
  assert (Hs : sub_str p <> []).
  { destruct p as [|n u]; [congruence|]. destruct u; cbn [sub_str]; [apply kdd_nonempty|].
    intros H. apply app_eq_nil in H. destruct H as [H _]. revert H. apply kdd_nonempty. }
  destruct t; cbn [pstr]; [exact Hs|]. intros H. apply app_eq_nil in H. destruct H as [H _]. auto.
Qed.

Lemma wire_params_ok_spec ps : wire_params_ok ps = true ->
  Forall (fun p => p <> []) ps /\ Forall (Forall sm63) ps.
Proof.
  unfold wire_params_ok. intros H. rewrite forallb_forall in H.
  split; apply Forall_forall; intros p Hp; specialize (H p Hp); destruct p as [|n t]; try discriminate.
  apply Forall_forall. intros x Hx. rewrite forallb_forall in H. specialize (H x Hx).
  unfold small63 in H. unfold sm63. lia.
Qed.

Theorem csi_dec_pstr ps : wire_params_ok ps = true -> csi_dec (pstr ps) = ps.
Proof.
  intros H. destruct (wire_params_ok_spec ps H) as [Hn Hs].
  destruct ps as [|p t]; [reflexivity|].
  unfold csi_dec.
  destruct (pstr (p :: t)) eqn:E; [exfalso; revert E; apply pstr_nonempty; [discriminate|assumption]|].
  rewrite <- E. apply (csi_params_pstr (p :: t) []); [discriminate|assumption|assumption].
Qed.

(* ---------- the wire form of a sequence: delivered as that sequence, after any history ---------- *)
Lemma kseq_report_items u s r : kseq_report s = Some r -> report_ok r = true ->
  events_of u (report_items r) = [(s, decode_key u s)].
Proof.
  intros Hr Hok. destruct s as [g|b|i c|c|i ps f|]; cbn [kseq_report] in Hr; try discriminate.
  - destruct g as [|x [|y t]]; try discriminate. injection Hr as <-. reflexivity.
  - injection Hr as <-. reflexivity.
  - destruct i; [|discriminate]. injection Hr as <-. reflexivity.
  - injection Hr as <-. reflexivity.
  - destruct i; [|discriminate]. destruct (wire_params_ok ps) eqn:Ew; [|discriminate]. injection Hr as <-.
    cbn [report_items app]. rewrite (csi_dec_pstr ps Ew). reflexivity.
Qed.

Lemma kseq_wire_report s w : kseq_wire s = Some w ->
  exists r, kseq_report s = Some r /\ report_ok r = true /\ w = report_wire r.
Proof.
  unfold kseq_wire. destruct (kseq_report s) as [r|]; [|discriminate].
  destruct (report_ok r) eqn:E; [|discriminate]. intros H. injection H as <-. exists r. auto.
Qed.

Theorem key_after_history u p hist s w : clean p ->
  Forall (fun r => report_ok r = true) hist -> kseq_wire s = Some w ->
  run_events u p (flat_map report_wire hist ++ w) =
  run_events u p (flat_map report_wire hist) ++ [(s, decode_key u s)].
Proof.
  intros Hcl Hh Hw. destruct (kseq_wire_report s w Hw) as [r [Hr [Hok ->]]].
  rewrite (report_after_history u p hist r Hcl Hh Hok).
  rewrite (run_events_report u pinit r clean_pinit Hok), (kseq_report_items u s r Hr Hok). reflexivity.
Qed.

(* ---------- the Esc key: a lone ESC byte followed by silence ---------- *)
Lemma lone_esc_clean p : clean p ->
  exists p1 p2, feed p [27] = (p1, [], true) /\ timer_fire p1 = (p2, [IC0 27]) /\ clean p2.
Proof.
  intros Hcl. destruct (esc_post_clean p Hcl) as [Ho [Hs [_ [_ [Hig [Hex Hod]]]]]].
  cbn [feed]. rewrite step_esc, Ho.
  exists (fst (esc_post p)). eexists. split; [reflexivity|].
  rewrite timer_fire_is_spec. unfold spec_timer_fire.
  assert (Ht : timer (fst (esc_post p)) = true).
  { unfold esc_post. destruct (exitf p) as [[]|]; reflexivity. }
  rewrite Ht. split; [reflexivity|]. repeat split; cbn; assumption.
Qed.

(* ---------- byte level, one parser instance to the end of its input ---------- *)
Lemma decode_fuel_ascii bs : forall f, (length bs <= f)%nat ->
  Forall (fun b => 0 <= b < 128) bs -> decode_fuel f bs = bs.
Proof.
  induction bs as [|b t IH]; intros f Hf Ha.
  - destruct f; reflexivity.
  - destruct f; [cbn in Hf; lia|]. inversion Ha as [|? ? Hb Ht]; subst.
    cbn [decode_fuel decode1]. destruct (b <? 128) eqn:E; [|lia].
    rewrite IH; [reflexivity|cbn in Hf; lia|exact Ht].
Qed.

Lemma decode_all_ascii bs : Forall (fun b => 0 <= b < 128) bs -> decode_all bs = bs.
Proof. intros H. apply decode_fuel_ascii; [lia|exact H]. Qed.

Lemma finish_clean p : clean p -> finish p = [IEof].
Proof.
  intros [Hst [Hi [He Ho]]]. unfold finish.
  rewrite step_is_spec_step. unfold spec_step. cbn -[run_exit]. unfold run_trans. cbn -[run_exit].
  rewrite He. reflexivity.
Qed.

Lemma events_of_eof u l : events_of u (l ++ [IEof]) = events_of u l.
Proof. rewrite events_of_app. cbn. apply app_nil_r. Qed.

Definition ascii_report (r : report) : Prop := Forall (fun b => 0 <= b < 128) (report_wire r).

Lemma stream_events_reports u rs : Forall (fun r => report_ok r = true) rs -> Forall ascii_report rs ->
  stream_events u [flat_map report_wire rs] = events_of u (flat_map report_items rs).
Proof.
  intros Hok Ha. unfold stream_events, stream_items. cbn [feed_segments].
  rewrite decode_all_ascii.
  2:{ clear Hok. induction rs as [|r rs IH]; [constructor|]. inversion Ha; subst. cbn [flat_map].
      apply Forall_app. split; [assumption|apply IH; assumption]. }
  destruct (reports_from_clean rs pinit clean_pinit Hok) as [p' [F C]]. rewrite F.
  rewrite (finish_clean p' C). apply events_of_eof.
Qed.

(* the predicate the stream check evaluates on the implementation's observations (first clause of
   c09_stream_violations) holds of the model: one parser instance fed with all the reports delivers
   the concatenation of what a fresh instance delivers for each report alone *)
Theorem stream_bytes_independent u rs : Forall (fun r => report_ok r = true) rs -> Forall ascii_report rs ->
  stream_events u [flat_map report_wire rs] = flat_map (fun r => stream_events u [report_wire r]) rs.
Proof.
  intros Hok Ha. rewrite (stream_events_reports u rs Hok Ha), events_of_flat_map.
  apply flat_map_ext_In. intros r Hr. rewrite Forall_forall in Hok, Ha.
  pose proof (stream_events_reports u [r]) as H1. cbn [flat_map] in H1. rewrite !app_nil_r in H1.
  symmetry. apply H1; constructor; auto.
Qed.

(* ---------- chords ---------- *)
Lemma chords_have_wire_true : chords_have_wire = true.
Proof. vm_compute. reflexivity. Qed.

(* cross-protocol equivalence in context: whatever reports went through the parser before, the
   legacy bytes and the kitty bytes of a both-expressible chord each add exactly one event, and the
   two keys have the same String() and match the same bindings *)
Theorem cross_after_history u : upper_hyp u -> ascii_like u ->
  forall (hist : list report) (c : chord) (sl sk : kseq) (wl wk : list Z),
  Forall (fun r => report_ok r = true) hist ->
  In c both_expressible -> In sl (legacy_encs c) -> In sk (kitty_encs c) ->
  guard_esc_upper c = false -> guard_shift_noalt c sk = false ->
  kseq_wire sl = Some wl -> kseq_wire sk = Some wk ->
  let h := flat_map report_wire hist in
  exists kl kk,
    run_events u pinit (h ++ wl) = run_events u pinit h ++ [(sl, kl)] /\
    run_events u pinit (h ++ wk) = run_events u pinit h ++ [(sk, kk)] /\
    key_string u kl = key_string u kk /\
    forall r mods, r <> 0 -> matches u kl r mods = matches u kk r mods.
Proof.
  intros H1 H2 hist c sl sk wl wk Hh Hc Hl Hk G1 G2 Wl Wk h.
  exists (decode_key u sl), (decode_key u sk).
  split; [apply key_after_history; [exact clean_pinit|exact Hh|exact Wl]|].
  split; [apply key_after_history; [exact clean_pinit|exact Hh|exact Wk]|].
  apply (cross_protocol u H1 H2 c sl sk Hc Hl Hk). unfold cross_guard. now rewrite G1, G2.
Qed.

Lemma desc_have_wire_true : desc_have_wire = true.
Proof. vm_compute. reflexivity. Qed.

(* the description clause in context: whatever reports went through the parser before, the bytes of
   any encoding of a chord add exactly one event, and its key is described as the chord's own Key value *)
Theorem description_after_history u : ascii_like u ->
  forall (hist : list report) (c : chord) (s : kseq) (w : list Z),
  Forall (fun r => report_ok r = true) hist ->
  desc_chord c = true -> In s (all_encs c) -> guard_esc_upper_seq c s = false ->
  kseq_wire s = Some w ->
  let h := flat_map report_wire hist in
  exists k,
    run_events u pinit (h ++ w) = run_events u pinit h ++ [(s, k)] /\
    key_string u k = key_string u (chord_key c).
Proof.
  intros H2 hist c s w Hh Hc Hs G W h.
  exists (decode_key u s).
  split; [apply key_after_history; [exact clean_pinit|exact Hh|exact W]|].
  now apply description_of_encoding.
Qed.

(* ---------- statements over the decidable [clean_b] (props/C09.v) ---------- *)
Lemma report_from_clean_b p r : clean_b p = true -> report_ok r = true ->
  exists p', feed p (report_wire r) = (p', report_items r, true) /\ clean_b p' = true.
Proof.
  intros Hc Hr. destruct (report_from_clean p r (proj1 (clean_b_spec p) Hc) Hr) as [p' [F C]].
  exists p'. split; [exact F|apply clean_b_spec; exact C].
Qed.

Lemma stream_history_independent_b u p rs : clean_b p = true -> Forall (fun r => report_ok r = true) rs ->
  run_events u p (flat_map report_wire rs) = flat_map (fun r => run_events u pinit (report_wire r)) rs.
Proof. intros Hc. apply stream_history_independent. apply clean_b_spec; exact Hc. Qed.

Lemma key_after_history_b u p hist s w : clean_b p = true ->
  Forall (fun r => report_ok r = true) hist -> kseq_wire s = Some w ->
  run_events u p (flat_map report_wire hist ++ w) =
  run_events u p (flat_map report_wire hist) ++ [(s, decode_key u s)].
Proof. intros Hc. apply key_after_history. apply clean_b_spec; exact Hc. Qed.

Lemma lone_esc_clean_b p : clean_b p = true ->
  exists p1 p2, feed p [27] = (p1, [], true) /\ timer_fire p1 = (p2, [IC0 27]) /\ clean_b p2 = true.
Proof.
  intros Hc. destruct (lone_esc_clean p (proj1 (clean_b_spec p) Hc)) as [p1 [p2 [F [T C]]]].
  exists p1, p2. split; [exact F|]. split; [exact T|apply clean_b_spec; exact C].
Qed.

Lemma ascii_report_b r : forallb (fun b => in_range b 0 127) (report_wire r) = true -> ascii_report r.
Proof.
  intros H. unfold ascii_report. apply Forall_forall. intros x Hx. rewrite forallb_forall in H.
  specialize (H x Hx). unfold in_range in H. lia.
Qed.

Lemma stream_bytes_independent_b u rs : Forall (fun r => report_ok r = true) rs ->
  Forall (fun r => forallb (fun b => in_range b 0 127) (report_wire r) = true) rs ->
  stream_events u [flat_map report_wire rs] = flat_map (fun r => stream_events u [report_wire r]) rs.
Proof.
  intros Hok Ha. apply stream_bytes_independent; [exact Hok|].
  eapply Forall_impl; [|exact Ha]. intros r. apply ascii_report_b.
Qed.
