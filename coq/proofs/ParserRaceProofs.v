(* C08 - the Escape timer under every schedule (model/ParserRace.v). *)
From Vx Require Import base.Prelude model.ParserTypes gen.GenParser model.Parser model.Vt500Spec
  model.ParserRace proofs.ParserTable proofs.ParserConform proofs.ParserLife.

(* the guard is what the translator found in ansi/parser.go *)
Lemma code_is_guarded : code_guarded = true.
Proof. reflexivity. Qed.

(* ---------- invariant of the guarded system ---------- *)
Definition no_eof (l : list item) : Prop := Forall (fun i => is_eof i = false) l.

Record rinv (s : rst) : Prop := {
  ri_bad : rbad s = false;
  ri_closed : rclosed s = rfin s;
  ri_fin_timer : rfin s = true -> timer (rp s) = false;
  ri_late : timer (rp s) = true -> (1 <= rlate s)%nat;
  ri_inv : rfin s = false -> inv (rp s);
  ri_out_open : rfin s = false -> no_eof (rout s);
  ri_out_fin : rfin s = true -> exists body, rout s = body ++ [IEof] /\ no_eof body
}.

Lemma plain_no_eof l : Forall (fun i => plain i = true) l -> no_eof l.
Proof.
  intros H. induction H as [|i l Hi _ IH]; constructor; [|exact IH].
  unfold plain in Hi. destruct (is_eof i); [|reflexivity].
  rewrite Bool.andb_false_r in Hi. cbn in Hi. discriminate.
Qed.

Lemma no_eof_app a b : no_eof a -> no_eof b -> no_eof (a ++ b).
Proof. intros Ha Hb. apply Forall_app; split; assumption. Qed.

Lemma rinv_init : rinv rinit.
Proof.
  constructor; cbn.
  - reflexivity.
  - reflexivity.
  - intros H; discriminate.
  - intros H; discriminate.
  - intros _. exact inv_init.
  - intros _. constructor.
  - intros H; discriminate.
Qed.

Lemma timer_set_timer p b : timer (set_timer p b) = b.
Proof. reflexivity. Qed.

Lemma rinv_end s p o :
  rinv s -> rfin s = false -> Forall (fun i => plain i = true) o -> rinv (r_end s p o).
Proof.
  intros I Hf Ho. constructor; cbn.
  - exact (ri_bad s I).
  - reflexivity.
  - intros _. reflexivity.
  - intros H. discriminate.
  - intros H. discriminate.
  - intros H. discriminate.
  - intros _. exists (rout s ++ o). split; [now rewrite app_assoc|].
    apply no_eof_app; [exact (ri_out_open s I Hf)|apply plain_no_eof; exact Ho].
Qed.

Lemma rinv_rune s r : rinv s -> rinv (r_rune s r).
Proof.
  intros I. unfold r_rune. destruct (rfin s) eqn:Hf; [exact I|].
  pose proof (step_plain (rp s) r (ri_inv s I Hf)) as Hs.
  destruct (step (rp s) r) as [[p' o] go]. destruct Hs as [Hinv Ho].
  destruct go; [|apply rinv_end; assumption].
  constructor; cbn.
  - exact (ri_bad s I).
  - rewrite (ri_closed s I). exact Hf.
  - intros H. discriminate.
  - intros Ht. unfold armed_now. rewrite Ht. lia.
  - intros _. apply Hinv. reflexivity.
  - intros _. apply no_eof_app; [exact (ri_out_open s I Hf)|apply plain_no_eof; exact Ho].
  - intros H. discriminate.
Qed.

Lemma rinv_fire s : rinv s -> rinv (r_fire true s).
Proof.
  intros I. unfold r_fire. destruct (rlate s) as [|n] eqn:Hl; [exact I|].
  destruct (timer (rp s) && negb (rfin s)) eqn:Hg.
  - apply Bool.andb_true_iff in Hg as [Ht Hf]. apply Bool.negb_true_iff in Hf.
    pose proof (timer_fire_spec (rp s) (ri_inv s I Hf)) as Hs.
    destruct (timer_fire (rp s)) as [p' o]. destruct Hs as [Hinv [Hon _]].
    destruct (Hon Ht) as [Ho [_ [_ Htp]]]. subst o.
    assert (Hc : rclosed s = false) by (rewrite (ri_closed s I); exact Hf).
    constructor; cbn.
    + rewrite (ri_bad s I), Hc. reflexivity.
    + rewrite Hc, Hf. reflexivity.
    + intros H. rewrite Hf in H. discriminate.
    + intros H. rewrite Htp in H. discriminate.
    + intros _. exact Hinv.
    + intros _. apply no_eof_app; [exact (ri_out_open s I Hf)|repeat constructor].
    + intros H. rewrite Hf in H. discriminate.
  - constructor; cbn; try exact (ri_bad s I); try exact (ri_closed s I); try exact (ri_fin_timer s I);
      try exact (ri_inv s I); try exact (ri_out_open s I); try exact (ri_out_fin s I).
    intros Ht. rewrite Ht in Hg. cbn in Hg. apply Bool.negb_false_iff in Hg.
    rewrite (ri_fin_timer s I Hg) in Ht. discriminate.
Qed.

Lemma rinv_step s e : rinv s -> rinv (r_step true s e).
Proof.
  intros I. destruct e as [r| | |]; cbn [r_step].
  - apply rinv_rune; exact I.
  - destruct (rfin s); [exact I|apply rinv_rune; exact I].
  - destruct (rfin s) eqn:Hf; [exact I|apply rinv_end; [exact I|exact Hf|constructor]].
  - apply rinv_fire; exact I.
Qed.

Lemma rinv_run_from es : forall s, rinv s -> rinv (fold_left (r_step true) es s).
Proof.
  induction es as [|e es IH]; intros s I; cbn [fold_left]; [exact I|].
  apply IH. apply rinv_step. exact I.
Qed.

Lemma rinv_run es : rinv (r_run true es).
Proof. apply rinv_run_from. exact rinv_init. Qed.

(* ---------- the theorems ---------- *)

(* no schedule makes the callback (or anything else) send on the closed channel *)
Theorem race_never_sends_after_close es : rbad (r_run code_guarded es) = false.
Proof. rewrite code_is_guarded. exact (ri_bad _ (rinv_run es)). Qed.

(* one end marker, last, once the run has ended; none before; nothing is sent after it *)
Theorem race_one_eof_last es :
  let s := r_run code_guarded es in
  (rfin s = false -> no_eof (rout s)) /\
  (rfin s = true -> exists body, rout s = body ++ [IEof] /\ no_eof body).
Proof.
  rewrite code_is_guarded. cbv zeta. split.
  - exact (ri_out_open _ (rinv_run es)).
  - exact (ri_out_fin _ (rinv_run es)).
Qed.

(* the guarded system under any schedule IS the sequential reading: a callback that runs is
   [timer_fire] (effective only while the ESC is still the last thing read), nothing happens after
   the end *)
Definition rq_rel (s : rst) (q : qst) : Prop :=
  rp s = qp q /\ rfin s = qfin q /\ rout s = qout q.

Lemma rq_step s q e : rinv s -> rq_rel s q -> rq_rel (r_step true s e) (q_step q e).
Proof.
  intros I [Hp [Hf Ho]]. destruct q as [qp0 qf qo]. cbn in Hp, Hf, Ho. subst qp0 qf qo.
  unfold q_step. cbn [qfin qp qout].
  destruct e as [r| | |]; cbn [r_step].
  - unfold r_rune. destruct (rfin s) eqn:Ef; [repeat split; cbn; congruence|].
    destruct (step (rp s) r) as [[p' o] go]. destruct go; repeat split.
  - destruct (rfin s) eqn:Ef; [repeat split; cbn; congruence|].
    unfold r_rune. rewrite Ef. destruct (step (rp s) eof_rune) as [[p' o] go]. destruct go; repeat split.
  - destruct (rfin s) eqn:Ef; [repeat split; cbn; congruence|]. repeat split.
  - destruct (rfin s) eqn:Ef.
    + unfold r_fire. destruct (rlate s); [repeat split; cbn; congruence|].
      rewrite Ef, Bool.andb_false_r. repeat split; cbn; congruence.
    + unfold r_fire. destruct (rlate s) as [|n] eqn:El.
      * (* no callback outstanding: the flag is off, so timer_fire does nothing *)
        assert (Ht : timer (rp s) = false).
        { destruct (timer (rp s)) eqn:Et; [|reflexivity]. pose proof (ri_late s I Et). lia. }
        unfold timer_fire. rewrite Ht. repeat split; cbn; try congruence. now rewrite app_nil_r.
      * rewrite Ef, Bool.andb_true_r. destruct (timer (rp s)) eqn:Et.
        -- destruct (timer_fire (rp s)) as [p' o]. repeat split; cbn; congruence.
        -- unfold timer_fire. rewrite Et. repeat split; cbn; try congruence. now rewrite app_nil_r.
Qed.

Lemma rq_run_from es : forall s q, rinv s -> rq_rel s q ->
  rq_rel (fold_left (r_step true) es s) (fold_left q_step es q).
Proof.
  induction es as [|e es IH]; intros s q I R; cbn [fold_left]; [exact R|].
  apply IH; [apply rinv_step; exact I|apply rq_step; assumption].
Qed.

Theorem race_is_sequential es :
  rout (r_run code_guarded es) = qout (q_run es) /\ rp (r_run code_guarded es) = qp (q_run es).
Proof.
  rewrite code_is_guarded.
  assert (R0 : rq_rel rinit qinit) by (repeat split).
  destruct (rq_run_from es rinit qinit rinv_init R0) as [Hp [_ Ho]]. split; assumption.
Qed.

(* a callback that runs late - after the rune that followed the ESC has been handled - changes
   nothing: "an ESC promptly followed by further bytes is never reported as Escape", and the
   rune is not lost, whatever the scheduler does with the callback *)
Theorem race_late_fire_is_noop es r :
  r <> 27 ->
  let s1 := r_run code_guarded (es ++ [RRune r]) in
  let s2 := r_run code_guarded (es ++ [RRune r; RFire]) in
  rp s2 = rp s1 /\ rout s2 = rout s1 /\ rbad s2 = false.
Proof.
  intros Hr. rewrite code_is_guarded. cbv zeta.
  unfold r_run. rewrite !fold_left_app. cbn [fold_left r_step].
  set (s := fold_left (r_step true) es rinit).
  assert (I : rinv s) by (apply rinv_run_from; exact rinv_init).
  assert (I1 : rinv (r_rune s r)) by (apply rinv_rune; exact I).
  assert (Ht : timer (rp (r_rune s r)) = false).
  { unfold r_rune. destruct (rfin s) eqn:Ef; [exact (ri_fin_timer s I Ef)|].
    pose proof (non_esc_disarms (rp s) r Hr) as Hd.
    destruct (step (rp s) r) as [[p' o] go]. destruct go; cbn; [exact Hd|reflexivity]. }
  unfold r_fire. destruct (rlate (r_rune s r)); [repeat split; exact (ri_bad _ I1)|].
  rewrite Ht. cbn. repeat split. exact (ri_bad _ I1).
Qed.

(* after the end nothing changes any more, whatever is still scheduled *)
Lemma fin_stable es' : forall s, rinv s -> rfin s = true ->
  rout (fold_left (r_step true) es' s) = rout s /\ rbad (fold_left (r_step true) es' s) = false.
Proof.
  induction es' as [|e t IH]; intros s I Hf; cbn [fold_left]; [split; [reflexivity|exact (ri_bad s I)]|].
  assert (E : rfin (r_step true s e) = true /\ rout (r_step true s e) = rout s).
  { destruct e as [r| | |]; cbn [r_step]; unfold r_rune; try (rewrite Hf); try (split; [first [exact Hf|reflexivity]|reflexivity]).
    unfold r_fire. destruct (rlate s); [split; [exact Hf|reflexivity]|].
    rewrite Hf, Bool.andb_false_r. cbn. split; [first [exact Hf|reflexivity]|reflexivity]. }
  destruct E as [Ef Eo]. rewrite <- Eo. apply IH; [apply rinv_step; exact I|exact Ef].
Qed.

Theorem race_end_is_final es es' :
  rfin (r_run code_guarded es) = true ->
  rout (r_run code_guarded (es ++ es')) = rout (r_run code_guarded es).
Proof.
  rewrite code_is_guarded. intros Hf. unfold r_run in *. rewrite fold_left_app.
  apply fin_stable; [apply rinv_run_from; exact rinv_init|exact Hf].
Qed.

(* the segment semantics of Parser.v (C02 / C08 theorems) is the sequential reading of the
   schedule "runes of a segment, one callback between segments, end of input" *)
(* the eof rune always ends the run loop *)
Lemma step_eof_stops p : let '(_, _, go) := step p eof_rune in go = false.
Proof.
  rewrite step_is_spec_step. unfold spec_step. cbn [andb]. cbv zeta.
  unfold spec_anywhere. rewrite Z.eqb_refl.
  unfold run_trans; cbn. destruct (exitf p) as [[]|]; reflexivity.
Qed.

Lemma q_fin_stable es : forall q, qfin q = true -> fold_left q_step es q = q.
Proof.
  induction es as [|e t IH]; intros q Hq; cbn [fold_left]; [reflexivity|].
  unfold q_step at 2. rewrite Hq. apply IH. exact Hq.
Qed.

Definition q_after (q : qst) (p : pst) (o : list item) (go : bool) (q' : qst) : Prop :=
  if go then q' = {| qp := p; qfin := false; qout := qout q ++ o |}
  else qfin q' = true /\ qout q' = qout q ++ o ++ [IEof].

Lemma q_feed rs : forall q,
  qfin q = false ->
  let '(p', o, go) := feed (qp q) rs in
  q_after q p' o go (fold_left q_step (map RRune rs) q).
Proof.
  induction rs as [|r t IH]; intros q Hq; cbn [feed map fold_left].
  - unfold q_after. destruct q as [p f o]; cbn in *. subst f. now rewrite app_nil_r.
  - destruct (step (qp q) r) as [[p1 o1] go1] eqn:Es.
    unfold q_step at 2. rewrite Hq, Es. destruct go1.
    + specialize (IH {| qp := p1; qfin := false; qout := qout q ++ o1 |} eq_refl). cbn [qp] in IH.
      destruct (feed p1 t) as [[p2 o2] go2]. unfold q_after in *. cbn [qout] in IH.
      destruct go2; [rewrite IH; now rewrite app_assoc|].
      destruct IH as [Hf Ho]. split; [exact Hf|]. rewrite Ho. now rewrite !app_assoc.
    + unfold q_after. rewrite q_fin_stable by reflexivity. cbn. split; reflexivity.
Qed.

Lemma q_segments segs : forall q,
  qfin q = false ->
  let '(p, o, go) := feed_segments (qp q) segs in
  q_after q p o go (fold_left q_step (seg_events segs) q).
Proof.
  induction segs as [|s t IH]; intros q Hq.
  - cbn. destruct q as [p f o]; cbn in *. subst f. now rewrite app_nil_r.
  - cbn [feed_segments].
    pose proof (q_feed (decode_all s) q Hq) as Hf.
    destruct (feed (qp q) (decode_all s)) as [[p1 o1] go1]. destruct go1.
    + unfold q_after in Hf.
      destruct t as [|s2 t2]; [cbn [seg_events]; unfold q_after; exact Hf|].
      change (seg_events (s :: s2 :: t2)) with (map RRune (decode_all s) ++ RFire :: seg_events (s2 :: t2)).
      rewrite fold_left_app, Hf. cbn [fold_left].
      unfold q_step at 2. cbn [qfin qp qout].
      destruct (timer_fire p1) as [p2 o2].
      specialize (IH {| qp := p2; qfin := false; qout := (qout q ++ o1) ++ o2 |} eq_refl). cbn [qp qout] in IH.
      destruct (feed_segments p2 (s2 :: t2)) as [[p3 o3] go3]. unfold q_after in *. cbn [qout] in *.
      destruct go3; [rewrite IH; now rewrite !app_assoc|].
      destruct IH as [Hfin Ho]. split; [exact Hfin|]. rewrite Ho. now rewrite !app_assoc.
    + unfold q_after in *. destruct Hf as [Hfin Ho].
      destruct t as [|s2 t2]; [cbn [seg_events]; split; assumption|].
      change (seg_events (s :: s2 :: t2)) with (map RRune (decode_all s) ++ RFire :: seg_events (s2 :: t2)).
      rewrite fold_left_app. rewrite q_fin_stable by exact Hfin. split; assumption.
Qed.

(* the segment semantics of Parser.v (what the C02 / C08 theorems speak about) is the sequential
   reading of the schedule "runes of a segment, one callback between segments, end of input" *)
Theorem segments_are_a_schedule segs :
  canon (qout (q_run (seg_events segs ++ [REof]))) = parse_segments segs.
Proof.
  unfold parse_segments, q_run. rewrite fold_left_app.
  pose proof (q_segments segs qinit eq_refl) as H. change (qp qinit) with pinit in H.
  destruct (feed_segments pinit segs) as [[p o] go]. unfold q_after in H. destruct go.
  - rewrite H. cbn [fold_left]. unfold q_step. cbn [qfin qp qout app]. unfold finish.
    destruct (step p eof_rune) as [[p' o'] go'] eqn:Es.
    (* the eof rune always ends the run: go' = false *)
    assert (go' = false) as ->.
    { pose proof (step_eof_stops p) as Hs. rewrite Es in Hs. exact Hs. }
    cbn [qout]. reflexivity.
  - destruct H as [Hfin Ho]. rewrite q_fin_stable by exact Hfin. rewrite Ho. reflexivity.
Qed.

(* hence, with the guarded callback, EVERY schedule that consists of those events - with any
   number of additional late callbacks after non-ESC runes or after the end - delivers what the
   segment semantics says; in particular the plain schedule itself *)
Corollary race_segments segs :
  canon (rout (r_run code_guarded (seg_events segs ++ [REof]))) = parse_segments segs.
Proof. rewrite (proj1 (race_is_sequential _)). apply segments_are_a_schedule. Qed.

(* ---------- the unguarded callback (the code before the fix) ---------- *)
Theorem race_unguarded_sends_after_close :
  rbad (r_run false [RRune 27; RClose; RFire]) = true.
Proof. vm_compute. reflexivity. Qed.

(* ... and when it runs after the next rune it reports Escape, resets the state and the rune
   after that is read from ground: ESC [ A at the 10 ms boundary becomes Escape, "A" *)
Theorem race_unguarded_loses_input :
  rout (r_run false [RRune 27; RRune 91; RFire; RRune 65]) = [IC0 27; IPrint [65]] /\
  rout (r_run true [RRune 27; RRune 91; RFire; RRune 65]) = [ICsi [] [] 65].
Proof. vm_compute. split; reflexivity. Qed.
