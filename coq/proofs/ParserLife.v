(* Lifecycle facts about the parser model (C08): what can and cannot be emitted,
   the Escape-key timer, the end-of-input marker. *)
From Vx Require Import base.Prelude model.ParserTypes gen.GenParser model.Parser model.Vt500Spec
  proofs.ParserTable proofs.ParserConform.

Definition is_esc_key (i : item) : bool := match i with IC0 c => c =? 27 | _ => false end.
Definition is_eof (i : item) : bool := match i with IEof => true | _ => false end.
Definition is_panic (i : item) : bool := match i with IPanic => true | _ => false end.
Definition plain (i : item) : bool := negb (is_esc_key i) && negb (is_eof i) && negb (is_panic i).

(* invariant: the OSC state always has its exit action registered (so the nil-function
   call of `p.exit()` on BEL cannot happen) *)
Definition inv (p : pst) : Prop := st p = OscString -> exitf p <> None.

Lemma inv_init : inv pinit.
Proof. intros H; discriminate. Qed.

Ltac break_ifs :=
  repeat match goal with
  | |- context [if ?c then _ else _] =>
      match type of c with bool => let E := fresh "E" in destruct c eqn:E end
  end.

Ltac exits p :=
  repeat match goal with
  | |- context [exitf p] => let E := fresh "Ex" in destruct (exitf p) as [[]|] eqn:E
  end.

Lemma plain_c0 r : (r =? 27) = false -> plain (IC0 r) = true.
Proof. intros H; unfold plain; cbn. now rewrite H. Qed.

Ltac fin_inv :=
  intros _; unfold inv; cbn;
  first [ intros ?; discriminate | intros _ ?; discriminate | intros _; assumption | congruence ].

Ltac fin_items :=
  cbn -[plain]; repeat (first [ apply Forall_nil | apply Forall_cons ]);
  first [ reflexivity | apply plain_c0; assumption ].

Ltac fin :=
  cbn -[plain in_range csi_params dcs_params];
  repeat match goal with |- context [if ?c then _ else _] =>
           match type of c with bool => destruct c end end;
  cbn -[plain in_range csi_params dcs_params];
  (split; [fin_inv | fin_items]).

(* One step of the run loop from a state satisfying the invariant: the invariant is kept,
   and nothing emitted is an Escape key, an end marker or a panic. *)
Lemma spec_step_plain p r :
  inv p ->
  let '(p', o, go) := spec_step false p r in
  (go = true -> inv p') /\ Forall (fun i => plain i = true) o.
Proof.
  intros Hinv. unfold spec_step. cbn [andb]. cbv zeta.
  change (st (set_timer p false)) with (st p).
  unfold spec_anywhere.
  destruct (r =? eof_rune) eqn:Eeof.
  { unfold run_trans; cbn -[plain]. exits p; cbn -[plain]; (split; [intros ?; discriminate|fin_items]). }
  destruct ((r =? 24) || (r =? 26)) eqn:Ecan.
  { assert (Hr : (r =? 27) = false) by (apply Z.eqb_neq; apply orb_prop in Ecan as [H|H]; apply Z.eqb_eq in H; lia).
    unfold run_trans; cbn -[plain in_range]. exits p; fin. }
  destruct (r =? 27) eqn:Eesc.
  { unfold run_trans; cbn -[plain]. exits p; fin. }
  unfold inv in Hinv.
  destruct (st p) eqn:Est; unfold spec_trans, spec_post, c0exec; break_ifs;
    unfold run_trans; cbn -[plain in_range csi_params dcs_params];
    try (match goal with H : st p = OscString |- _ =>
           destruct (exitf p) as [[]|] eqn:Ex; [| | |exfalso; apply (Hinv eq_refl); first [assumption|reflexivity]] end);
    try (destruct (params p) eqn:Eparams);
    try (match goal with |- context [dcs_params ?a ?b ?c] => destruct (dcs_params a b c) end);
    fin.
Qed.

Lemma step_plain p r :
  inv p -> let '(p', o, go) := step p r in (go = true -> inv p') /\ Forall (fun i => plain i = true) o.
Proof. rewrite step_is_spec_step. apply spec_step_plain. Qed.

Lemma feed_plain rs : forall p,
  inv p -> let '(p', o, go) := feed p rs in (go = true -> inv p') /\ Forall (fun i => plain i = true) o.
Proof.
  induction rs as [|r t IH]; intros p Hp; cbn [feed]; [split; [intros _; assumption|constructor]|].
  pose proof (step_plain p r Hp) as Hs. destruct (step p r) as [[p1 o1] go].
  destruct Hs as [Hp1 Ho1]. destruct go; [|split; [intros ?; discriminate|assumption]].
  specialize (IH p1 (Hp1 eq_refl)). destruct (feed p1 t) as [[p2 o2] go2]. destruct IH as [Hp2 Ho2].
  split; [assumption|]. apply Forall_app; split; assumption.
Qed.

(* the timer: fires only when armed; then exactly one Escape key, state ground, clean flag *)
Lemma timer_fire_spec p :
  inv p ->
  let '(p', o) := timer_fire p in
  inv p' /\
  (timer p = true -> o = [IC0 27] /\ st p' = Ground /\ ignoreST p' = false /\ timer p' = false) /\
  (timer p = false -> o = [] /\ p' = p).
Proof.
  intros Hp. rewrite timer_fire_is_spec. unfold spec_timer_fire.
  destruct (timer p) eqn:Et.
  - split; [intros H; discriminate|]. split; [intros _; repeat split|intros H; discriminate].
  - split; [assumption|]. split; [intros H; discriminate|intros _; split; reflexivity].
Qed.

(* ESC arms the timer and enters the escape state, from every state *)
Lemma esc_arms p :
  let '(p', o, go) := step p 27 in
  go = true /\ st p' = Escape /\ timer p' = true /\ ignoreST p' = ignoreST p.
Proof.
  rewrite step_is_spec_step. unfold spec_step. cbn [andb]. cbv zeta.
  unfold spec_anywhere. cbn -[run_exit]. unfold run_trans. cbn -[run_exit].
  destruct (exitf p) as [[]|]; cbn; repeat split.
Qed.

(* every other rune disarms it *)
Lemma non_esc_disarms p r :
  r <> 27 -> let '(p', o, go) := step p r in timer p' = false.
Proof.
  intros Hr. rewrite step_is_spec_step. unfold spec_step. cbn [andb]. cbv zeta.
  change (st (set_timer p false)) with (st p).
  assert (E : (r =? 27) = false) by (apply Z.eqb_neq; exact Hr).
  unfold spec_anywhere. rewrite E.
  destruct (r =? eof_rune).
  { unfold run_trans; cbn. destruct (exitf p) as [[]|]; reflexivity. }
  destruct ((r =? 24) || (r =? 26)).
  { unfold run_trans; cbn -[in_range]. destruct (exitf p) as [[]|]; reflexivity. }
  destruct (st p); unfold spec_trans, spec_post, c0exec; break_ifs;
    unfold run_trans; cbn -[in_range csi_params dcs_params];
    try (destruct (ignoreST p); cbn -[in_range csi_params dcs_params]);
    try (destruct (params p); cbn -[in_range csi_params dcs_params]);
    try (match goal with |- context [dcs_params ?a ?b ?c] => destruct (dcs_params a b c) end; cbn -[in_range csi_params dcs_params]);
    try (destruct (exitf p) as [[]|]; cbn -[in_range csi_params dcs_params]);
    reflexivity.
Qed.

(* ---- whole runs ---- *)
Lemma feed_segments_plain segs : forall p,
  inv p ->
  let '(p', o, go) := feed_segments p segs in
  (go = true -> inv p') /\ Forall (fun i => is_eof i = false /\ is_panic i = false) o.
Proof.
  assert (W : forall o, Forall (fun i => plain i = true) o ->
                        Forall (fun i => is_eof i = false /\ is_panic i = false) o).
  { intros o H; eapply Forall_impl; [|exact H]. intros i Hi. unfold plain in Hi.
    apply andb_prop in Hi as [Hi Hp]. apply andb_prop in Hi as [_ He].
    split; [now destruct (is_eof i)|now destruct (is_panic i)]. }
  induction segs as [|s t IH]; intros p Hp; cbn [feed_segments]; [split; [intros _; assumption|constructor]|].
  pose proof (feed_plain (decode_all s) p Hp) as Hf.
  destruct (feed p (decode_all s)) as [[p1 o1] go]. destruct Hf as [Hp1 Ho1].
  destruct go; [|split; [intros ?; discriminate|auto]].
  specialize (Hp1 eq_refl).
  destruct t as [|s2 t]; [split; [intros _; assumption|auto]|].
  pose proof (timer_fire_spec p1 Hp1) as Ht. destruct (timer_fire p1) as [p2 o2].
  destruct Ht as [Hp2 [Hon Hoff]].
  specialize (IH p2 Hp2). destruct (feed_segments p2 (s2 :: t)) as [[p3 o3] go3].
  destruct IH as [Hp3 Ho3]. split; [assumption|].
  apply Forall_app; split; [auto|]. apply Forall_app; split; [|assumption].
  destruct (timer p1); [destruct (Hon eq_refl) as [-> _]|destruct (Hoff eq_refl) as [-> _]];
    repeat constructor.
Qed.

Lemma canon_preserves (P : item -> Prop) :
  (forall a b, P (IPrint a) -> P (IPrint b) -> P (IPrint (a ++ b))) ->
  forall l, Forall P l -> Forall P (canon l).
Proof.
  intros HP l; induction l as [|x t IH]; intros H; [constructor|].
  inversion H as [|? ? Hx Ht]; subst. specialize (IH Ht).
  destruct x; cbn [canon]; try (constructor; assumption); try assumption.
  destruct (canon t) as [|y t'] eqn:Ec; [constructor; [assumption|constructor]|].
  destruct y; try (constructor; assumption).
  inversion IH; subst. constructor; [apply HP; assumption|assumption].
Qed.

Lemma canon_app_eof l : canon (l ++ [IEof]) = canon l ++ [IEof].
Proof.
  induction l as [|x t IH]; [reflexivity|].
  destruct x; cbn [app canon]; rewrite ?IH; try reflexivity.
  destruct (canon t) as [|y t']; [reflexivity|]. destruct y; reflexivity.
Qed.

(* exactly one end-of-input marker, and it is the last item; no panic; for every input *)
Theorem one_eof_last segs :
  exists body, parse_segments segs = body ++ [IEof] /\
               Forall (fun i => is_eof i = false /\ is_panic i = false) body.
Proof.
  unfold parse_segments.
  pose proof (feed_segments_plain segs pinit inv_init) as H.
  destruct (feed_segments pinit segs) as [[p o] go]. destruct H as [Hp Ho].
  assert (C : forall l, Forall (fun i => is_eof i = false /\ is_panic i = false) l ->
                        Forall (fun i => is_eof i = false /\ is_panic i = false) (canon l)).
  { apply canon_preserves. intros; split; reflexivity. }
  destruct go.
  - specialize (Hp eq_refl). unfold finish. pose proof (step_plain p eof_rune Hp) as Hs.
    destruct (step p eof_rune) as [[p1 o1] g]. destruct Hs as [_ Ho1].
    exists (canon (o ++ o1)). rewrite app_assoc, canon_app_eof. split; [reflexivity|].
    apply C. apply Forall_app; split; [assumption|].
    eapply Forall_impl; [|exact Ho1]. intros i Hi. unfold plain in Hi.
    apply andb_prop in Hi as [Hi Hpn]. apply andb_prop in Hi as [_ He].
    split; [now destruct (is_eof i)|now destruct (is_panic i)].
  - exists (canon o). rewrite canon_app_eof. split; [reflexivity|]. apply C; assumption.
Qed.

(* a lone ESC followed by silence: from ANY state satisfying the invariant, exactly one Escape
   key is delivered by the timer (none by the read loop), and the parser is in ground with the
   ST-suppression flag clear and the timer off *)
Theorem lone_esc p :
  inv p ->
  let '(p1, o1, go) := feed p [27] in
  let '(p2, o2) := timer_fire p1 in
  go = true /\ Forall (fun i => plain i = true) o1 /\ o2 = [IC0 27] /\
  st p2 = Ground /\ ignoreST p2 = false /\ timer p2 = false.
Proof.
  intros Hp. cbn [feed].
  pose proof (esc_arms p) as Ha. pose proof (step_plain p 27 Hp) as Hs.
  destruct (step p 27) as [[p1 o1] go]. destruct Ha as [-> [Hst [Ht _]]]. destruct Hs as [Hp1 Ho1].
  specialize (Hp1 eq_refl). rewrite app_nil_r.
  pose proof (timer_fire_spec p1 Hp1) as Hf. destruct (timer_fire p1) as [p2 o2].
  destruct Hf as [_ [Hon _]]. destruct (Hon Ht) as [-> [Hg [Hi Htm]]].
  repeat split; assumption.
Qed.

(* an ESC promptly followed by further runes is never reported as the Escape key: without a
   timer firing, no run of the read loop delivers IC0 27, whatever the runes *)
Theorem prompt_esc rs p :
  inv p -> let '(p', o, go) := feed p rs in Forall (fun i => is_esc_key i = false) o.
Proof.
  intros Hp. pose proof (feed_plain rs p Hp) as H. destruct (feed p rs) as [[p' o] go].
  destruct H as [_ H]. eapply Forall_impl; [|exact H]. intros i Hi. unfold plain in Hi.
  apply andb_prop in Hi as [Hi _]. apply andb_prop in Hi as [Hi _]. now destruct (is_esc_key i).
Qed.

(* and the rune after the ESC disarms the timer, so a later silence reports nothing *)
Theorem prompt_esc_disarms p r :
  r <> 27 ->
  let '(p1, _, _) := step p 27 in
  let '(p2, _, _) := step p1 r in
  timer_fire p2 = (p2, []).
Proof.
  intros Hr. destruct (step p 27) as [[p1 o1] g1].
  pose proof (non_esc_disarms p1 r Hr) as H. destruct (step p1 r) as [[p2 o2] g2].
  unfold timer_fire. now rewrite H.
Qed.
