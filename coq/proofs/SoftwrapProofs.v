(* Proofs about the soft-wrap scanners of vxfw/text and vxfw/richtext (model/Softwrap.v). *)
From Vx Require Import base.Prelude base.ListX model.Softwrap.
Require Import ZifyBool.

Definition wok (l : list cell) : Prop := Forall (fun c => 0 <= c_width c) l.

Lemma sumw_app a b : sumw (a ++ b) = sumw a + sumw b.
Proof. unfold sumw. induction a as [|x a IH]; cbn [fold_right app]; [lia|]. rewrite IH. lia. Qed.

Lemma sumw_cons c l : sumw (c :: l) = c_width c + sumw l.
Proof. reflexivity. Qed.

Lemma sumw_nil : sumw [] = 0.
Proof. reflexivity. Qed.

Lemma wok_app a b : wok (a ++ b) <-> wok a /\ wok b.
Proof. unfold wok. apply Forall_app. Qed.

Lemma sumw_nonneg l : wok l -> 0 <= sumw l.
Proof. induction 1 as [|c l Hc Hl IH]; [cbn; lia|]. rewrite sumw_cons. lia. Qed.

Lemma firstn_skipn_sumw n l : sumw (firstn n l) + sumw (skipn n l) = sumw l.
Proof. rewrite <- sumw_app, firstn_skipn. reflexivity. Qed.

Lemma wok_firstn n l : wok l -> wok (firstn n l).
Proof. intros H. rewrite <- (firstn_skipn n l) in H. apply wok_app in H. tauto. Qed.
Lemma wok_skipn n l : wok l -> wok (skipn n l).
Proof. intros H. rewrite <- (firstn_skipn n l) in H. apply wok_app in H. tauto. Qed.

Lemma u16_id x : 0 <= x < 65536 -> u16 x = x.
Proof. intros H. unfold u16. apply Z.mod_small. lia. Qed.

Lemma u16_range x : 0 <= u16 x < 65536.
Proof. unfold u16. apply Z.mod_pos_bound. lia. Qed.

Lemma u16sum_gen l a : wok l -> 0 <= a -> a + sumw l < 65536 ->
  fold_left (fun a c => u16 (a + cw c)) l a = a + sumw l.
Proof.
  revert a. induction l as [|c l IH]; intros a Hw Ha Hs; cbn [fold_left].
  - cbn. lia.
  - rewrite sumw_cons in Hs. inversion Hw as [|? ? Hc Hl]; subst.
    pose proof (sumw_nonneg l Hl) as Hn.
    assert (Hcw : cw c = c_width c) by (unfold cw; apply u16_id; lia).
    rewrite Hcw, (u16_id (a + c_width c)) by lia.
    rewrite IH by (auto; lia). rewrite sumw_cons. lia.
Qed.

Lemma u16sum_eq l : wok l -> sumw l < 65536 -> u16sum l = sumw l.
Proof. intros Hw Hs. unfold u16sum. rewrite u16sum_gen by (auto; lia). lia. Qed.

Lemma u16sum_range l : 0 <= u16sum l < 65536.
Proof.
  unfold u16sum. generalize 0 at 2 3. intros a.
  assert (H : forall a, 0 <= a < 65536 -> 0 <= fold_left (fun a c => u16 (a + cw c)) l a < 65536).
  { induction l as [|c l IH]; intros b Hb; cbn [fold_left]; [lia|]. apply IH. apply u16_range. }
  revert a. induction l as [|c l IH]; intros a.
Abort.

Lemma fold_u16_range l : forall a, 0 <= a < 65536 -> 0 <= fold_left (fun a c => u16 (a + cw c)) l a < 65536.
Proof. induction l as [|c l IH]; intros b Hb; cbn [fold_left]; [lia|]. apply IH. apply u16_range. Qed.

Lemma u16sum_range l : 0 <= u16sum l < 65536.
Proof. unfold u16sum. apply fold_u16_range. lia. Qed.

Lemma u16sum_nil : u16sum [] = 0.
Proof. reflexivity. Qed.

Section Trim.
  Variable is_space : cell -> bool.
  Notation trim := (trim_right is_space).

  Lemma trim_spec l : exists sp, l = trim l ++ sp /\ Forall (fun c => is_space c = true) sp.
  Proof.
    induction l as [|c l [sp [Hl Hsp]]].
    - exists []. split; [reflexivity|constructor].
    - cbn [trim_right]. destruct (trim l) as [|x t] eqn:E.
      + destruct (is_space c) eqn:Ec.
        * exists (c :: sp). cbn in *. split; [congruence|constructor; auto].
        * exists sp. cbn in *. split; [congruence|auto].
      + exists sp. split; [|auto]. cbn. f_equal. exact Hl.
  Qed.

  Lemma trim_last l : trim l = [] \/ exists x y, trim l = x ++ [y] /\ is_space y = false.
  Proof.
    induction l as [|c l IH]; [left; reflexivity|].
    cbn [trim_right]. destruct (trim l) as [|z t] eqn:E.
    - destruct (is_space c) eqn:Ec; [left; reflexivity|]. right. exists [], c. auto.
    - right. destruct IH as [IH|[x [y [Hx Hy]]]]; [discriminate|].
      exists (c :: x), y. rewrite Hx. auto.
  Qed.

  Lemma trim_all_space l : Forall (fun c => is_space c = true) l -> trim l = [].
  Proof. induction 1 as [|c l Hc Hl IH]; [reflexivity|]. cbn [trim_right]. rewrite IH, Hc. reflexivity. Qed.

  Lemma trim_app_space a sp : Forall (fun c => is_space c = true) sp -> trim (a ++ sp) = trim a.
  Proof.
    intros Hsp. induction a as [|c a IH]; cbn [app trim_right].
    - apply trim_all_space; auto.
    - rewrite IH. reflexivity.
  Qed.

  Lemma trim_app_nonempty a b : trim b <> [] -> trim (a ++ b) = a ++ trim b.
  Proof.
    intros Hb. induction a as [|c a IH]; cbn [app trim_right]; [reflexivity|].
    rewrite IH. destruct (a ++ trim b) eqn:E; [|reflexivity].
    apply app_eq_nil in E. tauto.
  Qed.

  Lemma trim_idem_snoc x y : is_space y = false -> trim (x ++ [y]) = x ++ [y].
  Proof. intros Hy. rewrite trim_app_nonempty; cbn; rewrite Hy; [reflexivity|discriminate]. Qed.

  Lemma trim_length_le l : (length (trim l) <= length l)%nat.
  Proof. destruct (trim_spec l) as [sp [H _]]. remember (trim l) as t. rewrite H, app_length. lia. Qed.

  Lemma trim_skipn l : l = trim l ++ skipn (length (trim l)) l.
  Proof.
    destruct (trim_spec l) as [sp [H _]]. remember (trim l) as t. rewrite H.
    rewrite skipn_app, skipn_all, Nat.sub_diag. reflexivity.
  Qed.

  Lemma trim_skipn_space l : Forall (fun c => is_space c = true) (skipn (length (trim l)) l).
  Proof.
    destruct (trim_spec l) as [sp [H Hs]]. remember (trim l) as t. rewrite H.
    rewrite skipn_app, skipn_all, Nat.sub_diag. exact Hs.
  Qed.

  Lemma wok_trim l : wok l -> wok (trim l).
  Proof. intros H. rewrite (trim_skipn l) in H. apply wok_app in H. tauto. Qed.

  Lemma sumw_trim_le l : wok l -> sumw (trim l) <= sumw l.
  Proof.
    intros H. rewrite (trim_skipn l) at 2. rewrite sumw_app.
    rewrite (trim_skipn l) in H. apply wok_app in H. pose proof (sumw_nonneg _ (proj2 H)). lia.
  Qed.

  Lemma nonspace_app a b : nonspace is_space (a ++ b) = nonspace is_space a ++ nonspace is_space b.
  Proof. unfold nonspace. apply filter_app. Qed.

  Lemma nonspace_all_space l : Forall (fun c => is_space c = true) l -> nonspace is_space l = [].
  Proof. induction 1 as [|c l Hc Hl IH]; [reflexivity|]. cbn. rewrite Hc. cbn. exact IH. Qed.

  Lemma nonspace_trim l : nonspace is_space (trim l) = nonspace is_space l.
  Proof.
    rewrite (trim_skipn l) at 2. rewrite nonspace_app, (nonspace_all_space _ (trim_skipn_space l)).
    now rewrite app_nil_r.
  Qed.
End Trim.

(* the long-word loop *)
Lemma split_long_full W word token over : forall w, W <= w ->
  split_long W word w token over = (token, over ++ word).
Proof.
  revert over. induction word as [|c t IH]; intros over w Hw; cbn [split_long].
  - now rewrite app_nil_r.
  - replace (W <=? w) with true by lia. cbn [orb]. rewrite IH by lia. now rewrite <- app_assoc.
Qed.

Lemma split_long_spec W : 0 < W < 65536 -> forall word w token over tok' over',
  wok word -> w = sumw token -> 0 <= w -> w + sumw word < 65536 ->
  (w <= W \/ (length token <= 1)%nat) ->
  split_long W word w token over = (tok', over') ->
  exists taken left, word = taken ++ left /\ tok' = token ++ taken /\ over' = over ++ left /\
    (sumw tok' <= W \/ (length tok' <= 1)%nat) /\
    (token = [] -> word <> [] -> taken <> []).
Proof.
  intros HW. induction word as [|c t IH]; intros w token over tok' over' Hwok Hw H0 Hs Hfit H.
  - cbn in H. injection H as <- <-. exists [], []. rewrite !app_nil_r.
    split; [reflexivity|]. split; [reflexivity|]. split; [reflexivity|]. split.
    + subst w. tauto.
    + intros _ Hc. congruence.
  - cbn [split_long] in H. inversion Hwok as [|? ? Hc Ht]; subst.
    rewrite sumw_cons in Hs. pose proof (sumw_nonneg t Ht) as Hnt.
    assert (Hcw : cw c = c_width c) by (unfold cw; apply u16_id; lia).
    rewrite Hcw, (u16_id (sumw token + c_width c)) in H by lia.
    destruct ((W <=? sumw token) || (negb (is_nil token) && (W <? sumw token + c_width c))) eqn:E.
    + rewrite split_long_full in H by lia. rewrite <- app_assoc in H. cbn [app] in H. injection H as <- <-.
      exists [], (c :: t). rewrite app_nil_r.
      split; [reflexivity|]. split; [reflexivity|]. split; [reflexivity|]. split.
      * destruct Hfit; auto.
      * intros -> _. cbn in E. lia.
    + apply IH in H; auto.
      * destruct H as [taken [left [H1 [H2 [H3 [H4 H5]]]]]].
        exists (c :: taken), left. rewrite H1, H2, H3, <- app_assoc. cbn [app].
        split; [reflexivity|]. split; [reflexivity|]. split; [reflexivity|]. split.
        -- rewrite H2, <- app_assoc in H4. exact H4.
        -- intros _ _. discriminate.
      * rewrite sumw_app, sumw_cons, sumw_nil. lia.
      * lia.
      * lia.
      * destruct token as [|x tk]; [right; cbn; lia|]. left.
        cbn [is_nil negb andb] in E. lia.
Qed.

Section Generic.
  Variable St : Type.
  Variable segf : St -> list cell -> option (nat * bool * St).
  Variable reset : St -> St.
  Variables is_space hasbreak : cell -> bool.
  Variable residue : cell -> list cell.

  Notation trim := (trim_right is_space).
  Notation sloop := (scan_loop St segf reset is_space hasbreak residue).
  Notation sscan := (scan St segf reset is_space hasbreak residue).
  Notation sall := (scan_all St segf reset is_space hasbreak residue).
  Notation srun := (run St segf reset is_space hasbreak residue).

  (* the structural contract of the segment oracle *)
  Definition seg_ok : Prop := forall st rest n br st', rest <> [] -> segf st rest = Some (n, br, st') ->
     (0 < n <= length rest)%nat /\ (n = length rest -> br = true).
  Hypothesis Hseg : seg_ok.

  Lemma skipn_nonnil {A} n (l : list A) : (n < length l)%nat -> skipn n l <> [].
  Proof. intros H E. apply (f_equal (@length A)) in E. rewrite skipn_length in E. cbn in E. lia. Qed.

  Lemma loop_no_hang fuel : forall W rest st w token, rest <> [] -> (length rest < fuel)%nat ->
    sloop fuel W rest st w token <> ScanHang.
  Proof.
    induction fuel as [|fuel IH]; intros W rest st w token Hne Hf; [lia|].
    cbn [scan_loop]. destruct (segf st rest) as [[[n br] st']|] eqn:E; [|discriminate].
    destruct (Hseg _ _ _ _ _ Hne E) as [Hn Hbr].
    destruct (W <? _); [destruct (split_long _ _ _ _ _); discriminate|].
    destruct (W <? _); [discriminate|].
    destruct br; [discriminate|].
    destruct (W <? _); [discriminate|].
    apply IH.
    - apply skipn_nonnil. assert (n <> length rest) by (intros Hc; apply Hbr in Hc; discriminate). lia.
    - rewrite skipn_length. lia.
  Qed.

  Lemma loop_progress fuel : forall W rest st w token tok' rest' st', 0 < W -> rest <> [] ->
    sloop fuel W rest st w token = ScanLine tok' rest' st' ->
    (length rest' <= length rest)%nat /\ (token = [] -> w = 0 -> (length rest' < length rest)%nat).
  Proof.
    induction fuel as [|fuel IH]; intros W rest st w token tok' rest' st' HW Hne H; [discriminate|].
    cbn [scan_loop] in H. destruct (segf st rest) as [[[n br] stn]|] eqn:E; [|discriminate].
    destruct (Hseg _ _ _ _ _ Hne E) as [Hn Hbr].
    set (seg := firstn n rest) in *. set (word := trim seg) in *.
    assert (Hrest : rest = word ++ skipn (length word) seg ++ skipn n rest).
    { rewrite app_assoc. unfold word. rewrite <- trim_skipn. unfold seg. now rewrite firstn_skipn. }
    destruct (W <? u16sum word) eqn:E1.
    - destruct (split_long W word w token []) as [tk ov] eqn:Es. injection H as <- <- <-.
      assert (Hsl : forall wd w token over tk ov, split_long W wd w token over = (tk, ov) ->
                exists taken left, wd = taken ++ left /\ tk = token ++ taken /\ ov = over ++ left /\
                  (token = [] -> w = 0 -> wd <> [] -> taken <> [])).
      { clear - HW. induction wd as [|c t IHt]; intros w token over tk ov Hs; cbn [split_long] in Hs.
        - injection Hs as <- <-. exists [], []. rewrite !app_nil_r. repeat split; auto.
        - destruct ((W <=? w) || _) eqn:Ec.
          + rewrite split_long_full in Hs by lia. rewrite <- app_assoc in Hs. cbn [app] in Hs.
            injection Hs as <- <-. exists [], (c :: t). rewrite app_nil_r. repeat split; auto.
            intros -> -> _. cbn in Ec. lia.
          + apply IHt in Hs. destruct Hs as [taken [left [H1 [H2 [H3 _]]]]].
            exists (c :: taken), left. subst. rewrite <- app_assoc. repeat split; auto. discriminate. }
      destruct (Hsl _ _ _ _ _ _ Es) as [taken [left [H1 [H2 [H3 H4]]]]].
      cbn [app] in H3. subst ov.
      assert (Hlen : length rest = (length taken + length (left ++ skipn (length word) seg ++ skipn n rest))%nat).
      { rewrite Hrest at 1. rewrite H1, <- app_assoc, app_length. reflexivity. }
      split; [lia|]. intros Ht Hw0.
      assert (taken <> []).
      { apply H4; auto. intros Hc. rewrite Hc, u16sum_nil in E1. lia. }
      destruct taken; [congruence|cbn in Hlen; lia].
    - destruct (W <? u16 (w + u16sum word)) eqn:E2.
      + injection H as <- <- <-. split; [lia|]. intros _ ->.
        pose proof (u16sum_range word). rewrite Z.add_0_l, u16_id in E2 by lia. lia.
      + assert (Hsk : (length (skipn n rest) < length rest)%nat) by (rewrite skipn_length; lia).
        destruct br.
        * injection H as <- <- <-. lia.
        * destruct (W <? u16 (u16 (w + u16sum word) + u16sum (skipn (length word) seg))) eqn:E3.
          -- injection H as <- <- <-. lia.
          -- apply IH in H; auto.
             ++ lia.
             ++ apply skipn_nonnil. assert (n <> length rest) by (intros Hc; apply Hbr in Hc; discriminate). lia.
  Qed.

  Lemma scan_shrinks W rest st tok rest' st' : 0 <= W ->
    sscan W rest st = ScanLine tok rest' st' -> (length rest' < length rest)%nat.
  Proof.
    intros HW. unfold scan. destruct rest as [|c r]; [discriminate|]. cbn [is_nil orb].
    destruct (W =? 0) eqn:E; [discriminate|]. intros H.
    apply loop_progress in H; [|lia|discriminate]. apply H; reflexivity.
  Qed.

  Lemma scan_no_hang W rest st : sscan W rest st <> ScanHang.
  Proof.
    unfold scan. destruct (is_nil rest || (W =? 0)) eqn:E; [discriminate|].
    apply loop_no_hang; [destruct rest; [discriminate|discriminate]|lia].
  Qed.

  Lemma scan_all_no_hang W : 0 <= W -> forall fuel rest st, (length rest < fuel)%nat ->
    snd (sall fuel W rest st) <> Hang.
  Proof.
    intros HW. induction fuel as [|fuel IH]; intros rest st Hf; [lia|].
    cbn [scan_all]. destruct (sscan W rest st) as [tok rest' st'| | |] eqn:E; try discriminate.
    - apply scan_shrinks in E; auto. specialize (IH rest' st' ltac:(lia)).
      destruct (sall fuel W rest' st') as [ls o]. exact IH.
    - exfalso. exact (scan_no_hang _ _ _ E).
  Qed.

  (* ---------- explanation of one Scan ---------- *)

  Inductive chain (W : Z) : St -> list cell -> Z -> St -> list cell -> list cell -> Prop :=
  | chain_nil st rest w : chain W st rest w st [] rest
  | chain_cons st rest w n st1 stq pre restq :
      rest <> [] ->
      segf st rest = Some (n, false, st1) ->
      sumw (trim (firstn n rest)) <= W ->
      w + sumw (firstn n rest) <= W ->
      chain W st1 (skipn n rest) (w + sumw (firstn n rest)) stq pre restq ->
      chain W st rest w stq (firstn n rest ++ pre) restq.

  Inductive final (W : Z) (stq : St) (restq : list cell) (wq : Z) (tokq : list cell)
    : list cell -> list cell -> St -> Prop :=
  | fin_long n br stn tok' over :
      segf stq restq = Some (n, br, stn) ->
      W < sumw (trim (firstn n restq)) ->
      split_long W (trim (firstn n restq)) wq tokq [] = (tok', over) ->
      final W stq restq wq tokq tok'
            (over ++ skipn (length (trim (firstn n restq))) (firstn n restq) ++ skipn n restq) (reset stq)
  | fin_nofit n br stn :
      segf stq restq = Some (n, br, stn) ->
      sumw (trim (firstn n restq)) <= W ->
      W < wq + sumw (trim (firstn n restq)) ->
      final W stq restq wq tokq tokq restq stq
  | fin_brk n stn :
      segf stq restq = Some (n, true, stn) ->
      sumw (trim (firstn n restq)) <= W ->
      wq + sumw (trim (firstn n restq)) <= W ->
      final W stq restq wq tokq (tokq ++ strip hasbreak residue (firstn n restq)) (skipn n restq) stn
  | fin_space n stn :
      segf stq restq = Some (n, false, stn) ->
      sumw (trim (firstn n restq)) <= W ->
      wq + sumw (trim (firstn n restq)) <= W ->
      W < wq + sumw (firstn n restq) ->
      final W stq restq wq tokq (tokq ++ trim (firstn n restq)) (skipn n restq) stn.

  Lemma chain_snoc W st rest w stq pre restq n st1 :
    chain W st rest w stq pre restq -> restq <> [] ->
    segf stq restq = Some (n, false, st1) ->
    sumw (trim (firstn n restq)) <= W ->
    w + sumw pre + sumw (firstn n restq) <= W ->
    chain W st rest w st1 (pre ++ firstn n restq) (skipn n restq).
  Proof.
    induction 1 as [st rest w | st rest w n0 st0 stq pre restq Hne Hs Hw1 Hw2 Hc IH]; intros Hne' Hs' Hw1' Hw2'.
    - cbn [app]. rewrite <- (app_nil_r (firstn n rest)). cbn in Hw2'.
      eapply chain_cons; eauto; [lia|]. constructor.
    - rewrite <- app_assoc. eapply chain_cons; eauto. apply IH; auto.
      rewrite sumw_app in Hw2'. lia.
  Qed.

  Lemma loop_explained fuel : forall W rest st w token tok' rest' st',
    0 <= W < 65536 -> rest <> [] -> wok rest -> 0 <= w -> w + sumw rest < 65536 ->
    sloop fuel W rest st w token = ScanLine tok' rest' st' ->
    exists stq pre restq, chain W st rest w stq pre restq /\ restq <> [] /\
      final W stq restq (w + sumw pre) (token ++ pre) tok' rest' st'.
  Proof.
    induction fuel as [|fuel IH]; intros W rest st w token tok' rest' st' HW Hne Hwok Hw0 Hov H; [discriminate|].
    cbn [scan_loop] in H. destruct (segf st rest) as [[[n br] stn]|] eqn:E; [|discriminate].
    destruct (Hseg _ _ _ _ _ Hne E) as [Hn Hbr].
    set (seg := firstn n rest) in *. set (word := trim seg) in *.
    set (trsp := skipn (length word) seg) in *.
    assert (Hseg_eq : seg = word ++ trsp) by (apply trim_skipn).
    assert (Hwseg : wok seg) by (apply wok_firstn; auto).
    assert (Hwsk : wok (skipn n rest)) by (apply wok_skipn; auto).
    assert (Hwword : wok word) by (apply wok_trim; auto).
    assert (Hwtr : wok trsp) by (rewrite Hseg_eq in Hwseg; apply wok_app in Hwseg; tauto).
    pose proof (firstn_skipn_sumw n rest) as Hsum. fold seg in Hsum.
    assert (Hsegsum : sumw seg = sumw word + sumw trsp) by (rewrite Hseg_eq at 1; apply sumw_app).
    pose proof (sumw_nonneg _ Hwword) as Hn1. pose proof (sumw_nonneg _ Hwtr) as Hn2.
    pose proof (sumw_nonneg _ Hwsk) as Hn3.
    rewrite (u16sum_eq word) in H by (auto; lia).
    rewrite (u16sum_eq trsp) in H by (auto; lia).
    rewrite (u16_id (w + sumw word)) in H by lia.
    rewrite (u16_id (w + sumw word + sumw trsp)) in H by lia.
    destruct (W <? sumw word) eqn:E1.
    - destruct (split_long W word w token []) as [tk ov] eqn:Es. injection H as <- <- <-.
      exists st, [], rest. split; [constructor|]. split; [auto|].
      rewrite sumw_nil, Z.add_0_r, app_nil_r.
      eapply fin_long; eauto. fold seg word. lia.
    - destruct (W <? w + sumw word) eqn:E2.
      + injection H as <- <- <-. exists st, [], rest. split; [constructor|]. split; [auto|].
        rewrite sumw_nil, Z.add_0_r, app_nil_r. eapply fin_nofit; eauto; fold seg word; lia.
      + destruct br.
        * injection H as <- <- <-. exists st, [], rest. split; [constructor|]. split; [auto|].
          rewrite sumw_nil, Z.add_0_r, app_nil_r. eapply fin_brk; eauto; fold seg word; lia.
        * destruct (W <? w + sumw word + sumw trsp) eqn:E3.
          -- injection H as <- <- <-. exists st, [], rest. split; [constructor|]. split; [auto|].
             rewrite sumw_nil, Z.add_0_r, app_nil_r. eapply fin_space; eauto; fold seg word; lia.
          -- assert (Hne' : skipn n rest <> []).
             { apply skipn_nonnil. assert (n <> length rest) by (intros Hc; apply Hbr in Hc; discriminate). lia. }
             apply IH in H; auto; try lia.
             destruct H as [stq [pre [restq [Hc [Hq Hf]]]]].
             exists stq, (seg ++ pre), restq. split; [|split; [auto|]].
             ++ eapply chain_cons; eauto; fold seg; fold word; try lia.
                replace (w + sumw seg) with (w + sumw word + sumw trsp) by lia. exact Hc.
             ++ rewrite sumw_app.
                assert (Heq : ((token ++ word) ++ trsp) ++ pre = token ++ seg ++ pre).
                { rewrite Hseg_eq, <- !app_assoc. reflexivity. }
                rewrite Heq in Hf.
                replace (w + (sumw seg + sumw pre)) with (w + sumw word + sumw trsp + sumw pre) by lia.
                exact Hf.
  Qed.
End Generic.

(* ---------- text.go instance ---------- *)
Definition orc_end_ok (N : nat) (orc : Z -> Z -> option (Z * bool * Z)) : Prop :=
  forall i st n br st', orc i st = Some (n, br, st') -> Z.of_nat N <= i + n -> br = true.

Lemma plain_seg_ok N orc : orc_end_ok N orc -> seg_ok Z (plain_segf N orc).
Proof.
  intros Hend st rest n br st' Hne H. unfold plain_segf in H.
  destruct rest as [|c r]; [congruence|]. set (rest := c :: r) in *.
  destruct (orc (Z.of_nat (N - length rest)) st) as [[[m b] s]|] eqn:E; [|discriminate].
  destruct ((0 <? m) && (m <=? zlen rest)) eqn:Ev; [|discriminate].
  injection H as <- <- <-. unfold zlen in Ev. split; [lia|].
  intros Hn. eapply Hend; eauto. lia.
Qed.

(* ---------- richtext.go instance ---------- *)
Lemma fls_go_eq hasbreak pairbrk pairmust first i c nx t :
  fls_go hasbreak pairbrk pairmust first i (c :: nx :: t) =
  if first && hasbreak c then Some (S i, true)
  else if hasbreak nx then Some (S (S i), true)
  else match pairbrk c nx with
       | None => None
       | Some true => Some (S i, pairmust c nx)
       | Some false => fls_go hasbreak pairbrk pairmust false (S i) (nx :: t)
       end.
Proof. reflexivity. Qed.

Lemma fls_go_ok hasbreak pairbrk pairmust : forall cells first i n br,
  cells <> [] -> fls_go hasbreak pairbrk pairmust first i cells = Some (n, br) ->
  (i < n <= i + length cells)%nat /\ (n = (i + length cells)%nat -> br = true).
Proof.
  induction cells as [|c t IH]; intros first i n br Hne H; [congruence|].
  destruct t as [|nx t'].
  - cbn in H. injection H as <- <-. cbn [length]. split; [lia|auto].
  - rewrite fls_go_eq in H.
    destruct (first && hasbreak c).
    { injection H as <- <-. cbn [length]. split; [lia|auto]. }
    destruct (hasbreak nx).
    { injection H as <- <-. cbn [length]. split; [lia|auto]. }
    destruct (pairbrk c nx) as [[|]|]; [| |discriminate].
    + injection H as <- <-. cbn [length]. split; [lia|]. intros; lia.
    + apply IH in H; [|discriminate]. cbn [length] in *. split; [lia|]. intros Hn. apply H. lia.
Qed.

Lemma rich_seg_ok hasbreak pairbrk pairmust : seg_ok unit (rich_segf hasbreak pairbrk pairmust).
Proof.
  intros st rest n br st' Hne H. unfold rich_segf, first_line_segment in H.
  destruct (fls_go hasbreak pairbrk pairmust true 0 rest) as [[m b]|] eqn:E; [|discriminate].
  injection H as <- <- <-. apply fls_go_ok in E; auto.
Qed.

Theorem plain_terminates N orc is_space hasbreak residue W input :
  orc_end_ok N orc -> 0 <= W ->
  snd (run Z (plain_segf N orc) plain_reset is_space hasbreak residue W input (-1)) <> Hang.
Proof. intros H HW. apply scan_all_no_hang; auto. apply plain_seg_ok; auto. Qed.

Theorem rich_terminates pairbrk pairmust is_space hasbreak residue W input : 0 <= W ->
  snd (run unit (rich_segf hasbreak pairbrk pairmust) (fun s => s) is_space hasbreak residue W input tt) <> Hang.
Proof. intros HW. apply scan_all_no_hang; auto. apply rich_seg_ok. Qed.

(* [kept is_space a b]: a and b differ only by whitespace cells *)
Inductive kept (is_space : cell -> bool) : list cell -> list cell -> Prop :=
| kept_nil : kept is_space [] []
| kept_same c a b : kept is_space a b -> kept is_space (c :: a) (c :: b)
| kept_drop c a b : is_space c = true -> kept is_space a b -> kept is_space a (c :: b)
| kept_add c a b : is_space c = true -> kept is_space a b -> kept is_space (c :: a) b.

Section Kept.
  Variable is_space : cell -> bool.
  Notation kept := (kept is_space).
  Notation spaces := (Forall (fun c => is_space c = true)).

  Lemma kept_refl l : kept l l.
  Proof. induction l; constructor; auto. Qed.

  Lemma kept_spaces a b : spaces a -> spaces b -> kept a b.
  Proof.
    induction 1 as [|x a Hx Ha IH]; intros Hb.
    - induction Hb; constructor; auto.
    - apply kept_add; auto.
  Qed.

  Lemma kept_app a b c d : kept a b -> kept c d -> kept (a ++ c) (b ++ d).
  Proof. induction 1; intros; cbn [app]; auto; constructor; auto. Qed.

  Lemma kept_nonspace a b : kept a b -> nonspace is_space a = nonspace is_space b.
  Proof.
    induction 1 as [|c a b H IH|c a b Hc H IH|c a b Hc H IH]; auto; unfold nonspace in *; cbn [filter].
    - rewrite IH. reflexivity.
    - rewrite Hc. cbn. exact IH.
    - rewrite Hc. cbn. exact IH.
  Qed.

  (* any per-cell content that whitespace cells do not have is conserved *)
  Lemma kept_content {X} (content : cell -> list X) a b :
    (forall c, is_space c = true -> content c = []) ->
    kept a b -> flat_map content a = flat_map content b.
  Proof.
    intros Hsp. induction 1 as [|c a b H IH|c a b Hc H IH|c a b Hc H IH]; auto; cbn [flat_map].
    - rewrite IH. reflexivity.
    - rewrite (Hsp _ Hc). exact IH.
    - rewrite (Hsp _ Hc). exact IH.
  Qed.
End Kept.

Section GenericSpec.
  Variable St : Type.
  Variable segf : St -> list cell -> option (nat * bool * St).
  Variable reset : St -> St.
  Variables is_space hasbreak : cell -> bool.
  Variable residue : cell -> list cell.

  Notation trim := (trim_right is_space).
  Notation sloop := (scan_loop St segf reset is_space hasbreak residue).
  Notation sscan := (scan St segf reset is_space hasbreak residue).
  Notation sall := (scan_all St segf reset is_space hasbreak residue).
  Notation srun := (run St segf reset is_space hasbreak residue).
  Notation spaces := (Forall (fun c => is_space c = true)).
  Notation chain := (chain St segf is_space).
  Notation final := (final St segf reset is_space hasbreak residue).

  Hypothesis Hseg : seg_ok St segf.
  (* [good]: what is known of the cells of the text; [ws]: the cells that may be lost *)
  Variable good : cell -> Prop.
  Variable ws : cell -> bool.
  (* a trailing line break is whitespace, and so is what is left of its cell *)
  Hypothesis Hbrk_space : forall c, hasbreak c = true -> is_space c = true.
  Hypothesis Hws : forall c, good c -> is_space c = true -> ws c = true.
  Hypothesis Hres : forall c r, good c -> hasbreak c = true -> In r (residue c) ->
                                is_space r = true /\ ws r = true.
  Notation wspaces := (Forall (fun c => ws c = true)).

  Definition fits (W : Z) (l : list cell) : Prop :=
    sumw (trim l) <= W \/ (length (trim l) <= 1)%nat.

  Lemma fits_b_iff W l : fits_b is_space W l = true <-> fits W l.
  Proof. unfold fits_b, fits. rewrite orb_true_iff, Z.leb_le, Nat.leb_le. tauto. Qed.

  Lemma fits_of_sum W l : wok l -> sumw l <= W -> fits W l.
  Proof. intros Hw H. left. pose proof (sumw_trim_le is_space l Hw). lia. Qed.

  Lemma fits_of_len W l : (length l <= 1)%nat -> fits W l.
  Proof. intros H. right. pose proof (trim_length_le is_space l). lia. Qed.

  Lemma rev_nil_inv {A} (l : list A) : rev l = [] -> l = [].
  Proof. intros H. rewrite <- (rev_involutive l), H. reflexivity. Qed.

  Lemma snoc_cases {A} (l : list A) : l = [] \/ exists l' x, l = l' ++ [x].
  Proof.
    destruct l as [|a l]; [left; reflexivity|]. right.
    destruct (@exists_last A (a :: l)) as [l' [x H]]; [discriminate|]. eauto.
  Qed.

  Lemma good_spaces l : Forall good l -> spaces l -> wspaces l.
  Proof.
    intros Hg Hs. rewrite Forall_forall in *. intros c Hc. apply Hws; auto.
  Qed.

  Lemma strip_shape seg : Forall good seg ->
    exists sp sp', seg = trim seg ++ sp /\ strip hasbreak residue seg = trim seg ++ sp' /\
    spaces sp /\ spaces sp' /\ wspaces sp /\ wspaces sp'.
  Proof.
    intros Hg.
    destruct (trim_spec is_space seg) as [sp [Hs Hsp]].
    assert (Hgsp : Forall good sp) by (rewrite Hs in Hg; apply Forall_app in Hg; tauto).
    pose proof (good_spaces _ Hgsp Hsp) as Hwsp.
    unfold strip. destruct (rev seg) as [|c r] eqn:Er.
    - apply rev_nil_inv in Er. subst seg. exists [], []. cbn. repeat split; constructor.
    - assert (Hseg' : seg = rev r ++ [c]).
      { rewrite <- (rev_involutive seg), Er. reflexivity. }
      destruct (hasbreak c) eqn:Hc; [|exists sp, sp; repeat split; auto].
      pose proof (Hbrk_space _ Hc) as Hcs.
      assert (Hgc : good c).
      { rewrite Hseg' in Hg. apply Forall_app in Hg. destruct Hg as [_ Hg]. inversion Hg; auto. }
      destruct (snoc_cases sp) as [->|[sp0 [z ->]]].
      + exfalso. rewrite app_nil_r in Hs.
        destruct (trim_last is_space seg) as [Ht|[x [y [Ht Hy]]]].
        * rewrite Ht in Hs. rewrite Hs in Hseg'. destruct (rev r); discriminate.
        * rewrite Ht in Hs. rewrite Hs in Hseg'. apply app_inj_tail in Hseg'.
          destruct Hseg' as [_ ->]. congruence.
      + remember (trim seg) as t. rewrite Hs in Hseg'. rewrite app_assoc in Hseg'.
        apply app_inj_tail in Hseg'. destruct Hseg' as [Hr ->].
        exists (sp0 ++ [c]), (sp0 ++ residue c). rewrite <- Hr, <- app_assoc.
        split; [exact Hs|]. split; [reflexivity|]. split; [exact Hsp|].
        apply Forall_app in Hsp. apply Forall_app in Hwsp.
        split; [|split; [apply Forall_app; tauto|]]; apply Forall_app; (split; [tauto|]);
          apply Forall_forall; intros w Hw; eapply Hres; eauto.
  Qed.

  Lemma chain_split W st rest w stq pre restq : chain W st rest w stq pre restq -> rest = pre ++ restq.
  Proof.
    induction 1 as [|st rest w n st1 stq pre restq Hne Hs H1 H2 Hc IH]; [reflexivity|].
    rewrite <- app_assoc, <- IH. symmetry. apply firstn_skipn.
  Qed.

  Lemma chain_width W st rest w stq pre restq : chain W st rest w stq pre restq -> w <= W -> w + sumw pre <= W.
  Proof.
    induction 1 as [|st rest w n st1 stq pre restq Hne Hs H1 H2 Hc IH]; intros Hw; [cbn; lia|].
    rewrite sumw_app. specialize (IH H2). lia.
  Qed.

  (* what one Scan call does *)
  Lemma scan_spec W rest st tok rest' st' :
    0 <= W < 65536 -> wok rest -> sumw rest < 65536 -> Forall good rest ->
    sscan W rest st = ScanLine tok rest' st' ->
    exists consumed, rest = consumed ++ rest' /\ consumed <> [] /\
      kept ws tok consumed /\ fits W tok.
  Proof.
    intros HW Hwok Hov Hgood. unfold scan. destruct rest as [|c0 r0] eqn:Erest; [discriminate|].
    rewrite <- Erest in *. assert (Hne : rest <> []) by (rewrite Erest; discriminate).
    replace (is_nil rest) with false by (rewrite Erest; reflexivity). cbn [orb].
    destruct (W =? 0) eqn:EW; [discriminate|]. intros H.
    apply loop_explained in H; auto; try lia.
    destruct H as [stq [pre [restq [Hc [Hq Hf]]]]]. cbn [app] in Hf. rewrite Z.add_0_l in Hf.
    pose proof (chain_split _ _ _ _ _ _ _ Hc) as Hsplit.
    pose proof (chain_width _ _ _ _ _ _ _ Hc ltac:(lia)) as Hwq. rewrite Z.add_0_l in Hwq.
    assert (Hwpre : wok pre) by (rewrite Hsplit in Hwok; apply wok_app in Hwok; tauto).
    assert (Hwq' : wok restq) by (rewrite Hsplit in Hwok; apply wok_app in Hwok; tauto).
    assert (Hgq : Forall good restq) by (rewrite Hsplit in Hgood; apply Forall_app in Hgood; tauto).
    assert (Hgseg : forall n, Forall good (firstn n restq)).
    { intros n. rewrite <- (firstn_skipn n restq) in Hgq. apply Forall_app in Hgq. tauto. }
    pose proof (sumw_nonneg _ Hwpre) as Hn0.
    assert (Hsumq : sumw pre + sumw restq < 65536) by (rewrite <- sumw_app, <- Hsplit; lia).
    inversion Hf as [n br stn tk ov Hs H1 H2 | n br stn Hs H1 H2 | n stn Hs H1 H2 | n stn Hs H1 H2 H3];
      clear Hf; subst tok rest' st'.
    - (* long word *)
      set (seg := firstn n restq) in *. set (word := trim seg) in *.
      assert (Hwseg : wok seg) by (apply wok_firstn; auto).
      assert (Hwword : wok word) by (apply wok_trim; auto).
      pose proof (firstn_skipn_sumw n restq) as Hsum. fold seg in Hsum.
      pose proof (sumw_trim_le is_space seg Hwseg) as Hle. fold word in Hle.
      pose proof (sumw_nonneg _ (wok_skipn n _ Hwq')) as Hn3.
      destruct (split_long_spec W ltac:(lia) word (sumw pre) pre [] tk ov) as [taken [left [E1 [E2 [E3 [E4 E5]]]]]]; auto; try lia.
      exists (pre ++ taken). cbn [app] in E3. subst ov tk.
      split; [|split; [|split]].
      + rewrite Hsplit, <- app_assoc. f_equal.
        rewrite <- (firstn_skipn n restq) at 1. fold seg. rewrite (trim_skipn is_space seg) at 1. fold word.
        rewrite E1, <- !app_assoc. reflexivity.
      + destruct pre; [|discriminate]. cbn [app]. apply E5; auto.
        intros Hc0. rewrite Hc0 in H1. cbn in H1. lia.
      + apply kept_refl.
      + destruct E4 as [E4|E4]; [|apply fits_of_len; auto].
        apply fits_of_sum; auto. apply wok_app. split; auto.
        rewrite E1 in Hwword. apply wok_app in Hwword. tauto.
    - (* the next word does not fit *)
      exists pre. split; [auto|]. split; [|split].
      + intros ->. cbn in H2. lia.
      + apply kept_refl.
      + apply fits_of_sum; auto.
    - (* hard break *)
      set (seg := firstn n restq) in *.
      destruct (Hseg _ _ _ _ _ Hq Hs) as [Hn _].
      destruct (strip_shape seg (Hgseg n)) as [sp [sp' [Hs1 [Hs2 [Hsp [Hsp' [Hwsp Hwsp']]]]]]].
      exists (pre ++ seg). split; [|split; [|split]].
      + rewrite Hsplit, <- app_assoc. f_equal. symmetry. apply firstn_skipn.
      + intros Hc0. apply app_eq_nil in Hc0. destruct Hc0 as [_ Hc0].
        apply (f_equal (@length cell)) in Hc0. unfold seg in Hc0. rewrite firstn_length in Hc0. cbn in Hc0. lia.
      + apply kept_app; [apply kept_refl|]. rewrite Hs2. rewrite Hs1 at 2.
        apply kept_app; [apply kept_refl|apply kept_spaces; auto].
      + rewrite Hs2. unfold fits. rewrite app_assoc, trim_app_space by auto.
        assert (Hwseg : wok seg) by (apply wok_firstn; auto).
        apply fits_of_sum.
        * apply wok_app. split; auto. apply wok_trim; auto.
        * rewrite sumw_app. lia.
    - (* the trailing space does not fit *)
      set (seg := firstn n restq) in *.
      destruct (Hseg _ _ _ _ _ Hq Hs) as [Hn _].
      exists (pre ++ seg). split; [|split; [|split]].
      + rewrite Hsplit, <- app_assoc. f_equal. symmetry. apply firstn_skipn.
      + intros Hc0. apply app_eq_nil in Hc0. destruct Hc0 as [_ Hc0].
        apply (f_equal (@length cell)) in Hc0. unfold seg in Hc0. rewrite firstn_length in Hc0. cbn in Hc0. lia.
      + apply kept_app; [apply kept_refl|]. rewrite (trim_skipn is_space seg) at 2.
        rewrite <- (app_nil_r (trim seg)) at 1.
        apply kept_app; [apply kept_refl|apply kept_spaces; [constructor|]].
        apply good_spaces; [|apply trim_skipn_space].
        pose proof (Hgseg n) as Hg. fold seg in Hg. rewrite (trim_skipn is_space seg) in Hg.
        apply Forall_app in Hg. tauto.
      + assert (Hwseg : wok seg) by (apply wok_firstn; auto).
        apply fits_of_sum.
        * apply wok_app. split; auto. apply wok_trim; auto.
        * rewrite sumw_app. lia.
  Qed.
End GenericSpec.

Lemma skipn_add {A} a b (l : list A) : skipn (a + b) l = skipn b (skipn a l).
Proof.
  revert l. induction a as [|a IH]; intros l; [reflexivity|].
  destruct l as [|x l]; cbn [Nat.add skipn]; [now rewrite skipn_nil|apply IH].
Qed.

Lemma skipn_split {A} (input : list A) p consumed rest' :
  skipn p input = consumed ++ rest' -> consumed <> [] ->
  (p < length input)%nat /\ rest' = skipn (p + length consumed) input /\
  sub input p (p + length consumed) = consumed /\ (p + length consumed + length rest' = length input)%nat.
Proof.
  intros H Hne.
  assert (Hlen : (length input - p = length consumed + length rest')%nat).
  { rewrite <- skipn_length, H, app_length. reflexivity. }
  assert (0 < length consumed)%nat by (destruct consumed; [congruence|cbn; lia]).
  split; [lia|]. split; [|split; [|lia]].
  - rewrite skipn_add, H, skipn_app, skipn_all, Nat.sub_diag. reflexivity.
  - unfold sub. rewrite H. replace (p + length consumed - p)%nat with (length consumed) by lia.
    rewrite firstn_app, firstn_all, Nat.sub_diag. cbn. apply app_nil_r.
Qed.

Section RunSpec.
  Variable St : Type.
  Variable segf : St -> list cell -> option (nat * bool * St).
  Variable reset : St -> St.
  Variables is_space hasbreak : cell -> bool.
  Variable residue : cell -> list cell.

  Notation sscan := (scan St segf reset is_space hasbreak residue).
  Notation sall := (scan_all St segf reset is_space hasbreak residue).
  Notation srun := (run St segf reset is_space hasbreak residue).

  Hypothesis Hseg : seg_ok St segf.
  Variable good : cell -> Prop.
  Variable ws : cell -> bool.
  Hypothesis Hbrk_space : forall c, hasbreak c = true -> is_space c = true.
  Hypothesis Hws : forall c, good c -> is_space c = true -> ws c = true.
  Hypothesis Hres : forall c r, good c -> hasbreak c = true -> In r (residue c) ->
                                is_space r = true /\ ws r = true.

  Variable input : list cell.
  Variable W : Z.
  Hypothesis HW : 0 <= W < 65536.
  Hypothesis Hwok : wok input.
  Hypothesis Hov : sumw input < 65536.
  Hypothesis Hgood : Forall good input.
  Notation N := (length input).

  (* a comparison that only looks at what whitespace-insensitive content *)
  Variable same : list cell -> list cell -> bool.
  Hypothesis Hsame : forall a b, kept ws a b -> same a b = true.

  Lemma wok_suffix p : wok (skipn p input).
  Proof. apply wok_skipn; auto. Qed.

  Lemma good_suffix p : Forall good (skipn p input).
  Proof. rewrite <- (firstn_skipn p input) in Hgood. apply Forall_app in Hgood. tauto. Qed.

  Lemma sumw_suffix p : sumw (skipn p input) < 65536.
  Proof.
    pose proof (firstn_skipn_sumw p input). pose proof (sumw_nonneg _ (wok_firstn p _ Hwok)). lia.
  Qed.

  Lemma loop_not_stop fuel : forall W rest st w token,
    scan_loop St segf reset is_space hasbreak residue fuel W rest st w token <> ScanStop.
  Proof.
    induction fuel as [|fuel IH]; intros W' rest st w token; cbn [scan_loop]; [discriminate|].
    destruct (segf st rest) as [[[n br] st']|]; [|discriminate].
    destruct (W' <? _); [destruct (split_long _ _ _ _ _); discriminate|].
    destruct (W' <? _); [discriminate|].
    destruct br; [discriminate|].
    destruct (W' <? _); [discriminate|]. apply IH.
  Qed.

  Lemma all_spec fuel : forall p st lines o, (p <= N)%nat ->
    sall fuel W (skipn p input) st = (lines, o) ->
    Forall (fun x => fits is_space W (fst x)) lines /\
    conserve_b same input N p lines = true /\
    Forall (fun x => (snd x <= N)%nat) lines /\
    increasing_from p (cuts_of N lines) = true /\
    (o = Done -> W <> 0 -> last (p :: cuts_of N lines) 0%nat = N) /\
    (o = Done -> W <> 0 -> kept ws (concat (map fst lines)) (skipn p input)).
  Proof.
    induction fuel as [|fuel IH]; intros p st lines o Hp H; cbn [scan_all] in H.
    - injection H as <- <-. repeat split; auto; intros; discriminate.
    - destruct (sscan W (skipn p input) st) as [tok rest' st'| | |] eqn:E.
      + destruct (sall fuel W rest' st') as [ls o'] eqn:Ea. injection H as <- <-.
        destruct (scan_spec St segf reset is_space hasbreak residue Hseg good ws Hbrk_space Hws Hres
                    W _ _ _ _ _ HW (wok_suffix p) (sumw_suffix p) (good_suffix p) E) as [consumed [Hc [Hne [Hk Hf]]]].
        destruct (skipn_split _ _ _ _ Hc Hne) as [Hp' [Hr [Hsub Hlen]]].
        rewrite Hr in Ea. apply IH in Ea; [|lia].
        destruct Ea as [F1 [F2 [F3 [F4 [F5 F6]]]]].
        assert (Hcut : (N - length rest' = p + length consumed)%nat) by lia.
        split; [constructor; auto|]. split; [|split; [|split; [|split]]].
        * cbn [conserve_b]. rewrite Hcut, Hsub, F2, (Hsame _ _ Hk). reflexivity.
        * constructor; auto. cbn [snd]. lia.
        * cbn [cuts_of map snd increasing_from]. fold (cuts_of N ls). rewrite Hcut, F4.
          destruct consumed; [congruence|]. cbn [length]. rewrite andb_true_r. apply Nat.ltb_lt. lia.
        * intros Ho HW0. specialize (F5 Ho HW0). cbn [cuts_of map snd]. fold (cuts_of N ls).
          rewrite Hcut. exact F5.
        * intros Ho HW0. specialize (F6 Ho HW0). cbn [map fst concat]. rewrite Hc, Hr.
          apply kept_app; auto.
      + injection H as <- <-. split; [constructor|]. split; [reflexivity|]. split; [constructor|].
        split; [reflexivity|].
        assert (Hstop : W <> 0 -> skipn p input = []).
        { intros HW0. unfold scan in E. destruct (skipn p input) eqn:Es; [reflexivity|].
          cbn [is_nil orb] in E. destruct (W =? 0) eqn:E0; [lia|]. exfalso. exact (loop_not_stop _ _ _ _ _ _ E). }
        split; intros _ HW0; specialize (Hstop HW0).
        * cbn. apply (f_equal (@length cell)) in Hstop. rewrite skipn_length in Hstop. cbn in Hstop. lia.
        * rewrite Hstop. constructor.
      + injection H as <- <-. repeat split; auto; intros; discriminate.
      + injection H as <- <-. repeat split; auto; intros; discriminate.
  Qed.

  Lemma run_spec st0 lines o : srun W input st0 = (lines, o) ->
    Forall (fun x => fits is_space W (fst x)) lines /\
    conserve_b same input N 0 lines = true /\
    (o = Done -> W <> 0 -> kept ws (concat (map fst lines)) input) /\
    (o = Done -> progress_b N W lines = true).
  Proof.
    unfold run. intros H. pose proof (all_spec (S N) 0 st0 lines o ltac:(lia) H) as [F1 [F2 [F3 [F4 [F5 F6]]]]].
    split; [auto|]. split; [auto|]. split; [exact F6|]. intros Ho. unfold progress_b.
    destruct ((W =? 0) || Nat.eqb N 0) eqn:E0.
    - cbn [scan_all] in H. unfold scan in H.
      destruct input as [|c r] eqn:Ei.
      + cbn in H. injection H as <- <-. reflexivity.
      + cbn [is_nil orb length Nat.eqb] in *. rewrite orb_false_r in E0. rewrite E0 in H.
        injection H as <- <-. reflexivity.
    - apply orb_false_iff in E0. destruct E0 as [E0 E1]. apply Nat.eqb_neq in E1.
      specialize (F5 Ho ltac:(lia)).
      apply andb_true_iff. split.
      + apply forallb_forall. intros x Hx. rewrite Forall_forall in F3. apply Nat.leb_le. auto.
      + destruct (cuts_of N lines) as [|c t] eqn:Ec.
        * cbn in F5. lia.
        * cbn [increasing_from] in F4. rewrite F4. cbn [andb].
          apply Nat.eqb_eq. exact F5.
  Qed.
End RunSpec.

Lemma skipn_app_len {A} (a b : list A) : skipn (length a) (a ++ b) = b.
Proof. rewrite skipn_app, skipn_all, Nat.sub_diag. reflexivity. Qed.

Lemma firstn_add {A} m k (l : list A) : firstn (m + k) l = firstn m l ++ firstn k (skipn m l).
Proof.
  revert l. induction m as [|m IH]; intros l; [reflexivity|].
  destruct l as [|x l]; cbn [Nat.add firstn skipn app]; [now rewrite firstn_nil|]. now rewrite IH.
Qed.

Lemma sub_split {A} (l : list A) a' a e : (a' <= a <= e)%nat -> sub l a' e = sub l a' a ++ sub l a e.
Proof.
  intros H. unfold sub. replace (e - a')%nat with ((a - a') + (e - a))%nat by lia.
  rewrite firstn_add. f_equal. rewrite <- skipn_add. replace (a' + (a - a'))%nat with a by lia. reflexivity.
Qed.

Lemma sub_firstn_skipn {A} (l : list A) a n : sub l a (a + n) = firstn n (skipn a l).
Proof. unfold sub. replace (a + n - a)%nat with n by lia. reflexivity. Qed.

Lemma prev_break_le B a : forall k, (forall q, (a < q <= k)%nat -> B q = false) -> (prev_break B k <= a)%nat.
Proof.
  induction k as [|k IH]; intros H; cbn [prev_break]; [lia|].
  destruct (B (S k)) eqn:E.
  - destruct (Nat.le_gt_cases (S k) a); [auto|]. rewrite H in E by lia. discriminate.
  - apply IH. intros q Hq. apply H. lia.
Qed.

Lemma next_break_fuel_eq B N e : (e <= N)%nat -> (e = N \/ B e = true) ->
  forall fuel c, (c <= e)%nat -> (e - c < fuel)%nat -> (forall q, (c <= q < e)%nat -> B q = false) ->
  next_break_fuel B N fuel c = e.
Proof.
  intros HeN He. induction fuel as [|fuel IH]; intros c Hc Hf Hq; [lia|].
  cbn [next_break_fuel]. destruct (Nat.leb N c) eqn:E1.
  - apply Nat.leb_le in E1. lia.
  - apply Nat.leb_gt in E1. destruct (Nat.eq_dec c e) as [->|Hne].
    + destruct He as [-> | ->]; [lia|reflexivity].
    + rewrite Hq by lia. apply IH; [lia|lia|]. intros q Hq'. apply Hq. lia.
Qed.

Lemma next_break_eq B N c e : (c <= e <= N)%nat -> (e = N \/ B e = true) ->
  (forall q, (c <= q < e)%nat -> B q = false) -> next_break B N c = e.
Proof. intros H He Hq. unfold next_break. apply next_break_fuel_eq; auto; lia. Qed.

Section Positional.
  Variable St : Type.
  Variable segf : St -> list cell -> option (nat * bool * St).
  Variable reset : St -> St.
  Variables is_space hasbreak : cell -> bool.
  Variable residue : cell -> list cell.

  Notation trim := (trim_right is_space).
  Notation sscan := (scan St segf reset is_space hasbreak residue).
  Notation sall := (scan_all St segf reset is_space hasbreak residue).
  Notation srun := (run St segf reset is_space hasbreak residue).
  Notation chain := (chain St segf is_space).
  Notation final := (final St segf reset is_space hasbreak residue).

  Hypothesis Hseg : seg_ok St segf.
  Variable good : cell -> Prop.
  Variable ws : cell -> bool.
  Hypothesis Hbrk_space : forall c, hasbreak c = true -> is_space c = true.
  Hypothesis Hws : forall c, good c -> is_space c = true -> ws c = true.
  Hypothesis Hres : forall c r, good c -> hasbreak c = true -> In r (residue c) ->
                                is_space r = true /\ ws r = true.

  Variable input : list cell.
  Variable W : Z.
  Hypothesis HW : 0 <= W < 65536.
  Hypothesis Hwok : wok input.
  Hypothesis Hov : sumw input < 65536.
  Hypothesis Hgood : Forall good input.
  Notation N := (length input).

  (* break opportunities B, mandatory breaks Hd, and the oracle states that may occur at a position *)
  Variables B Hd : nat -> bool.
  Variable valid : St -> nat -> Prop.
  Definition consistent : Prop :=
    forall st p n br st', valid st p -> (p < N)%nat -> segf st (skipn p input) = Some (n, br, st') ->
      valid st' (p + n) /\ ((p + n)%nat = N \/ B (p + n) = true) /\
      (forall q, (p < q < p + n)%nat -> B q = false) /\
      (br = true <-> ((p + n)%nat = N \/ Hd (p + n) = true)).
  Hypothesis Hcons : consistent.
  Hypothesis Hreset : forall st p q, valid st p -> valid (reset st) q.
  Hypothesis HdB : forall e, (e < N)%nat -> Hd e = true -> B e = true.

  Definition cut_ok (c : nat) : Prop :=
    c = N \/ B c = true \/
    exists a n, (a < c < a + n)%nat /\ (a + n <= N)%nat /\ (forall q, (a < q < a + n)%nat -> B q = false) /\
                ((a + n)%nat = N \/ B (a + n) = true) /\ W < sumw (trim (sub input a (a + n))).

  Lemma skipn_nonnil_lt p : skipn p input <> [] -> (p < N)%nat.
  Proof.
    intros H. destruct (Nat.le_gt_cases N p); [|auto]. exfalso. apply H. apply skipn_all2. lia.
  Qed.

  Lemma chain_pos w st rest stq pre restq : chain W st rest w stq pre restq ->
    forall p, rest = skipn p input -> valid st p -> (p <= N)%nat ->
    restq = skipn (p + length pre) input /\ valid stq (p + length pre) /\ (p + length pre <= N)%nat /\
    (pre <> [] -> B (p + length pre) = true \/ (p + length pre)%nat = N) /\
    (forall e, (p < e <= p + length pre)%nat -> Hd e = false).
  Proof.
    induction 1 as [st rest w | st rest w n st1 stq pre restq Hne Hs H1 H2 Hc IH]; intros p Hr Hv Hp.
    - cbn [length]. rewrite Nat.add_0_r. split; [exact Hr|]. split; [exact Hv|]. split; [exact Hp|].
      split; [intros Hc; congruence|intros e He; lia].
    - assert (HpN : (p < N)%nat) by (apply skipn_nonnil_lt; congruence).
      destruct (Hseg _ _ _ _ _ Hne Hs) as [Hn _].
      assert (Hlr : length rest = (N - p)%nat) by (rewrite Hr; apply skipn_length).
      rewrite Hr in Hs. destruct (Hcons _ _ _ _ _ Hv HpN Hs) as [Hv1 [HB [Hin Hbr]]].
      assert (HnN : (p + n)%nat <> N /\ Hd (p + n) = false).
      { split; [intros Hc0|destruct (Hd (p + n)) eqn:Ed; auto]; exfalso;
          assert (false = true) by (apply Hbr; auto); discriminate. }
      destruct (IH (p + n)%nat) as [I1 [I2 [I3 [I4 I5]]]]; auto.
      { rewrite Hr. symmetry. apply skipn_add. }
      { lia. }
      rewrite app_length, firstn_length. replace (Nat.min n (length rest)) with n by lia.
      rewrite Nat.add_assoc. split; [auto|]. split; [auto|]. split; [auto|]. split.
      + intros _. destruct pre as [|x pre]; [|apply I4; discriminate].
        cbn [length]. rewrite Nat.add_0_r. destruct HB; auto.
      + intros e He. destruct (Nat.lt_trichotomy e (p + n)) as [Hl|[->|Hg]].
        * destruct (Hd e) eqn:Ed; auto. apply HdB in Ed; [|lia]. rewrite Hin in Ed by lia. discriminate.
        * tauto.
        * apply I5. lia.
  Qed.

  Lemma suffix_eq c c' : (c <= N)%nat -> (c' <= N)%nat -> skipn c input = skipn c' input -> c = c'.
  Proof.
    intros H1 H2 H. apply (f_equal (@length cell)) in H. rewrite !skipn_length in H. lia.
  Qed.

  Lemma scan_pos p st tok rest' st' : valid st p -> (p <= N)%nat ->
    sscan W (skipn p input) st = ScanLine tok rest' st' ->
    exists c, (p < c <= N)%nat /\ rest' = skipn c input /\ valid st' c /\ cut_ok c /\
              (forall e, (p < e <= c)%nat -> Hd e = true -> e = c).
  Proof.
    intros Hv Hp H.
    assert (Hwk : wok (skipn p input)) by (apply wok_skipn; auto).
    assert (Hsm : sumw (skipn p input) < 65536).
    { pose proof (firstn_skipn_sumw p input). pose proof (sumw_nonneg _ (wok_firstn p _ Hwok)). lia. }
    assert (Hgd : Forall good (skipn p input)).
    { rewrite <- (firstn_skipn p input) in Hgood. apply Forall_app in Hgood. tauto. }
    destruct (scan_spec St segf reset is_space hasbreak residue Hseg good ws Hbrk_space Hws Hres
                W _ _ _ _ _ HW Hwk Hsm Hgd H) as [consumed [Hc0 [Hne0 _]]].
    destruct (skipn_split _ _ _ _ Hc0 Hne0) as [HpN [Hr0 [_ Hlen0]]].
    assert (HcN : (p < p + length consumed <= N)%nat) by (destruct consumed; [congruence|cbn [length] in *; lia]).
    set (c := (p + length consumed)%nat) in *.
    (* the explanation of this Scan *)
    unfold scan in H. destruct (skipn p input) as [|c0 r0] eqn:Erest; [discriminate|].
    rewrite <- Erest in *. assert (Hne : skipn p input <> []) by (rewrite Erest; discriminate).
    replace (is_nil (skipn p input)) with false in H by (rewrite Erest; reflexivity). cbn [orb] in H.
    destruct (W =? 0) eqn:EW; [discriminate|].
    apply loop_explained in H; auto; try lia.
    destruct H as [stq [pre [restq [Hc [Hq Hf]]]]]. cbn [app] in Hf. rewrite Z.add_0_l in Hf.
    destruct (chain_pos _ _ _ _ _ _ Hc p eq_refl Hv Hp) as [Hrq [Hvq [HpqN [HBq Hdq]]]].
    set (pq := (p + length pre)%nat) in *.
    assert (HpqN' : (pq < N)%nat) by (apply skipn_nonnil_lt; congruence).
    pose proof (chain_width _ _ _ _ _ _ _ _ _ _ Hc ltac:(lia)) as Hwq. rewrite Z.add_0_l in Hwq.
    pose proof (chain_split _ _ _ _ _ _ _ _ _ _ Hc) as Hsplit.
    assert (Hwpre : wok pre) by (rewrite Hsplit in Hwk; apply wok_app in Hwk; tauto).
    assert (Hwq' : wok restq) by (rewrite Hsplit in Hwk; apply wok_app in Hwk; tauto).
    pose proof (sumw_nonneg _ Hwpre) as Hn0.
    assert (Hsumq : sumw pre + sumw restq < 65536) by (rewrite <- sumw_app, <- Hsplit; lia).
    (* whatever the last event, if rest' = skipn c' input then c' = c *)
    assert (Hcc : forall c', (c' <= N)%nat -> rest' = skipn c' input -> c' = c).
    { intros c' Hc' Hr'. apply suffix_eq; auto; [lia|]. congruence. }
    assert (Hpre : (p < pq)%nat -> B pq = true).
    { intros Hl. destruct HBq as [|]; auto; [|lia]. intros ->. unfold pq in Hl. cbn in Hl. lia. }
    assert (Hquery : forall n br stn, segf stq restq = Some (n, br, stn) ->
              (0 < n)%nat /\ (pq + n <= N)%nat /\ valid stn (pq + n) /\ ((pq + n)%nat = N \/ B (pq + n) = true) /\
              (forall q, (pq < q < pq + n)%nat -> B q = false) /\ skipn n restq = skipn (pq + n) input /\
              firstn n restq = sub input pq (pq + n)).
    { intros n br stn Hs. destruct (Hseg _ _ _ _ _ Hq Hs) as [Hn _].
      assert (Hlq : length restq = (N - pq)%nat) by (rewrite Hrq; apply skipn_length).
      rewrite Hrq in Hs. destruct (Hcons _ _ _ _ _ Hvq HpqN' Hs) as [Hv1 [HB1 [Hin _]]].
      repeat split; auto; try lia.
      - rewrite Hrq. symmetry. apply skipn_add.
      - rewrite sub_firstn_skipn, Hrq. reflexivity. }
    assert (Hhard : forall n br stn c', segf stq restq = Some (n, br, stn) -> (c' <= pq + n)%nat ->
              forall e, (p < e <= c')%nat -> Hd e = true -> e = c').
    { intros n br stn c' Hs Hc' e He Hde. destruct (Hquery _ _ _ Hs) as [_ [HnN [_ [_ [Hin _]]]]].
      destruct (Nat.le_gt_cases e pq) as [Hle|Hgt]; [rewrite Hdq in Hde by lia; discriminate|].
      destruct (Nat.eq_dec e c'); auto. apply HdB in Hde; [|lia]. rewrite Hin in Hde by lia. discriminate. }
    exists c. split; [auto|]. split; [exact Hr0|].
    inversion Hf as [n br stn tk ov Hs H1 H2 | n br stn Hs H1 H2 | n stn Hs H1 H2 | n stn Hs H1 H2 H3];
      clear Hf; subst tok st';
      match goal with Heq : _ = rest' |- _ => rename Heq into Hrest; symmetry in Hrest end.
    - (* long word *)
      destruct (Hquery _ _ _ Hs) as [Hn [HnN [Hvn [HBn [Hin [Hsk Hfn]]]]]].
      set (seg := firstn n restq) in *. set (word := trim seg) in *.
      assert (Hwseg : wok seg) by (apply wok_firstn; auto).
      assert (Hwword : wok word) by (apply wok_trim; auto).
      pose proof (firstn_skipn_sumw n restq) as Hsum. fold seg in Hsum.
      pose proof (sumw_trim_le is_space seg Hwseg) as Hle. fold word in Hle.
      pose proof (sumw_nonneg _ (wok_skipn n _ Hwq')) as Hn3.
      destruct (split_long_spec W ltac:(lia) word (sumw pre) pre [] tk ov) as [taken [left [E1 [E2 [E3 [E4 E5]]]]]]; auto; try lia.
      cbn [app] in E3. subst ov.
      assert (Hlenw : (length taken <= n)%nat).
      { pose proof (trim_length_le is_space seg) as Hl. fold word in Hl. rewrite E1, app_length in Hl.
        unfold seg in Hl. rewrite firstn_length in Hl. lia. }
      set (trsp := skipn (length word) seg) in *.
      assert (H_a : restq = seg ++ skipn n restq) by (symmetry; apply firstn_skipn).
      assert (H_b : seg = word ++ trsp) by (apply trim_skipn).
      assert (H_c : restq = taken ++ (left ++ trsp ++ skipn n restq)).
      { rewrite H_a at 1. rewrite H_b, E1, <- !app_assoc. reflexivity. }
      assert (Hr' : rest' = skipn (pq + length taken) input).
      { rewrite skipn_add, <- Hrq, Hrest.
        transitivity (skipn (length taken) (taken ++ (left ++ trsp ++ skipn n restq))).
        - rewrite skipn_app, skipn_all, Nat.sub_diag. reflexivity.
        - rewrite <- H_c. reflexivity. }
      apply Hcc in Hr'; [|lia]. split; [rewrite <- Hr'; eapply Hreset; eauto|]. split.
      + destruct (Nat.eq_dec (length taken) 0) as [E0|E0].
        { right. left. rewrite <- Hr', E0, Nat.add_0_r. apply Hpre. lia. }
        destruct (Nat.eq_dec (length taken) n) as [En|En].
        { rewrite <- Hr', En. destruct HBn; [left|right; left]; auto. }
        right. right. exists pq, n. rewrite <- Hfn. fold seg word.
        split; [lia|]. split; [lia|]. split; [auto|]. split; [auto|lia].
      + rewrite <- Hr'. eapply Hhard; eauto. lia.
    - (* the next word does not fit *)
      rewrite Hrest in Hcc. apply Hcc in Hrq; [|lia]. rewrite <- Hrq. split; [auto|]. split.
      + right. left. apply Hpre. lia.
      + intros e He Hde. rewrite Hdq in Hde by lia. discriminate.
    - (* hard break *)
      destruct (Hquery _ _ _ Hs) as [Hn [HnN [Hvn [HBn [Hin [Hsk Hfn]]]]]].
      rewrite Hrest in Hcc. apply Hcc in Hsk; [|lia]. rewrite <- Hsk. split; [auto|]. split.
      + destruct HBn; [left|right; left]; auto.
      + eapply Hhard; eauto.
    - (* the trailing space does not fit *)
      destruct (Hquery _ _ _ Hs) as [Hn [HnN [Hvn [HBn [Hin [Hsk Hfn]]]]]].
      rewrite Hrest in Hcc. apply Hcc in Hsk; [|lia]. rewrite <- Hsk. split; [auto|]. split.
      + destruct HBn; [left|right; left]; auto.
      + eapply Hhard; eauto.
  Qed.

  Lemma all_pos fuel : forall p st lines o, valid st p -> (p <= N)%nat ->
    sall fuel W (skipn p input) st = (lines, o) ->
    Forall cut_ok (cuts_of N lines) /\
    (o = Done -> W <> 0 -> forall e, (p < e <= N)%nat -> Hd e = true -> In e (cuts_of N lines)).
  Proof.
    induction fuel as [|fuel IH]; intros p st lines o Hv Hp H; cbn [scan_all] in H.
    - injection H as <- <-. split; [constructor|intros; discriminate].
    - destruct (sscan W (skipn p input) st) as [tok rest' st'| | |] eqn:E.
      + destruct (sall fuel W rest' st') as [ls o'] eqn:Ea. injection H as <- <-.
        destruct (scan_pos _ _ _ _ _ Hv Hp E) as [c [Hc [Hr [Hvc [Hok Hhd]]]]].
        rewrite Hr in Ea. apply IH in Ea; auto; [|lia]. destruct Ea as [F1 F2].
        assert (Hcut : (N - length rest' = c)%nat) by (rewrite Hr, skipn_length; lia).
        cbn [cuts_of map snd]. fold (cuts_of N ls). rewrite Hcut. split; [constructor; auto|].
        intros Ho HW0 e He Hde. destruct (Nat.le_gt_cases e c) as [Hle|Hgt].
        * left. symmetry. apply Hhd; auto. lia.
        * right. apply F2; auto. lia.
      + injection H as <- <-. split; [constructor|]. intros _ HW0 e He _. exfalso.
        unfold scan in E. destruct (skipn p input) eqn:Es.
        * apply (f_equal (@length cell)) in Es. rewrite skipn_length in Es. cbn in Es. lia.
        * cbn [is_nil orb] in E. destruct (W =? 0) eqn:E0; [lia|].
          exact (loop_not_stop _ _ _ _ _ _ _ _ _ _ _ _ E).
      + injection H as <- <-. split; [constructor|intros; discriminate].
      + injection H as <- <-. split; [constructor|intros; discriminate].
  Qed.

  Lemma cut_ok_b c : (0 < c)%nat -> cut_ok c -> nosplit_cut_b is_space B W input c = true.
  Proof.
    intros Hc0 [->|[Hb|[a [n [Hac [HaN [Hin [He Hw]]]]]]]]; unfold nosplit_cut_b.
    - rewrite Nat.eqb_refl. reflexivity.
    - rewrite Hb. apply orb_true_iff. left. apply orb_true_r.
    - apply orb_true_iff. right. apply Z.ltb_lt.
      assert (Hp : (prev_break B (c - 1) <= a)%nat) by (apply prev_break_le; intros q Hq; apply Hin; lia).
      assert (Hn : next_break B N (S c) = (a + n)%nat).
      { apply next_break_eq; auto; [lia|]. intros q Hq. apply Hin. lia. }
      rewrite Hn. set (a' := prev_break B (c - 1)) in *.
      rewrite (sub_split input a' a (a + n)) by lia.
      assert (Hne : trim (sub input a (a + n)) <> []) by (intros E; rewrite E in Hw; cbn in Hw; lia).
      rewrite trim_app_nonempty by auto. rewrite sumw_app.
      assert (wok (sub input a' a)) by (unfold sub; apply wok_firstn, wok_skipn; auto).
      pose proof (sumw_nonneg _ H). lia.
  Qed.

  Lemma run_pos st0 lines o : valid st0 0 -> srun W input st0 = (lines, o) ->
    nosplit_b is_space B W input lines = true /\
    (o = Done -> W <> 0 -> hardbreak_b Hd N lines = true).
  Proof.
    intros Hv H. unfold run in H.
    pose proof (all_spec St segf reset is_space hasbreak residue Hseg good ws Hbrk_space Hws Hres input W HW Hwok Hov Hgood
                  (fun _ _ => true) (fun _ _ _ => eq_refl) (S N) 0 st0 lines o ltac:(lia) H) as [_ [_ [_ [Hinc _]]]].
    destruct (all_pos (S N) 0 st0 lines o Hv ltac:(lia) H) as [F1 F2]. split.
    - unfold nosplit_b. apply forallb_forall. intros c Hc. rewrite Forall_forall in F1.
      apply cut_ok_b; auto.
      (* cuts are positive *)
      assert (Hpos : forall l a x, increasing_from a l = true -> In x l -> (a < x)%nat).
      { induction l as [|y t IHt]; intros a x Hi Hx; [destruct Hx|].
        cbn [increasing_from] in Hi. apply andb_true_iff in Hi. destruct Hi as [H1 H2]. apply Nat.ltb_lt in H1.
        destruct Hx as [->|Hx]; [lia|]. specialize (IHt _ _ H2 Hx). lia. }
      eapply Hpos; eauto.
    - intros Ho HW0. unfold hardbreak_b. apply forallb_forall. intros e He. apply in_seq in He.
      destruct (Hd e) eqn:Ed; [|reflexivity]. cbn [negb orb]. apply existsb_exists. exists e.
      split; [|apply Nat.eqb_refl]. apply F2; auto. lia.
  Qed.
End Positional.

(* ---------- everything about one run, for any scanner instance ---------- *)
Section Combined.
  Variable St : Type.
  Variable segf : St -> list cell -> option (nat * bool * St).
  Variable reset : St -> St.
  Variables is_space hasbreak : cell -> bool.
  Variable residue : cell -> list cell.
  Hypothesis Hseg : seg_ok St segf.
  Variable good : cell -> Prop.
  Variable ws : cell -> bool.
  Hypothesis Hbrk_space : forall c, hasbreak c = true -> is_space c = true.
  Hypothesis Hws : forall c, good c -> is_space c = true -> ws c = true.
  Hypothesis Hres : forall c r, good c -> hasbreak c = true -> In r (residue c) ->
                                is_space r = true /\ ws r = true.
  Variable input : list cell.
  Variable W : Z.
  Hypothesis HW : 0 <= W < 65536.
  Hypothesis Hwok : wok input.
  Hypothesis Hov : sumw input < 65536.
  Hypothesis Hgood : Forall good input.
  Notation N := (length input).
  Variable same : list cell -> list cell -> bool.
  Hypothesis Hsame : forall a b, kept ws a b -> same a b = true.
  Variables B Hd : nat -> bool.
  Variable valid : St -> nat -> Prop.
  Hypothesis Hcons : consistent St segf input B Hd valid.
  Hypothesis Hreset : forall st p q, valid st p -> valid (reset st) q.
  Hypothesis HdB : forall e, (e < N)%nat -> Hd e = true -> B e = true.

  Theorem run_ok st0 lines : valid st0 0 ->
    run St segf reset is_space hasbreak residue W input st0 = (lines, Done) ->
    c16_ok_b is_space same B Hd W input lines = true.
  Proof.
    intros Hv H.
    destruct (run_spec St segf reset is_space hasbreak residue Hseg good ws Hbrk_space Hws Hres
                input W HW Hwok Hov Hgood same Hsame st0 lines Done H) as [F1 [F2 [_ F3]]].
    destruct (run_pos St segf reset is_space hasbreak residue Hseg good ws Hbrk_space Hws Hres
                input W HW Hwok Hov Hgood B Hd valid Hcons Hreset HdB st0 lines Done Hv H) as [F4 F5].
    unfold c16_ok_b. rewrite (F3 eq_refl), F2, F4. cbn [andb].
    replace (forallb (fun x => fits_b is_space W (fst x)) lines) with true.
    - cbn [andb]. destruct (W =? 0) eqn:E; [reflexivity|]. rewrite F5; auto. lia.
    - symmetry. apply forallb_forall. intros x Hx. rewrite Forall_forall in F1. apply fits_b_iff. auto.
  Qed.
End Combined.

(* ---------- comparisons used by the observation predicate ---------- *)
Lemma zlist_eqb_refl l : zlist_eqb l l = true.
Proof. unfold zlist_eqb. induction l as [|x l IH]; cbn; [reflexivity|]. rewrite Z.eqb_refl, IH. reflexivity. Qed.

Lemma cell_eqb_refl c : cell_eqb c c = true.
Proof. unfold cell_eqb. rewrite zlist_eqb_refl, !Z.eqb_refl. reflexivity. Qed.

Lemma cells_eqb_refl l : list_eqb cell_eqb l l = true.
Proof. induction l as [|x l IH]; cbn; [reflexivity|]. rewrite cell_eqb_refl, IH. reflexivity. Qed.

Lemma same_cells_kept is_space a b : kept is_space a b -> same_cells is_space a b = true.
Proof. intros H. unfold same_cells. rewrite (kept_nonspace _ _ _ H). apply cells_eqb_refl. Qed.

Lemma nonspace_runes_flat l :
  nonspace_runes l = flat_map (fun c => filter (fun r => negb (go_isspace r)) (c_runes c)) l.
Proof.
  unfold nonspace_runes, flat. induction l as [|c l IH]; [reflexivity|].
  cbn [map concat flat_map]. rewrite filter_app, IH. reflexivity.
Qed.

Lemma same_runes_kept a b : kept ws_runes a b -> same_runes a b = true.
Proof.
  intros H. unfold same_runes. rewrite !nonspace_runes_flat.
  rewrite (kept_content ws_runes _ a b); [apply zlist_eqb_refl| |exact H].
  intros c Hc. unfold ws_runes in Hc. induction (c_runes c) as [|r t IH]; [reflexivity|].
  cbn in *. apply andb_true_iff in Hc. destruct Hc as [H1 H2]. rewrite H1. cbn. auto.
Qed.

Lemma isbrk_isspace c : cell_hasbreak c = true -> cell_is_space c = true.
Proof. unfold cell_hasbreak, cell_is_space, uniseg_isbrk, go_isspace, in_range. lia. Qed.

(* ---------- text.go ---------- *)
Section Plain.
  Variable orc : Z -> Z -> option (Z * bool * Z).
  Variable input : list cell.
  Notation N := (length input).
  Variables B Hd : nat -> bool.

  (* the oracle states the scanner can be in at a position: -1 anywhere (start of the text, and
     after a long word was broken), or the state returned for the segment that ends there *)
  Inductive pvalid : Z -> nat -> Prop :=
  | pv_reset p : pvalid (-1) p
  | pv_step st p n br st' : pvalid st p -> orc (Z.of_nat p) st = Some (Z.of_nat n, br, st') ->
                            pvalid st' (p + n).

  (* the answers of the oracle in those states agree with one set of break opportunities B and
     one set of mandatory breaks Hd *)
  Definition orc_consistent : Prop :=
    forall st p n br st', pvalid st p -> (p < N)%nat -> orc (Z.of_nat p) st = Some (Z.of_nat n, br, st') ->
      (0 < n)%nat -> (p + n <= N)%nat ->
      ((p + n)%nat = N \/ B (p + n) = true) /\ (forall q, (p < q < p + n)%nat -> B q = false) /\
      (br = true <-> ((p + n)%nat = N \/ Hd (p + n) = true)).

  Lemma plain_consistent : orc_consistent -> consistent Z (plain_segf N orc) input B Hd pvalid.
  Proof.
    intros Hc st p n br st' Hv Hp Hs. unfold plain_segf in Hs.
    assert (Hl : length (skipn p input) = (N - p)%nat) by apply skipn_length.
    destruct (skipn p input) as [|c r] eqn:Er; [cbn in Hl; lia|]. rewrite <- Er in *.
    replace (N - length (skipn p input))%nat with p in Hs by lia.
    destruct (orc (Z.of_nat p) st) as [[[m b] s]|] eqn:E; [|discriminate].
    destruct ((0 <? m) && (m <=? zlen (skipn p input))) eqn:Ev; [|discriminate].
    injection Hs as <- <- <-. unfold zlen in Ev.
    assert (Hm : m = Z.of_nat (Z.to_nat m)) by lia. rewrite Hm in E.
    split; [eapply pv_step; eauto|]. eapply Hc; eauto; lia.
  Qed.
End Plain.

Theorem plain_run_ok orc input B Hd W lines :
  orc_end_ok (length input) orc -> 0 <= W < 65536 -> wok input -> sumw input < 65536 ->
  forallb plain_cell_ok input = true ->
  orc_consistent orc input B Hd ->
  (forall e, (e < length input)%nat -> Hd e = true -> B e = true) ->
  run Z (plain_segf (length input) orc) plain_reset cell_is_space cell_hasbreak plain_residue W input (-1) = (lines, Done) ->
  c16_ok_b cell_is_space same_runes B Hd W input lines = true.
Proof.
  intros Hend HW Hwok Hov Hcells Hc HdB H.
  eapply (run_ok Z (plain_segf (length input) orc) plain_reset cell_is_space cell_hasbreak plain_residue
            (plain_seg_ok _ _ Hend) (fun c => plain_cell_ok c = true) ws_runes); eauto.
  - apply isbrk_isspace.
  - intros c Hg Hs. unfold plain_cell_ok in Hg. rewrite Hs in Hg. cbn in Hg. apply andb_true_iff in Hg. tauto.
  - intros c r Hg Hb Hr. unfold plain_cell_ok in Hg. rewrite Hb in Hg. cbn [negb orb] in Hg.
    apply andb_true_iff in Hg. destruct Hg as [_ Hg]. rewrite forallb_forall in Hg.
    apply Hg in Hr. apply andb_true_iff in Hr. exact Hr.
  - apply Forall_forall. rewrite forallb_forall in Hcells. exact Hcells.
  - apply same_runes_kept.
  - apply plain_consistent. exact Hc.
  - intros st p q _. constructor.
  - constructor.
Qed.

(* ---------- richtext.go ---------- *)
Lemma skipn_cons_nth {A} (l : list A) : forall j c t, skipn j l = c :: t -> nth_error l j = Some c /\ skipn (S j) l = t.
Proof.
  induction l as [|x l IH]; intros j c t H.
  - rewrite skipn_nil in H. discriminate.
  - destruct j as [|j]; cbn in *; [injection H as <- <-; auto|]. apply IH; auto.
Qed.

Section Rich.
  Variable hasbreak : cell -> bool.
  Variable pairbrk : cell -> cell -> option bool.
  Variable pairmust : cell -> cell -> bool.
  Variable input : list cell.
  Notation N := (length input).
  Notation B := (rich_B hasbreak pairbrk input).
  Notation Hd := (rich_Hd hasbreak pairbrk pairmust input).

  Lemma rich_B_S j c nx : nth_error input j = Some c -> nth_error input (S j) = Some nx ->
    B (S j) = hasbreak c || (negb (hasbreak nx) && match pairbrk c nx with Some true => true | _ => false end).
  Proof. intros H1 H2. unfold rich_B. rewrite H1, H2. reflexivity. Qed.

  Lemma rich_Hd_S j c nx : nth_error input j = Some c -> nth_error input (S j) = Some nx ->
    Hd (S j) = hasbreak c || (negb (hasbreak nx) && match pairbrk c nx with Some true => true | _ => false end
                              && pairmust c nx).
  Proof. intros H1 H2. unfold rich_Hd. rewrite H1, H2. reflexivity. Qed.

  Lemma rich_Hd_last j c : nth_error input j = Some c -> nth_error input (S j) = None -> Hd (S j) = hasbreak c.
  Proof. intros H1 H2. unfold rich_Hd. rewrite H1, H2. apply orb_false_r. Qed.

  Lemma fls_go_pos p : forall cells first i n br,
    cells = skipn (p + i) input -> cells <> [] ->
    (first = false -> exists c, nth_error input (p + i) = Some c /\ hasbreak c = false) ->
    fls_go hasbreak pairbrk pairmust first i cells = Some (n, br) ->
    (p + i < p + n <= N)%nat /\ ((p + n)%nat = N \/ B (p + n) = true) /\
    (forall q, (p + i < q < p + n)%nat -> B q = false) /\
    (br = true <-> ((p + n)%nat = N \/ Hd (p + n) = true)).
  Proof.
    induction cells as [|c t IH]; intros first i n br Hcells Hne Hfirst H; [congruence|].
    symmetry in Hcells. destruct (skipn_cons_nth _ _ _ _ Hcells) as [Hc Ht].
    assert (Hj : (p + i < N)%nat) by (apply nth_error_Some; congruence).
    destruct t as [|nx t'].
    - cbn in H. injection H as <- <-.
      assert (HN : S (p + i) = N).
      { apply (f_equal (@length cell)) in Ht. rewrite skipn_length in Ht. cbn in Ht. lia. }
      replace (p + S i)%nat with N by lia. repeat split; auto; try lia.
    - rewrite fls_go_eq in H. symmetry in Ht. destruct (skipn_cons_nth _ _ _ _ (eq_sym Ht)) as [Hnx Ht'].
      assert (Hj2 : (S (p + i) < N)%nat) by (apply nth_error_Some; congruence).
      assert (HcF : (first && hasbreak c) = false -> hasbreak c = false).
      { intros Hf. destruct first; [exact Hf|]. destruct (Hfirst eq_refl) as [c' [Hc' Hb]]. congruence. }
      pose proof (rich_B_S _ _ _ Hc Hnx) as HB1. pose proof (rich_Hd_S _ _ _ Hc Hnx) as HD1.
      destruct (first && hasbreak c) eqn:Ef.
      { injection H as <- <-. apply andb_true_iff in Ef. destruct Ef as [_ Ef].
        replace (p + S i)%nat with (S (p + i)) by lia. rewrite HB1, HD1, Ef. cbn [orb].
        repeat split; auto; try lia. }
      specialize (HcF eq_refl).
      destruct (hasbreak nx) eqn:En.
      { injection H as <- <-. replace (p + S (S i))%nat with (S (S (p + i))) by lia.
        assert (Hmid : forall q, (p + i < q < S (S (p + i)))%nat -> B q = false).
        { intros q Hq. replace q with (S (p + i)) by lia. rewrite HB1, HcF. reflexivity. }
        destruct (nth_error input (S (S (p + i)))) as [z|] eqn:Ez.
        - rewrite (rich_B_S _ _ _ Hnx Ez), (rich_Hd_S _ _ _ Hnx Ez), En. cbn [orb].
          split; [lia|]. split; [right; reflexivity|]. split; [exact Hmid|]. split; auto.
        - apply nth_error_None in Ez.
          split; [lia|]. split; [left; lia|]. split; [exact Hmid|]. split; [intros _; left; lia|auto]. }
      destruct (pairbrk c nx) as [[|]|] eqn:Ep; [| |discriminate].
      + injection H as <- <-. replace (p + S i)%nat with (S (p + i)) by lia.
        rewrite HB1, HD1, HcF. cbn.
        split; [lia|]. split; [auto|]. split; [intros q Hq; lia|]. split; [auto|].
        intros [Hc0|Hc0]; [lia|exact Hc0].
      + apply IH in H; auto.
        * replace (p + S i)%nat with (S (p + i)) in H by lia.
          destruct H as [H1 [H2 [H3 H4]]]. split; [lia|]. split; [auto|]. split; [|auto].
          intros q Hq. destruct (Nat.eq_dec q (S (p + i))) as [->|Hneq]; [|apply H3; lia].
          rewrite HB1, HcF. reflexivity.
        * replace (p + S i)%nat with (S (p + i)) by lia. auto.
        * discriminate.
        * intros _. exists nx. replace (p + S i)%nat with (S (p + i)) by lia. auto.
  Qed.

  Lemma rich_consistent : consistent unit (rich_segf hasbreak pairbrk pairmust) input B Hd (fun _ _ => True).
  Proof.
    intros st p n br st' _ Hp Hs. unfold rich_segf, first_line_segment in Hs.
    destruct (fls_go hasbreak pairbrk pairmust true 0 (skipn p input)) as [[m b]|] eqn:E; [|discriminate].
    injection Hs as <- <- <-. split; [exact I|].
    apply (fls_go_pos p) in E.
    - rewrite Nat.add_0_r in E. tauto.
    - rewrite Nat.add_0_r. reflexivity.
    - intros Hc. apply (f_equal (@length cell)) in Hc. rewrite skipn_length in Hc. cbn in Hc. lia.
    - discriminate.
  Qed.

  Lemma rich_HdB e : (e < N)%nat -> Hd e = true -> B e = true.
  Proof.
    intros He H. destruct e as [|q]; [discriminate|]. unfold rich_Hd in H. unfold rich_B.
    destruct (nth_error input q) as [a|] eqn:Ea; [|discriminate].
    destruct (nth_error input (S q)) as [b|] eqn:Eb; [|apply nth_error_None in Eb; lia].
    destruct (hasbreak a), (hasbreak b), (pairbrk a b) as [[|]|]; cbn in *; auto.
  Qed.
End Rich.

Theorem rich_run_ok pairbrk pairmust input W lines :
  0 <= W < 65536 -> wok input -> sumw input < 65536 ->
  run unit (rich_segf cell_hasbreak pairbrk pairmust) (fun s => s) cell_is_space cell_hasbreak rich_residue W input tt = (lines, Done) ->
  c16_ok_b cell_is_space (same_cells cell_is_space) (rich_B cell_hasbreak pairbrk input) (rich_Hd cell_hasbreak pairbrk pairmust input)
           W input lines = true.
Proof.
  intros HW Hwok Hov H.
  eapply (run_ok unit (rich_segf cell_hasbreak pairbrk pairmust) (fun s => s) cell_is_space cell_hasbreak rich_residue
            (rich_seg_ok _ _ _) (fun _ => True) cell_is_space).
  - apply isbrk_isspace.
  - auto.
  - intros c r _ _ [].
  - exact HW.
  - exact Hwok.
  - exact Hov.
  - apply Forall_forall. auto.
  - apply same_cells_kept.
  - apply rich_consistent.
  - intros st p q Hv. exact Hv.
  - apply rich_HdB.
  - exact I.
  - exact H.
Qed.

(* a cut that is not at a break opportunity: the whole segment around it has a word wider than W *)
Lemma cut_ok_maximal is_space input W B c :
  0 <= W -> wok input -> cut_ok is_space input W B c -> c <> length input -> B c = false ->
  forall a e, (a < c < e)%nat -> (e <= length input)%nat -> (a = 0%nat \/ B a = true) ->
    (e = length input \/ B e = true) -> (forall q, (a < q < e)%nat -> B q = false) ->
    W < sumw (trim_right is_space (sub input a e)).
Proof.
  intros HW0 Hwok [Hc|[Hc|[a0 [n0 [Hac [HaN [Hin [He Hw]]]]]]]] HcN Hb a e Hae HeN Ha Hee Hq; [congruence|congruence|].
  assert (Hee' : e = (a0 + n0)%nat).
  { destruct (Nat.lt_trichotomy e (a0 + n0)) as [Hl|[->|Hg]]; auto; exfalso.
    - destruct Hee as [->|Hee]; [lia|]. rewrite Hin in Hee by lia. discriminate.
    - destruct He as [He|He]; [lia|]. rewrite Hq in He by lia. discriminate. }
  assert (Ha' : (a <= a0)%nat).
  { destruct (Nat.le_gt_cases a a0); auto. exfalso. destruct Ha as [->|Ha]; [lia|].
    rewrite Hin in Ha by lia. discriminate. }
  subst e. rewrite (sub_split input a a0 (a0 + n0)) by lia.
  assert (Hne : trim_right is_space (sub input a0 (a0 + n0)) <> []) by (intros E; rewrite E in Hw; cbn in Hw; lia).
  rewrite trim_app_nonempty by auto. rewrite sumw_app.
  assert (H : wok (sub input a a0)) by (unfold sub; apply wok_firstn, wok_skipn; auto).
  pose proof (sumw_nonneg _ H). lia.
Qed.

Section Readable.
  Variable St : Type.
  Variable segf : St -> list cell -> option (nat * bool * St).
  Variable reset : St -> St.
  Variables is_space hasbreak : cell -> bool.
  Variable residue : cell -> list cell.
  Hypothesis Hseg : seg_ok St segf.
  Variable good : cell -> Prop.
  Variable ws : cell -> bool.
  Hypothesis Hbrk_space : forall c, hasbreak c = true -> is_space c = true.
  Hypothesis Hws : forall c, good c -> is_space c = true -> ws c = true.
  Hypothesis Hres : forall c r, good c -> hasbreak c = true -> In r (residue c) ->
                                is_space r = true /\ ws r = true.
  Variable input : list cell.
  Variable W : Z.
  Hypothesis HW : 0 <= W < 65536.
  Hypothesis Hwok : wok input.
  Hypothesis Hov : sumw input < 65536.
  Hypothesis Hgood : Forall good input.
  Notation N := (length input).

  (* no hypothesis on break sets: widths and conservation *)
  Theorem run_lines st0 lines o :
    run St segf reset is_space hasbreak residue W input st0 = (lines, o) ->
    (forall l r, In (l, r) lines -> fits is_space W l) /\
    (o = Done -> W <> 0 -> kept ws (concat (map fst lines)) input).
  Proof.
    intros H.
    destruct (run_spec St segf reset is_space hasbreak residue Hseg good ws Hbrk_space Hws Hres
                input W HW Hwok Hov Hgood (fun _ _ => true) (fun _ _ _ => eq_refl) st0 lines o H) as [F1 [_ [F2 _]]].
    split; [|exact F2]. intros l r Hin. rewrite Forall_forall in F1. apply (F1 (l, r) Hin).
  Qed.

  Variables B Hd : nat -> bool.
  Variable valid : St -> nat -> Prop.
  Hypothesis Hcons : consistent St segf input B Hd valid.
  Hypothesis Hreset : forall st p q, valid st p -> valid (reset st) q.
  Hypothesis HdB : forall e, (e < N)%nat -> Hd e = true -> B e = true.

  Theorem run_cuts st0 lines o : valid st0 0 ->
    run St segf reset is_space hasbreak residue W input st0 = (lines, o) ->
    (forall c, In c (cuts_of N lines) -> c <> N -> B c = false ->
       forall a e, (a < c < e)%nat -> (e <= N)%nat -> (a = 0%nat \/ B a = true) -> (e = N \/ B e = true) ->
         (forall q, (a < q < e)%nat -> B q = false) -> W < sumw (trim_right is_space (sub input a e))) /\
    (o = Done -> W <> 0 -> forall e, (0 < e <= N)%nat -> Hd e = true -> In e (cuts_of N lines)).
  Proof.
    intros Hv H. unfold run in H.
    destruct (all_pos St segf reset is_space hasbreak residue Hseg good ws Hbrk_space Hws Hres
                input W HW Hwok Hov Hgood B Hd valid Hcons Hreset HdB (S N) 0 st0 lines o Hv ltac:(lia) H) as [F1 F2].
    split; [|exact F2]. intros c Hc. rewrite Forall_forall in F1. intros HcN Hb.
    apply cut_ok_maximal; auto. lia.
  Qed.

  (* an oracle that always answers never leaves the scanner without an answer *)
  Hypothesis Htotal : forall st rest, rest <> [] -> segf st rest <> None.

  Lemma loop_no_miss fuel : forall rest st w token, rest <> [] ->
    scan_loop St segf reset is_space hasbreak residue fuel W rest st w token <> ScanMiss.
  Proof.
    induction fuel as [|fuel IH]; intros rest st w token Hne; cbn [scan_loop]; [discriminate|].
    destruct (segf st rest) as [[[n br] st']|] eqn:E; [|exfalso; eapply Htotal; eauto].
    destruct (Hseg _ _ _ _ _ Hne E) as [Hn Hbr].
    destruct (W <? _); [destruct (split_long _ _ _ _ _); discriminate|].
    destruct (W <? _); [discriminate|].
    destruct br; [discriminate|].
    destruct (W <? _); [discriminate|]. apply IH.
    apply skipn_nonnil. assert (n <> length rest) by (intros Hc; apply Hbr in Hc; discriminate). lia.
  Qed.

  Lemma all_done : forall fuel rest st, (length rest < fuel)%nat ->
    snd (scan_all St segf reset is_space hasbreak residue fuel W rest st) = Done.
  Proof.
    induction fuel as [|fuel IH]; intros rest st Hf; [lia|]. cbn [scan_all].
    destruct (scan St segf reset is_space hasbreak residue W rest st) as [tok rest' st'| | |] eqn:E.
    - apply scan_shrinks in E; auto; [|lia]. specialize (IH rest' st' ltac:(lia)).
      destruct (scan_all St segf reset is_space hasbreak residue fuel W rest' st') as [ls o]. exact IH.
    - reflexivity.
    - exfalso. exact (scan_no_hang St segf reset is_space hasbreak residue Hseg _ _ _ E).
    - exfalso. unfold scan in E. destruct (is_nil rest || (W =? 0)) eqn:E0; [discriminate|].
      eapply loop_no_miss; [|exact E]. destruct rest; discriminate.
  Qed.

  Theorem run_done st0 : snd (run St segf reset is_space hasbreak residue W input st0) = Done.
  Proof. unfold run. apply all_done. lia. Qed.
End Readable.

(* the text the theorems speak about: non-negative cluster widths, and narrower in total than
   65536 columns (the scanners add widths in uint16) *)
Definition text_ok (input : list cell) (W : Z) : Prop :=
  0 <= W < 65536 /\ wok input /\ sumw input < 65536.

Definition plain_scan (orc : Z -> Z -> option (Z * bool * Z)) (W : Z) (input : list cell) :=
  run Z (plain_segf (length input) orc) plain_reset cell_is_space cell_hasbreak plain_residue W input (-1).

Definition rich_scan (pairbrk : cell -> cell -> option bool) (pairmust : cell -> cell -> bool) (W : Z) (input : list cell) :=
  run unit (rich_segf cell_hasbreak pairbrk pairmust) (fun s => s) cell_is_space cell_hasbreak rich_residue W input tt.

Lemma plain_run_eq W input tbl : plain_run W input tbl = plain_scan (tbl_orc tbl) W input.
Proof. reflexivity. Qed.
Lemma rich_run_eq W input tbl : rich_run W input tbl = rich_scan (tbl_pairbrk tbl) (tbl_pairmust tbl) W input.
Proof. reflexivity. Qed.

Section PlainReadable.
  Variable orc : Z -> Z -> option (Z * bool * Z).
  Variable input : list cell.
  Variable W : Z.
  Notation N := (length input).
  Hypothesis Hend : orc_end_ok N orc.
  Hypothesis Htext : text_ok input W.
  Hypothesis Hcells : forallb plain_cell_ok input = true.

  Let HW := proj1 Htext.
  Let Hwok := proj1 (proj2 Htext).
  Let Hov := proj2 (proj2 Htext).

  Lemma plain_Hws : forall c, plain_cell_ok c = true -> cell_is_space c = true -> ws_runes c = true.
  Proof.
    intros c Hg Hs. unfold plain_cell_ok in Hg. rewrite Hs in Hg. cbn in Hg. apply andb_true_iff in Hg. tauto.
  Qed.

  Lemma plain_Hres : forall c r, plain_cell_ok c = true -> cell_hasbreak c = true -> In r (plain_residue c) ->
    cell_is_space r = true /\ ws_runes r = true.
  Proof.
    intros c r Hg Hb Hr. unfold plain_cell_ok in Hg. rewrite Hb in Hg. cbn [negb orb] in Hg.
    apply andb_true_iff in Hg. destruct Hg as [_ Hg]. rewrite forallb_forall in Hg.
    apply Hg in Hr. apply andb_true_iff in Hr. exact Hr.
  Qed.

  Lemma plain_Hgood : Forall (fun c => plain_cell_ok c = true) input.
  Proof. apply Forall_forall. rewrite forallb_forall in Hcells. exact Hcells. Qed.

  Theorem plain_lines lines o : plain_scan orc W input = (lines, o) ->
    (forall l r, In (l, r) lines -> fits cell_is_space W l) /\
    (o = Done -> W <> 0 -> nonspace_runes (concat (map fst lines)) = nonspace_runes input).
  Proof.
    intros H.
    destruct (run_lines Z (plain_segf N orc) plain_reset cell_is_space cell_hasbreak plain_residue
                (plain_seg_ok _ _ Hend) (fun c => plain_cell_ok c = true) ws_runes isbrk_isspace plain_Hws plain_Hres
                input W HW Hwok Hov plain_Hgood (-1) lines o H) as [F1 F2].
    split; [exact F1|]. intros Ho HW0. specialize (F2 Ho HW0). apply same_runes_kept in F2.
    unfold same_runes, zlist_eqb in F2.
    revert F2. generalize (nonspace_runes (concat (map fst lines))) (nonspace_runes input).
    induction l as [|x l IH]; intros [|y l']; cbn; intros E; try discriminate; auto.
    apply andb_true_iff in E. destruct E as [E1 E2]. apply Z.eqb_eq in E1. f_equal; auto.
  Qed.

  (* an oracle that answers every in-range query with an in-range length *)
  Definition orc_total : Prop := forall i st, 0 <= i < Z.of_nat N ->
    exists n br st', orc i st = Some (n, br, st') /\ 0 < n <= Z.of_nat N - i.

  Theorem plain_done : orc_total -> snd (plain_scan orc W input) = Done.
  Proof.
    clear Hcells. intros Ht. destruct (Nat.eq_dec N 0) as [HN|HN].
    - destruct input; [reflexivity|discriminate].
    - apply (run_done Z (plain_segf N orc) plain_reset cell_is_space cell_hasbreak plain_residue
                        (plain_seg_ok _ _ Hend) input W HW).
      intros st rest Hne. unfold plain_segf. destruct rest as [|c r]; [congruence|]. set (rest := c :: r) in *.
      assert (Hl : (0 < length rest)%nat) by (cbn; lia).
      destruct (Ht (Z.of_nat (N - length rest)) st ltac:(lia)) as [n [br [st' [E Hn]]]].
      rewrite E. replace ((0 <? n) && (n <=? zlen rest)) with true by (unfold zlen; lia). discriminate.
  Qed.

  Variables B Hd : nat -> bool.
  Hypothesis Hc : orc_consistent orc input B Hd.
  Hypothesis HdB : forall e, (e < N)%nat -> Hd e = true -> B e = true.

  Theorem plain_cuts lines o : plain_scan orc W input = (lines, o) ->
    (forall c, In c (cuts_of N lines) -> c <> N -> B c = false ->
       forall a e, (a < c < e)%nat -> (e <= N)%nat -> (a = 0%nat \/ B a = true) -> (e = N \/ B e = true) ->
         (forall q, (a < q < e)%nat -> B q = false) -> W < sumw (trim_right cell_is_space (sub input a e))) /\
    (o = Done -> W <> 0 -> forall e, (0 < e <= N)%nat -> Hd e = true -> In e (cuts_of N lines)).
  Proof.
    intros H.
    apply (run_cuts Z (plain_segf N orc) plain_reset cell_is_space cell_hasbreak plain_residue
             (plain_seg_ok _ _ Hend) (fun c => plain_cell_ok c = true) ws_runes isbrk_isspace plain_Hws plain_Hres
             input W HW Hwok Hov plain_Hgood B Hd (pvalid orc) (plain_consistent _ _ _ _ Hc)
             (fun st p q _ => pv_reset orc q) HdB (-1) lines o (pv_reset orc 0) H).
  Qed.

End PlainReadable.

Section RichReadable.
  Variable pairbrk : cell -> cell -> option bool.
  Variable pairmust : cell -> cell -> bool.
  Variable input : list cell.
  Variable W : Z.
  Notation N := (length input).
  Hypothesis Htext : text_ok input W.
  Let HW := proj1 Htext.
  Let Hwok := proj1 (proj2 Htext).
  Let Hov := proj2 (proj2 Htext).

  Lemma rich_Hres : forall c r : cell, True -> cell_hasbreak c = true -> In r (rich_residue c) ->
    cell_is_space r = true /\ cell_is_space r = true.
  Proof. intros c r _ _ []. Qed.

  Lemma rich_Hgood : Forall (fun _ : cell => True) input.
  Proof. apply Forall_forall. auto. Qed.

  Theorem rich_lines lines o : rich_scan pairbrk pairmust W input = (lines, o) ->
    (forall l r, In (l, r) lines -> fits cell_is_space W l) /\
    (o = Done -> W <> 0 ->
     nonspace cell_is_space (concat (map fst lines)) = nonspace cell_is_space input).
  Proof.
    intros H.
    destruct (run_lines unit (rich_segf cell_hasbreak pairbrk pairmust) (fun s => s) cell_is_space cell_hasbreak rich_residue
                (rich_seg_ok _ _ _) (fun _ => True) cell_is_space isbrk_isspace (fun c _ h => h) rich_Hres
                input W HW Hwok Hov rich_Hgood tt lines o H) as [F1 F2].
    split; [exact F1|]. intros Ho HW0. apply kept_nonspace. auto.
  Qed.

  Theorem rich_cuts lines o : rich_scan pairbrk pairmust W input = (lines, o) ->
    let B := rich_B cell_hasbreak pairbrk input in
    let Hd := rich_Hd cell_hasbreak pairbrk pairmust input in
    (forall c, In c (cuts_of N lines) -> c <> N -> B c = false ->
       forall a e, (a < c < e)%nat -> (e <= N)%nat -> (a = 0%nat \/ B a = true) -> (e = N \/ B e = true) ->
         (forall q, (a < q < e)%nat -> B q = false) -> W < sumw (trim_right cell_is_space (sub input a e))) /\
    (o = Done -> W <> 0 -> forall e, (0 < e <= N)%nat -> Hd e = true -> In e (cuts_of N lines)).
  Proof.
    intros H.
    apply (run_cuts unit (rich_segf cell_hasbreak pairbrk pairmust) (fun s => s) cell_is_space cell_hasbreak rich_residue
             (rich_seg_ok _ _ _) (fun _ => True) cell_is_space isbrk_isspace (fun c _ h => h) rich_Hres
             input W HW Hwok Hov rich_Hgood _ _ (fun _ _ => True) (rich_consistent _ _ _ _)
             (fun st p q h => h) (rich_HdB _ _ _ _) tt lines o I H).
  Qed.

  Lemma fls_go_total hasbreak : (forall a b, pairbrk a b <> None) ->
    forall cells first i, fls_go hasbreak pairbrk pairmust first i cells <> None.
  Proof.
    intros Ht. induction cells as [|c t IH]; intros first i; [discriminate|].
    destruct t as [|nx t']; [discriminate|]. rewrite fls_go_eq.
    destruct (first && hasbreak c); [discriminate|]. destruct (hasbreak nx); [discriminate|].
    destruct (pairbrk c nx) as [[|]|] eqn:E; [discriminate|apply IH|]. exfalso. eapply Ht; eauto.
  Qed.

  Theorem rich_done : (forall a b, pairbrk a b <> None) -> snd (rich_scan pairbrk pairmust W input) = Done.
  Proof.
    intros Ht. apply (run_done unit (rich_segf cell_hasbreak pairbrk pairmust) (fun s => s) cell_is_space cell_hasbreak rich_residue
                        (rich_seg_ok _ _ _) input W HW).
    intros st rest _. unfold rich_segf, first_line_segment.
    destruct (fls_go cell_hasbreak pairbrk pairmust true 0 rest) as [[n br]|] eqn:E; [discriminate|].
    exfalso. eapply fls_go_total; eauto.
  Qed.
End RichReadable.

(* ---------- the oracle hypotheses, decided on a table ---------- *)
Lemma assoc_In {K V} (eqb : K -> K -> bool) k (l : list (K * V)) v :
  assoc eqb k l = Some v -> exists k', In (k', v) l /\ eqb k k' = true.
Proof.
  induction l as [|[k0 v0] l IH]; cbn; [discriminate|].
  destruct (eqb k k0) eqn:E.
  - intros H. injection H as <-. exists k0. auto.
  - intros H. destruct (IH H) as [k' [H1 H2]]. exists k'. auto.
Qed.

Lemma tbl_orc_In tbl i st v : tbl_orc tbl i st = Some v -> In ((i, st), v) tbl.
Proof.
  intros H. apply assoc_In in H. destruct H as [[i' st'] [H1 H2]].
  unfold zpair_eqb in H2. cbn in H2. assert (i = i' /\ st = st') by lia. destruct H; subst. exact H1.
Qed.

Lemma tbl_end_ok N tbl : tbl_end_ok_b N tbl = true -> orc_end_ok N (tbl_orc tbl).
Proof.
  intros H i st n br st' E Hn. apply tbl_orc_In in E. unfold tbl_end_ok_b in H.
  rewrite forallb_forall in H. specialize (H _ E). cbn in H. lia.
Qed.

Lemma tbl_consistent input B Hd tbl :
  tbl_consistent_b (length input) B Hd tbl = true -> orc_consistent (tbl_orc tbl) input B Hd.
Proof.
  intros H st p n br st' _ Hp E Hn HpN. apply tbl_orc_In in E. unfold tbl_consistent_b in H.
  rewrite forallb_forall in H. specialize (H _ E). cbn beta iota in H.
  replace ((0 <=? Z.of_nat p) && (0 <? Z.of_nat n) && (Z.of_nat p + Z.of_nat n <=? Z.of_nat (length input)))
    with true in H by lia.
  replace (Z.to_nat (Z.of_nat p + Z.of_nat n)) with (p + n)%nat in H by lia.
  rewrite Nat2Z.id in H. apply andb_true_iff in H. destruct H as [H H3].
  apply andb_true_iff in H. destruct H as [H1 H2].
  split; [|split].
  - apply orb_true_iff in H1. destruct H1 as [H1|H1]; [left; apply Nat.eqb_eq; auto|right; auto].
  - intros q Hq. rewrite forallb_forall in H2. specialize (H2 q).
    rewrite in_seq in H2. specialize (H2 ltac:(lia)). destruct (B q); [discriminate|reflexivity].
  - apply Bool.eqb_prop in H3. rewrite H3, orb_true_iff, Nat.eqb_eq. tauto.
Qed.

(* ---------- non-vacuity: uniseg's own answers for "x ab-cd" and "foo\nbar" ---------- *)
Definition ex_cells (rs : list Z) : list cell := map (fun r => mkCell [r] (if r =? 10 then 0 else 1) 0) rs.
Definition ex1_input : list cell := ex_cells [120; 32; 97; 98; 45; 99; 100].
Definition ex1_tbl : plain_tbl :=
  [((0, -1), (2, false, 27)); ((2, 27), (3, false, 27)); ((1, -1), (1, false, 27)); ((5, 27), (2, true, 0));
   ((2, -1), (3, false, 27)); ((3, -1), (2, false, 27)); ((4, -1), (1, false, 27)); ((5, -1), (2, true, 0));
   ((6, -1), (1, true, 0))].
Definition ex1_B (p : nat) : bool := Nat.eqb p 2 || Nat.eqb p 5.
Definition ex1_Hd (p : nat) : bool := false.

Definition ex2_input : list cell := ex_cells [102; 111; 111; 10; 98; 97; 114].
Definition ex2_tbl : plain_tbl :=
  [((0, -1), (4, true, 27)); ((4, 27), (3, true, 0)); ((1, -1), (3, true, 27)); ((2, -1), (2, true, 27));
   ((3, -1), (1, true, 27)); ((4, -1), (3, true, 0)); ((5, -1), (2, true, 0)); ((6, -1), (1, true, 0))].
Definition ex2_B (p : nat) : bool := Nat.eqb p 4.
Definition ex2_Hd (p : nat) : bool := Nat.eqb p 4.

Lemma ex_hyps :
  (orc_end_ok (length ex1_input) (tbl_orc ex1_tbl) /\ text_ok ex1_input 2 /\
   forallb plain_cell_ok ex1_input = true /\ orc_consistent (tbl_orc ex1_tbl) ex1_input ex1_B ex1_Hd /\
   (forall e, (e < length ex1_input)%nat -> ex1_Hd e = true -> ex1_B e = true)) /\
  (orc_end_ok (length ex2_input) (tbl_orc ex2_tbl) /\ text_ok ex2_input 2 /\
   forallb plain_cell_ok ex2_input = true /\ orc_consistent (tbl_orc ex2_tbl) ex2_input ex2_B ex2_Hd /\
   (forall e, (e < length ex2_input)%nat -> ex2_Hd e = true -> ex2_B e = true)).
Proof.
  split; (split; [apply tbl_end_ok; reflexivity|]); (split; [|split; [reflexivity|split; [apply tbl_consistent; reflexivity|]]]).
  - unfold text_ok. split; [lia|]. split; [repeat constructor; cbn; lia|cbn; lia].
  - intros e _ H. discriminate.
  - unfold text_ok. split; [lia|]. split; [repeat constructor; cbn; lia|cbn; lia].
  - intros e _ H. exact H.
Qed.

(* ---------- HardwrapScanner ---------- *)
Definition notnl (l : list cell) : list cell := filter (fun c => negb (is_newline c)) l.

Lemma hard_scan_spec : forall cells line l r, hard_scan cells line = (l, r) ->
  exists pre, l = line ++ pre /\ notnl pre = pre /\
    ((cells = pre /\ r = []) \/ exists nl, is_newline nl = true /\ cells = pre ++ nl :: r).
Proof.
  induction cells as [|c t IH]; intros line l r H; cbn [hard_scan] in H.
  - injection H as <- <-. exists []. rewrite app_nil_r. auto.
  - destruct (is_newline c) eqn:E.
    + injection H as <- <-. exists []. rewrite app_nil_r. split; [auto|]. split; [auto|]. right. exists c. auto.
    + apply IH in H. destruct H as [pre [H1 [H2 H3]]]. exists (c :: pre). rewrite <- app_assoc in H1.
      split; [exact H1|]. split; [unfold notnl in *; cbn; rewrite E; cbn; congruence|].
      destruct H3 as [[-> ->]|[nl [Hn ->]]]; [left; auto|right; exists nl; auto].
Qed.

Lemma notnl_app a b : notnl (a ++ b) = notnl a ++ notnl b.
Proof. apply filter_app. Qed.

(* every emitted line is free of newline cells, and nothing but newline cells is lost *)
Theorem hard_run_spec cells :
  Forall (fun l => notnl l = l) (hard_run cells) /\ notnl (concat (hard_run cells)) = notnl cells.
Proof.
  unfold hard_run. assert (H : forall fuel cells, (length cells <= fuel)%nat ->
    Forall (fun l => notnl l = l) (hard_all fuel cells) /\ notnl (concat (hard_all fuel cells)) = notnl cells).
  { induction fuel as [|fuel IH]; intros cs Hf.
    - destruct cs; [|cbn in Hf; lia]. cbn. auto.
    - cbn [hard_all]. destruct cs as [|c t]; [cbn; auto|].
      destruct (hard_scan (c :: t) []) as [l r] eqn:E.
      apply hard_scan_spec in E. destruct E as [pre [H1 [H2 H3]]]. cbn [app] in H1. subst l.
      assert (Hr : (length r <= fuel)%nat).
      { destruct H3 as [[_ ->]|[nl [_ H3]]]; [cbn; lia|].
        apply (f_equal (@length cell)) in H3. rewrite app_length in H3. cbn [length] in *. lia. }
      destruct (IH r Hr) as [I1 I2]. split; [constructor; auto|].
      cbn [concat]. rewrite notnl_app, I2.
      destruct H3 as [[-> ->]|[nl [Hn ->]]].
      + cbn. now rewrite app_nil_r.
      + rewrite notnl_app. f_equal. unfold notnl. cbn [filter]. rewrite Hn. reflexivity. }
  apply H. lia.
Qed.

(* ---------- the uint16 bound of text_ok is needed ---------- *)
(* a word whose columns add up to 65536 (here, to keep the term small, two cells of 32768 columns;
   65536 one-column letters behave the same): the uint16 word length wraps to 0, the word
   "fits" and the whole text is emitted as one line at width 1 *)
Definition wide_input : list cell := [mkCell [97] 32768 0; mkCell [98] 32768 0].
Definition wide_orc (i st : Z) : option (Z * bool * Z) := Some (2 - i, true, 0).

Lemma u16_bound_needed :
  wok wide_input /\ sumw wide_input = 65536 /\ orc_end_ok (length wide_input) wide_orc /\
  exists lines, plain_scan wide_orc 1 wide_input = (lines, Done) /\
                exists l r, In (l, r) lines /\ fits_b cell_is_space 1 l = false.
Proof.
  split; [repeat constructor; cbn; lia|]. split; [reflexivity|]. split.
  - intros i st n br st' H _. unfold wide_orc in H. congruence.
  - exists [(wide_input, 0%nat)]. split; [vm_compute; reflexivity|].
    exists wide_input, 0%nat. split; [left; reflexivity|vm_compute; reflexivity].
Qed.

(* width 0: Scan refuses at once, nothing is emitted *)
Lemma run_width0 St segf reset is_space hasbreak residue input st0 :
  run St segf reset is_space hasbreak residue 0 input st0 = ([], Done).
Proof. unfold run. cbn [scan_all]. unfold scan. rewrite orb_true_r. reflexivity. Qed.

(* the two examples, computed *)
Lemma ex_runs :
  map (fun x => flat (fst x)) (fst (plain_scan (tbl_orc ex1_tbl) 2 ex1_input)) = [[120; 32]; [97; 98]; [45]; [99; 100]] /\
  snd (plain_scan (tbl_orc ex1_tbl) 2 ex1_input) = Done /\
  map (fun x => flat (fst x)) (fst (plain_scan (tbl_orc ex2_tbl) 2 ex2_input)) = [[102; 111]; [111]; [98; 97]; [114]] /\
  cuts_of 7 (fst (plain_scan (tbl_orc ex2_tbl) 2 ex2_input)) = [2; 4; 6; 7]%nat.
Proof. vm_compute. repeat split; reflexivity. Qed.

(* ---------- Draw ---------- *)
Lemma container_size_spec MaxW MaxH : 0 <= MaxW -> forall lines W0 H0 W H,
  0 <= H0 -> H0 + zlen lines < 65536 -> 0 <= W0 <= MaxW ->
  container_size lines MaxW MaxH W0 H0 = (W, H) ->
  H = (if MaxH <=? H0 then H0 else Z.min (H0 + zlen lines) MaxH) /\ 0 <= W <= MaxW.
Proof.
  intros HM. induction lines as [|l t IH]; intros W0 H0 W H HH0 Hlen HW0 E; cbn [container_size] in E.
  - injection E as <- <-. rewrite zlen_nil. split; [|lia]. destruct (MaxH <=? H0) eqn:E1; lia.
  - rewrite zlen_cons in Hlen. pose proof (zlen_nonneg t).
    destruct (MaxH <=? H0) eqn:E1; [injection E as <- <-; split; lia|].
    rewrite u16_id in E by lia. pose proof (u16sum_range l) as Hr.
    apply IH in E; try lia.
    + destruct E as [E2 E3]. split; [|exact E3]. rewrite zlen_cons. destruct (MaxH <=? H0 + 1) eqn:E4; lia.
    + destruct (W0 <? u16sum l); destruct (MaxW <? _) eqn:E5; lia.
Qed.

Definition line_ok (l : list cell) : Prop := wok l /\ sumw l < 65536.

Lemma cell_at_off restyle W chars : forall col c acc, W <= col -> cell_at restyle W chars col c acc = acc.
Proof. destruct chars; intros; cbn [cell_at]; [reflexivity|]. replace (W <=? col) with true by lia. reflexivity. Qed.

Lemma draw_chars_spec restyle MaxW W H row : 0 <= W <= MaxW -> MaxW < 65536 -> 0 <= row -> 0 <= H ->
  forall chars col buf, wok chars -> 0 <= col -> col + sumw chars < 65536 -> zlen buf = H * W ->
  exists buf', draw_chars restyle MaxW W H row chars col buf = Some buf' /\ zlen buf' = H * W /\
    forall i c cur, 0 <= i < H -> 0 <= c < W -> zget buf (i * W + c) = Some cur ->
      zget buf' (i * W + c) = Some (if i =? row then cell_at restyle W chars col c cur else cur).
Proof.
  intros HW HM Hrow HH. induction chars as [|ch t IH]; intros col buf Hwok Hcol Hsum Hlen; cbn [draw_chars].
  - exists buf. split; [reflexivity|]. split; [auto|]. intros i c cur Hi Hc Hg. cbn [cell_at].
    destruct (i =? row); exact Hg.
  - inversion Hwok as [|? ? Hch Ht]; subst. rewrite sumw_cons in Hsum. pose proof (sumw_nonneg t Ht) as Hnt.
    assert (Hcw : cw ch = c_width ch) by (unfold cw; apply u16_id; lia).
    destruct (MaxW <=? col) eqn:E1.
    { exists buf. split; [reflexivity|]. split; [auto|]. intros i c cur Hi Hc Hg.
      rewrite cell_at_off by lia. destruct (i =? row); exact Hg. }
    rewrite Hcw, (u16_id (col + c_width ch)) by lia. unfold write_cell.
    destruct ((W <=? col) || (H <=? row)) eqn:E2.
    + destruct (IH (col + c_width ch) buf Ht ltac:(lia) ltac:(lia) Hlen) as [buf' [D1 [D2 D3]]].
      exists buf'. split; [exact D1|]. split; [exact D2|]. intros i c cur Hi Hc Hg.
      rewrite (D3 i c cur Hi Hc Hg). destruct (i =? row) eqn:Ei; [|reflexivity].
      cbn [cell_at]. destruct (W <=? col) eqn:E3.
      * rewrite cell_at_off by lia. reflexivity.
      * (* then H <= row, impossible for i = row < H *) lia.
    + assert (Hidx : 0 <= row * W + col < zlen buf) by nia.
      destruct (proj2 (zupd_some_iff buf (row * W + col) (restyle ch)) Hidx) as [buf1 Hu].
      rewrite Hu. pose proof (zupd_length _ _ _ _ Hu) as Hl1.
      destruct (IH (col + c_width ch) buf1 Ht ltac:(lia) ltac:(lia) ltac:(lia)) as [buf' [D1 [D2 D3]]].
      exists buf'. split; [exact D1|]. split; [exact D2|]. intros i c cur Hi Hc Hg.
      cbn [cell_at]. replace (W <=? col) with false by lia.
      destruct (Z.eq_dec (row * W + col) (i * W + c)) as [He|Hne].
      * assert (Hir : i = row).
        { destruct (Z.lt_trichotomy i row) as [Hx1|[Hx2|Hx3]]; auto; exfalso.
          - assert ((row - i) * W >= 1 * W) by (apply Zmult_ge_compat_r; lia). lia.
          - assert ((i - row) * W >= 1 * W) by (apply Zmult_ge_compat_r; lia). lia. }
        subst i. assert (c = col) by lia. subst c.
        rewrite (D3 row col (restyle ch) Hi Hc); [|eapply zget_zupd_same; eauto].
        rewrite !Z.eqb_refl. reflexivity.
      * rewrite (D3 i c cur Hi Hc); [|rewrite (zget_zupd_other _ _ _ _ _ Hu Hne); exact Hg].
        destruct (i =? row) eqn:Ei; [|reflexivity].
        assert (i = row) by lia. subst i. replace (col =? c) with false by lia. reflexivity.
Qed.

Lemma draw_rows_spec restyle MaxW MaxH W H : 0 <= W <= MaxW -> MaxW < 65536 -> 0 <= H ->
  forall lines row buf, Forall line_ok lines -> 0 <= row -> row + zlen lines < 65536 -> zlen buf = H * W ->
  exists buf', draw_rows restyle MaxW MaxH W H lines row buf = Some buf' /\ zlen buf' = H * W /\
    forall i c cur, 0 <= i < H -> 0 <= c < W -> zget buf (i * W + c) = Some cur ->
      zget buf' (i * W + c) =
        Some (match zget lines (i - row) with
              | Some l => if (row <=? i) && (i <=? MaxH) then cell_at restyle W l 0 c cur else cur
              | None => cur
              end).
Proof.
  intros HW HM HH. induction lines as [|l t IH]; intros row buf Hok Hrow Hlen Hb; cbn [draw_rows].
  - exists buf. split; [reflexivity|]. split; [auto|]. intros i c cur Hi Hc Hg.
    replace (zget [] (i - row)) with (@None (list cell)) by (unfold zget; destruct (i - row <? 0); [reflexivity|destruct (Z.to_nat (i - row)); reflexivity]).
    exact Hg.
  - inversion Hok as [|? ? [Hl1 Hl2] Ht]; subst. rewrite zlen_cons in Hlen. pose proof (zlen_nonneg t).
    destruct (MaxH <? row) eqn:E1.
    + exists buf. split; [reflexivity|]. split; [auto|]. intros i c cur Hi Hc Hg.
      destruct (zget (l :: t) (i - row)); [|exact Hg].
      replace ((row <=? i) && (i <=? MaxH)) with false by lia. exact Hg.
    + destruct (draw_chars_spec restyle MaxW W H row HW HM Hrow HH l 0 buf Hl1 ltac:(lia) ltac:(lia) Hb) as [b1 [D1 [D2 D3]]].
      rewrite D1, u16_id by lia.
      destruct (IH (row + 1) b1 Ht ltac:(lia) ltac:(lia) D2) as [b2 [R1 [R2 R3]]].
      exists b2. split; [exact R1|]. split; [exact R2|]. intros i c cur Hi Hc Hg.
      rewrite (R3 i c _ Hi Hc (D3 i c cur Hi Hc Hg)).
      destruct (Z.eq_dec i row) as [->|Hne].
      * rewrite Z.sub_diag, zget_cons_0, Z.eqb_refl.
        replace (zget t (row - (row + 1))) with (@None (list cell)) by (unfold zget; replace (row - (row + 1) <? 0) with true by lia; reflexivity).
        replace ((row <=? row) && (row <=? MaxH)) with true by lia. reflexivity.
      * replace (i =? row) with false by lia.
        destruct (Z_lt_dec i row) as [Hlt|Hge].
        -- replace (zget t (i - (row + 1))) with (@None (list cell)) by (unfold zget; replace (i - (row + 1) <? 0) with true by lia; reflexivity).
           destruct (zget (l :: t) (i - row)); [|reflexivity].
           replace ((row <=? i) && (i <=? MaxH)) with false by lia. reflexivity.
        -- rewrite (zget_cons_S l t (i - row)) by lia. replace (i - row - 1) with (i - (row + 1)) by lia.
           destruct (zget t (i - (row + 1))); [|reflexivity].
           replace ((row + 1 <=? i) && (i <=? MaxH)) with ((row <=? i) && (i <=? MaxH)) by lia. reflexivity.
Qed.

Lemma zget_zrepeat {A} (x : A) n i : 0 <= i < n -> zget (zrepeat x n) i = Some x.
Proof.
  intros H. unfold zget, zrepeat. replace (i <? 0) with false by lia.
  rewrite nth_error_repeat; [reflexivity|lia].
Qed.

(* Text.Draw / RichText.Draw (soft-wrap): no panic, and the surface shows exactly the lines, one per row *)
Theorem draw_softwrap_ok restyle fill lines MaxW MaxH :
  0 <= MaxW < 65536 -> 0 <= MaxH < 65536 -> zlen lines < 65536 -> Forall line_ok lines ->
  exists obs, draw_softwrap restyle fill lines MaxW MaxH = Some obs /\
              surface_ok_b restyle fill lines MaxW MaxH obs = true.
Proof.
  intros HMW HMH Hlen Hok. unfold draw_softwrap.
  destruct (container_size lines MaxW MaxH 0 0) as [W H] eqn:Ec.
  apply container_size_spec in Ec; try lia. destruct Ec as [EH EW].
  pose proof (zlen_nonneg lines) as Hn.
  assert (HH : H = Z.min (zlen lines) MaxH) by (destruct (MaxH <=? 0) eqn:E; lia).
  assert (HH0 : 0 <= H) by lia.
  assert (Hb0 : zlen (zrepeat (blank fill) (H * W)) = H * W) by (apply zlen_repeat; nia).
  destruct (draw_rows_spec restyle MaxW MaxH W H EW ltac:(lia) HH0 lines 0 _ Hok ltac:(lia) ltac:(lia) Hb0) as [buf [D1 [D2 D3]]].
  rewrite D1. exists (W, H, buf). split; [reflexivity|].
  unfold surface_ok_b. replace (H =? Z.min (zlen lines) MaxH) with true by lia.
  replace (zlen buf =? H * W) with true by lia. replace (W <=? MaxW) with true by lia. cbn [andb].
  apply forallb_forall. intros i Hi. apply in_map_iff in Hi. destruct Hi as [ni [<- Hi]]. apply in_seq in Hi.
  apply forallb_forall. intros c Hc. apply in_map_iff in Hc. destruct Hc as [nc [<- Hc]]. apply in_seq in Hc.
  assert (Hi' : 0 <= Z.of_nat ni < H) by lia. assert (Hc' : 0 <= Z.of_nat nc < W) by lia.
  rewrite (D3 _ _ (blank fill) Hi' Hc') by (apply zget_zrepeat; nia).
  rewrite Z.sub_0_r. destruct (zget_in_range lines (Z.of_nat ni) ltac:(lia)) as [l Hl]. rewrite Hl.
  replace ((0 <=? Z.of_nat ni) && (Z.of_nat ni <=? MaxH)) with true by lia. unfold cell_eqb. rewrite !Z.eqb_refl. replace (zlist_eqb _ _) with true; [reflexivity|]. symmetry. unfold zlist_eqb. generalize (c_runes (cell_at restyle W l 0 (Z.of_nat nc) (blank fill))). intros r; induction r as [|x r IHr]; cbn; [reflexivity|]. rewrite Z.eqb_refl, IHr. reflexivity.
Qed.

(* ---------- Draw: the exact clause, outside the guard of the finding zero-width-overdraw ---------- *)
Lemma cell_at_miss restyle W : forall chars col c acc, wok chars -> c < col ->
  cell_at restyle W chars col c acc = acc.
Proof.
  induction chars as [|ch t IH]; intros col c acc Hw Hc; cbn [cell_at]; [reflexivity|].
  inversion Hw; subst. destruct (W <=? col); [reflexivity|].
  replace (col =? c) with false by lia. apply IH; auto. lia.
Qed.

Lemma cell_at_hit restyle W ch t col acc : wok t -> 0 < c_width ch -> col < W ->
  cell_at restyle W (ch :: t) col col acc = restyle ch.
Proof.
  intros Hw Hp Hc. cbn [cell_at]. replace (W <=? col) with false by lia. rewrite Z.eqb_refl.
  apply cell_at_miss; auto. lia.
Qed.

Lemma cell_at_app restyle W suf c : forall pre col acc, wok pre -> col + sumw pre < W ->
  exists acc', cell_at restyle W (pre ++ suf) col c acc = cell_at restyle W suf (col + sumw pre) c acc'.
Proof.
  induction pre as [|x pre IH]; intros col acc Hw Hs.
  - exists acc. cbn. now rewrite Z.add_0_r.
  - inversion Hw; subst. rewrite sumw_cons in Hs. pose proof (sumw_nonneg pre H2).
    cbn [app cell_at]. replace (W <=? col) with false by lia.
    destruct (IH (col + c_width x) (if col =? c then restyle x else acc) H2 ltac:(lia)) as [acc' E].
    exists acc'. rewrite E, sumw_cons. f_equal. lia.
Qed.

Lemma cell_eqb_refl2 c : cell_eqb c c = true.
Proof. apply cell_eqb_refl. Qed.

Lemma surface_ok_point restyle fill lines MaxW MaxH W H buf i c l :
  surface_ok_b restyle fill lines MaxW MaxH (W, H, buf) = true ->
  0 <= i < H -> 0 <= c < W -> zget lines i = Some l ->
  exists x, zget buf (i * W + c) = Some x /\ cell_eqb x (cell_at restyle W l 0 c (blank fill)) = true.
Proof.
  intros Hs Hi Hc Hl. unfold surface_ok_b in Hs. apply andb_true_iff in Hs. destruct Hs as [_ Hs].
  rewrite forallb_forall in Hs. specialize (Hs i).
  assert (In i (map Z.of_nat (seq 0 (Z.to_nat H)))).
  { apply in_map_iff. exists (Z.to_nat i). split; [lia|]. apply in_seq. lia. }
  specialize (Hs H0). rewrite forallb_forall in Hs. specialize (Hs c).
  assert (In c (map Z.of_nat (seq 0 (Z.to_nat W)))).
  { apply in_map_iff. exists (Z.to_nat c). split; [lia|]. apply in_seq. lia. }
  specialize (Hs H1). rewrite Hl in Hs. destruct (zget buf (i * W + c)) as [x|]; [|discriminate].
  exists x. auto.
Qed.

Lemma cell_eqb_eq a b : cell_eqb a b = true -> a = b.
Proof.
  destruct a as [r1 w1 s1], b as [r2 w2 s2]. unfold cell_eqb. cbn. intros H.
  apply andb_true_iff in H. destruct H as [H H3]. apply andb_true_iff in H. destruct H as [H1 H2].
  assert (r1 = r2).
  { clear - H1. unfold zlist_eqb in H1. revert r2 H1. induction r1 as [|x r IH]; intros [|y r2] H; cbn in H; try discriminate; auto.
    apply andb_true_iff in H. destruct H as [Ha Hb]. apply Z.eqb_eq in Ha. f_equal; auto. }
  f_equal; auto; lia.
Qed.

Theorem draw_softwrap_exact restyle fill lines MaxW MaxH :
  0 <= MaxW < 65536 -> 0 <= MaxH < 65536 -> zlen lines < 65536 -> Forall line_ok lines ->
  has_zero_width lines = false ->
  exists obs, draw_softwrap restyle fill lines MaxW MaxH = Some obs /\
              surface_exact_b restyle fill lines MaxW MaxH obs = true.
Proof.
  intros HMW HMH Hlen Hok Hz.
  destruct (draw_softwrap_ok restyle fill lines MaxW MaxH HMW HMH Hlen Hok) as [[[W H] buf] [Hd Hs]].
  exists (W, H, buf). split; [exact Hd|]. unfold surface_exact_b. rewrite Hs. cbn [andb].
  apply forallb_forall. intros i Hi. apply in_map_iff in Hi. destruct Hi as [ni [<- Hi]]. apply in_seq in Hi.
  assert (HH : H = Z.min (zlen lines) MaxH).
  { unfold surface_ok_b in Hs. lia. }
  destruct (zget_in_range lines (Z.of_nat ni) ltac:(lia)) as [l Hl]. rewrite Hl.
  assert (Hlin : In l lines) by (eapply zget_In; eauto).
  assert (Hlok : line_ok l) by (rewrite Forall_forall in Hok; auto).
  assert (Hpos : forall ch, In ch l -> 0 < c_width ch).
  { intros ch Hch. unfold has_zero_width in Hz.
    destruct (c_width ch <=? 0) eqn:E; [|lia]. exfalso.
    assert (existsb (existsb (fun c => c_width c <=? 0)) lines = true); [|congruence].
    apply existsb_exists. exists l. split; auto. apply existsb_exists. exists ch. auto. }
  destruct Hlok as [Hwl _].
  assert (Hgen : forall suf pre, l = pre ++ suf -> shown_b restyle W buf (Z.of_nat ni) suf (sumw pre) = true).
  { induction suf as [|ch t IHs]; intros pre El; cbn [shown_b]; [reflexivity|].
    destruct (W <=? sumw pre) eqn:E; [reflexivity|].
    assert (Hwpre : wok pre /\ wok (ch :: t)) by (rewrite El in Hwl; apply wok_app in Hwl; exact Hwl).
    destruct Hwpre as [Hwp Hwt]. pose proof (sumw_nonneg pre Hwp) as Hn.
    destruct (surface_ok_point restyle fill lines MaxW MaxH W H buf (Z.of_nat ni) (sumw pre) l Hs ltac:(lia) ltac:(lia) Hl)
      as [x [Hx1 Hx2]].
    rewrite Hx1. apply cell_eqb_eq in Hx2. subst x.
    destruct (cell_at_app restyle W (ch :: t) (sumw pre) pre 0 (blank fill) Hwp ltac:(lia)) as [acc' Ea].
    rewrite <- El in Ea. rewrite Ea, Z.add_0_l.
    assert (Ht0 : wok t) by (inversion Hwt; auto).
    rewrite cell_at_hit; auto; [|apply Hpos; rewrite El; apply in_or_app; right; left; reflexivity|lia].
    rewrite cell_eqb_refl. cbn [andb].
    specialize (IHs (pre ++ [ch])). rewrite sumw_app, sumw_cons, sumw_nil, Z.add_0_r in IHs.
    apply IHs. rewrite <- app_assoc. exact El. }
  apply (Hgen l []). reflexivity.
Qed.

(* the guard is needed: a zero-width character followed by another one is overwritten *)
Lemma draw_zero_width_refuted :
  let lines := [[mkCell [8203] 0 0; mkCell [97] 1 0]] in
  has_zero_width lines = true /\
  exists obs, draw_softwrap (fun c => c) 0 lines 5 5 = Some obs /\
              surface_ok_b (fun c => c) 0 lines 5 5 obs = true /\
              surface_exact_b (fun c => c) 0 lines 5 5 obs = false.
Proof. cbn zeta. split; [reflexivity|]. eexists. split; [reflexivity|]. split; reflexivity. Qed.

(* ---------- Draw: the size of the surface ---------- *)
Lemma max_width_nonneg lines : 0 <= max_width lines.
Proof. induction lines as [|l t IH]; cbn [max_width]; lia. Qed.

Lemma max_width_ge lines l : In l lines -> sumw l <= max_width lines.
Proof.
  induction lines as [|x t IH]; intros Hin; [destruct Hin|].
  cbn [max_width]. destruct Hin as [->|Hin]; [lia|]. specialize (IH Hin). lia.
Qed.

Lemma zget_firstn_In {A} (l : list A) i n x : zget l i = Some x -> i < n -> In x (firstn (Z.to_nat n) l).
Proof.
  unfold zget. destruct (i <? 0) eqn:E; [discriminate|]. intros Hg Hlt.
  assert (Hn : (Z.to_nat i < Z.to_nat n)%nat) by lia.
  revert Hn Hg. generalize (Z.to_nat i) (Z.to_nat n). clear. intros k n. revert k n.
  induction l as [|y t IH]; intros k n Hn Hg; [destruct k; discriminate|].
  destruct n as [|n]; [lia|]. cbn [firstn]. destruct k as [|k]; cbn in Hg.
  - injection Hg as ->. left; reflexivity.
  - right. apply (IH k n); [lia|exact Hg].
Qed.

(* findContainerSize: the width is that of the widest measured line (the first H - H0 ones), limited
   to Max.Width *)
Lemma container_size_width MaxW MaxH : 0 <= MaxW -> forall lines W0 H0 W H,
  Forall line_ok lines -> 0 <= H0 -> H0 + zlen lines < 65536 -> 0 <= W0 <= MaxW ->
  container_size lines MaxW MaxH W0 H0 = (W, H) ->
  H0 <= H /\ W = Z.min MaxW (Z.max W0 (max_width (firstn (Z.to_nat (H - H0)) lines))).
Proof.
  intros HM. induction lines as [|l t IH]; intros W0 H0 W H Hok HH0 Hlen HW0 E; cbn [container_size] in E.
  - injection E as <- <-. split; [lia|]. rewrite firstn_nil. cbn [max_width]. lia.
  - rewrite zlen_cons in Hlen. pose proof (zlen_nonneg t).
    inversion Hok as [|? ? [Hl1 Hl2] Ht]; subst.
    destruct (MaxH <=? H0) eqn:E1.
    { injection E as <- <-. split; [lia|]. rewrite Z.sub_diag. cbn [Z.to_nat firstn max_width]. lia. }
    rewrite u16_id in E by lia. rewrite (u16sum_eq l Hl1 Hl2) in E.
    pose proof (sumw_nonneg l Hl1) as Hs.
    apply IH in E; try lia; auto.
    + destruct E as [E2 E3]. split; [lia|].
      replace (Z.to_nat (H - H0)) with (S (Z.to_nat (H - (H0 + 1)))) by lia.
      cbn [firstn max_width]. rewrite E3.
      destruct (W0 <? sumw l) eqn:E4; destruct (MaxW <? _) eqn:E5; lia.
    + destruct (W0 <? sumw l); destruct (MaxW <? _) eqn:E5; lia.
Qed.

(* a surface of the right width drops nothing: with no zero-width character, what shown_b finds up
   to the width of the surface is everything that starts left of Max.Width *)
Lemma drawn_of_shown restyle MaxW W buf i : W <= MaxW ->
  forall chars col, wok chars -> (forall ch, In ch chars -> 0 < c_width ch) ->
    Z.min MaxW (col + sumw chars) <= W ->
    shown_b restyle W buf i chars col = true ->
    drawn_b restyle MaxW W buf i chars col = true.
Proof.
  intros HW. induction chars as [|ch t IH]; intros col Hw Hpos Hmin Hs; cbn [drawn_b]; [reflexivity|].
  inversion Hw as [|? ? Hch Ht]; subst. rewrite sumw_cons in Hmin. pose proof (sumw_nonneg t Ht) as Hn.
  assert (Hp : 0 < c_width ch) by (apply Hpos; left; reflexivity).
  destruct (MaxW <=? col) eqn:E1; [reflexivity|].
  cbn [shown_b] in Hs. replace (W <=? col) with false in Hs by lia.
  apply andb_true_iff in Hs. destruct Hs as [Hs1 Hs2].
  replace (col <? W) with true by lia. rewrite Hs1. cbn [andb].
  apply IH; auto; [intros c Hc; apply Hpos; right; exact Hc|lia].
Qed.

(* the predicate alone: exact cells + the right width imply that nothing is dropped *)
Lemma surface_full_of_exact_width restyle fill lines MaxW MaxH obs :
  Forall (fun l => wok l) lines -> has_zero_width lines = false ->
  surface_exact_b restyle fill lines MaxW MaxH obs = true -> surface_width_b lines MaxW obs = true ->
  surface_full_b restyle fill lines MaxW MaxH obs = true.
Proof.
  intros Hok Hz He Hwd. unfold surface_full_b. rewrite He, Hwd. cbn [andb].
  destruct obs as [[W H] buf]. unfold surface_exact_b in He. apply andb_true_iff in He. destruct He as [Hs He].
  unfold surface_width_b in Hwd. apply Z.eqb_eq in Hwd.
  rewrite forallb_forall in He. apply forallb_forall. intros i Hi. specialize (He i Hi).
  apply in_map_iff in Hi. destruct Hi as [ni [<- Hi]]. apply in_seq in Hi.
  destruct (zget lines (Z.of_nat ni)) as [l|] eqn:Hl; [|discriminate].
  assert (Hlin : In l lines) by (eapply zget_In; eauto).
  assert (Hwl : wok l) by (rewrite Forall_forall in Hok; auto).
  apply drawn_of_shown; auto.
  - lia.
  - intros ch Hch. unfold has_zero_width in Hz.
    destruct (c_width ch <=? 0) eqn:E; [|lia]. exfalso.
    assert (existsb (existsb (fun c => c_width c <=? 0)) lines = true); [|congruence].
    apply existsb_exists. exists l. split; auto. apply existsb_exists. exists ch. auto.
  - pose proof (max_width_ge (firstn (Z.to_nat H) lines) l) as Hge.
    rewrite Z.add_0_l. specialize (Hge (zget_firstn_In lines (Z.of_nat ni) H l Hl ltac:(lia))). lia.
Qed.

Theorem draw_softwrap_sized restyle fill lines MaxW MaxH :
  0 <= MaxW < 65536 -> 0 <= MaxH < 65536 -> zlen lines < 65536 -> Forall line_ok lines ->
  exists obs, draw_softwrap restyle fill lines MaxW MaxH = Some obs /\
              surface_sized_b restyle fill lines MaxW MaxH obs = true.
Proof.
  intros HMW HMH Hlen Hok.
  destruct (draw_softwrap_ok restyle fill lines MaxW MaxH HMW HMH Hlen Hok) as [[[W H] buf] [Hd Hs]].
  exists (W, H, buf). split; [exact Hd|]. unfold surface_sized_b. rewrite Hs. cbn [andb].
  unfold draw_softwrap in Hd. destruct (container_size lines MaxW MaxH 0 0) as [W' H'] eqn:Ec.
  destruct (draw_rows _ _ _ _ _ _ _ _) as [b|]; [|discriminate]. injection Hd as -> -> ->.
  pose proof (zlen_nonneg lines).
  apply container_size_width in Ec; try lia; auto. destruct Ec as [_ Ec].
  unfold surface_width_b. rewrite Z.sub_0_r in Ec.
  pose proof (max_width_nonneg (firstn (Z.to_nat H) lines)). apply Z.eqb_eq. lia.
Qed.

Theorem draw_softwrap_full restyle fill lines MaxW MaxH :
  0 <= MaxW < 65536 -> 0 <= MaxH < 65536 -> zlen lines < 65536 -> Forall line_ok lines ->
  has_zero_width lines = false ->
  exists obs, draw_softwrap restyle fill lines MaxW MaxH = Some obs /\
              surface_full_b restyle fill lines MaxW MaxH obs = true.
Proof.
  intros HMW HMH Hlen Hok Hz.
  destruct (draw_softwrap_exact restyle fill lines MaxW MaxH HMW HMH Hlen Hok Hz) as [obs [Hd He]].
  destruct (draw_softwrap_sized restyle fill lines MaxW MaxH HMW HMH Hlen Hok) as [obs' [Hd' Hs]].
  rewrite Hd in Hd'. injection Hd' as <-.
  exists obs. split; [exact Hd|]. unfold surface_sized_b in Hs. apply andb_true_iff in Hs.
  apply surface_full_of_exact_width; auto; [|apply Hs].
  eapply Forall_impl; [|exact Hok]. intros l [Hl _]. exact Hl.
Qed.

(* the size clause is needed: a surface one column too narrow satisfies the old predicate
   (surface_exact_b) although the second character of the line is dropped *)
Lemma draw_width_clause_needed :
  let lines := [[mkCell [97] 1 0]; [mkCell [28450] 2 0; mkCell [28450] 2 0]] in
  let narrow := (1, 2, [mkCell [97] 1 0; mkCell [28450] 2 0]) in
  has_zero_width lines = false /\
  surface_exact_b (fun c => c) 0 lines 10 10 narrow = true /\
  surface_full_b (fun c => c) 0 lines 10 10 narrow = false.
Proof. cbn zeta. repeat split; reflexivity. Qed.
