(* Proofs about the soft-wrap scanners of vxfw/text and vxfw/richtext (model/Softwrap.v). *)
From Vx Require Import base.Prelude base.ListX model.Softwrap.
Require Import ZifyBool.

Definition wok (l : list cell) : Prop := Forall (fun c => 0 <= c_width c) l.

Lemma sumw_app a b : sumw (a ++ b) = sumw a + sumw b.
Proof. unfold sumw. induction a as [|x a IH]; cbn [fold_right app]; [lia|]. rewrite IH. lia. Qed.

Lemma sumw_cons c l : sumw (c :: l) = c_width c + sumw l.
Proof. reflexivity. Qed.

Lemma sumw_nil : sumw [] = 0.
Proof. reflexivity. Qed.

Lemma wok_app a b : wok (a ++ b) <-> wok a /\ wok b.
Proof. unfold wok. apply Forall_app. Qed.

Lemma sumw_nonneg l : wok l -> 0 <= sumw l.
Proof. induction 1 as [|c l Hc Hl IH]; [cbn; lia|]. rewrite sumw_cons. lia. Qed.

Lemma firstn_skipn_sumw n l : sumw (firstn n l) + sumw (skipn n l) = sumw l.
Proof. rewrite <- sumw_app, firstn_skipn. reflexivity. Qed.

Lemma wok_firstn n l : wok l -> wok (firstn n l).
Proof. intros H. rewrite <- (firstn_skipn n l) in H. apply wok_app in H. tauto. Qed.
Lemma wok_skipn n l : wok l -> wok (skipn n l).
Proof. intros H. rewrite <- (firstn_skipn n l) in H. apply wok_app in H. tauto. Qed.

Lemma u16_id x : 0 <= x < 65536 -> u16 x = x.
Proof. intros H. unfold u16. apply Z.mod_small. lia. Qed.

Lemma u16_range x : 0 <= u16 x < 65536.
Proof. unfold u16. apply Z.mod_pos_bound. lia. Qed.

Lemma u16sum_gen l a : wok l -> 0 <= a -> a + sumw l < 65536 ->
  fold_left (fun a c => u16 (a + cw c)) l a = a + sumw l.
Proof.
  revert a. induction l as [|c l IH]; intros a Hw Ha Hs; cbn [fold_left].
  - cbn. lia.
  - rewrite sumw_cons in Hs. inversion Hw as [|? ? Hc Hl]; subst.
    pose proof (sumw_nonneg l Hl) as Hn.
    assert (Hcw : cw c = c_width c) by (unfold cw; apply u16_id; lia).
    rewrite Hcw, (u16_id (a + c_width c)) by lia.
    rewrite IH by (auto; lia). rewrite sumw_cons. lia.
Qed.

Lemma u16sum_eq l : wok l -> sumw l < 65536 -> u16sum l = sumw l.
Proof. intros Hw Hs. unfold u16sum. rewrite u16sum_gen by (auto; lia). lia. Qed.

Lemma u16sum_range l : 0 <= u16sum l < 65536.
Proof.
  unfold u16sum. generalize 0 at 2 3. intros a.
  assert (H : forall a, 0 <= a < 65536 -> 0 <= fold_left (fun a c => u16 (a + cw c)) l a < 65536).
  { induction l as [|c l IH]; intros b Hb; cbn [fold_left]; [lia|]. apply IH. apply u16_range. }
  revert a. induction l as [|c l IH]; intros a.
Abort.

Lemma fold_u16_range l : forall a, 0 <= a < 65536 -> 0 <= fold_left (fun a c => u16 (a + cw c)) l a < 65536.
Proof. induction l as [|c l IH]; intros b Hb; cbn [fold_left]; [lia|]. apply IH. apply u16_range. Qed.

Lemma u16sum_range l : 0 <= u16sum l < 65536.
Proof. unfold u16sum. apply fold_u16_range. lia. Qed.

Lemma u16sum_nil : u16sum [] = 0.
Proof. reflexivity. Qed.

Section Trim.
  Variable is_space : cell -> bool.
  Notation trim := (trim_right is_space).

  Lemma trim_spec l : exists sp, l = trim l ++ sp /\ Forall (fun c => is_space c = true) sp.
  Proof.
    induction l as [|c l [sp [Hl Hsp]]].
    - exists []. split; [reflexivity|constructor].
    - cbn [trim_right]. destruct (trim l) as [|x t] eqn:E.
      + destruct (is_space c) eqn:Ec.
        * exists (c :: sp). cbn in *. split; [congruence|constructor; auto].
        * exists sp. cbn in *. split; [congruence|auto].
      + exists sp. split; [|auto]. cbn. f_equal. exact Hl.
  Qed.

  Lemma trim_last l : trim l = [] \/ exists x y, trim l = x ++ [y] /\ is_space y = false.
  Proof.
    induction l as [|c l IH]; [left; reflexivity|].
    cbn [trim_right]. destruct (trim l) as [|z t] eqn:E.
    - destruct (is_space c) eqn:Ec; [left; reflexivity|]. right. exists [], c. auto.
    - right. destruct IH as [IH|[x [y [Hx Hy]]]]; [discriminate|].
      exists (c :: x), y. rewrite Hx. auto.
  Qed.

  Lemma trim_all_space l : Forall (fun c => is_space c = true) l -> trim l = [].
  Proof. induction 1 as [|c l Hc Hl IH]; [reflexivity|]. cbn [trim_right]. rewrite IH, Hc. reflexivity. Qed.

  Lemma trim_app_space a sp : Forall (fun c => is_space c = true) sp -> trim (a ++ sp) = trim a.
  Proof.
    intros Hsp. induction a as [|c a IH]; cbn [app trim_right].
    - apply trim_all_space; auto.
    - rewrite IH. reflexivity.
  Qed.

  Lemma trim_app_nonempty a b : trim b <> [] -> trim (a ++ b) = a ++ trim b.
  Proof.
    intros Hb. induction a as [|c a IH]; cbn [app trim_right]; [reflexivity|].
    rewrite IH. destruct (a ++ trim b) eqn:E; [|reflexivity].
    apply app_eq_nil in E. tauto.
  Qed.

  Lemma trim_idem_snoc x y : is_space y = false -> trim (x ++ [y]) = x ++ [y].
  Proof. intros Hy. rewrite trim_app_nonempty; cbn; rewrite Hy; [reflexivity|discriminate]. Qed.

  Lemma trim_length_le l : (length (trim l) <= length l)%nat.
  Proof. destruct (trim_spec l) as [sp [H _]]. remember (trim l) as t. rewrite H, app_length. lia. Qed.

  Lemma trim_skipn l : l = trim l ++ skipn (length (trim l)) l.
  Proof.
    destruct (trim_spec l) as [sp [H _]]. remember (trim l) as t. rewrite H.
    rewrite skipn_app, skipn_all, Nat.sub_diag. reflexivity.
  Qed.

  Lemma trim_skipn_space l : Forall (fun c => is_space c = true) (skipn (length (trim l)) l).
  Proof.
    destruct (trim_spec l) as [sp [H Hs]]. remember (trim l) as t. rewrite H.
    rewrite skipn_app, skipn_all, Nat.sub_diag. exact Hs.
  Qed.

  Lemma wok_trim l : wok l -> wok (trim l).
  Proof. intros H. rewrite (trim_skipn l) in H. apply wok_app in H. tauto. Qed.

  Lemma sumw_trim_le l : wok l -> sumw (trim l) <= sumw l.
  Proof.
    intros H. rewrite (trim_skipn l) at 2. rewrite sumw_app.
    rewrite (trim_skipn l) in H. apply wok_app in H. pose proof (sumw_nonneg _ (proj2 H)). lia.
  Qed.

  Lemma nonspace_app a b : nonspace is_space (a ++ b) = nonspace is_space a ++ nonspace is_space b.
  Proof. unfold nonspace. apply filter_app. Qed.

  Lemma nonspace_all_space l : Forall (fun c => is_space c = true) l -> nonspace is_space l = [].
  Proof. induction 1 as [|c l Hc Hl IH]; [reflexivity|]. cbn. rewrite Hc. cbn. exact IH. Qed.

  Lemma nonspace_trim l : nonspace is_space (trim l) = nonspace is_space l.
  Proof.
    rewrite (trim_skipn l) at 2. rewrite nonspace_app, (nonspace_all_space _ (trim_skipn_space l)).
    now rewrite app_nil_r.
  Qed.
End Trim.

(* the long-word loop *)
Lemma split_long_full W word token over : forall w, W <= w ->
  split_long W word w token over = (token, over ++ word).
Proof.
  revert over. induction word as [|c t IH]; intros over w Hw; cbn [split_long].
  - now rewrite app_nil_r.
  - replace (W <=? w) with true by lia. cbn [orb]. rewrite IH by lia. now rewrite <- app_assoc.
Qed.

Lemma split_long_spec W : 0 < W < 65536 -> forall word w token over tok' over',
  wok word -> w = sumw token -> 0 <= w -> w + sumw word < 65536 ->
  (w <= W \/ (length token <= 1)%nat) ->
  split_long W word w token over = (tok', over') ->
  exists taken left, word = taken ++ left /\ tok' = token ++ taken /\ over' = over ++ left /\
    (sumw tok' <= W \/ (length tok' <= 1)%nat) /\
    (token = [] -> word <> [] -> taken <> []).
Proof.
  intros HW. induction word as [|c t IH]; intros w token over tok' over' Hwok Hw H0 Hs Hfit H.
  - cbn in H. injection H as <- <-. exists [], []. rewrite !app_nil_r.
    split; [reflexivity|]. split; [reflexivity|]. split; [reflexivity|]. split.
    + subst w. tauto.
    + intros _ Hc. congruence.
  - cbn [split_long] in H. inversion Hwok as [|? ? Hc Ht]; subst.
    rewrite sumw_cons in Hs. pose proof (sumw_nonneg t Ht) as Hnt.
    assert (Hcw : cw c = c_width c) by (unfold cw; apply u16_id; lia).
    rewrite Hcw, (u16_id (sumw token + c_width c)) in H by lia.
    destruct ((W <=? sumw token) || (negb (is_nil token) && (W <? sumw token + c_width c))) eqn:E.
    + rewrite split_long_full in H by lia. rewrite <- app_assoc in H. cbn [app] in H. injection H as <- <-.
      exists [], (c :: t). rewrite app_nil_r.
      split; [reflexivity|]. split; [reflexivity|]. split; [reflexivity|]. split.
      * destruct Hfit; auto.
      * intros -> _. cbn in E. lia.
    + apply IH in H; auto.
      * destruct H as [taken [left [H1 [H2 [H3 [H4 H5]]]]]].
        exists (c :: taken), left. rewrite H1, H2, H3, <- app_assoc. cbn [app].
        split; [reflexivity|]. split; [reflexivity|]. split; [reflexivity|]. split.
        -- rewrite H2, <- app_assoc in H4. exact H4.
        -- intros _ _. discriminate.
      * rewrite sumw_app, sumw_cons, sumw_nil. lia.
      * lia.
      * lia.
      * destruct token as [|x tk]; [right; cbn; lia|]. left.
        cbn [is_nil negb andb] in E. lia.
Qed.

Section Generic.
  Variable St : Type.
  Variable segf : St -> list cell -> option (nat * bool * St).
  Variable reset : St -> St.
  Variables is_space hasbreak : cell -> bool.
  Variable residue : cell -> list cell.

  Notation trim := (trim_right is_space).
  Notation sloop := (scan_loop St segf reset is_space hasbreak residue).
  Notation sscan := (scan St segf reset is_space hasbreak residue).
  Notation sall := (scan_all St segf reset is_space hasbreak residue).
  Notation srun := (run St segf reset is_space hasbreak residue).

  (* the structural contract of the segment oracle *)
  Definition seg_ok : Prop := forall st rest n br st', rest <> [] -> segf st rest = Some (n, br, st') ->
     (0 < n <= length rest)%nat /\ (n = length rest -> br = true).
  Hypothesis Hseg : seg_ok.

  Lemma skipn_nonnil {A} n (l : list A) : (n < length l)%nat -> skipn n l <> [].
  Proof. intros H E. apply (f_equal (@length A)) in E. rewrite skipn_length in E. cbn in E. lia. Qed.

  Lemma loop_no_hang fuel : forall W rest st w token, rest <> [] -> (length rest < fuel)%nat ->
    sloop fuel W rest st w token <> ScanHang.
  Proof.
    induction fuel as [|fuel IH]; intros W rest st w token Hne Hf; [lia|].
    cbn [scan_loop]. destruct (segf st rest) as [[[n br] st']|] eqn:E; [|discriminate].
    destruct (Hseg _ _ _ _ _ Hne E) as [Hn Hbr].
    destruct (W <? _); [destruct (split_long _ _ _ _ _); discriminate|].
    destruct (W <? _); [discriminate|].
    destruct br; [discriminate|].
    destruct (W <? _); [discriminate|].
    apply IH.
    - apply skipn_nonnil. assert (n <> length rest) by (intros Hc; apply Hbr in Hc; discriminate). lia.
    - rewrite skipn_length. lia.
  Qed.

  Lemma loop_progress fuel : forall W rest st w token tok' rest' st', 0 < W -> rest <> [] ->
    sloop fuel W rest st w token = ScanLine tok' rest' st' ->
    (length rest' <= length rest)%nat /\ (token = [] -> w = 0 -> (length rest' < length rest)%nat).
  Proof.
    induction fuel as [|fuel IH]; intros W rest st w token tok' rest' st' HW Hne H; [discriminate|].
    cbn [scan_loop] in H. destruct (segf st rest) as [[[n br] stn]|] eqn:E; [|discriminate].
    destruct (Hseg _ _ _ _ _ Hne E) as [Hn Hbr].
    set (seg := firstn n rest) in *. set (word := trim seg) in *.
    assert (Hrest : rest = word ++ skipn (length word) seg ++ skipn n rest).
    { rewrite app_assoc. unfold word. rewrite <- trim_skipn. unfold seg. now rewrite firstn_skipn. }
    destruct (W <? u16sum word) eqn:E1.
    - destruct (split_long W word w token []) as [tk ov] eqn:Es. injection H as <- <- <-.
      assert (Hsl : forall wd w token over tk ov, split_long W wd w token over = (tk, ov) ->
                exists taken left, wd = taken ++ left /\ tk = token ++ taken /\ ov = over ++ left /\
                  (token = [] -> w = 0 -> wd <> [] -> taken <> [])).
      { clear - HW. induction wd as [|c t IHt]; intros w token over tk ov Hs; cbn [split_long] in Hs.
        - injection Hs as <- <-. exists [], []. rewrite !app_nil_r. repeat split; auto.
        - destruct ((W <=? w) || _) eqn:Ec.
          + rewrite split_long_full in Hs by lia. rewrite <- app_assoc in Hs. cbn [app] in Hs.
            injection Hs as <- <-. exists [], (c :: t). rewrite app_nil_r. repeat split; auto.
            intros -> -> _. cbn in Ec. lia.
          + apply IHt in Hs. destruct Hs as [taken [left [H1 [H2 [H3 _]]]]].
            exists (c :: taken), left. subst. rewrite <- app_assoc. repeat split; auto. discriminate. }
      destruct (Hsl _ _ _ _ _ _ Es) as [taken [left [H1 [H2 [H3 H4]]]]].
      cbn [app] in H3. subst ov.
      assert (Hlen : length rest = (length taken + length (left ++ skipn (length word) seg ++ skipn n rest))%nat).
      { rewrite Hrest at 1. rewrite H1, <- app_assoc, app_length. reflexivity. }
      split; [lia|]. intros Ht Hw0.
      assert (taken <> []).
      { apply H4; auto. intros Hc. rewrite Hc, u16sum_nil in E1. lia. }
      destruct taken; [congruence|cbn in Hlen; lia].
    - destruct (W <? u16 (w + u16sum word)) eqn:E2.
      + injection H as <- <- <-. split; [lia|]. intros _ ->.
        pose proof (u16sum_range word). rewrite Z.add_0_l, u16_id in E2 by lia. lia.
      + assert (Hsk : (length (skipn n rest) < length rest)%nat) by (rewrite skipn_length; lia).
        destruct br.
        * injection H as <- <- <-. lia.
        * destruct (W <? u16 (u16 (w + u16sum word) + u16sum (skipn (length word) seg))) eqn:E3.
          -- injection H as <- <- <-. lia.
          -- apply IH in H; auto.
             ++ lia.
             ++ apply skipn_nonnil. assert (n <> length rest) by (intros Hc; apply Hbr in Hc; discriminate). lia.
  Qed.

  Lemma scan_shrinks W rest st tok rest' st' : 0 <= W ->
    sscan W rest st = ScanLine tok rest' st' -> (length rest' < length rest)%nat.
  Proof.
    intros HW. unfold scan. destruct rest as [|c r]; [discriminate|]. cbn [is_nil orb].
    destruct (W =? 0) eqn:E; [discriminate|]. intros H.
    apply loop_progress in H; [|lia|discriminate]. apply H; reflexivity.
  Qed.

  Lemma scan_no_hang W rest st : sscan W rest st <> ScanHang.
  Proof.
    unfold scan. destruct (is_nil rest || (W =? 0)) eqn:E; [discriminate|].
    apply loop_no_hang; [destruct rest; [discriminate|discriminate]|lia].
  Qed.

  Lemma scan_all_no_hang W : 0 <= W -> forall fuel rest st, (length rest < fuel)%nat ->
    snd (sall fuel W rest st) <> Hang.
  Proof.
    intros HW. induction fuel as [|fuel IH]; intros rest st Hf; [lia|].
    cbn [scan_all]. destruct (sscan W rest st) as [tok rest' st'| | |] eqn:E; try discriminate.
    - apply scan_shrinks in E; auto. specialize (IH rest' st' ltac:(lia)).
      destruct (sall fuel W rest' st') as [ls o]. exact IH.
    - exfalso. exact (scan_no_hang _ _ _ E).
  Qed.

  (* ---------- explanation of one Scan ---------- *)

  Inductive chain (W : Z) : St -> list cell -> Z -> St -> list cell -> list cell -> Prop :=
  | chain_nil st rest w : chain W st rest w st [] rest
  | chain_cons st rest w n st1 stq pre restq :
      rest <> [] ->
      segf st rest = Some (n, false, st1) ->
      sumw (trim (firstn n rest)) <= W ->
      w + sumw (firstn n rest) <= W ->
      chain W st1 (skipn n rest) (w + sumw (firstn n rest)) stq pre restq ->
      chain W st rest w stq (firstn n rest ++ pre) restq.

  Inductive final (W : Z) (stq : St) (restq : list cell) (wq : Z) (tokq : list cell)
    : list cell -> list cell -> St -> Prop :=
  | fin_long n br stn tok' over :
      segf stq restq = Some (n, br, stn) ->
      W < sumw (trim (firstn n restq)) ->
      split_long W (trim (firstn n restq)) wq tokq [] = (tok', over) ->
      final W stq restq wq tokq tok'
            (over ++ skipn (length (trim (firstn n restq))) (firstn n restq) ++ skipn n restq) (reset stq)
  | fin_nofit n br stn :
      segf stq restq = Some (n, br, stn) ->
      sumw (trim (firstn n restq)) <= W ->
      W < wq + sumw (trim (firstn n restq)) ->
      final W stq restq wq tokq tokq restq stq
  | fin_brk n stn :
      segf stq restq = Some (n, true, stn) ->
      sumw (trim (firstn n restq)) <= W ->
      wq + sumw (trim (firstn n restq)) <= W ->
      final W stq restq wq tokq (tokq ++ strip hasbreak residue (firstn n restq)) (skipn n restq) stn
  | fin_space n stn :
      segf stq restq = Some (n, false, stn) ->
      sumw (trim (firstn n restq)) <= W ->
      wq + sumw (trim (firstn n restq)) <= W ->
      W < wq + sumw (firstn n restq) ->
      final W stq restq wq tokq (tokq ++ trim (firstn n restq)) (skipn n restq) stn.

  Lemma chain_snoc W st rest w stq pre restq n st1 :
    chain W st rest w stq pre restq -> restq <> [] ->
    segf stq restq = Some (n, false, st1) ->
    sumw (trim (firstn n restq)) <= W ->
    w + sumw pre + sumw (firstn n restq) <= W ->
    chain W st rest w st1 (pre ++ firstn n restq) (skipn n restq).
  Proof.
    induction 1 as [st rest w | st rest w n0 st0 stq pre restq Hne Hs Hw1 Hw2 Hc IH]; intros Hne' Hs' Hw1' Hw2'.
    - cbn [app]. rewrite <- (app_nil_r (firstn n rest)). cbn in Hw2'.
      eapply chain_cons; eauto; [lia|]. constructor.
    - rewrite <- app_assoc. eapply chain_cons; eauto. apply IH; auto.
      rewrite sumw_app in Hw2'. lia.
  Qed.

  Lemma loop_explained fuel : forall W rest st w token tok' rest' st',
    0 <= W < 65536 -> rest <> [] -> wok rest -> 0 <= w -> w + sumw rest < 65536 ->
    sloop fuel W rest st w token = ScanLine tok' rest' st' ->
    exists stq pre restq, chain W st rest w stq pre restq /\ restq <> [] /\
      final W stq restq (w + sumw pre) (token ++ pre) tok' rest' st'.
  Proof.
    induction fuel as [|fuel IH]; intros W rest st w token tok' rest' st' HW Hne Hwok Hw0 Hov H; [discriminate|].
    cbn [scan_loop] in H. destruct (segf st rest) as [[[n br] stn]|] eqn:E; [|discriminate].
    destruct (Hseg _ _ _ _ _ Hne E) as [Hn Hbr].
    set (seg := firstn n rest) in *. set (word := trim seg) in *.
    set (trsp := skipn (length word) seg) in *.
    assert (Hseg_eq : seg = word ++ trsp) by (apply trim_skipn).
    assert (Hwseg : wok seg) by (apply wok_firstn; auto).
    assert (Hwsk : wok (skipn n rest)) by (apply wok_skipn; auto).
    assert (Hwword : wok word) by (apply wok_trim; auto).
    assert (Hwtr : wok trsp) by (rewrite Hseg_eq in Hwseg; apply wok_app in Hwseg; tauto).
    pose proof (firstn_skipn_sumw n rest) as Hsum. fold seg in Hsum.
    assert (Hsegsum : sumw seg = sumw word + sumw trsp) by (rewrite Hseg_eq at 1; apply sumw_app).
    pose proof (sumw_nonneg _ Hwword) as Hn1. pose proof (sumw_nonneg _ Hwtr) as Hn2.
    pose proof (sumw_nonneg _ Hwsk) as Hn3.
    rewrite (u16sum_eq word) in H by (auto; lia).
    rewrite (u16sum_eq trsp) in H by (auto; lia).
    rewrite (u16_id (w + sumw word)) in H by lia.
    rewrite (u16_id (w + sumw word + sumw trsp)) in H by lia.
    destruct (W <? sumw word) eqn:E1.
    - destruct (split_long W word w token []) as [tk ov] eqn:Es. injection H as <- <- <-.
      exists st, [], rest. split; [constructor|]. split; [auto|].
      rewrite sumw_nil, Z.add_0_r, app_nil_r.
      eapply fin_long; eauto. fold seg word. lia.
    - destruct (W <? w + sumw word) eqn:E2.
      + injection H as <- <- <-. exists st, [], rest. split; [constructor|]. split; [auto|].
        rewrite sumw_nil, Z.add_0_r, app_nil_r. eapply fin_nofit; eauto; fold seg word; lia.
      + destruct br.
        * injection H as <- <- <-. exists st, [], rest. split; [constructor|]. split; [auto|].
          rewrite sumw_nil, Z.add_0_r, app_nil_r. eapply fin_brk; eauto; fold seg word; lia.
        * destruct (W <? w + sumw word + sumw trsp) eqn:E3.
          -- injection H as <- <- <-. exists st, [], rest. split; [constructor|]. split; [auto|].
             rewrite sumw_nil, Z.add_0_r, app_nil_r. eapply fin_space; eauto; fold seg word; lia.
          -- assert (Hne' : skipn n rest <> []).
             { apply skipn_nonnil. assert (n <> length rest) by (intros Hc; apply Hbr in Hc; discriminate). lia. }
             apply IH in H; auto; try lia.
             destruct H as [stq [pre [restq [Hc [Hq Hf]]]]].
             exists stq, (seg ++ pre), restq. split; [|split; [auto|]].
             ++ eapply chain_cons; eauto; fold seg; fold word; try lia.
                replace (w + sumw seg) with (w + sumw word + sumw trsp) by lia. exact Hc.
             ++ rewrite sumw_app.
                assert (Heq : ((token ++ word) ++ trsp) ++ pre = token ++ seg ++ pre).
                { rewrite Hseg_eq, <- !app_assoc. reflexivity. }
                rewrite Heq in Hf.
                replace (w + (sumw seg + sumw pre)) with (w + sumw word + sumw trsp + sumw pre) by lia.
                exact Hf.
  Qed.
End Generic.

(* ---------- text.go instance ---------- *)
Definition orc_end_ok (N : nat) (orc : Z -> Z -> option (Z * bool * Z)) : Prop :=
  forall i st n br st', orc i st = Some (n, br, st') -> Z.of_nat N <= i + n -> br = true.

Lemma plain_seg_ok N orc : orc_end_ok N orc -> seg_ok Z (plain_segf N orc).
Proof.
  intros Hend st rest n br st' Hne H. unfold plain_segf in H.
  destruct rest as [|c r]; [congruence|]. set (rest := c :: r) in *.
  destruct (orc (Z.of_nat (N - length rest)) st) as [[[m b] s]|] eqn:E; [|discriminate].
  destruct ((0 <? m) && (m <=? zlen rest)) eqn:Ev; [|discriminate].
  injection H as <- <- <-. unfold zlen in Ev. split; [lia|].
  intros Hn. eapply Hend; eauto. lia.
Qed.

(* ---------- richtext.go instance ---------- *)
Lemma fls_go_eq hasbreak pairbrk first i c nx t :
  fls_go hasbreak pairbrk first i (c :: nx :: t) =
  if first && hasbreak c then Some (S i, true)
  else if hasbreak nx then Some (S (S i), true)
  else match pairbrk c nx with
       | None => None
       | Some true => Some (S i, false)
       | Some false => fls_go hasbreak pairbrk false (S i) (nx :: t)
       end.
Proof. reflexivity. Qed.

Lemma fls_go_ok hasbreak pairbrk : forall cells first i n br,
  cells <> [] -> fls_go hasbreak pairbrk first i cells = Some (n, br) ->
  (i < n <= i + length cells)%nat /\ (n = (i + length cells)%nat -> br = true).
Proof.
  induction cells as [|c t IH]; intros first i n br Hne H; [congruence|].
  destruct t as [|nx t'].
  - cbn in H. injection H as <- <-. cbn [length]. split; [lia|auto].
  - rewrite fls_go_eq in H.
    destruct (first && hasbreak c).
    { injection H as <- <-. cbn [length]. split; [lia|auto]. }
    destruct (hasbreak nx).
    { injection H as <- <-. cbn [length]. split; [lia|auto]. }
    destruct (pairbrk c nx) as [[|]|]; [| |discriminate].
    + injection H as <- <-. cbn [length]. split; [lia|]. intros; lia.
    + apply IH in H; [|discriminate]. cbn [length] in *. split; [lia|]. intros Hn. apply H. lia.
Qed.

Lemma rich_seg_ok hasbreak pairbrk : seg_ok unit (rich_segf hasbreak pairbrk).
Proof.
  intros st rest n br st' Hne H. unfold rich_segf, first_line_segment in H.
  destruct (fls_go hasbreak pairbrk true 0 rest) as [[m b]|] eqn:E; [|discriminate].
  injection H as <- <- <-. apply fls_go_ok in E; auto.
Qed.

Theorem plain_terminates N orc is_space hasbreak residue W input :
  orc_end_ok N orc -> 0 <= W ->
  snd (run Z (plain_segf N orc) plain_reset is_space hasbreak residue W input (-1)) <> Hang.
Proof. intros H HW. apply scan_all_no_hang; auto. apply plain_seg_ok; auto. Qed.

Theorem rich_terminates pairbrk is_space hasbreak residue W input : 0 <= W ->
  snd (run unit (rich_segf hasbreak pairbrk) (fun s => s) is_space hasbreak residue W input tt) <> Hang.
Proof. intros HW. apply scan_all_no_hang; auto. apply rich_seg_ok. Qed.
