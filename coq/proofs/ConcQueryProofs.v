(* C10, Part D — proofs over model/ConcQuery.v (the query / reply hand-off).
   Invariants of the LTS (channel structure, shape of the querier and handler programs, accounting of
   replies, written = received + pending, the request flag), then the theorems stated in props/C10.v. *)
From Vx Require Import base.Prelude gen.GenAccess model.ConcQuery.
Local Open Scope nat_scope.

Ltac inv H := inversion H; subst; clear H.


(* ---------- generic ---------- *)
Lemma kind_eqb_refl : forall k, kind_eqb k k = true.
Proof. destruct k; reflexivity. Qed.
Lemma kind_eqb_eq : forall a b, kind_eqb a b = true <-> a = b.
Proof. destruct a, b; simpl; split; intro H; try reflexivity; try discriminate. Qed.
Lemma kind_eqb_neq : forall a b, kind_eqb a b = false <-> a <> b.
Proof. destruct a, b; simpl; split; intro H; try reflexivity; try discriminate; try congruence. Qed.
Lemma kupd_same : forall A (f : kind -> A) k v, kupd f k v k = v.
Proof. intros; unfold kupd; rewrite kind_eqb_refl; reflexivity. Qed.
Lemma kupd_other : forall A (f : kind -> A) k v k', k' <> k -> kupd f k v k' = f k'.
Proof. intros A f k v k' H; unfold kupd. apply kind_eqb_neq in H. rewrite H. reflexivity. Qed.

Lemma qrun_app : forall c a b s,
  qrun c (a ++ b) s = match qrun c a s with Some s' => qrun c b s' | None => None end.
Proof.
  induction a as [|l a IH]; intros b s; simpl; [reflexivity|].
  destruct (qstep c l s); [apply IH|reflexivity].
Qed.

Lemma qreach_ind : forall c n (P : qstate -> Prop),
  P (qinit n) ->
  (forall s l s', qreach c n s -> P s -> qstep c l s = Some s' -> P s') ->
  forall s, qreach c n s -> P s.
Proof.
  intros c n P H0 Hstep s [tr Htr]. revert s Htr.
  induction tr as [|l tr IH] using rev_ind; intros s Htr.
  - simpl in Htr. inversion Htr; subst; exact H0.
  - rewrite qrun_app in Htr. destruct (qrun c tr (qinit n)) as [s1|] eqn:E1; [|discriminate].
    simpl in Htr. destruct (qstep c l s1) as [s2|] eqn:E2; [|discriminate]. inversion Htr; subst.
    eapply Hstep; [exists tr; exact E1 | apply IH; reflexivity | exact E2].
Qed.

Lemma qreach_step : forall c n s l s', qreach c n s -> qstep c l s = Some s' -> qreach c n s'.
Proof.
  intros c n s l s' [tr Htr] Hs. exists (tr ++ [l]). rewrite qrun_app, Htr. simpl. rewrite Hs. reflexivity.
Qed.
Lemma qreach_run : forall c n tr s s', qreach c n s -> qrun c tr s = Some s' -> qreach c n s'.
Proof.
  intros c n tr s s' [t0 H0] Hr. exists (t0 ++ tr). rewrite qrun_app, H0. exact Hr.
Qed.

(* upd_nat / nth *)
Lemma nth_upd_same : forall A (l : list A) g x d, g < length l -> nth g (upd_nat l g x) d = x.
Proof. induction l as [|h t IH]; intros g x d H; simpl in *; [lia|]. destruct g; simpl; [reflexivity|]. apply IH; lia. Qed.
Lemma nth_upd_other : forall A (l : list A) g g' x d, g' <> g -> nth g' (upd_nat l g x) d = nth g' l d.
Proof.
  induction l as [|h t IH]; intros g g' x d H; simpl; [reflexivity|].
  destruct g; simpl; destruct g'; simpl; try reflexivity; try congruence. apply IH; congruence.
Qed.
Lemma length_upd_nat : forall A (l : list A) g x, length (upd_nat l g x) = length l.
Proof. induction l; intros; simpl; [reflexivity|]. destruct g; simpl; auto. Qed.
Lemma upd_nat_ge : forall A (l : list A) g x, length l <= g -> upd_nat l g x = l.
Proof. induction l; intros; simpl in *; [reflexivity|]. destruct g; [lia|]. f_equal. apply IHl. lia. Qed.

Lemma qget_lt : forall s g, qget s g <> QIdle -> g < length (qp s).
Proof.
  intros s g H. unfold qget in H. destruct (Nat.lt_ge_cases g (length (qp s))) as [L|L]; [exact L|].
  rewrite nth_overflow in H by exact L. congruence.
Qed.

Lemma qget_set_q_same : forall s g p, g < length (qp s) -> qget (set_qpc s g p) g = p.
Proof. intros. unfold qget, set_qpc. simpl. apply nth_upd_same. assumption. Qed.
Lemma qget_set_q_other : forall s g g' p, g' <> g -> qget (set_qpc s g p) g' = qget s g'.
Proof. intros. unfold qget, set_qpc. simpl. apply nth_upd_other. assumption. Qed.

(* counting with filter over upd_nat *)
Lemma filter_upd_count : forall A (P : A -> bool) (l : list A) g x d, g < length l ->
  length (filter P (upd_nat l g x)) + (if P (nth g l d) then 1 else 0) = length (filter P l) + (if P x then 1 else 0).
Proof.
  induction l as [|h t IH]; intros g x d H; simpl in *; [lia|].
  destruct g; simpl.
  - destruct (P h), (P x); simpl; lia.
  - specialize (IH g x d ltac:(lia)). destruct (P h); simpl; lia.
Qed.

Lemma nth_upd_live : forall A (l : list A) g g' x d, g < length l ->
  nth g' (upd_nat l g x) d = if Nat.eqb g' g then x else nth g' l d.
Proof.
  intros A l g g' x d H. destruct (Nat.eqb_spec g' g) as [E|N]; [subst; apply nth_upd_same; exact H|apply nth_upd_other; exact N].
Qed.



Lemma qget_set_q : forall s g p g',
  qget (set_qpc s g p) g' = if Nat.eqb g' g && Nat.ltb g (length (qp s)) then p else qget s g'.
Proof.
  intros s g p g'. destruct (Nat.eqb_spec g' g) as [->|N]; simpl.
  - destruct (Nat.ltb_spec g (length (qp s))) as [L|L].
    + apply qget_set_q_same; exact L.
    + unfold qget, set_qpc; simpl. rewrite upd_nat_ge by exact L. reflexivity.
  - apply qget_set_q_other; exact N.
Qed.

Lemma qget_set_q_live : forall s g p g', qget s g <> QIdle ->
  qget (set_qpc s g p) g' = if Nat.eqb g' g then p else qget s g'.
Proof.
  intros s g p g' H. rewrite qget_set_q. apply qget_lt in H. apply Nat.ltb_lt in H. rewrite H, Bool.andb_true_r. reflexivity.
Qed.

(* ---------- remove_nat ---------- *)
Lemma remove_nat_in : forall g l x, In x (remove_nat g l) -> In x l.
Proof.
  induction l as [|h t IH]; simpl; intros x H; [exact H|].
  destruct (Nat.eqb h g); [right; exact H|]. destruct H as [H|H]; [left; exact H|right; apply IH; exact H].
Qed.
Lemma remove_nat_nodup : forall g l, NoDup l -> NoDup (remove_nat g l) /\ ~ In g (remove_nat g l).
Proof.
  induction l as [|h t IH]; simpl; intros H; [split; [constructor|tauto]|].
  inv H. destruct (Nat.eqb_spec h g) as [->|N]; [split; assumption|].
  destruct (IH H3) as [A B]. split.
  - constructor; [intro X; apply H2; eapply remove_nat_in; exact X|exact A].
  - simpl. intros [X|X]; [congruence|tauto].
Qed.
Lemma remove_nat_keep : forall g l x, x <> g -> In x l -> In x (remove_nat g l).
Proof.
  induction l as [|h t IH]; simpl; intros x N H; [exact H|].
  destruct (Nat.eqb_spec h g) as [->|N']; destruct H as [H|H]; subst; try tauto; simpl; auto.
Qed.

(* ---------- the channel invariant ---------- *)
Record chan_inv (c : qcfg) (s : qstate) : Prop := mkCI {
  ci_len : forall k, length (buf s k) <= cap c k;
  ci_wait : forall k, wait s k <> [] -> buf s k = [] /\ offer_of k (hp s) = [];
  ci_offer : forall k v r, hp s = HOffer k v r -> length (buf s k) = cap c k /\ k_snd (q_k c k) <> SNonblock;
  ci_w1 : forall k g, In g (wait s k) -> qget s g = QParked k;
  ci_w2 : forall k g, qget s g = QParked k -> In g (wait s k);
  ci_w3 : forall k, NoDup (wait s k)
}.

Lemma chan_inv_init : forall c n, chan_inv c (qinit n).
Proof.
  intros c n. constructor; simpl; intros; try lia; try tauto; try discriminate; try constructor.
  unfold qget in H; simpl in H. destruct (nth_in_or_default g (repeat QIdle n) QIdle) as [X|X].
  - apply repeat_spec in X. congruence.
  - congruence.
Qed.

(* a querier that is not parked changes its pc; nothing else changes *)
Lemma chan_inv_set_q : forall c s g p,
  chan_inv c s -> (forall k, qget s g <> QParked k) -> (forall k, p <> QParked k) ->
  chan_inv c (set_qpc s g p).
Proof.
  intros c s g p I Hg Hp. destruct I as [A B C D E F].
  constructor; simpl; auto.
  - intros k g' H. rewrite qget_set_q. destruct (Nat.eqb_spec g' g) as [->|N]; simpl; [|apply D; exact H].
    exfalso. apply (Hg k). apply D. exact H.
  - intros k g' H. rewrite qget_set_q in H. destruct (Nat.eqb g' g && Nat.ltb g (length (qp s))); [exfalso; eapply Hp; exact H|apply E; exact H].
Qed.

Lemma chan_inv_flag : forall c s b, chan_inv c s -> chan_inv c (set_flag s b).
Proof. intros c s b [A B C D E F]. constructor; simpl; auto. Qed.
Lemma chan_inv_nwr : forall c s v, chan_inv c s -> chan_inv c (set_nwr s v).
Proof. intros c s b [A B C D E F]. constructor; simpl; auto. Qed.
Lemma chan_inv_rets : forall c s v, chan_inv c s -> chan_inv c (set_rets s v).
Proof. intros c s b [A B C D E F]. constructor; simpl; auto. Qed.
Lemma chan_inv_inq : forall c s v, chan_inv c s -> chan_inv c (set_inq s v).
Proof. intros c s b [A B C D E F]. constructor; simpl; auto. Qed.
Lemma chan_inv_out : forall c s v, chan_inv c s -> chan_inv c (set_out s v).
Proof. intros c s b [A B C D E F]. constructor; simpl; auto. Qed.
Lemma chan_inv_consumed : forall c s v, chan_inv c s -> chan_inv c (set_consumed s v).
Proof. intros c s b [A B C D E F]. constructor; simpl; auto. Qed.
Lemma chan_inv_handled : forall c s v, chan_inv c s -> chan_inv c (set_handled s v).
Proof. intros c s b [A B C D E F]. constructor; simpl; auto. Qed.
Lemma chan_inv_dropped : forall c s v, chan_inv c s -> chan_inv c (set_dropped s v).
Proof. intros c s b [A B C D E F]. constructor; simpl; auto. Qed.
(* the handler moves between non-blocked states *)
Lemma chan_inv_hrun : forall c s l, chan_inv c s -> chan_inv c (set_hp s (HRun l)).
Proof.
  intros c s l [A B C D E F]. constructor; simpl; auto.
  - intros k H. destruct (B k H) as [X _]. split; [exact X|reflexivity].
  - intros; discriminate.
Qed.

Lemma offer_of_other : forall k k' v r, k' <> k -> offer_of k' (HOffer k v r) = [].
Proof. intros k k' v r H. simpl. apply kind_eqb_neq in H. destruct (kind_eqb k k') eqn:E; [|reflexivity]. apply kind_eqb_eq in E. apply kind_eqb_neq in H. congruence. Qed.

Lemma nodup_snoc : forall (l : list nat) g, NoDup l -> ~ In g l -> NoDup (l ++ [g]).
Proof.
  induction l as [|h t IH]; simpl; intros g H N; [constructor; [tauto|constructor]|].
  inv H. constructor.
  - intro X. apply in_app_or in X. destruct X as [X|[X|[]]]; [tauto|subst; tauto].
  - apply IH; [assumption|tauto].
Qed.

Lemma chan_inv_park : forall c s g k ops,
  chan_inv c s -> qget s g = QRun k ops -> buf s k = [] -> offer_of k (hp s) = [] ->
  chan_inv c (set_qpc (set_wait s (kupd (wait s) k (wait s k ++ [g]))) g (QParked k)).
Proof.
  intros c s g k ops I Hg Eb Eo. assert (Hlive : qget s g <> QIdle) by congruence.
  assert (Hnp : forall k0, qget s g <> QParked k0) by (intros; congruence).
  destruct I as [A B C D E F]. constructor; simpl; auto.
  - intros k0 H. unfold kupd in H. destruct (kind_eqb k0 k) eqn:E0.
    + apply kind_eqb_eq in E0; subst. split; assumption.
    + apply B; exact H.
  - intros k0 g' H. rewrite qget_set_q_live by exact Hlive. unfold kupd in H. destruct (kind_eqb k0 k) eqn:E0.
    + apply kind_eqb_eq in E0; subst. apply in_app_or in H. destruct H as [H|[H|[]]].
      * destruct (Nat.eqb_spec g' g); [reflexivity|apply D; exact H].
      * subst. rewrite Nat.eqb_refl. reflexivity.
    + destruct (Nat.eqb_spec g' g) as [Heq|]; [subst g'|]; [exfalso; apply (Hnp k0); apply D; exact H|apply D; exact H].
  - intros k0 g' H. rewrite qget_set_q_live in H by exact Hlive. unfold kupd.
    destruct (Nat.eqb_spec g' g) as [Heq|N]; [subst g'|].
    + inv H. rewrite kind_eqb_refl. apply in_or_app; right; left; reflexivity.
    + destruct (kind_eqb k0 k) eqn:E0; [apply kind_eqb_eq in E0; subst; apply in_or_app; left; apply E; exact H|apply E; exact H].
  - intros k0. unfold kupd. destruct (kind_eqb k0 k) eqn:E0; [|apply F].
    apply kind_eqb_eq in E0; subst. apply nodup_snoc; [apply F|intro X; apply (Hnp k); apply D; exact X].
Qed.

Lemma chan_inv_receive : forall c s g k ops,
  chan_inv c s -> qget s g = QRun k ops -> chan_inv c (receive c g k s).
Proof.
  intros c s g k ops I Hg. assert (Hlive : qget s g <> QIdle) by congruence.
  assert (Hnp : forall k0, qget s g <> QParked k0) by (intros; congruence).
  unfold receive. destruct (buf s k) as [|v b'] eqn:Eb.
  - (* empty buffer *)
    destruct (hp s) as [l|k' v' rest] eqn:Eh.
    + eapply chan_inv_park; eauto. rewrite Eh. reflexivity.
    + destruct (kind_eqb k' k) eqn:Ek.
      * apply kind_eqb_eq in Ek; subst k'.
        apply chan_inv_set_q; [|simpl; exact Hnp|intros; discriminate].
        apply chan_inv_rets. apply chan_inv_hrun. exact I.
      * eapply chan_inv_park; eauto. rewrite Eh. simpl. rewrite Ek. reflexivity.
  - (* a buffered value *)
    assert (Hw : wait s k = []).
    { destruct (wait s k) eqn:Ew; [reflexivity|]. destruct (ci_wait _ _ I k) as [X _]; [rewrite Ew; discriminate|]. rewrite Eb in X. discriminate. }
    destruct (hp s) as [l|k' v' rest] eqn:Eh.
    2: destruct (kind_eqb k' k) eqn:Ek.
    + (* no offer *)
      apply chan_inv_set_q; [|simpl; exact Hnp|intros; discriminate]. apply chan_inv_rets.
      destruct I as [A B C D E F]. constructor; simpl; auto.
      * intros k0. unfold kupd. destruct (kind_eqb k0 k) eqn:E0; [|apply A]. apply kind_eqb_eq in E0; subst. specialize (A k). rewrite Eb in A. simpl in A. lia.
      * intros k0 H. unfold kupd. destruct (kind_eqb k0 k) eqn:E0; [apply kind_eqb_eq in E0; subst; congruence|]. destruct (B k0 H) as [X Y]. rewrite Eh in Y. auto.
      * intros k0 v0 r0 H. rewrite Eh in H. discriminate.
    + (* blocked sender on the same channel moves in *)
      apply kind_eqb_eq in Ek; subst k'.
      apply chan_inv_set_q; [|simpl; exact Hnp|intros; discriminate]. apply chan_inv_rets.
      apply chan_inv_hrun.
      destruct I as [A B C D E F]. constructor; simpl; auto.
      * intros k0. unfold kupd. destruct (kind_eqb k0 k) eqn:E0; [|apply A]. apply kind_eqb_eq in E0; subst. specialize (A k). rewrite Eb in A. simpl in A. rewrite app_length. simpl. lia.
      * intros k0 H. unfold kupd. destruct (kind_eqb k0 k) eqn:E0; [apply kind_eqb_eq in E0; subst; congruence|]. apply B; exact H.
      * intros k0 v0 r0 H. rewrite Eh in H. inv H. unfold kupd. rewrite kind_eqb_refl. destruct (C k0 v0 r0 Eh) as [X Y]. split; [|exact Y]. rewrite Eb in X. simpl in X. rewrite app_length. simpl. lia.
    + (* an offer on another channel *)
      apply chan_inv_set_q; [|simpl; exact Hnp|intros; discriminate]. apply chan_inv_rets.
      destruct I as [A B C D E F]. constructor; simpl; auto.
      * intros k0. unfold kupd. destruct (kind_eqb k0 k) eqn:E0; [|apply A]. apply kind_eqb_eq in E0; subst. specialize (A k). rewrite Eb in A. simpl in A. lia.
      * intros k0 H. unfold kupd. destruct (kind_eqb k0 k) eqn:E0; [apply kind_eqb_eq in E0; subst; congruence|]. destruct (B k0 H) as [X Y]. rewrite Eh in Y. auto.
      * intros k0 v0 r0 H. rewrite Eh in H. inv H. unfold kupd. destruct (kind_eqb k0 k) eqn:E0; [congruence|]. eapply C. exact Eh.
Qed.


Lemma chan_inv_send : forall c s k v r,
  chan_inv c s -> (exists l, hp s = HRun l) -> chan_inv c (send c k v r s).
Proof.
  intros c s k v r I [l0 Eh]. unfold send.
  destruct (wait s k) as [|g w] eqn:Ew.
  - destruct (Nat.ltb_spec (length (buf s k)) (cap c k)) as [L|L].
    + (* buffered *)
      apply chan_inv_hrun. destruct I as [A B C D E F]. constructor; simpl; auto.
      * intros k0. unfold kupd. destruct (kind_eqb k0 k) eqn:E0; [|apply A]. apply kind_eqb_eq in E0; subst. rewrite app_length. simpl. lia.
      * intros k0 H. unfold kupd. destruct (kind_eqb k0 k) eqn:E0; [apply kind_eqb_eq in E0; subst; congruence|]. apply B; exact H.
      * intros k0 v0 r0 H. rewrite Eh in H. discriminate.
    + destruct (k_snd (q_k c k)) eqn:Em.
      * apply chan_inv_hrun. apply chan_inv_dropped. apply chan_inv_handled. exact I.
      * destruct I as [A B C D E F]. constructor; simpl; auto.
        -- intros k0 H. destruct (B k0 H) as [X Y]. split; [exact X|]. destruct (kind_eqb k k0) eqn:E0; [|reflexivity]. apply kind_eqb_eq in E0; subst. congruence.
        -- intros k0 v0 r0 H. inv H. split; [specialize (A k0); unfold cap in *; lia|congruence].
      * destruct I as [A B C D E F]. constructor; simpl; auto.
        -- intros k0 H. destruct (B k0 H) as [X Y]. split; [exact X|]. destruct (kind_eqb k k0) eqn:E0; [|reflexivity]. apply kind_eqb_eq in E0; subst. congruence.
        -- intros k0 v0 r0 H. inv H. split; [specialize (A k0); unfold cap in *; lia|congruence].
      * destruct I as [A B C D E F]. constructor; simpl; auto.
        -- intros k0 H. destruct (B k0 H) as [X Y]. split; [exact X|]. destruct (kind_eqb k k0) eqn:E0; [|reflexivity]. apply kind_eqb_eq in E0; subst. congruence.
        -- intros k0 v0 r0 H. inv H. split; [specialize (A k0); unfold cap in *; lia|congruence].
  - (* hand-off to the first parked receiver *)
    assert (Hg : qget s g = QParked k) by (apply (ci_w1 _ _ I); rewrite Ew; left; reflexivity).
    assert (Hlive : qget s g <> QIdle) by congruence.
    assert (Hnd : ~ In g w /\ NoDup w) by (pose proof (ci_w3 _ _ I k) as X; rewrite Ew in X; inv X; auto).
    destruct Hnd as [Hni Hnd]. pose proof (qget_lt _ _ Hlive) as Hlt.
    destruct I as [A B C D E F]. unfold qget in *. constructor; unfold qget; simpl; auto.
    + intros k0 H. unfold kupd in H. destruct (kind_eqb k0 k) eqn:E0.
      * apply kind_eqb_eq in E0; subst. destruct (B k) as [X _]; [rewrite Ew; discriminate|]. auto.
      * destruct (B k0 H) as [X _]. auto.
    + intros; discriminate.
    + intros k0 g' H. rewrite nth_upd_live by exact Hlt. unfold kupd in H. destruct (kind_eqb k0 k) eqn:E0.
      * apply kind_eqb_eq in E0; subst. destruct (Nat.eqb_spec g' g) as [Heq|N]; [subst; tauto|]. apply D. rewrite Ew. right; exact H.
      * destruct (Nat.eqb_spec g' g) as [Heq|N]; [|apply D; exact H]. subst. apply D in H. rewrite Hg in H. inv H. rewrite kind_eqb_refl in E0. discriminate.
    + intros k0 g' H. rewrite nth_upd_live in H by exact Hlt. destruct (Nat.eqb_spec g' g) as [Heq|N]; [discriminate|].
      apply E in H. unfold kupd. destruct (kind_eqb k0 k) eqn:E0; [|exact H]. apply kind_eqb_eq in E0; subst. rewrite Ew in H. destruct H as [H|H]; [congruence|exact H].
    + intros k0. unfold kupd. destruct (kind_eqb k0 k) eqn:E0; [exact Hnd|apply F].
Qed.

Lemma chan_inv_handle : forall c s x, chan_inv c s -> hp s = HRun [] -> chan_inv c (handle c x s).
Proof.
  intros c s x I Eh. unfold handle, handle_r. destruct x as [k v|two v|k0].
  - destruct (flagged k).
    + destruct (flag s); [apply chan_inv_hrun; apply chan_inv_consumed; exact I|apply chan_inv_out; exact I].
    + apply chan_inv_hrun; exact I.
  - destruct (flag s); [apply chan_inv_hrun; apply chan_inv_consumed; exact I|apply chan_inv_out; exact I].
  - apply chan_inv_out; exact I.
Qed.

Lemma chan_inv_step : forall c s l s', chan_inv c s -> qstep c l s = Some s' -> chan_inv c s'.
Proof.
  intros c s l s' I H. destruct l as [g k|g|g|x| |]; simpl in H.
  - destruct (Nat.ltb g (length (qp s))); [|discriminate].
    destruct (qget s g) as [|k0 ops|k0|k0 ops r] eqn:Eg; try discriminate.
    + inv H. apply chan_inv_set_q; [exact I|intros; congruence|intros; discriminate].
    + destruct ops; [|discriminate]. inv H. apply chan_inv_set_q; [exact I|intros; congruence|intros; discriminate].
  - destruct (qget s g) as [|k0 ops|k0|k0 ops r] eqn:Eg; try discriminate.
    + destruct ops as [|[b| |] ops]; try discriminate; inv H.
      * apply chan_inv_set_q; [apply chan_inv_flag; exact I|simpl; intros; unfold qget in *; simpl; congruence|intros; discriminate].
      * apply chan_inv_set_q; [apply chan_inv_nwr; exact I|simpl; intros; unfold qget in *; simpl; congruence|intros; discriminate].
      * eapply chan_inv_receive; eauto.
    + destruct ops as [|[b| |] ops]; try discriminate; inv H.
      apply chan_inv_set_q; [apply chan_inv_flag; exact I|simpl; intros; unfold qget in *; simpl; congruence|intros; discriminate].
  - destruct (qget s g) as [|k0 ops|k0|k0 ops r] eqn:Eg; try discriminate.
    + destruct ops as [|[b| |] ops]; try discriminate. destruct (k_rcv (q_k c k0)); try discriminate. inv H.
      apply chan_inv_set_q; [exact I|intros; congruence|intros; discriminate].
    + destruct (k_rcv (q_k c k0)); try discriminate. inv H.
      assert (Hlive : qget s g <> QIdle) by congruence.
      pose proof (ci_w3 _ _ I k0) as ND. destruct (remove_nat_nodup g _ ND) as [ND' NI]. pose proof (qget_lt _ _ Hlive) as Hlt.
      destruct I as [A B C D E F]. unfold qget in *. constructor; unfold qget; simpl; auto.
      * intros k H. unfold kupd in H. destruct (kind_eqb k k0) eqn:E0; [|apply B; exact H].
        apply kind_eqb_eq in E0; subst. apply B. intro X. rewrite X in H. simpl in H. congruence.
      * intros k g' H. rewrite nth_upd_live by exact Hlt. unfold kupd in H. destruct (kind_eqb k k0) eqn:E0.
        -- apply kind_eqb_eq in E0; subst. destruct (Nat.eqb_spec g' g) as [Heq|N]; [subst; tauto|]. apply D. eapply remove_nat_in; exact H.
        -- destruct (Nat.eqb_spec g' g) as [Heq|N]; [|apply D; exact H]. subst. apply D in H. rewrite Eg in H. inv H. rewrite kind_eqb_refl in E0. discriminate.
      * intros k g' H. rewrite nth_upd_live in H by exact Hlt. destruct (Nat.eqb_spec g' g) as [Heq|N]; [discriminate|].
        apply E in H. unfold kupd. destruct (kind_eqb k k0) eqn:E0; [|exact H]. apply kind_eqb_eq in E0; subst. apply remove_nat_keep; assumption.
      * intros k. unfold kupd. destruct (kind_eqb k k0) eqn:E0; [exact ND'|apply F].
  - inv H. apply chan_inv_inq. exact I.
  - destruct (hp s) as [[|[b|ok|k v] r]|k v r] eqn:Eh; try discriminate.
    + destruct (inq s) as [|x q]; [discriminate|]. inv H. apply chan_inv_handle; [apply chan_inv_inq; exact I|simpl; exact Eh].
    + inv H. apply chan_inv_hrun. apply chan_inv_flag. exact I.
    + inv H. apply chan_inv_hrun. exact I.
    + inv H. apply chan_inv_send; [exact I|eauto].
  - destruct (hp s) as [|k v r] eqn:Eh; try discriminate. destruct (k_snd (q_k c k)); try discriminate. inv H.
    apply chan_inv_hrun. apply chan_inv_dropped. exact I.
Qed.

Lemma chan_inv_reach : forall c n s, qreach c n s -> chan_inv c s.
Proof.
  intros c n. apply qreach_ind; [apply chan_inv_init|]. intros s l s' _ I H. eapply chan_inv_step; eauto.
Qed.


(* ---------- effect of the two compound operations on the querier table ---------- *)
Lemma receive_qp : forall c g k s,
  exists p, qp (receive c g k s) = upd_nat (qp s) g p /\ (p = QParked k \/ exists v, p = QPost k (qpost c k true) (Some v)).
Proof.
  intros c g k s. unfold receive. destruct (buf s k) as [|v b'].
  - destruct (hp s) as [l|k' v' rest]; [eexists; split; [reflexivity|left; reflexivity]|].
    destruct (kind_eqb k' k); eexists; (split; [reflexivity|]); [right; eauto|left; reflexivity].
  - destruct (hp s) as [l|k' v' rest]; [|destruct (kind_eqb k' k)]; eexists; (split; [reflexivity|right; eauto]).
Qed.

Lemma send_qp : forall c k v r s,
  qp (send c k v r s) = qp s \/
  exists g w, wait s k = g :: w /\ qp (send c k v r s) = upd_nat (qp s) g (QPost k (qpost c k true) (Some v)).
Proof.
  intros c k v r s. unfold send. destruct (wait s k) as [|g w].
  - left. destruct (Nat.ltb (length (buf s k)) (cap c k)); [reflexivity|]. destruct (k_snd (q_k c k)); reflexivity.
  - right. exists g, w. split; reflexivity.
Qed.

Lemma receive_flag : forall c g k s, flag (receive c g k s) = flag s.
Proof.
  intros. unfold receive. destruct (buf s k); destruct (hp s) as [|k' ? ?]; try destruct (kind_eqb k' k); reflexivity.
Qed.
Lemma send_flag : forall c k v r s, flag (send c k v r s) = flag s.
Proof.
  intros. unfold send. destruct (wait s k); [|reflexivity].
  destruct (Nat.ltb (length (buf s k)) (cap c k)); [reflexivity|]. destruct (k_snd (q_k c k)); reflexivity.
Qed.

(* ---------- the shape of querier programs ---------- *)
Definition allowed (k : kind) : list (list qop) :=
  if flagged k then [[OSet true; OWrite; OSelect]; [OWrite; OSelect]; [OSelect]; [OWrite; OSet true; OSelect]; [OSet true; OSelect]]
  else [[OWrite; OSelect]; [OSelect]].

Definition shape_ok (p : qpc) : Prop :=
  match p with
  | QRun k ops => In ops (allowed k)
  | QPost k ops r => ops = [] \/ (ops = [OSet false] /\ flagged k = true)
  | _ => True
  end.
Definition shape_l (l : list qpc) : Prop := forall g, shape_ok (nth g l QIdle).
Definition shape_inv (s : qstate) : Prop := shape_l (qp s).

Lemma shape_upd : forall l g p, shape_l l -> shape_ok p -> shape_l (upd_nat l g p).
Proof.
  intros l g p H Hp g'. destruct (Nat.lt_ge_cases g (length l)) as [L|L].
  - rewrite nth_upd_live by exact L. destruct (Nat.eqb g' g); [exact Hp|apply H].
  - rewrite upd_nat_ge by exact L. apply H.
Qed.

Lemma shape_post : forall c k b r, shape_ok (QPost k (qpost c k b) r).
Proof.
  intros c k b r. simpl. unfold qpost. destruct (flagged k) eqn:F; simpl; [|left; reflexivity].
  destruct (if b then q_clr_reply c else q_clr_timeout c); [right; split; reflexivity|left; reflexivity].
Qed.

Lemma shape_prog : forall c k, In (prog c k) (allowed k).
Proof.
  intros c k. unfold prog, allowed. destruct (flagged k); [|left; reflexivity].
  destruct (q_arm c =? 0)%Z; simpl; tauto.
Qed.

Lemma allowed_tail : forall k o r, In (o :: r) (allowed k) -> o <> OSelect -> In r (allowed k).
Proof.
  intros k o r H N. unfold allowed in *. destruct (flagged k); simpl in *;
  repeat (destruct H as [H|H]; [inv H; try congruence; simpl; tauto|]); tauto.
Qed.

Lemma handle_qp : forall c x s, qp (handle c x s) = qp s.
Proof.
  intros c x s. unfold handle, handle_r. destruct x as [k v|two v|k0]; [destruct (flagged k)|..]; try destruct (flag s); reflexivity.
Qed.

Lemma shape_step : forall c s l s', shape_inv s -> qstep c l s = Some s' -> shape_inv s'.
Proof.
  intros c s l s' I H. unfold shape_inv in *. destruct l as [g k|g|g|x| |]; simpl in H.
  - destruct (Nat.ltb g (length (qp s))); [|discriminate].
    destruct (qget s g) as [|k0 ops|k0|k0 ops r] eqn:Eg; try discriminate.
    + inv H. simpl. apply shape_upd; [exact I|apply shape_prog].
    + destruct ops; [|discriminate]. inv H. simpl. apply shape_upd; [exact I|apply shape_prog].
  - pose proof (I g) as Sg. fold (qget s g) in Sg.
    destruct (qget s g) as [|k0 ops|k0|k0 ops r] eqn:Eg; try discriminate.
    + destruct ops as [|[b| |] ops]; try discriminate; inv H; simpl.
      * apply shape_upd; [exact I|]. simpl. eapply allowed_tail; [exact Sg|discriminate].
      * apply shape_upd; [exact I|]. simpl. eapply allowed_tail; [exact Sg|discriminate].
      * destruct (receive_qp c g k0 s) as [p [E [P|[v P]]]]; rewrite E; apply shape_upd; auto; subst; [exact Logic.I|apply shape_post].
    + destruct ops as [|[b| |] ops]; try discriminate; inv H; simpl.
      apply shape_upd; [exact I|]. simpl in *. destruct Sg as [X|[X Y]]; [discriminate|]. inv X. left; reflexivity.
  - destruct (qget s g) as [|k0 ops|k0|k0 ops r] eqn:Eg; try discriminate.
    + destruct ops as [|[b| |] ops]; try discriminate. destruct (k_rcv (q_k c k0)); try discriminate. inv H. simpl.
      apply shape_upd; [exact I|apply shape_post].
    + destruct (k_rcv (q_k c k0)); try discriminate. inv H. simpl. apply shape_upd; [exact I|apply shape_post].
  - inv H. exact I.
  - destruct (hp s) as [[|[b|ok|k v] r]|k v r] eqn:Eh; try discriminate.
    + destruct (inq s) as [|x q]; [discriminate|]. inv H. rewrite handle_qp. exact I.
    + inv H. exact I.
    + inv H. exact I.
    + inv H. destruct (send_qp c k v r s) as [E|[g [w [_ E]]]]; rewrite E; [exact I|]. apply shape_upd; [exact I|apply shape_post].
  - destruct (hp s) as [|k v r] eqn:Eh; try discriminate. destruct (k_snd (q_k c k)); try discriminate. inv H. exact I.
Qed.

Lemma shape_init : forall n, shape_inv (qinit n).
Proof.
  intros n g. simpl. destruct (nth_in_or_default g (repeat QIdle n) QIdle) as [X|X].
  - apply repeat_spec in X. rewrite X. exact Logic.I.
  - rewrite X. exact Logic.I.
Qed.

Lemma shape_reach : forall c n s, qreach c n s -> shape_inv s.
Proof. intros c n. apply qreach_ind; [apply shape_init|]. intros s l s' _ I H. eapply shape_step; eauto. Qed.

(* ---------- what a receive does, in terms of [avail] ---------- *)
Lemma kind_eqb_sym : forall a b, kind_eqb a b = kind_eqb b a.
Proof. destruct a, b; reflexivity. Qed.

Lemma receive_park : forall c g k s, avail k s = [] ->
  receive c g k s = set_qpc (set_wait s (kupd (wait s) k (wait s k ++ [g]))) g (QParked k).
Proof.
  intros c g k s H. unfold avail in H. apply app_eq_nil in H. destruct H as [Hb Ho]. unfold receive. rewrite Hb.
  destruct (hp s) as [l|k' v' rest]; [reflexivity|]. simpl in Ho. destruct (kind_eqb k' k); [discriminate|reflexivity].
Qed.

Lemma receive_take : forall c g k s v rest, avail k s = v :: rest ->
  let s' := receive c g k s in
  avail k s' = rest /\ (forall k', k' <> k -> avail k' s' = avail k' s)
  /\ rets s' = kupd (rets s) k (rets s k ++ [v]) /\ handled s' = handled s /\ dropped s' = dropped s
  /\ qp s' = upd_nat (qp s) g (QPost k (qpost c k true) (Some v))
  /\ wait s' = wait s /\ flag s' = flag s /\ inq s' = inq s /\ out s' = out s /\ consumed s' = consumed s /\ nwr s' = nwr s
  /\ hp s' = match hp s with HOffer k' _ r => if kind_eqb k' k then HRun r else hp s | _ => hp s end.
Proof.
  intros c g k s v rest H. unfold avail in *. unfold receive.
  destruct (buf s k) as [|v0 b'] eqn:Eb; simpl in H.
  - destruct (hp s) as [l|k' v' r'] eqn:Eh; simpl in H; [discriminate|].
    destruct (kind_eqb k' k) eqn:Ek; [|discriminate]. inv H. apply kind_eqb_eq in Ek; subst k'.
    simpl. rewrite Eb. repeat split; auto.
    intros k1 N. rewrite ?Eh. simpl. apply kind_eqb_neq in N. rewrite kind_eqb_sym, N. rewrite app_nil_r. reflexivity.
  - inv H. destruct (hp s) as [l|k' v' r'] eqn:Eh.
    + simpl. rewrite ?Eh. simpl. rewrite kupd_same. rewrite !app_nil_r. repeat split; auto.
      intros k1 N. rewrite kupd_other by exact N. reflexivity.
    + destruct (kind_eqb k' k) eqn:Ek.
      * apply kind_eqb_eq in Ek; subst k'. simpl. rewrite kupd_same, kind_eqb_refl, app_nil_r. repeat split; auto.
        intros k1 N. rewrite kupd_other by exact N. rewrite ?Eh. simpl. apply kind_eqb_neq in N. rewrite kind_eqb_sym, N. rewrite app_nil_r. reflexivity.
      * simpl. rewrite ?Eh. simpl. rewrite Ek, kupd_same. repeat split; auto.
        intros k1 N. rewrite kupd_other by exact N. reflexivity.
Qed.

(* ---------- accounting of replies ---------- *)
Definition acc_inv (s : qstate) : Prop :=
  forall k, length (handled s k) = length (rets s k) + length (avail k s) + length (dropped s k)
            /\ (dropped s k = [] -> handled s k = rets s k ++ avail k s).

Lemma acc_init : forall n, acc_inv (qinit n).
Proof. intros n k. simpl. split; reflexivity. Qed.

(* the send, in terms of [avail] *)
Lemma send_effect : forall c k v r s l0, hp s = HRun l0 ->
  let s' := send c k v r s in
  handled s' = kupd (handled s) k (handled s k ++ [v]) /\
  (forall k', k' <> k -> avail k' s' = avail k' s /\ rets s' k' = rets s k' /\ dropped s' k' = dropped s k') /\
  ((exists g w, wait s k = g :: w /\ rets s' k = rets s k ++ [v] /\ avail k s' = avail k s /\ dropped s' k = dropped s k)
   \/ (wait s k = [] /\ rets s' k = rets s k /\ avail k s' = avail k s ++ [v] /\ dropped s' k = dropped s k)
   \/ (wait s k = [] /\ rets s' k = rets s k /\ avail k s' = avail k s /\ dropped s' k = dropped s k ++ [v]
       /\ k_snd (q_k c k) = SNonblock /\ cap c k <= length (buf s k))).
Proof.
  intros c k v r s l0 Eh. unfold send, avail. rewrite Eh. simpl.
  destruct (wait s k) as [|g w] eqn:Ew.
  - destruct (Nat.ltb_spec (length (buf s k)) (cap c k)) as [L|L].
    + simpl. rewrite kupd_same, !app_nil_r. split; [reflexivity|]. split.
      * intros k1 N. rewrite kupd_other by exact N. rewrite app_nil_r. auto.
      * right; left. auto.
    + destruct (k_snd (q_k c k)) eqn:Em; simpl.
      * rewrite !app_nil_r. split; [reflexivity|]. split.
        -- intros k1 N. rewrite kupd_other by exact N. rewrite app_nil_r. auto.
        -- right; right. rewrite kupd_same. repeat split; auto.
      * rewrite kind_eqb_refl, app_nil_r. split; [reflexivity|]. split.
        -- intros k1 N. apply kind_eqb_neq in N. rewrite kind_eqb_sym, N. rewrite !app_nil_r. auto.
        -- right; left. auto.
      * rewrite kind_eqb_refl, app_nil_r. split; [reflexivity|]. split.
        -- intros k1 N. apply kind_eqb_neq in N. rewrite kind_eqb_sym, N. rewrite !app_nil_r. auto.
        -- right; left. auto.
      * rewrite kind_eqb_refl, app_nil_r. split; [reflexivity|]. split.
        -- intros k1 N. apply kind_eqb_neq in N. rewrite kind_eqb_sym, N. rewrite !app_nil_r. auto.
        -- right; left. auto.
  - simpl. rewrite kupd_same, !app_nil_r. split; [reflexivity|]. split.
    + intros k1 N. rewrite kupd_other by exact N. rewrite app_nil_r. auto.
    + left. exists g, w. auto.
Qed.

Lemma handle_effect : forall c x s,
  let s' := handle c x s in
  ((exists l', hp s' = HRun l') \/ hp s' = hp s) /\ buf s' = buf s /\ handled s' = handled s /\ rets s' = rets s /\ dropped s' = dropped s
  /\ wait s' = wait s /\ qp s' = qp s /\ nwr s' = nwr s /\ flag s' = flag s /\ inq s' = inq s.
Proof.
  intros c x s. unfold handle, handle_r. destruct x as [k v|two v|k0]; [destruct (flagged k)|..]; simpl; try (destruct (flag s) eqn:Ef; simpl; rewrite ?Ef); (split; [first [right; reflexivity|left; eexists; reflexivity]|repeat split; reflexivity]).
Qed.

Lemma acc_step : forall c s l s', chan_inv c s -> acc_inv s -> qstep c l s = Some s' -> acc_inv s'.
Proof.
  intros c s l s' CI I H. destruct l as [g k|g|g|x| |]; simpl in H.
  - destruct (Nat.ltb g (length (qp s))); [|discriminate].
    destruct (qget s g) as [|k0 ops|k0|k0 ops r] eqn:Eg; try discriminate; [|destruct ops; [|discriminate]]; inv H; exact I.
  - destruct (qget s g) as [|k0 ops|k0|k0 ops r] eqn:Eg; try discriminate.
    + destruct ops as [|[b| |] ops]; try discriminate; inv H; try exact I.
      (* receive *)
      destruct (avail k0 s) as [|v rest] eqn:Ea.
      * rewrite receive_park by exact Ea. exact I.
      * destruct (receive_take c g k0 s v rest Ea) as [A1 [A2 [A3 [A4 [A5 _]]]]].
        intros k. specialize (I k). rewrite A3, A4, A5. destruct (kind_eqb k k0) eqn:E0.
        -- apply kind_eqb_eq in E0; subst k. rewrite A1, kupd_same. rewrite Ea in I. rewrite app_length. simpl in *.
           destruct I as [I1 I2]. split; [lia|]. intros D. rewrite (I2 D). rewrite <- app_assoc. reflexivity.
        -- apply kind_eqb_neq in E0. rewrite (A2 k E0), kupd_other by exact E0. exact I.
    + destruct ops as [|[b| |] ops]; try discriminate; inv H; exact I.
  - destruct (qget s g) as [|k0 ops|k0|k0 ops r] eqn:Eg; try discriminate.
    + destruct ops as [|[b| |] ops]; try discriminate. destruct (k_rcv (q_k c k0)); try discriminate. inv H. exact I.
    + destruct (k_rcv (q_k c k0)); try discriminate. inv H. exact I.
  - inv H. exact I.
  - destruct (hp s) as [[|[b|ok|k v] r]|k v r] eqn:Eh; try discriminate.
    + destruct (inq s) as [|x q]; [discriminate|]. inv H. intros k. specialize (I k). unfold avail in *. rewrite Eh in I. simpl in I.
      destruct (handle_effect c x (set_inq s q)) as [Hh [E1 [E2 [E3 [E4 _]]]]]. rewrite E1, E2, E3, E4. simpl.
      destruct Hh as [[l' Hh]|Hh]; rewrite Hh; simpl; try rewrite Eh; simpl; exact I.
    + inv H. intros k. specialize (I k). unfold avail in *. rewrite Eh in I. simpl in *. exact I.
    + inv H. intros k. specialize (I k). unfold avail in *. rewrite Eh in I. simpl in *. exact I.
    + inv H. destruct (send_effect c k v r s _ Eh) as [B1 [B2 B3]].
      intros k0. specialize (I k0). destruct (kind_eqb k0 k) eqn:E0.
      * apply kind_eqb_eq in E0; subst k0. rewrite B1, kupd_same, app_length. simpl.
        destruct B3 as [[g [w [Ew [R [A D]]]]]|[[Ew [R [A D]]]|[Ew [R [A [D _]]]]]]; rewrite R, A, D.
        -- destruct (ci_wait _ _ CI k) as [Bk Ok]; [rewrite Ew; discriminate|].
           assert (Av : avail k s = []) by (unfold avail; rewrite Bk, Ok; reflexivity). rewrite Av in *.
           rewrite app_length. simpl in *. destruct I as [I1 I2]. split; [lia|]. intros D0. rewrite (I2 D0). rewrite !app_nil_r. reflexivity.
        -- rewrite app_length. simpl. destruct I as [I1 I2]. split; [lia|]. intros D0. rewrite (I2 D0). rewrite app_assoc. reflexivity.
        -- rewrite app_length. simpl. destruct I as [I1 I2]. split; [lia|]. intros D0. destruct (dropped s k); discriminate.
      * apply kind_eqb_neq in E0. destruct (B2 k0 E0) as [A [R D]]. rewrite B1, kupd_other, A, R, D by exact E0. exact I.
  - destruct (hp s) as [|k v r] eqn:Eh; try discriminate. destruct (k_snd (q_k c k)); try discriminate. inv H.
    intros k0. specialize (I k0). unfold avail in *. rewrite Eh in I. simpl in *. unfold kupd. rewrite app_nil_r.
    destruct (kind_eqb k0 k) eqn:E0.
    + apply kind_eqb_eq in E0; subst k0. rewrite kind_eqb_refl in I. rewrite !app_length in *. simpl in *. destruct I as [I1 I2]. split; [lia|]. intros D. destruct (dropped s k); discriminate.
    + assert (kind_eqb k k0 = false) as E1 by (apply kind_eqb_neq; intro; subst; rewrite kind_eqb_refl in E0; discriminate). rewrite E1, app_nil_r in I. exact I.
Qed.

Lemma acc_reach : forall c n s, qreach c n s -> acc_inv s.
Proof.
  intros c n. apply qreach_ind; [apply acc_init|]. intros s l s' R I H. eapply acc_step; eauto. eapply chan_inv_reach; eauto.
Qed.


(* ---------- queries written = values received + queries pending (receives without a timer) ---------- *)
Definition cnt_inv (c : qcfg) (s : qstate) : Prop :=
  forall k, k_rcv (q_k c k) = RBlock -> nwr s k = length (rets s k) + count_pending k s.

Lemma count_upd : forall k (l : list qpc) g x, g < length l ->
  length (filter (pending k) (upd_nat l g x)) + (if pending k (nth g l QIdle) then 1 else 0)
  = length (filter (pending k) l) + (if pending k x then 1 else 0).
Proof. intros. apply filter_upd_count. assumption. Qed.

Lemma prog_has_write : forall c k, existsb is_write (prog c k) = true.
Proof. intros c k. unfold prog. destruct (flagged k); [destruct (q_arm c =? 0)%Z|]; reflexivity. Qed.

Lemma allowed_after_write : forall k r, In (OWrite :: r) (allowed k) -> existsb is_write r = false.
Proof.
  intros k r H. unfold allowed in H. destruct (flagged k); simpl in H;
  repeat (destruct H as [H|H]; [inv H; reflexivity|]); tauto.
Qed.
Lemma allowed_select : forall k r, In (OSelect :: r) (allowed k) -> r = [].
Proof.
  intros k r H. unfold allowed in H. destruct (flagged k); simpl in H;
  repeat (destruct H as [H|H]; [inv H; reflexivity|]); tauto.
Qed.
Lemma allowed_set : forall k b r, In (OSet b :: r) (allowed k) -> b = true /\ flagged k = true.
Proof.
  intros k b r H. unfold allowed in H. destruct (flagged k); simpl in H;
  repeat (destruct H as [H|H]; [inv H; auto|]); tauto.
Qed.

Lemma cnt_init : forall c n, cnt_inv c (qinit n).
Proof.
  intros c n k _. simpl. unfold count_pending. simpl.
  induction n; simpl; auto.
Qed.

Lemma pending_count_pos : forall k s g, pending k (qget s g) = true -> 1 <= count_pending k s.
Proof.
  intros k s g H. unfold count_pending. assert (L : g < length (qp s)).
  { apply qget_lt. intro X. rewrite X in H. discriminate. }
  assert (I : In (qget s g) (filter (pending k) (qp s))) by (apply filter_In; split; [apply nth_In; exact L|exact H]).
  destruct (filter (pending k) (qp s)); [destruct I|simpl; lia].
Qed.

Lemma cnt_step : forall c s l s', chan_inv c s -> shape_inv s -> cnt_inv c s -> qstep c l s = Some s' -> cnt_inv c s'.
Proof.
  intros c s l s' CI SH I H k Hk. specialize (I k Hk). unfold count_pending in *.
  destruct l as [g k1|g|g|x| |]; simpl in H.
  - destruct (Nat.ltb_spec g (length (qp s))) as [L|L]; [|discriminate].
    assert (Hp : pending k (QRun k1 (prog c k1)) = false) by (simpl; rewrite prog_has_write; apply Bool.andb_false_r).
    destruct (qget s g) as [|k0 ops|k0|k0 ops r] eqn:Eg; try discriminate; [|destruct ops; [|discriminate]]; inv H; simpl;
    pose proof (count_upd k (qp s) g (QRun k1 (prog c k1)) L) as X; fold (qget s g) in X; rewrite Eg, Hp in X; simpl in X; lia.
  - pose proof (SH g) as Sg. fold (qget s g) in Sg.
    destruct (qget s g) as [|k0 ops|k0|k0 ops r] eqn:Eg; try discriminate.
    + assert (L : g < length (qp s)) by (apply qget_lt; congruence).
      destruct ops as [|[b| |] ops]; try discriminate; inv H; simpl in *.
      * pose proof (count_upd k (qp s) g (QRun k0 ops) L) as X. fold (qget s g) in X. rewrite Eg in X. simpl in X.
        revert X. destruct (kind_eqb k0 k && negb (existsb is_write ops)); intros X; lia.
      * pose proof (count_upd k (qp s) g (QRun k0 ops) L) as X. fold (qget s g) in X. rewrite Eg in X. simpl in X.
        rewrite (allowed_after_write _ _ Sg) in X. simpl in X. rewrite Bool.andb_false_r, Bool.andb_true_r in X. unfold kupd.
        replace (kind_eqb k k0) with (kind_eqb k0 k) by apply kind_eqb_sym. destruct (kind_eqb k0 k) eqn:E0; rewrite ?E0 in X; simpl in X; [apply kind_eqb_eq in E0; subst k0|]; lia.
      * pose proof (allowed_select _ _ Sg) as Es. subst ops.
        destruct (avail k0 s) as [|v rest] eqn:Ea.
        -- rewrite receive_park by exact Ea. simpl.
           pose proof (count_upd k (qp s) g (QParked k0) L) as X. fold (qget s g) in X. rewrite Eg in X. simpl in X.
           rewrite Bool.andb_true_r in X. destruct (kind_eqb k0 k) eqn:E0; rewrite ?E0 in X; simpl in X; lia.
        -- destruct (receive_take c g k0 s v rest Ea) as [_ [_ [A3 [_ [_ [A6 [_ [_ [_ [_ [_ [A12 _]]]]]]]]]]]]. rewrite A3, A6, A12.
           pose proof (count_upd k (qp s) g (QPost k0 (qpost c k0 true) (Some v)) L) as X. fold (qget s g) in X. rewrite Eg in X. simpl in X.
           rewrite Bool.andb_true_r in X. unfold kupd. replace (kind_eqb k k0) with (kind_eqb k0 k) by apply kind_eqb_sym.
           destruct (kind_eqb k0 k) eqn:E0; rewrite ?E0 in X; simpl in X; [apply kind_eqb_eq in E0; subst k0; rewrite app_length; simpl|]; lia.
    + assert (L : g < length (qp s)) by (apply qget_lt; congruence).
      destruct ops as [|[b| |] ops]; try discriminate; inv H; simpl.
      pose proof (count_upd k (qp s) g (QPost k0 ops r) L) as X. fold (qget s g) in X. rewrite Eg in X. simpl in X. lia.
  - destruct (qget s g) as [|k0 ops|k0|k0 ops r] eqn:Eg; try discriminate.
    + assert (L : g < length (qp s)) by (apply qget_lt; congruence).
      destruct ops as [|[b| |] ops]; try discriminate. destruct (k_rcv (q_k c k0)) eqn:Er; try discriminate. inv H. simpl.
      pose proof (count_upd k (qp s) g (QPost k0 (qpost c k0 false) None) L) as X. fold (qget s g) in X. rewrite Eg in X. simpl in X.
      destruct (kind_eqb k0 k) eqn:E0; [apply kind_eqb_eq in E0; subst; congruence|]. simpl in X. lia.
    + assert (L : g < length (qp s)) by (apply qget_lt; congruence).
      destruct (k_rcv (q_k c k0)) eqn:Er; try discriminate. inv H. simpl.
      pose proof (count_upd k (qp s) g (QPost k0 (qpost c k0 false) None) L) as X. fold (qget s g) in X. rewrite Eg in X. simpl in X.
      destruct (kind_eqb k0 k) eqn:E0; [apply kind_eqb_eq in E0; subst; congruence|]. simpl in X. lia.
  - inv H. exact I.
  - destruct (hp s) as [[|[b|ok|k1 v] r]|k1 v r] eqn:Eh; try discriminate.
    + destruct (inq s) as [|x q]; [discriminate|]. inv H.
      destruct (handle_effect c x (set_inq s q)) as [_ [_ [_ [E3 [_ [_ [E6 [E7 _]]]]]]]]. rewrite E3, E6, E7. exact I.
    + inv H. exact I.
    + inv H. exact I.
    + inv H. unfold send. destruct (wait s k1) as [|g w] eqn:Ew.
      * destruct (Nat.ltb (length (buf s k1)) (cap c k1)); [exact I|]. destruct (k_snd (q_k c k1)); exact I.
      * simpl. assert (Hg : qget s g = QParked k1) by (apply (ci_w1 _ _ CI); rewrite Ew; left; reflexivity).
        assert (L : g < length (qp s)) by (apply qget_lt; congruence).
        pose proof (count_upd k (qp s) g (QPost k1 (qpost c k1 true) (Some v)) L) as X. fold (qget s g) in X. rewrite Hg in X. simpl in X.
        unfold kupd. replace (kind_eqb k k1) with (kind_eqb k1 k) by apply kind_eqb_sym.
        destruct (kind_eqb k1 k) eqn:E0; rewrite ?E0 in X; simpl in X; [apply kind_eqb_eq in E0; subst k1; rewrite app_length; simpl|]; lia.
  - destruct (hp s) as [|k1 v r] eqn:Eh; try discriminate. destruct (k_snd (q_k c k1)); try discriminate. inv H. exact I.
Qed.

Lemma cnt_reach : forall c n s, qreach c n s -> cnt_inv c s.
Proof.
  intros c n. apply qreach_ind; [apply cnt_init|]. intros s l s' R I H.
  eapply cnt_step; eauto; [eapply chan_inv_reach|eapply shape_reach]; eauto.
Qed.


Lemma send_nwr : forall c k v r s, nwr (send c k v r s) = nwr s.
Proof.
  intros. unfold send. destruct (wait s k); [|reflexivity].
  destruct (Nat.ltb (length (buf s k)) (cap c k)); [reflexivity|]. destruct (k_snd (q_k c k)); reflexivity.
Qed.

Lemma receive_nwr : forall c g k s, nwr (receive c g k s) = nwr s.
Proof.
  intros. destruct (avail k s) as [|v rest] eqn:Ea.
  - rewrite receive_park by exact Ea. reflexivity.
  - destruct (receive_take c g k s v rest Ea) as [_ [_ [_ [_ [_ [_ [_ [_ [_ [_ [_ [A12 _]]]]]]]]]]]]. exact A12.
Qed.

(* the number of written queries changes only at the write *)
Lemma step_nwr : forall c s l s' k, qstep c l s = Some s' ->
  nwr s' k = nwr s k \/ (exists g ops, l = LQ g /\ qget s g = QRun k (OWrite :: ops) /\ nwr s' k = S (nwr s k)).
Proof.
  intros c s l s' k H. destruct l as [g k1|g|g|x| |]; simpl in H.
  - destruct (Nat.ltb g (length (qp s))); [|discriminate].
    destruct (qget s g) as [|k0 ops|k0|k0 ops r] eqn:Eg; try discriminate; [|destruct ops; [|discriminate]]; inv H; left; reflexivity.
  - destruct (qget s g) as [|k0 ops|k0|k0 ops r] eqn:Eg; try discriminate.
    + destruct ops as [|[b| |] ops]; try discriminate; inv H.
      * left; reflexivity.
      * simpl. unfold kupd. destruct (kind_eqb k k0) eqn:E0; [|left; reflexivity]. apply kind_eqb_eq in E0; subst k0. right. eauto.
      * left. rewrite receive_nwr. reflexivity.
    + destruct ops as [|[b| |] ops]; try discriminate; inv H. left; reflexivity.
  - destruct (qget s g) as [|k0 ops|k0|k0 ops r] eqn:Eg; try discriminate.
    + destruct ops as [|[b| |] ops]; try discriminate. destruct (k_rcv (q_k c k0)); try discriminate. inv H. left; reflexivity.
    + destruct (k_rcv (q_k c k0)); try discriminate. inv H. left; reflexivity.
  - inv H. left; reflexivity.
  - destruct (hp s) as [[|[b|ok|k1 v] r]|k1 v r] eqn:Eh; try discriminate.
    + destruct (inq s) as [|x q]; [discriminate|]. inv H.
      destruct (handle_effect c x (set_inq s q)) as [_ [_ [_ [_ [_ [_ [_ [E7 _]]]]]]]]. rewrite E7. left; reflexivity.
    + inv H. left; reflexivity.
    + inv H. left; reflexivity.
    + inv H. left. rewrite send_nwr. reflexivity.
  - destruct (hp s) as [|k1 v r] eqn:Eh; try discriminate. destruct (k_snd (q_k c k1)); try discriminate. inv H. left; reflexivity.
Qed.

Lemma step_rets_mono : forall c s l s' k, qstep c l s = Some s' -> length (rets s k) <= length (rets s' k).
Proof.
  intros c s l s' k H. destruct l as [g k1|g|g|x| |]; simpl in H.
  - destruct (Nat.ltb g (length (qp s))); [|discriminate].
    destruct (qget s g) as [|k0 ops|k0|k0 ops r] eqn:Eg; try discriminate; [|destruct ops; [|discriminate]]; inv H; simpl; lia.
  - destruct (qget s g) as [|k0 ops|k0|k0 ops r] eqn:Eg; try discriminate.
    + destruct ops as [|[b| |] ops]; try discriminate; inv H; simpl; try lia.
      destruct (avail k0 s) as [|v rest] eqn:Ea.
      * rewrite receive_park by exact Ea. simpl. lia.
      * destruct (receive_take c g k0 s v rest Ea) as [_ [_ [A3 _]]]. rewrite A3. unfold kupd. destruct (kind_eqb k k0) eqn:E0; [|lia].
        apply kind_eqb_eq in E0; subst. rewrite app_length. lia.
    + destruct ops as [|[b| |] ops]; try discriminate; inv H. simpl; lia.
  - destruct (qget s g) as [|k0 ops|k0|k0 ops r] eqn:Eg; try discriminate.
    + destruct ops as [|[b| |] ops]; try discriminate. destruct (k_rcv (q_k c k0)); try discriminate. inv H. simpl; lia.
    + destruct (k_rcv (q_k c k0)); try discriminate. inv H. simpl; lia.
  - inv H. simpl; lia.
  - destruct (hp s) as [[|[b|ok|k1 v] r]|k1 v r] eqn:Eh; try discriminate.
    + destruct (inq s) as [|x q]; [discriminate|]. inv H.
      destruct (handle_effect c x (set_inq s q)) as [_ [_ [_ [E3 _]]]]. rewrite E3. simpl; lia.
    + inv H. simpl; lia.
    + inv H. simpl; lia.
    + inv H. destruct (send_effect c k1 v r s _ Eh) as [_ [B2 B3]].
      destruct (kind_eqb k k1) eqn:E0.
      * apply kind_eqb_eq in E0; subst k1.
        destruct B3 as [[g [w [_ [R _]]]]|[[_ [R _]]|[_ [R _]]]]; rewrite R; try rewrite app_length; lia.
      * apply kind_eqb_neq in E0. destruct (B2 k E0) as [_ [R _]]. rewrite R. lia.
  - destruct (hp s) as [|k1 v r] eqn:Eh; try discriminate. destruct (k_snd (q_k c k1)); try discriminate. inv H. simpl; lia.
Qed.

(* where a reply can be discarded *)
Lemma step_dropped : forall c s l s' k, qstep c l s = Some s' ->
  dropped s' k = dropped s k
  \/ (l = LH /\ exists v r, hp s = HRun (HSend k v :: r) /\ wait s k = [] /\ cap c k <= length (buf s k))
  \/ (l = LHTimeout /\ exists v r, hp s = HOffer k v r /\ k_snd (q_k c k) = STimed).
Proof.
  intros c s l s' k H. destruct l as [g k1|g|g|x| |]; simpl in H.
  - destruct (Nat.ltb g (length (qp s))); [|discriminate].
    destruct (qget s g) as [|k0 ops|k0|k0 ops r] eqn:Eg; try discriminate; [|destruct ops; [|discriminate]]; inv H; left; reflexivity.
  - destruct (qget s g) as [|k0 ops|k0|k0 ops r] eqn:Eg; try discriminate.
    + destruct ops as [|[b| |] ops]; try discriminate; inv H; try (left; reflexivity).
      left. destruct (avail k0 s) as [|v rest] eqn:Ea.
      * rewrite receive_park by exact Ea. reflexivity.
      * destruct (receive_take c g k0 s v rest Ea) as [_ [_ [_ [_ [A5 _]]]]]. rewrite A5. reflexivity.
    + destruct ops as [|[b| |] ops]; try discriminate; inv H. left; reflexivity.
  - destruct (qget s g) as [|k0 ops|k0|k0 ops r] eqn:Eg; try discriminate.
    + destruct ops as [|[b| |] ops]; try discriminate. destruct (k_rcv (q_k c k0)); try discriminate. inv H. left; reflexivity.
    + destruct (k_rcv (q_k c k0)); try discriminate. inv H. left; reflexivity.
  - inv H. left; reflexivity.
  - destruct (hp s) as [[|[b|ok|k1 v] r]|k1 v r] eqn:Eh; try discriminate.
    + destruct (inq s) as [|x q]; [discriminate|]. inv H.
      destruct (handle_effect c x (set_inq s q)) as [_ [_ [_ [_ [E4 _]]]]]. rewrite E4. left; reflexivity.
    + inv H. left; reflexivity.
    + inv H. left; reflexivity.
    + inv H. destruct (send_effect c k1 v r s _ Eh) as [_ [B2 B3]].
      destruct (kind_eqb k k1) eqn:E0.
      * apply kind_eqb_eq in E0; subst k1.
        destruct B3 as [[g [w [_ [_ [_ D]]]]]|[[_ [_ [_ D]]]|[Ew [_ [_ [D [_ Hc]]]]]]]; [left; exact D|left; exact D|].
        right; left. split; [reflexivity|]. eauto.
      * apply kind_eqb_neq in E0. destruct (B2 k E0) as [_ [_ D]]. left; exact D.
  - destruct (hp s) as [|k1 v r] eqn:Eh; try discriminate. destruct (k_snd (q_k c k1)) eqn:Em; try discriminate. inv H. simpl.
    unfold kupd. destruct (kind_eqb k k1) eqn:E0; [|left; reflexivity]. apply kind_eqb_eq in E0; subst k1. right; right. split; [reflexivity|]. eauto.
Qed.

Section Colour.
  Variable c : qcfg.
  Variable n : nat.
  Variable k : kind.
  Hypothesis Hs : k_snd (q_k c k) = SNonblock.
  Hypothesis Hr : k_rcv (q_k c k) = RBlock.

  Definition colour_hyp (s : qstate) (l : qlabel) : bool := honest_at k s l && conc_at c k s l.
  Definition colour_J (s : qstate) : Prop := dropped s k = [] /\ count_pending k s <= cap c k.

  Lemma no_offer_k : forall s, chan_inv c s -> offer_of k (hp s) = [].
  Proof.
    intros s CI. destruct (hp s) as [l|k' v r] eqn:Eh; [reflexivity|]. simpl.
    destruct (kind_eqb k' k) eqn:E0; [|reflexivity]. apply kind_eqb_eq in E0; subst k'.
    destruct (ci_offer _ _ CI _ _ _ Eh) as [_ X]. congruence.
  Qed.

  Lemma colour_J_step : forall s l s', qreach c n s -> colour_J s -> colour_hyp s l = true -> qstep c l s = Some s' -> colour_J s'.
  Proof.
    intros s l s' R [Jd Jc] Hh H.
    pose proof (chan_inv_reach _ _ _ R) as CI. pose proof (acc_reach _ _ _ R k) as [AC _].
    pose proof (cnt_reach _ _ _ R k Hr) as CN.
    pose proof (cnt_reach _ _ _ (qreach_step _ _ _ _ _ R H) k Hr) as CN'.
    apply Bool.andb_true_iff in Hh. destruct Hh as [Hon Hco].
    split.
    - destruct (step_dropped c s l s' k H) as [D|[[El [v [r [Eh [Ew Hc]]]]]|[El [v [r [Eh Em]]]]]].
      + rewrite D. exact Jd.
      + exfalso. subst l. unfold honest_at in Hon. rewrite Eh, kind_eqb_refl in Hon. simpl in Hon. apply Nat.ltb_lt in Hon.
        unfold avail in AC. rewrite Eh in AC. simpl in AC. rewrite app_nil_r, Jd in AC. simpl in AC. lia.
      + congruence.
    - destruct (step_nwr c s l s' k H) as [E|[g [ops [El [Eg E]]]]].
      + pose proof (step_rets_mono c s l s' k H). lia.
      + subst l. unfold conc_at in Hco. rewrite Eg, kind_eqb_refl in Hco. simpl in Hco. apply Nat.ltb_lt in Hco.
        pose proof (step_rets_mono c s (LQ g) s' k H). lia.
  Qed.

  Lemma colour_J_run : forall tr s s', qreach c n s -> colour_J s -> qrun c tr s = Some s' -> qrun_all c colour_hyp tr s = true -> colour_J s'.
  Proof.
    induction tr as [|l tr IH]; intros s s' R J Hrun Hall; simpl in *.
    - inv Hrun. exact J.
    - destruct (qstep c l s) as [s1|] eqn:E; [|discriminate]. apply Bool.andb_true_iff in Hall. destruct Hall as [H1 H2].
      eapply IH; [eapply qreach_step; eauto|eapply colour_J_step; eauto|exact Hrun|exact H2].
  Qed.

  Theorem colour_no_loss : forall tr s,
    qrun c tr (qinit n) = Some s -> qrun_all c colour_hyp tr (qinit n) = true ->
    dropped s k = [] /\ handled s k = rets s k ++ buf s k /\
    (forall g, qget s g = QParked k -> buf s k = [] /\ length (handled s k) < nwr s k).
  Proof.
    intros tr s Hrun Hall.
    assert (R0 : qreach c n (qinit n)) by (exists []; reflexivity).
    assert (J0 : colour_J (qinit n)).
    { split; [reflexivity|]. unfold count_pending. simpl. clear. induction n; simpl; lia. }
    destruct (colour_J_run tr _ _ R0 J0 Hrun Hall) as [Jd Jc].
    assert (R : qreach c n s) by (exists tr; exact Hrun).
    pose proof (chan_inv_reach _ _ _ R) as CI. pose proof (acc_reach _ _ _ R k) as [AC1 AC2].
    pose proof (cnt_reach _ _ _ R k Hr) as CN.
    assert (Av : avail k s = buf s k) by (unfold avail; rewrite (no_offer_k _ CI); apply app_nil_r).
    split; [exact Jd|]. split; [rewrite <- Av; apply AC2; exact Jd|].
    intros g Hg. assert (Hw : wait s k <> []) by (intro X; pose proof (ci_w2 _ _ CI _ _ Hg) as Y; rewrite X in Y; destruct Y).
    destruct (ci_wait _ _ CI k Hw) as [Bk _]. split; [exact Bk|].
    assert (P : pending k (qget s g) = true) by (rewrite Hg; simpl; apply kind_eqb_refl).
    pose proof (pending_count_pos _ _ _ P). rewrite Av, Bk, Jd in AC1. simpl in AC1. lia.
  Qed.
End Colour.

(* ---------- queries written = values received + queries pending, for a receive WITH a timer, along the
   steps on which that timer does not fire ---------- *)
Definition cnt_k (k : kind) (s : qstate) : Prop := nwr s k = length (rets s k) + count_pending k s.

Lemma cnt_k_init : forall k n, cnt_k k (qinit n).
Proof. intros k n. unfold cnt_k, count_pending. simpl. induction n; simpl; auto. Qed.

Lemma cnt_k_step : forall c k s l s', chan_inv c s -> shape_inv s -> cnt_k k s -> qstep c l s = Some s' ->
  no_timeout_at k s l = true -> cnt_k k s'.
Proof.
  intros c k s l s' CI SH I H NT. unfold cnt_k, count_pending in *.
  destruct l as [g k1|g|g|x| |]; simpl in H.
  - destruct (Nat.ltb_spec g (length (qp s))) as [L|L]; [|discriminate].
    assert (Hp : pending k (QRun k1 (prog c k1)) = false) by (simpl; rewrite prog_has_write; apply Bool.andb_false_r).
    destruct (qget s g) as [|k0 ops|k0|k0 ops r] eqn:Eg; try discriminate; [|destruct ops; [|discriminate]]; inv H; simpl;
    pose proof (count_upd k (qp s) g (QRun k1 (prog c k1)) L) as X; fold (qget s g) in X; rewrite Eg, Hp in X; simpl in X; lia.
  - pose proof (SH g) as Sg. fold (qget s g) in Sg.
    destruct (qget s g) as [|k0 ops|k0|k0 ops r] eqn:Eg; try discriminate.
    + assert (L : g < length (qp s)) by (apply qget_lt; congruence).
      destruct ops as [|[b| |] ops]; try discriminate; inv H; simpl in *.
      * pose proof (count_upd k (qp s) g (QRun k0 ops) L) as X. fold (qget s g) in X. rewrite Eg in X. simpl in X.
        revert X. destruct (kind_eqb k0 k && negb (existsb is_write ops)); intros X; lia.
      * pose proof (count_upd k (qp s) g (QRun k0 ops) L) as X. fold (qget s g) in X. rewrite Eg in X. simpl in X.
        rewrite (allowed_after_write _ _ Sg) in X. simpl in X. rewrite Bool.andb_false_r, Bool.andb_true_r in X. unfold kupd.
        replace (kind_eqb k k0) with (kind_eqb k0 k) by apply kind_eqb_sym. destruct (kind_eqb k0 k) eqn:E0; rewrite ?E0 in X; simpl in X; [apply kind_eqb_eq in E0; subst k0|]; lia.
      * pose proof (allowed_select _ _ Sg) as Es. subst ops.
        destruct (avail k0 s) as [|v rest] eqn:Ea.
        -- rewrite receive_park by exact Ea. simpl.
           pose proof (count_upd k (qp s) g (QParked k0) L) as X. fold (qget s g) in X. rewrite Eg in X. simpl in X.
           rewrite Bool.andb_true_r in X. destruct (kind_eqb k0 k) eqn:E0; rewrite ?E0 in X; simpl in X; lia.
        -- destruct (receive_take c g k0 s v rest Ea) as [_ [_ [A3 [_ [_ [A6 [_ [_ [_ [_ [_ [A12 _]]]]]]]]]]]]. rewrite A3, A6, A12.
           pose proof (count_upd k (qp s) g (QPost k0 (qpost c k0 true) (Some v)) L) as X. fold (qget s g) in X. rewrite Eg in X. simpl in X.
           rewrite Bool.andb_true_r in X. unfold kupd. replace (kind_eqb k k0) with (kind_eqb k0 k) by apply kind_eqb_sym.
           destruct (kind_eqb k0 k) eqn:E0; rewrite ?E0 in X; simpl in X; [apply kind_eqb_eq in E0; subst k0; rewrite app_length; simpl|]; lia.
    + assert (L : g < length (qp s)) by (apply qget_lt; congruence).
      destruct ops as [|[b| |] ops]; try discriminate; inv H; simpl.
      pose proof (count_upd k (qp s) g (QPost k0 ops r) L) as X. fold (qget s g) in X. rewrite Eg in X. simpl in X. lia.
  - unfold no_timeout_at in NT.
    destruct (qget s g) as [|k0 ops|k0|k0 ops r] eqn:Eg; try discriminate.
    + assert (L : g < length (qp s)) by (apply qget_lt; congruence).
      destruct ops as [|[b| |] ops]; try discriminate. destruct (k_rcv (q_k c k0)) eqn:Er; try discriminate. inv H. simpl.
      pose proof (count_upd k (qp s) g (QPost k0 (qpost c k0 false) None) L) as X. fold (qget s g) in X. rewrite Eg in X. simpl in X.
      simpl in NT. destruct (kind_eqb k0 k) eqn:E0; [discriminate|]. simpl in X. lia.
    + assert (L : g < length (qp s)) by (apply qget_lt; congruence).
      destruct (k_rcv (q_k c k0)) eqn:Er; try discriminate. inv H. simpl.
      pose proof (count_upd k (qp s) g (QPost k0 (qpost c k0 false) None) L) as X. fold (qget s g) in X. rewrite Eg in X. simpl in X.
      simpl in NT. destruct (kind_eqb k0 k) eqn:E0; [discriminate|]. simpl in X. lia.
  - inv H. exact I.
  - destruct (hp s) as [[|[b|ok|k1 v] r]|k1 v r] eqn:Eh; try discriminate.
    + destruct (inq s) as [|x q]; [discriminate|]. inv H.
      destruct (handle_effect c x (set_inq s q)) as [_ [_ [_ [E3 [_ [_ [E6 [E7 _]]]]]]]]. rewrite E3, E6, E7. exact I.
    + inv H. exact I.
    + inv H. exact I.
    + inv H. unfold send. destruct (wait s k1) as [|g w] eqn:Ew.
      * destruct (Nat.ltb (length (buf s k1)) (cap c k1)); [exact I|]. destruct (k_snd (q_k c k1)); exact I.
      * simpl. assert (Hg : qget s g = QParked k1) by (apply (ci_w1 _ _ CI); rewrite Ew; left; reflexivity).
        assert (L : g < length (qp s)) by (apply qget_lt; congruence).
        pose proof (count_upd k (qp s) g (QPost k1 (qpost c k1 true) (Some v)) L) as X. fold (qget s g) in X. rewrite Hg in X. simpl in X.
        unfold kupd. replace (kind_eqb k k1) with (kind_eqb k1 k) by apply kind_eqb_sym.
        destruct (kind_eqb k1 k) eqn:E0; rewrite ?E0 in X; simpl in X; [apply kind_eqb_eq in E0; subst k1; rewrite app_length; simpl|]; lia.
  - destruct (hp s) as [|k1 v r] eqn:Eh; try discriminate. destruct (k_snd (q_k c k1)); try discriminate. inv H. exact I.
Qed.

Section Timed.
  Variable c : qcfg.
  Variable n : nat.
  Variable k : kind.
  Hypothesis Hs : k_snd (q_k c k) = SNonblock.

  Definition timed_hyp (s : qstate) (l : qlabel) : bool := honest_at k s l && conc_at c k s l && no_timeout_at k s l.
  Definition timed_J (s : qstate) : Prop := dropped s k = [] /\ count_pending k s <= cap c k /\ cnt_k k s.

  Lemma timed_J_step : forall s l s', qreach c n s -> timed_J s -> timed_hyp s l = true -> qstep c l s = Some s' -> timed_J s'.
  Proof.
    intros s l s' R [Jd [Jc CN]] Hh H.
    pose proof (chan_inv_reach _ _ _ R) as CI. pose proof (acc_reach _ _ _ R k) as [AC _].
    apply Bool.andb_true_iff in Hh. destruct Hh as [Hh Hnt]. apply Bool.andb_true_iff in Hh. destruct Hh as [Hon Hco].
    pose proof (cnt_k_step c k s l s' CI (shape_reach _ _ _ R) CN H Hnt) as CN'.
    unfold cnt_k in CN, CN'.
    split; [|split; [|exact CN']].
    - destruct (step_dropped c s l s' k H) as [D|[[El [v [r [Eh [Ew Hc]]]]]|[El [v [r [Eh Em]]]]]].
      + rewrite D. exact Jd.
      + exfalso. subst l. unfold honest_at in Hon. rewrite Eh, kind_eqb_refl in Hon. simpl in Hon. apply Nat.ltb_lt in Hon.
        unfold avail in AC. rewrite Eh in AC. simpl in AC. rewrite app_nil_r, Jd in AC. simpl in AC. lia.
      + congruence.
    - destruct (step_nwr c s l s' k H) as [E|[g [ops [El [Eg E]]]]].
      + pose proof (step_rets_mono c s l s' k H). lia.
      + subst l. unfold conc_at in Hco. rewrite Eg, kind_eqb_refl in Hco. simpl in Hco. apply Nat.ltb_lt in Hco.
        pose proof (step_rets_mono c s (LQ g) s' k H). lia.
  Qed.

  Lemma timed_J_run : forall tr s s', qreach c n s -> timed_J s -> qrun c tr s = Some s' -> qrun_all c timed_hyp tr s = true -> timed_J s'.
  Proof.
    induction tr as [|l tr IH]; intros s s' R J Hrun Hall; simpl in *.
    - inv Hrun. exact J.
    - destruct (qstep c l s) as [s1|] eqn:E; [|discriminate]. apply Bool.andb_true_iff in Hall. destruct Hall as [H1 H2].
      eapply IH; [eapply qreach_step; eauto|eapply timed_J_step; eauto|exact Hrun|exact H2].
  Qed.

  Theorem timed_no_loss : forall tr s,
    qrun c tr (qinit n) = Some s -> qrun_all c timed_hyp tr (qinit n) = true ->
    dropped s k = [] /\ handled s k = rets s k ++ buf s k /\
    (forall g, qget s g = QParked k -> buf s k = [] /\ length (handled s k) < nwr s k).
  Proof.
    intros tr s Hrun Hall.
    assert (R0 : qreach c n (qinit n)) by (exists []; reflexivity).
    assert (J0 : timed_J (qinit n)).
    { split; [reflexivity|]. split; [|apply cnt_k_init]. unfold count_pending. simpl. clear. induction n; simpl; lia. }
    destruct (timed_J_run tr _ _ R0 J0 Hrun Hall) as [Jd [Jc CN]]. unfold cnt_k in CN.
    assert (R : qreach c n s) by (exists tr; exact Hrun).
    pose proof (chan_inv_reach _ _ _ R) as CI. pose proof (acc_reach _ _ _ R k) as [AC1 AC2].
    assert (Av : avail k s = buf s k) by (unfold avail; rewrite (no_offer_k c k Hs _ CI); apply app_nil_r).
    split; [exact Jd|]. split; [rewrite <- Av; apply AC2; exact Jd|].
    intros g Hg. assert (Hw : wait s k <> []) by (intro X; pose proof (ci_w2 _ _ CI _ _ Hg) as Y; rewrite X in Y; destruct Y).
    destruct (ci_wait _ _ CI k Hw) as [Bk _]. split; [exact Bk|].
    assert (P : pending k (qget s g) = true) by (rewrite Hg; simpl; apply kind_eqb_refl).
    pose proof (pending_count_pos _ _ _ P). rewrite Av, Bk, Jd in AC1. simpl in AC1. lia.
  Qed.
End Timed.

(* the theorem above on the translated configuration, for the size request (capacity 1, non-blocking send,
   100 ms timer on the receive): the hypotheses are satisfiable — a report handled BEFORE the requester
   reaches its receive — and the guard on the timer is needed: a request that times out and whose report
   comes late leaves its token behind; the next request returns on it before its own report has arrived *)
Lemma size_early_example :
  let tr := [LCall 0 KSize; LQ 0; LArrive (SReply KSize 5); LH; LH; LQ 0]%nat in
  k_snd (q_k gen_qcfg KSize) = SNonblock /\ k_rcv (q_k gen_qcfg KSize) = RTimed /\ cap gen_qcfg KSize = 1 /\
  qrun_all gen_qcfg (timed_hyp gen_qcfg KSize) tr (qinit 1) = true /\
  exists s, qrun gen_qcfg tr (qinit 1) = Some s /\ qget s 0 = QPost KSize [] (Some 5%Z) /\ rets s KSize = [5%Z] /\ buf s KSize = [].
Proof. vm_compute. repeat split; try reflexivity. eexists. repeat split; reflexivity. Qed.

Definition size_late_trace : list qlabel :=
  [LCall 0 KSize; LQ 0; LQ 0; LQTimeout 0; LArrive (SReply KSize 7); LH; LH; LCall 0 KSize; LQ 0; LQ 0]%nat.
Lemma size_late_report_witness :
  qrun_all gen_qcfg (colour_hyp gen_qcfg KSize) size_late_trace (qinit 1) = true /\
  qrun_all gen_qcfg (timed_hyp gen_qcfg KSize) size_late_trace (qinit 1) = false /\
  exists s, qrun gen_qcfg size_late_trace (qinit 1) = Some s /\
            nwr s KSize = 2 /\ handled s KSize = [7%Z] /\ qget s 0 = QPost KSize [] (Some 7%Z).
Proof. vm_compute. repeat split; try reflexivity. eexists. repeat split; reflexivity. Qed.


(* ---------- existsb over an updated table ---------- *)
Lemma existsb_upd_new : forall A (P : A -> bool) (l : list A) g x, g < length l -> P x = true -> existsb P (upd_nat l g x) = true.
Proof.
  induction l as [|h t IH]; intros g x L H; simpl in *; [lia|]. destruct g; simpl; [rewrite H; reflexivity|].
  rewrite IH by (auto; lia). apply Bool.orb_true_r.
Qed.
Lemma existsb_upd_mono : forall A (P : A -> bool) (l : list A) g x d,
  (P (nth g l d) = true -> P x = true) -> existsb P l = true -> existsb P (upd_nat l g x) = true.
Proof.
  induction l as [|h t IH]; intros g x d H E; simpl in *; [discriminate|]. destruct g; simpl in *.
  - destruct (P h); simpl in *; [rewrite H; reflexivity|rewrite E; apply Bool.orb_true_r].
  - destruct (P h); simpl in *; [reflexivity|]. eapply IH; eauto.
Qed.

(* ---------- shape of the handler ---------- *)
Fixpoint suffixes {A} (l : list A) : list (list A) :=
  match l with [] => [[]] | x :: t => (x :: t) :: suffixes t end.
Lemma suffixes_self : forall A (l : list A), In l (suffixes l).
Proof. destruct l; simpl; auto. Qed.
Lemma suffixes_tail : forall A (l : list A) o r, In (o :: r) (suffixes l) -> In r (suffixes l).
Proof.
  induction l as [|x t IH]; simpl; intros o r H.
  - destruct H as [H|[]]. discriminate.
  - destruct H as [H|H]; [inv H; right; apply suffixes_self|right; eapply IH; exact H].
Qed.
Lemma suffixes_nil : forall A (l : list A), In [] (suffixes l).
Proof. induction l; simpl; auto. Qed.

Definition hshape (c : qcfg) (h : hpc) : Prop :=
  match h with
  | HRun l => (exists k v, flagged k = false /\ l = [HSend k v]) \/ (exists two v, In l (suffixes (report_ops c two v)))
  | HOffer k v r => (flagged k = false /\ r = []) \/ (k = KCpr /\ exists two, In (HSend KCpr v :: r) (suffixes (report_ops c two v)))
  end.

Lemma report_ops_cases : forall c two v l, In l (suffixes (report_ops c two v)) ->
  l = [] \/ l = [HSet false] \/ l = HSend KCpr v :: (if (q_hclr c =? 2)%Z then [HSet false] else [])
  \/ l = HCheck two :: HSend KCpr v :: (if (q_hclr c =? 2)%Z then [HSet false] else [])
  \/ ((q_hclr c =? 1)%Z = true /\ l = [HSet false; HCheck two; HSend KCpr v]).
Proof.
  intros c two v l H. unfold report_ops in H.
  destruct (q_hclr c =? 1)%Z eqn:E1; destruct (q_hclr c =? 2)%Z eqn:E2; simpl in H;
  try (apply Z.eqb_eq in E1; apply Z.eqb_eq in E2; lia);
  repeat (destruct H as [H|H]; [subst l; tauto|]); destruct H.
Qed.

Lemma hshape_idle : forall c, hshape c (HRun []).
Proof. intros c. right. exists true, 0%Z. apply suffixes_nil. Qed.

Lemma kcpr_flagged : forall k, flagged k = true -> k = KCpr.
Proof. destruct k; simpl; intros; try discriminate; reflexivity. Qed.

Lemma hshape_step : forall c s l s', hshape c (hp s) -> qstep c l s = Some s' -> hshape c (hp s').
Proof.
  intros c s l s' I H. destruct l as [g k1|g|g|x| |]; simpl in H.
  - destruct (Nat.ltb g (length (qp s))); [|discriminate].
    destruct (qget s g) as [|k0 ops|k0|k0 ops r] eqn:Eg; try discriminate; [|destruct ops; [|discriminate]]; inv H; exact I.
  - destruct (qget s g) as [|k0 ops|k0|k0 ops r] eqn:Eg; try discriminate.
    + destruct ops as [|[b| |] ops]; try discriminate; inv H; try exact I.
      destruct (avail k0 s) as [|v rest] eqn:Ea.
      * rewrite receive_park by exact Ea. exact I.
      * destruct (receive_take c g k0 s v rest Ea) as [_ [_ [_ [_ [_ [_ [_ [_ [_ [_ [_ [_ A13]]]]]]]]]]]]. rewrite A13.
        destruct (hp s) as [l|k' v' r'] eqn:Eh; [exact I|]. destruct (kind_eqb k' k0); [|exact I].
        simpl in I. destruct I as [[_ Er]|[Ek [two Hin]]]; [subst r'; apply hshape_idle|].
        right. exists two, v'. eapply suffixes_tail; exact Hin.
    + destruct ops as [|[b| |] ops]; try discriminate; inv H. exact I.
  - destruct (qget s g) as [|k0 ops|k0|k0 ops r] eqn:Eg; try discriminate.
    + destruct ops as [|[b| |] ops]; try discriminate. destruct (k_rcv (q_k c k0)); try discriminate. inv H. exact I.
    + destruct (k_rcv (q_k c k0)); try discriminate. inv H. exact I.
  - inv H. exact I.
  - destruct (hp s) as [[|[b|ok|k1 v] r]|k1 v r] eqn:Eh; try discriminate.
    + destruct (inq s) as [|x q]; [discriminate|]. inv H. unfold handle, handle_r.
      destruct x as [k v|two v|k0]; simpl.
      * destruct (flagged k) eqn:Fk.
        -- destruct (flag s); simpl; [right; exists true, v; apply suffixes_self|rewrite Eh; apply hshape_idle].
        -- simpl. left. eauto.
      * destruct (flag s); simpl; [right; exists two, v; apply suffixes_self|rewrite Eh; apply hshape_idle].
      * rewrite Eh. apply hshape_idle.
    + inv H. simpl in *. destruct I as [[k [v [_ X]]]|[two [v Hin]]]; [discriminate|]. right. exists two, v. eapply suffixes_tail; exact Hin.
    + inv H. simpl in *. destruct I as [[k [v [_ X]]]|[two [v Hin]]]; [discriminate|].
      destruct ok; [right; exists two, v; eapply suffixes_tail; exact Hin|apply hshape_idle].
    + inv H. simpl in I. unfold send. destruct (wait s k1) as [|g w].
      * destruct (Nat.ltb (length (buf s k1)) (cap c k1)).
        -- simpl. destruct I as [[k [v0 [_ X]]]|[two [v0 Hin]]]; [inv X; apply hshape_idle|]. right. exists two, v0. eapply suffixes_tail; exact Hin.
        -- assert (Hr : hshape c (HRun r)).
           { destruct I as [[k [v0 [_ X]]]|[two [v0 Hin]]]; [inv X; apply hshape_idle|]. right. exists two, v0. eapply suffixes_tail; exact Hin. }
           assert (Ho : hshape c (HOffer k1 v r)).
           { simpl. destruct I as [[k [v0 [Fk X]]]|[two [v0 Hin]]]; [inv X; left; auto|].
             right. destruct (report_ops_cases _ _ _ _ Hin) as [X|[X|[X|[X|[_ X]]]]]; try discriminate. inv X. split; [reflexivity|]. exists two. exact Hin. }
           destruct (k_snd (q_k c k1)); simpl; assumption.
      * simpl. destruct I as [[k [v0 [_ X]]]|[two [v0 Hin]]]; [inv X; apply hshape_idle|]. right. exists two, v0. eapply suffixes_tail; exact Hin.
  - destruct (hp s) as [|k1 v r] eqn:Eh; try discriminate. destruct (k_snd (q_k c k1)); try discriminate. inv H. simpl in *.
    destruct I as [[_ Er]|[Ek [two Hin]]]; [subst r; apply hshape_idle|]. right. exists two, v. eapply suffixes_tail; exact Hin.
Qed.

Lemma hshape_reach : forall c n s, qreach c n s -> hshape c (hp s).
Proof. intros c n. apply qreach_ind; [apply hshape_idle|]. intros s l s' _ I H. eapply hshape_step; eauto. Qed.


Section Flag.
  Variable c : qcfg.
  Variable n : nat.
  Hypothesis Hf : flag_ok c = true.
  Hypothesis Hcap : k_cap (q_k c KCpr) = 0.

  Lemma fo_all : q_arm c = 0%Z /\ q_clr_timeout c = true /\ (q_hclr c = 1%Z \/ q_hclr c = 2%Z \/ (q_hclr c = 0%Z /\ q_clr_reply c = true)).
  Proof.
    unfold flag_ok in Hf. apply Bool.andb_true_iff in Hf. destruct Hf as [H1 H4]. apply Bool.andb_true_iff in H1. destruct H1 as [H1 H3].
    apply Bool.andb_true_iff in H1. destruct H1 as [H1 H2]. apply Z.eqb_eq in H1. split; [exact H1|]. split; [exact H2|].
    destruct (Z.eqb_spec (q_hclr c) 1); [auto|]. destruct (Z.eqb_spec (q_hclr c) 2); [auto|].
    destruct (Z.eqb_spec (q_hclr c) 0); simpl in *; [auto|discriminate].
  Qed.
  Lemma fo_tmo : q_clr_timeout c = true.
  Proof. apply fo_all. Qed.
  Lemma fo_clr : q_hclr c = 1%Z \/ q_hclr c = 2%Z \/ (q_hclr c = 0%Z /\ q_clr_reply c = true).
  Proof. apply fo_all. Qed.

  Lemma out_mono : forall s g p, (outstanding KCpr (qget s g) = true -> outstanding KCpr p = true) ->
    existsb (outstanding KCpr) (qp s) = true -> existsb (outstanding KCpr) (upd_nat (qp s) g p) = true.
  Proof. intros s g p H E. eapply existsb_upd_mono; [|exact E]. exact H. Qed.

  Definition fl_inv (s : qstate) : Prop :=
    (flag s = true -> any_outstanding KCpr s = true \/ hp s = HRun [HSet false]) /\
    (q_hclr c = 1%Z -> sending KCpr (hp s) = true -> existsb hop_is_clear (hops (hp s)) = false -> flag s = false).

  Lemma fl_init : fl_inv (qinit n).
  Proof. split; simpl; intros; discriminate. Qed.

  Lemma out_other : forall k ops r, k <> KCpr ->
    outstanding KCpr (QRun k ops) = false /\ outstanding KCpr (QParked k) = false /\ outstanding KCpr (QPost k ops r) = false.
  Proof. intros k ops r N. apply kind_eqb_neq in N. simpl. rewrite N. destruct ops; auto. Qed.

  Lemma post_tmo : qpost c KCpr false = [OSet false].
  Proof. unfold qpost. simpl. rewrite fo_tmo. reflexivity. Qed.

  (* after the hand-over of a report v the handler is left with [rest]; the receiver g becomes QPost *)
  Lemma fl_handover : forall (qpl : list qpc) g rest v (fl : bool) h,
    (q_hclr c = 1%Z -> sending KCpr h = true -> existsb hop_is_clear (hops h) = false -> fl = false) ->
    g < length qpl -> sending KCpr h = true ->
    (q_hclr c = 1%Z -> existsb hop_is_clear (hops h) = false) ->
    rest = (if (q_hclr c =? 2)%Z then [HSet false] else []) ->
    fl = true ->
    existsb (outstanding KCpr) (upd_nat qpl g (QPost KCpr (qpost c KCpr true) (Some v))) = true \/ HRun rest = HRun [HSet false].
  Proof.
    intros qpl g rest v fl h I3 L Hs Hc Er Fl.
    destruct fo_clr as [E|[E|[E1 E2]]].
    - rewrite (I3 E Hs (Hc E)) in Fl. discriminate.
    - right. rewrite Er, E. reflexivity.
    - left. apply existsb_upd_new; [exact L|]. unfold qpost. simpl. rewrite E2. reflexivity.
  Qed.

  Lemma fl_step : forall s l s', qreach c n s -> fl_inv s -> no_rearm_at s l = true -> qstep c l s = Some s' -> fl_inv s'.
  Proof.
    intros s l s' R I G H.
    pose proof (chan_inv_reach _ _ _ R) as CI. pose proof (shape_reach _ _ _ R) as SH. pose proof (hshape_reach _ _ _ R) as HS.
    destruct I as [I2 I3].
    destruct l as [g k1|g|g|x| |]; simpl in H.
    - (* call *)
      destruct (Nat.ltb_spec g (length (qp s))) as [L|L]; [|discriminate].
      assert (X : outstanding KCpr (qget s g) = false -> fl_inv (set_qpc s g (QRun k1 (prog c k1)))).
      { intros Ho. split; simpl; [|exact I3]. intros Fl. destruct (I2 Fl) as [O|O]; [left|right; exact O].
        unfold any_outstanding in *. simpl. apply out_mono; [|exact O]. rewrite Ho. discriminate. }
      destruct (qget s g) as [|k0 ops|k0|k0 ops r] eqn:Eg; try discriminate; [|destruct ops; [|discriminate]]; inv H; apply X; reflexivity.
    - pose proof (SH g) as Sg. fold (qget s g) in Sg.
      destruct (qget s g) as [|k0 ops|k0|k0 ops r] eqn:Eg; try discriminate.
      + assert (L : g < length (qp s)) by (apply qget_lt; congruence).
        destruct ops as [|[b| |] ops]; try discriminate; inv H.
        * (* the querier stores the flag *)
          simpl in Sg. destruct (allowed_set _ _ _ Sg) as [Eb Fk]. subst b. apply kcpr_flagged in Fk. subst k0.
          unfold no_rearm_at in G. rewrite Eg in G. apply Bool.negb_true_iff in G.
          split; simpl.
          -- intros _. left. unfold any_outstanding. simpl. apply existsb_upd_new; [exact L|reflexivity].
          -- intros _ X. rewrite G in X. discriminate.
        * split; simpl; [|exact I3]. intros Fl. destruct (I2 Fl) as [O|O]; [left|right; exact O].
          unfold any_outstanding in *. simpl. apply out_mono; [|exact O]. rewrite Eg. simpl. auto.
        * (* the receive *)
          destruct (avail k0 s) as [|v rest] eqn:Ea.
          -- rewrite receive_park by exact Ea. split; simpl; [|exact I3]. intros Fl. destruct (I2 Fl) as [O|O]; [left|right; exact O].
             unfold any_outstanding in *. simpl. apply out_mono; [|exact O]. rewrite Eg. simpl. auto.
          -- destruct (receive_take c g k0 s v rest Ea) as [_ [_ [_ [_ [_ [A6 [_ [A8 [_ [_ [_ [_ A13]]]]]]]]]]]].
             unfold fl_inv, any_outstanding. rewrite A6, A8, A13.
             destruct (hp s) as [l|k' v' r'] eqn:Eh.
             ++ (* from the buffer: the handler is not involved *)
                split; [|exact I3]. intros Fl. destruct (I2 Fl) as [O|O]; [|right; exact O]. left.
                destruct (kind_eqb k0 KCpr) eqn:E0.
                ** apply kind_eqb_eq in E0; subst k0. exfalso. unfold avail in Ea. rewrite Eh in Ea. simpl in Ea. rewrite app_nil_r in Ea.
                   pose proof (ci_len _ _ CI KCpr) as X. unfold cap in X. rewrite Hcap, Ea in X. simpl in X. lia.
                ** apply kind_eqb_neq in E0. apply out_mono; [|exact O]. rewrite Eg.
                   destruct (out_other k0 [OSelect] None E0) as [X _]. simpl in X. simpl. rewrite X. discriminate.
             ++ destruct (kind_eqb k' k0) eqn:Ek.
                ** apply kind_eqb_eq in Ek; subst k'.
                   destruct (kind_eqb k0 KCpr) eqn:E0.
                   --- apply kind_eqb_eq in E0; subst k0. simpl in HS. destruct HS as [[X _]|[_ [two Hin]]]; [discriminate|].
                       destruct (report_ops_cases _ _ _ _ Hin) as [X|[X|[X|[X|[_ X]]]]]; try discriminate. inv X.
                       assert (Bk : buf s KCpr = []).
                       { pose proof (ci_len _ _ CI KCpr) as X. unfold cap in X. rewrite Hcap in X. destruct (buf s KCpr); [reflexivity|simpl in X; lia]. }
                       unfold avail in Ea. rewrite Bk, Eh in Ea. simpl in Ea. inv Ea.
                       split.
                       +++ intros Fl. eapply fl_handover; [exact I3|exact L|reflexivity| |reflexivity|exact Fl].
                           intros E. simpl. rewrite E. reflexivity.
                       +++ intros E _ _. apply I3; [exact E|rewrite ?Eh; reflexivity|rewrite ?Eh; simpl; rewrite E; reflexivity].
                   --- (* an offer of another kind: nothing about the flag *)
                       assert (Er : r' = []).
                       { simpl in HS. destruct HS as [[_ X]|[X _]]; [exact X|]. subst k0. discriminate. }
                       subst r'. split; [|simpl; intros; discriminate].
                       intros Fl. destruct (I2 Fl) as [O|O]; [|rewrite ?Eh in O; discriminate]. left.
                       apply kind_eqb_neq in E0. apply out_mono; [|exact O]. rewrite Eg.
                       destruct (out_other k0 [OSelect] None E0) as [X _]. simpl in X. simpl. rewrite X. discriminate.
                ** (* the offer is for another channel: value from the buffer *)
                   split; [|rewrite ?Eh; exact I3]. intros Fl. destruct (I2 Fl) as [O|O]; [|rewrite ?Eh in O; discriminate]. left.
                   destruct (kind_eqb k0 KCpr) eqn:E0.
                   --- apply kind_eqb_eq in E0; subst k0. exfalso. unfold avail in Ea. rewrite Eh in Ea. simpl in Ea. rewrite Ek, app_nil_r in Ea.
                       pose proof (ci_len _ _ CI KCpr) as X. unfold cap in X. rewrite Hcap, Ea in X. simpl in X. lia.
                   --- apply kind_eqb_neq in E0. apply out_mono; [|exact O]. rewrite Eg.
                       destruct (out_other k0 [OSelect] None E0) as [X _]. simpl in X. simpl. rewrite X. discriminate.
      + destruct ops as [|[b| |] ops]; try discriminate; inv H. simpl in Sg. destruct Sg as [X|[X _]]; [discriminate|]. inv X.
        split; simpl; intros; [discriminate|reflexivity].
    - (* time-out of a querier *)
      assert (X : forall k0, outstanding KCpr (qget s g) = true -> (k0 = KCpr -> g < length (qp s)) ->
                  (qget s g = QParked k0 \/ exists ops, qget s g = QRun k0 ops) ->
                  forall w, fl_inv (set_qpc (set_wait s w) g (QPost k0 (qpost c k0 false) None))).
      { intros k0 Ho L Hq w. split; simpl; [|exact I3]. intros Fl. destruct (I2 Fl) as [O|O]; [left|right; exact O].
        unfold any_outstanding in *. simpl. destruct (kind_eqb k0 KCpr) eqn:E0.
        - apply kind_eqb_eq in E0; subst k0. apply existsb_upd_new; [apply L; reflexivity|]. rewrite post_tmo. reflexivity.
        - exfalso. apply kind_eqb_neq in E0. destruct Hq as [Hq|[ops Hq]]; rewrite Hq in Ho; simpl in Ho; apply kind_eqb_neq in E0; rewrite E0 in Ho; discriminate. }
      assert (Y : forall k0, outstanding KCpr (qget s g) = false -> forall w, fl_inv (set_qpc (set_wait s w) g (QPost k0 (qpost c k0 false) None))).
      { intros k0 Ho w. split; simpl; [|exact I3]. intros Fl. destruct (I2 Fl) as [O|O]; [left|right; exact O].
        unfold any_outstanding in *. simpl. apply out_mono; [|exact O]. rewrite Ho. discriminate. }
      destruct (qget s g) as [|k0 ops|k0|k0 ops r] eqn:Eg; try discriminate.
      + destruct ops as [|[b| |] ops]; try discriminate. destruct (k_rcv (q_k c k0)); try discriminate. inv H.
        change (set_qpc s g (QPost k0 (qpost c k0 false) None)) with (set_qpc (set_wait s (wait s)) g (QPost k0 (qpost c k0 false) None)).
        destruct (outstanding KCpr (QRun k0 (OSelect :: ops))) eqn:Eo.
        * apply X; [reflexivity|intros; apply qget_lt; congruence|right; eauto].
        * apply Y. reflexivity.
      + destruct (k_rcv (q_k c k0)); try discriminate. inv H.
        destruct (outstanding KCpr (QParked k0)) eqn:Eo.
        * apply X; [reflexivity|intros; apply qget_lt; congruence|left; reflexivity].
        * apply Y. reflexivity.
    - inv H. split; simpl; assumption.
    - destruct (hp s) as [[|[b|ok|k1 v] r]|k1 v r] eqn:Eh; try discriminate.
      + destruct (inq s) as [|x q]; [discriminate|]. inv H. unfold handle, handle_r.
        assert (Rep : forall two v y, flag s = true -> fl_inv (set_hp (set_consumed (set_inq s q) (consumed s ++ [y])) (HRun (report_ops c two v)))).
        { intros two v y Fl. split; simpl.
          - intros _. destruct (I2 Fl) as [O|O]; [left; exact O|rewrite ?Eh in O; discriminate].
          - intros E _ X. unfold report_ops in X. rewrite E in X. simpl in X. discriminate. }
        destruct x as [k v|two v|k0]; simpl.
        * destruct (flagged k) eqn:Fk.
          -- destruct (flag s) eqn:Fl; [apply Rep; reflexivity|]. split; simpl; [rewrite Fl; discriminate|intros; exact Fl].
          -- split; simpl; [intros Fl; destruct (I2 Fl) as [O|O]; [left; exact O|rewrite ?Eh in O; discriminate]|].
             intros _ X. rewrite Bool.orb_false_r in X. apply kind_eqb_eq in X. subst k. discriminate.
        * destruct (flag s) eqn:Fl; [apply Rep; reflexivity|]. split; simpl; [rewrite Fl; discriminate|intros; exact Fl].
        * split; simpl; [intros Fl; destruct (I2 Fl) as [O|O]; [left; exact O|rewrite ?Eh in O; discriminate]|rewrite ?Eh; simpl; intros; discriminate].
      + (* the handler stores the flag: only ever false *)
        inv H. simpl in HS. destruct HS as [[k [v [_ X]]]|[two [v Hin]]]; [discriminate|].
        destruct (report_ops_cases _ _ _ _ Hin) as [X|[X|[X|[X|[_ X]]]]]; try discriminate; inv X; split; simpl; intros; try discriminate; reflexivity.
      + inv H. split; simpl.
        * intros Fl. destruct (I2 Fl) as [O|O]; [left; exact O|discriminate].
        * intros E Hs Hc. apply I3; [exact E| |].
          -- destruct ok; simpl in *; [exact Hs|discriminate].
          -- destruct ok; simpl in *; [exact Hc|discriminate].
      + (* the send *)
        inv H. unfold fl_inv, any_outstanding. rewrite send_flag. unfold send.
        destruct (wait s k1) as [|g w] eqn:Ew.
        * assert (Same : forall h', (h' = HRun r \/ h' = HOffer k1 v r) ->
                    (flag s = true -> existsb (outstanding KCpr) (qp s) = true \/ h' = HRun [HSet false]) /\
                    (q_hclr c = 1%Z -> sending KCpr h' = true -> existsb hop_is_clear (hops h') = false -> flag s = false)).
          { intros h' Hh. split.
            - intros Fl. destruct (I2 Fl) as [O|O]; [left; exact O|discriminate].
            - intros E Hs Hc. apply I3; [exact E| |].
              + destruct Hh; subst h'; simpl in *; [rewrite Hs; apply Bool.orb_true_r|reflexivity || (rewrite Bool.orb_true_iff in Hs; destruct Hs as [Hs|Hs]; [rewrite Hs; reflexivity|rewrite Hs; apply Bool.orb_true_r])].
              + destruct Hh; subst h'; simpl in *; exact Hc. }
          destruct (Nat.ltb (length (buf s k1)) (cap c k1)); [simpl; apply Same; auto|].
          destruct (k_snd (q_k c k1)); simpl; apply Same; auto.
        * simpl. assert (Hg : qget s g = QParked k1) by (apply (ci_w1 _ _ CI); rewrite Ew; left; reflexivity).
          assert (L : g < length (qp s)) by (apply qget_lt; congruence).
          destruct (kind_eqb k1 KCpr) eqn:E0.
          -- apply kind_eqb_eq in E0; subst k1. simpl in HS. destruct HS as [[k [v0 [Fk X]]]|[two [v0 Hin]]]; [inv X; discriminate|].
             destruct (report_ops_cases _ _ _ _ Hin) as [X|[X|[X|[X|[_ X]]]]]; try discriminate. inv X.
             split.
             ++ intros Fl. eapply fl_handover; [exact I3|exact L|simpl; reflexivity| |reflexivity|exact Fl].
                intros E. simpl. rewrite E. reflexivity.
             ++ intros E Hs _. rewrite E in Hs. simpl in Hs. discriminate.
          -- assert (Er : r = []).
             { simpl in HS. destruct HS as [[k [v0 [_ X]]]|[two [v0 Hin]]]; [inv X; reflexivity|].
               destruct (report_ops_cases _ _ _ _ Hin) as [X|[X|[X|[X|[_ X]]]]]; try discriminate. inv X. discriminate. }
             subst r. split; [|simpl; intros; discriminate].
             intros Fl. destruct (I2 Fl) as [O|O]; [|discriminate]. left.
             apply kind_eqb_neq in E0. apply out_mono; [|exact O]. rewrite Hg.
             destruct (out_other k1 [] None E0) as [_ [X _]]. rewrite X. discriminate.
    - destruct (hp s) as [|k1 v r] eqn:Eh; try discriminate. destruct (k_snd (q_k c k1)); try discriminate. inv H. simpl in HS.
      destruct HS as [[Fk Er]|[Ek [two Hin]]].
      + subst r. split; simpl; [|intros; discriminate]. intros Fl. destruct (I2 Fl) as [O|O]; [left; exact O|discriminate].
      + subst k1. destruct (report_ops_cases _ _ _ _ Hin) as [X|[X|[X|[X|[_ X]]]]]; try discriminate. inv X.
        split; simpl.
        * intros Fl. destruct fo_clr as [E|[E|[E1 E2]]].
          -- rewrite (I3 E) in Fl; [discriminate|reflexivity|simpl; rewrite E; reflexivity].
          -- right. rewrite E. reflexivity.
          -- destruct (I2 Fl) as [O|O]; [left; exact O|discriminate].
        * intros E Hs. rewrite E in Hs. simpl in Hs. discriminate.
  Qed.
End Flag.


(* ---------- no lost input ---------- *)
Section NoLostKey.
  Variable c : qcfg.
  Variable n : nat.
  Hypothesis Hf : flag_ok c = true.
  Hypothesis Hcap : k_cap (q_k c KCpr) = 0.

  Lemma fl_run : forall tr s s', qreach c n s -> fl_inv c s -> qrun c tr s = Some s' -> qrun_all c no_rearm_at tr s = true -> fl_inv c s'.
  Proof.
    induction tr as [|l tr IH]; intros s s' R I Hrun Hall; simpl in *.
    - inv Hrun. exact I.
    - destruct (qstep c l s) as [s1|] eqn:E; [|discriminate]. apply Bool.andb_true_iff in Hall. destruct Hall as [H1 H2].
      eapply IH; [eapply qreach_step; eauto|eapply fl_step; eauto|exact Hrun|exact H2].
  Qed.

  Lemma fl_reach_guarded : forall tr s, qrun c tr (qinit n) = Some s -> qrun_all c no_rearm_at tr (qinit n) = true -> fl_inv c s.
  Proof.
    intros tr s Hrun Hall. eapply fl_run; [exists []; reflexivity|apply fl_init|exact Hrun|exact Hall].
  Qed.

  (* a CSI ... R sequence is taken for a report only while a cursor-position query is outstanding *)
  Theorem consumed_only_while_outstanding : forall tr s l s',
    qrun c tr (qinit n) = Some s -> qrun_all c no_rearm_at tr (qinit n) = true ->
    qstep c l s = Some s' -> consumed s' = consumed s \/ any_outstanding KCpr s = true.
  Proof.
    intros tr s l s' Hrun Hall H. destruct (fl_reach_guarded _ _ Hrun Hall) as [I2 _].
    destruct l as [g k1|g|g|x| |]; simpl in H.
    - destruct (Nat.ltb g (length (qp s))); [|discriminate].
      destruct (qget s g) as [|k0 ops|k0|k0 ops r] eqn:Eg; try discriminate; [|destruct ops; [|discriminate]]; inv H; left; reflexivity.
    - destruct (qget s g) as [|k0 ops|k0|k0 ops r] eqn:Eg; try discriminate.
      + destruct ops as [|[b| |] ops]; try discriminate; inv H; try (left; reflexivity).
        left. destruct (avail k0 s) as [|v rest] eqn:Ea.
        * rewrite receive_park by exact Ea. reflexivity.
        * destruct (receive_take c g k0 s v rest Ea) as [_ [_ [_ [_ [_ [_ [_ [_ [_ [_ [A11 _]]]]]]]]]]]. exact A11.
      + destruct ops as [|[b| |] ops]; try discriminate; inv H. left; reflexivity.
    - destruct (qget s g) as [|k0 ops|k0|k0 ops r] eqn:Eg; try discriminate.
      + destruct ops as [|[b| |] ops]; try discriminate. destruct (k_rcv (q_k c k0)); try discriminate. inv H. left; reflexivity.
      + destruct (k_rcv (q_k c k0)); try discriminate. inv H. left; reflexivity.
    - inv H. left; reflexivity.
    - destruct (hp s) as [[|[b|ok|k1 v] r]|k1 v r] eqn:Eh; try discriminate.
      + destruct (inq s) as [|x q]; [discriminate|]. inv H. unfold handle, handle_r.
        assert (X : flag s = true -> any_outstanding KCpr s = true).
        { intros Fl. destruct (I2 Fl) as [O|O]; [exact O|discriminate]. }
        destruct x as [k v|two v|k0]; simpl.
        * destruct (flagged k); [|left; reflexivity]. destruct (flag s); [right; apply X; reflexivity|left; reflexivity].
        * destruct (flag s); [right; apply X; reflexivity|left; reflexivity].
        * left; reflexivity.
      + inv H. left; reflexivity.
      + inv H. left; reflexivity.
      + inv H. left. unfold send. destruct (wait s k1); [|reflexivity].
        destruct (Nat.ltb (length (buf s k1)) (cap c k1)); [reflexivity|]. destruct (k_snd (q_k c k1)); reflexivity.
    - destruct (hp s) as [|k1 v r] eqn:Eh; try discriminate. destruct (k_snd (q_k c k1)); try discriminate. inv H. left; reflexivity.
  Qed.

  (* ... so at rest every key, CSI 1;2 R included, is delivered as a key event *)
  Theorem no_lost_key : forall tr s x rest,
    qrun c tr (qinit n) = Some s -> qrun_all c no_rearm_at tr (qinit n) = true ->
    any_outstanding KCpr s = false -> hp s = HRun [] -> inq s = x :: rest ->
    is_plain_key x || is_r x = true ->
    exists s', qstep c LH s = Some s' /\ out s' = out s ++ [x] /\ consumed s' = consumed s /\ hp s' = HRun [] /\ inq s' = rest.
  Proof.
    intros tr s x rest Hrun Hall Ho Eh Ei Hx. destruct (fl_reach_guarded _ _ Hrun Hall) as [I2 _].
    assert (Fl : flag s = false).
    { destruct (flag s) eqn:F; [|reflexivity]. destruct (I2 eq_refl) as [O|O]; [congruence|rewrite Eh in O; discriminate]. }
    simpl. rewrite Eh, Ei. eexists. split; [reflexivity|]. unfold handle, handle_r.
    destruct x as [k v|two v|k0]; simpl in *.
    - rewrite Hx. simpl. rewrite Fl. simpl. rewrite Eh. auto.
    - rewrite Fl. simpl. rewrite Eh. auto.
    - rewrite Eh. auto.
  Qed.
End NoLostKey.

(* ---------- plain keys: never lost, duplicated or reordered (any configuration) ---------- *)
Lemma filter_snoc : forall A (P : A -> bool) l x, filter P (l ++ [x]) = filter P l ++ (if P x then [x] else []).
Proof. intros. rewrite filter_app. reflexivity. Qed.

Lemma keys_step : forall c s l s', qstep c l s = Some s' ->
  filter is_plain_key (out s') ++ filter is_plain_key (inq s')
  = filter is_plain_key (out s) ++ filter is_plain_key (inq s) ++ arrived_keys [l].
Proof.
  intros c s l s' H. destruct l as [g k1|g|g|x| |]; simpl in H; unfold arrived_keys; simpl; rewrite ?app_nil_r.
  - destruct (Nat.ltb g (length (qp s))); [|discriminate].
    destruct (qget s g) as [|k0 ops|k0|k0 ops r] eqn:Eg; try discriminate; [|destruct ops; [|discriminate]]; inv H; reflexivity.
  - destruct (qget s g) as [|k0 ops|k0|k0 ops r] eqn:Eg; try discriminate.
    + destruct ops as [|[b| |] ops]; try discriminate; inv H; try reflexivity.
      destruct (avail k0 s) as [|v rest] eqn:Ea.
      * rewrite receive_park by exact Ea. reflexivity.
      * destruct (receive_take c g k0 s v rest Ea) as [_ [_ [_ [_ [_ [_ [_ [_ [A9 [A10 _]]]]]]]]]]. rewrite A9, A10. reflexivity.
    + destruct ops as [|[b| |] ops]; try discriminate; inv H. reflexivity.
  - destruct (qget s g) as [|k0 ops|k0|k0 ops r] eqn:Eg; try discriminate.
    + destruct ops as [|[b| |] ops]; try discriminate. destruct (k_rcv (q_k c k0)); try discriminate. inv H. reflexivity.
    + destruct (k_rcv (q_k c k0)); try discriminate. inv H. reflexivity.
  - inv H. simpl. rewrite filter_snoc. destruct x; simpl; rewrite ?app_nil_r; reflexivity.
  - destruct (hp s) as [[|[b|ok|k1 v] r]|k1 v r] eqn:Eh; try discriminate.
    + destruct (inq s) as [|x q]; [discriminate|]. inv H. unfold handle, handle_r.
      destruct x as [k v|two v|k0]; simpl.
      * destruct (flagged k); [destruct (flag s)|]; simpl; rewrite ?filter_snoc; simpl; rewrite ?app_nil_r; reflexivity.
      * destruct (flag s); simpl; rewrite ?filter_snoc; simpl; rewrite ?app_nil_r; reflexivity.
      * rewrite filter_snoc. simpl. rewrite <- app_assoc. reflexivity.
    + inv H. reflexivity.
    + inv H. reflexivity.
    + inv H. unfold send. destruct (wait s k1); [|reflexivity].
      destruct (Nat.ltb (length (buf s k1)) (cap c k1)); [reflexivity|]. destruct (k_snd (q_k c k1)); reflexivity.
  - destruct (hp s) as [|k1 v r] eqn:Eh; try discriminate. destruct (k_snd (q_k c k1)); try discriminate. inv H. reflexivity.
Qed.

Lemma arrived_keys_cons : forall l tr, arrived_keys (l :: tr) = arrived_keys [l] ++ arrived_keys tr.
Proof. intros. unfold arrived_keys. simpl. rewrite app_nil_r. reflexivity. Qed.

Theorem keys_conserved : forall c tr s s', qrun c tr s = Some s' ->
  filter is_plain_key (out s') ++ filter is_plain_key (inq s')
  = filter is_plain_key (out s) ++ filter is_plain_key (inq s) ++ arrived_keys tr.
Proof.
  induction tr as [|l tr IH]; intros s s' H; simpl in H.
  - inv H. unfold arrived_keys. simpl. rewrite app_nil_r. reflexivity.
  - destruct (qstep c l s) as [s1|] eqn:E; [|discriminate]. rewrite (arrived_keys_cons l tr), (IH _ _ H), app_assoc, (keys_step _ _ _ _ E).
    rewrite <- !app_assoc. reflexivity.
Qed.


(* ---------- a reply handled while a receiver is parked goes to exactly that receiver ---------- *)
Theorem parked_gets_reply : forall c s k v r g w,
  chan_inv c s -> hp s = HRun (HSend k v :: r) -> wait s k = g :: w ->
  exists s', qstep c LH s = Some s' /\ qget s' g = QPost k (qpost c k true) (Some v) /\ wait s' k = w /\ rets s' k = rets s k ++ [v].
Proof.
  intros c s k v r g w CI Eh Ew. simpl. rewrite Eh. eexists. split; [reflexivity|].
  assert (Hg : qget s g = QParked k) by (apply (ci_w1 _ _ CI); rewrite Ew; left; reflexivity).
  assert (L : g < length (qp s)) by (apply qget_lt; congruence).
  unfold send. rewrite Ew. unfold qget. simpl. rewrite nth_upd_same by exact L. rewrite !kupd_same. auto.
Qed.

(* ---------- early replies ---------- *)
Lemma send_avail : forall c s k v r,
  hp s = HRun (HSend k v :: r) -> wait s k = [] ->
  (length (buf s k) < cap c k \/ k_snd (q_k c k) <> SNonblock) ->
  avail k (send c k v r s) = avail k s ++ [v] /\ dropped (send c k v r s) k = dropped s k.
Proof.
  intros c s k v r Eh Ew Room. destruct (send_effect c k v r s _ Eh) as [_ [_ B3]].
  destruct B3 as [[g [w [Ew' _]]]|[[_ [_ [A D]]]|[_ [_ [_ [_ [Em Hc]]]]]]].
  - congruence.
  - auto.
  - destruct Room; [lia|congruence].
Qed.

Lemma available_is_received : forall c s g k ops v more,
  qget s g = QRun k (OSelect :: ops) -> avail k s = v :: more ->
  exists s', qstep c (LQ g) s = Some s' /\ qget s' g = QPost k (qpost c k true) (Some v) /\ avail k s' = more
             /\ rets s' k = rets s k ++ [v].
Proof.
  intros c s g k ops v more Hg Ha. simpl. rewrite Hg. eexists. split; [reflexivity|].
  assert (L : g < length (qp s)) by (apply qget_lt; congruence).
  destruct (receive_take c g k s v more Ha) as [A1 [_ [A3 [_ [_ [A6 _]]]]]].
  split; [unfold qget; rewrite A6; apply nth_upd_same; exact L|]. split; [exact A1|]. rewrite A3. apply kupd_same.
Qed.

Lemma quiet_step : forall c k s l s', chan_inv c s -> quiet_at k s l = true -> qstep c l s = Some s' ->
  exists more, avail k s' = avail k s ++ more.
Proof.
  intros c k s l s' CI Q H. destruct l as [g k1|g|g|x| |]; simpl in H.
  - destruct (Nat.ltb g (length (qp s))); [|discriminate].
    destruct (qget s g) as [|k0 ops|k0|k0 ops r] eqn:Eg; try discriminate; [|destruct ops; [|discriminate]]; inv H; exists []; rewrite app_nil_r; reflexivity.
  - simpl in Q. destruct (qget s g) as [|k0 ops|k0|k0 ops r] eqn:Eg; try discriminate.
    + destruct ops as [|[b| |] ops]; try discriminate; inv H; try (exists []; rewrite app_nil_r; reflexivity).
      simpl in Q. apply Bool.negb_true_iff in Q. apply kind_eqb_neq in Q.
      exists []. rewrite app_nil_r. destruct (avail k0 s) as [|v rest] eqn:Ea.
      * rewrite receive_park by exact Ea. reflexivity.
      * destruct (receive_take c g k0 s v rest Ea) as [_ [A2 _]]. apply A2. congruence.
    + destruct ops as [|[b| |] ops]; try discriminate; inv H. exists []; rewrite app_nil_r; reflexivity.
  - destruct (qget s g) as [|k0 ops|k0|k0 ops r] eqn:Eg; try discriminate.
    + destruct ops as [|[b| |] ops]; try discriminate. destruct (k_rcv (q_k c k0)); try discriminate. inv H. exists []; rewrite app_nil_r; reflexivity.
    + destruct (k_rcv (q_k c k0)); try discriminate. inv H. exists []; rewrite app_nil_r; reflexivity.
  - inv H. exists []; rewrite app_nil_r; reflexivity.
  - destruct (hp s) as [[|[b|ok|k1 v] r]|k1 v r] eqn:Eh; try discriminate.
    + destruct (inq s) as [|x q]; [discriminate|]. inv H. exists []. rewrite app_nil_r. unfold avail.
      destruct (handle_effect c x (set_inq s q)) as [Hh [E1 _]]. rewrite E1. simpl. rewrite ?Eh.
      destruct Hh as [[l' Hh]|Hh]; rewrite Hh; simpl; rewrite ?Eh; reflexivity.
    + inv H. exists []. rewrite app_nil_r. unfold avail. simpl. rewrite ?Eh. reflexivity.
    + inv H. exists []. rewrite app_nil_r. unfold avail. simpl. rewrite ?Eh. reflexivity.
    + inv H. destruct (send_effect c k1 v r s _ Eh) as [_ [B2 B3]].
      destruct (kind_eqb k k1) eqn:E0.
      * apply kind_eqb_eq in E0; subst k1.
        destruct B3 as [[g [w [_ [_ [A _]]]]]|[[_ [_ [A _]]]|[_ [_ [A _]]]]]; rewrite A; [exists []; rewrite app_nil_r|exists [v]|exists []; rewrite app_nil_r]; reflexivity.
      * apply kind_eqb_neq in E0. destruct (B2 k E0) as [A _]. rewrite A. exists []; rewrite app_nil_r; reflexivity.
  - simpl in Q. destruct (hp s) as [|k1 v r] eqn:Eh; try discriminate. destruct (k_snd (q_k c k1)); try discriminate. inv H.
    exists []. rewrite app_nil_r. unfold avail. simpl. rewrite ?Eh. simpl in *. destruct (kind_eqb k1 k); [discriminate|reflexivity].
Qed.

Lemma quiet_run : forall c n k tr s s', qreach c n s -> qrun_all c (quiet_at k) tr s = true -> qrun c tr s = Some s' ->
  exists more, avail k s' = avail k s ++ more.
Proof.
  induction tr as [|l tr IH]; intros s s' R Hall Hrun; simpl in *.
  - inv Hrun. exists []. rewrite app_nil_r. reflexivity.
  - destruct (qstep c l s) as [s1|] eqn:E; [|discriminate]. apply Bool.andb_true_iff in Hall. destruct Hall as [H1 H2].
    destruct (quiet_step c k s l s1 (chan_inv_reach _ _ _ R) H1 E) as [m1 E1].
    destruct (IH s1 s' (qreach_step _ _ _ _ _ R E) H2 Hrun) as [m2 E2].
    exists (m1 ++ m2). rewrite E2, E1, app_assoc. reflexivity.
Qed.

(* a reply that is handled BEFORE the querier has reached its receive is received all the same:
   unless the offer's timer fires first (timed hand-off) or another receiver takes it *)
Theorem early_reply_delivered : forall c n s k v r,
  kcfg_ok (q_k c k) = true -> qreach c n s ->
  hp s = HRun (HSend k v :: r) -> wait s k = [] -> avail k s = [] ->
  exists s1, qstep c LH s = Some s1 /\ avail k s1 = [v] /\ dropped s1 k = dropped s k /\
    forall tr s2, qrun_all c (quiet_at k) tr s1 = true -> qrun c tr s1 = Some s2 ->
      forall g ops, qget s2 g = QRun k (OSelect :: ops) ->
        exists s3, qstep c (LQ g) s2 = Some s3 /\ qget s3 g = QPost k (qpost c k true) (Some v).
Proof.
  intros c n s k v r Hok R Eh Ew Ea.
  assert (Room : length (buf s k) < cap c k \/ k_snd (q_k c k) <> SNonblock).
  { unfold avail in Ea. apply app_eq_nil in Ea. destruct Ea as [Eb _]. rewrite Eb. simpl.
    unfold kcfg_ok in Hok. unfold cap. destruct (k_snd (q_k c k)); try discriminate.
    - left. destruct (k_rcv (q_k c k)); try discriminate; apply Nat.leb_le in Hok; lia.
    - right. discriminate. }
  destruct (send_avail c s k v r Eh Ew Room) as [A D].
  exists (send c k v r s). split; [simpl; rewrite Eh; reflexivity|]. split; [rewrite A, Ea; reflexivity|]. split; [exact D|].
  intros tr s2 Hall Hrun g ops Hg.
  assert (R1 : qreach c n (send c k v r s)) by (apply (qreach_step c n s LH); [exact R|simpl; rewrite Eh; reflexivity]).
  destruct (quiet_run c n k tr _ _ R1 Hall Hrun) as [more Em]. rewrite A, Ea in Em. simpl in Em.
  destruct (available_is_received c s2 g k ops v more Hg Em) as [s3 [S1 [S2 _]]]. eauto.
Qed.

(* ---------- rendezvous channels keep nothing ---------- *)
Theorem unbuffered_no_stale : forall c s l s' k,
  chan_inv c s -> cap c k = 0 -> qstep c l s = Some s' ->
  rets s' k = rets s k \/
  exists v, rets s' k = rets s k ++ [v] /\ ((exists r, hp s = HOffer k v r) \/ (exists r, hp s = HRun (HSend k v :: r))).
Proof.
  intros c s l s' k CI Hc H.
  assert (Bk : buf s k = []) by (pose proof (ci_len _ _ CI k) as X; rewrite Hc in X; destruct (buf s k); [reflexivity|simpl in X; lia]).
  destruct l as [g k1|g|g|x| |]; simpl in H.
  - destruct (Nat.ltb g (length (qp s))); [|discriminate].
    destruct (qget s g) as [|k0 ops|k0|k0 ops r] eqn:Eg; try discriminate; [|destruct ops; [|discriminate]]; inv H; left; reflexivity.
  - destruct (qget s g) as [|k0 ops|k0|k0 ops r] eqn:Eg; try discriminate.
    + destruct ops as [|[b| |] ops]; try discriminate; inv H; try (left; reflexivity).
      destruct (avail k0 s) as [|v rest] eqn:Ea.
      * rewrite receive_park by exact Ea. left; reflexivity.
      * destruct (receive_take c g k0 s v rest Ea) as [_ [_ [A3 _]]]. rewrite A3. unfold kupd.
        destruct (kind_eqb k k0) eqn:E0; [|left; reflexivity]. apply kind_eqb_eq in E0; subst k0.
        right. exists v. split; [reflexivity|]. left. unfold avail in Ea. rewrite Bk in Ea. simpl in Ea.
        destruct (hp s) as [|k' v' r']; simpl in Ea; [discriminate|]. destruct (kind_eqb k' k) eqn:E1; [|discriminate].
        apply kind_eqb_eq in E1; subst k'. inv Ea. eauto.
    + destruct ops as [|[b| |] ops]; try discriminate; inv H. left; reflexivity.
  - destruct (qget s g) as [|k0 ops|k0|k0 ops r] eqn:Eg; try discriminate.
    + destruct ops as [|[b| |] ops]; try discriminate. destruct (k_rcv (q_k c k0)); try discriminate. inv H. left; reflexivity.
    + destruct (k_rcv (q_k c k0)); try discriminate. inv H. left; reflexivity.
  - inv H. left; reflexivity.
  - destruct (hp s) as [[|[b|ok|k1 v] r]|k1 v r] eqn:Eh; try discriminate.
    + destruct (inq s) as [|x q]; [discriminate|]. inv H.
      destruct (handle_effect c x (set_inq s q)) as [_ [_ [_ [E3 _]]]]. rewrite E3. left; reflexivity.
    + inv H. left; reflexivity.
    + inv H. left; reflexivity.
    + inv H. destruct (send_effect c k1 v r s _ Eh) as [_ [B2 B3]].
      destruct (kind_eqb k k1) eqn:E0.
      * apply kind_eqb_eq in E0; subst k1.
        destruct B3 as [[g [w [_ [R _]]]]|[[_ [R _]]|[_ [R _]]]]; rewrite R; [|left; reflexivity|left; reflexivity].
        right. exists v. split; [reflexivity|]. right. eauto.
      * apply kind_eqb_neq in E0. destruct (B2 k E0) as [_ [R _]]. left; exact R.
  - destruct (hp s) as [|k1 v r] eqn:Eh; try discriminate. destruct (k_snd (q_k c k1)); try discriminate. inv H. left; reflexivity.
Qed.

(* ---------- the input goroutine is never blocked for longer than a bounded offer ---------- *)
Theorem handler_progress : forall c s,
  chan_inv c s -> (forall k, kcfg_ok (q_k c k) = true) ->
  (hp s <> HRun [] \/ inq s <> []) -> qenabled c LH s = true \/ qenabled c LHTimeout s = true.
Proof.
  intros c s CI Hok Hne. unfold qenabled. simpl. destruct (hp s) as [[|[b|ok|k v] r]|k v r] eqn:Eh.
  - destruct (inq s); [destruct Hne; congruence|left; reflexivity].
  - left; reflexivity.
  - left; reflexivity.
  - left; reflexivity.
  - right. destruct (ci_offer _ _ CI _ _ _ Eh) as [_ X]. specialize (Hok k). unfold kcfg_ok in Hok.
    destruct (k_snd (q_k c k)); try discriminate; [congruence|reflexivity].
Qed.

Lemma report_ops_len : forall c two v, length (report_ops c two v) <= 4.
Proof. intros. unfold report_ops. destruct (q_hclr c =? 1)%Z, (q_hclr c =? 2)%Z; simpl; lia. Qed.

Theorem handler_rank : forall c s l s', (l = LH \/ l = LHTimeout) -> qstep c l s = Some s' -> hrank s' < hrank s.
Proof.
  intros c s l s' [El|El] H; subst l; simpl in H; unfold hrank.
  - destruct (hp s) as [[|[b|ok|k v] r]|k v r] eqn:Eh; try discriminate.
    + destruct (inq s) as [|x q] eqn:Ei; [discriminate|]. inv H. unfold handle, handle_r.
      destruct x as [k v|two v|k0]; simpl.
      * destruct (flagged k); [destruct (flag s)|]; simpl; rewrite ?Eh; simpl; try lia. pose proof (report_ops_len c true v) as X. revert X. generalize (length (report_ops c true v)). generalize (length q). intros; lia.
      * destruct (flag s); simpl; rewrite ?Eh; simpl; try lia. pose proof (report_ops_len c two v) as X. revert X. generalize (length (report_ops c two v)). generalize (length q). intros; lia.
      * rewrite Eh. simpl. lia.
    + inv H. simpl. lia.
    + inv H. simpl. destruct ok; simpl; lia.
    + inv H. unfold send. destruct (wait s k); [|simpl; lia].
      destruct (Nat.ltb (length (buf s k)) (cap c k)); [simpl; lia|]. destruct (k_snd (q_k c k)); simpl; lia.
  - destruct (hp s) as [|k v r] eqn:Eh; try discriminate. destruct (k_snd (q_k c k)); try discriminate. inv H. simpl. lia.
Qed.

(* ------------------------------------------------------------------------------------ *)
(* witnesses: findings on the translated configuration, and why each clause of qcfg_ok is  *)
(* needed                                                                                  *)
(* ------------------------------------------------------------------------------------ *)
Local Open Scope Z_scope.

(* finding stale-colour-reply: an OSC 11 report that arrives while no QueryBackground is waiting is kept
   in the one-slot buffer; the next query returns it at once — before its own answer (8) has arrived —
   and that answer is parked in turn for the query after it *)
Lemma stale_colour_reply_witness :
  exists s1 s2,
    qrun gen_qcfg [LArrive (SReply KBg 7); LH; LH] (qinit 1) = Some s1 /\ nwr s1 KBg = 0%nat /\ handled s1 KBg = [7] /\
    qrun gen_qcfg [LCall 0 KBg; LQ 0; LQ 0; LArrive (SReply KBg 8); LH; LH] s1 = Some s2 /\
    qget s2 0 = QPost KBg [] (Some 7) /\ dropped s2 KBg = [] /\ buf s2 KBg = [8] /\ hp s2 = HRun [].
Proof. eexists. eexists. split; [vm_compute; reflexivity|]. vm_compute. repeat split; reflexivity. Qed.

(* finding colour-query-concurrent: two goroutines inside QueryBackground, both between their write and
   their receive when the two answers are handled: the second answer finds the slot taken and is dropped;
   afterwards one caller has its colour and the other is blocked with nothing left that could release it *)
Lemma colour_two_queriers_witness :
  exists s,
    qrun gen_qcfg [LCall 0 KBg; LCall 1 KBg; LQ 0; LQ 1; LArrive (SReply KBg 1); LArrive (SReply KBg 2); LH; LH; LH; LH; LQ 0; LQ 1] (qinit 2) = Some s /\
    qget s 0 = QPost KBg [] (Some 1) /\ qget s 1 = QParked KBg /\ nwr s KBg = 2%nat /\ handled s KBg = [1; 2] /\ dropped s KBg = [2] /\
    inq s = [] /\ stuck gen_qcfg s 1 = true.
Proof. eexists. split; [vm_compute; reflexivity|]. vm_compute. repeat split; reflexivity. Qed.

(* finding cpr-rearm-race: the handler has tested the flag for a report (300) of a query that then times
   out; the next CursorPosition sets the flag before the handler's send; the send hands 300 to the new
   query, the flag stays set with no query outstanding, and the next Shift+F3 (CSI 1;2 R) is swallowed *)
Definition rearm_trace : list qlabel :=
  [LCall 0 KCpr; LQ 0; LQ 0; LQ 0; LArrive (SR true 300); LH; LH; LQTimeout 0; LQ 0;
   LCall 0 KCpr; LQ 0; LQ 0; LQ 0; LH; LH; LArrive (SR true 258)]%nat.
Lemma cpr_rearm_race_witness :
  exists s s',
    qrun gen_qcfg rearm_trace (qinit 1) = Some s /\ qrun_all gen_qcfg no_rearm_at rearm_trace (qinit 1) = false /\
    any_outstanding KCpr s = false /\ hp s = HRun [] /\ inq s = [SR true 258] /\ flag s = true /\
    qstep gen_qcfg LH s = Some s' /\ out s' = [] /\ consumed s' = [SR true 300; SR true 258].
Proof. eexists. eexists. split; [vm_compute; reflexivity|]. vm_compute. repeat split; reflexivity. Qed.

(* why qcfg_ok asks for a buffer under a non-blocking send: with an unbuffered colour channel an answer
   handled before the caller's receive is dropped and the caller is stuck *)
Definition cfg_colour_unbuffered : qcfg := cfg_with KBg (mkK 0 SNonblock RBlock) gen_qcfg.
Lemma colour_unbuffered_witness :
  kcfg_ok (q_k cfg_colour_unbuffered KBg) = false /\
  exists s, qrun cfg_colour_unbuffered [LCall 0 KBg; LQ 0; LArrive (SReply KBg 7); LH; LH; LQ 0] (qinit 1) = Some s /\
            qget s 0 = QParked KBg /\ handled s KBg = [7] /\ dropped s KBg = [7] /\ stuck cfg_colour_unbuffered s 0 = true.
Proof. split; [reflexivity|]. eexists. split; [vm_compute; reflexivity|]. vm_compute. repeat split; reflexivity. Qed.

(* ... the same for the clipboard when its 10 ms offer is replaced by a non-blocking send: the early answer
   is lost, ClipboardPop leaves only through its own deadline *)
Definition cfg_clip_nonblocking : qcfg := cfg_with KClip (mkK 0 SNonblock RTimed) gen_qcfg.
Lemma clipboard_nonblocking_witness :
  kcfg_ok (q_k cfg_clip_nonblocking KClip) = false /\
  exists s s', qrun cfg_clip_nonblocking [LCall 0 KClip; LQ 0; LArrive (SReply KClip 7); LH; LH; LQ 0] (qinit 1) = Some s /\
            qget s 0 = QParked KClip /\ dropped s KClip = [7] /\ qenabled cfg_clip_nonblocking LH s = false /\
            qstep cfg_clip_nonblocking (LQTimeout 0) s = Some s' /\ qget s' 0 = QPost KClip [] None.
Proof. split; [reflexivity|]. eexists. eexists. split; [vm_compute; reflexivity|]. vm_compute. repeat split; reflexivity. Qed.

(* why a timed offer must be on an unbuffered channel: with one slot an unsolicited clipboard report
   outlives the offer and is returned by a ClipboardPop issued after the handler has moved on *)
Definition cfg_clip_buffered : qcfg := cfg_with KClip (mkK 1 STimed RTimed) gen_qcfg.
Lemma clipboard_buffered_witness :
  kcfg_ok (q_k cfg_clip_buffered KClip) = false /\
  exists s, qrun cfg_clip_buffered [LArrive (SReply KClip 5); LH; LH; LArrive (SKey 1); LH; LCall 0 KClip; LQ 0; LQ 0] (qinit 1) = Some s /\
            out s = [SKey 1] /\ qget s 0 = QPost KClip [] (Some 5).
Proof. split; [reflexivity|]. eexists. split; [vm_compute; reflexivity|]. vm_compute. repeat split; reflexivity. Qed.

(* why the time-out branch of CursorPosition must clear the flag: otherwise, with no query outstanding and
   no re-arm race in the run, the next CSI 1;2 R is swallowed *)
Definition cfg_flag_sticky : qcfg := mkQ (q_k gen_qcfg) 0 false true (q_hclr gen_qcfg).
Definition sticky_trace : list qlabel := [LCall 0 KCpr; LQ 0; LQ 0; LQ 0; LQTimeout 0; LArrive (SR true 258)]%nat.
Lemma cpr_flag_sticky_witness :
  flag_ok cfg_flag_sticky = false /\
  exists s s', qrun cfg_flag_sticky sticky_trace (qinit 1) = Some s /\ qrun_all cfg_flag_sticky no_rearm_at sticky_trace (qinit 1) = true /\
            qget s 0 = QPost KCpr [] None /\ any_outstanding KCpr s = false /\
            qstep cfg_flag_sticky LH s = Some s' /\ out s' = [] /\ consumed s' = [SR true 258].
Proof. split; [reflexivity|]. eexists. eexists. split; [vm_compute; reflexivity|]. vm_compute. repeat split; reflexivity. Qed.

(* the translated configuration has the two shapes the theorems need *)
Lemma gen_qcfg_ok : qcfg_ok gen_qcfg = true.
Proof. vm_compute. reflexivity. Qed.

(* the model's own run of every scenario of at most three actions satisfies the property predicate that
   the harness evaluates on the implementation's observations (with the guard of the stale-reply finding);
   without the guard it does not *)
Lemma model_satisfies_property_3 :
  forallb (fun sc => negb (query_violation (sc, exec_scn gen_qcfg sc))) (scenarios 3 0) = true.
Proof. vm_compute. reflexivity. Qed.
Lemma model_violates_unguarded :
  query_violation_all ([AReply KBg 301; AQuery KBg 0 302], exec_scn gen_qcfg [AReply KBg 301; AQuery KBg 0 302]) = true
  /\ query_known ([AReply KBg 301; AQuery KBg 0 302], []) = true.
Proof. vm_compute. split; reflexivity. Qed.
