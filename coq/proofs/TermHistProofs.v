(* Proofs for property C13, part 3: histories on ONE embedded terminal (model/TermHist.v).
   What is written for an event depends on nothing but the child's last word, at that moment, on each mode;
   events leave no trace in the state; the model's own observation of any history satisfies the history
   predicate of the harness stream. *)
From Coq Require Import ZifyBool.
From Vx Require Import base.Prelude gen.GenKeys gen.GenTermKeys model.Keys model.ParserTypes model.Parser
  model.TermMouse model.TermKeys model.TermHist proofs.TermKeysProofs proofs.TermKeysChild.
Local Open Scope Z_scope.

(* ---------- the last word over a concatenated output ---------- *)
Lemma last_word_app w : forall a b c, last_word w (a ++ b) c = last_word w b (last_word w a c).
Proof.
  induction a as [|r a IH]; intros b c; cbn [app last_word]; [reflexivity|].
  destruct r; apply IH.
Qed.

Lemma last_keypad_app : forall a b c, last_keypad (a ++ b) c = last_keypad b (last_keypad a c).
Proof.
  induction a as [|r a IH]; intros b c; cbn [app last_keypad]; [reflexivity|].
  destruct r; apply IH.
Qed.

Lemma asked_from_app md a b : asked_from md (a ++ b) = asked_from (asked_from md a) b.
Proof.
  unfold asked_from. cbn [m_deckpam m_decckm m_paste m_buttons m_drag m_motion m_sgr m_altscroll m_smcup].
  rewrite last_keypad_app, !last_word_app. reflexivity.
Qed.

Lemma reqs_of_app : forall a b, reqs_of (a ++ b) = reqs_of a ++ reqs_of b.
Proof.
  induction a as [|it a IH]; intros b; cbn [app reqs_of]; [reflexivity|].
  destruct (item_req it); rewrite IH; reflexivity.
Qed.

(* ---------- a history is its specification ---------- *)
Theorem hist_run_spec (u : uni) : forall h md0 rs outs md',
  hist_run u (asked_from md0 rs) h = Some (outs, md') ->
  outs = hist_spec u md0 rs h /\ md' = asked_from md0 (rs ++ reqs_of (child_output h)).
Proof.
  induction h as [|s t IH]; intros md0 rs outs md' H; cbn [hist_run hist_spec child_output] in *.
  - injection H as <- <-. cbn [reqs_of]. rewrite app_nil_r. split; reflexivity.
  - destruct s as [its|e].
    + destruct (child_items its (asked_from md0 rs)) as [md1|] eqn:E; [|discriminate].
      apply child_items_asked in E. rewrite <- asked_from_app in E. subst md1.
      apply IH in H. destruct H as [-> ->]. split; [reflexivity|].
      rewrite reqs_of_app, app_assoc. reflexivity.
    + destruct (hist_run u (asked_from md0 rs) t) as [[o m]|] eqn:E; [|discriminate].
      injection H as <- <-. apply IH in E. destruct E as [-> ->]. split; reflexivity.
Qed.

Lemma hist_run_app (u : uni) : forall h1 h2 md,
  hist_run u md (h1 ++ h2) =
  match hist_run u md h1 with
  | Some (o1, md1) => match hist_run u md1 h2 with
                      | Some (o2, md2) => Some (o1 ++ o2, md2)
                      | None => None
                      end
  | None => None
  end.
Proof.
  induction h1 as [|s t IH]; intros h2 md; cbn [app hist_run].
  - destruct (hist_run u md h2) as [[o m]|]; reflexivity.
  - destruct s as [its|e].
    + destruct (child_items its md) as [md1|]; [apply IH|reflexivity].
    + rewrite IH. destruct (hist_run u md t) as [[o1 md1]|]; [|reflexivity].
      destruct (hist_run u md1 h2) as [[o2 md2]|]; reflexivity.
Qed.

Lemma hist_run_length (u : uni) : forall h md outs md',
  hist_run u md h = Some (outs, md') -> length outs = count_events h.
Proof.
  induction h as [|s t IH]; intros md outs md' H; cbn [hist_run count_events] in *.
  - injection H as <- _. reflexivity.
  - destruct s as [its|e].
    + destruct (child_items its md) as [md1|]; [|discriminate]. apply (IH _ _ _ H).
    + destruct (hist_run u md t) as [[o m]|] eqn:E; [|discriminate].
      injection H as <- _. cbn [length]. f_equal. apply (IH _ _ _ E).
Qed.

(* the state after a history is the state after the child's output alone *)
Lemma hist_run_state (u : uni) : forall h md outs md',
  hist_run u md h = Some (outs, md') -> child_items (child_output h) md = Some md'.
Proof.
  induction h as [|s t IH]; intros md outs md' H; cbn [hist_run child_output] in *.
  - injection H as _ <-. reflexivity.
  - destruct s as [its|e].
    + rewrite child_items_app. destruct (child_items its md) as [md1|]; [|discriminate]. apply (IH _ _ _ H).
    + destruct (hist_run u md t) as [[o m]|] eqn:E; [|discriminate].
      injection H as _ <-. apply (IH _ _ _ E).
Qed.

(* hist_event_output.  For EVERY history on one emulator — any interleaving of child output (DECSET / DECRST
   of any modes, keypad switches, RIS, anything else) and forwarded events — what is written for an event is
   what its encoder writes under the child's last word on each mode at that moment: no memory of earlier
   events, of earlier values of the modes, or of what was written before. *)
Theorem hist_event_output (u : uni) h1 e h2 outs md' :
  hist_run u modes0 (h1 ++ SEv e :: h2) = Some (outs, md') ->
  nth (count_events h1) outs [] = term_update u (asked (reqs_of (child_output h1))) e.
Proof.
  rewrite hist_run_app. destruct (hist_run u modes0 h1) as [[o1 md1]|] eqn:E1; [|discriminate].
  cbn [hist_run]. destruct (hist_run u md1 h2) as [[o2 md2]|] eqn:E2; [|discriminate].
  intros H; injection H as <- _.
  rewrite <- (hist_run_length _ _ _ _ _ E1), app_nth2, Nat.sub_diag by lia. cbn [nth].
  change modes0 with (asked_from modes0 []) in E1. apply hist_run_spec in E1. destruct E1 as [_ ->].
  reflexivity.
Qed.

(* events leave no trace: taking one event out of a history changes neither what is written for the others
   nor the final state *)
Theorem hist_event_erasable (u : uni) md h1 e h2 outs md' :
  hist_run u md (h1 ++ SEv e :: h2) = Some (outs, md') ->
  exists o1 o2 md1, hist_run u md h1 = Some (o1, md1) /\
                    hist_run u md (h1 ++ h2) = Some (o1 ++ o2, md') /\
                    outs = o1 ++ term_update u md1 e :: o2.
Proof.
  rewrite !hist_run_app. destruct (hist_run u md h1) as [[o1 md1]|]; [|discriminate].
  cbn [hist_run]. destruct (hist_run u md1 h2) as [[o2 md2]|]; [|discriminate].
  intros H; injection H as <- <-. exists o1, o2, md1. repeat split.
Qed.

(* ... and a history without its events reaches the same state *)
Theorem hist_state_is_childs (u : uni) : forall h md outs md',
  hist_run u md h = Some (outs, md') -> hist_run u md (drop_events h) = Some ([], md').
Proof.
  induction h as [|s t IH]; intros md outs md' H; cbn [hist_run drop_events] in *.
  - injection H as _ <-. reflexivity.
  - destruct s as [its|e].
    + cbn [hist_run]. destruct (child_items its md) as [md1|]; [|discriminate]. apply (IH _ _ _ H).
    + destruct (hist_run u md t) as [[o m]|] eqn:E; [|discriminate].
      injection H as _ <-. apply (IH _ _ _ E).
Qed.

(* a history only panics where the child's output does *)
Theorem hist_run_total (u : uni) : forall h md,
  Forall params_ok (child_output h) -> exists outs md', hist_run u md h = Some (outs, md').
Proof.
  induction h as [|s t IH]; intros md H; cbn [hist_run child_output] in *; [eauto|].
  destruct s as [its|e].
  - apply Forall_app in H. destruct H as [Hi Ht].
    destruct (child_items_total its md Hi) as [md1 ->]. apply IH, Ht.
  - destruct (IH md H) as (o & m & ->). eauto.
Qed.

(* ---------- only the relevant modes matter ---------- *)
Lemma eqb_true_eq a b : Bool.eqb a b = true -> a = b.
Proof. destruct a, b; cbn; congruence. Qed.

Theorem relevant_update (u : uni) e a b : relevant_eqb e a b = true -> term_update u a e = term_update u b e.
Proof.
  destruct e as [k| | |m|]; cbn [relevant_eqb term_update]; intros H.
  - apply andb_true_iff in H. destruct H as [H1 H2].
    rewrite (eqb_true_eq _ _ H1), (eqb_true_eq _ _ H2). reflexivity.
  - rewrite (eqb_true_eq _ _ H). reflexivity.
  - rewrite (eqb_true_eq _ _ H). reflexivity.
  - repeat (apply andb_true_iff in H; destruct H as [H ?]).
    unfold handle_mouse.
    repeat match goal with E : Bool.eqb _ _ = true |- _ => apply eqb_true_eq in E; rewrite E; clear E end.
    reflexivity.
  - reflexivity.
Qed.

Lemma key_eqb_eq a b : key_eqb a b = true -> a = b.
Proof.
  destruct a as [t1 c1 s1 b1 m1 e1], b as [t2 c2 s2 b2 m2 e2]. unfold key_eqb. cbn [k_text k_code k_shifted k_base k_mods k_event]. intros H.
  repeat (apply andb_true_iff in H; destruct H as [H ?]).
  apply zlist_eqb_eq in H. subst t2. f_equal; lia.
Qed.

Lemma mouse_eqb_eq a b : mouse_eqb a b = true -> a = b.
Proof.
  destruct a as [b1 r1 c1 t1 m1], b as [b2 r2 c2 t2 m2]. unfold mouse_eqb. cbn [ms_button ms_row ms_col ms_type ms_mods]. intros H.
  repeat (apply andb_true_iff in H; destruct H as [H ?]).
  f_equal; lia.
Qed.

Lemma tevent_eqb_eq a b : tevent_eqb a b = true -> a = b.
Proof.
  destruct a, b; cbn [tevent_eqb]; intros H; try discriminate; try reflexivity.
  - f_equal. apply key_eqb_eq, H.
  - f_equal. apply mouse_eqb_eq, H.
Qed.

(* ---------- the model satisfies the one-event predicates ---------- *)
Theorem key_violation_model u seg k md : (forall r, seg [r] = [[r]]) -> oracle_ok u ->
  key_violation u k md (term_update u md (TKey k)) (Some (forward u seg md (TKey k))) = false.
Proof.
  intros Hseg Ho. unfold key_violation.
  assert (A : cursor_mode_ok k (m_decckm md) (term_update u md (TKey k)) = true).
  { unfold cursor_mode_ok. destruct (lookup1 cursor_finals (k_code k)) as [x|] eqn:El; [|reflexivity].
    destruct (Z.eqb_spec (xterm_mods (k_mods k)) 0) as [Hx|Hx]; [|reflexivity].
    destruct (cursor_mode_selects u k (m_deckpam md) x Hx El) as [H1 H2].
    cbn [term_update]. destruct (m_decckm md); [rewrite H1|rewrite H2]; apply zlist_eqb_refl. }
  assert (B : mods_in_scope k = true -> ctrl_code_ok k (term_update u md (TKey k)) = true).
  { intros Hs. unfold ctrl_code_ok. destruct (Z.eqb_spec (chord_mods k) ModCtrl) as [Hc|Hc]; [|reflexivity].
    destruct (xterm_ctrl_code (k_code k)) as [b|] eqn:Eb; [|reflexivity].
    cbn [term_update]. rewrite (ctrl_codes_xterm u k (m_deckpam md) (m_decckm md) b Ho Hs Hc Eb).
    apply zlist_eqb_refl. }
  rewrite A. cbn [negb orb].
  destruct (mods_in_scope k) eqn:Hs.
  - rewrite (B eq_refl). cbn [negb andb orb].
    assert (C : chord_text k && negb (textchord_ok u k (forward u seg md (TKey k))) = false).
    { destruct (chord_text k) eqn:Ec; [|reflexivity].
      rewrite (key_forward_textchord u seg k md Hseg Ho Hs Ec). reflexivity. }
    rewrite C. cbn [orb].
    destruct (xterm_expressible u k) eqn:Ex; [|reflexivity].
    rewrite (key_forward_roundtrip u seg k md Hseg Ho Ex). cbn [negb andb orb].
    destruct (chord_plain k || chord_shift u k) eqn:Ep; [|reflexivity].
    rewrite (key_forward_text u seg k md Hseg Ho Hs Ep). reflexivity.
  - cbn [andb orb]. unfold xterm_expressible. rewrite Hs. reflexivity.
Qed.

Theorem event_violation_model u seg md e : (forall k, e <> TKey k) ->
  event_violation md e (term_update u md e) (Some (forward u seg md e)) = false.
Proof.
  intros Hk. destruct e as [k| | |m|]; [exfalso; apply (Hk k); reflexivity| | | |reflexivity].
  - cbn [event_violation]. destruct (paste_forward u seg md) as [Ht Hf].
    destruct (m_paste md) eqn:Ep.
    + destruct (Ht eq_refl) as [-> _]. reflexivity.
    + destruct (Hf eq_refl) as [-> _]. reflexivity.
  - cbn [event_violation]. destruct (paste_forward u seg md) as [Ht Hf].
    destruct (m_paste md) eqn:Ep.
    + destruct (Ht eq_refl) as [_ ->]. reflexivity.
    + destruct (Hf eq_refl) as [_ ->]. reflexivity.
  - cbn [event_violation].
    destruct ((ms_type m =? EventPress) || (ms_type m =? EventRelease) || (ms_type m =? EventMotion)) eqn:Ety;
      [|reflexivity].
    cbn [negb].
    assert (Hty : is_click m || (ms_type m =? EventMotion) = true) by (unfold is_click; exact Ety).
    destruct (mouse_enabled md m) eqn:Een.
    + destruct (m_sgr md) eqn:Es; [|reflexivity].
      destruct (button_ok (ms_button m)) eqn:Eb; [|reflexivity].
      destruct (in_i63 (ms_col m)) eqn:Ec; [|reflexivity].
      destruct (in_i63 (ms_row m)) eqn:Er; [|reflexivity].
      rewrite (mouse_forward_roundtrip u seg md m Es Een Eb Ec Er).
      cbn [andb ms_button ms_col ms_row ms_type]. rewrite !Z.eqb_refl. reflexivity.
    + cbn [term_update]. rewrite (nothing_unless_enabled md m Hty Een).
      destruct (altscroll_applies md m); rewrite zlist_eqb_refl; reflexivity.
Qed.

(* ---------- the model's observation of a history satisfies the history predicate ---------- *)
Definition model_moment (u : uni) (seg : list Z -> list (list Z)) (m : moment) : Prop :=
  let '(md, e, bytes, evs) := m in
  bytes = term_update u md e /\ evs = Some (forward u seg md e).

Lemma model_obs_moments u seg : forall h md, Forall (model_moment u seg) (hist_moments md (model_obs u seg md h)).
Proof.
  induction h as [|s t IH]; intros md; cbn [model_obs hist_moments]; [constructor|].
  destruct s as [its|e].
  - cbn [hist_moments]. destruct (child_items its md) as [md1|] eqn:E; [|constructor].
    apply child_items_asked in E. rewrite <- E. apply IH.
  - cbn [hist_moments]. constructor; [split; reflexivity|apply IH].
Qed.

Lemma existsb_false_forall {A} (f : A -> bool) l : (forall x, In x l -> f x = false) -> existsb f l = false.
Proof.
  induction l as [|a l IH]; intros H; cbn [existsb]; [reflexivity|].
  rewrite (H a (or_introl eq_refl)), IH; [reflexivity|]. intros x Hx. apply H. right. exact Hx.
Qed.

Lemma model_moments_ok u seg ms : (forall r, seg [r] = [[r]]) -> oracle_ok u ->
  Forall (model_moment u seg) ms -> moments_violation u ms = false.
Proof.
  intros Hseg Ho Hall. rewrite Forall_forall in Hall. unfold moments_violation.
  rewrite existsb_false_forall; [cbn [orb]|].
  - apply existsb_false_forall. intros a Ha. apply existsb_false_forall. intros b Hb.
    pose proof (Hall a Ha) as Ma. pose proof (Hall b Hb) as Mb.
    destruct a as [[[mda ea] ba] va], b as [[[mdb eb] bb] vb]. cbn [model_moment] in Ma, Mb.
    destruct Ma as [-> _], Mb as [-> _]. unfold memory_violation. cbn beta iota.
    destruct (tevent_eqb ea eb) eqn:Ee; [|reflexivity]. apply tevent_eqb_eq in Ee. subst eb.
    destruct (relevant_eqb ea mda mdb) eqn:Er; [|reflexivity].
    rewrite (relevant_update u ea mda mdb Er), zlist_eqb_refl. reflexivity.
  - intros a Ha. pose proof (Hall a Ha) as Ma.
    destruct a as [[[mda ea] ba] va]. cbn [model_moment] in Ma. destruct Ma as [-> ->].
    unfold moment_violation. cbn beta iota. destruct ea as [k| | |m|];
      [apply key_violation_model; assumption|..]; apply event_violation_model; intros k; discriminate.
Qed.

(* hist_model_no_violation.  Whatever the history, the model's observation of it passes the harness's history
   predicate: "no mismatch" on the hist stream implies "no violation", and the predicate raises no false alarm
   on an implementation the model describes. *)
Theorem hist_model_no_violation u seg h : (forall r, seg [r] = [[r]]) -> oracle_ok u ->
  hist_violation u (model_obs u seg modes0 h) = false.
Proof.
  intros Hseg Ho. unfold hist_violation. apply (model_moments_ok u seg); [assumption..|apply model_obs_moments].
Qed.

(* ---------- the clauses of the property at any moment of a history ---------- *)
(* nothing is written for paste and mouse events the child has not enabled AT THAT MOMENT (alternate scroll
   aside), however often and however long ago it had them enabled *)
Theorem hist_nothing_unless_enabled (u : uni) h1 e h2 outs md' :
  hist_run u modes0 (h1 ++ SEv e :: h2) = Some (outs, md') ->
  let rs := reqs_of (child_output h1) in
  (last_word [2004] rs false = false -> (e = TPasteStart \/ e = TPasteEnd) -> nth (count_events h1) outs [] = []) /\
  (forall m, e = TMouse m -> is_click m || (ms_type m =? EventMotion) = true -> mouse_enabled (asked rs) m = false ->
     nth (count_events h1) outs [] =
       if altscroll_applies (asked rs) m
       then (if ms_button m =? MouseWheelUp then ss3_up ++ ss3_up ++ ss3_up else ss3_down ++ ss3_down ++ ss3_down)
       else []).
Proof.
  intros H rs. rewrite (hist_event_output u h1 e h2 outs md' H). fold rs. split.
  - intros Hp [->| ->]; cbn [term_update]; unfold asked, asked_from, modes0; cbn [m_paste]; rewrite Hp; reflexivity.
  - intros m -> Hty Hen. cbn [term_update]. apply nothing_unless_enabled; assumption.
Qed.

(* ... and what the child has enabled at that moment arrives: the paste brackets, SGR mouse reports, every
   xterm-expressible chord; the cursor keys follow DECCKM as it stands at that moment *)
Theorem hist_forwarded_arrives (u : uni) (seg : list Z -> list (list Z)) h1 e h2 outs md' :
  (forall r, seg [r] = [[r]]) -> oracle_ok u ->
  hist_run u modes0 (h1 ++ SEv e :: h2) = Some (outs, md') ->
  let rs := reqs_of (child_output h1) in
  let got := host_read u seg (nth (count_events h1) outs []) in
  (last_word [2004] rs false = true -> (e = TPasteStart -> got = [HPasteStart]) /\ (e = TPasteEnd -> got = [HPasteEnd])) /\
  (forall m, e = TMouse m -> m_sgr (asked rs) = true -> mouse_enabled (asked rs) m = true ->
     button_ok (ms_button m) = true -> in_i63 (ms_col m) = true -> in_i63 (ms_row m) = true ->
     got = [HMouse (mkMouse (ms_button m) (ms_row m) (ms_col m) (ms_type m) 0)]) /\
  (forall k, e = TKey k -> xterm_expressible u k = true -> roundtrip_ok u k got = true) /\
  (forall k x, e = TKey k -> xterm_mods (k_mods k) = 0 -> lookup1 cursor_finals (k_code k) = Some x ->
     nth (count_events h1) outs [] = [27; (if last_word [1] rs false then 79 else 91); x]).
Proof.
  intros Hseg Ho H rs got. unfold got. rewrite (hist_event_output u h1 e h2 outs md' H). fold rs.
  split; [|split; [|split]].
  - intros Hp. destruct (paste_forward u seg (asked rs)) as [Ht _].
    assert (Hm : m_paste (asked rs) = true) by (unfold asked, asked_from, modes0; cbn [m_paste]; exact Hp).
    destruct (Ht Hm) as [A B]. split; intros ->; assumption.
  - intros m -> Hs Hen Hb Hc Hr. apply (mouse_forward_roundtrip u seg (asked rs) m); assumption.
  - intros k -> Hx. apply (key_forward_roundtrip u seg k (asked rs)); assumption.
  - intros k x -> Hx Hl. cbn [term_update].
    destruct (cursor_mode_selects u k (m_deckpam (asked rs)) x Hx Hl) as [H1 H2].
    unfold asked at 2, asked_from, modes0; cbn [m_decckm]. destruct (last_word [1] rs false); assumption.
Qed.
