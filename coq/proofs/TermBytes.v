(* C05 - composition with the parser model (C02): the emulator fed with what the parser
   delivers for raw child bytes.  A printed run is cut into clusters by an arbitrary
   segmentation oracle (uniseg) that only has to report non-negative widths. *)
From Vx Require Import base.Prelude base.ListX model.Colour model.Sgr model.Term model.TermCheck
  proofs.SgrProofs proofs.TermProofs proofs.TermSafe.
From Vx Require model.ParserTypes model.Parser.
Require Import ZifyBool Lia.

Local Open Scope Z_scope.

Module P := Vx.model.Parser.

(* the parser's items as update sees them; EOF ends the goroutine, errors and SS3 are not
   handled by update *)
Definition of_item (seg : list Z -> list (text * Z)) (it : P.item) : list titem :=
  match it with
  | P.IPrint rs => map (fun gw => TPrint (fst gw) (snd gw)) (seg rs)
  | P.IC0 c => [TC0 c]
  | P.IEsc i f => [TEsc i f]
  | P.ICsi i ps f => [TCsi i ps f]
  | P.IOsc p => [TOsc p]
  | P.IDcs _ _ _ _ => [TDcs]
  | P.IApc _ => [TApc]
  | P.ISS3 _ | P.IError | P.IEof | P.IPanic => [TOther]
  end.

Definition of_items seg (l : list P.item) : list titem := flat_map (of_item seg) l.

(* ---------- every CSI the parser delivers has non-empty parameters ---------- *)

Definition shape (it : P.item) : Prop :=
  match it with P.ICsi _ ps _ => Forall nonempty ps | _ => True end.

Lemma csi_params_shape : forall rs ps cur acc,
  Forall nonempty acc -> Forall nonempty (P.csi_params rs ps cur acc).
Proof.
  induction rs as [|b t IH]; intros ps cur acc Hacc; cbn [P.csi_params].
  - apply Forall_app; split; auto. constructor; [|constructor].
    unfold nonempty; destruct cur; discriminate.
  - destruct (b =? 59); [|destruct (b =? 58)]; apply IH; auto.
    apply Forall_app; split; auto. constructor; [|constructor].
    unfold nonempty; destruct cur; discriminate.
Qed.

Lemma run_exit_shape e p : Forall shape (snd (P.run_exit e p)).
Proof. destruct e; simpl; repeat constructor. Qed.

Lemma do_act_shape a r p : Forall shape (snd (P.do_act a r p)).
Proof.
  destruct a; cbn [P.do_act snd]; try (repeat constructor; fail).
  - destruct (in_range r 0 31); repeat constructor.
  - constructor; [|constructor]. cbn [shape].
    destruct (P.params p); [constructor | apply csi_params_shape; constructor].
  - destruct (P.params p); [repeat constructor|].
    destruct (P.dcs_params (z :: l) 0 []); repeat constructor.
  - destruct (P.exitf p); [apply run_exit_shape | repeat constructor].
  - destruct (P.exitf p); [|repeat constructor].
    pose proof (run_exit_shape e p). destruct (P.run_exit e p); assumption.
Qed.

Lemma exec_acts_shape acts : forall r p, Forall shape (snd (fst (P.exec_acts acts r p))).
Proof.
  induction acts as [|a t IH]; intros r p; [constructor|].
  assert (Hgen : Forall shape (snd (fst (let '(p1, o1) := P.do_act a r p in
                   let '(p2, o2, g) := P.exec_acts t r p1 in (p2, o1 ++ o2, g))))).
  { pose proof (do_act_shape a r p) as H1. destruct (P.do_act a r p) as [p1 o1].
    pose proof (IH r p1) as H2. destruct (P.exec_acts t r p1) as [[p2 o2] g].
    apply Forall_app; split; assumption. }
  destruct a; try exact Hgen.
  cbn [P.exec_acts]. destruct (P.ignoreST p); [constructor | apply IH].
Qed.

Lemma run_fn_shape f r p x : P.run_fn f r p = Some x -> Forall shape (snd (fst x)).
Proof.
  unfold P.run_fn. destruct (P.find_clause (ParserTypes.f_clauses f) r None) as [c|]; [|discriminate].
  pose proof (exec_acts_shape (ParserTypes.f_pre f) r p) as H0.
  destruct (P.exec_acts (ParserTypes.f_pre f) r p) as [[p0 o0] g0].
  pose proof (exec_acts_shape (ParserTypes.c_acts c) r p0) as H1.
  destruct (P.exec_acts (ParserTypes.c_acts c) r p0) as [[p1 o1] g1].
  pose proof (exec_acts_shape (ParserTypes.f_post f) r p1) as H2.
  destruct (P.exec_acts (ParserTypes.f_post f) r p1) as [[p2 o2] g2].
  intros E; inversion E; subst; cbn [fst snd] in *.
  repeat (apply Forall_app; split); assumption.
Qed.

Lemma step_shape p r : Forall shape (snd (fst (P.step p r))).
Proof.
  unfold P.step.
  destruct (P.run_fn GenParser.fn_anywhere r (P.set_timer p false)) as [x|] eqn:E1.
  - pose proof (run_fn_shape _ _ _ _ E1). destruct x as [[p' o] [s|]]; assumption.
  - destruct (P.run_fn (GenParser.state_fn (P.st (P.set_timer p false))) r (P.set_timer p false)) as [x|] eqn:E2.
    + pose proof (run_fn_shape _ _ _ _ E2). destruct x as [[p' o] [s|]]; assumption.
    + repeat constructor.
Qed.

Lemma feed_shape rs : forall p, Forall shape (snd (fst (P.feed p rs))).
Proof.
  induction rs as [|r t IH]; intros p; cbn [P.feed]; [constructor|].
  pose proof (step_shape p r) as H1. destruct (P.step p r) as [[p1 o1] go].
  destruct go; [|assumption].
  pose proof (IH p1) as H2. destruct (P.feed p1 t) as [[p2 o2] go2].
  apply Forall_app; split; assumption.
Qed.

Lemma finish_shape p : Forall shape (P.finish p).
Proof.
  unfold P.finish. pose proof (step_shape p GenParser.eof_rune) as H.
  destruct (P.step p GenParser.eof_rune) as [[p' o] go].
  apply Forall_app; split; [assumption | repeat constructor].
Qed.

Lemma canon_shape l : Forall shape l -> Forall shape (P.canon l).
Proof.
  induction l as [|x t IH]; intros H; [constructor|].
  inversion H as [|? ? Hx Ht]; subst. specialize (IH Ht).
  destruct x; cbn [P.canon]; try (constructor; assumption); auto.
  destruct (P.canon t) as [|y t']; [repeat constructor|].
  inversion IH; subst. destruct y; constructor; auto; constructor.
Qed.

Lemma parse_bytes_shape bs : Forall shape (P.parse_bytes bs).
Proof.
  unfold P.parse_bytes, P.parse_runes. apply canon_shape.
  pose proof (feed_shape (P.decode_all bs) P.pinit) as H.
  destruct (P.feed P.pinit (P.decode_all bs)) as [[p o] go].
  destruct go; apply Forall_app; split; auto; [apply finish_shape | repeat constructor].
Qed.

(* ---------- child output as a history ---------- *)

(* the oracle only has to report non-negative widths *)
Definition seg_ok (seg : list Z -> list (text * Z)) : Prop :=
  forall rs, Forall (fun gw => 0 <= snd gw) (seg rs).

Lemma of_items_ok seg l : seg_ok seg -> Forall shape l -> Forall item_ok (of_items seg l).
Proof.
  intros Hseg H; unfold of_items. induction H as [|x t Hx Ht IH]; [constructor|].
  cbn [flat_map]. apply Forall_app; split; [|exact IH].
  destruct x; cbn [of_item]; try (repeat constructor; fail).
  - apply Forall_forall; intros it Hin. apply in_map_iff in Hin; destruct Hin as [gw [<- Hgw]].
    cbn [item_ok]. specialize (Hseg rs). rewrite Forall_forall in Hseg; now apply Hseg.
  - constructor; [exact Hx | constructor].
Qed.

(* one write of the child: its bytes, and for each delivered sequence whether the goroutine
   consumed a raised event first (sequences beyond the schedule: yes) *)
Inductive cstep := CWrite (bytes : list Z) (sched : list bool) | CResize (w h : Z).

Fixpoint with_sched (its : list titem) (sched : list bool) : list hstep :=
  match its with
  | [] => []
  | it :: rest =>
      match sched with
      | [] => HFeed true it :: with_sched rest []
      | d :: ds => HFeed d it :: with_sched rest ds
      end
  end.

Definition hist_of seg (cs : list cstep) : list hstep :=
  flat_map (fun c => match c with
                     | CWrite bs sched => with_sched (of_items seg (P.parse_bytes bs)) sched
                     | CResize w h => [HResize w h]
                     end) cs.

Definition cstep_ok (c : cstep) : Prop :=
  match c with CWrite _ _ => True | CResize w h => 1 <= w /\ 1 <= h end.

Lemma with_sched_ok its : Forall item_ok its -> forall sched, Forall hstep_ok (with_sched its sched).
Proof.
  induction 1 as [|it rest Hi Hr IH]; intros sched; cbn [with_sched]; [constructor|].
  destruct sched; constructor; auto.
Qed.

Lemma hist_of_ok seg cs : seg_ok seg -> Forall cstep_ok cs -> Forall hstep_ok (hist_of seg cs).
Proof.
  intros Hseg H; unfold hist_of. induction H as [|c t Hc Ht IH]; [constructor|].
  cbn [flat_map]. apply Forall_app; split; [|exact IH].
  destruct c as [bs sched|w h].
  - apply with_sched_ok, of_items_ok; auto. apply parse_bytes_shape.
  - constructor; [exact Hc | constructor].
Qed.

(* raw child bytes, any screen sizes from 1x1, any resizes between writes, any
   segmentation, any drain schedule: the emulator never panics; it either processes
   everything and is well formed, or blocks posting a third event *)
Theorem bytes_never_panic seg w h cs :
  seg_ok seg -> 1 <= w -> 1 <= h -> Forall cstep_ok cs ->
  run term_new (HResize w h :: hist_of seg cs) <> TPanic.
Proof.
  intros Hseg Hw Hh Hcs. apply term_never_panics; auto. now apply hist_of_ok.
Qed.

Theorem bytes_safe seg w h cs :
  seg_ok seg -> 1 <= w -> 1 <= h -> Forall cstep_ok cs ->
  stall_free (hist_of seg cs) = true ->
  forall n, exists t', run term_new (HResize w h :: firstn n (hist_of seg cs)) = TOk t' /\ well_formed t'.
Proof.
  intros Hseg Hw Hh Hcs Hsf n.
  destruct (term_safe_run w h (hist_of seg cs) Hw Hh (hist_of_ok seg cs Hseg Hcs) Hsf n) as [t' [E W]].
  exists t'; split; auto. now apply WF_well_formed.
Qed.
