(* Proofs for property C03 over model/Input.v, model/Mouse.v and the parser model. *)
From Coq Require Import ZifyBool.
From Vx Require Import base.Prelude base.ListX model.ParserTypes gen.GenParser model.Parser
  model.Mouse model.Input proofs.ParserLife.

(* ================= A. what the parser can deliver is well formed ================= *)

Definition nonempty_all (ps : list (list Z)) : Prop := Forall (fun p : list Z => p <> []) ps.

Lemma csi_params_nonempty rs : forall v cur acc,
  nonempty_all acc -> nonempty_all (csi_params rs v cur acc).
Proof.
  induction rs as [|b t IH]; intros v cur acc Hacc; cbn [csi_params].
  - apply Forall_app; split; [assumption|]. constructor; [|constructor].
    destruct cur; discriminate.
  - destruct (b =? 59).
    + apply IH. apply Forall_app; split; [assumption|]. constructor; [|constructor].
      destruct cur; discriminate.
    + destruct (b =? 58); apply IH; assumption.
Qed.

Definition wf (it : item) : Prop := wf_item it = true.

Lemma wf_csi_iff inter ps fin : wf (ICsi inter ps fin) <-> nonempty_all ps.
Proof.
  unfold wf, wf_item, nonempty_all. rewrite forallb_forall, Forall_forall.
  split; intros H p Hp; specialize (H p Hp).
  - intros ->. discriminate.
  - destruct p; [congruence|]. rewrite zlen_cons. pose proof (zlen_nonneg p).
    destruct (zlen p + 1 =? 0) eqn:E; [lia|reflexivity].
Qed.

Lemma run_exit_wf e p : Forall wf (snd (run_exit e p)).
Proof. destruct e; cbn; repeat constructor. Qed.

Lemma do_act_wf a r p : Forall wf (snd (do_act a r p)).
Proof.
  destruct a; cbn [do_act snd]; try (repeat constructor; fail).
  - destruct (in_range r 0 31); repeat constructor.
  - constructor; [|constructor]. apply wf_csi_iff.
    destruct (params p) eqn:E; [constructor|]. apply csi_params_nonempty. constructor.
  - destruct (params p); [constructor|]. destruct (dcs_params _ _ _); repeat constructor.
  - destruct (exitf p); [apply run_exit_wf|repeat constructor].
  - destruct (exitf p); [|constructor].
    pose proof (run_exit_wf e p) as H. destruct (run_exit e p). exact H.
Qed.

Lemma exec_acts_wf acts r : forall p, Forall wf (snd (fst (exec_acts acts r p))).
Proof.
  induction acts as [|a t IH]; intros p; [constructor|].
  assert (Hgen : forall p1 o1, do_act a r p = (p1, o1) ->
            Forall wf (snd (fst (let '(p2, o2, g) := exec_acts t r p1 in (p2, o1 ++ o2, g))))).
  { intros p1 o1 E. pose proof (do_act_wf a r p) as H1. rewrite E in H1. cbn in H1.
    specialize (IH p1). destruct (exec_acts t r p1) as [[p2 o2] g]. cbn in *.
    apply Forall_app; split; assumption. }
  destruct (match a with AIfIgnoreSTGoto _ => true | _ => false end) eqn:Ea.
  - destruct a; try discriminate. cbn [exec_acts]. destruct (ignoreST p); [constructor|apply IH].
  - assert (Heq : exec_acts (a :: t) r p =
                  let '(p1, o1) := do_act a r p in
                  let '(p2, o2, g) := exec_acts t r p1 in (p2, o1 ++ o2, g))
      by (destruct a; try discriminate; reflexivity).
    rewrite Heq. destruct (do_act a r p) as [p1 o1] eqn:E. exact (Hgen p1 o1 eq_refl).
Qed.

Lemma run_fn_wf f r p x : run_fn f r p = Some x -> Forall wf (snd (fst x)).
Proof.
  unfold run_fn. destruct (find_clause _ _ _) as [c|]; [|discriminate].
  pose proof (exec_acts_wf (f_pre f) r p) as H0.
  destruct (exec_acts (f_pre f) r p) as [[p0 o0] g0].
  pose proof (exec_acts_wf (c_acts c) r p0) as H1.
  destruct (exec_acts (c_acts c) r p0) as [[p1 o1] g1].
  pose proof (exec_acts_wf (f_post f) r p1) as H2.
  destruct (exec_acts (f_post f) r p1) as [[p2 o2] g2].
  intros E; injection E as <-. cbn in *. repeat (apply Forall_app; split); assumption.
Qed.

Lemma step_wf p r : Forall wf (snd (fst (Parser.step p r))).
Proof.
  unfold Parser.step.
  destruct (run_fn fn_anywhere r (set_timer p false)) as [x|] eqn:E1.
  - pose proof (run_fn_wf _ _ _ _ E1) as H. destruct x as [[p' o] [s|]]; exact H.
  - destruct (run_fn (state_fn (st (set_timer p false))) r (set_timer p false)) as [x|] eqn:E2.
    + pose proof (run_fn_wf _ _ _ _ E2) as H. destruct x as [[p' o] [s|]]; exact H.
    + repeat constructor.
Qed.

Lemma feed_wf rs : forall p, Forall wf (snd (fst (feed p rs))).
Proof.
  induction rs as [|r t IH]; intros p; [constructor|]. cbn [feed].
  pose proof (step_wf p r) as H1. destruct (Parser.step p r) as [[p1 o1] go]. cbn in H1.
  destruct go; [|exact H1].
  specialize (IH p1). destruct (feed p1 t) as [[p2 o2] go2]. cbn in *.
  apply Forall_app; split; assumption.
Qed.

Lemma finish_wf p : Forall wf (finish p).
Proof.
  unfold finish. pose proof (step_wf p eof_rune) as H.
  destruct (Parser.step p eof_rune) as [[p1 o] go]. cbn in H.
  apply Forall_app; split; [assumption|repeat constructor].
Qed.

Lemma canon_wf l : Forall wf l -> Forall wf (canon l).
Proof. apply canon_preserves. intros; reflexivity. Qed.

(* every sequence the parser model delivers, for every byte stream *)
Theorem parse_bytes_wf bs : Forall wf (parse_bytes bs).
Proof.
  unfold parse_bytes, parse_runes. apply canon_wf.
  pose proof (feed_wf (decode_all bs) pinit) as H.
  destruct (feed pinit (decode_all bs)) as [[p o] go]. cbn in H.
  destruct go; apply Forall_app; split; try assumption; [apply finish_wf|repeat constructor].
Qed.

Lemma timer_fire_wf p : Forall wf (snd (timer_fire p)).
Proof.
  unfold timer_fire. destruct (timer p); [|constructor].
  pose proof (exec_acts_wf timer_body 27 (set_timer p false)) as H.
  destruct (exec_acts timer_body 27 (set_timer p false)) as [[p' o] g]. exact H.
Qed.

Lemma feed_segments_wf segs : forall p, Forall wf (snd (fst (feed_segments p segs))).
Proof.
  induction segs as [|s t IH]; intros p; [constructor|]. cbn [feed_segments].
  pose proof (feed_wf (decode_all s) p) as H1.
  destruct (feed p (decode_all s)) as [[p1 o1] go]. cbn in H1.
  destruct go; [|exact H1]. destruct t as [|s2 t2]; [exact H1|].
  pose proof (timer_fire_wf p1) as H2. destruct (timer_fire p1) as [p2 o2]. cbn in H2.
  specialize (IH p2). destruct (feed_segments p2 (s2 :: t2)) as [[p3 o3] go3]. cbn in IH |- *.
  repeat (apply Forall_app; split); assumption.
Qed.

(* ... also when silences let the Escape timer fire between segments *)
Theorem parse_segments_wf segs : Forall wf (parse_segments segs).
Proof.
  unfold parse_segments. pose proof (feed_segments_wf segs pinit) as H.
  destruct (feed_segments pinit segs) as [[p o] go]. cbn in H. apply canon_wf.
  destruct go; apply Forall_app; split; try assumption; [apply finish_wf|repeat constructor].
Qed.
