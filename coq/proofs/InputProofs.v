(* Proofs for property C03 over model/Input.v, model/Mouse.v and the parser model. *)
From Coq Require Import ZifyBool.
From Vx Require Import base.Prelude base.ListX model.ParserTypes gen.GenParser model.Parser
  model.Vt500Spec proofs.ParserTable proofs.ParserConform
  model.Mouse gen.GenInput model.Input model.InputCheck proofs.ParserLife.

(* ================= A. what the parser can deliver is well formed ================= *)

Definition nonempty_all (ps : list (list Z)) : Prop := Forall (fun p : list Z => p <> []) ps.

Lemma csi_params_nonempty rs : forall v cur acc,
  nonempty_all acc -> nonempty_all (csi_params rs v cur acc).
Proof.
  induction rs as [|b t IH]; intros v cur acc Hacc; cbn [csi_params].
  - apply Forall_app; split; [assumption|]. constructor; [|constructor].
    destruct cur; discriminate.
  - destruct (b =? 59).
    + apply IH. apply Forall_app; split; [assumption|]. constructor; [|constructor].
      destruct cur; discriminate.
    + destruct (b =? 58); apply IH; assumption.
Qed.

Definition wf (it : item) : Prop := wf_item it = true.

Lemma wf_csi_iff inter ps fin : wf (ICsi inter ps fin) <-> nonempty_all ps.
Proof.
  unfold wf, wf_item, nonempty_all. rewrite forallb_forall, Forall_forall.
  split; intros H p Hp; specialize (H p Hp).
  - intros ->. discriminate.
  - destruct p; [congruence|]. rewrite zlen_cons. pose proof (zlen_nonneg p).
    destruct (zlen p + 1 =? 0) eqn:E; [lia|reflexivity].
Qed.

Lemma run_exit_wf e p : Forall wf (snd (run_exit e p)).
Proof. destruct e; cbn; repeat constructor. Qed.

Lemma do_act_wf a r p : Forall wf (snd (do_act a r p)).
Proof.
  destruct a; cbn [do_act snd]; try (repeat constructor; fail).
  - destruct (in_range r 0 31); repeat constructor.
  - constructor; [|constructor]. apply wf_csi_iff.
    destruct (params p) eqn:E; [constructor|]. apply csi_params_nonempty. constructor.
  - destruct (params p); [constructor|]. destruct (dcs_params _ _ _); repeat constructor.
  - destruct (exitf p); [apply run_exit_wf|repeat constructor].
  - destruct (exitf p); [|constructor].
    pose proof (run_exit_wf e p) as H. destruct (run_exit e p). exact H.
Qed.

Lemma exec_acts_wf acts r : forall p, Forall wf (snd (fst (exec_acts acts r p))).
Proof.
  induction acts as [|a t IH]; intros p; [constructor|].
  assert (Hgen : forall p1 o1, do_act a r p = (p1, o1) ->
            Forall wf (snd (fst (let '(p2, o2, g) := exec_acts t r p1 in (p2, o1 ++ o2, g))))).
  { intros p1 o1 E. pose proof (do_act_wf a r p) as H1. rewrite E in H1. cbn in H1.
    specialize (IH p1). destruct (exec_acts t r p1) as [[p2 o2] g]. cbn in *.
    apply Forall_app; split; assumption. }
  destruct (match a with AIfIgnoreSTGoto _ => true | _ => false end) eqn:Ea.
  - destruct a; try discriminate. cbn [exec_acts]. destruct (ignoreST p); [constructor|apply IH].
  - assert (Heq : exec_acts (a :: t) r p =
                  let '(p1, o1) := do_act a r p in
                  let '(p2, o2, g) := exec_acts t r p1 in (p2, o1 ++ o2, g))
      by (destruct a; try discriminate; reflexivity).
    rewrite Heq. destruct (do_act a r p) as [p1 o1] eqn:E. exact (Hgen p1 o1 eq_refl).
Qed.

Lemma run_fn_wf f r p x : run_fn f r p = Some x -> Forall wf (snd (fst x)).
Proof.
  unfold run_fn. destruct (find_clause _ _ _) as [c|]; [|discriminate].
  pose proof (exec_acts_wf (f_pre f) r p) as H0.
  destruct (exec_acts (f_pre f) r p) as [[p0 o0] g0].
  pose proof (exec_acts_wf (c_acts c) r p0) as H1.
  destruct (exec_acts (c_acts c) r p0) as [[p1 o1] g1].
  pose proof (exec_acts_wf (f_post f) r p1) as H2.
  destruct (exec_acts (f_post f) r p1) as [[p2 o2] g2].
  intros E; injection E as <-. cbn in *. repeat (apply Forall_app; split); assumption.
Qed.

Lemma step_wf p r : Forall wf (snd (fst (Parser.step p r))).
Proof.
  unfold Parser.step.
  destruct (run_fn fn_anywhere r (set_timer p false)) as [x|] eqn:E1.
  - pose proof (run_fn_wf _ _ _ _ E1) as H. destruct x as [[p' o] [s|]]; exact H.
  - destruct (run_fn (state_fn (st (set_timer p false))) r (set_timer p false)) as [x|] eqn:E2.
    + pose proof (run_fn_wf _ _ _ _ E2) as H. destruct x as [[p' o] [s|]]; exact H.
    + repeat constructor.
Qed.

Lemma feed_wf rs : forall p, Forall wf (snd (fst (feed p rs))).
Proof.
  induction rs as [|r t IH]; intros p; [constructor|]. cbn [feed].
  pose proof (step_wf p r) as H1. destruct (Parser.step p r) as [[p1 o1] go]. cbn in H1.
  destruct go; [|exact H1].
  specialize (IH p1). destruct (feed p1 t) as [[p2 o2] go2]. cbn in *.
  apply Forall_app; split; assumption.
Qed.

Lemma finish_wf p : Forall wf (finish p).
Proof.
  unfold finish. pose proof (step_wf p eof_rune) as H.
  destruct (Parser.step p eof_rune) as [[p1 o] go]. cbn in H.
  apply Forall_app; split; [assumption|repeat constructor].
Qed.

Lemma canon_wf l : Forall wf l -> Forall wf (canon l).
Proof. apply canon_preserves. intros; reflexivity. Qed.

(* every sequence the parser model delivers, for every byte stream *)
Theorem parse_bytes_wf bs : Forall wf (parse_bytes bs).
Proof.
  unfold parse_bytes, parse_runes. apply canon_wf.
  pose proof (feed_wf (decode_all bs) pinit) as H.
  destruct (feed pinit (decode_all bs)) as [[p o] go]. cbn in H.
  destruct go; apply Forall_app; split; try assumption; [apply finish_wf|repeat constructor].
Qed.

Lemma timer_fire_wf p : Forall wf (snd (timer_fire p)).
Proof.
  unfold timer_fire. destruct (timer p); [|constructor].
  pose proof (exec_acts_wf timer_body 27 (set_timer p false)) as H.
  destruct (exec_acts timer_body 27 (set_timer p false)) as [[p' o] g]. exact H.
Qed.

Lemma feed_segments_wf segs : forall p, Forall wf (snd (fst (feed_segments p segs))).
Proof.
  induction segs as [|s t IH]; intros p; [constructor|]. cbn [feed_segments].
  pose proof (feed_wf (decode_all s) p) as H1.
  destruct (feed p (decode_all s)) as [[p1 o1] go]. cbn in H1.
  destruct go; [|exact H1]. destruct t as [|s2 t2]; [exact H1|].
  pose proof (timer_fire_wf p1) as H2. destruct (timer_fire p1) as [p2 o2]. cbn in H2.
  specialize (IH p2). destruct (feed_segments p2 (s2 :: t2)) as [[p3 o3] go3]. cbn in IH |- *.
  repeat (apply Forall_app; split); assumption.
Qed.

(* ... also when silences let the Escape timer fire between segments *)
Theorem parse_segments_wf segs : Forall wf (parse_segments segs).
Proof.
  unfold parse_segments. pose proof (feed_segments_wf segs pinit) as H.
  destruct (feed_segments pinit segs) as [[p o] go]. cbn in H. apply canon_wf.
  destruct go; apply Forall_app; split; try assumption; [apply finish_wf|repeat constructor].
Qed.

(* ================= B. handleSequence on every deliverable sequence ================= *)

Lemma par_p00 ps : par ps 0 = p00 ps.
Proof. destruct ps as [|[|v p] t]; reflexivity. Qed.

Lemma par_some ps k : nonempty_all ps -> 0 <= k < zlen ps -> exists v, par ps k = Some v.
Proof.
  intros Hps Hk. unfold par. destruct (zget_in_range ps k Hk) as [p Hp]. rewrite Hp.
  pose proof (zget_In _ _ _ Hp) as Hin. unfold nonempty_all in Hps. rewrite Forall_forall in Hps.
  specialize (Hps p Hin). destruct p as [|v p']; [congruence|]. exists v. reflexivity.
Qed.

Lemma split_on_nonempty c s : forall cur, exists h t, split_on c cur s = h :: t.
Proof.
  induction s as [|x s IH]; intros cur; cbn [split_on]; [eauto|].
  destruct (x =? c); [eauto|apply IH].
Qed.

Lemma suffixb_nonempty p q (s : list Z) : suffixb (p :: q) s = true -> s <> [].
Proof.
  intros H ->. unfold suffixb in H.
  destruct (rev (p :: q)) eqn:E.
  - apply (f_equal (@length Z)) in E. rewrite rev_length in E. discriminate.
  - cbn in H. discriminate.
Qed.

Lemma land_low cb m : Z.land m 255 = m -> Z.land cb m = Z.land (cb mod 256) m.
Proof.
  intros H. rewrite <- H at 1. rewrite (Z.land_comm m 255), Z.land_assoc.
  change 255 with (Z.ones 8). rewrite Z.land_ones by lia. reflexivity.
Qed.

Lemma testbit_low cb k : 0 <= k < 8 -> Z.testbit cb k = Z.testbit (cb mod 256) k.
Proof. intros H. change 256 with (2 ^ 8). symmetry. apply Z.mod_pow2_bits_low. lia. Qed.

Lemma arith_low cb : cb mod 4 + 64 * ((cb / 64) mod 4) = (cb mod 256) mod 4 + 64 * (((cb mod 256) / 64) mod 4).
Proof. Z.div_mod_to_equations. lia. Qed.

Definition byte_range : list Z := map Z.of_nat (seq 0 256).
Lemma in_byte_range x : 0 <= x < 256 -> In x byte_range.
Proof.
  intros H. unfold byte_range. apply in_map_iff. exists (Z.to_nat x). split; [lia|].
  apply in_seq. lia.
Qed.

Definition bits_check (x : Z) : bool :=
  (Z.land x 195 =? x mod 4 + 64 * ((x / 64) mod 4)) &&
  Bool.eqb (negb (Z.land x 32 =? 0)) (Z.testbit x 5) &&
  Bool.eqb (negb (Z.land x 4 =? 0)) (Z.testbit x 2) &&
  Bool.eqb (negb (Z.land x 8 =? 0)) (Z.testbit x 3) &&
  Bool.eqb (negb (Z.land x 16 =? 0)) (Z.testbit x 4).

Lemma bits_check_all : forallb bits_check byte_range = true.
Proof. vm_compute. reflexivity. Qed.

Lemma bits_facts cb :
  Z.land cb 195 = cb mod 4 + 64 * ((cb / 64) mod 4) /\
  negb (Z.land cb 32 =? 0) = Z.testbit cb 5 /\
  negb (Z.land cb 4 =? 0) = Z.testbit cb 2 /\
  negb (Z.land cb 8 =? 0) = Z.testbit cb 3 /\
  negb (Z.land cb 16 =? 0) = Z.testbit cb 4.
Proof.
  pose proof bits_check_all as H. rewrite forallb_forall in H.
  assert (Hx : 0 <= cb mod 256 < 256) by (apply Z.mod_pos_bound; lia).
  specialize (H _ (in_byte_range _ Hx)). unfold bits_check in H.
  repeat (apply andb_prop in H; destruct H as [H ?]).
  rewrite (land_low cb 195), (land_low cb 32), (land_low cb 4), (land_low cb 8), (land_low cb 16) by reflexivity.
  rewrite (testbit_low cb 5), (testbit_low cb 2), (testbit_low cb 3), (testbit_low cb 4) by lia.
  rewrite arith_low.
  repeat match goal with H : Bool.eqb _ _ = true |- _ => apply Bool.eqb_prop in H end.
  apply Z.eqb_eq in H. repeat split; assumption.
Qed.


Lemma parse_mouse_spec inter ps fin : nonempty_all ps -> fin = 77 \/ fin = 109 ->
  parse_mouse inter ps fin = Some (spec_mouse inter ps fin).
Proof.
  intros Hps Hfin. unfold parse_mouse, spec_mouse.
  destruct inter as [|i0 [|i1 it]].
  - reflexivity.
  - cbn [zlen length Z.of_nat Z.eqb Pos.eqb negb Pos.of_succ_nat zget Z.ltb Z.compare Z.to_nat nth_error].
    destruct (i0 =? 60) eqn:Ei; cbn [negb].
    2:{ destruct ps as [|[|? ?] [|[|? ?] [|[|? ?] [|? ?]]]]; reflexivity. }
    destruct ps as [|p0 [|p1 [|p2 [|p3 pt]]]].
    + reflexivity.
    + destruct p0; reflexivity.
    + destruct p0, p1; reflexivity.
    + pose proof (Forall_inv Hps) as H0. pose proof (Forall_inv (Forall_inv_tail Hps)) as H1.
      pose proof (Forall_inv (Forall_inv_tail (Forall_inv_tail Hps))) as H2. cbv beta in H0, H1, H2.
      destruct p0 as [|cb p0]; [congruence|]. destruct p1 as [|cx p1]; [congruence|].
      destruct p2 as [|cy p2]; [congruence|].
      cbn -[Z.land i64 Z.testbit Z.modulo Z.div Z.lor Z.mul Z.add].
      change (par [cb :: p0; cx :: p1; cy :: p2] 1) with (Some cx).
      change (par [cb :: p0; cx :: p1; cy :: p2] 2) with (Some cy).
      destruct (bits_facts cb) as (Hb & H5 & H2' & H3 & H4).
      unfold motion_bit, mouse_mod_shift, mouse_mod_alt, mouse_mod_ctrl, button_bits.
      rewrite Hb, H5, H2', H3, H4.
      do 3 f_equal.
      * destruct Hfin as [-> | ->]; destruct (Z.testbit cb 5); reflexivity.
      * destruct (Z.testbit cb 2), (Z.testbit cb 3), (Z.testbit cb 4); reflexivity.
    + assert (E : (zlen (p0 :: p1 :: p2 :: p3 :: pt) =? 3) = false).
      { rewrite !zlen_cons. pose proof (zlen_nonneg pt). lia. }
      rewrite E. cbn [negb].
      destruct p0 as [|? ?], p1 as [|? ?], p2 as [|? ?]; reflexivity.
  - assert (E : (zlen (i0 :: i1 :: it) =? 1) = false).
    { rewrite !zlen_cons. pose proof (zlen_nonneg it). lia. }
    rewrite E. reflexivity.
Qed.


(* ---------- SGR mouse reports round-trip ---------- *)
Lemma i64_id x : int64_ok x = true -> i64 x = x.
Proof.
  unfold int64_ok, i64. intros H.
  assert (Hx : -9223372036854775808 <= x <= 9223372036854775807) by lia.
  assert (Hm : x mod 18446744073709551616 = if x <? 0 then x + 18446744073709551616 else x).
  { Z.div_mod_to_equations. destruct (x <? 0) eqn:E; lia. }
  rewrite Hm. destruct (x <? 0) eqn:E.
  - destruct (x + 18446744073709551616 <? 9223372036854775808) eqn:E2; lia.
  - destruct (x <? 9223372036854775808) eqn:E2; lia.
Qed.

Definition rt_check (b : Z) (s a c m : bool) : bool :=
  negb (button_ok b) ||
  (let cb := sgr_cb b s a c m in
   (Z.land cb 195 =? b) && Bool.eqb (negb (Z.land cb 32 =? 0)) m && Bool.eqb (negb (Z.land cb 4 =? 0)) s
   && Bool.eqb (negb (Z.land cb 8 =? 0)) a && Bool.eqb (negb (Z.land cb 16 =? 0)) c).
Definition bools := [false; true].
Lemma rt_check_all :
  forallb (fun b => forallb (fun s => forallb (fun a => forallb (fun c => forallb (fun m =>
    rt_check b s a c m) bools) bools) bools) bools) byte_range = true.
Proof. vm_compute. reflexivity. Qed.

Lemma in_bools x : In x bools.
Proof. destruct x; cbn; auto. Qed.

Lemma button_ok_byte b : button_ok b = true -> 0 <= b < 256.
Proof.
  unfold button_ok, button_bits. intros H. apply andb_prop in H as [H0 H1].
  assert (Hb : Z.land b 195 = b) by lia. rewrite (land_low b 195) in Hb by reflexivity.
  assert (Hm : 0 <= b mod 256 < 256) by (apply Z.mod_pos_bound; lia).
  assert (Hle : Z.land (b mod 256) 195 <= 195).
  { assert (Hall : forallb (fun x => Z.land x 195 <=? 195) byte_range = true) by (vm_compute; reflexivity).
    rewrite forallb_forall in Hall. specialize (Hall _ (in_byte_range _ Hm)). lia. }
  lia.
Qed.

Lemma rt_facts b s a c m : button_ok b = true ->
  let cb := sgr_cb b s a c m in
  Z.land cb 195 = b /\ negb (Z.land cb 32 =? 0) = m /\ negb (Z.land cb 4 =? 0) = s /\
  negb (Z.land cb 8 =? 0) = a /\ negb (Z.land cb 16 =? 0) = c.
Proof.
  intros Hb. pose proof rt_check_all as H. rewrite forallb_forall in H.
  specialize (H b (in_byte_range b (button_ok_byte b Hb))).
  rewrite forallb_forall in H. specialize (H s (in_bools s)).
  rewrite forallb_forall in H. specialize (H a (in_bools a)).
  rewrite forallb_forall in H. specialize (H c (in_bools c)).
  rewrite forallb_forall in H. specialize (H m (in_bools m)).
  unfold rt_check in H. rewrite Hb in H. cbn [negb orb] in H. cbv zeta in H |- *.
  repeat (apply andb_prop in H; destruct H as [H ?]).
  repeat match goal with H : Bool.eqb _ _ = true |- _ => apply Bool.eqb_prop in H end.
  apply Z.eqb_eq in H. repeat split; assumption.
Qed.

(* every SGR report decodes to exactly the button, position, modifiers and type it encodes *)
Theorem mouse_roundtrip b col row shift alt ctrl motion release :
  button_ok b = true -> int64_ok col = true -> int64_ok row = true ->
  parse_mouse [60] (sgr_params b col row shift alt ctrl motion) (sgr_final release)
  = Some (Some (sgr_mouse b col row shift alt ctrl motion release)).
Proof.
  intros Hb Hc Hr. unfold sgr_params.
  destruct (rt_facts b shift alt ctrl motion Hb) as (H1 & H2 & H3 & H4 & H5). cbv zeta in *.
  set (cb := sgr_cb b shift alt ctrl motion) in *.
  unfold parse_mouse.
  change (zlen [60] =? 1) with true. change (zget [60] 0) with (Some 60). cbn [negb].
  change (60 =? 60) with true. cbn [negb].
  change (zlen [[cb]; [col + 1]; [row + 1]] =? 3) with true. cbn [negb].
  change (par [[cb]; [col + 1]; [row + 1]] 0) with (Some cb).
  change (par [[cb]; [col + 1]; [row + 1]] 1) with (Some (col + 1)).
  change (par [[cb]; [col + 1]; [row + 1]] 2) with (Some (row + 1)).
  unfold motion_bit, mouse_mod_shift, mouse_mod_alt, mouse_mod_ctrl, button_bits.
  rewrite H1, H2, H3, H4, H5.
  replace (row + 1 - 1) with row by lia. replace (col + 1 - 1) with col by lia.
  rewrite (i64_id row Hr), (i64_id col Hc). unfold sgr_mouse, sgr_final.
  do 3 f_equal.
  - destruct motion, release; reflexivity.
  - destruct shift, alt, ctrl; reflexivity.
Qed.

Section WithOracles.
Variable dec : item -> ikey.
Variable b64 : list Z -> option (list Z).

Definition live (s : vxstate) : Prop := q_stalled s = None.

(* the outcome is Ok, the queue is still being read, the user events are [ue] and the paste /
   request flags are [p'] / [r'] *)
Definition okspec (ue : list event) (p' r' : bool) (o : outcome) : Prop :=
  exists s' es, o = Ok s' es /\ live s' /\ user_events es = ue /\ paste s' = p' /\ req_cursor s' = r'.

Lemma user_events_app a b : user_events (a ++ b) = user_events a ++ user_events b.
Proof. unfold user_events, events_of. rewrite flat_map_app, filter_app. reflexivity. Qed.

Lemma okspec_bind ue1 p1 r1 ue2 p2 r2 o f :
  okspec ue1 p1 r1 o ->
  (forall s1, live s1 -> paste s1 = p1 -> req_cursor s1 = r1 -> okspec ue2 p2 r2 (f s1)) ->
  okspec (ue1 ++ ue2) p2 r2 (bind o f).
Proof.
  intros (s1 & es1 & -> & Hl1 & Hu1 & Hp1 & Hr1) Hf.
  destruct (Hf s1 Hl1 Hp1 Hr1) as (s2 & es2 & E2 & Hl2 & Hu2 & Hp2 & Hr2).
  exists s2, (es1 ++ es2). cbn [bind]. rewrite E2. repeat split; try assumption.
  rewrite user_events_app. congruence.
Qed.

Lemma okspec_post e s : live s ->
  okspec (if is_user e then [e] else []) (paste s) (req_cursor s) (post e s).
Proof.
  intros Hl. unfold post. rewrite Hl. exists s, [Ev e]. repeat split; assumption.
Qed.

Lemma okspec_try_post e s : live s ->
  okspec (if is_user e then [e] else []) (paste s) (req_cursor s) (try_post e s).
Proof.
  intros Hl. unfold try_post. rewrite Hl. exists s, [Ev e]. repeat split; assumption.
Qed.

Lemma okspec_ret s : live s -> okspec [] (paste s) (req_cursor s) (ret s).
Proof. intros Hl. exists s, []. repeat split; assumption. Qed.

Lemma okspec_post_key it s : live s ->
  okspec [EKey (if paste s then mark_paste (dec it) else dec it)] (paste s) (req_cursor s)
         (post_key dec it s).
Proof. intros Hl. apply (okspec_post (EKey _) s Hl). Qed.

Lemma da1_loop_quiet ps : forall s, nonempty_all ps -> live s ->
  okspec [] (paste s) (req_cursor s) (da1_loop ps s).
Proof.
  induction ps as [|p t IH]; intros s Hps Hl; cbn [da1_loop]; [apply okspec_ret; assumption|].
  inversion Hps as [|? ? Hp Ht]; subst. destruct p as [|v p']; [congruence|].
  cbn [zget Z.ltb Z.compare nth_error Z.to_nat need].
  change (@nil event) with (@nil event ++ []).
  apply okspec_bind with (p1 := paste s) (r1 := req_cursor s).
  - destruct (v =? 4); [apply (okspec_post (ECap CSixel) s Hl)|apply okspec_ret; assumption].
  - intros s1 Hl1 <- <-. apply IH; assumption.
Qed.

Definition spec_ok (s : vxstate) (it : item) (o : outcome) : Prop :=
  let '(ue, p', r') := spec_item dec (paste s) (req_cursor s) it in okspec ue p' r' o.

Ltac start := intros Hps Hl; unfold spec_ok, spec_item, classify, handle_csi, key_csi; cbn.
Ltac by_post Hl := first [ exact (okspec_post _ _ Hl) | exact (okspec_try_post _ _ Hl)
                         | exact (okspec_ret _ Hl) | exact (okspec_post_key _ _ Hl) ].
(* resolve `need (par ps k)` from the length facts in the context *)
Ltac need_par Hps :=
  match goal with
  | |- context [need (par ?ps ?k) _] =>
      let v := fresh "v" in let E := fresh "Ev" in
      destruct (par_some ps k Hps) as [v E]; [pose proof (zlen_nonneg ps); lia|]; rewrite E; cbn [need]
  end.

Lemma csi_c inter ps s : nonempty_all ps -> live s -> spec_ok s (ICsi inter ps 99) (handle_csi dec inter ps 99 s).
Proof.
  start. destruct (is_q inter); cbn; [|by_post Hl].
  change (@nil event) with (@nil event ++ []).
  apply okspec_bind with (p1 := paste s) (r1 := req_cursor s); [apply da1_loop_quiet; assumption|].
  intros s1 Hl1 <- <-. by_post Hl1.
Qed.

Lemma csi_I inter ps s : nonempty_all ps -> live s -> spec_ok s (ICsi inter ps 73) (handle_csi dec inter ps 73 s).
Proof. start. by_post Hl. Qed.
Lemma csi_O inter ps s : nonempty_all ps -> live s -> spec_ok s (ICsi inter ps 79) (handle_csi dec inter ps 79 s).
Proof. start. by_post Hl. Qed.

Lemma csi_R inter ps s : nonempty_all ps -> live s -> spec_ok s (ICsi inter ps 82) (handle_csi dec inter ps 82 s).
Proof.
  start. destruct (req_cursor s) eqn:Er; cbn; [|rewrite <- Er; by_post Hl].
  destruct (zlen ps =? 2) eqn:E2; cbn [negb].
  - do 2 need_par Hps. unfold send_cursor. cbn.
    destruct (w_cursor s); eexists; eexists; (split; [reflexivity|]); repeat split; exact Hl.
  - eexists; eexists; (split; [reflexivity|]); repeat split; exact Hl.
Qed.

Lemma csi_S inter ps s : nonempty_all ps -> live s -> spec_ok s (ICsi inter ps 83) (handle_csi dec inter ps 83 s).
Proof.
  start. destruct (is_q inter); cbn; [|by_post Hl].
  destruct (zlen ps <? 3) eqn:E3; cbn; [by_post Hl|].
  need_par Hps. destruct (v =? 2); [|by_post Hl].
  need_par Hps. destruct (v0 =? 0); by_post Hl.
Qed.

Lemma csi_n inter ps s : nonempty_all ps -> live s -> spec_ok s (ICsi inter ps 110) (handle_csi dec inter ps 110 s).
Proof.
  start. destruct (is_q inter); cbn; [|by_post Hl].
  destruct (zlen ps =? 2) eqn:E2; cbn; [|by_post Hl].
  need_par Hps. destruct (v =? 997); [|by_post Hl].
  need_par Hps. by_post Hl.
Qed.

Lemma decrpm_quiet perm ps c s : nonempty_all ps -> live s ->
  okspec [] (paste s) (req_cursor s) (decrpm_gen perm ps c s).
Proof.
  intros Hps Hl. unfold decrpm_gen. destruct (zlen ps <? 2) eqn:E; [by_post Hl|].
  need_par Hps. destruct ((v =? 1) || (v =? 2) || (perm && (v =? 3))); by_post Hl.
Qed.

Lemma csi_y inter ps s : nonempty_all ps -> live s -> spec_ok s (ICsi inter ps 121) (handle_csi dec inter ps 121 s).
Proof.
  start. destruct (zlen ps <? 1) eqn:E1; [by_post Hl|].
  need_par Hps.
  destruct (v =? 2026); [apply decrpm_quiet; assumption|].
  destruct (v =? 2027); [apply decrpm_quiet; assumption|].
  destruct (v =? 2031); [apply decrpm_quiet; assumption|]. by_post Hl.
Qed.

Lemma csi_u inter ps s : nonempty_all ps -> live s -> spec_ok s (ICsi inter ps 117) (handle_csi dec inter ps 117 s).
Proof. start. destruct (is_q inter); cbn; by_post Hl. Qed.

Lemma csi_tilde inter ps s : nonempty_all ps -> live s -> spec_ok s (ICsi inter ps 126) (handle_csi dec inter ps 126 s).
Proof.
  start. unfold p00_is. rewrite <- par_p00.
  destruct (zlen inter =? 0) eqn:Ei; cbn; [|by_post Hl].
  destruct (zlen ps =? 0) eqn:Ep.
  - assert (ps = []) by (apply zlen_zero_nil; lia). subst ps. cbn. by_post Hl.
  - need_par Hps. destruct (v =? 200) eqn:E200; cbn.
    + exact (okspec_post EPasteStart (set_paste s true) Hl).
    + destruct (v =? 201) eqn:E201; cbn; [exact (okspec_post EPasteEnd (set_paste s false) Hl)|by_post Hl].
Qed.

Lemma csi_mouse inter ps fin s : fin = 77 \/ fin = 109 -> nonempty_all ps -> live s ->
  spec_ok s (ICsi inter ps fin) (handle_csi dec inter ps fin s).
Proof.
  intros Hfin Hps Hl. unfold spec_ok, spec_item, classify, handle_csi, key_csi.
  rewrite (parse_mouse_spec inter ps fin Hps Hfin).
  destruct Hfin as [-> | ->]; cbn; destruct (spec_mouse inter ps _); by_post Hl.
Qed.

Lemma send_size_done_quiet s : live s -> okspec [] (paste s) (req_cursor s) (send_size_done s).
Proof.
  intros Hl. unfold send_size_done. destruct (size_done s <? 1); [|by_post Hl].
  eexists; eexists; (split; [reflexivity|]); repeat split; exact Hl.
Qed.

Lemma csi_t inter ps s : nonempty_all ps -> live s -> spec_ok s (ICsi inter ps 116) (handle_csi dec inter ps 116 s).
Proof.
  start. destruct (zlen ps <? 3) eqn:E3; [by_post Hl|].
  do 3 need_par Hps.
  destruct (v =? 4).
  { destruct (negb (c_pix (vcaps s))).
    - exact (okspec_post (ECap CPix) (set_next_size s _) Hl).
    - exact (okspec_ret (set_next_size s _) Hl). }
  destruct (v =? 8).
  { destruct (negb (c_chars (vcaps s))).
    - exact (okspec_post (ECap CChars) (set_next_size s _) Hl).
    - exact (send_size_done_quiet (set_next_size s _) Hl). }
  destruct (v =? 48); [|by_post Hl].
  destruct (zlen ps =? 5) eqn:E5; [|by_post Hl].
  do 2 need_par Hps.
  change (@nil event) with (@nil event ++ []).
  apply okspec_bind with (p1 := paste s) (r1 := req_cursor s).
  - destruct (negb (c_inband (vcaps s))).
    + exact (okspec_post (ECap CInband) (set_next_size (set_resize s true) _) Hl).
    + exact (okspec_ret (set_next_size (set_resize s true) _) Hl).
  - intros s1 Hl1 <- <-. by_post Hl1.
Qed.

(* every other final byte: a key *)
Lemma csi_other inter ps fin s : nonempty_all ps -> live s ->
  (fin =? 99) = false -> (fin =? 73) = false -> (fin =? 79) = false -> (fin =? 82) = false ->
  (fin =? 83) = false -> (fin =? 110) = false -> (fin =? 121) = false -> (fin =? 117) = false ->
  (fin =? 126) = false -> (fin =? 77) = false -> (fin =? 109) = false -> (fin =? 116) = false ->
  spec_ok s (ICsi inter ps fin) (handle_csi dec inter ps fin s).
Proof.
  intros Hps Hl E1 E2 E3 E4 E5 E6 E7 E8 E9 E10 E11 E12.
  unfold spec_ok, spec_item, classify, handle_csi, key_csi.
  rewrite E1, E2, E3, E4, E5, E6, E7, E8, E9, E10, E11, E12. cbn. by_post Hl.
Qed.

Lemma handle_csi_spec inter ps fin s : nonempty_all ps -> live s ->
  spec_ok s (ICsi inter ps fin) (handle_csi dec inter ps fin s).
Proof.
  intros Hps Hl.
  destruct (fin =? 99) eqn:E1; [apply Z.eqb_eq in E1; subst; apply csi_c; assumption|].
  destruct (fin =? 73) eqn:E2; [apply Z.eqb_eq in E2; subst; apply csi_I; assumption|].
  destruct (fin =? 79) eqn:E3; [apply Z.eqb_eq in E3; subst; apply csi_O; assumption|].
  destruct (fin =? 82) eqn:E4; [apply Z.eqb_eq in E4; subst; apply csi_R; assumption|].
  destruct (fin =? 83) eqn:E5; [apply Z.eqb_eq in E5; subst; apply csi_S; assumption|].
  destruct (fin =? 110) eqn:E6; [apply Z.eqb_eq in E6; subst; apply csi_n; assumption|].
  destruct (fin =? 121) eqn:E7; [apply Z.eqb_eq in E7; subst; apply csi_y; assumption|].
  destruct (fin =? 117) eqn:E8; [apply Z.eqb_eq in E8; subst; apply csi_u; assumption|].
  destruct (fin =? 126) eqn:E9; [apply Z.eqb_eq in E9; subst; apply csi_tilde; assumption|].
  destruct (fin =? 77) eqn:E10; [apply Z.eqb_eq in E10; apply csi_mouse; auto|].
  destruct (fin =? 109) eqn:E11; [apply Z.eqb_eq in E11; apply csi_mouse; auto|].
  destruct (fin =? 116) eqn:E12; [apply Z.eqb_eq in E12; subst; apply csi_t; assumption|].
  apply csi_other; assumption.
Qed.

Definition quiet (s : vxstate) (o : outcome) : Prop := okspec [] (paste s) (req_cursor s) o.

Lemma handle_dcs_quiet fin inter ps data s : live s -> quiet s (handle_dcs fin inter ps data s).
Proof.
  intros Hl. unfold quiet, handle_dcs.
  destruct (fin =? 114).
  { destruct (zlen inter <? 1) eqn:Ei; [by_post Hl|].
    destruct (zget_in_range inter 0) as [i0 E0]; [lia|]. rewrite E0. cbn [need].
    destruct (i0 =? 43).
    { destruct (zlen ps <? 1) eqn:Ep; [by_post Hl|].
      destruct (zget_in_range ps 0) as [p0 Ep0]; [lia|]. rewrite Ep0. cbn [need].
      destruct (p0 =? 0); [by_post Hl|].
      destruct (split_on_nonempty 61 (gostring data) []) as (h & t & Es). rewrite Es.
      change (zget (h :: t) 0) with (Some h). cbn [need].
      destruct (zlist_eqb h hex_Smulx); [by_post Hl|]. destruct (zlist_eqb h hex_RGB); by_post Hl. }
    destruct (i0 =? 36); [|by_post Hl].
    destruct (suffixb [32; 113] (gostring data)) eqn:Es; [|by_post Hl].
    apply suffixb_nonempty in Es. destruct data as [|d0 dt]; [exfalso; apply Es; reflexivity|]. cbn.
    destruct ((d0 <? 48) || (54 <? d0)); [by_post Hl|]. exact (okspec_ret (set_user_cursor s _) Hl). }
  destruct (fin =? 124); [|by_post Hl].
  destruct (zlen inter <? 1) eqn:Ei; [by_post Hl|].
  destruct (zget_in_range inter 0) as [i0 E0]; [lia|]. rewrite E0. cbn [need].
  destruct (i0 =? 33); [destruct (zlist_eqb (gostring data) hex_VTE); by_post Hl|].
  destruct (i0 =? 62); by_post Hl.
Qed.

Lemma osc_color_quiet cap get set c pl s :
  (forall v, live (set s v)) -> (forall v, paste (set s v) = paste s) ->
  (forall v, req_cursor (set s v) = req_cursor s) -> live s ->
  quiet s (osc_color cap get set c pl s).
Proof.
  intros H1 H2 H3 Hl. unfold quiet, osc_color. destruct cap.
  - rewrite <- (H2 (offer (get s) pl)), <- (H3 (offer (get s) pl)).
    exact (okspec_post (ECap c) _ (H1 _)).
  - by_post Hl.
Qed.

Lemma send_clip_quiet v s : live s -> quiet s (send_clip v s).
Proof.
  intros Hl. unfold quiet, send_clip. destruct (w_clip s); [|by_post Hl].
  eexists; eexists; (split; [reflexivity|]); repeat split; exact Hl.
Qed.

Lemma quiet_bind s o f : quiet s o ->
  (forall s1, live s1 -> paste s1 = paste s -> req_cursor s1 = req_cursor s -> quiet s1 (f s1)) ->
  quiet s (bind o f).
Proof.
  intros Ho Hf. unfold quiet. change (@nil event) with (@nil event ++ []).
  apply okspec_bind with (p1 := paste s) (r1 := req_cursor s); [exact Ho|].
  intros s1 Hl1 Hp1 Hr1. rewrite <- Hp1, <- Hr1. apply Hf; assumption.
Qed.

Lemma handle_osc_quiet payload s : live s -> quiet s (handle_osc b64 payload s).
Proof.
  intros Hl. unfold handle_osc.
  apply quiet_bind.
  { destruct (prefixb [52] (gostring payload)); [|exact (okspec_ret s Hl)].
    apply osc_color_quiet; auto. }
  intros s1 Hl1 _ _. apply quiet_bind.
  { destruct (prefixb [49; 48] (gostring payload)); [|exact (okspec_ret s1 Hl1)].
    apply osc_color_quiet; auto. }
  intros s2 Hl2 _ _. apply quiet_bind.
  { destruct (prefixb [49; 49] (gostring payload)); [|exact (okspec_ret s2 Hl2)].
    apply osc_color_quiet; auto. }
  intros s3 Hl3 _ _. unfold quiet.
  destruct (prefixb [53; 50] (gostring payload)).
  { destruct (zlen (split_on 59 [] (gostring payload)) =? 3) eqn:E3; cbn [negb]; [|by_post Hl3].
    destruct (zget_in_range (split_on 59 [] (gostring payload)) 2) as [v2 E2]; [lia|]. rewrite E2. cbn [need].
    destruct (b64 v2); [apply send_clip_quiet; assumption|by_post Hl3]. }
  destruct (prefixb [49; 55; 54] (gostring payload)); [|by_post Hl3].
  destruct (zlen (split_on 59 [] (gostring payload)) =? 2) eqn:E2; cbn [negb]; [|by_post Hl3].
  destruct (zget_in_range (split_on 59 [] (gostring payload)) 1) as [v1 E1]; [lia|]. rewrite E1. cbn [need].
  by_post Hl3.
Qed.

(* THE per-sequence statement: on every sequence the parser can deliver, while the application
   keeps reading events, handleSequence neither panics nor blocks, emits exactly the user
   events the sequence stands for, and leaves the paste / request flags as specified *)
Lemma handle_spec s it : wf it -> live s -> spec_ok s it (handle dec b64 s it).
Proof.
  intros Hwf Hl. destruct it; try (exact (okspec_post_key _ s Hl)); try (exact (okspec_ret s Hl)).
  - apply handle_csi_spec; [apply wf_csi_iff in Hwf|]; assumption.
  - exact (handle_osc_quiet _ s Hl).
  - exact (handle_dcs_quiet _ _ _ _ s Hl).
  - unfold spec_ok, spec_item, classify, handle.
    destruct (zlen data =? 0); [by_post Hl|]. destruct (prefixb [71] data); by_post Hl.
Qed.

(* application actions that keep the queue drained *)
Definition app_ok (a : appact) : Prop := match a with AQueue (Some _) => False | _ => True end.
Definition step_ok (x : step) : Prop := match x with SItem it => wf it | SApp a => app_ok a end.

Lemma app_step_facts s a : app_ok a -> live s ->
  live (app_step s a) /\ paste (app_step s a) = paste s /\
  req_cursor (app_step s a) = spec_app (req_cursor s) a.
Proof.
  intros Ha Hl. destruct a as [| | | | | | | | |[n|]| |]; cbn in Ha |- *; try contradiction;
    repeat split; try exact Hl; reflexivity.
Qed.

Theorem run_steps_spec l : forall s, Forall step_ok l -> live s ->
  exists s' es, run_steps dec b64 s l = Ok s' es /\ live s' /\
    user_events es = spec_user dec (paste s) (req_cursor s) l.
Proof.
  induction l as [|x t IH]; intros s Hok Hl.
  - exists s, []. repeat split; assumption.
  - pose proof (Forall_inv Hok) as Hx. pose proof (Forall_inv_tail Hok) as Ht.
    destruct x as [it|a].
    + assert (Hgen : exists s' es, bind (handle dec b64 s it) (fun s1 => run_steps dec b64 s1 t) = Ok s' es /\ live s' /\
                user_events es = (let '(es0, p', req') := spec_item dec (paste s) (req_cursor s) it in
                                  es0 ++ spec_user dec p' req' t)).
      { pose proof (handle_spec s it Hx Hl) as H. unfold spec_ok in H.
        destruct (spec_item dec (paste s) (req_cursor s) it) as [[ue p'] r'].
        destruct H as (s1 & es1 & E1 & Hl1 & Hu1 & Hp1 & Hr1).
        destruct (IH s1 Ht Hl1) as (s2 & es2 & E2 & Hl2 & Hu2).
        exists s2, (es1 ++ es2). rewrite E1. cbn [bind]. rewrite E2. repeat split; [assumption|].
        rewrite user_events_app, Hu1, Hu2, Hp1, Hr1. reflexivity. }
      destruct it; try exact Hgen.
      exists s, []. repeat split; assumption.
    + cbn [run_steps spec_user]. destruct (app_step_facts s a Hx Hl) as (Hl1 & Hp1 & Hr1).
      destruct (IH (app_step s a) Ht Hl1) as (s2 & es2 & E2 & Hl2 & Hu2).
      exists s2, es2. repeat split; try assumption. rewrite Hu2, Hp1, Hr1. reflexivity.
Qed.

Lemma bind_ext o f g : (forall s, f s = g s) -> bind o f = bind o g.
Proof. intros H. destruct o; cbn [bind]; [rewrite H|..]; reflexivity. Qed.

Lemma run_is_run_steps its : forall s, run dec b64 s its = run_steps dec b64 s (map SItem its).
Proof.
  induction its as [|it t IH]; intros s; [reflexivity|].
  cbn [map run run_steps]. destruct it; try reflexivity; apply bind_ext; intros; apply IH.
Qed.

(* ---------- user reports: encoders, and the events they must produce ---------- *)
Inductive report :=
  | RKey (it : item)            (* a key press or pasted character: the sequence the terminal sends *)
  | RMouse (b col row : Z) (shift alt ctrl motion release : bool)
  | RFocusIn | RFocusOut | RPasteStart | RPasteEnd.

Definition enc_report (r : report) : item :=
  match r with
  | RKey it => it
  | RMouse b col row sh al ct mo rel => ICsi [60] (sgr_params b col row sh al ct mo) (sgr_final rel)
  | RFocusIn => ICsi [] [] 73
  | RFocusOut => ICsi [] [] 79
  | RPasteStart => ICsi [] [[200]] 126
  | RPasteEnd => ICsi [] [[201]] 126
  end.

(* sequences that are keys whatever the state: Print, C0, ESC x, SS3 x, and every CSI that is
   none of the reports Vaxis knows (final byte R excluded: it is also the cursor-position
   report) *)
Definition key_item (it : item) : bool :=
  match it with
  | IPrint _ | IC0 _ | IEsc _ _ | ISS3 _ => true
  | ICsi inter ps fin => wf_item it && key_csi inter ps fin
  | _ => false
  end.
Definition is_csi_R (it : item) : bool := match it with ICsi _ _ fin => fin =? 82 | _ => false end.

Definition report_ok (req : bool) (r : report) : bool :=
  match r with
  | RKey it => key_item it && negb (is_csi_R it && req)
  | RMouse b col row _ _ _ _ _ => button_ok b && int64_ok col && int64_ok row
  | _ => true
  end.

Inductive selem := SUser (r : report) | SOther (it : item) | SAct (a : appact).
Definition enc_elem (e : selem) : step :=
  match e with SUser r => SItem (enc_report r) | SOther it => SItem it | SAct a => SApp a end.

(* a stream of user reports interleaved with anything that is not user input (replies, solicited
   or not, repeated, malformed; garbage) and with the application's own queries *)
Fixpoint stream_ok (req : bool) (l : list selem) : bool :=
  match l with
  | [] => true
  | SUser r :: t => report_ok req r && stream_ok req t
  | SOther it :: t =>
      wf_item it && negb (item_eqb it IEof) &&
      match classify req it with
      | UInternal => stream_ok req t
      | UCursorReply => stream_ok false t
      | _ => false
      end
  | SAct a :: t => (match a with AQueue (Some _) => false | _ => true end) && stream_ok (spec_app req a) t
  end.

Definition reports_of (l : list selem) : list report :=
  flat_map (fun e => match e with SUser r => [r] | _ => [] end) l.

(* the events the application must see: one per report, in order, keys between the paste
   brackets marked as pasted *)
Fixpoint deliver (p : bool) (rs : list report) : list event :=
  match rs with
  | [] => []
  | RKey it :: t => EKey (if p then mark_paste (dec it) else dec it) :: deliver p t
  | RMouse b col row sh al ct mo rel :: t => EMouse (sgr_mouse b col row sh al ct mo rel) :: deliver p t
  | RFocusIn :: t => EFocusIn :: deliver p t
  | RFocusOut :: t => EFocusOut :: deliver p t
  | RPasteStart :: t => EPasteStart :: deliver true t
  | RPasteEnd :: t => EPasteEnd :: deliver false t
  end.

Lemma classify_key_csi req inter ps fin :
  key_csi inter ps fin = true -> ((fin =? 82) && req) = false ->
  classify req (ICsi inter ps fin) = UKey.
Proof.
  intros Hk Hr. unfold classify. rewrite Hr. unfold key_csi in Hk.
  destruct (fin =? 99) eqn:E1.
  { apply Z.eqb_eq in E1; subst. cbn. unfold key_csi. cbn. rewrite Hk. reflexivity. }
  destruct (fin =? 73) eqn:E2; [cbn in Hk; discriminate|].
  destruct (fin =? 79) eqn:E3; [cbn in Hk; discriminate|]. cbn [orb] in Hk.
  destruct (fin =? 121) eqn:E4; [discriminate|].
  destruct (fin =? 77) eqn:E5; [cbn in Hk; discriminate|].
  destruct (fin =? 109) eqn:E6; [cbn in Hk; discriminate|]. cbn [orb] in Hk |- *.
  destruct (fin =? 116) eqn:E7; [discriminate|].
  assert (Hkc : key_csi inter ps fin = true).
  { unfold key_csi. rewrite E1, E2, E3, E4, E5, E6, E7. cbn [orb]. exact Hk. }
  destruct (fin =? 126) eqn:E8.
  2:{ cbn [andb]. rewrite Hkc. reflexivity. }
  rewrite Hkc. destruct (fin =? 83) eqn:E9; [lia|].
  destruct (fin =? 110) eqn:E10; [lia|]. destruct (fin =? 117) eqn:E11; [lia|].
  unfold p00_is. destruct (zlen inter =? 0); cbn [negb orb andb] in Hk |- *; [|reflexivity].
  destruct (p00 ps) as [v|]; [|discriminate].
  destruct (v =? 200); [discriminate|]. destruct (v =? 201); [discriminate|]. reflexivity.
Qed.

Lemma classify_mouse req inter ps fin : fin = 77 \/ fin = 109 ->
  classify req (ICsi inter ps fin) =
  match spec_mouse inter ps fin with Some m => UMouse m | None => UInternal end.
Proof. intros [-> | ->]; reflexivity. Qed.

Lemma spec_item_report p req r : report_ok req r = true ->
  spec_item dec p req (enc_report r) =
  (deliver p [r],
   match r with RPasteStart => true | RPasteEnd => false | _ => p end, req).
Proof.
  intros Hok. destruct r as [it|b col row sh al ct mo rel| | | |]; cbn [enc_report deliver]; try reflexivity.
  - cbn [report_ok] in Hok. apply andb_prop in Hok as [Hk Hr]. unfold spec_item.
    destruct it; try discriminate; try reflexivity.
    cbn [key_item] in Hk. apply andb_prop in Hk as [_ Hk]. cbn [is_csi_R] in Hr.
    rewrite (classify_key_csi req inter ps final Hk); [reflexivity|].
    destruct ((final =? 82) && req); [discriminate|reflexivity].
  - cbn [report_ok] in Hok. apply andb_prop in Hok as [Hok Hr]. apply andb_prop in Hok as [Hb Hc].
    assert (Hps : nonempty_all (sgr_params b col row sh al ct mo)) by (repeat constructor; discriminate).
    assert (Hfin : sgr_final rel = 77 \/ sgr_final rel = 109) by (destruct rel; auto).
    pose proof (parse_mouse_spec [60] _ _ Hps Hfin) as Hspec.
    rewrite (mouse_roundtrip b col row sh al ct mo rel Hb Hc Hr) in Hspec.
    assert (Hs : spec_mouse [60] (sgr_params b col row sh al ct mo) (sgr_final rel) =
                 Some (sgr_mouse b col row sh al ct mo rel)) by congruence.
    unfold spec_item. rewrite (classify_mouse req _ _ _ Hfin), Hs. reflexivity.
Qed.

Lemma spec_user_stream l : forall p req, stream_ok req l = true ->
  spec_user dec p req (map enc_elem l) = deliver p (reports_of l).
Proof.
  induction l as [|e t IH]; intros p req Hok; [reflexivity|].
  destruct e as [r|it|a]; cbn [stream_ok] in Hok; cbn [map enc_elem reports_of flat_map].
  - apply andb_prop in Hok as [Hr Ht].
    assert (Hne : forall t', spec_user dec p req (SItem (enc_report r) :: t') =
                  (let '(es, p', req') := spec_item dec p req (enc_report r) in es ++ spec_user dec p' req' t')).
    { intros t'. destruct r as [it| | | | |]; try reflexivity.
      cbn [report_ok] in Hr. apply andb_prop in Hr as [Hk _]. destruct it; try discriminate; reflexivity. }
    rewrite Hne, (spec_item_report p req r Hr).
    rewrite (IH _ req Ht). destruct r; reflexivity.
  - apply andb_prop in Hok as [Hw Hc]. apply andb_prop in Hw as [Hw Hne].
    assert (Hcons : spec_user dec p req (SItem it :: map enc_elem t) =
                  (let '(es, p', req') := spec_item dec p req it in es ++ spec_user dec p' req' (map enc_elem t))).
    { destruct it; try reflexivity. discriminate. }
    rewrite Hcons. unfold spec_item.
    destruct (classify req it); try discriminate; cbn [app]; apply IH; assumption.
  - apply andb_prop in Hok as [_ Ht]. cbn [spec_user]. apply IH; assumption.
Qed.

Lemma stream_steps_ok l : forall req, stream_ok req l = true -> Forall step_ok (map enc_elem l).
Proof.
  induction l as [|e t IH]; intros req Hok; [constructor|].
  destruct e as [r|it|a]; cbn [stream_ok] in Hok; cbn [map enc_elem].
  - apply andb_prop in Hok as [Hr Ht]. constructor; [|apply (IH _ Ht)].
    destruct r as [it|b col row sh al ct mo rel| | | |]; try reflexivity.
    cbn [report_ok] in Hr. apply andb_prop in Hr as [Hk _].
    destruct it; try discriminate; try reflexivity.
    cbn [key_item] in Hk. apply andb_prop in Hk as [Hk _]. exact Hk.
  - apply andb_prop in Hok as [Hw Hc]. apply andb_prop in Hw as [Hw _].
    constructor; [exact Hw|]. destruct (classify req it); try discriminate; eapply IH; eassumption.
  - apply andb_prop in Hok as [Ha Ht]. constructor; [|apply (IH _ Ht)].
    destruct a as [| | | | | | | | |[n|]| |]; try exact I. discriminate.
Qed.

(* user_input_exact *)
Theorem user_input_exact l s : stream_ok (req_cursor s) l = true -> live s ->
  exists s' es, run_steps dec b64 s (map enc_elem l) = Ok s' es /\
    user_events es = deliver (paste s) (reports_of l).
Proof.
  intros Hok Hl.
  destruct (run_steps_spec (map enc_elem l) s (stream_steps_ok l _ Hok) Hl) as (s' & es & E & _ & Hu).
  exists s', es. split; [exact E|]. rewrite Hu. apply spec_user_stream. exact Hok.
Qed.
End WithOracles.

(* ================= B2. any queue state: never a panic, blocks only by back-pressure ================= *)

Section AnyQueue.
Variable dec : item -> ikey.
Variable b64 : list Z -> option (list Z).

(* never a panic; a block only when nobody reads the queue; a drained queue stays drained *)
Definition safe (q : option Z) (o : outcome) : Prop :=
  match o with
  | Ok s' _ => q = None -> q_stalled s' = None
  | Panic _ => False
  | Blocks _ => q <> None
  end.

Lemma safe_ret q s : (q = None -> q_stalled s = None) -> safe q (ret s).
Proof. intros H; exact H. Qed.

Lemma safe_post q e s : (q = None -> q_stalled s = None) -> safe q (post e s).
Proof.
  intros H. unfold post. destruct (q_stalled s) as [n|] eqn:E.
  - destruct (0 <? n); cbn; intros Hq; specialize (H Hq); congruence.
  - cbn. auto.
Qed.

Lemma safe_try_post q e s : (q = None -> q_stalled s = None) -> safe q (try_post e s).
Proof.
  intros H. unfold try_post. destruct (q_stalled s) as [n|] eqn:E.
  - destruct (0 <? n); cbn; intros Hq; specialize (H Hq); congruence.
  - cbn. auto.
Qed.

Lemma safe_bind q o f : safe q o -> (forall s1, (q = None -> q_stalled s1 = None) -> safe q (f s1)) ->
  safe q (bind o f).
Proof.
  intros Ho Hf. destruct o as [s1 es1| |]; cbn in *; try assumption.
  specialize (Hf s1 Ho). destruct (f s1); cbn in *; assumption.
Qed.

Lemma safe_post_key q it s : (q = None -> q_stalled s = None) -> safe q (post_key dec it s).
Proof. apply safe_post. Qed.

Ltac qside := first [ assumption | (intros; cbn; auto; fail) ].
Ltac leaf :=
  first [ apply safe_ret; qside | apply safe_post; qside | apply safe_try_post; qside
        | apply safe_post_key; qside ].

Lemma safe_da1 q ps : forall s, nonempty_all ps -> (q = None -> q_stalled s = None) -> safe q (da1_loop ps s).
Proof.
  induction ps as [|p t IH]; intros s Hps Hq; cbn [da1_loop]; [leaf|].
  pose proof (Forall_inv Hps) as Hp. destruct p as [|v p']; [congruence|].
  change (zget (v :: p') 0) with (Some v). cbn [need].
  apply safe_bind; [destruct (v =? 4); leaf|]. intros s1 Hq1. apply IH; [exact (Forall_inv_tail Hps)|assumption].
Qed.

Ltac need_par Hps :=
  match goal with
  | |- context [need (par ?ps ?k) _] =>
      let v := fresh "v" in let E := fresh "Ev" in
      destruct (par_some ps k Hps) as [v E]; [pose proof (zlen_nonneg ps); lia|]; rewrite E; cbn [need]
  end.

Ltac crush Hps :=
  repeat first
    [ leaf
    | need_par Hps
    | match goal with
      | |- safe _ (bind _ _) => apply safe_bind; [|intros ? ?]
      | |- safe _ (if ?c then _ else _) => destruct c eqn:?
      | |- safe _ (match ?c with _ => _ end) => destruct c eqn:?
      end ].

Lemma safe_csi q inter ps fin s : nonempty_all ps -> (q = None -> q_stalled s = None) ->
  safe q (handle_csi dec inter ps fin s).
Proof.
  intros Hps Hq. unfold handle_csi, decrpm, decrpm_gen, send_cursor, send_size_done.
  crush Hps.
  all: try (apply safe_da1; assumption).
  assert (Hfin : fin = 77 \/ fin = 109) by lia.
  rewrite (parse_mouse_spec inter ps fin Hps Hfin) in *. discriminate.
Qed.

Ltac need_zget :=
  match goal with
  | |- context [need (zget ?l ?k) _] =>
      let v := fresh "v" in let E := fresh "Ev" in
      destruct (zget_in_range l k) as [v E]; [pose proof (zlen_nonneg l); lia|]; rewrite E; cbn [need]
  end.

Ltac crush0 :=
  repeat first
    [ leaf
    | need_zget
    | match goal with
      | |- safe _ (bind _ _) => apply safe_bind; [|intros ? ?]
      | |- safe _ (if ?c then _ else _) => destruct c eqn:?
      | |- safe _ (match ?c with _ => _ end) => destruct c eqn:?
      end ].

Lemma safe_dcs q fin inter ps data s : (q = None -> q_stalled s = None) ->
  safe q (handle_dcs fin inter ps data s).
Proof.
  intros Hq. unfold handle_dcs.
  destruct (split_on_nonempty 61 (gostring data) []) as (h & t & Es). rewrite Es.
  change (zget (h :: t) 0) with (Some h). cbn [need].
  destruct (suffixb [32; 113] (gostring data)) eqn:Esuf.
  - apply suffixb_nonempty in Esuf. destruct data as [|d0 dt]; [exfalso; apply Esuf; reflexivity|].
    change (zget (d0 :: dt) 0) with (Some d0). cbn [need]. crush0.
  - crush0.
Qed.

Lemma safe_osc q payload s : (q = None -> q_stalled s = None) -> safe q (handle_osc b64 payload s).
Proof.
  intros Hq. unfold handle_osc, osc_color, send_clip. crush0.
  all: match goal with |- context [if ?c then _ else _] => destruct c end; leaf.
Qed.

Theorem handle_safe s it : wf it -> safe (q_stalled s) (handle dec b64 s it).
Proof.
  intros Hw. assert (Hq : q_stalled s = None -> q_stalled s = None) by auto.
  destruct it; cbn [handle]; try leaf.
  - apply safe_csi; [apply wf_csi_iff in Hw|]; assumption.
  - apply safe_osc; assumption.
  - apply safe_dcs; assumption.
  - crush0.
Qed.

Definition not_panic (o : outcome) : Prop := match o with Panic _ => False | _ => True end.
Definition item_wf_step (x : step) : Prop := match x with SItem it => wf it | SApp _ => True end.

(* no interleaving whatsoever (the application may stop reading the queue at any time) makes
   the input goroutine panic *)
Theorem run_steps_never_panics l : forall s, Forall item_wf_step l -> not_panic (run_steps dec b64 s l).
Proof.
  induction l as [|x t IH]; intros s Hok; [exact I|].
  pose proof (Forall_inv Hok) as Hx. pose proof (Forall_inv_tail Hok) as Ht.
  destruct x as [it|a]; [|apply IH; assumption].
  assert (Hgen : not_panic (bind (handle dec b64 s it) (fun s1 => run_steps dec b64 s1 t))).
  { pose proof (handle_safe s it Hx) as Hs. destruct (handle dec b64 s it) as [s1 es1| |]; cbn in *; try exact I; try contradiction.
    specialize (IH s1 Ht). destruct (run_steps dec b64 s1 t); cbn in *; auto. }
  destruct it; try exact Hgen; exact I.
Qed.
End AnyQueue.

(* ================= B3. each reply changes only what it reports ================= *)

(* ---------- which sequence may touch what ---------- *)
Definition csi_is (it : item) (f : Z) : bool := match it with ICsi _ _ fin => fin =? f | _ => false end.
Definition csi_q_is (it : item) (f : Z) : bool := match it with ICsi inter _ fin => (fin =? f) && is_q inter | _ => false end.
Definition csi_p0_is (it : item) (f v : Z) : bool :=
  match it with ICsi _ ps fin => (fin =? f) && p00_is ps v | _ => false end.
Definition osc_is (it : item) (pre : list Z) : bool :=
  match it with IOsc payload => prefixb pre (gostring payload) | _ => false end.
Definition dcs_is (it : item) (f i0 : Z) : bool :=
  match it with IDcs fin (i :: _) _ _ => (fin =? f) && (i =? i0) | _ => false end.
Definition apc_is (it : item) : bool := match it with IApc _ => true | _ => false end.

(* the only sequences that can make handleSequence emit the capability event c *)
Definition cap_source (c : capev) (it : item) : bool :=
  match c with
  | CSixel => csi_q_is it 99 || csi_q_is it 83
  | COsc4 => osc_is it [52] | COsc10 => osc_is it [49; 48] | COsc11 => osc_is it [49; 49]
  | CSync => csi_p0_is it 121 2026 | CUnicode => csi_p0_is it 121 2027 | CTheme => csi_p0_is it 121 2031
  | CKittyKb => csi_q_is it 117
  | CKittyGfx => apc_is it
  | CSmulx => dcs_is it 114 43 || dcs_is it 124 33
  | CRgb => dcs_is it 114 43
  | CPix => csi_p0_is it 116 4 | CChars => csi_p0_is it 116 8 | CInband => csi_p0_is it 116 48
  end.

Definition ev_source (e : event) (it : item) : bool :=
  match e with
  | ECap c => cap_source c it
  | EDA1 => csi_q_is it 99
  | EColorTheme _ => csi_q_is it 110
  | ERedraw => csi_p0_is it 116 48
  | EAppID _ => osc_is it [49; 55; 54]
  | ETermID _ => dcs_is it 124 62
  | EResize _ | EQuit => false
  | _ => true            (* user events: see user_input_exact *)
  end.

Definition is_paste_bracket (it : item) : bool := csi_p0_is it 126 200 || csi_p0_is it 126 201.

Record frame (it : item) (s s' : vxstate) : Prop := {
  fr_caps : vcaps s' = vcaps s;
  fr_paste : paste s' = paste s \/ is_paste_bracket it = true;
  fr_req : req_cursor s' = req_cursor s \/ csi_is it 82 = true;
  fr_wcur : w_cursor s' = w_cursor s \/ csi_is it 82 = true;
  fr_resize : resize s' = resize s \/ csi_p0_is it 116 48 = true;
  fr_chars : (s_cols (next_size s') = s_cols (next_size s) /\ s_rows (next_size s') = s_rows (next_size s))
             \/ csi_p0_is it 116 8 = true \/ csi_p0_is it 116 48 = true;
  fr_pix : (s_xpix (next_size s') = s_xpix (next_size s) /\ s_ypix (next_size s') = s_ypix (next_size s))
             \/ csi_p0_is it 116 4 = true \/ csi_p0_is it 116 48 = true;
  fr_style : user_cursor s' = user_cursor s \/ dcs_is it 114 36 = true;
  fr_sdone : size_done s' = size_done s \/ csi_p0_is it 116 8 = true;
  fr_color : ch_color s' = ch_color s \/ osc_is it [52] = true;
  fr_fg : ch_fg s' = ch_fg s \/ osc_is it [49; 48] = true;
  fr_bg : ch_bg s' = ch_bg s \/ osc_is it [49; 49] = true;
  fr_wclip : w_clip s' = w_clip s \/ osc_is it [53; 50] = true
}.

Lemma frame_refl it s : frame it s s.
Proof. constructor; auto. Qed.

Lemma or_eq_trans {A} (x y z : A) (P : Prop) : y = x \/ P -> z = y \/ P -> z = x \/ P.
Proof. intros [H|H] [H'|H']; auto. left; congruence. Qed.
Lemma or_eq2_trans {A B} (x y z : A) (x' y' z' : B) (P : Prop) :
  (y = x /\ y' = x') \/ P -> (z = y /\ z' = y') \/ P -> (z = x /\ z' = x') \/ P.
Proof. intros [[H1 H2]|H] [[H1' H2']|H']; auto. left; split; congruence. Qed.

Lemma frame_trans it s s1 s2 : frame it s s1 -> frame it s1 s2 -> frame it s s2.
Proof.
  intros F G. constructor.
  - rewrite (fr_caps _ _ _ G). apply (fr_caps _ _ _ F).
  - exact (or_eq_trans _ _ _ _ (fr_paste _ _ _ F) (fr_paste _ _ _ G)).
  - exact (or_eq_trans _ _ _ _ (fr_req _ _ _ F) (fr_req _ _ _ G)).
  - exact (or_eq_trans _ _ _ _ (fr_wcur _ _ _ F) (fr_wcur _ _ _ G)).
  - exact (or_eq_trans _ _ _ _ (fr_resize _ _ _ F) (fr_resize _ _ _ G)).
  - exact (or_eq2_trans _ _ _ _ _ _ _ (fr_chars _ _ _ F) (fr_chars _ _ _ G)).
  - exact (or_eq2_trans _ _ _ _ _ _ _ (fr_pix _ _ _ F) (fr_pix _ _ _ G)).
  - exact (or_eq_trans _ _ _ _ (fr_style _ _ _ F) (fr_style _ _ _ G)).
  - exact (or_eq_trans _ _ _ _ (fr_sdone _ _ _ F) (fr_sdone _ _ _ G)).
  - exact (or_eq_trans _ _ _ _ (fr_color _ _ _ F) (fr_color _ _ _ G)).
  - exact (or_eq_trans _ _ _ _ (fr_fg _ _ _ F) (fr_fg _ _ _ G)).
  - exact (or_eq_trans _ _ _ _ (fr_bg _ _ _ F) (fr_bg _ _ _ G)).
  - exact (or_eq_trans _ _ _ _ (fr_wclip _ _ _ F) (fr_wclip _ _ _ G)).
Qed.

Definition exact_upd (it : item) (s : vxstate) (o : outcome) : Prop :=
  forall s' es, o = Ok s' es ->
    frame it s s' /\ Forall (fun e => ev_source e it = true) (events_of es).

Section Exact.
Variable dec : item -> ikey.
Variable b64 : list Z -> option (list Z).

Ltac fr F := destruct F; constructor; cbn; auto.

Lemma frame_set_q it s s1 q : frame it s s1 -> frame it s (set_q s1 q).
Proof. intros F; fr F. Qed.
Lemma frame_set_paste it s s1 b : frame it s s1 -> is_paste_bracket it = true -> frame it s (set_paste s1 b).
Proof. intros F H; fr F. Qed.
Lemma frame_set_req it s s1 b : frame it s s1 -> csi_is it 82 = true -> frame it s (set_req s1 b).
Proof. intros F H; fr F. Qed.
Lemma frame_set_w_cursor it s s1 b : frame it s s1 -> csi_is it 82 = true -> frame it s (set_w_cursor s1 b).
Proof. intros F H; fr F. Qed.
Lemma frame_set_resize it s s1 b : frame it s s1 -> csi_p0_is it 116 48 = true -> frame it s (set_resize s1 b).
Proof. intros F H; fr F. Qed.
Lemma frame_set_size_pix it s s1 x y : frame it s s1 -> csi_p0_is it 116 4 = true ->
  frame it s (set_next_size s1 (mkSize (s_cols (next_size s1)) (s_rows (next_size s1)) x y)).
Proof. intros F H; fr F. Qed.
Lemma frame_set_size_chars it s s1 c r : frame it s s1 -> csi_p0_is it 116 8 = true ->
  frame it s (set_next_size s1 (mkSize c r (s_xpix (next_size s1)) (s_ypix (next_size s1)))).
Proof. intros F H; fr F. Qed.
Lemma frame_set_size_all it s s1 z : frame it s s1 -> csi_p0_is it 116 48 = true ->
  frame it s (set_next_size s1 z).
Proof. intros F H; fr F. Qed.
Lemma frame_set_user_cursor it s s1 v : frame it s s1 -> dcs_is it 114 36 = true -> frame it s (set_user_cursor s1 v).
Proof. intros F H; fr F. Qed.
Lemma frame_set_size_done it s s1 v : frame it s s1 -> csi_p0_is it 116 8 = true -> frame it s (set_size_done s1 v).
Proof. intros F H; fr F. Qed.
Lemma frame_set_ch_color it s s1 v : frame it s s1 -> osc_is it [52] = true -> frame it s (set_ch_color s1 v).
Proof. intros F H; fr F. Qed.
Lemma frame_set_ch_fg it s s1 v : frame it s s1 -> osc_is it [49; 48] = true -> frame it s (set_ch_fg s1 v).
Proof. intros F H; fr F. Qed.
Lemma frame_set_ch_bg it s s1 v : frame it s s1 -> osc_is it [49; 49] = true -> frame it s (set_ch_bg s1 v).
Proof. intros F H; fr F. Qed.
Lemma frame_set_w_clip it s s1 b : frame it s s1 -> osc_is it [53; 50] = true -> frame it s (set_w_clip s1 b).
Proof. intros F H; fr F. Qed.

Lemma eu_ret it s s1 : frame it s s1 -> exact_upd it s (ret s1).
Proof. intros F s' es E. injection E as <- <-. split; [exact F|constructor]. Qed.

Lemma eu_post it s s1 e : frame it s s1 -> ev_source e it = true -> exact_upd it s (post e s1).
Proof.
  intros F He s' es E. unfold post in E. destruct (q_stalled s1) as [n|].
  - destruct (0 <? n); [|discriminate]. injection E as <- <-.
    split; [apply frame_set_q; exact F|repeat constructor; exact He].
  - injection E as <- <-. split; [exact F|repeat constructor; exact He].
Qed.

Lemma eu_try_post it s s1 e : frame it s s1 -> ev_source e it = true -> exact_upd it s (try_post e s1).
Proof.
  intros F He s' es E. unfold try_post in E. destruct (q_stalled s1) as [n|].
  - destruct (0 <? n); injection E as <- <-.
    + split; [apply frame_set_q; exact F|repeat constructor; exact He].
    + split; [exact F|constructor].
  - injection E as <- <-. split; [exact F|repeat constructor; exact He].
Qed.

Lemma events_of_app a b : events_of (a ++ b) = events_of a ++ events_of b.
Proof. unfold events_of. apply flat_map_app. Qed.

Lemma eu_bind it s o f : exact_upd it s o -> (forall s1, frame it s s1 -> exact_upd it s (f s1)) ->
  exact_upd it s (bind o f).
Proof.
  intros Ho Hf s' es E. destruct o as [s1 es1| |]; cbn [bind] in E; try discriminate.
  destruct (Ho s1 es1 eq_refl) as [F1 A1]. specialize (Hf s1 F1).
  destruct (f s1) as [s2 es2| |] eqn:Ef; try discriminate. injection E as <- <-.
  destruct (Hf s2 es2 eq_refl) as [F2 A2]. split; [exact F2|].
  rewrite events_of_app. apply Forall_app; split; assumption.
Qed.

Lemma eu_panic it s es : exact_upd it s (Panic es).
Proof. intros s' es' E; discriminate. Qed.

Lemma eu_ok it s s1 es : frame it s s1 -> Forall (fun e => ev_source e it = true) (events_of es) ->
  exact_upd it s (Ok s1 es).
Proof. intros F H s' es' E. injection E as <- <-. split; assumption. Qed.

Lemma eu_post_key it s s1 x : frame it s s1 -> exact_upd it s (post_key dec x s1).
Proof. intros F. apply eu_post; [exact F|reflexivity]. Qed.

Ltac src_tac :=
  unfold is_paste_bracket; cbn [ev_source cap_source csi_p0_is csi_q_is csi_is osc_is dcs_is apc_is];
  unfold p00_is; rewrite <- ?par_p00;
  repeat match goal with H : ?a = ?b |- context [?a] => rewrite H end;
  cbn; first [ reflexivity | lia ].

Ltac frame_tac :=
  repeat first
    [ assumption
    | apply frame_set_paste | apply frame_set_req | apply frame_set_w_cursor | apply frame_set_resize
    | apply frame_set_size_pix | apply frame_set_size_chars | apply frame_set_size_all
    | apply frame_set_user_cursor | apply frame_set_size_done | apply frame_set_ch_color
    | apply frame_set_ch_fg | apply frame_set_ch_bg | apply frame_set_w_clip ];
  try src_tac.

Ltac leaf :=
  first [ apply eu_ret; frame_tac
        | apply eu_post_key; frame_tac
        | apply eu_post; [frame_tac|src_tac]
        | apply eu_try_post; [frame_tac|src_tac]
        | apply eu_panic
        | apply eu_ok; [frame_tac|repeat constructor] ].

Ltac need_par Hps :=
  match goal with
  | |- context [need (par ?ps ?k) _] =>
      let v := fresh "v" in let E := fresh "Ev" in
      destruct (par_some ps k Hps) as [v E]; [pose proof (zlen_nonneg ps); lia|]; rewrite E; cbn [need]
  end.

Ltac crush Hps :=
  repeat first
    [ leaf
    | need_par Hps
    | match goal with
      | |- exact_upd _ _ (bind _ _) => apply eu_bind; [|intros ? ?]
      | |- exact_upd _ _ (if ?c then _ else _) => destruct c eqn:?
      | |- exact_upd _ _ (match ?c with _ => _ end) => destruct c eqn:?
      end ].

Lemma eu_da1 it : csi_q_is it 99 = true -> forall ps s s1, nonempty_all ps -> frame it s s1 ->
  exact_upd it s (da1_loop ps s1).
Proof.
  intros Hit. induction ps as [|p t IH]; intros s s1 Hps F; cbn [da1_loop]; [apply eu_ret; exact F|].
  pose proof (Forall_inv Hps) as Hp. destruct p as [|v p']; [congruence|].
  change (zget (v :: p') 0) with (Some v). cbn [need].
  apply eu_bind.
  - destruct (v =? 4); [apply eu_post; [exact F|cbn; rewrite Hit; reflexivity]|apply eu_ret; exact F].
  - intros s2 F2. apply IH; [exact (Forall_inv_tail Hps)|exact F2].
Qed.

Lemma eu_csi inter ps fin s : nonempty_all ps ->
  exact_upd (ICsi inter ps fin) s (handle_csi dec inter ps fin s).
Proof.
  intros Hps. pose proof (frame_refl (ICsi inter ps fin) s) as F0.
  unfold handle_csi, decrpm, decrpm_gen, send_cursor, send_size_done.
  crush Hps.
  apply eu_da1; [cbn; rewrite Heqb, Heqb0; reflexivity|assumption|assumption].
Qed.

Ltac need_zget :=
  match goal with
  | |- context [need (zget ?l ?k) _] =>
      let v := fresh "v" in let E := fresh "Ev" in
      destruct (zget_in_range l k) as [v E]; [pose proof (zlen_nonneg l); lia|]; rewrite E; cbn [need]
  end.

Ltac crush0 :=
  repeat first
    [ leaf
    | need_zget
    | match goal with
      | |- exact_upd _ _ (bind _ _) => apply eu_bind; [|intros ? ?]
      | |- exact_upd _ _ (if ?c then _ else _) => destruct c eqn:?
      | |- exact_upd _ _ (match ?c with _ => _ end) => destruct c eqn:?
      end ].

Lemma eu_dcs fin inter ps data s :
  exact_upd (IDcs fin inter ps data) s (handle_dcs fin inter ps data s).
Proof.
  pose proof (frame_refl (IDcs fin inter ps data) s) as F0.
  unfold handle_dcs.
  destruct (split_on_nonempty 61 (gostring data) []) as (h & t & Es). rewrite Es.
  change (zget (h :: t) 0) with (Some h). cbn [need].
  destruct inter as [|i0 inter'].
  { change (zlen (@nil Z) <? 1) with true. cbn iota. crush0. }
  change (zget (i0 :: inter') 0) with (Some i0). cbn [need].
  destruct (suffixb [32; 113] (gostring data)) eqn:Esuf.
  - pose proof (suffixb_nonempty _ _ _ Esuf) as Hne. destruct data as [|d0 dt]; [exfalso; apply Hne; reflexivity|].
    change (zget (d0 :: dt) 0) with (Some d0). cbn [need]. crush0.
  - crush0.
Qed.

Lemma eu_osc payload s : exact_upd (IOsc payload) s (handle_osc b64 payload s).
Proof.
  pose proof (frame_refl (IOsc payload) s) as F0.
  unfold handle_osc, osc_color, send_clip. crush0.
  all: match goal with |- context [if ?c then _ else _] => destruct c end; frame_tac.
Qed.

(* reply_updates_exactly: whatever handleSequence does on a deliverable sequence, the state
   components it changes and the internal events it emits are only those the sequence reports *)
Theorem handle_exact s it : wf it -> exact_upd it s (handle dec b64 s it).
Proof.
  intros Hw. pose proof (frame_refl it s) as F0.
  destruct it; cbn [handle]; try leaf.
  - apply eu_csi. apply wf_csi_iff in Hw. exact Hw.
  - apply eu_osc.
  - apply eu_dcs.
  - crush0.
Qed.
End Exact.

(* ================= D. each reply delivers its answer ================= *)
Section Answers.
Variable dec : item -> ikey.
Variable b64 : list Z -> option (list Z).

(* CSI 8 ; h ; w t : the size is recorded; once the capability is known the waiting
   reportWinsize gets its token, and a repeated report is dropped instead of blocking *)
Theorem answer_size_chars inter h w s : live s -> 0 <= size_done s <= 1 ->
  exists s' es, handle dec b64 s (ICsi inter [[8]; [h]; [w]] 116) = Ok s' es /\
    next_size s' = mkSize w h (s_xpix (next_size s)) (s_ypix (next_size s)) /\
    (c_chars (vcaps s) = true -> es = [] /\ size_done s' = 1) /\
    (c_chars (vcaps s) = false -> es = [Ev (ECap CChars)] /\ size_done s' = size_done s).
Proof.
  intros Hl Hsd. unfold live in Hl. cbn. unfold send_size_done, post. cbn.
  destruct (c_chars (vcaps s)); cbn.
  - destruct (size_done s <? 1) eqn:E; eexists; eexists; (split; [reflexivity|]); cbn;
      (split; [reflexivity|]); split; intros; try discriminate; split; try reflexivity; lia.
  - rewrite Hl. eexists; eexists; (split; [reflexivity|]); cbn.
    split; [reflexivity|]. split; intros; try discriminate. split; reflexivity.
Qed.

(* CSI r ; c R while a request is outstanding: handed to the waiting CursorPosition; when the
   caller has already left (the 50 ms race) the report is dropped; never a key, never a block *)
Theorem answer_cursor inter r c s : req_cursor s = true ->
  handle dec b64 s (ICsi inter [[r]; [c]] 82) =
  if w_cursor s then Ok (set_w_cursor (set_req s false) false) [ToCursor r c]
  else Ok (set_req s false) [].
Proof. intros Hr. cbn. rewrite Hr. cbn. unfold send_cursor. cbn. reflexivity. Qed.

(* OSC 4 / 10 / 11 replies once the capability is known: the first is buffered for Query*, a
   repeated one is dropped (the buffered answer stays), never a block *)
Theorem answer_color payload s : live s -> c_osc4 (vcaps s) = true ->
  prefixb [52] (gostring payload) = true ->
  exists s', handle dec b64 s (IOsc payload) = Ok s' [Ev (ECap COsc4)] /\
    ch_color s' = match ch_color s with None => Some (gostring payload) | Some x => Some x end.
Proof.
  intros Hl Hc Hp. unfold live in Hl. cbn. unfold handle_osc. rewrite Hp.
  assert (Hother : forall c q, c <> 52 -> prefixb (c :: q) (gostring payload) = false).
  { intros c q Hc'. destruct (gostring payload) as [|x t].
    - cbn [prefixb] in Hp. congruence.
    - cbn [prefixb] in Hp |- *. destruct (52 =? x) eqn:E.
      + destruct (c =? x) eqn:E2; [lia|reflexivity].
      + cbn [andb] in Hp. congruence. }
  assert (H10 := Hother 49 [48] ltac:(lia)). assert (H11 := Hother 49 [49] ltac:(lia)).
  assert (H52 := Hother 53 [50] ltac:(lia)). assert (H176 := Hother 49 [55; 54] ltac:(lia)).
  rewrite H10, H11, H52, H176. unfold osc_color, post. rewrite Hc. cbn. rewrite Hl. cbn.
  eexists. split; [reflexivity|]. cbn. destruct (ch_color s); reflexivity.
Qed.

(* OSC 52 ; c ; <base64> : handed to the waiting ClipboardPop, otherwise dropped after 10 ms *)
Theorem answer_clipboard sel v b s :
  b64 (gostring v) = Some b -> existsb (Z.eqb 59) (gostring sel) = false -> existsb (Z.eqb 59) (gostring v) = false ->
  handle dec b64 s (IOsc ([53; 50; 59] ++ sel ++ [59] ++ v)) =
  if w_clip s then Ok (set_w_clip s false) [ToClip b] else Ok s [].
Proof.
  intros Hb Hs Hv. cbn [handle]. unfold handle_osc.
  assert (Hg : gostring ([53; 50; 59] ++ sel ++ [59] ++ v) = [53; 50; 59] ++ gostring sel ++ [59] ++ gostring v).
  { unfold gostring. rewrite !map_app. reflexivity. }
  rewrite Hg. cbn [app prefixb Z.eqb Pos.eqb andb].
  assert (Hsplit : forall a cur, existsb (Z.eqb 59) a = false -> forall rest,
            split_on 59 cur (a ++ 59 :: rest) = (cur ++ a) :: split_on 59 [] rest).
  { induction a as [|x a IH]; intros cur Ha rest; cbn [app split_on].
    - rewrite app_nil_r. reflexivity.
    - cbn [existsb] in Ha. apply orb_false_elim in Ha as [Hx Ha].
      rewrite Z.eqb_sym in Hx. rewrite Hx. rewrite (IH _ Ha). rewrite <- app_assoc. reflexivity. }
  assert (Hlast : forall a cur, existsb (Z.eqb 59) a = false -> split_on 59 cur a = [cur ++ a]).
  { induction a as [|x a IH]; intros cur Ha; cbn [split_on].
    - rewrite app_nil_r. reflexivity.
    - cbn [existsb] in Ha. apply orb_false_elim in Ha as [Hx Ha].
      rewrite Z.eqb_sym in Hx. rewrite Hx. rewrite (IH _ Ha). rewrite <- app_assoc. reflexivity. }
  assert (Hpre : forall rest, split_on 59 [] (53 :: 50 :: 59 :: rest) = [53; 50] :: split_on 59 [] rest) by reflexivity.
  rewrite Hpre.
  rewrite (Hsplit _ [] Hs), (Hlast _ [] Hv). cbn [app].
  change (zlen [[53; 50]; gostring sel; gostring v] =? 3) with true. cbn [negb].
  change (zget [[53; 50]; gostring sel; gostring v] 2) with (Some (gostring v)). cbn [need].
  rewrite Hb. unfold send_clip, ret. cbn [bind]. destruct (w_clip s); reflexivity.
Qed.

(* DCS 1 $ r <n> SP q ST : the user's cursor style *)
Theorem answer_cursor_style inter' ps n s : 48 <= n <= 54 ->
  handle dec b64 s (IDcs 114 (36 :: inter') ps [n; 32; 113]) = Ok (set_user_cursor s (n - 48)) [].
Proof.
  intros Hn. cbn [handle]. unfold handle_dcs. cbn.
  assert (E1 : (Z.pos (Pos.of_succ_nat (length inter')) <? 1) = false) by lia. rewrite E1.
  destruct ((n <? 48) || (54 <? n)) eqn:E; [lia|reflexivity].
Qed.
End Answers.

(* ================= E. the start-up loop of New ================= *)
Definition is_da1 (e : event) : bool := match e with EDA1 => true | _ => false end.
Fixpoint before_da1 (evs : list event) : list event :=
  match evs with [] => [] | e :: t => if is_da1 e then [] else e :: before_da1 t end.
Fixpoint after_da1 (evs : list event) : list event :=
  match evs with [] => [] | e :: t => if is_da1 e then t else after_da1 t end.

Definition capev_eqb (a b : capev) : bool := capev_code a =? capev_code b.
Definition is_cap (c : capev) (e : event) : bool := match e with ECap c' => capev_eqb c c' | _ => false end.

Lemma caps_get_set cp c c' : caps_get (caps_set cp c) c' = capev_eqb c' c || caps_get cp c'.
Proof. destruct c, c'; reflexivity. Qed.

Lemma caps_get_osc176 cp c : caps_get (set_osc176 cp) c = caps_get cp c.
Proof. destruct c; reflexivity. Qed.

Lemma startup_event_caps dk su e :
  snd (startup_event dk su e) = is_da1 e /\
  forall c, caps_get (su_caps (fst (startup_event dk su e))) c =
            caps_get (su_caps su) c || (is_cap c e && negb (dk && capev_eqb c CKittyKb)).
Proof.
  destruct e; cbn [startup_event is_da1 is_cap fst snd andb]; try (split; [reflexivity|]; intros c0; rewrite ?orb_false_r; reflexivity).
  all: try (split; [reflexivity|]; intros c0; cbn [su_caps]; rewrite caps_get_osc176, orb_false_r; reflexivity).
  split; [destruct c, dk; reflexivity|].
  intros c0. destruct c, dk, c0; cbn; rewrite ?orb_true_r, ?orb_false_r; reflexivity.
Qed.

(* the loop learns exactly the capabilities whose events precede the DA1 reply (the kitty
   keyboard one unless disabled by the option), loses nothing that follows it, and stops at it *)
Theorem collect_caps_exact dk evs : forall su,
  let '(su', rest, got) := collect_caps dk su evs in
  rest = after_da1 evs /\ got = existsb is_da1 evs /\
  forall c, caps_get (su_caps su') c =
            caps_get (su_caps su) c ||
            (existsb (is_cap c) (before_da1 evs) && negb (dk && capev_eqb c CKittyKb)).
Proof.
  induction evs as [|e t IH]; intros su.
  - cbn. repeat split. intros c. rewrite orb_false_r. reflexivity.
  - cbn [collect_caps before_da1 after_da1 existsb].
    destruct (startup_event_caps dk su e) as [Hstop Hcaps].
    destruct (startup_event dk su e) as [su1 stop]. cbn [fst snd] in *. subst stop.
    destruct (is_da1 e) eqn:Ed.
    + cbn. repeat split. intros c. rewrite Hcaps. destruct e; try discriminate. reflexivity.
    + specialize (IH su1). destruct (collect_caps dk su1 t) as [[su' rest] got].
      destruct IH as (H1 & H2 & H3). cbn [orb]. repeat split; try assumption.
      intros c. rewrite H3, Hcaps. cbn [existsb].
      destruct (caps_get (su_caps su) c), (is_cap c e), (existsb (is_cap c) (before_da1 t)),
        (negb (dk && capev_eqb c CKittyKb)); reflexivity.
Qed.

(* what the application finds in its queue after New, given the sequences that arrived before
   New's loop ended (run with no capability known yet, a cursor-position request outstanding) *)
Definition startup_delivered (dec : item -> ikey) (dk : bool) (items : list item) : list event :=
  match run dec (fun _ => None) (app_step vx0 ACursorQuery) items with
  | Ok _ es => snd (fst (collect_caps dk startup0 (events_of es)))
  | _ => []
  end.

(* at full strength the property fails during start-up: a key typed before the terminal has
   answered the DA1 query is consumed by New's loop and never reaches the application *)
Theorem startup_loses_typeahead_refuted :
  exists dec dk items,
    spec_user dec false true (map SItem items) <> [] /\
    filter is_user (startup_delivered dec dk items) = [].
Proof.
  exists (fun _ => mkIKey [97] 97 0 0 0 0), false, [IPrint [97]; ICsi [63] [[62]; [22]] 99].
  split; [discriminate|reflexivity].
Qed.

(* ================= C. the statements used by props/C03.v ================= *)

Theorem input_total dec b64 s it : wf it -> live s ->
  exists s' es, handle dec b64 s it = Ok s' es /\ live s'.
Proof.
  intros Hw Hl. pose proof (handle_spec dec b64 s it Hw Hl) as H. unfold spec_ok in H.
  destruct (spec_item dec (paste s) (req_cursor s) it) as [[ue p'] r'].
  destruct H as (s' & es & E & Hl' & _). eauto.
Qed.

Lemma items_steps_ok its : Forall wf its -> Forall step_ok (map SItem its).
Proof. intros H. apply Forall_map. exact H. Qed.

(* composition with the parser model: for EVERY byte stream *)
Theorem run_bytes dec b64 bs s : live s ->
  exists s' es, run dec b64 s (parse_bytes bs) = Ok s' es /\ live s' /\
    user_events es = spec_user dec (paste s) (req_cursor s) (map SItem (parse_bytes bs)).
Proof.
  intros Hl. rewrite run_is_run_steps.
  exact (run_steps_spec dec b64 _ s (items_steps_ok _ (parse_bytes_wf bs)) Hl).
Qed.

(* ... and for every segmentation of it by silences that let the Escape timer fire *)
Theorem run_segments dec b64 segs s : live s ->
  exists s' es, run dec b64 s (parse_segments segs) = Ok s' es /\ live s' /\
    user_events es = spec_user dec (paste s) (req_cursor s) (map SItem (parse_segments segs)).
Proof.
  intros Hl. rewrite run_is_run_steps.
  exact (run_steps_spec dec b64 _ s (items_steps_ok _ (parse_segments_wf segs)) Hl).
Qed.

(* ================= F. SGR mouse reports over BYTES ================= *)
Definition is_digit (d : Z) : bool := (48 <=? d) && (d <=? 57).
Definition digits (ds : list Z) : bool := forallb is_digit ds.
(* the number a digit string denotes *)
Definition dval (ds : list Z) : Z := fold_left (fun a d => a * 10 + (d - 48)) ds 0.

Lemma decode_all_ascii bs : forallb (fun b => (0 <=? b) && (b <? 128)) bs = true -> decode_all bs = bs.
Proof.
  unfold decode_all.
  assert (H : forall n bs, forallb (fun b => (0 <=? b) && (b <? 128)) bs = true -> (length bs <= n)%nat ->
              decode_fuel n bs = bs).
  { induction n as [|n IH]; intros l Hl Hn.
    - destruct l; [reflexivity|cbn in Hn; lia].
    - destruct l as [|b t]; [reflexivity|]. cbn [forallb] in Hl. apply andb_prop in Hl as [Hb Ht].
      cbn [decode_fuel decode1]. assert (E : (b <? 128) = true) by lia. rewrite E.
      f_equal. apply IH; [exact Ht|cbn in Hn; lia]. }
  intros Hb. apply H; [exact Hb|lia].
Qed.

(* a CSI parameter byte (digit or ;) in state csiParam: appended, nothing delivered *)
Lemma step_param p d : st p = CsiParam -> (is_digit d || (d =? 59)) = true ->
  Parser.step p d = (set_params (set_timer p false) (params p ++ [d]), [], true).
Proof.
  intros Hst Hd. rewrite step_is_spec_step. unfold spec_step. cbn [andb].
  assert (Ha : spec_anywhere d = None).
  { unfold spec_anywhere, eof_rune. unfold is_digit in Hd.
    destruct (d =? -1) eqn:E1; [lia|]. destruct ((d =? 24) || (d =? 26)) eqn:E2; [lia|].
    destruct (d =? 27) eqn:E3; [lia|]. reflexivity. }
  rewrite Ha. change (st (set_timer p false)) with (st p). rewrite Hst.
  assert (Ht : spec_trans CsiParam d = ([AParam], Some CsiParam)).
  { unfold spec_trans, c0exec, in_range. unfold is_digit in Hd.
    destruct ((0 <=? d) && (d <=? 23) || (d =? 25) || (28 <=? d) && (d <=? 31)) eqn:E1; [lia|].
    destruct (d =? 127) eqn:E2; [lia|]. destruct ((48 <=? d) && (d <=? 59)) eqn:E3; [reflexivity|lia]. }
  rewrite Ht. cbn. destruct p; cbn in *; subst; reflexivity.
Qed.

Lemma feed_params ds : forall p, st p = CsiParam ->
  forallb (fun d => is_digit d || (d =? 59)) ds = true ->
  ds <> [] ->
  feed p ds = (set_params (set_timer p false) (params p ++ ds), [], true).
Proof.
  induction ds as [|d t IH]; intros p Hst Hds Hne; [congruence|].
  cbn [forallb] in Hds. apply andb_prop in Hds as [Hd Ht].
  cbn [feed]. rewrite (step_param p d Hst Hd).
  destruct t as [|d2 t2].
  - cbn [feed]. rewrite app_nil_r. reflexivity.
  - rewrite IH; [|exact Hst|exact Ht|discriminate].
    cbn [app]. f_equal. f_equal. destruct p; cbn. rewrite <- app_assoc. reflexivity.
Qed.

Lemma feed_app a : forall p b,
  feed p (a ++ b) =
  let '(p1, o1, go) := feed p a in
  if go then let '(p2, o2, go2) := feed p1 b in (p2, o1 ++ o2, go2) else (p1, o1, false).
Proof.
  induction a as [|r t IH]; intros p b.
  - cbn [app feed]. destruct (feed p b) as [[p2 o2] go2]. reflexivity.
  - cbn [app feed]. destruct (Parser.step p r) as [[p1 o1] go] eqn:Es. destruct go; [|reflexivity].
    rewrite IH. destruct (feed p1 t) as [[p2 o2] go2]. destruct go2; [|reflexivity].
    destruct (feed p2 b) as [[p3 o3] go3]. rewrite app_assoc. reflexivity.
Qed.

Definition acc_val (v : Z) (ds : list Z) : Z := fold_left (fun a d => a * 10 + (d - 48)) ds v.

Lemma acc_val_ge ds : forall v, 0 <= v -> digits ds = true -> v <= acc_val v ds.
Proof.
  induction ds as [|d t IH]; intros v Hv Hd; [cbn; lia|].
  cbn [digits forallb] in Hd. apply andb_prop in Hd as [Hd Ht]. unfold is_digit in Hd.
  cbn [acc_val fold_left]. specialize (IH (v * 10 + (d - 48)) ltac:(lia) Ht). unfold acc_val in IH. lia.
Qed.

(* csiDispatch's accumulation `ps = ps*10 + digit` over a digit string that fits in an int *)
Lemma csi_params_digits ds : forall v rest cur acc, digits ds = true -> 0 <= v ->
  acc_val v ds <= 9223372036854775807 ->
  (match rest with [] => True | r :: _ => (r =? 59) = true end) ->
  csi_params (ds ++ rest) v cur acc = csi_params rest (acc_val v ds) cur acc.
Proof.
  induction ds as [|d t IH]; intros v rest cur acc Hd Hv Hmax Hrest; [reflexivity|].
  cbn [digits forallb] in Hd. apply andb_prop in Hd as [Hd Ht]. unfold is_digit in Hd.
  cbn [app csi_params acc_val fold_left].
  destruct (d =? 59) eqn:E1; [lia|]. destruct (d =? 58) eqn:E2; [lia|].
  pose proof (acc_val_ge t (v * 10 + (d - 48)) ltac:(lia) Ht) as Hge.
  cbn [acc_val fold_left] in Hmax. unfold acc_val in Hge.
  rewrite (i64_id (v * 10)) by (unfold int64_ok; lia).
  rewrite (i64_id (v * 10 + (d - 48))) by (unfold int64_ok; lia).
  apply IH; try assumption; lia.
Qed.

Lemma dval_acc ds : dval ds = acc_val 0 ds.
Proof. reflexivity. Qed.

Definition fits (ds : list Z) : bool := digits ds && (dval ds <=? 9223372036854775807).

Lemma csi_params_three d1 d2 d3 : fits d1 = true -> fits d2 = true -> fits d3 = true ->
  csi_params (d1 ++ 59 :: d2 ++ 59 :: d3) 0 [] [] = [[dval d1]; [dval d2]; [dval d3]].
Proof.
  unfold fits. intros H1 H2 H3.
  apply andb_prop in H1 as [D1 M1]. apply andb_prop in H2 as [D2 M2]. apply andb_prop in H3 as [D3 M3].
  rewrite csi_params_digits; [|exact D1|lia|rewrite <- dval_acc; lia|reflexivity].
  cbn [csi_params Z.eqb Pos.eqb]. change (59 =? 59) with true. cbn iota.
  rewrite csi_params_digits; [|exact D2|lia|rewrite <- dval_acc; lia|reflexivity].
  cbn [csi_params]. change (59 =? 59) with true. cbn iota.
  rewrite <- (app_nil_r d3). rewrite csi_params_digits; [|exact D3|lia|rewrite <- dval_acc; lia|exact I].
  cbn [csi_params app]. rewrite ?app_nil_r. reflexivity.
Qed.

Definition p_csi_lt : pst :=
  {| st := CsiParam; exitf := None; inter := [60]; params := []; ignoreST := false;
     oscData := []; apcData := []; dcs := dcs_empty; timer := false |}.

Lemma feed_prefix : feed pinit [27; 91; 60] = (p_csi_lt, [], true).
Proof. vm_compute. reflexivity. Qed.

Lemma digits_param ds : digits ds = true -> forallb (fun d => is_digit d || (d =? 59)) ds = true.
Proof.
  unfold digits. rewrite !forallb_forall. intros H x Hx. rewrite (H x Hx). reflexivity.
Qed.

Lemma digits_ascii ds : digits ds = true -> forallb (fun b => (0 <=? b) && (b <? 128)) ds = true.
Proof.
  unfold digits. rewrite !forallb_forall. intros H x Hx. specialize (H x Hx). unfold is_digit in H. lia.
Qed.

(* the final byte of a CSI in state csiParam dispatches the sequence and returns to ground *)
Lemma step_dispatch P fin : P <> [] -> fin = 77 \/ fin = 109 ->
  Parser.step (set_params (set_timer p_csi_lt false) P) fin =
  (set_st (set_params (set_timer p_csi_lt false) P) Ground, [ICsi [60] (csi_params P 0 [] []) fin], true).
Proof.
  intros HP Hfin. rewrite step_is_spec_step.
  destruct P as [|x P']; [congruence|].
  destruct Hfin as [-> | ->]; reflexivity.
Qed.

Lemma finish_ground P :
  finish (set_st (set_params (set_timer p_csi_lt false) P) Ground) = [IEof].
Proof. unfold finish. rewrite step_is_spec_step. reflexivity. Qed.

(* an SGR mouse report as BYTES: ESC [ < digits ; digits ; digits M|m is delivered by the
   parser as the one CSI whose parameters are the numbers the digit strings denote *)
Theorem sgr_bytes_parse d1 d2 d3 fin : fits d1 = true -> fits d2 = true -> fits d3 = true ->
  fin = 77 \/ fin = 109 ->
  parse_bytes ([27; 91; 60] ++ d1 ++ 59 :: d2 ++ 59 :: d3 ++ [fin]) =
  [ICsi [60] [[dval d1]; [dval d2]; [dval d3]] fin; IEof].
Proof.
  intros H1 H2 H3 Hfin.
  assert (D1 : digits d1 = true) by (unfold fits in H1; apply andb_prop in H1 as [? _]; assumption).
  assert (D2 : digits d2 = true) by (unfold fits in H2; apply andb_prop in H2 as [? _]; assumption).
  assert (D3 : digits d3 = true) by (unfold fits in H3; apply andb_prop in H3 as [? _]; assumption).
  set (P := d1 ++ 59 :: d2 ++ 59 :: d3).
  assert (Hbytes : [27; 91; 60] ++ d1 ++ 59 :: d2 ++ 59 :: d3 ++ [fin] = [27; 91; 60] ++ P ++ [fin]).
  { unfold P. rewrite <- !app_assoc. cbn [app]. rewrite <- !app_assoc. reflexivity. }
  rewrite Hbytes. unfold parse_bytes.
  assert (HPp : forallb (fun d => is_digit d || (d =? 59)) P = true).
  { unfold P. rewrite forallb_app. rewrite (digits_param d1 D1). cbn [forallb andb].
    change (is_digit 59 || (59 =? 59)) with true. cbn [andb].
    rewrite forallb_app. rewrite (digits_param d2 D2). cbn [forallb andb].
    change (is_digit 59 || (59 =? 59)) with true. cbn [andb]. apply digits_param; exact D3. }
  assert (HPne : P <> []) by (unfold P; destruct d1; discriminate).
  rewrite decode_all_ascii.
  2:{ cbn [app forallb]. change ((0 <=? 27) && (27 <? 128)) with true. change ((0 <=? 91) && (91 <? 128)) with true.
      change ((0 <=? 60) && (60 <? 128)) with true. cbn [andb]. rewrite forallb_app.
      assert (HPa : forallb (fun b => (0 <=? b) && (b <? 128)) P = true).
      { rewrite forallb_forall in HPp |- *. intros x Hx. specialize (HPp x Hx). unfold is_digit in HPp. lia. }
      rewrite HPa. cbn [forallb andb]. destruct Hfin as [-> | ->]; reflexivity. }
  unfold parse_runes. rewrite feed_app, feed_prefix.
  rewrite feed_app, (feed_params P p_csi_lt eq_refl HPp HPne).
  cbn [params p_csi_lt app feed]. rewrite (step_dispatch P fin HPne Hfin).
  rewrite finish_ground. unfold P at 1. rewrite (csi_params_three d1 d2 d3 H1 H2 H3). reflexivity.
Qed.

(* ... and, composed with the input loop in any state: the bytes of an SGR report become
   exactly one mouse event with the reported button, position, modifiers and type *)
Theorem sgr_bytes_event dec b64 s b col row sh al ct mo rel d1 d2 d3 :
  button_ok b = true -> int64_ok col = true -> int64_ok row = true ->
  fits d1 = true -> fits d2 = true -> fits d3 = true ->
  dval d1 = sgr_cb b sh al ct mo -> dval d2 = col + 1 -> dval d3 = row + 1 ->
  live s ->
  exists s' es,
    run dec b64 s (parse_bytes ([27; 91; 60] ++ d1 ++ 59 :: d2 ++ 59 :: d3 ++ [sgr_final rel])) = Ok s' es /\
    user_events es = [EMouse (sgr_mouse b col row sh al ct mo rel)].
Proof.
  intros Hb Hc Hr F1 F2 F3 E1 E2 E3 Hl.
  assert (Hfin : sgr_final rel = 77 \/ sgr_final rel = 109) by (destruct rel; auto).
  destruct (run_bytes dec b64 ([27; 91; 60] ++ d1 ++ 59 :: d2 ++ 59 :: d3 ++ [sgr_final rel]) s Hl)
    as (s' & es & E & _ & Hu).
  exists s', es. split; [exact E|]. rewrite Hu.
  rewrite (sgr_bytes_parse d1 d2 d3 _ F1 F2 F3 Hfin), E1, E2, E3.
  cbn [map spec_user].
  change (ICsi [60] [[sgr_cb b sh al ct mo]; [col + 1]; [row + 1]] (sgr_final rel))
    with (enc_report (RMouse b col row sh al ct mo rel)).
  rewrite (spec_item_report dec (paste s) (req_cursor s) (RMouse b col row sh al ct mo rel)).
  - reflexivity.
  - cbn [report_ok]. rewrite Hb, Hc, Hr. reflexivity.
Qed.

(* non-vacuity: ESC [ < 20 ; 10 ; 5 M  is Shift+Ctrl+left press at column 9, row 4 *)
Example sgr_bytes_example :
  fits [50; 48] = true /\ fits [49; 48] = true /\ fits [53] = true /\
  dval [50; 48] = sgr_cb 0 true false true false /\ dval [49; 48] = 9 + 1 /\ dval [53] = 4 + 1 /\
  button_ok 0 = true.
Proof. repeat split; reflexivity. Qed.

(* ================= F. the request side of the cursor-position hand-off: schedules ================= *)
(* no emit for a caller of CursorPosition outside the CSI .. R branch *)
Section CursorRequest.
Variable dec : item -> ikey.
Variable b64 : list Z -> option (list Z).

Definition emits_of (o : outcome) : list emit := match o with Ok _ es | Panic es | Blocks es => es end.
Definition nocur (o : outcome) : Prop := cursors_of (emits_of o) = [].

Lemma cursors_of_app a b : cursors_of (a ++ b) = cursors_of a ++ cursors_of b.
Proof. unfold cursors_of. apply flat_map_app. Qed.

Lemma nocur_ret s : nocur (ret s).
Proof. reflexivity. Qed.
Lemma nocur_post e s : nocur (post e s).
Proof. unfold nocur, post. destruct (q_stalled s) as [n|]; [destruct (0 <? n)|]; reflexivity. Qed.
Lemma nocur_try_post e s : nocur (try_post e s).
Proof. unfold nocur, try_post. destruct (q_stalled s) as [n|]; [destruct (0 <? n)|]; reflexivity. Qed.
Lemma nocur_post_key it s : nocur (post_key dec it s).
Proof. apply nocur_post. Qed.
Lemma nocur_send_size_done s : nocur (send_size_done s).
Proof. unfold nocur, send_size_done. destruct (size_done s <? 1); reflexivity. Qed.
Lemma nocur_send_clip v s : nocur (send_clip v s).
Proof. unfold nocur, send_clip. destruct (w_clip s); reflexivity. Qed.
Lemma nocur_panic : nocur (Panic []).
Proof. reflexivity. Qed.
Lemma nocur_bind o f : nocur o -> (forall s1, nocur (f s1)) -> nocur (bind o f).
Proof.
  intros Ho Hf. destruct o as [s1 es1|es1|es1]; cbn [bind]; try exact Ho.
  specialize (Hf s1). unfold nocur in *. destruct (f s1); cbn [emits_of] in *;
    rewrite cursors_of_app, Ho, Hf; reflexivity.
Qed.
Lemma nocur_need {A} (o : option A) f : (forall x, nocur (f x)) -> nocur (need o f).
Proof. intros H. destruct o; [apply H|reflexivity]. Qed.

Lemma nocur_da1 ps : forall s, nocur (da1_loop ps s).
Proof.
  induction ps as [|p t IH]; intros s; cbn [da1_loop]; [apply nocur_ret|].
  apply nocur_need. intros v. apply nocur_bind; [destruct (v =? 4); [apply nocur_post|apply nocur_ret]|exact IH].
Qed.

Ltac nleaf :=
  first [ apply nocur_ret | apply nocur_post | apply nocur_try_post | apply nocur_post_key
        | apply nocur_send_size_done | apply nocur_send_clip | apply nocur_da1 | apply nocur_panic ].
Ltac ncrush :=
  repeat first
    [ nleaf
    | match goal with
      | |- nocur (bind _ _) => apply nocur_bind; [|intros ?; cbv beta]
      | |- nocur (need _ _) => apply nocur_need; intros ?; cbv beta
      | |- nocur (if ?c then _ else _) => destruct c eqn:?
      | |- nocur (match ?c with _ => _ end) => destruct c eqn:?
      end ].

Lemma nocur_csi inter ps fin s : (fin =? 82) = false -> nocur (handle_csi dec inter ps fin s).
Proof.
  intros H. unfold handle_csi, decrpm, decrpm_gen. rewrite H. cbv beta zeta iota. ncrush.
Qed.

Lemma nocur_dcs fin inter ps data s : nocur (handle_dcs fin inter ps data s).
Proof. unfold handle_dcs. ncrush. Qed.

Lemma nocur_osc payload s : nocur (handle_osc b64 payload s).
Proof. unfold handle_osc, osc_color. cbv zeta. ncrush. Qed.

Lemma nocur_handle s it : is_cpr it = false -> nocur (handle dec b64 s it).
Proof.
  intros H. destruct it; cbn [handle];
    first [ nleaf | apply nocur_csi; exact H | apply nocur_dcs | apply nocur_osc | ncrush ].
Qed.

(* what one delivered sequence hands to the caller of CursorPosition, and whether the caller is
   still waiting afterwards *)
Definition answer_spec (req w : bool) (it : item) : list (Z * Z) * bool :=
  if is_cpr it && req then
    match cpr_answer it with
    | Some rc => (if w then [rc] else [], false)
    | None => ([], w)
    end
  else ([], w).

Lemma handle_cpr inter ps s s1 es1 :
  handle dec b64 s (ICsi inter ps 82) = Ok s1 es1 ->
  (cursors_of es1, w_cursor s1) = answer_spec (req_cursor s) (w_cursor s) (ICsi inter ps 82).
Proof.
  unfold answer_spec. cbn [handle is_cpr]. unfold handle_csi. cbv zeta.
  change (82 =? 99) with false. change (82 =? 73) with false. change (82 =? 79) with false.
  change (82 =? 82) with true. cbv iota. cbn [andb].
  destruct (req_cursor s) eqn:Er.
  2:{ unfold post_key, post. intros E.
      destruct (q_stalled s) as [n|]; [destruct (0 <? n)|]; try discriminate;
        injection E as <- <-; reflexivity. }
  destruct ps as [|p0 [|p1 [|p2 t]]].
  - cbn. intros E. injection E as <- <-. reflexivity.
  - cbn. intros E. injection E as <- <-. destruct p0; reflexivity.
  - destruct p0 as [|r p0']; [cbn; discriminate|]. destruct p1 as [|c p1']; [cbn; discriminate|].
    cbn. unfold send_cursor. cbn. destruct (w_cursor s) eqn:Ew; intros E; injection E as <- <-; cbn; rewrite ?Ew; reflexivity.
  - assert (Hz : (zlen (p0 :: p1 :: p2 :: t) =? 2) = false).
    { rewrite !zlen_cons. pose proof (zlen_nonneg t). lia. }
    rewrite Hz. cbn [negb]. intros E. injection E as <- <-.
    destruct p0 as [|r p0']; [reflexivity|]. destruct p1 as [|c p1']; reflexivity.
Qed.

Lemma handle_answers s it s1 es1 : wf it -> handle dec b64 s it = Ok s1 es1 ->
  (cursors_of es1, w_cursor s1) = answer_spec (req_cursor s) (w_cursor s) it.
Proof.
  intros Hwf E. destruct (is_cpr it) eqn:Hc.
  - destruct it; try discriminate. cbn [is_cpr] in Hc. apply Z.eqb_eq in Hc. subst. exact (handle_cpr _ _ _ _ _ E).
  - unfold answer_spec. rewrite Hc. cbn [andb].
    pose proof (nocur_handle s it Hc) as Hn. unfold nocur in Hn. rewrite E in Hn. cbn [emits_of] in Hn. rewrite Hn.
    destruct (handle_exact dec b64 s it Hwf s1 es1 E) as [F _].
    destruct (fr_wcur _ _ _ F) as [H|H]; [rewrite H; reflexivity|].
    destruct it; cbn in H, Hc; congruence.
Qed.

(* classification of everything that is not CSI .. R does not look at the request *)
Lemma classify_noncpr r1 r2 it : is_cpr it = false ->
  classify r1 it = classify r2 it /\ classify r1 it <> UCursorReply.
Proof.
  intros H. destruct it; cbn [classify]; try (split; [reflexivity|discriminate]).
  cbn [is_cpr] in H. rewrite H. cbn [andb]. split; [reflexivity|].
  repeat match goal with |- context [if ?c then _ else _] => destruct c end; try discriminate.
  all: destruct (spec_mouse inter ps final); discriminate.
Qed.

Lemma spec_item_noncpr p r1 r2 it : is_cpr it = false ->
  spec_item dec p r1 it = (let '(es, p', _) := spec_item dec p r2 it in (es, p', r1)).
Proof.
  intros H. destruct (classify_noncpr r1 r2 it H) as [Hc Hn]. unfold spec_item. rewrite <- Hc.
  destruct (classify r1 it); try reflexivity. contradiction.
Qed.

Lemma classify_cpr_iff req it : classify req it = UCursorReply -> is_cpr it && req = true.
Proof.
  destruct it; cbn [classify is_cpr]; try discriminate.
  destruct ((final =? 82) && req) eqn:E; [reflexivity|].
  repeat match goal with |- context [if ?c then _ else _] => destruct c end; try discriminate.
  all: destruct (spec_mouse inter ps final); discriminate.
Qed.

Lemma spec_item_req p req it : snd (spec_item dec p req it) = req && negb (is_cpr it).
Proof.
  unfold spec_item. destruct (classify req it) eqn:Ec; cbn [snd];
    try (destruct (is_cpr it) eqn:Hc; [|rewrite andb_true_r; reflexivity];
         destruct req; [|reflexivity];
         destruct it; try discriminate; cbn [classify is_cpr] in *; rewrite Hc in Ec; cbn [andb] in Ec; discriminate).
  apply classify_cpr_iff in Ec. apply andb_prop in Ec as [-> ->]. reflexivity.
Qed.


(* THE order obligation on CursorPosition, over its translated body: the request flag is armed
   before the query is written *)
Lemma cursor_prog_order : cursor_prog = [ACursorArm; ACursorWrite].
Proof. reflexivity. Qed.

(* the request flag against the wire, at every point of a schedule that follows the program:
   outside the prologue they agree; between the two statements the flag is already armed *)
Definition sched_inv (wire : bool) (todo : list appact) (s : vxstate) : Prop :=
  (todo = [] /\ req_cursor s = wire) \/ (todo = [ACursorWrite] /\ wire = false /\ req_cursor s = true).

Lemma sched_item s it wire todo : wf it -> live s -> sched_inv wire todo s ->
  (negb (is_cpr it) || wire || is_nil todo) = true ->
  exists s1 es1, handle dec b64 s it = Ok s1 es1 /\ live s1 /\
    sched_inv (wire && negb (is_cpr it)) todo s1 /\
    (let '(ue, p', _) := spec_item dec (paste s) wire it in user_events es1 = ue /\ paste s1 = p') /\
    snd (spec_item dec (paste s) wire it) = wire && negb (is_cpr it) /\
    (cursors_of es1, w_cursor s1) = answer_spec wire (w_cursor s) it.
Proof.
  intros Hwf Hl Hinv Hg.
  pose proof (handle_spec dec b64 s it Hwf Hl) as H. unfold spec_ok in H.
  destruct Hinv as [[Ht Hr]|(Ht & Hw & Hr)].
  - rewrite Hr in H. pose proof (spec_item_req (paste s) wire it) as H3.
    destruct (spec_item dec (paste s) wire it) as [[ue p'] r'] eqn:Es. cbn [snd] in H3.
    destruct H as (s1 & es1 & E1 & Hl1 & Hu1 & Hp1 & Hr1).
    exists s1, es1. split; [exact E1|]. split; [exact Hl1|]. split; [|split; [split; assumption|split; [exact H3|]]].
    + left. split; [exact Ht|]. rewrite Hr1. exact H3.
    + rewrite <- Hr. exact (handle_answers s it s1 es1 Hwf E1).
  - subst wire todo. cbn [orb is_nil] in Hg. rewrite orb_false_r in Hg.
    assert (Hc : is_cpr it = false) by (destruct (is_cpr it); [discriminate|reflexivity]).
    rewrite Hr in H. rewrite (spec_item_noncpr (paste s) true false it Hc) in H.
    pose proof (spec_item_req (paste s) false it) as H3.
    destruct (spec_item dec (paste s) false it) as [[ue p'] r'] eqn:Es.
    destruct H as (s1 & es1 & E1 & Hl1 & Hu1 & Hp1 & Hr1).
    exists s1, es1. split; [exact E1|]. split; [exact Hl1|]. split; [|split; [split; assumption|split; [exact H3|]]].
    + right. repeat split; assumption.
    + rewrite (handle_answers s it s1 es1 Hwf E1). unfold answer_spec. rewrite Hc. reflexivity.
Qed.

Theorem sched_spec l : forall s wire todo,
  sched_ok cursor_prog wire todo l = true -> live s -> sched_inv wire todo s ->
  exists s' es, run_steps dec b64 s l = Ok s' es /\ live s' /\
    user_events es = spec_wire dec (paste s) wire l /\
    cursors_of es = spec_answers wire (w_cursor s) l.
Proof.
  rewrite cursor_prog_order.
  induction l as [|x t IH]; intros s wire todo Hok Hl Hinv.
  - exists s, []. repeat split; assumption.
  - destruct x as [it|a].
    + assert (Hgen : wf_item it && (negb (is_cpr it) || wire || is_nil todo) &&
                       sched_ok [ACursorArm; ACursorWrite] (wire && negb (is_cpr it)) todo t = true ->
               exists s' es, bind (handle dec b64 s it) (fun s1 => run_steps dec b64 s1 t) = Ok s' es /\ live s' /\
                 user_events es = (let '(es0, p', w') := spec_item dec (paste s) wire it in es0 ++ spec_wire dec p' w' t) /\
                 cursors_of es =
                   (if is_cpr it && wire then
                      match cpr_answer it with
                      | Some rc => if w_cursor s then rc :: spec_answers false false t else spec_answers false false t
                      | None => spec_answers false (w_cursor s) t
                      end
                    else spec_answers wire (w_cursor s) t)).
      { intros Hok'. apply andb_prop in Hok' as [Hok' Ht]. apply andb_prop in Hok' as [Hwf Hg].
        destruct (sched_item s it wire todo Hwf Hl Hinv Hg) as (s1 & es1 & E1 & Hl1 & Hinv1 & Hue & H3 & Hans).
        destruct (IH s1 _ _ Ht Hl1 Hinv1) as (s2 & es2 & E2 & Hl2 & Hu2 & Hc2).
        exists s2, (es1 ++ es2). rewrite E1. cbn [bind]. rewrite E2. split; [reflexivity|]. split; [exact Hl2|].
        destruct (spec_item dec (paste s) wire it) as [[ue p'] r'] eqn:Es. cbn [snd] in H3. destruct Hue as [Hu1 Hp1].
        split.
        - rewrite user_events_app, Hu1, Hu2, Hp1, H3. reflexivity.
        - rewrite cursors_of_app, Hc2. unfold answer_spec in Hans.
          destruct (is_cpr it && wire) eqn:Ecw.
          + apply andb_prop in Ecw as [Ec Ew]. rewrite Ec, Ew in *. cbn [andb negb] in *.
            destruct (cpr_answer it) as [rc|].
            * destruct (w_cursor s); injection Hans as -> ->; reflexivity.
            * injection Hans as -> ->. reflexivity.
          + injection Hans as -> ->. cbn [app].
            destruct (is_cpr it); [destruct wire; [discriminate|reflexivity]|rewrite andb_true_r; reflexivity]. }
      destruct it; try (apply Hgen; exact Hok).
      exists s, []. repeat split; assumption.
    + assert (Hp : paste (app_step s a) = paste s) by (destruct a as [| | | | | | | | |q| |]; reflexivity).
      cbn [run_steps spec_wire spec_answers].
      assert (Hstep : live (app_step s a) /\
                exists todo', sched_ok [ACursorArm; ACursorWrite] (wire_app wire a) todo' t = true /\
                  sched_inv (wire_app wire a) todo' (app_step s a) /\
                  w_cursor (app_step s a) = wait_app (w_cursor s) a).
      { destruct Hinv as [[Ht Hr]|(Ht & Hw & Hr)]; subst todo;
          destruct a as [| | | | | | | | |[n|]| |]; cbn in Hok |- *; try discriminate;
          (split; [first [exact Hl | reflexivity]|]).
        all: try (eexists; split; [exact Hok|]; split; [|reflexivity]; first [left; split; [reflexivity|assumption] | right; repeat split; assumption]).
        all: try (apply andb_prop in Hok as [Hw Hok]; apply Bool.negb_true_iff in Hw; subst wire).
        all: try (eexists; split; [exact Hok|]; split; [|reflexivity]; first [left; split; reflexivity | right; repeat split; reflexivity]).
      }
      destruct Hstep as (Hl1 & todo' & Ht & Hinv1 & Hw1).
      destruct (IH (app_step s a) _ _ Ht Hl1 Hinv1) as (s2 & es2 & E2 & Hl2 & Hu2 & Hc2).
      exists s2, es2. split; [exact E2|]. split; [exact Hl2|]. rewrite Hu2, Hc2, Hp, Hw1. split; reflexivity.
Qed.

(* a report that answers a written query is consumed, never surfaces as a key, and reaches the
   caller, in every schedule that follows the program *)
Theorem solicited_cursor_reply l s :
  sched_ok cursor_prog (req_cursor s) [] l = true -> live s ->
  exists s' es, run_steps dec b64 s l = Ok s' es /\ live s' /\
    user_events es = spec_wire dec (paste s) (req_cursor s) l /\
    cursors_of es = spec_answers (req_cursor s) (w_cursor s) l.
Proof. intros Hok Hl. apply (sched_spec l s (req_cursor s) [] Hok Hl). left; split; reflexivity. Qed.
End CursorRequest.

(* the statement really depends on the order: with the two statements of the prologue swapped
   (query written first) the schedule "reply handled before the flag is armed" is admissible,
   the report surfaces as a key and the caller gets nothing *)
Definition swapped_prog : list appact := [ACursorWrite; ACursorArm].
Definition fast_reply_schedule : list step :=
  [SApp ACursorWrite; SItem (ICsi [] [[5]; [7]] 82); SApp ACursorArm].
Lemma order_matters dec b64 :
  sched_ok swapped_prog false [] fast_reply_schedule = true /\
  spec_wire dec false false fast_reply_schedule = [] /\
  spec_answers false false fast_reply_schedule = [(5, 7)] /\
  exists s' , run_steps dec b64 vx0 fast_reply_schedule = Ok s' [Ev (EKey (dec (ICsi [] [[5]; [7]] 82)))].
Proof. repeat split. eexists. reflexivity. Qed.

(* the time-out branch of CursorPosition's select disarms the request, the other branch receives
   the answer; the callers without a flag write their query before they wait for the reply *)
Lemma request_bodies :
  cursor_position_select = [[PStore 0 false]; [PRecv 0]] /\
  (exists q, clipboard_pop_body = [PWrite q; PRecv 1]) /\
  (exists q, query_color_body = [PWrite q; PRecv 2]) /\
  (exists q, query_foreground_body = [PWrite q; PRecv 3]) /\
  (exists q, query_background_body = [PWrite q; PRecv 4]).
Proof. repeat split; eexists; reflexivity. Qed.

(* ================= K. the clipboard hand-off ================= *)

Lemma fields_nonempty c s : fields c s <> [].
Proof.
  induction s as [|x t IH]; cbn [fields]; [discriminate|].
  destruct (x =? c); [discriminate|]. destruct (fields c t); discriminate.
Qed.

(* the left-to-right split of the code is the right-to-left split of the specification *)
Lemma split_on_fields c s : forall cur,
  split_on c cur s = match fields c s with f :: r => (cur ++ f) :: r | [] => [] end.
Proof.
  induction s as [|x t IH]; intros cur; cbn [split_on fields].
  - rewrite app_nil_r. reflexivity.
  - destruct (x =? c).
    + rewrite (IH []). pose proof (fields_nonempty c t) as Hn.
      destruct (fields c t) as [|f r]; [contradiction|]. rewrite app_nil_r. reflexivity.
    + rewrite (IH (cur ++ [x])). pose proof (fields_nonempty c t) as Hn.
      destruct (fields c t) as [|f r]; [contradiction|]. rewrite <- app_assoc. reflexivity.
Qed.

Lemma split_on_is_fields c s : split_on c [] s = fields c s.
Proof.
  rewrite split_on_fields. pose proof (fields_nonempty c s) as Hn.
  destruct (fields c s); [contradiction|reflexivity].
Qed.

Section Clipboard.
Variable dec : item -> ikey.
Variable b64 : list Z -> option (list Z).

(* what one delivered sequence hands to the caller of ClipboardPop, and whether the caller is
   still waiting afterwards *)
Definition clip_item_spec (w : bool) (ans : option (list Z)) : list (list Z) * bool :=
  match ans with
  | Some b => (if w then [b] else [], false)
  | None => ([], w)
  end.

Definition clipspec (w : bool) (ans : option (list Z)) (o : outcome) : Prop :=
  forall s' es, o = Ok s' es -> (clips_of es, w_clip s') = clip_item_spec w ans.

Lemma clips_of_app a b : clips_of (a ++ b) = clips_of a ++ clips_of b.
Proof. unfold clips_of. apply flat_map_app. Qed.

Lemma cs_ret w s : w_clip s = w -> clipspec w None (ret s).
Proof. intros H s' es E. injection E as <- <-. cbn. rewrite H. reflexivity. Qed.
Lemma cs_post w e s : w_clip s = w -> clipspec w None (post e s).
Proof.
  intros H s' es. unfold post. destruct (q_stalled s) as [n|]; [destruct (0 <? n)|];
    intros E; try discriminate; injection E as <- <-; cbn; rewrite H; reflexivity.
Qed.
Lemma cs_try_post w e s : w_clip s = w -> clipspec w None (try_post e s).
Proof.
  intros H s' es. unfold try_post. destruct (q_stalled s) as [n|]; [destruct (0 <? n)|];
    intros E; injection E as <- <-; cbn; rewrite H; reflexivity.
Qed.
Lemma cs_post_key w it s : w_clip s = w -> clipspec w None (post_key dec it s).
Proof. apply cs_post. Qed.
Lemma cs_send_size_done w s : w_clip s = w -> clipspec w None (send_size_done s).
Proof.
  intros H s' es. unfold send_size_done. destruct (size_done s <? 1);
    intros E; injection E as <- <-; cbn; rewrite H; reflexivity.
Qed.
Lemma cs_send_cursor w r c s : w_clip s = w -> clipspec w None (send_cursor r c s).
Proof.
  intros H s' es. unfold send_cursor. destruct (w_cursor s);
    intros E; injection E as <- <-; cbn; rewrite H; reflexivity.
Qed.
Lemma cs_panic w ans es : clipspec w ans (Panic es).
Proof. intros s' es' E. discriminate. Qed.
Lemma cs_blocks w ans es : clipspec w ans (Blocks es).
Proof. intros s' es' E. discriminate. Qed.
Lemma cs_need {A} w ans (o : option A) f : (forall x, clipspec w ans (f x)) -> clipspec w ans (need o f).
Proof. intros H. destruct o; [apply H|apply cs_panic]. Qed.
(* a step that hands nothing over, followed by anything *)
Lemma cs_bind w ans o f : clipspec w None o -> (forall s1, w_clip s1 = w -> clipspec w ans (f s1)) ->
  clipspec w ans (bind o f).
Proof.
  intros Ho Hf s' es. destruct o as [s1 es1|es1|es1]; cbn [bind]; try discriminate.
  specialize (Ho s1 es1 eq_refl). cbn [clip_item_spec] in Ho. injection Ho as Hc Hw.
  specialize (Hf s1 Hw). destruct (f s1) as [s2 es2|es2|es2] eqn:Ef; try discriminate.
  intros E. injection E as <- <-. rewrite clips_of_app, Hc. cbn [app]. exact (Hf s2 es2 eq_refl).
Qed.

Lemma cs_da1 w ps : forall s, w_clip s = w -> clipspec w None (da1_loop ps s).
Proof.
  induction ps as [|p t IH]; intros s H; cbn [da1_loop]; [apply cs_ret; exact H|].
  apply cs_need. intros v. apply cs_bind; [|exact IH].
  destruct (v =? 4); [apply cs_post|apply cs_ret]; exact H.
Qed.

Ltac cside := first [ assumption | reflexivity ].
Ltac cleaf :=
  first [ apply cs_ret; cside | apply cs_post; cside | apply cs_try_post; cside | apply cs_post_key; cside
        | apply cs_send_size_done; cside | apply cs_send_cursor; cside | apply cs_da1; cside
        | apply cs_panic ].
Ltac ccrush :=
  repeat first
    [ cleaf
    | match goal with
      | |- clipspec _ _ (bind _ _) => apply cs_bind; [|intros ? ?; cbv beta]
      | |- clipspec _ _ (need _ _) => apply cs_need; intros ?; cbv beta
      | |- clipspec _ _ (if ?c then _ else _) => destruct c eqn:?
      | |- clipspec _ _ (match ?c with _ => _ end) => destruct c eqn:?
      end ].

Lemma cs_csi inter ps fin s : clipspec (w_clip s) None (handle_csi dec inter ps fin s).
Proof. unfold handle_csi, decrpm, decrpm_gen. cbv zeta. ccrush. Qed.

Lemma cs_dcs fin inter ps data s : clipspec (w_clip s) None (handle_dcs fin inter ps data s).
Proof. unfold handle_dcs. ccrush. Qed.

Lemma cs_osc_color w (cap : bool) (getf : vxstate -> option (list Z))
      (setf : vxstate -> option (list Z) -> vxstate) c pl s :
  w_clip (if cap then setf s (offer (getf s) pl) else s) = w ->
  clipspec w None (osc_color cap getf setf c pl s).
Proof. intros H. unfold osc_color. apply cs_post. exact H. Qed.

Lemma zlen3 {A} (l : list A) : (zlen l =? 3) = true -> exists a b c, l = [a; b; c].
Proof.
  intros H. apply Z.eqb_eq in H. destruct l as [|a [|b [|c [|d t]]]]; try (cbv in H; discriminate).
  - eauto.
  - rewrite !zlen_cons in H. pose proof (zlen_nonneg t). lia.
Qed.

Lemma not_zlen3 {A} (l : list A) : (zlen l =? 3) = false ->
  match l with [_; _; _] => False | _ => True end.
Proof. destruct l as [|a [|b [|c [|d t]]]]; try exact (fun _ => I). cbv. discriminate. Qed.

Lemma cs_osc payload s :
  clipspec (w_clip s) (clip_answer b64 (IOsc payload)) (handle_osc b64 payload s).
Proof.
  unfold handle_osc, clip_answer. cbv zeta. set (pl := gostring payload).
  apply cs_bind.
  { destruct (prefixb [52] pl); [|apply cs_ret; reflexivity].
    apply cs_osc_color. destruct (c_osc4 (vcaps s)); reflexivity. }
  intros s1 H1. apply cs_bind.
  { destruct (prefixb [49; 48] pl); [|apply cs_ret; exact H1].
    apply cs_osc_color. destruct (c_osc10 (vcaps s1)); exact H1. }
  intros s2 H2. apply cs_bind.
  { destruct (prefixb [49; 49] pl); [|apply cs_ret; exact H2].
    apply cs_osc_color. destruct (c_osc11 (vcaps s2)); exact H2. }
  intros s3 H3. rewrite split_on_is_fields.
  destruct (prefixb [53; 50] pl).
  - destruct (zlen (fields 59 pl) =? 3) eqn:E3; cbn [negb].
    + destruct (zlen3 _ E3) as (a & b & c & ->). change (zget [a; b; c] 2) with (Some c). cbn [need].
      destruct (b64 c) as [v|]; [|apply cs_ret; exact H3].
      intros s' es. unfold send_clip. rewrite H3. destruct (w_clip s);
        intros E; injection E as <- <-; cbn; rewrite ?H3; reflexivity.
    + pose proof (not_zlen3 _ E3) as Hn.
      assert (Hnone : match fields 59 pl with [_; _; d] => b64 d | _ => None end = None).
      { destruct (fields 59 pl) as [|a [|b [|c [|d t]]]]; try reflexivity. contradiction. }
      rewrite Hnone. apply cs_ret. exact H3.
  - destruct (prefixb [49; 55; 54] pl); [|apply cs_ret; exact H3].
    destruct (negb (zlen (fields 59 pl) =? 2)); [apply cs_ret; exact H3|].
    apply cs_need. intros v1. apply cs_try_post. exact H3.
Qed.

(* every delivered sequence: a clipboard report is handed to the caller that is waiting (who
   then stops waiting) or dropped; nothing else touches the hand-off *)
Lemma handle_clips s it : clipspec (w_clip s) (clip_answer b64 it) (handle dec b64 s it).
Proof.
  destruct it; cbn [handle clip_answer];
    first [ apply cs_csi | apply cs_dcs | apply cs_osc | ccrush ].
Qed.

Lemma clip_app_step s a : w_clip (app_step s a) = clip_wait_app (w_clip s) a.
Proof. destruct a; reflexivity. Qed.

(* the callers of ClipboardPop receive exactly the reports that arrive while they wait, for
   EVERY interleaving and every state (no hypothesis on the sequences or on the queue) *)
Theorem run_steps_clips l : forall s s' es,
  run_steps dec b64 s l = Ok s' es -> clips_of es = spec_clips b64 (w_clip s) l.
Proof.
  induction l as [|x t IH]; intros s s' es E.
  - injection E as <- <-. reflexivity.
  - destruct x as [it|a].
    + assert (Hgen : bind (handle dec b64 s it) (fun s1 => run_steps dec b64 s1 t) = Ok s' es ->
               clips_of es = match clip_answer b64 it with
                             | Some b => if w_clip s then b :: spec_clips b64 false t else spec_clips b64 false t
                             | None => spec_clips b64 (w_clip s) t
                             end).
      { intros Eb. destruct (handle dec b64 s it) as [s1 es1|es1|es1] eqn:Eh; cbn [bind] in Eb; try discriminate.
        destruct (run_steps dec b64 s1 t) as [s2 es2|es2|es2] eqn:Er; try discriminate.
        injection Eb as <- <-. pose proof (handle_clips s it s1 es1 Eh) as Hc.
        rewrite clips_of_app, (IH s1 s2 es2 Er).
        destruct (clip_answer b64 it) as [b|]; cbn [clip_item_spec] in Hc; injection Hc as -> ->.
        - destruct (w_clip s); reflexivity.
        - reflexivity. }
      destruct it; try (apply Hgen; exact E).
      cbn in E. injection E as <- <-. reflexivity.
    + cbn [run_steps spec_clips] in *. rewrite (IH _ _ _ E), clip_app_step. reflexivity.
Qed.
End Clipboard.

(* ================= L. the model satisfies the predicate of the "handle" stream ================= *)

Lemma list_eqb_refl' {A} (e : A -> A -> bool) l : (forall x, e x x = true) -> list_eqb e l l = true.
Proof. intros H. induction l as [|x t IH]; cbn; [reflexivity|]. rewrite H, IH. reflexivity. Qed.
Lemma zlist_eqb_refl' l : zlist_eqb l l = true.
Proof. apply list_eqb_refl'. apply Z.eqb_refl. Qed.
Lemma ikey_eqb_refl k : ikey_eqb k k = true.
Proof. unfold ikey_eqb. rewrite zlist_eqb_refl', !Z.eqb_refl. reflexivity. Qed.
Lemma mouse_eqb_refl m : mouse_eqb m m = true.
Proof. unfold mouse_eqb. rewrite !Z.eqb_refl. reflexivity. Qed.
Lemma size_eqb_refl z : size_eqb z z = true.
Proof. unfold size_eqb. rewrite !Z.eqb_refl. reflexivity. Qed.
Lemma event_eqb_refl e : event_eqb e e = true.
Proof.
  destruct e; cbn [event_eqb]; try reflexivity;
    first [ apply ikey_eqb_refl | apply mouse_eqb_refl | apply Z.eqb_refl | apply zlist_eqb_refl' | apply size_eqb_refl ].
Qed.
Lemma zpair_eqb_refl p : zpair_eqb p p = true.
Proof. unfold zpair_eqb. rewrite !Z.eqb_refl. reflexivity. Qed.

(* For every case input whose schedule can happen (sched_ok: the statements of a call in the
   translated order, the application reading Events()), in every start state a snapshot can
   describe, the observation the MODEL predicts satisfies the property predicate of the stream:
   so a case without mismatch is a case without violation, and the predicate cannot raise a false
   alarm on code the model describes. *)
Theorem handle_predicate_sound bits bs sn0 steps kt bt obs :
  let '(_, rq, _, _, _, _, _, _, _) := sn0 in
  sched_ok cursor_prog rq [] steps = true ->
  hcase_violation ((bits, None, bs, sn0), steps, (kt, bt),
                   model_obs (hcase_model ((bits, None, bs, sn0), steps, (kt, bt), obs))) = false.
Proof.
  destruct sn0 as [[[[[[[[p rq] rs] [[[c r] x] y]] uc] sd] lc] lf] lb].
  intros Hok. unfold hcase_model. cbv beta iota zeta.
  set (s0 := state_of_snap (caps_of_bits bits) None (p, rq, rs, (c, r, x, y), uc, sd, lc, lf, lb)).
  assert (Hl : q_stalled s0 = None) by reflexivity.
  assert (Hp : paste s0 = p) by reflexivity.
  assert (Hr : req_cursor s0 = rq) by reflexivity.
  assert (Hwc : w_cursor s0 = false) by reflexivity.
  assert (Hwk : w_clip s0 = false) by reflexivity.
  rewrite <- Hr in Hok.
  destruct (solicited_cursor_reply (dec_of kt) (b64_of bt) steps s0 Hok Hl) as (s' & es & E & _ & Hu & Hc).
  pose proof (run_steps_clips (dec_of kt) (b64_of bt) steps s0 s' es E) as Hk.
  rewrite E. unfold model_obs, hcase_violation. cbn [outcome_code outcome_emits]. cbv beta iota zeta.
  change (0 =? 1) with false. change (0 =? 2) with false. cbv iota.
  unfold user_events in Hu. rewrite Hu, Hc, Hk, Hp, Hr, Hwc, Hwk.
  unfold events_eqb. rewrite (list_eqb_refl' event_eqb _ event_eqb_refl).
  rewrite (list_eqb_refl' zpair_eqb _ zpair_eqb_refl).
  rewrite (list_eqb_refl' zlist_eqb _ zlist_eqb_refl'). reflexivity.
Qed.


(* ---------- stream "size": the model's rounds satisfy the predicate of the stream ---------- *)
(* A round in which the terminal answers the request with its two reports (CSI 4;h;w t then
   CSI 8;r;c t), from a state in which no token is left in chSizeDone and both capabilities are
   known: the request is answered by the report of ITS round, no token is left behind. *)
Section SizeSound.
Variable dec : item -> ikey.
Variable b64 : list Z -> option (list Z).

Definition round_of (h w r c : Z) : list step :=
  [SItem (ICsi [] [[4]; [h]; [w]] 116); SItem (ICsi [] [[8]; [r]; [c]] 116)].

Definition size_ready (s : vxstate) : Prop :=
  q_stalled s = None /\ size_done s = 0 /\ c_chars (vcaps s) = true /\ c_pix (vcaps s) = true.

Lemma round_model s win h w r c : size_ready s ->
  exists s', zround_model dec b64 s win (round_of h w r c)
             = Some (s', fst (announce win (mkSize c r w h)), snd (announce win (mkSize c r w h)))
             /\ size_ready s'.
Proof.
  intros (Hq & Hd & Hc & Hp). unfold zround_model. rewrite Hd. cbn.
  rewrite Hp. cbn.
  change (par [[4]; [h]; [w]] 1) with (Some h). change (par [[4]; [h]; [w]] 2) with (Some w).
  change (par [[8]; [r]; [c]] 1) with (Some r). change (par [[8]; [r]; [c]] 2) with (Some c).
  cbn. rewrite Hc. cbn. unfold send_size_done. cbn. rewrite Hd. cbn.
  destruct (announce win (mkSize c r w h)) as [w' o] eqn:E.
  eexists. split; [reflexivity|]. unfold size_ready. cbn. auto.
Qed.

Lemma osize_eqb_sym a b : osize_eqb a b = osize_eqb b a.
Proof.
  destruct a as [x|], b as [y|]; cbn; try reflexivity. unfold size_eqb.
  rewrite (Z.eqb_sym (s_cols x)), (Z.eqb_sym (s_rows x)), (Z.eqb_sym (s_xpix x)), (Z.eqb_sym (s_ypix x)).
  reflexivity.
Qed.

Definition clean_round (p : (Z * Z * Z * Z) * option size) : zround :=
  let '((h, w, r, c), obs) := p in (round_of h w r c, obs).

Theorem size_predicate_sound (ps : list ((Z * Z * Z * Z) * option size)) :
  forall s win pix, size_ready s ->
    zrounds_model dec b64 s win (map clean_round ps) = true ->
    zspec win pix (map clean_round ps) = true.
Proof.
  induction ps as [|[[[[h w] r] c] obs] t IH]; intros s win pix Hs Hm; [reflexivity|].
  cbn [map clean_round zrounds_model] in Hm.
  destruct (round_model s win h w r c Hs) as (s' & Hr & Hs'). rewrite Hr in Hm.
  apply andb_prop in Hm. destruct Hm as [Ho Hm].
  cbn [map clean_round zspec]. 
  change (reported pix (round_of h w r c)) with (Some (c, r), (w, h)). cbn [fst snd].
  unfold announce in Ho, Hm. 
  destruct (win_same win (mkSize c r w h)); cbn [fst snd] in Ho, Hm; rewrite osize_eqb_sym, Ho; cbn [andb];
    eapply IH; eauto.
Qed.
End SizeSound.
