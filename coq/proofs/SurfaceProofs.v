(* C14 — proofs about model/Surface.v: surface addressing, sequences of writes, render. *)
From Vx Require Import base.Prelude base.ListX model.Surface.
From Coq Require Import ZifyBool Permutation.

(* ------------------------------------------------------------------ arithmetic of addressing *)

Lemma addr_in_range w h col row :
  0 <= col < w -> 0 <= row < h -> 0 <= row * w + col < w * h.
Proof. intros Hc Hr; nia. Qed.

Lemma addr_div w col row : 0 <= col < w -> (row * w + col) / w = row.
Proof.
  intros Hc. rewrite Z.add_comm, Z.div_add by lia. rewrite Z.div_small by lia. lia.
Qed.

Lemma addr_mod w col row : 0 <= col < w -> (row * w + col) mod w = col.
Proof.
  intros Hc. rewrite Z.add_comm, Z.mod_add by lia. apply Z.mod_small; lia.
Qed.

Lemma addr_inj w col row col' row' :
  0 <= col < w -> 0 <= col' < w -> row * w + col = row' * w + col' -> col = col' /\ row = row'.
Proof.
  intros Hc Hc' E.
  assert (Hr : row = row') by (rewrite <- (addr_div w col row Hc), E; apply addr_div; exact Hc').
  subst row'; lia.
Qed.

(* ------------------------------------------------------------------ NewSurface *)

Lemma new_surface_wf {A} (blank : A) w h :
  0 <= w < 65536 -> 0 <= h < 65536 -> wf_node (new_surface blank w h).
Proof.
  intros Hw Hh; unfold wf_node, new_surface; cbn [s_w s_h s_buf].
  repeat split; try lia. rewrite zlen_repeat by nia. lia.
Qed.

Lemma new_surface_len {A} (blank : A) w h :
  0 <= w < 65536 -> 0 <= h < 65536 -> zlen (s_buf (new_surface blank w h)) = w * h.
Proof. intros Hw Hh; apply (new_surface_wf blank w h Hw Hh). Qed.

Lemma zget_zrepeat {A} (x : A) n i : 0 <= i < n -> zget (zrepeat x n) i = Some x.
Proof.
  intros H; unfold zget, zrepeat. destruct (i <? 0) eqn:E; [lia|].
  rewrite nth_error_repeat; [reflexivity|lia].
Qed.

Lemma new_surface_blank {A} (blank : A) w h col row :
  0 <= col < w -> 0 <= row < h -> cell_at (new_surface blank w h) col row = Some blank.
Proof.
  intros Hc Hr; unfold cell_at, new_surface; cbn [s_w s_h s_buf].
  replace ((0 <=? col) && (col <? w) && (0 <=? row) && (row <? h)) with true by lia.
  apply zget_zrepeat; nia.
Qed.

(* ------------------------------------------------------------------ WriteCell *)

(* pointwise description of zupd *)
Lemma zget_zupd {A} (l l' : list A) i j x :
  zupd l i x = Some l' -> zget l' j = if j =? i then Some x else zget l j.
Proof.
  intros H. destruct (j =? i) eqn:E.
  - assert (j = i) by lia; subst j. eapply zget_zupd_same; eauto.
  - eapply zget_zupd_other; eauto; lia.
Qed.

(* WriteCell on a well-formed surface, any uint16 coordinates: no panic; size, children and
   buffer length are kept; exactly buffer index row*w+col changes, and only if the
   coordinates are inside. *)
Lemma write_cell_spec {A} (s : surface A) col row c :
  wf_node s -> 0 <= col -> 0 <= row ->
  exists s', write_cell s col row c = Some s' /\
    s_w s' = s_w s /\ s_h s' = s_h s /\ s_kids s' = s_kids s /\ wf_node s' /\
    forall i, zget (s_buf s') i =
              if (col <? s_w s) && (row <? s_h s) && (i =? row * s_w s + col) then Some c
              else zget (s_buf s) i.
Proof.
  destruct s as [w h buf kids]; unfold wf_node; cbn [s_w s_h s_buf s_kids write_cell].
  intros (Hw & Hh & Hlen) Hc Hr.
  destruct ((col >=? w) || (row >=? h)) eqn:Eout.
  - exists (Surf w h buf kids); cbn [s_w s_h s_buf s_kids]. repeat split; try lia.
    intros i. replace ((col <? w) && (row <? h)) with false by lia. reflexivity.
  - assert (Hin : 0 <= row * w + col < zlen buf) by (rewrite Hlen; nia).
    destruct (proj2 (zupd_some_iff buf (row * w + col) c) Hin) as [b Hb].
    rewrite Hb. exists (Surf w h b kids); cbn [s_w s_h s_buf s_kids].
    pose proof (zupd_length _ _ _ _ Hb) as Hlb.
    repeat split; try lia.
    intros i. rewrite (zget_zupd _ _ _ i _ Hb).
    replace ((col <? w) && (row <? h)) with true by lia. reflexivity.
Qed.

Lemma write_cell_outside {A} (s : surface A) col row c :
  s_w s <= col \/ s_h s <= row -> write_cell s col row c = Some s.
Proof.
  destruct s as [w h buf kids]; cbn [s_w s_h write_cell]; intros H.
  replace ((col >=? w) || (row >=? h)) with true by lia. reflexivity.
Qed.

(* the same in the coordinates render uses: the cell shown at (col',row') *)
Lemma write_cell_cell_at {A} (s s' : surface A) col row c col' row' :
  wf_node s -> 0 <= col -> 0 <= row -> write_cell s col row c = Some s' ->
  cell_at s' col' row' =
    if (col <? s_w s) && (row <? s_h s) && (col' =? col) && (row' =? row) then Some c
    else cell_at s col' row'.
Proof.
  intros Hwf Hc Hr Hw.
  destruct (write_cell_spec s col row c Hwf Hc Hr) as (s2 & E & Ew & Eh & _ & _ & Hget).
  rewrite Hw in E; injection E as <-.
  unfold cell_at. rewrite Ew, Eh.
  destruct ((0 <=? col') && (col' <? s_w s) && (0 <=? row') && (row' <? s_h s)) eqn:Ein.
  - rewrite Hget.
    destruct ((col <? s_w s) && (row <? s_h s)) eqn:Ein2; cbn [andb]; [|reflexivity].
    destruct (row' * s_w s + col' =? row * s_w s + col) eqn:Eaddr.
    + assert (E2 : row' * s_w s + col' = row * s_w s + col) by lia.
      destruct (addr_inj (s_w s) col' row' col row) as [-> ->]; try lia.
      now rewrite !Z.eqb_refl.
    + destruct ((col' =? col) && (row' =? row)) eqn:Esame; [|reflexivity].
      assert (col' = col /\ row' = row) as [-> ->] by lia. lia.
  - destruct ((col <? s_w s) && (row <? s_h s) && (col' =? col) && (row' =? row)) eqn:E2; [|reflexivity].
    lia.
Qed.

(* the pre-fix code violates all three clauses: witnesses *)
Lemma old_new_surface_refuted :
  zlen (s_buf (new_surface_u16 0 300 300)) = 24464 /\ 300 * 300 = 90000.
Proof. split; vm_compute; reflexivity. Qed.

Lemma old_write_cell_height_refuted :
  write_cell_u16 (new_surface_u16 0 3 2) 0 2 7 = None.
Proof. vm_compute; reflexivity. Qed.

Lemma old_write_cell_wrap_refuted :
  match write_cell_u16 (new_surface 0 300 300) 299 299 7 with
  | Some s' => (zget (s_buf s') (299 * 300 + 299), zget (s_buf s') 24463)
  | None => (None, None)
  end = (Some 0, Some 7).
Proof. vm_compute; reflexivity. Qed.

(* ------------------------------------------------------------------ trees *)

Lemma surface_ind' {A} (P : surface A -> Prop) :
  (forall w h buf kids, Forall (fun k => P (kid_surf k)) kids -> P (Surf w h buf kids)) ->
  forall s, P s.
Proof.
  intros H. fix IH 1. intros [w h buf kids]. apply H.
  induction kids as [|[[[c r] z] ch] t IHt]; constructor; [apply IH | apply IHt].
Qed.

Lemma wf_tree_unfold {A} (w h : Z) (buf : list A) kids :
  wf_tree (Surf w h buf kids) <->
  wf_node (Surf w h buf kids) /\ Forall (fun k => wf_tree (kid_surf k)) kids.
Proof.
  cbn [wf_tree]. unfold wf_node; cbn [s_w s_h s_buf].
  assert (Hall : forall l : list (Z * Z * Z * surface A),
             (fix all (l : list (Z * Z * Z * surface A)) : Prop :=
                match l with
                | [] => True
                | k :: t => (let '(_, _, _, ch) := k in wf_tree ch) /\ all t
                end) l <-> Forall (fun k => wf_tree (kid_surf k)) l).
  { induction l as [|[[[c r] z] ch] t IHt].
    - split; auto.
    - split.
      + intros [H1 H2]; constructor; [exact H1 | apply IHt, H2].
      + intros H; inversion H; subst; split; [assumption | apply IHt; assumption]. }
  rewrite Hall. tauto.
Qed.

Lemma wf_tree_node {A} (s : surface A) : wf_tree s -> wf_node s.
Proof. destruct s; intros H; apply wf_tree_unfold in H; tauto. Qed.

Lemma wf_tree_kids {A} (s : surface A) :
  wf_tree s -> Forall (fun k => wf_tree (kid_surf k)) (s_kids s).
Proof. destruct s; intros H; apply wf_tree_unfold in H; cbn [s_kids]; tauto. Qed.

Lemma wf_tree_intro {A} (s : surface A) :
  wf_node s -> Forall (fun k => wf_tree (kid_surf k)) (s_kids s) -> wf_tree s.
Proof. destruct s; intros H1 H2; apply wf_tree_unfold; split; assumption. Qed.

Lemma new_surface_wf_tree {A} (blank : A) w h :
  0 <= w < 65536 -> 0 <= h < 65536 -> wf_tree (new_surface blank w h).
Proof.
  intros Hw Hh; apply wf_tree_intro; [apply new_surface_wf; assumption | constructor].
Qed.

Lemma add_child_wf_tree {A} (s : surface A) col row ch :
  wf_tree s -> wf_tree ch -> wf_tree (add_child s col row ch).
Proof.
  destruct s as [w h buf kids]; intros Hs Hc; apply wf_tree_unfold in Hs; destruct Hs as [Hn Hk].
  cbn [add_child]; apply wf_tree_unfold; split; [exact Hn|].
  apply Forall_app; split; [exact Hk | constructor; [exact Hc | constructor]].
Qed.

Lemma add_child_shape {A} (s : surface A) col row ch :
  s_w (add_child s col row ch) = s_w s /\ s_h (add_child s col row ch) = s_h s /\
  s_buf (add_child s col row ch) = s_buf s /\
  s_kids (add_child s col row ch) = s_kids s ++ [(col, row, 0, ch)].
Proof. destruct s; cbn; auto. Qed.

Lemma fill_wf_node {A} (f : A -> A) (s : surface A) : wf_node s -> wf_node (fill f s).
Proof.
  destruct s as [w h buf kids]; unfold wf_node; cbn [fill s_w s_h s_buf].
  intros (Hw & Hh & Hl); repeat split; try lia. unfold zlen in *; rewrite map_length; exact Hl.
Qed.

Lemma fill_shape {A} (f : A -> A) (s : surface A) :
  s_w (fill f s) = s_w s /\ s_h (fill f s) = s_h s /\ s_kids (fill f s) = s_kids s.
Proof. destruct s; cbn; auto. Qed.

Lemma fill_wf_tree {A} (f : A -> A) (s : surface A) : wf_tree s -> wf_tree (fill f s).
Proof.
  intros H; apply wf_tree_intro; [apply fill_wf_node, wf_tree_node, H|].
  destruct (fill_shape f s) as (_ & _ & ->). apply wf_tree_kids, H.
Qed.

(* a write keeps the children, hence the well-formedness of the tree *)
Lemma write_cell_wf_tree {A} (s : surface A) col row c :
  wf_tree s -> 0 <= col -> 0 <= row ->
  exists s', write_cell s col row c = Some s' /\ wf_tree s' /\
             s_w s' = s_w s /\ s_h s' = s_h s /\ s_kids s' = s_kids s.
Proof.
  intros Hwf Hc Hr.
  destruct (write_cell_spec s col row c (wf_tree_node s Hwf) Hc Hr) as (s' & E & Ew & Eh & Ek & Hn & _).
  exists s'; repeat split; try assumption.
  apply wf_tree_intro; [exact Hn | rewrite Ek; apply wf_tree_kids, Hwf].
Qed.

(* ------------------------------------------------------------------ a sequence of writes *)

Definition write_nonneg (wr : Z * Z * Z) : Prop := let '(col, row, _) := wr in 0 <= col /\ 0 <= row.

(* after any sequence of writes every buffer cell holds the last write addressed to it *)
Lemma write_cells_spec ws : forall (s : surface Z), wf_node s -> Forall write_nonneg ws ->
  exists s', write_cells s ws = Some s' /\ wf_node s' /\ s_w s' = s_w s /\ s_h s' = s_h s /\
    forall i v, zget (s_buf s) i = Some v ->
                zget (s_buf s') i = Some (spec_cell (s_w s) (s_h s) ws i v).
Proof.
  induction ws as [|[[col row] c] t IH]; intros s Hwf Hnn; cbn [write_cells spec_cell].
  - exists s. split; [reflexivity|]. split; [exact Hwf|]. split; [reflexivity|]. split; [reflexivity|].
    intros i v Hv; exact Hv.
  - inversion Hnn as [|? ? Hhd Ht]; subst. unfold write_nonneg in Hhd. destruct Hhd as [Hc Hr].
    destruct (write_cell_spec s col row c Hwf Hc Hr) as (s1 & E1 & Ew & Eh & _ & Hwf1 & Hget). rewrite E1.
    destruct (IH s1 Hwf1 Ht) as (s2 & E2 & Hwf2 & Ew2 & Eh2 & Hget2).
    exists s2. split; [exact E2|]. split; [exact Hwf2|]. split; [congruence|]. split; [congruence|].
    intros i v Hv. rewrite Ew, Eh in Hget2.
    destruct ((col <? s_w s) && (row <? s_h s) && (row * s_w s + col =? i)) eqn:Ehit.
    + apply Hget2. rewrite Hget. replace (i =? row * s_w s + col) with true by lia.
      replace ((col <? s_w s) && (row <? s_h s)) with true by lia. reflexivity.
    + apply Hget2. rewrite Hget.
      destruct ((col <? s_w s) && (row <? s_h s) && (i =? row * s_w s + col)) eqn:E3; [lia | exact Hv].
Qed.

Lemma sparse_from_increasing l : forall k prev, prev < k -> increasing prev (sparse_from k l) = true.
Proof.
  induction l as [|x t IH]; intros k prev H; cbn [sparse_from increasing]; [reflexivity|].
  destruct (x =? 0); [apply IH; lia|]. cbn [increasing]. rewrite IH by lia. lia.
Qed.

Lemma sparse_from_in l : forall k i x, In (i, x) (sparse_from k l) ->
  k <= i /\ zget l (i - k) = Some x /\ x <> 0.
Proof.
  induction l as [|a t IH]; intros k i x Hin; cbn [sparse_from] in Hin; [destruct Hin|].
  destruct (a =? 0) eqn:Ea.
  - destruct (IH _ _ _ Hin) as (H1 & H2 & H3). split; [lia|]. split; [|exact H3].
    rewrite zget_cons_S by lia. replace (i - k - 1) with (i - (k + 1)) by lia. exact H2.
  - destruct Hin as [Heq|Hin].
    + injection Heq as <- <-. split; [lia|]. rewrite Z.sub_diag. split; [reflexivity | lia].
    + destruct (IH _ _ _ Hin) as (H1 & H2 & H3). split; [lia|]. split; [|exact H3].
      rewrite zget_cons_S by lia. replace (i - k - 1) with (i - (k + 1)) by lia. exact H2.
Qed.

Lemma sparse_lookup_from l : forall k i, k <= i ->
  sparse_lookup (sparse_from k l) i = match zget l (i - k) with Some x => x | None => 0 end.
Proof.
  induction l as [|a t IH]; intros k i Hk; cbn [sparse_from sparse_lookup].
  - unfold zget. destruct (i - k <? 0); [reflexivity|]. now destruct (Z.to_nat (i - k)).
  - destruct (Z.eq_dec i k) as [->|Hne].
    + rewrite Z.sub_diag, zget_cons_0. destruct (a =? 0) eqn:Ea.
      * (* nothing stored at k; later entries have larger indices *)
        assert (Hnone : forall l' k', k < k' -> sparse_lookup (sparse_from k' l') k = 0).
        { induction l' as [|b t' IH']; intros k' Hk'; cbn [sparse_from sparse_lookup]; [reflexivity|].
          destruct (b =? 0); [apply IH'; lia|]. cbn [sparse_lookup].
          replace (k' =? k) with false by lia. apply IH'; lia. }
        rewrite Hnone by lia. lia.
      * cbn [sparse_lookup]. rewrite Z.eqb_refl. reflexivity.
    + rewrite zget_cons_S by lia. replace (i - k - 1) with (i - (k + 1)) by lia.
      destruct (a =? 0); [apply IH; lia|]. cbn [sparse_lookup].
      replace (k =? i) with false by lia. apply IH; lia.
Qed.

(* the model's own observation passes the decidable addressing check of the differential run *)
Lemma surface_run_ok w h ws :
  0 <= w < 65536 -> 0 <= h < 65536 -> Forall write_nonneg ws ->
  surface_ok ((w, h, ws), surface_run (w, h, ws)) = true.
Proof.
  intros Hw Hh Hnn. unfold surface_ok, surface_run.
  pose proof (new_surface_wf 0 w h Hw Hh) as Hwf0.
  destruct (write_cells_spec ws (new_surface 0 w h) Hwf0 Hnn) as (s & E & Hwf & Ew & Eh & Hget).
  rewrite E. cbn [new_surface s_w s_h s_buf] in Ew, Eh, Hget.
  destruct Hwf as (_ & _ & Hlen). rewrite Ew, Eh in Hlen.
  assert (Hcell : forall i, 0 <= i < w * h -> zget (s_buf s) i = Some (spec_cell w h ws i 0)).
  { intros i Hi. apply Hget. apply zget_zrepeat; lia. }
  replace (0 =? 0) with true by reflexivity. rewrite Hlen, Z.eqb_refl. cbn [andb].
  rewrite sparse_from_increasing by lia. cbn [andb].
  apply andb_true_intro; split.
  - apply forallb_forall. intros [i x] Hin.
    destruct (sparse_from_in _ _ _ _ Hin) as (Hi & Hz & Hx). rewrite Z.sub_0_r in Hz.
    pose proof (zget_some_range _ _ _ Hz) as Hr. rewrite Hlen in Hr.
    rewrite (Hcell i Hr) in Hz. injection Hz as Hz. lia.
  - apply forallb_forall. intros [[col row] c] Hin.
    rewrite Forall_forall in Hnn. specialize (Hnn _ Hin). unfold write_nonneg in Hnn. destruct Hnn as [Hc Hr].
    destruct ((col <? w) && (row <? h)) eqn:Ein; [|reflexivity].
    rewrite sparse_lookup_from by nia. rewrite Z.sub_0_r.
    rewrite Hcell by (apply addr_in_range; lia). lia.
Qed.
