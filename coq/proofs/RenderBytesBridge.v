(* Bytes bridge, assembled: for every list of renderer tokens, the bytes vaxis.go writes for them
   are read by the parser model as exactly those tokens (text rune by rune; equal under the
   comparison the differential harness uses). *)
From Coq Require Import Lia ZifyBool.
From Vx Require Import base.Prelude base.ListX model.ParserTypes model.Parser model.RenderTypes
  model.RenderCheck model.RenderBytes proofs.RenderBytesDigits proofs.RenderBytesProofs proofs.RenderBytesUtf8.

Theorem bytes_roundtrip ks : toks_wfb ks = true -> toks_of_bytes (ser_bytes ks) = explode ks.
Proof.
  unfold toks_wfb. intros H. apply andb_prop in H. destruct H as [Hw Hu].
  unfold toks_of_bytes, ser_bytes. rewrite decode_utf8 by (apply ser_all_ok; exact Hu).
  apply toks_of_ser. exact Hw.
Qed.

(* ---------- the harness comparison cannot tell explode ks from ks ---------- *)
Definition is_text (k : tok) : bool := match k with KText _ => true | _ => false end.
Fixpoint merged (l : list tok) : Prop :=
  match l with
  | KText _ :: ((KText _ :: _) as t) => False
  | _ :: t => merged t
  | [] => True
  end.

Lemma merged_cons k l : merged (k :: l) -> merged l.
Proof. destruct k; cbn; try tauto. destruct l as [|[] ?]; cbn; tauto. Qed.

Lemma merge_merged l : merged (merge_text l).
Proof.
  induction l as [|k l IH]; [exact I|].
  destruct k; cbn [merge_text]; try exact IH.
  destruct (merge_text l) as [|m t] eqn:E. { exact I. }
  destruct m; exact IH.
Qed.

Lemma merged_fix l : merged l -> merge_text l = l.
Proof.
  induction l as [|k l IH]; intros H; [reflexivity|].
  pose proof (merged_cons _ _ H) as Hl. specialize (IH Hl).
  destruct k; cbn [merge_text]; rewrite IH; try reflexivity.
  destruct l as [|[] ?]; try reflexivity. cbn in H. tauto.
Qed.

Lemma merge_idem l : merge_text (merge_text l) = merge_text l.
Proof. apply merged_fix, merge_merged. Qed.

Lemma merge_app_r x : forall a, merge_text (x ++ a) = merge_text (x ++ merge_text a).
Proof.
  induction x as [|k x IH]; intros a; cbn [app].
  - symmetry. apply merge_idem.
  - destruct k; cbn [merge_text]; rewrite IH; reflexivity.
Qed.

Lemma norm_app x a b : norm a = norm b -> norm (x ++ a) = norm (x ++ b).
Proof.
  unfold norm. intros H. rewrite !filter_app, !map_app.
  rewrite merge_app_r, H, <- merge_app_r. reflexivity.
Qed.

Lemma merge_text_cons_text a l :
  merge_text (KText a :: l) = match merge_text l with KText b :: t' => KText (a ++ b) :: t' | t' => KText a :: t' end.
Proof. reflexivity. Qed.

Lemma merge_text_runs g : forall L, g <> [] ->
  merge_text (map (fun r => KText [r]) g ++ L) = merge_text (KText g :: L).
Proof.
  induction g as [|r g IH]; intros L Hne; [congruence|].
  destruct g as [|r2 g2].
  - reflexivity.
  - change (map (fun r => KText [r]) (r :: r2 :: g2) ++ L)
      with (KText [r] :: (map (fun r => KText [r]) (r2 :: g2) ++ L)).
    rewrite merge_text_cons_text. rewrite IH by discriminate. rewrite !merge_text_cons_text.
    destruct (merge_text L) as [|m t]; [reflexivity|]. destruct m; reflexivity.
Qed.

Lemma filter_runs g : filter visible_tok (map (fun r => KText [r]) g) = map (fun r => KText [r]) g.
Proof. induction g as [|r g IH]; [reflexivity|]. cbn [map filter visible_tok]. f_equal. exact IH. Qed.
Lemma canon_runs g : map canon_tok (map (fun r => KText [r]) g) = map (fun r => KText [r]) g.
Proof. induction g as [|r g IH]; [reflexivity|]. cbn [map canon_tok]. f_equal. exact IH. Qed.

Lemma norm_explode1 k l : norm (explode1 k ++ l) = norm (k :: l).
Proof.
  destruct k; try reflexivity.
  - (* KText g *) unfold norm, explode1. rewrite filter_app, map_app.
    rewrite filter_runs, canon_runs. destruct g as [|r g]; [reflexivity|].
    rewrite merge_text_runs by discriminate. reflexivity.
Qed.

Lemma norm_explode ks : norm (explode ks) = norm ks.
Proof.
  induction ks as [|k ks IH]; [reflexivity|].
  unfold explode. cbn [flat_map]. fold (explode ks).
  rewrite (norm_app (explode1 k) (explode ks) ks IH). apply norm_explode1.
Qed.

Lemma tok_eqb_refl k : tok_eqb k k = true.
Proof.
  assert (Hz : forall l, zlist_eqb l l = true).
  { induction l as [|x l IH]; [reflexivity|]. cbn. rewrite Z.eqb_refl. exact IH. }
  destruct k; cbn; rewrite ?Z.eqb_refl, ?Hz; reflexivity.
Qed.
Lemma toks_eqb_norm a b : norm a = norm b -> toks_eqb a b = true.
Proof.
  unfold toks_eqb. fold (norm a). fold (norm b). intros ->.
  induction (norm b) as [|k l IH]; [reflexivity|]. cbn. rewrite tok_eqb_refl. exact IH.
Qed.

Theorem bytes_roundtrip_eqb ks : toks_wfb ks = true -> toks_eqb (toks_of_bytes (ser_bytes ks)) ks = true.
Proof. intros H. apply toks_eqb_norm. rewrite (bytes_roundtrip ks H). apply norm_explode. Qed.
