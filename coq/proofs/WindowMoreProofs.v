(* C11 — the further clauses of the observation predicate ([case_more_holds],
   [step_more_holds]): reading order as a subsequence, measured width, non-overlap.
   Soundness (whatever the model outputs satisfies them, for every window chain, text and
   width oracle with non-negative widths) and meaning (what they say about an observation). *)
From Vx Require Import base.Prelude base.ListX model.Window proofs.WindowProofs.
Require Import ZifyBool Sorted.

(* ------------------------------------------------------------------ subsequences *)

Inductive Sub {A : Type} : list A -> list A -> Prop :=
| Sub_nil l : Sub [] l
| Sub_cons x a b : Sub a b -> Sub (x :: a) (x :: b)
| Sub_skip y a b : Sub a b -> Sub a (y :: b).

Lemma Sub_refl {A} (l : list A) : Sub l l.
Proof. induction l; constructor; assumption. Qed.

Lemma Sub_app {A} (a b c d : list A) : Sub a b -> Sub c d -> Sub (a ++ c) (b ++ d).
Proof.
  intros H1 H2. induction H1 as [l|x a b H IH|y a b H IH]; cbn [app].
  - induction l as [|y l IH]; cbn [app]; [exact H2|apply Sub_skip; exact IH].
  - apply Sub_cons; exact IH.
  - apply Sub_skip; exact IH.
Qed.

Lemma Sub_trans {A} (a b c : list A) : Sub a b -> Sub b c -> Sub a c.
Proof.
  intros H1 H2. revert a H1. induction H2 as [l|x b c H IH|y b c H IH]; intros a H1.
  - inversion H1; subst. apply Sub_nil.
  - inversion H1; subst.
    + apply Sub_nil.
    + apply Sub_cons. apply IH; assumption.
    + apply Sub_skip. apply IH; assumption.
  - apply Sub_skip. apply IH; exact H1.
Qed.

Lemma Sub_In {A} (a b : list A) x : Sub a b -> In x a -> In x b.
Proof.
  induction 1 as [l|y a b H IH|y a b H IH]; intros Hin.
  - destruct Hin.
  - destruct Hin as [->|Hin]; [left; reflexivity|right; auto].
  - right; auto.
Qed.

Lemma Sub_map {A B} (f : A -> B) (a b : list A) : Sub a b -> Sub (map f a) (map f b).
Proof. induction 1; cbn [map]; constructor; assumption. Qed.

Lemma Sub_app_r {A} (a b c : list A) : Sub a b -> Sub a (b ++ c).
Proof. intros H. rewrite <- (app_nil_r a). apply Sub_app; [exact H|apply Sub_nil]. Qed.

Lemma zlist_eqb_refl (a : list Z) : zlist_eqb a a = true.
Proof. induction a as [|x a IH]; cbn; [reflexivity|]. rewrite Z.eqb_refl. exact IH. Qed.

(* the greedy test [subseq] decides [Sub] *)
Lemma subseq_tail b : forall a x, subseq (x :: a) b = true -> subseq a b = true.
Proof.
  induction b as [|y b IH]; intros a x; cbn [subseq]; [discriminate|].
  assert (Q : forall a', subseq a' b = true -> subseq a' (y :: b) = true).
  { intros [|x' a']; cbn [subseq]; [reflexivity|]. intros H.
    destruct (zlist_eqb x' y); [apply (IH a' x'); exact H|exact H]. }
  destruct (zlist_eqb x y); intros H.
  - apply Q; exact H.
  - apply Q. apply (IH a x); exact H.
Qed.

Lemma subseq_skip a b y : subseq a b = true -> subseq a (y :: b) = true.
Proof.
  destruct a as [|x a]; cbn [subseq]; [reflexivity|]. intros H.
  destruct (zlist_eqb x y); [apply (subseq_tail b a x); exact H|exact H].
Qed.

Lemma subseq_complete a b : Sub a b -> subseq a b = true.
Proof.
  induction 1 as [l|x a b H IH|y a b H IH].
  - destruct l; reflexivity.
  - cbn [subseq]. rewrite zlist_eqb_refl. exact IH.
  - apply subseq_skip; exact IH.
Qed.

Lemma subseq_sound b : forall a, subseq a b = true -> Sub a b.
Proof.
  induction b as [|y b IH]; intros [|x a]; cbn [subseq]; try discriminate; try (intros; apply Sub_nil).
  destruct (zlist_eqb x y) eqn:E; intros H.
  - apply zlist_eqb_eq in E; subst y. apply Sub_cons; apply IH; exact H.
  - apply Sub_skip; apply IH; exact H.
Qed.

(* ------------------------------------------------------------------ reading order of a walk *)

(* [q] is at or after [st] in reading order *)
Definition ge_pos (st q : Z * Z) : Prop := snd st < snd q \/ (snd q = snd st /\ fst st <= fst q).

Lemma reach_ge a b : reach a b -> ge_pos a b.
Proof. unfold reach, ge_pos; lia. Qed.

Lemma path_ge ps : forall st en,
  path_ok st ps en -> (forall p, In p ps -> 0 <= cw (snd p)) ->
  forall p, In p ps -> ge_pos st (fst p).
Proof.
  induction ps as [|p t IH]; intros st en Hp Hw q Hq; [destruct Hq|].
  cbn [path_ok] in Hp. destruct Hp as [Hr Hp]. apply reach_ge in Hr.
  destruct Hq as [<-|Hq]; [exact Hr|].
  pose proof (IH _ _ Hp (fun p' Hp' => Hw p' (or_intror Hp')) q Hq) as Hg.
  pose proof (Hw p (or_introl eq_refl)) as Hw0.
  unfold ge_pos in *; cbn [fst snd] in *. lia.
Qed.

(* row-major order of observed cells *)
Definition dlt (e1 e2 : Z * Z * cell) : Prop :=
  snd (fst e1) < snd (fst e2) \/ (snd (fst e1) = snd (fst e2) /\ fst (fst e1) < fst (fst e2)).

Definition dcg (e : Z * Z * cell) : text := cg (snd e).

Lemma no_overlap_cons x1 y1 c1 x2 y2 c2 t :
  no_overlap ((x1, y1, c1) :: (x2, y2, c2) :: t) =
  ((y1 <? y2) || ((y1 =? y2) && (x1 + Z.max 0 (cw c1) <=? x2))) && no_overlap ((x2, y2, c2) :: t).
Proof. reflexivity. Qed.

(* The key fact.  [ps] is a walk in reading order with non-negative widths, drawn through a
   window with origin (ox,oy); [d] is any row-major list of screen cells each of which shows
   the LAST cluster put at its position.  Then the graphemes of [d] are a subsequence of the
   graphemes of the walk, and no glyph of [d] reaches into the next cell of [d]. *)
Lemma observed_order ox oy ps : forall st en d,
  path_ok st ps en -> (forall p, In p ps -> 0 <= cw (snd p)) ->
  StronglySorted dlt d ->
  (forall e, In e d -> last_at ps (fst (fst e) - ox) (snd (fst e) - oy) = Some (snd e)) ->
  Sub (map dcg d) (map dcg ps) /\ no_overlap d = true.
Proof.
  induction ps as [|p t IH]; intros st en d Hp Hw Hs Hl.
  - destruct d as [|e d]; [split; [apply Sub_nil|reflexivity]|].
    specialize (Hl e (or_introl eq_refl)); discriminate.
  - cbn [path_ok] in Hp. destruct Hp as [Hr Hp]. apply reach_ge in Hr.
    assert (Hw' : forall p', In p' t -> 0 <= cw (snd p')) by (intros p' Hp'; apply Hw; right; exact Hp').
    pose proof (Hw p (or_introl eq_refl)) as Hw0.
    pose proof (path_ge t _ _ Hp Hw') as Hge.
    destruct d as [|e d']; [split; [apply Sub_nil|reflexivity]|].
    (* where a cell of the observation comes from *)
    assert (Hsrc : forall e', In e' (e :: d') ->
              (last_at t (fst (fst e') - ox) (snd (fst e') - oy) = Some (snd e') /\
               ge_pos (fst (fst p) + cw (snd p), snd (fst p)) (fst (fst e') - ox, snd (fst e') - oy)) \/
              (last_at t (fst (fst e') - ox) (snd (fst e') - oy) = None /\
               fst (fst p) = fst (fst e') - ox /\ snd (fst p) = snd (fst e') - oy /\ snd e' = snd p)).
    { intros e' He'. specialize (Hl e' He'). cbn [last_at] in Hl.
      destruct (last_at t (fst (fst e') - ox) (snd (fst e') - oy)) as [c'|] eqn:EL.
      - left. split; [exact Hl|]. apply last_at_some_in in EL as (q & Hq & _ & Hx & Hy).
        specialize (Hge q Hq). unfold ge_pos in *; cbn [fst snd] in *. lia.
      - right. destruct ((fst (fst p) =? fst (fst e') - ox) && (snd (fst p) =? snd (fst e') - oy)) eqn:EP; [|discriminate].
        injection Hl as Hl. split; [reflexivity|]. split; [lia|]. split; [lia|]. symmetry; exact Hl. }
    inversion Hs as [|e0 d0 Hs' Hall]; subst e0 d0. rewrite Forall_forall in Hall.
    (* every later cell of the observation comes from the tail of the walk *)
    assert (Htail : forall e', In e' d' ->
              last_at t (fst (fst e') - ox) (snd (fst e') - oy) = Some (snd e')).
    { intros e' He'. destruct (Hsrc e' (or_intror He')) as [[H _]|(_ & Hx & Hy & _)]; [exact H|exfalso].
      specialize (Hall e' He'). unfold dlt in Hall.
      destruct (Hsrc e (or_introl eq_refl)) as [[_ Hg]|(_ & Hx0 & Hy0 & _)];
        unfold ge_pos in *; cbn [fst snd] in *; lia. }
    destruct (Hsrc e (or_introl eq_refl)) as [[He _]|(_ & Hx & Hy & Hc)].
    + (* the head too: skip [p] *)
      destruct (IH _ en (e :: d') Hp Hw' Hs) as [HS HN].
      { intros e' [<-|He']; [exact He|apply Htail; exact He']. }
      split; [cbn [map]; apply Sub_skip; exact HS|exact HN].
    + destruct (IH _ en d' Hp Hw' Hs' Htail) as [HS HN].
      split.
      * cbn [map]. unfold dcg at 1 3. rewrite Hc. apply Sub_cons; exact HS.
      * destruct d' as [|e2 d'']; [destruct e as [[? ?] ?]; reflexivity|].
        destruct e as [[x1 y1] c1], e2 as [[x2 y2] c2]. rewrite no_overlap_cons.
        rewrite HN, andb_true_r.
        pose proof (Htail (x2, y2, c2) (or_introl eq_refl)) as H2.
        apply last_at_some_in in H2 as (q & Hq & _ & Hx2 & Hy2).
        specialize (Hge q Hq). cbn [fst snd] in *. subst c1.
        unfold ge_pos in Hge; cbn [fst snd] in Hge. lia.
Qed.

(* ------------------------------------------------------------------ row-major lists *)

Lemma SS_app {A} (R : A -> A -> Prop) (a b : list A) :
  StronglySorted R a -> StronglySorted R b -> (forall x y, In x a -> In y b -> R x y) ->
  StronglySorted R (a ++ b).
Proof.
  induction a as [|x a IH]; intros Ha Hb Hab; cbn [app]; [exact Hb|].
  inversion Ha as [|x0 a0 Ha' Hx]; subst. constructor.
  - apply IH; [exact Ha'|exact Hb|]. intros; apply Hab; [right|]; assumption.
  - apply Forall_forall. intros y Hy. apply in_app_or in Hy as [Hy|Hy].
    + rewrite Forall_forall in Hx; apply Hx; exact Hy.
    + apply Hab; [left; reflexivity|exact Hy].
Qed.

Lemma SS_flat_map {A E} (RA : A -> A -> Prop) (RE : E -> E -> Prop) (f : A -> list E) (l : list A) :
  StronglySorted RA l ->
  (forall a, In a l -> StronglySorted RE (f a)) ->
  (forall a1 a2 e1 e2, RA a1 a2 -> In e1 (f a1) -> In e2 (f a2) -> RE e1 e2) ->
  StronglySorted RE (flat_map f l).
Proof.
  intros Hl Hf Hc. induction Hl as [|a l Hl IH Ha]; cbn [flat_map]; [constructor|].
  apply SS_app.
  - apply Hf; left; reflexivity.
  - apply IH. intros; apply Hf; right; assumption.
  - intros x y Hx Hy. apply in_flat_map in Hy as (a2 & Ha2 & Hy).
    rewrite Forall_forall in Ha. eapply Hc; [apply Ha; exact Ha2|exact Hx|exact Hy].
Qed.

Lemma SS_seq n : forall k, StronglySorted Z.lt (map Z.of_nat (seq k n)).
Proof.
  induction n as [|n IH]; intros k; cbn [seq map]; constructor; [apply IH|].
  apply Forall_forall. intros y Hy. apply in_map_iff in Hy as (j & <- & Hj). apply in_seq in Hj. lia.
Qed.

Lemma SS_zrange n : StronglySorted Z.lt (zrange n).
Proof. apply SS_seq. Qed.

Lemma SS_combine_seq {A} (l : list A) : forall k n,
  StronglySorted (fun a b : Z * A => fst a < fst b) (combine (map Z.of_nat (seq k n)) l).
Proof.
  induction l as [|x l IH]; intros k n; destruct n as [|n]; cbn [seq map combine]; try constructor.
  - apply IH.
  - apply Forall_forall. intros [i y] Hy. apply in_combine_l in Hy. apply in_map_iff in Hy as (j & <- & Hj).
    apply in_seq in Hj. cbn [fst]. lia.
Qed.

Lemma changed_cells_sorted bg cols rows prev post :
  StronglySorted dlt (changed_cells bg cols rows prev post).
Proof.
  unfold changed_cells.
  apply (SS_flat_map Z.lt dlt _ _ (SS_zrange rows)).
  - intros y _. apply (SS_flat_map Z.lt dlt _ _ (SS_zrange cols)).
    + intros x _. cbn zeta. destruct (cell_eqb _ _); repeat constructor.
    + intros x1 x2 e1 e2 Hlt H1 H2. cbn zeta in H1, H2.
      destruct (cell_eqb (obs_at bg prev x1 y) _); [destruct H1|]. destruct H1 as [<-|[]].
      destruct (cell_eqb (obs_at bg prev x2 y) _); [destruct H2|]. destruct H2 as [<-|[]].
      right; cbn [fst snd]; lia.
  - intros y1 y2 e1 e2 Hlt H1 H2.
    apply in_flat_map in H1 as (x1 & _ & H1). apply in_flat_map in H2 as (x2 & _ & H2). cbn zeta in H1, H2.
    destruct (cell_eqb (obs_at bg prev x1 y1) _); [destruct H1|]. destruct H1 as [<-|[]].
    destruct (cell_eqb (obs_at bg prev x2 y2) _); [destruct H2|]. destruct H2 as [<-|[]].
    left; cbn [fst snd]; lia.
Qed.

Lemma row_diff_in bg y line e : In e (row_diff bg y line) -> snd (fst e) = y.
Proof.
  unfold row_diff. intros H. apply in_flat_map in H as ([x c] & _ & H). cbn [fst snd] in H.
  destruct (cell_eqb c bg); [destruct H|]. destruct H as [<-|[]]. reflexivity.
Qed.

Lemma screen_diff_sorted bg s : StronglySorted dlt (screen_diff bg s).
Proof.
  unfold screen_diff.
  apply (SS_flat_map (fun a b : Z * list cell => fst a < fst b) dlt).
  - unfold zrange. apply SS_combine_seq.
  - intros [y line] _. cbn [fst snd]. unfold row_diff.
    apply (SS_flat_map (fun a b : Z * cell => fst a < fst b) dlt).
    + unfold zrange. apply SS_combine_seq.
    + intros [x c] _. cbn [fst snd]. destruct (cell_eqb c bg); repeat constructor.
    + intros [x1 c1] [x2 c2] e1 e2 Hlt H1 H2. cbn [fst snd] in *.
      destruct (cell_eqb c1 bg); [destruct H1|]. destruct H1 as [<-|[]].
      destruct (cell_eqb c2 bg); [destruct H2|]. destruct H2 as [<-|[]].
      right; cbn [fst snd]; lia.
  - intros [y1 l1] [y2 l2] e1 e2 Hlt H1 H2. cbn [fst snd] in *.
    apply row_diff_in in H1, H2. left; lia.
Qed.

(* ------------------------------------------------------------------ where the cells of a layout come from *)

Lemma op_clusters_chars o : op_clusters o = map gr (op_chars o).
Proof.
  destruct o as [| | | |segs|row segs|row segs|lsegs]; cbn [op_clusters op_chars map]; try reflexivity;
    try (rewrite map_map; reflexivity).
  induction lsegs as [|ls t IH]; cbn [flat_map map]; [reflexivity|]. rewrite map_app, IH. reflexivity.
Qed.

Section Sources.
Variable measure : text -> Z.
Variable remeasure : bool.
Variable trailing : text -> bool.

Notation cwidth := (char_width measure remeasure).

(* the cell shows one whole character of the list, with the width of the measuring in force *)
Definition from_char (chars : list character) (c : cell) : Prop :=
  exists ch, In ch chars /\ cg c = gr ch /\ cw c = cwidth ch.

Definition ellipsis_cell (c : cell) : Prop := cg c = ellipsis /\ cw c = 1.

Lemma from_char_cons ch chars c : from_char chars c -> from_char (ch :: chars) c.
Proof. intros (x & Hx & H). exists x; split; [right; exact Hx|exact H]. Qed.

Lemma from_char_app_l a b c : from_char a c -> from_char (a ++ b) c.
Proof. intros (x & Hx & H). exists x; split; [apply in_or_app; left; exact Hx|exact H]. Qed.

Lemma from_char_app_r a b c : from_char b c -> from_char (a ++ b) c.
Proof. intros (x & Hx & H). exists x; split; [apply in_or_app; right; exact Hx|exact H]. Qed.

Lemma print_src cols rows items : forall col row,
  let ps := fst (print_places measure remeasure cols rows items col row) in
  Sub (map dcg ps) (map gr (map fst items)) /\
  forall p, In p ps -> from_char (map fst items) (snd p).
Proof.
  induction items as [|[ch st] t IH]; intros col row; cbn [print_places map fst].
  - split; [apply Sub_nil|intros p []].
  - destruct (has_nl (gr ch)).
    { destruct (IH 0 (row + 1)) as [H1 H2]. split; [apply Sub_skip; exact H1|].
      intros p Hp; apply from_char_cons; apply H2; exact Hp. }
    destruct (row >? rows); [split; [apply Sub_nil|intros p []]|].
    destruct (fit cols col row (cwidth ch)) as [[c1 r1]|].
    + cbn [fst].
      assert (Hrest : forall c2 r2, let ps := fst (print_places measure remeasure cols rows t c2 r2) in
                Sub (map dcg ((c1, r1, mkCell (gr ch) (cwidth ch) st) :: ps)) (gr ch :: map gr (map fst t)) /\
                forall p, In p ((c1, r1, mkCell (gr ch) (cwidth ch) st) :: ps) -> from_char (ch :: map fst t) (snd p)).
      { intros c2 r2. destruct (IH c2 r2) as [H1 H2]. split.
        - cbn [map]. apply Sub_cons; exact H1.
        - intros p [<-|Hp]; [exists ch; split; [left; reflexivity|split; reflexivity]|].
          apply from_char_cons; apply H2; exact Hp. }
      destruct (c1 + cwidth ch >=? cols); apply Hrest.
    + destruct (IH col row) as [H1 H2]. split; [apply Sub_skip; exact H1|].
      intros p Hp; apply from_char_cons; apply H2; exact Hp.
Qed.

Lemma println_src cols items : forall col row,
  let ps := println_places measure remeasure cols items col row in
  Sub (map dcg ps) (map gr (map fst items)) /\
  forall p, In p ps -> from_char (map fst items) (snd p).
Proof.
  induction items as [|[ch st] t IH]; intros col row; cbn [println_places map fst].
  - split; [apply Sub_nil|intros p []].
  - destruct (col + cwidth ch >? cols); [split; [apply Sub_nil|intros p []]|].
    destruct (IH (col + cwidth ch) row) as [H1 H2]. split.
    + cbn [map]. apply Sub_cons; exact H1.
    + intros p [<-|Hp]; [exists ch; split; [left; reflexivity|split; reflexivity]|].
      apply from_char_cons; apply H2; exact Hp.
Qed.

Lemma ptrunc_src cols items : forall col row,
  let ps := ptrunc_places measure remeasure cols items col row in
  Sub (map dcg ps) (map gr (map fst items) ++ [ellipsis]) /\
  forall p, In p ps -> from_char (map fst items) (snd p) \/ ellipsis_cell (snd p).
Proof.
  induction items as [|[ch st] t IH]; intros col row; cbn [ptrunc_places map fst].
  - split; [apply Sub_nil|intros p []].
  - destruct (col + 1 + cwidth ch >? cols).
    + split.
      * cbn [map app]. apply Sub_skip. change [dcg (col, row, mkCell ellipsis 1 st)] with ([] ++ [ellipsis]).
        apply Sub_app; [apply Sub_nil|apply Sub_refl].
      * intros p [<-|[]]. right; split; reflexivity.
    + destruct (IH (col + cwidth ch) row) as [H1 H2]. split.
      * cbn [map app]. apply Sub_cons; exact H1.
      * intros p [<-|Hp]; [left; exists ch; split; [left; reflexivity|split; reflexivity]|].
        destruct (H2 p Hp) as [H|H]; [left; apply from_char_cons; exact H|right; exact H].
Qed.

Lemma wrap_chars_src cols chars st : forall col row,
  let ps := fst (wrap_chars_places trailing cols chars st col row) in
  Sub (map dcg ps) (map gr chars) /\
  forall p, In p ps -> exists ch, In ch chars /\ cg (snd p) = gr ch /\ cw (snd p) = wd ch.
Proof.
  induction chars as [|ch t IH]; intros col row; cbn [wrap_chars_places map fst].
  - split; [apply Sub_nil|intros p []].
  - assert (Hskip : forall c2 r2, let ps := fst (wrap_chars_places trailing cols t st c2 r2) in
              Sub (map dcg ps) (gr ch :: map gr t) /\
              forall p, In p ps -> exists ch', In ch' (ch :: t) /\ cg (snd p) = gr ch' /\ cw (snd p) = wd ch').
    { intros c2 r2. destruct (IH c2 r2) as [H1 H2]. split; [apply Sub_skip; exact H1|].
      intros p Hp. destruct (H2 p Hp) as (x & Hx & H). exists x; split; [right; exact Hx|exact H]. }
    destruct (trailing (gr ch)); [apply Hskip|].
    destruct (fit cols col row (wd ch)) as [[c1 r1]|]; [|apply Hskip].
    cbn [fst].
    assert (Hrest : forall c2 r2, let ps := fst (wrap_chars_places trailing cols t st c2 r2) in
              Sub (map dcg ((c1, r1, mkCell (gr ch) (wd ch) st) :: ps)) (gr ch :: map gr t) /\
              forall p, In p ((c1, r1, mkCell (gr ch) (wd ch) st) :: ps) ->
                exists ch', In ch' (ch :: t) /\ cg (snd p) = gr ch' /\ cw (snd p) = wd ch').
    { intros c2 r2. destruct (IH c2 r2) as [H1 H2]. split.
      - cbn [map]. apply Sub_cons; exact H1.
      - intros p [<-|Hp]; [exists ch; split; [left; reflexivity|split; reflexivity]|].
        destruct (H2 p Hp) as (x & Hx & H). exists x; split; [right; exact Hx|exact H]. }
    destruct (c1 + wd ch >=? cols); apply Hrest.
Qed.

Lemma wrap_src cols rows lsegs : forall col row,
  let ps := fst (wrap_places measure remeasure trailing cols rows lsegs col row) in
  Sub (map dcg ps) (map gr (flat_map (fun ls => characters (fst ls)) lsegs)) /\
  forall p, In p ps -> from_char (flat_map (fun ls => characters (fst ls)) lsegs) (snd p).
Proof.
  induction lsegs as [|[cls st] t IH]; intros col row; cbn [wrap_places flat_map fst].
  - split; [apply Sub_nil|intros p []].
  - destruct (row >=? rows); [split; [apply Sub_nil|intros p []]|]. cbn [fst].
    set (chars := map (measured measure remeasure) (characters cls)).
    set (start := wrap_start cols (zsum (map wd chars)) col row).
    destruct (wrap_chars_src cols chars st (fst start) (snd start)) as [H1 H2].
    set (here := wrap_chars_places trailing cols chars st (fst start) (snd start)) in *.
    destruct (IH (fst (snd here)) (snd (snd here))) as [H3 H4].
    assert (Eg : map gr chars = map gr (characters cls)).
    { unfold chars. rewrite map_map. reflexivity. }
    split.
    + rewrite !map_app. apply Sub_app; [rewrite <- Eg; exact H1|exact H3].
    + intros p Hp. apply in_app_or in Hp as [Hp|Hp].
      * apply from_char_app_l. destruct (H2 p Hp) as (x & Hx & Hg & Hw).
        unfold chars in Hx. apply in_map_iff in Hx as (ch & <- & Hch).
        exists ch; split; [exact Hch|]. split; [exact Hg|exact Hw].
      * apply from_char_app_r. apply H4; exact Hp.
Qed.

(* every text helper: the graphemes placed are, in order, a subsequence of the clusters of
   the text (plus the final ellipsis of PrintTruncate), each cell is one whole cluster with
   the width of the measuring in force, and the placements are a walk in reading order *)
Lemma op_src w o :
  is_text_op o = true ->
  let ps := op_places measure remeasure trailing w o in
  Sub (map dcg ps) (op_expected o) /\
  (forall p, In p ps -> from_char (op_chars o) (snd p) \/ ellipsis_cell (snd p)) /\
  exists st en, path_ok st ps en.
Proof.
  destruct o as [| | | |segs|row segs|row segs|lsegs]; try discriminate; intros _;
    unfold op_expected; rewrite op_clusters_chars; cbn [op_places op_chars].
  - destruct (print_src (fw (wframe w)) (fh (wframe w)) (items_of segs) 0 0) as [H1 H2].
    split; [exact H1|]. split; [intros p Hp; left; apply H2; exact Hp|].
    exists (0, 0). eexists. rewrite print_places_gen. apply gen_path. reflexivity.
  - destruct (row >=? fh (wframe w)).
    + split; [apply Sub_nil|]. split; [intros p []|]. exists (0, 0), (0, 0). apply reach_refl.
    + destruct (ptrunc_src (fw (wframe w)) (items_of segs) 0 row) as [H1 H2].
      split; [exact H1|]. split; [exact H2|].
      destruct (ptrunc_layout measure remeasure (fw (wframe w)) (items_of segs) 0 row) as (_ & [en He] & _).
      exists (0, row), en. exact He.
  - destruct (row >=? fh (wframe w)).
    + split; [apply Sub_nil|]. split; [intros p []|]. exists (0, 0), (0, 0). apply reach_refl.
    + destruct (println_src (fw (wframe w)) (items_of segs) 0 row) as [H1 H2].
      split; [exact H1|]. split; [intros p Hp; left; apply H2; exact Hp|].
      destruct (println_layout measure remeasure (fw (wframe w)) (items_of segs) 0 row) as (_ & [en He] & _).
      exists (0, row), en. exact He.
  - destruct (wrap_src (fw (wframe w)) (fh (wframe w)) lsegs 0 0) as [H1 H2].
    split; [exact H1|]. split; [intros p Hp; left; apply H2; exact Hp|].
    exists (0, 0). eexists. apply wrap_places_path.
Qed.

(* The further clauses on any row-major list of cells a text helper CHANGED (whatever the
   screen held before): reading order, measured width, no overlap. *)
Lemma text_more_changed w s o s' ret d :
  WF s -> is_text_op o = true -> op_widths_ok measure remeasure o = true ->
  run_op_with measure remeasure trailing w s o = Some (s', ret) ->
  StronglySorted dlt d ->
  (forall x y c, In (x, y, c) d -> sget s' x y = Some c /\ sget s x y <> Some c) ->
  subseq (map dcg d) (op_expected o) = true /\
  (remeasure = true ->
   forallb (fun e => zlist_eqb (cg (snd e)) ellipsis || (cw (snd e) =? measure (cg (snd e)))) d = true) /\
  no_overlap d = true.
Proof.
  intros HWF Ht Hw Hrun Hs Hd.
  destruct (run_op_places measure remeasure trailing w s o) as (ret' & E).
  { destruct o; try discriminate; reflexivity. }
  rewrite E in Hrun.
  destruct (draw_exact w (op_places measure remeasure trailing w o) s HWF) as (s1 & E1 & _ & _ & Hget).
  rewrite E1 in Hrun. injection Hrun as <- _.
  destruct (op_src w o Ht) as (Hsub & Hcells & st & en & Hpath).
  set (ps := op_places measure remeasure trailing w o) in *.
  assert (Hlast : forall e, In e d ->
            last_at ps (fst (fst e) - fst (origin w)) (snd (fst e) - snd (origin w)) = Some (snd e)).
  { intros [[x y] c] He. cbn [fst snd]. destruct (Hd x y c He) as [Hn Ho]. rewrite Hget in Hn.
    destruct (visible w s x y); [|congruence].
    destruct (last_at ps (x - fst (origin w)) (y - snd (origin w))) as [c'|]; congruence. }
  assert (Hnn : forall p, In p ps -> 0 <= cw (snd p)).
  { intros p Hp. destruct (Hcells p Hp) as [(ch & Hch & _ & Hc)|[_ Hc]]; [|lia].
    unfold op_widths_ok in Hw. rewrite forallb_forall in Hw. specialize (Hw ch Hch). lia. }
  destruct (observed_order (fst (origin w)) (snd (origin w)) ps st en d Hpath Hnn Hs Hlast) as [HS HN].
  split; [apply subseq_complete; eapply Sub_trans; [exact HS|exact Hsub]|]. split; [|exact HN].
  intros Hrem. apply forallb_forall. intros e He.
  pose proof (Hlast e He) as Hl. apply last_at_some_in in Hl as (p & Hp & Hc & _). rewrite <- Hc.
  destruct (Hcells p Hp) as [(ch & _ & Hg & Hcw)|[Hg _]].
  - rewrite Hcw, Hg. unfold char_width. rewrite Hrem. rewrite Z.eqb_refl. apply orb_true_r.
  - rewrite Hg. reflexivity.
Qed.

End Sources.

(* ------------------------------------------------------------------ soundness of the predicates *)

Lemma more_holds_from bg cols rows ws rem tab o oc w orig d ret :
  window_of_frames (wchain w) = Some w ->
  (is_text_op o = true ->
   subseq (map dcg d) (op_expected o) = true /\
   (rem = true -> forallb (fun e => zlist_eqb (cg (snd e)) ellipsis || (cw (snd e) =? tab_measure tab (cg (snd e)))) d = true) /\
   no_overlap d = true) ->
  case_more_holds (mkCase cols rows bg ws rem tab o (mkObs oc (wchain w) orig d ret)) = true.
Proof.
  intros Hw H. unfold case_more_holds; cbn [c_obs o_frames c_op c_remeasure c_tab c_win o_diff]. rewrite Hw.
  destruct (is_text_op o); [|reflexivity]. destruct (H eq_refl) as (H1 & H2 & H3).
  change (map (fun d0 : Z * Z * cell => cg (snd d0)) d) with (map dcg d). rewrite H1, H3. cbn [andb].
  destruct rem; [rewrite (H2 eq_refl)|]; destruct (built_by_constructors ws); reflexivity.
Qed.

Lemma agrees_more_holds c :
  0 <= c_cols c -> 0 <= c_rows c -> case_widths_ok c = true ->
  case_agrees c = true -> case_more_holds c = true.
Proof.
  intros Hc Hr Hwd. unfold case_agrees.
  set (s := bg_screen (c_bg c) (c_cols c) (c_rows c)).
  set (w := build_window s (c_win c)).
  assert (HWF : WF s) by (apply bg_screen_WF; assumption).
  intros H. apply andb_prop in H as [H Hrun]. apply andb_prop in H as [H Horg]. apply andb_prop in H as [_ Hfr].
  apply (list_eqb_eq frame_eqb frame_eqb_eq) in Hfr.
  unfold run_op in Hrun.
  destruct (run_op_clipped (tab_measure (c_tab c)) (c_remeasure c) (tab_trailing (c_tab c)) w s (c_op c) HWF)
    as (s' & ret & E & Hwf' & Hd & Hout).
  rewrite E in Hrun. apply andb_prop in Hrun as [Hrun _]. apply andb_prop in Hrun as [Ho Hdiff].
  apply diff_eqb_eq in Hdiff.
  destruct c as [cols rows bg ws rem tab o [oc ofr oorg od oret]]; cbn [c_cols c_rows c_bg c_win c_remeasure c_tab c_op c_obs o_frames o_diff] in *.
  subst ofr od. apply more_holds_from; [apply window_of_frames_chain|]. intros Ht.
  apply (text_more_changed (tab_measure tab) rem (tab_trailing tab) w s o s' ret _ HWF Ht Hwd E).
  - apply screen_diff_sorted.
  - intros x y cl Hin. apply screen_diff_in in Hin as [Hg Hne]. split; [exact Hg|].
    intros Hs. apply sget_bg_screen in Hs. subst cl. rewrite cell_eqb_refl in Hne; discriminate.
Qed.

Lemma seq_agrees_more bg tab rem steps : forall s,
  WF s ->
  forallb (fun st : sstep => op_widths_ok (tab_measure tab) rem (snd (fst st))) steps = true ->
  seq_agrees_from bg tab rem s steps = true ->
  seq_more_from bg (scols s) (srows s) rem tab (screen_diff bg s) steps = true.
Proof.
  induction steps as [|[[ws o] ob] t IH]; intros s HWF Hwd; cbn [seq_agrees_from seq_more_from]; [reflexivity|].
  cbn [forallb fst snd] in Hwd. apply andb_prop in Hwd as [Hwd Hwdt].
  set (w := build_window s ws). intros H.
  apply andb_prop in H as [H Hrun]. apply andb_prop in H as [H Horg]. apply andb_prop in H as [_ Hfr].
  apply (list_eqb_eq frame_eqb frame_eqb_eq) in Hfr.
  unfold run_op in Hrun.
  destruct (run_op_clipped (tab_measure tab) rem (tab_trailing tab) w s o HWF) as (s' & ret & E & Hwf' & Hd & Hout).
  rewrite E in Hrun. apply andb_prop in Hrun as [Hrun Hrest]. apply andb_prop in Hrun as [Hrun _].
  apply andb_prop in Hrun as [Ho Hdiff]. apply diff_eqb_eq in Hdiff.
  cbn [snd o_diff]. rewrite <- Hdiff.
  destruct Hd as [Hd1 Hd2]. rewrite <- Hd1, <- Hd2. rewrite (IH s' Hwf' Hwdt Hrest), andb_true_r.
  rewrite Hd1, Hd2.
  assert (Hd' : same_dims s s') by (split; assumption).
  unfold step_more_holds. rewrite <- Hfr, <- Hdiff.
  apply more_holds_from; [apply window_of_frames_chain|]. intros Ht.
  apply (text_more_changed (tab_measure tab) rem (tab_trailing tab) w s o s' ret _ HWF Ht Hwd E).
  - apply changed_cells_sorted.
  - intros x y cl Hin. apply (changed_cells_screens bg s s' x y cl HWF Hwf' Hd') in Hin as (E1 & c0 & E0 & Hne).
    split; [exact E1|congruence].
Qed.

Lemma scase_agrees_more_holds c :
  0 <= q_cols c -> 0 <= q_rows c -> scase_widths_ok c = true ->
  scase_agrees c = true -> scase_more_holds c = true.
Proof.
  intros Hc Hr Hw H. unfold scase_agrees in H. unfold scase_more_holds.
  pose proof (seq_agrees_more (q_bg c) (q_tab c) (q_remeasure c) (q_steps c) _
                (bg_screen_WF (q_bg c) _ _ Hc Hr) Hw H) as H1.
  rewrite screen_diff_bg in H1. exact H1.
Qed.

(* ------------------------------------------------------------------ what the clauses say *)

(* [e2] lies after the whole glyph of [e1] in reading order *)
Definition after_glyph (e1 e2 : Z * Z * cell) : Prop :=
  snd (fst e1) < snd (fst e2) \/
  (snd (fst e1) = snd (fst e2) /\ fst (fst e1) + Z.max 0 (cw (snd e1)) <= fst (fst e2)).

Lemma after_glyph_trans e1 e2 e3 : after_glyph e1 e2 -> after_glyph e2 e3 -> after_glyph e1 e3.
Proof. unfold after_glyph; lia. Qed.

Lemma no_overlap_sorted d : no_overlap d = true -> StronglySorted after_glyph d.
Proof.
  intros H. apply Sorted_StronglySorted; [intros a b c; apply after_glyph_trans|].
  induction d as [|e d IH]; [constructor|].
  destruct d as [|e2 d']; [repeat constructor|].
  destruct e as [[x1 y1] c1], e2 as [[x2 y2] c2]. rewrite no_overlap_cons in H.
  apply andb_prop in H as [H1 H2]. constructor; [apply IH; exact H2|].
  constructor. unfold after_glyph; cbn [fst snd]. lia.
Qed.

(* The meaning of [case_more_holds] for a text helper, on the observation alone:
   - reading order: the graphemes of the changed cells, read row by row and left to right,
     occur in this order among the clusters of the text (then the ellipsis, for PrintTruncate);
   - never split: every changed cell holds one whole character of the text (a cluster, or
     one blank of an expanded tab) or the ellipsis;
   - when the terminal's measurement is in force the cell carries the measured width;
   - on constructed windows: any two changed cells of one row are apart by at least the
     width of the left one (left to right, advance by the cluster's width, no overlap). *)
Lemma more_holds_meaning c :
  case_more_holds c = true -> is_text_op (c_op c) = true ->
  let d := o_diff (c_obs c) in
  Sub (map dcg d) (op_expected (c_op c)) /\
  (forall e, In e d -> cg (snd e) = ellipsis \/ exists ch, In ch (op_chars (c_op c)) /\ cg (snd e) = gr ch) /\
  (c_remeasure c = true ->
   forall e, In e d -> cg (snd e) = ellipsis \/ cw (snd e) = tab_measure (c_tab c) (cg (snd e))) /\
  (built_by_constructors (c_win c) = true -> StronglySorted after_glyph d).
Proof.
  unfold case_more_holds. destruct (window_of_frames (o_frames (c_obs c))); [|discriminate].
  intros H Ht. rewrite Ht in H. apply andb_prop in H as [H H3]. apply andb_prop in H as [H1 H2].
  cbn zeta. apply subseq_sound in H1. change (map (fun d0 : Z * Z * cell => cg (snd d0)) (o_diff (c_obs c)))
    with (map dcg (o_diff (c_obs c))) in H1.
  split; [exact H1|]. split; [|split].
  - intros e He. assert (Hin : In (dcg e) (op_expected (c_op c))).
    { eapply Sub_In; [exact H1|]. apply in_map; exact He. }
    unfold op_expected in Hin. rewrite op_clusters_chars in Hin.
    assert (Hc : In (dcg e) (map gr (op_chars (c_op c))) \/ dcg e = ellipsis).
    { destruct (c_op c); try (left; exact Hin).
      apply in_app_or in Hin as [Hin|[Hin|[]]]; [left; exact Hin|right; symmetry; exact Hin]. }
    destruct Hc as [Hc|Hc]; [right|left; exact Hc].
    apply in_map_iff in Hc as (ch & Hg & Hch). exists ch; split; [exact Hch|symmetry; exact Hg].
  - intros Hr e He. rewrite Hr in H2. rewrite forallb_forall in H2. specialize (H2 e He).
    apply orb_prop in H2 as [H2|H2]; [left; apply zlist_eqb_eq; exact H2|right; lia].
  - intros Hb. rewrite Hb in H3. apply no_overlap_sorted; exact H3.
Qed.

(* ------------------------------------------------------------------ an agreeing observation is the
   trace of the layout: the cells that differ from the background afterwards are exactly the
   last cluster the walk [op_places] (reading order, fits: see the layout theorems) put at
   each point of the clip *)
Lemma agrees_trace c :
  0 <= c_cols c -> 0 <= c_rows c -> case_agrees c = true -> is_text_op (c_op c) = true ->
  let s := bg_screen (c_bg c) (c_cols c) (c_rows c) in
  let w := build_window s (c_win c) in
  let ps := op_places (tab_measure (c_tab c)) (c_remeasure c) (tab_trailing (c_tab c)) w (c_op c) in
  (exists st en, path_ok st ps en) /\
  (forall p, In p ps -> fits_in (fw (wframe w)) p) /\
  forall x y cl, In (x, y, cl) (o_diff (c_obs c)) <->
    visible w s x y = true /\ last_at ps (x - fst (origin w)) (y - snd (origin w)) = Some cl /\ cl <> c_bg c.
Proof.
  intros Hc Hr H Ht. cbn zeta. unfold case_agrees in H.
  set (s := bg_screen (c_bg c) (c_cols c) (c_rows c)) in *.
  set (w := build_window s (c_win c)) in *.
  assert (HWF : WF s) by (apply bg_screen_WF; assumption).
  apply andb_prop in H as [_ Hrun]. unfold run_op in Hrun.
  destruct (run_op_places (tab_measure (c_tab c)) (c_remeasure c) (tab_trailing (c_tab c)) w s (c_op c)) as (ret' & E).
  { destruct (c_op c); try discriminate; reflexivity. }
  rewrite E in Hrun.
  set (ps := op_places (tab_measure (c_tab c)) (c_remeasure c) (tab_trailing (c_tab c)) w (c_op c)) in *.
  destruct (draw_exact w ps s HWF) as (s1 & E1 & _ & _ & Hget). rewrite E1 in Hrun.
  apply andb_prop in Hrun as [Hrun _]. apply andb_prop in Hrun as [_ Hdiff]. apply diff_eqb_eq in Hdiff.
  destruct (op_src (tab_measure (c_tab c)) (c_remeasure c) (tab_trailing (c_tab c)) w (c_op c) Ht) as (_ & _ & Hpath).
  split; [exact Hpath|]. split; [intros p Hp; eapply op_places_fits; [exact Ht|exact Hp]|].
  intros x y cl. rewrite <- Hdiff. split.
  - intros Hin. apply screen_diff_in in Hin as [Hg Hne]. apply cell_eqb_neq in Hne.
    rewrite Hget in Hg.
    assert (Hbg : sget s x y = Some cl -> False) by (intros Hs; apply sget_bg_screen in Hs; contradiction).
    destruct (visible w s x y); [|contradiction]. split; [reflexivity|].
    destruct (last_at ps (x - fst (origin w)) (y - snd (origin w))) as [c'|]; [|contradiction].
    split; [exact Hg|exact Hne].
  - intros (HV & HL & Hne). apply screen_diff_in_conv.
    + rewrite Hget, HV, HL. reflexivity.
    + destruct (cell_eqb cl (c_bg c)) eqn:EC; [apply cell_eqb_eq in EC; contradiction|reflexivity].
Qed.

(* ------------------------------------------------------------------ the whole predicate *)

Lemma agrees_holds c :
  0 <= c_cols c -> 0 <= c_rows c -> case_widths_ok c = true -> case_agrees c = true -> case_holds c = true.
Proof.
  intros Hc Hr Hw H. unfold case_holds.
  rewrite (agrees_core_holds c Hc Hr H), (agrees_more_holds c Hc Hr Hw H). reflexivity.
Qed.

Lemma scase_agrees_holds c :
  0 <= q_cols c -> 0 <= q_rows c -> scase_widths_ok c = true -> scase_agrees c = true -> scase_holds c = true.
Proof.
  intros Hc Hr Hw H. unfold scase_holds.
  rewrite (scase_agrees_core_holds c Hc Hr H), (scase_agrees_more_holds c Hc Hr Hw H). reflexivity.
Qed.

(* what the differential run computes: no mismatch, hence no violation *)
Lemma draw_no_mismatch_no_violation cases : c11_draw_mismatches cases = [] -> c11_draw_violations cases = [].
Proof.
  unfold c11_draw_mismatches, c11_draw_violations, bad_indices. rewrite !bad_from_nil.
  intros H c Hin. specialize (H c Hin). apply negb_false_iff in H. apply andb_prop in H as [Ha Hi].
  unfold case_inputs_ok in Hi. apply andb_prop in Hi as [Hi Hw]. apply andb_prop in Hi as [Hc Hr].
  rewrite agrees_holds; [reflexivity|lia|lia|exact Hw|exact Ha].
Qed.

Lemma seq_no_mismatch_no_violation cases : c11_seq_mismatches cases = [] -> c11_seq_violations cases = [].
Proof.
  unfold c11_seq_mismatches, c11_seq_violations, bad_indices. rewrite !bad_from_nil.
  intros H c Hin. specialize (H c Hin). apply negb_false_iff in H. apply andb_prop in H as [Ha Hi].
  unfold scase_inputs_ok in Hi. apply andb_prop in Hi as [Hi Hw]. apply andb_prop in Hi as [Hc Hr].
  rewrite scase_agrees_holds; [reflexivity|lia|lia|exact Hw|exact Ha].
Qed.
