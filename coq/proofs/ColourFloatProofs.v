(* float64 arithmetic of color.go asIndex: the float comparison of two trial values follows the
   exact weighted distance whenever the exact distances differ, trial == 0 exactly for the zero
   difference, hence the float loop returns an entry at minimal exact distance for every table.
   No real numbers: IEEE-754 binary64 is the executable specification Floats.SpecFloat and all
   reasoning is on integer mantissas and exponents.

   Plan: (1) SpecFloat's shift-right-and-round (shr, round_nearest_even, binary_round_aux)
   characterised on Z: the result is a 53-bit mantissa within relative error 2^-53;
   (2) SFadd of two non-negative normal doubles: same bound; SFltb / SFeqb on such doubles are
   the comparisons of their values; (3) the 3 x 511 possible terms sq(float64(x)*c) are checked by
   computation to be within 2^-50 of weight*x^2/10^4; (4) linear arithmetic: trial is within 2^-49
   of the exact distance, while two different exact distances differ by at least 2^-29 relatively;
   (5) induction over the loop. *)
From Coq Require Import Floats.SpecFloat ZArith Lia Zpower.
From Vx Require Import base.Prelude base.ListX gen.GenPalette model.Colour proofs.ColourProofs.
From Vx Require Import model.ColourFloat.
Local Open Scope Z_scope.

(* ---------- number of binary digits ---------- *)
Lemma digits2_size p : digits2_pos p = Pos.size p.
Proof. induction p as [p IH|p IH|]; cbn; now rewrite ?IH. Qed.

Lemma digits_bounds p : 2 ^ (Z.pos (digits2_pos p) - 1) <= Z.pos p < 2 ^ Z.pos (digits2_pos p).
Proof.
  rewrite digits2_size. split.
  - pose proof (Pos.size_le p) as H.
    assert (H' : Z.pos (2 ^ Pos.size p) <= Z.pos p~0) by exact H.
    rewrite Pos2Z.inj_pow in H'.
    replace (Z.pos (Pos.size p)) with (Z.succ (Z.pos (Pos.size p) - 1)) in H' at 1 by lia.
    rewrite Z.pow_succ_r in H' by lia. lia.
  - pose proof (Pos.size_gt p) as H.
    assert (H' : Z.pos p < Z.pos (2 ^ Pos.size p)) by exact H.
    now rewrite Pos2Z.inj_pow in H'.
Qed.

Lemma digits_unique p d : 2 ^ (d - 1) <= Z.pos p < 2 ^ d -> Z.pos (digits2_pos p) = d.
Proof.
  intros [H1 H2]. pose proof (digits_bounds p) as [B1 B2].
  set (n := Z.pos (digits2_pos p)) in *. assert (0 < n) by (unfold n; lia).
  destruct (Z.lt_trichotomy n d) as [L|[L|L]]; [|assumption|]; exfalso.
  - assert (2 ^ n <= 2 ^ (d - 1)) by (apply Z.pow_le_mono_r; lia). lia.
  - assert (d < 0 \/ 0 <= d) as [D|D] by lia.
    + rewrite (Z.pow_neg_r 2 d) in H2 by lia. lia.
    + assert (2 ^ d <= 2 ^ (n - 1)) by (apply Z.pow_le_mono_r; lia). lia.
Qed.

Lemma shr_1_nonneg m r s : 0 <= m ->
  shr_1 {| shr_m := m; shr_r := r; shr_s := s |} = {| shr_m := m / 2; shr_r := Z.odd m; shr_s := r || s |}.
Proof.
  intros Hm. rewrite <- Z.div2_div.
  destruct m as [|[p|p|]|p]; try reflexivity. lia.
Qed.

Fixpoint niter {A} (n : nat) (f : A -> A) (x : A) : A :=
  match n with O => x | S k => f (niter k f x) end.

Lemma nat_iter_plus {A} (f : A -> A) a b x : niter (a + b) f x = niter a f (niter b f x).
Proof. induction a as [|a IH]; cbn; [reflexivity|now rewrite IH]. Qed.

Lemma nat_iter_comm {A} (f : A -> A) a x : niter a f (f x) = f (niter a f x).
Proof. induction a as [|a IH]; cbn; [reflexivity|now rewrite IH]. Qed.

Lemma iter_pos_nat {A} (f : A -> A) n : forall x, SpecFloat.iter_pos f n x = niter (Pos.to_nat n) f x.
Proof.
  induction n as [n IH|n IH|]; intros x; cbn [SpecFloat.iter_pos].
  - rewrite !IH, Pos2Nat.inj_xI. cbn [niter Nat.mul]. rewrite Nat.add_0_r, nat_iter_plus, nat_iter_comm.
    now rewrite nat_iter_comm.
  - rewrite !IH, Pos2Nat.inj_xO. cbn [Nat.mul]. now rewrite Nat.add_0_r, nat_iter_plus.
  - reflexivity.
Qed.

(* what is known about the record after shifting [M] right by [k] bits *)
Definition after (M k : Z) (rec : shr_record) : Prop :=
  let rem := M mod 2 ^ k in
  shr_m rec = M / 2 ^ k /\
  (shr_r rec = false -> 2 * rem < 2 ^ k) /\
  (shr_r rec = true -> 2 ^ k <= 2 * rem) /\
  (shr_r rec = true -> shr_s rec = false -> 2 * rem = 2 ^ k) /\
  (shr_r rec = false -> shr_s rec = false -> rem = 0).

Lemma after_0 M : after M 0 {| shr_m := M; shr_r := false; shr_s := false |}.
Proof.
  unfold after; cbn [shr_m shr_r shr_s]. rewrite Z.pow_0_r, Z.div_1_r, Z.mod_1_r.
  repeat split; intros; try lia; discriminate.
Qed.

Lemma after_step M k rec : 0 <= M -> 0 <= k -> after M k rec -> after M (k + 1) (shr_1 rec).
Proof.
  intros HM Hk. destruct rec as [m r s]. unfold after; cbn [shr_m shr_r shr_s].
  intros (Hm & H1 & H2 & H3 & H4). subst m.
  assert (HP : 0 < 2 ^ k) by (apply Z.pow_pos_nonneg; lia).
  rewrite shr_1_nonneg by (apply Z.div_pos; lia). cbn [shr_m shr_r shr_s].
  replace (k + 1) with (Z.succ k) by lia. rewrite Z.pow_succ_r by lia.
  rewrite (Z.mul_comm 2 (2 ^ k)).
  rewrite Z.rem_mul_r by lia. rewrite <- Z.div_div by lia.
  rewrite Zmod_odd.
  pose proof (Z.mod_pos_bound M (2 ^ k) HP) as Hb.
  set (q := M / 2 ^ k) in *. set (rem := M mod 2 ^ k) in *. set (P := 2 ^ k) in *.
  destruct (Z.odd q); destruct r; destruct s; cbn [orb];
    repeat split; intros; try discriminate; try lia;
    try (specialize (H1 eq_refl)); try (specialize (H2 eq_refl)); try lia;
    try (specialize (H4 eq_refl eq_refl)); try lia.
Qed.

Lemma after_iter M (n : nat) : 0 <= M ->
  after M (Z.of_nat n) (niter n shr_1 {| shr_m := M; shr_r := false; shr_s := false |}).
Proof.
  intros HM. induction n as [|n IH].
  - apply after_0.
  - rewrite Nat2Z.inj_succ. cbn [niter]. replace (Z.succ (Z.of_nat n)) with (Z.of_nat n + 1) by lia.
    apply after_step; [assumption|lia|assumption].
Qed.

Lemma shr_spec M E (k : Z) : 0 <= M -> 0 < k ->
  exists rec, shr {| shr_m := M; shr_r := false; shr_s := false |} E k = (rec, E + k) /\ after M k rec.
Proof.
  intros HM Hk. destruct k as [|p|p]; try lia.
  eexists; split; [reflexivity|].
  rewrite iter_pos_nat. rewrite <- (positive_nat_Z p). now apply after_iter.
Qed.

Lemma round_ne_bounds M k rec : 0 <= M -> 0 < k -> after M k rec ->
  let q' := round_nearest_even (shr_m rec) (loc_of_shr_record rec) in
  M / 2 ^ k <= q' <= M / 2 ^ k + 1 /\ 2 * Z.abs (q' * 2 ^ k - M) <= 2 ^ k.
Proof.
  intros HM Hk (Hm & H1 & H2 & H3 & H4).
  assert (HP : 0 < 2 ^ k) by (apply Z.pow_pos_nonneg; lia).
  pose proof (Z.div_mod M (2 ^ k) ltac:(lia)) as Hdm.
  pose proof (Z.mod_pos_bound M (2 ^ k) HP) as Hb.
  destruct rec as [m r s]; cbn [shr_m shr_r shr_s] in *. subst m.
  set (q := M / 2 ^ k) in *. set (rem := M mod 2 ^ k) in *. set (P := 2 ^ k) in *.
  destruct r; destruct s; cbn [loc_of_shr_record round_nearest_even]; cbv zeta.
  - specialize (H2 eq_refl). split; [lia|]. nia.
  - specialize (H2 eq_refl). specialize (H3 eq_refl eq_refl). destruct (Z.even q); split; try lia; nia.
  - specialize (H1 eq_refl). split; [lia|]. nia.
  - specialize (H1 eq_refl). split; [lia|]. nia.
Qed.

Lemma pow2_split a b : 0 <= a -> 0 <= b -> 2 ^ (a + b) = 2 ^ a * 2 ^ b.
Proof. intros; now rewrite Z.pow_add_r. Qed.

Lemma round_aux_spec (M : positive) (E : Z) :
  let d := Z.pos (digits2_pos M) in
  53 <= d -> -1074 <= E + d - 53 -> E + d - 52 <= 971 ->
  exists m2 e2, binary_round_aux 53 1024 false (Z.pos M) E loc_Exact = S754_finite false m2 e2 /\
     Z.pos (digits2_pos m2) = 53 /\ E <= e2 <= E + d - 52 /\
     2 ^ 53 * Z.abs (Z.pos m2 * 2 ^ (e2 - E) - Z.pos M) <= Z.pos M.
Proof.
  intros d. assert (Hdd : Z.pos (digits2_pos M) = d) by reflexivity. clearbody d. intros Hd Hlo Hhi.
  pose proof (digits_bounds M) as HB. rewrite Hdd in HB.
  unfold binary_round_aux, shr_fexp. cbn [shr_record_of_loc Zdigits2]. rewrite Hdd.
  unfold fexp, emin. rewrite Z.max_l by lia.
  replace (d + E - 53 - E) with (d - 53) by lia.
  destruct (Z.eq_dec d 53) as [D53|D53].
  - (* no shift *)
    rewrite D53. change (53 - 53) with 0. cbn [shr shr_m shr_r shr_s loc_of_shr_record round_nearest_even Zdigits2].
    rewrite Hdd, D53. rewrite Z.max_l by lia.
    replace (53 + E - 53 - E) with 0 by lia. cbn [shr shr_m].
    replace (E <=? 1024 - 53) with true by (symmetry; apply Z.leb_le; lia).
    exists M, E. split; [reflexivity|]. split; [lia|]. split; [lia|].
    rewrite Z.sub_diag, Z.pow_0_r. replace (Z.pos M * 1 - Z.pos M) with 0 by lia. cbn. lia.
  - set (k := d - 53). assert (Hk : 0 < k) by (unfold k; lia).
    destruct (shr_spec (Z.pos M) E k ltac:(lia) Hk) as (rec & Hs & Haf). rewrite Hs.
    pose proof (round_ne_bounds (Z.pos M) k rec ltac:(lia) Hk Haf) as Hq. cbv zeta in Hq.
    set (q' := round_nearest_even (shr_m rec) (loc_of_shr_record rec)) in *.
    assert (HP : 0 < 2 ^ k) by (apply Z.pow_pos_nonneg; lia).
    (* M lies in [2^(52+k), 2^(53+k)) *)
    assert (E1 : 2 ^ (d - 1) = 2 ^ 52 * 2 ^ k) by (replace (d - 1) with (52 + k) by (unfold k; lia); apply pow2_split; lia).
    assert (E2 : 2 ^ d = 2 ^ 53 * 2 ^ k) by (replace d with (53 + k) at 1 by (unfold k; lia); apply pow2_split; lia).
    rewrite E1, E2 in HB.
    assert (Hq0 : 2 ^ 52 <= Z.pos M / 2 ^ k < 2 ^ 53).
    { split; [apply Z.div_le_lower_bound; lia | apply Z.div_lt_upper_bound; lia]. }
    destruct Hq as [[Hq1 Hq2] Hq3].
    change (2 ^ 52) with 4503599627370496 in *. change (2 ^ 53) with 9007199254740992 in *.
    destruct q' as [|p'|p'] eqn:Eq'; try lia.
    cbn [Zdigits2].
    destruct (Z.eq_dec (Z.pos p') 9007199254740992) as [Top|Top].
    + (* the increment carried into the next binade *)
      injection Top as Top. subst p'.
      cbn [digits2_pos Pos.succ]. rewrite Z.max_l by lia.
      replace (54 + (E + k) - 53 - (E + k)) with 1 by lia.
      cbn [shr SpecFloat.iter_pos shr_1 shr_m].
      replace (E + k + 1 <=? 1024 - 53) with true by (symmetry; apply Z.leb_le; unfold k; lia).
      eexists _, _. split; [reflexivity|]. split; [reflexivity|]. split; [unfold k; lia|].
      replace (E + k + 1 - E) with (Z.succ k) by lia. rewrite Z.pow_succ_r by lia.
      set (P := 2 ^ k) in *. lia.
    + assert (D' : Z.pos (digits2_pos p') = 53) by (apply digits_unique; change (2 ^ (53 - 1)) with 4503599627370496; change (2 ^ 53) with 9007199254740992; lia).
      rewrite D'. rewrite Z.max_l by (unfold k; lia).
      replace (53 + (E + k) - 53 - (E + k)) with 0 by lia. cbn [shr shr_m].
      replace (E + k <=? 1024 - 53) with true by (symmetry; apply Z.leb_le; unfold k; lia).
      exists p', (E + k). split; [reflexivity|]. split; [exact D'|]. split; [unfold k; lia|].
      replace (E + k - E) with k by lia.
      set (P := 2 ^ k) in *. lia.
Qed.

(* value of a non-negative finite double, scaled by 2^64 (all exponents met here are >= -64) *)
Definition sfval (f : spec_float) : Z :=
  match f with S754_finite false m e => Z.pos m * 2 ^ (e + 64) | _ => 0 end.

(* +0, or a positive normal double with exponent in [-64, u] *)
Definition goodb (u : Z) (f : spec_float) : bool :=
  match f with
  | S754_zero false => true
  | S754_finite false m e => (Z.pos (digits2_pos m) =? 53) && (-64 <=? e) && (e <=? u)
  | _ => false
  end.

Lemma goodb_mono u u' f : u <= u' -> goodb u f = true -> goodb u' f = true.
Proof.
  intros Hu. destruct f as [[|]|[|]| |[|] m e]; cbn [goodb]; try congruence.
  intros H. apply andb_prop in H as [H H3]. apply andb_prop in H as [H1 H2].
  rewrite H1, H2. cbn [andb]. apply Z.leb_le. apply Z.leb_le in H3. lia.
Qed.

Lemma goodb_fin u m e : goodb u (S754_finite false m e) = true ->
  Z.pos (digits2_pos m) = 53 /\ -64 <= e <= u /\ 2 ^ 52 <= Z.pos m < 2 ^ 53.
Proof.
  cbn [goodb]. intros H. apply andb_prop in H as [H H3]. apply andb_prop in H as [H1 H2].
  apply Z.eqb_eq in H1. apply Z.leb_le in H2, H3. pose proof (digits_bounds m) as HB. rewrite H1 in HB.
  change (53 - 1) with 52 in HB. repeat split; lia.
Qed.

Lemma sfval_nonneg f : 0 <= sfval f.
Proof. destruct f as [s|s| |[|] m e]; cbn [sfval]; lia. Qed.

Lemma sfval_pos u m e : goodb u (S754_finite false m e) = true -> 0 < sfval (S754_finite false m e).
Proof. intros H. apply goodb_fin in H as (_ & He & _). cbn [sfval]. apply Z.mul_pos_pos; [lia|apply Z.pow_pos_nonneg; lia]. Qed.

Lemma shl_align_fst m e e' : e' <= e -> Z.pos (fst (shl_align m e e')) = Z.pos m * 2 ^ (e - e').
Proof.
  intros H. unfold shl_align. destruct (e' - e) as [|d|d] eqn:Ed; cbn [fst].
  - replace (e - e') with 0 by lia. rewrite Z.pow_0_r. lia.
  - lia.
  - rewrite shift_pos_correct. replace (e - e') with (Z.pos d) by lia.
    unfold Z.pow. rewrite Z.mul_comm. reflexivity.
Qed.

Lemma shl_align_id m e e' : e <= e' -> shl_align m e e' = (m, e).
Proof. intros H. unfold shl_align. destruct (e' - e) as [|d|d] eqn:Ed; try reflexivity. lia. Qed.

Lemma pow2_le a b : 0 <= a <= b -> 2 ^ a <= 2 ^ b.
Proof. intros; apply Z.pow_le_mono_r; lia. Qed.

(* one float64 addition of two good values: good again, relative error at most 2^-53 *)
Lemma add_good u x y : u <= 900 -> goodb u x = true -> goodb u y = true ->
  goodb (u + 2) (f64add x y) = true /\
  2 ^ 53 * Z.abs (sfval (f64add x y) - (sfval x + sfval y)) <= sfval x + sfval y.
Proof.
  intros Hu Hx Hy.
  destruct x as [[|]|[|]| |[|] mx ex]; try discriminate Hx;
  destruct y as [[|]|[|]| |[|] my ey]; try discriminate Hy; unfold f64add, SFadd; cbn [Bool.eqb].
  - split; [reflexivity|]. cbn. lia.
  - split; [eapply goodb_mono; [|exact Hy]; lia|].
    pose proof (sfval_nonneg (S754_finite false my ey)).
    replace (sfval (S754_finite false my ey) - (sfval (S754_zero false) + sfval (S754_finite false my ey))) with 0 by (cbn [sfval]; lia).
    cbn [Z.abs sfval]. cbn [sfval] in H. lia.
  - split; [eapply goodb_mono; [|exact Hx]; lia|].
    pose proof (sfval_nonneg (S754_finite false mx ex)).
    replace (sfval (S754_finite false mx ex) - (sfval (S754_finite false mx ex) + sfval (S754_zero false))) with 0 by (cbn [sfval]; lia).
    cbn [Z.abs sfval]. cbn [sfval] in H. lia.
  - apply goodb_fin in Hx as (Dx & Hex & Bx). apply goodb_fin in Hy as (Dy & Hey & By).
    cbn [cond_Zopp]. set (ez := Z.min ex ey).
    assert (Hzx : ez <= ex) by (unfold ez; lia). assert (Hzy : ez <= ey) by (unfold ez; lia).
    pose proof (shl_align_fst mx ex ez Hzx) as Ha. pose proof (shl_align_fst my ey ez Hzy) as Hb.
    set (a := fst (shl_align mx ex ez)) in *. set (b := fst (shl_align my ey ez)) in *.
    change (Z.pos a + Z.pos b) with (Z.pos (a + b)). cbn [binary_normalize]. unfold binary_round.
    (* bounds on the exact sum a + b *)
    set (D := Z.max ex ey - ez).
    assert (HD : 0 <= D) by (unfold D, ez; lia).
    assert (Pa : 2 ^ (ex - ez) <= 2 ^ D) by (apply pow2_le; unfold D; lia).
    assert (Pb : 2 ^ (ey - ez) <= 2 ^ D) by (apply pow2_le; unfold D; lia).
    assert (Pa1 : 1 <= 2 ^ (ex - ez)) by (change 1 with (2 ^ 0); apply pow2_le; lia).
    assert (Pb1 : 1 <= 2 ^ (ey - ez)) by (change 1 with (2 ^ 0); apply pow2_le; lia).
    change (2 ^ 52) with 4503599627370496 in *. change (2 ^ 53) with 9007199254740992 in *.
    assert (Hlow : 4503599627370496 <= Z.pos (a + b)) by (rewrite Pos2Z.inj_add; nia).
    assert (Hupp : Z.pos (a + b) < 2 ^ (54 + D)).
    { rewrite pow2_split by lia. change (2 ^ 54) with 18014398509481984. rewrite Pos2Z.inj_add.
      set (PD := 2 ^ D) in *. nia. }
    pose proof (digits_bounds (a + b)) as HB. set (d := Z.pos (digits2_pos (a + b))) in *.
    assert (Hd53 : 53 <= d).
    { destruct (Z.le_gt_cases 53 d) as [L|L]; [assumption|exfalso].
      assert (2 ^ d <= 2 ^ 52) by (apply pow2_le; unfold d; lia).
      change (2 ^ 52) with 4503599627370496 in *. lia. }
    assert (Hd54 : d <= 54 + D).
    { destruct (Z.le_gt_cases d (54 + D)) as [L|L]; [assumption|exfalso].
      assert (2 ^ (54 + D) <= 2 ^ (d - 1)) by (apply pow2_le; lia). lia. }
    rewrite shl_align_id by (unfold fexp, emin; fold d; lia).
    destruct (round_aux_spec (a + b) ez) as (m2 & e2 & Hr & D2 & He2 & Herr); fold d; try (unfold D in *; lia).
    rewrite Hr. split.
    + cbn [goodb]. rewrite D2. fold d in He2. cbn [Z.eqb Pos.eqb andb].
      apply andb_true_intro; split; apply Z.leb_le; unfold D in *; lia.
    + cbn [sfval]. fold d in He2.
      set (S := 2 ^ (ez + 64)).
      assert (HS : 0 < S) by (apply Z.pow_pos_nonneg; lia).
      assert (Ex : Z.pos mx * 2 ^ (ex + 64) = Z.pos a * S).
      { rewrite Ha. unfold S. replace (ex + 64) with ((ex - ez) + (ez + 64)) by lia. rewrite pow2_split by lia. ring. }
      assert (Ey : Z.pos my * 2 ^ (ey + 64) = Z.pos b * S).
      { rewrite Hb. unfold S. replace (ey + 64) with ((ey - ez) + (ez + 64)) by lia. rewrite pow2_split by lia. ring. }
      assert (Ez : Z.pos m2 * 2 ^ (e2 + 64) = Z.pos m2 * 2 ^ (e2 - ez) * S).
      { unfold S. replace (e2 + 64) with ((e2 - ez) + (ez + 64)) by lia. rewrite pow2_split by lia. ring. }
      rewrite Ex, Ey, Ez. rewrite Pos2Z.inj_add in Herr.
      replace (Z.pos m2 * 2 ^ (e2 - ez) * S - (Z.pos a * S + Z.pos b * S))
        with (S * (Z.pos m2 * 2 ^ (e2 - ez) - (Z.pos a + Z.pos b))) by ring.
      rewrite Z.abs_mul, (Z.abs_eq S) by lia.
      set (t := Z.abs (Z.pos m2 * 2 ^ (e2 - ez) - (Z.pos a + Z.pos b))) in *.
      nia.
Qed.

(* float comparison of good values is comparison of their values *)
Lemma ltb_good u x y : goodb u x = true -> goodb u y = true -> f64ltb x y = (sfval x <? sfval y).
Proof.
  intros Hx Hy.
  destruct x as [[|]|[|]| |[|] mx ex]; try discriminate Hx;
  destruct y as [[|]|[|]| |[|] my ey]; try discriminate Hy; unfold f64ltb, SFltb, SFcompare.
  - reflexivity.
  - pose proof (sfval_pos _ _ _ Hy). symmetry. apply Z.ltb_lt. cbn [sfval] in *. lia.
  - pose proof (sfval_pos _ _ _ Hx). symmetry. apply Z.ltb_ge. cbn [sfval] in *. lia.
  - apply goodb_fin in Hx as (Dx & Hex & Bx). apply goodb_fin in Hy as (Dy & Hey & By).
    cbn [sfval]. change (2 ^ 52) with 4503599627370496 in *. change (2 ^ 53) with 9007199254740992 in *.
    destruct (Z.compare_spec ex ey) as [Heq|Hlt|Hgt].
    + subst ey. assert (HS : 0 < 2 ^ (ex + 64)) by (apply Z.pow_pos_nonneg; lia).
      set (S := 2 ^ (ex + 64)) in *.
      change (Pcompare mx my Eq) with (Z.pos mx ?= Z.pos my).
      destruct (Z.compare_spec (Z.pos mx) (Z.pos my)) as [H|H|H]; symmetry.
      * apply Z.ltb_ge. rewrite H. apply Z.le_refl.
      * apply Z.ltb_lt. nia.
      * apply Z.ltb_ge. nia.
    + symmetry. apply Z.ltb_lt.
      replace (ey + 64) with ((ey - ex) + (ex + 64)) by lia. rewrite (pow2_split (ey - ex) (ex + 64)) by lia.
      assert (HS : 0 < 2 ^ (ex + 64)) by (apply Z.pow_pos_nonneg; lia).
      assert (2 ^ 1 <= 2 ^ (ey - ex)) by (apply pow2_le; lia). change (2 ^ 1) with 2 in *.
      set (S := 2 ^ (ex + 64)) in *. set (T := 2 ^ (ey - ex)) in *.
      assert (A1 : Z.pos mx * S < 9007199254740992 * S) by (apply Z.mul_lt_mono_pos_r; lia).
      assert (A0 : 0 < Z.pos my * S) by (apply Z.mul_pos_pos; lia).
      assert (A2 : 2 * (Z.pos my * S) <= T * (Z.pos my * S)) by (apply Z.mul_le_mono_nonneg_r; lia).
      assert (A3 : 9007199254740992 * S <= 2 * (Z.pos my * S)) by nia.
      replace (Z.pos my * (T * S)) with (T * (Z.pos my * S)) by ring. lia.
    + symmetry. apply Z.ltb_ge.
      replace (ex + 64) with ((ex - ey) + (ey + 64)) by lia. rewrite (pow2_split (ex - ey) (ey + 64)) by lia.
      assert (HS : 0 < 2 ^ (ey + 64)) by (apply Z.pow_pos_nonneg; lia).
      assert (2 ^ 1 <= 2 ^ (ex - ey)) by (apply pow2_le; lia). change (2 ^ 1) with 2 in *.
      set (S := 2 ^ (ey + 64)) in *. set (T := 2 ^ (ex - ey)) in *.
      assert (A1 : Z.pos my * S < 9007199254740992 * S) by (apply Z.mul_lt_mono_pos_r; lia).
      assert (A0 : 0 < Z.pos mx * S) by (apply Z.mul_pos_pos; lia).
      assert (A2 : 2 * (Z.pos mx * S) <= T * (Z.pos mx * S)) by (apply Z.mul_le_mono_nonneg_r; lia).
      assert (A3 : 9007199254740992 * S <= 2 * (Z.pos mx * S)) by nia.
      replace (Z.pos mx * (T * S)) with (T * (Z.pos mx * S)) by ring. lia.
Qed.

Lemma eqb_zero_good u x : goodb u x = true -> f64eqb x f64zero = (sfval x =? 0).
Proof.
  intros Hx. destruct x as [[|]|[|]| |[|] mx ex]; try discriminate Hx; unfold f64eqb, SFeqb, SFcompare, f64zero.
  - reflexivity.
  - pose proof (sfval_pos _ _ _ Hx). symmetry. apply Z.eqb_neq. lia.
Qed.

Lemma ltb_inf_good u x : goodb u x = true -> f64ltb x f64inf = true.
Proof. intros Hx. destruct x as [[|]|[|]| |[|] mx ex]; try discriminate Hx; reflexivity. Qed.

Lemma zseq_in n : forall a x, In x (zseq a n) <-> a <= x < a + Z.of_nat n.
Proof.
  induction n as [|n IH]; intros a x; cbn [zseq In].
  - lia.
  - rewrite IH. lia.
Qed.

Definition sf_eqb (a b : spec_float) : bool :=
  match a, b with
  | S754_zero s, S754_zero s' => Bool.eqb s s'
  | S754_infinity s, S754_infinity s' => Bool.eqb s s'
  | S754_nan, S754_nan => true
  | S754_finite s m e, S754_finite s' m' e' => Bool.eqb s s' && (Z.pos m =? Z.pos m') && (e =? e')
  | _, _ => false
  end.

Lemma sf_eqb_eq a b : sf_eqb a b = true -> a = b.
Proof.
  destruct a as [s|s| |s m e]; destruct b as [s'|s'| |s' m' e']; cbn [sf_eqb]; try discriminate; intros H.
  - apply Bool.eqb_prop in H; now subst.
  - apply Bool.eqb_prop in H; now subst.
  - reflexivity.
  - apply andb_prop in H as [H H3]. apply andb_prop in H as [H1 H2].
    apply Bool.eqb_prop in H1. apply Z.eqb_eq in H2, H3. injection H2 as H2. now subst.
Qed.

(* a term value t approximates W/10^4 (W = weight * x^2) with relative error 2^-50 *)
Definition approx50 (W : Z) (t : spec_float) : bool :=
  goodb (-30) t && (2 ^ 50 * Z.abs (10000 * sfval t - W * 2 ^ 64) <=? W * 2 ^ 64).

Definition term_chk (c : spec_float) (w : Z) (tab : list spec_float) (x : Z) : bool :=
  approx50 (w * (x * x)) (fterm c x) && sf_eqb (tget tab x) (fterm c x).

(* the finite tables: 511 differences per channel *)
Lemma term_tables :
  forallb (term_chk c30 900 tabR) (zseq (-255) 511) = true /\
  forallb (term_chk c59 3481 tabG) (zseq (-255) 511) = true /\
  forallb (term_chk c11 121 tabB) (zseq (-255) 511) = true.
Proof. vm_compute. repeat split. Qed.

Lemma term_facts x : -255 <= x <= 255 ->
  (approx50 (900 * (x * x)) (fterm c30 x) = true /\ tget tabR x = fterm c30 x) /\
  (approx50 (3481 * (x * x)) (fterm c59 x) = true /\ tget tabG x = fterm c59 x) /\
  (approx50 (121 * (x * x)) (fterm c11 x) = true /\ tget tabB x = fterm c11 x).
Proof.
  intros Hx. destruct term_tables as (T1 & T2 & T3).
  assert (Hin : In x (zseq (-255) 511)) by (apply zseq_in; lia).
  rewrite forallb_forall in T1, T2, T3.
  specialize (T1 x Hin). specialize (T2 x Hin). specialize (T3 x Hin).
  unfold term_chk in *.
  apply andb_prop in T1 as [A1 B1]. apply andb_prop in T2 as [A2 B2]. apply andb_prop in T3 as [A3 B3].
  apply sf_eqb_eq in B1, B2, B3. auto.
Qed.

Lemma approx50_spec W t : approx50 W t = true ->
  goodb (-30) t = true /\ 1125899906842624 * Z.abs (10000 * sfval t - W * 18446744073709551616) <= W * 18446744073709551616.
Proof. unfold approx50. intros H. apply andb_prop in H as [H1 H2]. apply Z.leb_le in H2. auto. Qed.

(* trial is good and within relative error 2^-49 of the exact weighted distance *)
Lemma fdist_bound dr dg db : -255 <= dr <= 255 -> -255 <= dg <= 255 -> -255 <= db <= 255 ->
  goodb (-26) (fdist dr dg db) = true /\
  562949953421312 * Z.abs (10000 * sfval (fdist dr dg db) - wd dr dg db * 18446744073709551616)
    <= wd dr dg db * 18446744073709551616.
Proof.
  intros Hr Hg Hb. unfold fdist, wd.
  destruct (term_facts dr Hr) as ((A1 & _) & _ & _).
  destruct (term_facts dg Hg) as (_ & (A2 & _) & _).
  destruct (term_facts db Hb) as (_ & _ & (A3 & _)).
  apply approx50_spec in A1 as [G1 A1]. apply approx50_spec in A2 as [G2 A2]. apply approx50_spec in A3 as [G3 A3].
  set (a := fterm c30 dr) in *. set (b := fterm c59 dg) in *. set (c := fterm c11 db) in *.
  destruct (add_good (-30) a b ltac:(lia) G1 G2) as [G12 E12].
  set (s1 := f64add a b) in *.
  assert (G3' : goodb (-30 + 2) c = true) by (eapply goodb_mono; [|exact G3]; lia).
  destruct (add_good (-30 + 2) s1 c ltac:(lia) G12 G3') as [G123 E123].
  split; [exact G123|].
  change (2 ^ 53) with 9007199254740992 in *.
  pose proof (sfval_nonneg a). pose proof (sfval_nonneg b). pose proof (sfval_nonneg c).
  set (va := sfval a) in *. set (vb := sfval b) in *. set (vc := sfval c) in *.
  set (v1 := sfval s1) in *. set (v2 := sfval (f64add s1 c)) in *.
  set (A := dr * dr) in *. set (B := dg * dg) in *. set (C := db * db) in *.
  lia.
Qed.

Lemma wd_range dr dg db : -255 <= dr <= 255 -> -255 <= dg <= 255 -> -255 <= db <= 255 ->
  0 <= wd dr dg db <= 292742550.
Proof. intros; unfold wd. nia. Qed.

(* the exact order decides the float order *)
Theorem fdist_lt dr dg db er eg eb :
  -255 <= dr <= 255 -> -255 <= dg <= 255 -> -255 <= db <= 255 ->
  -255 <= er <= 255 -> -255 <= eg <= 255 -> -255 <= eb <= 255 ->
  wd dr dg db < wd er eg eb -> f64ltb (fdist dr dg db) (fdist er eg eb) = true.
Proof.
  intros H1 H2 H3 H4 H5 H6 Hlt.
  destruct (fdist_bound dr dg db H1 H2 H3) as [Ga Ea].
  destruct (fdist_bound er eg eb H4 H5 H6) as [Gb Eb].
  rewrite (ltb_good _ _ _ Ga Gb). apply Z.ltb_lt.
  pose proof (wd_range dr dg db H1 H2 H3). pose proof (wd_range er eg eb H4 H5 H6).
  set (x := sfval (fdist dr dg db)) in *. set (y := sfval (fdist er eg eb)) in *.
  set (X := wd dr dg db) in *. set (Y := wd er eg eb) in *. lia.
Qed.

Theorem fdist_ltb_false dr dg db er eg eb :
  -255 <= dr <= 255 -> -255 <= dg <= 255 -> -255 <= db <= 255 ->
  -255 <= er <= 255 -> -255 <= eg <= 255 -> -255 <= eb <= 255 ->
  wd er eg eb < wd dr dg db -> f64ltb (fdist dr dg db) (fdist er eg eb) = false.
Proof.
  intros H1 H2 H3 H4 H5 H6 Hlt.
  destruct (fdist_bound dr dg db H1 H2 H3) as [Ga Ea].
  destruct (fdist_bound er eg eb H4 H5 H6) as [Gb Eb].
  rewrite (ltb_good _ _ _ Ga Gb). apply Z.ltb_ge.
  pose proof (wd_range dr dg db H1 H2 H3). pose proof (wd_range er eg eb H4 H5 H6).
  set (x := sfval (fdist dr dg db)) in *. set (y := sfval (fdist er eg eb)) in *.
  set (X := wd dr dg db) in *. set (Y := wd er eg eb) in *. lia.
Qed.

Lemma wd_zero dr dg db : wd dr dg db = 0 <-> dr = 0 /\ dg = 0 /\ db = 0.
Proof. unfold wd. split; [nia|]. intros (-> & -> & ->). reflexivity. Qed.

(* trial == 0 exactly for the zero triple *)
Theorem fdist_zero dr dg db :
  -255 <= dr <= 255 -> -255 <= dg <= 255 -> -255 <= db <= 255 ->
  f64eqb (fdist dr dg db) f64zero = ((dr =? 0) && (dg =? 0) && (db =? 0)).
Proof.
  intros H1 H2 H3. destruct (fdist_bound dr dg db H1 H2 H3) as [Ga Ea].
  rewrite (eqb_zero_good _ _ Ga).
  pose proof (wd_range dr dg db H1 H2 H3) as HR. pose proof (wd_zero dr dg db) as HZ.
  pose proof (sfval_nonneg (fdist dr dg db)).
  set (x := sfval (fdist dr dg db)) in *. set (X := wd dr dg db) in *.
  destruct (Z.eqb_spec dr 0); destruct (Z.eqb_spec dg 0); destruct (Z.eqb_spec db 0); cbn [andb];
    try (apply Z.eqb_neq; assert (X <> 0) by tauto; lia).
  apply Z.eqb_eq. assert (X = 0) by tauto. lia.
Qed.

Lemma chan_ok_spec v : chan_ok v = true ->
  let '(r, g, b) := v in 0 <= r <= 255 /\ 0 <= g <= 255 /\ 0 <= b <= 255.
Proof.
  destruct v as [[r g] b]. unfold chan_ok, in_range. intros H.
  repeat (apply andb_prop in H as [H ?]). repeat match goal with X : (_ <=? _) = true |- _ => apply Z.leb_le in X end. lia.
Qed.

Lemma chan_ok_split3 c : chan_ok (split3 c) = true.
Proof.
  unfold split3, chan_ok, chR, chG, chB, in_range.
  pose proof (Z.mod_pos_bound (c / 65536) 256 ltac:(lia)). pose proof (Z.mod_pos_bound (c / 256) 256 ltac:(lia)).
  pose proof (Z.mod_pos_bound c 256 ltac:(lia)).
  repeat (apply andb_true_intro; split); apply Z.leb_le; lia.
Qed.

Lemma wdist_wd o v : wdist o v = let '(oR, oG, oB) := o in let '(vR, vG, vB) := v in wd (vR - oR) (vG - oG) (vB - oB).
Proof. destruct o as [[oR oG] oB], v as [[vR vG] vB]. reflexivity. Qed.

Lemma wdist_nonneg o v : 0 <= wdist o v.
Proof.
  destruct o as [[oR oG] oB], v as [[vR vG] vB]. unfold wdist.
  pose proof (Z.square_nonneg (vR - oR)). pose proof (Z.square_nonneg (vG - oG)). pose proof (Z.square_nonneg (vB - oB)). lia.
Qed.

Section Dist.
Variable o : Z * Z * Z.
Hypothesis Ho : chan_ok o = true.

Lemma fd_good v : chan_ok v = true -> goodb (-26) (fdist3 o v) = true.
Proof.
  intros Hv. apply chan_ok_spec in Ho, Hv. destruct o as [[oR oG] oB], v as [[vR vG] vB].
  cbn [fdist3]. apply fdist_bound; lia.
Qed.

Lemma fd_lt v w : chan_ok v = true -> chan_ok w = true -> wdist o v < wdist o w ->
  sfval (fdist3 o v) < sfval (fdist3 o w).
Proof.
  intros Hv Hw Hlt. apply Z.ltb_lt. rewrite <- (ltb_good (-26)) by (apply fd_good; assumption).
  apply chan_ok_spec in Ho, Hv, Hw. destruct o as [[oR oG] oB], v as [[vR vG] vB], w as [[wR wG] wB].
  cbn [fdist3]. unfold wdist in Hlt. apply fdist_lt; try lia. exact Hlt.
Qed.

(* a float minimum is an exact minimum *)
Lemma fd_le_exact v w : chan_ok v = true -> chan_ok w = true ->
  sfval (fdist3 o v) <= sfval (fdist3 o w) -> wdist o v <= wdist o w.
Proof.
  intros Hv Hw Hle. destruct (Z.le_gt_cases (wdist o v) (wdist o w)) as [L|L]; [assumption|exfalso].
  pose proof (fd_lt w v Hw Hv ltac:(lia)). lia.
Qed.

Lemma fd_zero v : chan_ok v = true -> f64eqb (fdist3 o v) f64zero = (wdist o v =? 0).
Proof.
  intros Hv. pose proof (wdist_wd o v) as HW.
  apply chan_ok_spec in Ho, Hv. destruct o as [[oR oG] oB], v as [[vR vG] vB].
  cbn [fdist3]. rewrite fdist_zero by lia. rewrite HW.
  pose proof (wd_zero (vR - oR) (vG - oG) (vB - oB)) as HZ.
  destruct (Z.eqb_spec (vR - oR) 0); destruct (Z.eqb_spec (vG - oG) 0); destruct (Z.eqb_spec (vB - oB) 0); cbn [andb];
    symmetry; try (apply Z.eqb_neq; tauto). apply Z.eqb_eq; tauto.
Qed.

(* state of the loop after the prefix [pre] *)
Definition st_ok (pre : list (Z * Z * Z)) (m : Z) (dist : spec_float) : Prop :=
  (pre = [] /\ m = -1 /\ dist = f64inf) \/
  (exists best, zget pre m = Some best /\ dist = fdist3 o best /\ wdist o best <> 0 /\
                forall v, In v pre -> sfval dist <= sfval (fdist3 o v)).

Definition res_ok (all : list (Z * Z * Z)) (r : Z) : Prop :=
  exists j best, r = index_color (u8 (j + 16)) /\ zget all j = Some best /\
                 forall v, In v all -> wdist o best <= wdist o v.

Lemma fscan_ok pal : forall pre m dist,
  (forall v, In v pre -> chan_ok v = true) -> (forall v, In v pal -> chan_ok v = true) ->
  pre ++ pal <> [] -> st_ok pre m dist ->
  res_ok (pre ++ pal) (fscan fdist3 o pal (zlen pre) m dist).
Proof.
  induction pal as [|v t IH]; intros pre m dist Hpre Hpal Hne Hst; cbn [fscan].
  - rewrite app_nil_r in *. destruct Hst as [(-> & _)|(best & Hb & -> & Hnz & Hmin)]; [congruence|].
    pose proof (zget_some_range _ _ _ Hb) as Hr.
    replace (m <? 0) with false by (symmetry; apply Z.ltb_ge; lia).
    exists m, best. split; [reflexivity|]. split; [assumption|].
    intros w Hw. apply fd_le_exact; auto. apply Hpre. eapply zget_In; eassumption.
  - assert (Hv : chan_ok v = true) by (apply Hpal; now left).
    pose proof (fd_good v Hv) as Gv.
    assert (Hidx : zget (pre ++ v :: t) (zlen pre) = Some v).
    { rewrite zget_app_r by lia. rewrite Z.sub_diag. apply zget_cons_0. }
    (* the early exit *)
    assert (Hexit : wdist o v = 0 -> res_ok (pre ++ v :: t) (index_color (u8 (zlen pre + 16)))).
    { intros Hz. exists (zlen pre), v. split; [reflexivity|]. split; [assumption|].
      intros w _. rewrite Hz. apply wdist_nonneg. }
    assert (Hrec : forall m' dist', st_ok (pre ++ [v]) m' dist' ->
                   res_ok (pre ++ v :: t) (fscan fdist3 o t (zlen pre + 1) m' dist')).
    { intros m' dist' Hst'. replace (pre ++ v :: t) with ((pre ++ [v]) ++ t) by (now rewrite <- app_assoc).
      replace (zlen pre + 1) with (zlen (pre ++ [v])) by (rewrite zlen_app; reflexivity).
      apply IH; try assumption.
      - intros w Hw. apply in_app_or in Hw as [Hw|[<-|[]]]; auto.
      - intros w Hw. apply Hpal. now right.
      - destruct pre; discriminate. }
    destruct Hst as [(-> & -> & ->)|(best & Hb & -> & Hnz & Hmin)].
    + rewrite (ltb_inf_good _ _ Gv). rewrite fd_zero by assumption.
      destruct (Z.eqb_spec (wdist o v) 0) as [Hz|Hz]; [now apply Hexit|].
      apply Hrec. right. exists v. cbn [app]. split; [apply zget_cons_0|]. split; [reflexivity|]. split; [assumption|].
      intros w [<-|[]]. lia.
    + assert (Hbest : chan_ok best = true) by (apply Hpre; eapply zget_In; eassumption).
      rewrite (ltb_good (-26)) by (auto using fd_good).
      destruct (Z.ltb_spec (sfval (fdist3 o v)) (sfval (fdist3 o best))) as [Hlt|Hge].
      * rewrite fd_zero by assumption.
        destruct (Z.eqb_spec (wdist o v) 0) as [Hz|Hz]; [now apply Hexit|].
        apply Hrec. right. exists v. split.
        { rewrite zget_app_r by lia. rewrite Z.sub_diag. apply zget_cons_0. }
        split; [reflexivity|]. split; [assumption|].
        intros w Hw. apply in_app_or in Hw as [Hw|[<-|[]]]; [|lia]. specialize (Hmin w Hw). lia.
      * rewrite fd_zero by assumption.
        replace (wdist o best =? 0) with false by (symmetry; now apply Z.eqb_neq).
        apply Hrec. right. exists best. split.
        { rewrite zget_app_l; [assumption|]. apply zget_some_range in Hb. lia. }
        split; [reflexivity|]. split; [assumption|].
        intros w Hw. apply in_app_or in Hw as [Hw|[<-|[]]]; [auto|lia].
Qed.
End Dist.

(* ---------- the loop restricted to selected entries: first float minimum among them ---------- *)
Lemma fscan_sel_true (fd : Z * Z * Z -> Z * Z * Z -> spec_float) o pal : forall i m dist,
  fscan_sel fd (fun _ => true) o pal i m dist = fscan fd o pal i m dist.
Proof. induction pal as [|v t IH]; intros i m dist; cbn [fscan_sel fscan]; [reflexivity|]. now rewrite IH. Qed.

Lemma fscan_sel_ext (f g : Z * Z * Z -> Z * Z * Z -> spec_float) sel o pal : forall i m dist,
  (forall v, In v pal -> f o v = g o v) -> fscan_sel f sel o pal i m dist = fscan_sel g sel o pal i m dist.
Proof.
  induction pal as [|v t IH]; intros i m dist H; cbn [fscan_sel]; [reflexivity|].
  rewrite (H v) by now left. destruct (sel v); rewrite IH by (intros w Hw; apply H; now right); reflexivity.
Qed.

Section Sel.
Variable o : Z * Z * Z.
Hypothesis Ho : chan_ok o = true.
Variable sel : Z * Z * Z -> bool.
Let f (v : Z * Z * Z) : Z := sfval (fdist3 o v).

(* j is the first index, among the selected entries of [all], whose float distance is minimal *)
Definition first_fmin (all : list (Z * Z * Z)) (j : Z) (best : Z * Z * Z) : Prop :=
  zget all j = Some best /\ sel best = true /\
  (forall v, In v all -> sel v = true -> f best <= f v) /\
  (forall i w, 0 <= i < j -> zget all i = Some w -> sel w = true -> f best < f w).

Lemma first_fmin_unique all j1 b1 j2 b2 : first_fmin all j1 b1 -> first_fmin all j2 b2 -> j1 = j2.
Proof.
  intros (G1 & S1 & M1 & F1) (G2 & S2 & M2 & F2).
  pose proof (zget_some_range _ _ _ G1). pose proof (zget_some_range _ _ _ G2).
  destruct (Z.lt_trichotomy j1 j2) as [L|[L|L]]; [exfalso|assumption|exfalso].
  - pose proof (F2 j1 b1 ltac:(lia) G1 S1). pose proof (M1 b2 (zget_In _ _ _ G2) S2). lia.
  - pose proof (F1 j2 b2 ltac:(lia) G2 S2). pose proof (M2 b1 (zget_In _ _ _ G1) S1). lia.
Qed.

Definition st_sel (pre : list (Z * Z * Z)) (m : Z) (dist : spec_float) : Prop :=
  (forall v, In v pre -> sel v = true -> 0 < f v) /\
  ((m = -1 /\ dist = f64inf /\ forall v, In v pre -> sel v = false) \/
   (exists best, first_fmin pre m best /\ dist = fdist3 o best)).

Definition res_sel (all : list (Z * Z * Z)) (r : Z) : Prop :=
  (r = 0 /\ forall v, In v all -> sel v = false) \/
  (exists j best, r = index_color (u8 (j + 16)) /\ first_fmin all j best).

Lemma zget_snoc_lt (pre : list (Z * Z * Z)) v i : i < zlen pre -> zget (pre ++ [v]) i = zget pre i.
Proof. intros; now apply zget_app_l. Qed.

Lemma fscan_sel_ok pal : forall pre m dist,
  (forall v, In v pre -> chan_ok v = true) -> (forall v, In v pal -> chan_ok v = true) ->
  st_sel pre m dist ->
  res_sel (pre ++ pal) (fscan_sel fdist3 sel o pal (zlen pre) m dist).
Proof.
  induction pal as [|v t IH]; intros pre m dist Hpre Hpal [Hpos Hst]; cbn [fscan_sel].
  - rewrite app_nil_r. destruct Hst as [(-> & _ & Hnone)|(best & Hf & _)].
    + left. split; [reflexivity|assumption].
    + right. pose proof (zget_some_range _ _ _ (proj1 Hf)) as Hr.
      replace (m <? 0) with false by (symmetry; apply Z.ltb_ge; lia). now exists m, best.
  - assert (Hv : chan_ok v = true) by (apply Hpal; now left).
    pose proof (fd_good o Ho v Hv) as Gv.
    assert (Hidx : zget (pre ++ v :: t) (zlen pre) = Some v).
    { rewrite zget_app_r by lia. rewrite Z.sub_diag. apply zget_cons_0. }
    assert (Hidx' : zget (pre ++ [v]) (zlen pre) = Some v).
    { rewrite zget_app_r by lia. rewrite Z.sub_diag. apply zget_cons_0. }
    assert (Hrec : forall m' dist', st_sel (pre ++ [v]) m' dist' ->
                   res_sel (pre ++ v :: t) (fscan_sel fdist3 sel o t (zlen pre + 1) m' dist')).
    { intros m' dist' Hst'. replace (pre ++ v :: t) with ((pre ++ [v]) ++ t) by (now rewrite <- app_assoc).
      replace (zlen pre + 1) with (zlen (pre ++ [v])) by (rewrite zlen_app; reflexivity).
      apply IH; try assumption.
      - intros w Hw. apply in_app_or in Hw as [Hw|[<-|[]]]; auto.
      - intros w Hw. apply Hpal. now right. }
    assert (Hpre_get : forall i w, 0 <= i < zlen pre -> zget (pre ++ v :: t) i = Some w -> In w pre).
    { intros i w Hi Hw. rewrite zget_app_l in Hw by lia. eapply zget_In; eassumption. }
    destruct (sel v) eqn:Sv.
    2:{ (* not selected: the state is unchanged *)
      apply Hrec. split.
      - intros w Hw Sw. apply in_app_or in Hw as [Hw|[<-|[]]]; [auto|congruence].
      - destruct Hst as [(-> & -> & Hnone)|(best & (G & S & M & F) & ->)].
        + left. repeat split; try reflexivity. intros w Hw. apply in_app_or in Hw as [Hw|[<-|[]]]; auto.
        + right. exists best. split; [|reflexivity].
          pose proof (zget_some_range _ _ _ G) as Hr.
          split; [rewrite zget_snoc_lt by lia; assumption|]. split; [assumption|]. split.
          * intros w Hw Sw. apply in_app_or in Hw as [Hw|[<-|[]]]; [auto|congruence].
          * intros i w Hi Hw Sw. rewrite zget_snoc_lt in Hw by lia. eauto. }
    (* the early exit on a selected entry at float distance 0 *)
    assert (Hexit : f v = 0 -> res_sel (pre ++ v :: t) (index_color (u8 (zlen pre + 16)))).
    { intros Hz. right. exists (zlen pre), v. split; [reflexivity|]. split; [assumption|]. split; [assumption|]. split.
      - intros w _ _. rewrite Hz. apply sfval_nonneg.
      - intros i w Hi Hw Sw. rewrite Hz. apply Hpos; [eapply Hpre_get; eassumption|assumption]. }
    assert (Hposv : f v <> 0 -> forall w, In w (pre ++ [v]) -> sel w = true -> 0 < f w).
    { intros Hnz w Hw Sw. apply in_app_or in Hw as [Hw|[<-|[]]]; [auto|].
      pose proof (sfval_nonneg (fdist3 o v)). unfold f in *. lia. }
    destruct Hst as [(-> & -> & Hnone)|(best & (G & S & M & F) & ->)].
    + rewrite (ltb_inf_good _ _ Gv). rewrite (eqb_zero_good _ _ Gv).
      destruct (Z.eqb_spec (sfval (fdist3 o v)) 0) as [Hz|Hz]; [now apply Hexit|].
      apply Hrec. split; [now apply Hposv|]. right. exists v. split; [|reflexivity].
      split; [assumption|]. split; [assumption|]. split.
      * intros w Hw Sw. apply in_app_or in Hw as [Hw|[<-|[]]]; [|lia]. rewrite Hnone in Sw by assumption. discriminate.
      * intros i w Hi Hw Sw. rewrite zget_snoc_lt in Hw by lia. apply zget_In in Hw. rewrite Hnone in Sw by assumption. discriminate.
    + assert (Hbest : chan_ok best = true) by (apply Hpre; eapply zget_In; eassumption).
      pose proof (zget_some_range _ _ _ G) as Hr.
      rewrite (ltb_good (-26)) by (auto using fd_good).
      destruct (Z.ltb_spec (sfval (fdist3 o v)) (sfval (fdist3 o best))) as [Hlt|Hge].
      * rewrite (eqb_zero_good _ _ Gv).
        destruct (Z.eqb_spec (sfval (fdist3 o v)) 0) as [Hz|Hz]; [now apply Hexit|].
        apply Hrec. split; [now apply Hposv|]. right. exists v. split; [|reflexivity].
        split; [assumption|]. split; [assumption|]. split.
        -- intros w Hw Sw. apply in_app_or in Hw as [Hw|[<-|[]]]; [|lia]. specialize (M w Hw Sw). unfold f in *. lia.
        -- intros i w Hi Hw Sw. rewrite zget_snoc_lt in Hw by lia.
           specialize (M w (zget_In _ _ _ Hw) Sw). unfold f in *. lia.
      * pose proof (Hpos best (zget_In _ _ _ G) S) as Hpb.
        rewrite (eqb_zero_good _ _ (fd_good o Ho best Hbest)).
        replace (sfval (fdist3 o best) =? 0) with false by (symmetry; apply Z.eqb_neq; unfold f in Hpb; lia).
        apply Hrec. split.
        -- intros w Hw Sw. apply in_app_or in Hw as [Hw|[<-|[]]]; [auto|]. unfold f in *. lia.
        -- right. exists best. split; [|reflexivity].
           split; [rewrite zget_snoc_lt by lia; assumption|]. split; [assumption|]. split.
           ++ intros w Hw Sw. apply in_app_or in Hw as [Hw|[<-|[]]]; [auto|]. unfold f in *. lia.
           ++ intros i w Hi Hw Sw. rewrite zget_snoc_lt in Hw by lia. eauto.
Qed.
End Sel.

(* restricting the float loop to the entries at minimal exact distance does not change its result *)
Lemma fscan_sel_min o pal bd :
  chan_ok o = true -> (forall v, In v pal -> chan_ok v = true) ->
  (forall v, In v pal -> bd <= wdist o v) -> (exists w, In w pal /\ wdist o w = bd) ->
  fscan_sel fdist3 (fun v => wdist o v =? bd) o pal 0 (-1) f64inf = fscan fdist3 o pal 0 (-1) f64inf.
Proof.
  intros Ho Hpal Hmin (w0 & Hw0 & Hd0).
  set (selm := fun v => wdist o v =? bd).
  assert (Hst : forall s, st_sel o s [] (-1) f64inf).
  { intros s. split; [intros v []|]. left. repeat split. intros v []. }
  pose proof (fscan_sel_ok o Ho selm pal [] (-1) f64inf ltac:(intros v []) Hpal (Hst selm)) as R1.
  pose proof (fscan_sel_ok o Ho (fun _ => true) pal [] (-1) f64inf ltac:(intros v []) Hpal (Hst _)) as R2.
  cbn [app] in R1, R2. change (zlen (@nil (Z * Z * Z))) with 0 in R1, R2.
  rewrite fscan_sel_true in R2.
  destruct R1 as [(_ & Hnone)|(j1 & b1 & E1 & F1)].
  { specialize (Hnone w0 Hw0). unfold selm in Hnone. apply Z.eqb_neq in Hnone. congruence. }
  destruct R2 as [(_ & Hnone)|(j2 & b2 & E2 & F2)].
  { specialize (Hnone w0 Hw0). discriminate. }
  rewrite E1, E2. f_equal. f_equal. f_equal.
  apply (first_fmin_unique o (fun _ => true) pal j1 b1 j2 b2); [|assumption].
  destruct F1 as (G & S & M & F). unfold selm in S. apply Z.eqb_eq in S.
  assert (Hb1 : chan_ok b1 = true) by (apply Hpal; eapply zget_In; eassumption).
  assert (Hall : forall v, In v pal -> selm v = false -> sfval (fdist3 o b1) < sfval (fdist3 o v)).
  { intros v Hv Sv. unfold selm in Sv. apply Z.eqb_neq in Sv. specialize (Hmin v Hv).
    apply fd_lt; auto. lia. }
  split; [assumption|]. split; [reflexivity|]. split.
  - intros v Hv _. destruct (selm v) eqn:Sv; [auto|]. specialize (Hall v Hv Sv). lia.
  - intros i w Hi Hw _. destruct (selm w) eqn:Sw; [eauto|]. apply Hall; [eapply zget_In; eassumption|assumption].
Qed.

(* ---------- the counting scan ---------- *)
Definition drop_count (a : option (Z * Z * Z)) : option (Z * Z) :=
  match a with Some (i, d, _) => Some (i, d) | None => None end.

Lemma scanc_scan o pal : forall i acc, drop_count (scanc o pal i acc) = scan o pal i (drop_count acc).
Proof.
  induction pal as [|v t IH]; intros i acc; cbn [scanc scan]; [reflexivity|].
  rewrite IH. f_equal. destruct acc as [[[bi bd] n]|]; cbn [drop_count]; [|reflexivity].
  destruct (wdist o v <? bd); [reflexivity|]. destruct (wdist o v =? bd); reflexivity.
Qed.

Definition cnt_ok (o : Z * Z * Z) (pre : list (Z * Z * Z)) (acc : option (Z * Z * Z)) : Prop :=
  match acc with
  | None => pre = []
  | Some (_, bd, n) => n = zlen (filter (fun v => wdist o v =? bd) pre) /\ forall v, In v pre -> bd <= wdist o v
  end.

Lemma filter_none {A} (p : A -> bool) l : (forall x, In x l -> p x = false) -> filter p l = [].
Proof.
  induction l as [|x t IH]; intros H; cbn [filter]; [reflexivity|].
  rewrite (H x) by now left. apply IH. intros y Hy. apply H. now right.
Qed.

Lemma scanc_count o pal : forall pre i acc, cnt_ok o pre acc -> cnt_ok o (pre ++ pal) (scanc o pal i acc).
Proof.
  induction pal as [|v t IH]; intros pre i acc H; cbn [scanc].
  - now rewrite app_nil_r.
  - replace (pre ++ v :: t) with ((pre ++ [v]) ++ t) by (now rewrite <- app_assoc).
    apply IH. destruct acc as [[[bi bd] n]|]; cbn [cnt_ok] in *.
    + destruct H as [Hn Hmin].
      destruct (Z.ltb_spec (wdist o v) bd) as [L|L].
      * split.
        -- rewrite filter_app. cbn [filter]. rewrite Z.eqb_refl.
           rewrite filter_none; [reflexivity|]. intros x Hx. apply Z.eqb_neq. specialize (Hmin x Hx). lia.
        -- intros x Hx. apply in_app_or in Hx as [Hx|[<-|[]]]; [|lia]. specialize (Hmin x Hx). lia.
      * destruct (Z.eqb_spec (wdist o v) bd) as [E|E].
        -- split.
           ++ rewrite filter_app, zlen_app. cbn [filter]. rewrite E, Z.eqb_refl. rewrite Hn. reflexivity.
           ++ intros x Hx. apply in_app_or in Hx as [Hx|[<-|[]]]; [auto|lia].
        -- split.
           ++ rewrite filter_app, zlen_app. cbn [filter].
              replace (wdist o v =? bd) with false by (symmetry; now apply Z.eqb_neq). rewrite Hn. cbn. lia.
           ++ intros x Hx. apply in_app_or in Hx as [Hx|[<-|[]]]; [auto|lia].
    + subst pre. cbn [app filter]. rewrite Z.eqb_refl. split; [reflexivity|].
      intros x [<-|[]]. lia.
Qed.

Lemma scanc_spec o pal i bd n : scanc o pal 0 None = Some (i, bd, n) ->
  scan o pal 0 None = Some (i, bd) /\ n = min_count o pal bd.
Proof.
  intros H. split.
  - pose proof (scanc_scan o pal 0 None) as E. rewrite H in E. cbn [drop_count] in E. now symmetry.
  - pose proof (scanc_count o pal [] 0 None eq_refl) as C. rewrite H in C. cbn [app cnt_ok] in C. apply C.
Qed.

Lemma scanc_none o pal : scanc o pal 0 None = None -> scan o pal 0 None = None.
Proof. intros H. pose proof (scanc_scan o pal 0 None) as E. rewrite H in E. now symmetry. Qed.

Lemma pal_ok_in pal : pal_ok pal = true -> forall v, In v pal -> chan_ok v = true.
Proof. unfold pal_ok. intros H. now rewrite forallb_forall in H. Qed.

(* the float loop returns an entry at minimal exact distance *)
Lemma as_index_f_pal_res pal c : pal <> [] -> pal_ok pal = true -> is_rgb c = true ->
  res_ok (split3 c) pal (as_index_f_pal pal c).
Proof.
  intros Hne Hok Hrgb. unfold as_index_f_pal, as_index_fd. rewrite Hrgb. cbn [negb].
  pose proof (fscan_ok (split3 c) (chan_ok_split3 c) pal [] (-1) f64inf) as H. cbn [app] in H.
  change (zlen (@nil (Z * Z * Z))) with 0 in H. apply H; try assumption.
  - intros v [].
  - now apply pal_ok_in.
  - left. auto.
Qed.

Theorem as_index_f_pal_nearest pal c :
  pal <> [] -> zlen pal <= 240 -> pal_ok pal = true -> nearest_ok pal c (as_index_f_pal pal c) = true.
Proof.
  intros Hne Hlen Hok. unfold nearest_ok.
  destruct (is_rgb c) eqn:Ergb; cbn [negb].
  2:{ unfold as_index_f_pal, as_index_fd. rewrite Ergb. apply Z.eqb_refl. }
  destruct (as_index_f_pal_res pal c Hne Hok Ergb) as (j & best & -> & Hj & Hmin).
  pose proof (zget_some_range _ _ _ Hj) as Hr.
  unfold index_color, u8. rewrite Z.mod_small by lia.
  replace (j + 16 + tag_indexed - tag_indexed) with (j + 16) by lia.
  replace (j + 16 - 16) with j by lia. rewrite Hj.
  cbv zeta. rewrite forallb_le_intro by assumption.
  repeat (apply andb_true_intro; split); try apply Z.leb_le; try apply Z.ltb_lt; lia.
Qed.

Lemma pal_ok_map_split3 tbl : pal_ok (map split3 tbl) = true.
Proof. unfold pal_ok. apply forallb_forall. intros v Hv. apply in_map_iff in Hv as (x & <- & _). apply chan_ok_split3. Qed.

Lemma pal_ok_colorIndex3 : pal_ok colorIndex3 = true.
Proof. rewrite colorIndex3_spec. apply pal_ok_map_split3. Qed.

Theorem as_index_f_nearest c : nearest_ok colorIndex3 c (as_index_f c) = true.
Proof.
  apply as_index_f_pal_nearest; [discriminate | rewrite colorIndex3_len; lia | apply pal_ok_colorIndex3].
Qed.

(* ---------- the tabulated distance equals the computed one ---------- *)
Lemma fdist_t_eq dr dg db : -255 <= dr <= 255 -> -255 <= dg <= 255 -> -255 <= db <= 255 ->
  fdist_t dr dg db = fdist dr dg db.
Proof.
  intros Hr Hg Hb. unfold fdist_t, fdist.
  destruct (term_facts dr Hr) as ((_ & ->) & _ & _).
  destruct (term_facts dg Hg) as (_ & (_ & ->) & _).
  destruct (term_facts db Hb) as (_ & _ & (_ & ->)). reflexivity.
Qed.

Lemma fdist3_t_eq o v : chan_ok o = true -> chan_ok v = true -> fdist3_t o v = fdist3 o v.
Proof.
  intros Ho Hv. apply chan_ok_spec in Ho, Hv. destruct o as [[oR oG] oB], v as [[vR vG] vB].
  cbn [fdist3 fdist3_t]. apply fdist_t_eq; lia.
Qed.

Lemma fscan_ext (f g : Z * Z * Z -> Z * Z * Z -> spec_float) o pal : forall i m dist,
  (forall v, In v pal -> f o v = g o v) -> fscan f o pal i m dist = fscan g o pal i m dist.
Proof.
  induction pal as [|v t IH]; intros i m dist H; cbn [fscan]; [reflexivity|].
  rewrite (H v) by now left. rewrite IH by (intros w Hw; apply H; now right). reflexivity.
Qed.

Lemma as_index_ft_pal_eq pal c : pal_ok pal = true -> as_index_ft_pal pal c = as_index_f_pal pal c.
Proof.
  intros Hok. unfold as_index_ft_pal, as_index_f_pal, as_index_fd.
  destruct (negb (is_rgb c)); [reflexivity|]. apply fscan_ext.
  intros v Hv. apply fdist3_t_eq; [apply chan_ok_split3|now apply (pal_ok_in pal)].
Qed.

(* ---------- float and integer models agree unless the exact minimum is attained twice ---------- *)
Lemma unique_index {A} (p : A -> bool) (l : list A) : forall i j a b,
  zlen (filter p l) = 1 -> zget l i = Some a -> p a = true -> zget l j = Some b -> p b = true -> i = j.
Proof.
  induction l as [|x t IH]; intros i j a b Hc Hi Ha Hj Hb.
  - apply zget_some_range in Hi. cbn in Hi. lia.
  - pose proof (zget_some_range _ _ _ Hi) as Ri. pose proof (zget_some_range _ _ _ Hj) as Rj.
    assert (Hin : forall k y, 0 < k -> zget (x :: t) k = Some y -> p y = true -> In y (filter p t)).
    { intros k y Hk Hy Hp. rewrite zget_cons_S in Hy by lia. apply filter_In. split; [eapply zget_In; eassumption|assumption]. }
    cbn [filter] in Hc. destruct (Z.eq_dec i 0) as [I0|I0]; destruct (Z.eq_dec j 0) as [J0|J0]; try lia.
    + subst i. rewrite zget_cons_0 in Hi. injection Hi as ->. rewrite Ha in Hc. rewrite zlen_cons in Hc.
      assert (Ht : filter p t = []) by (apply zlen_zero_nil; lia).
      specialize (Hin j b ltac:(lia) Hj Hb). rewrite Ht in Hin. destruct Hin.
    + subst j. rewrite zget_cons_0 in Hj. injection Hj as ->. rewrite Hb in Hc. rewrite zlen_cons in Hc.
      assert (Ht : filter p t = []) by (apply zlen_zero_nil; lia).
      specialize (Hin i a ltac:(lia) Hi Ha). rewrite Ht in Hin. destruct Hin.
    + destruct (p x).
      * rewrite zlen_cons in Hc. assert (Ht : filter p t = []) by (apply zlen_zero_nil; lia).
        specialize (Hin i a ltac:(lia) Hi Ha). rewrite Ht in Hin. destruct Hin.
      * rewrite zget_cons_S in Hi, Hj by lia.
        assert (i - 1 = j - 1) by (eapply IH; eassumption). lia.
Qed.

Theorem as_index_x_pal_eq pal c : zlen pal <= 240 -> pal_ok pal = true ->
  as_index_x_pal pal c = as_index_f_pal pal c.
Proof.
  intros Hlen Hok. unfold as_index_x_pal. cbv zeta.
  destruct (is_rgb c) eqn:Ergb; cbn [negb].
  2:{ unfold as_index_f_pal, as_index_fd. now rewrite Ergb. }
  destruct (scanc (split3 c) pal 0 None) as [[[i bd] n]|] eqn:Ec.
  - apply scanc_spec in Ec as [Es ->].
    assert (Hne : pal <> []) by (intros ->; discriminate Es).
    pose proof (scan_ok (split3 c) pal [] None eq_refl) as H. cbn [app] in H.
    change (zlen (@nil (Z * Z * Z))) with 0 in H. rewrite Es in H. cbn [acc_ok] in H.
    destruct H as [(w & Hw & Hd) Hmin].
    destruct (Z.eqb_spec (min_count (split3 c) pal bd) 1) as [Hu|Hu].
    2:{ rewrite (fscan_sel_ext fdist3_t fdist3).
        2:{ intros v Hv. apply fdist3_t_eq; [apply chan_ok_split3|now apply (pal_ok_in pal)]. }
        rewrite fscan_sel_min; try assumption.
        - unfold as_index_f_pal, as_index_fd. now rewrite Ergb.
        - apply chan_ok_split3.
        - now apply pal_ok_in.
        - exists w. split; [eapply zget_In; eassumption|assumption]. }
    destruct (as_index_f_pal_res pal c Hne Hok Ergb) as (j & best & -> & Hj & Hminf).
    assert (Hbd : wdist (split3 c) best = bd).
    { pose proof (Hmin best (zget_In _ _ _ Hj)). pose proof (Hminf w (zget_In _ _ _ Hw)). lia. }
    assert (i = j); [|now subst].
    unfold min_count in Hu.
    eapply (unique_index (fun v => wdist (split3 c) v =? bd) pal); try eassumption; apply Z.eqb_eq; assumption.
  - apply scanc_none in Ec. assert (pal = []) as ->.
    { destruct pal as [|v t]; [reflexivity|]. exfalso. revert Ec. apply scan_some. discriminate. }
    unfold as_index_f_pal, as_index_fd. rewrite Ergb. reflexivity.
Qed.

Theorem as_index_x_eq c : as_index_x c = as_index_f c.
Proof. apply as_index_x_pal_eq; [rewrite colorIndex3_len; lia|apply pal_ok_colorIndex3]. Qed.

(* with a unique exact minimum the float model and the integer model return the same entry *)
Theorem as_index_f_pal_unique pal c i bd : zlen pal <= 240 -> pal_ok pal = true -> is_rgb c = true ->
  scan (split3 c) pal 0 None = Some (i, bd) -> min_count (split3 c) pal bd = 1 ->
  as_index_f_pal pal c = as_index_pal pal c.
Proof.
  intros Hlen Hok Hrgb Hs Hu. rewrite <- as_index_x_pal_eq by assumption.
  unfold as_index_x_pal, as_index_pal. cbv zeta. rewrite Hrgb. cbn [negb]. rewrite Hs.
  destruct (scanc (split3 c) pal 0 None) as [[[i' bd'] n]|] eqn:Ec.
  - apply scanc_spec in Ec as [Es ->]. rewrite Hs in Es. injection Es as <- <-. rewrite Hu. reflexivity.
  - apply scanc_none in Ec. congruence.
Qed.

(* Float64frombits (Float64bits f) = f on good values *)
Lemma bits_roundtrip u f : u <= 900 -> goodb u f = true -> f64_of_bits (bits64 f) = f.
Proof.
  intros Hu Hf. destruct f as [[|]|[|]| |[|] m e]; try discriminate Hf.
  - reflexivity.
  - apply goodb_fin in Hf as (_ & He & Hm). unfold bits64, f64_of_bits.
    change (2 ^ 52) with 4503599627370496 in *. change (2 ^ 53) with 9007199254740992 in *.
    change (2 ^ 63) with 9223372036854775808.
    replace (Z.pos m <? 4503599627370496) with false by (symmetry; apply Z.ltb_ge; lia).
    set (b := 0 + ((e + 1075) * 4503599627370496 + (Z.pos m - 4503599627370496))).
    assert (Hq : b / 4503599627370496 = e + 1075) by (symmetry; apply (Z.div_unique b 4503599627370496 (e + 1075) (Z.pos m - 4503599627370496)); unfold b; lia).
    assert (Hr : b mod 4503599627370496 = Z.pos m - 4503599627370496) by (symmetry; apply (Z.mod_unique b 4503599627370496 (e + 1075) (Z.pos m - 4503599627370496)); unfold b; lia).
    assert (Hs : b / 9223372036854775808 = 0) by (apply Z.div_small; unfold b; lia).
    rewrite Hq, Hr, Hs. rewrite Z.mod_small by lia. cbn [Z.odd].
    replace (e + 1075 =? 0) with false by (symmetry; apply Z.eqb_neq; lia).
    replace (e + 1075 =? 2047) with false by (symmetry; apply Z.eqb_neq; lia).
    replace (Z.pos m - 4503599627370496 + 4503599627370496) with (Z.pos m) by lia.
    f_equal. lia.
Qed.

(* every trial value of the model satisfies the specification of an observed trial *)
Theorem trial_ok_model dr dg db : -255 <= dr <= 255 -> -255 <= dg <= 255 -> -255 <= db <= 255 ->
  trial_ok dr dg db (bits64 (fdist dr dg db)) = true.
Proof.
  intros H1 H2 H3. destruct (fdist_bound dr dg db H1 H2 H3) as [G B].
  unfold trial_ok. rewrite (bits_roundtrip (-26)) by (lia || assumption).
  pose proof (wd_range dr dg db H1 H2 H3) as HR.
  destruct (fdist dr dg db) as [[|]|[|]| |[|] m e]; try discriminate G.
  - cbn [sfval] in B. apply Z.eqb_eq. lia.
  - pose proof (sfval_pos _ _ _ G) as HP. apply goodb_fin in G as (_ & He & _). cbn [sfval] in *.
    change (2 ^ 64) with 18446744073709551616. change (2 ^ 49) with 562949953421312.
    set (x := Z.pos m * 2 ^ (e + 64)) in *. set (X := wd dr dg db) in *.
    repeat (apply andb_true_intro; split); try apply Z.leb_le; try apply Z.ltb_lt; lia.
Qed.

Theorem fcase_ok_model dr dg db er eg eb o :
  -255 <= dr <= 255 -> -255 <= dg <= 255 -> -255 <= db <= 255 ->
  -255 <= er <= 255 -> -255 <= eg <= 255 -> -255 <= eb <= 255 ->
  fcase_ok (dr, dg, db, (er, eg, eb), fcase_model (dr, dg, db, (er, eg, eb), o)) = true.
Proof.
  intros H1 H2 H3 H4 H5 H6. unfold fcase_ok, fcase_model.
  rewrite !trial_ok_model by assumption. cbn [andb].
  rewrite fdist_zero by assumption. rewrite Bool.eqb_reflx, Bool.andb_true_r.
  destruct (Z.ltb_spec (wd dr dg db) (wd er eg eb)) as [L|L].
  - rewrite fdist_lt by assumption. cbn [andb]. replace (wd er eg eb <? wd dr dg db) with false by (symmetry; apply Z.ltb_ge; lia). reflexivity.
  - cbn [andb]. destruct (Z.ltb_spec (wd er eg eb) (wd dr dg db)) as [L'|L']; [|reflexivity].
    rewrite fdist_ltb_false by assumption. reflexivity.
Qed.

(* ---------- the statements of props/C07.v ---------- *)
Lemma diff_ok_spec d : diff_ok d = true -> -255 <= d <= 255.
Proof. unfold diff_ok, in_range. intros H. apply andb_prop in H as [H1 H2]. apply Z.leb_le in H1, H2. lia. Qed.

Lemma diff_ok6 dr dg db er eg eb :
  diff_ok dr && diff_ok dg && diff_ok db && diff_ok er && diff_ok eg && diff_ok eb = true ->
  (-255 <= dr <= 255 /\ -255 <= dg <= 255 /\ -255 <= db <= 255) /\
  (-255 <= er <= 255 /\ -255 <= eg <= 255 /\ -255 <= eb <= 255).
Proof.
  intros H. repeat (apply andb_prop in H as [H ?]).
  repeat match goal with X : diff_ok _ = true |- _ => apply diff_ok_spec in X end. lia.
Qed.

Theorem float_distance_order dr dg db er eg eb :
  diff_ok dr && diff_ok dg && diff_ok db && diff_ok er && diff_ok eg && diff_ok eb = true ->
  (wd dr dg db < wd er eg eb ->
     f64ltb (fdist dr dg db) (fdist er eg eb) = true /\ f64ltb (fdist er eg eb) (fdist dr dg db) = false) /\
  (f64eqb (fdist dr dg db) f64zero = true <-> dr = 0 /\ dg = 0 /\ db = 0).
Proof.
  intros H. apply diff_ok6 in H as ((H1 & H2 & H3) & (H4 & H5 & H6)). split.
  - intros Hlt. split; [now apply fdist_lt|now apply fdist_ltb_false].
  - rewrite fdist_zero by assumption.
    destruct (Z.eqb_spec dr 0); destruct (Z.eqb_spec dg 0); destruct (Z.eqb_spec db 0); cbn [andb];
      split; try discriminate; try tauto; intros (? & ? & ?); congruence.
Qed.

Theorem float_trial_spec dr dg db er eg eb o :
  diff_ok dr && diff_ok dg && diff_ok db && diff_ok er && diff_ok eg && diff_ok eb = true ->
  trial_ok dr dg db (bits64 (fdist dr dg db)) = true /\
  fcase_ok (dr, dg, db, (er, eg, eb), fcase_model (dr, dg, db, (er, eg, eb), o)) = true.
Proof.
  intros H. apply diff_ok6 in H as ((H1 & H2 & H3) & (H4 & H5 & H6)).
  split; [now apply trial_ok_model|now apply fcase_ok_model].
Qed.

Theorem float_asindex_nearest (tbl : list Z) (c : Z) :
  tbl <> [] -> zlen tbl <= 240 ->
  let pal := map split3 tbl in
  if is_rgb c
  then exists n best, as_index_f_pal pal c = index_color n /\ 16 <= n <= 255 /\
                      zget pal (n - 16) = Some best /\
                      forall v, In v pal -> wdist (split3 c) best <= wdist (split3 c) v
  else as_index_f_pal pal c = c.
Proof.
  intros Hne Hlen pal. apply nearest_ok_spec. apply as_index_f_pal_nearest.
  - unfold pal. destruct tbl; [congruence|discriminate].
  - unfold pal, zlen. rewrite map_length. exact Hlen.
  - apply pal_ok_map_split3.
Qed.

Theorem float_int_agree_unless_tie (tbl : list Z) (c i bd : Z) :
  zlen tbl <= 240 -> is_rgb c = true ->
  let pal := map split3 tbl in
  scan (split3 c) pal 0 None = Some (i, bd) -> min_count (split3 c) pal bd = 1 ->
  as_index_f_pal pal c = as_index_pal pal c.
Proof.
  intros Hlen Hrgb pal Hs Hu. apply (as_index_f_pal_unique pal c i bd); try assumption.
  - unfold pal, zlen. rewrite map_length. exact Hlen.
  - apply pal_ok_map_split3.
Qed.

Theorem float_int_can_differ :
  let c := rgb_color 52 101 112 in
  as_index_f c = index_color 240 /\ as_index c = index_color 59 /\
  exists a b, zget colorIndex3 (240 - 16) = Some a /\ zget colorIndex3 (59 - 16) = Some b /\
              wdist (split3 c) a = wdist (split3 c) b /\
              f64ltb (fdist3 (split3 c) a) (fdist3 (split3 c) b) = true.
Proof.
  cbv zeta. split; [vm_compute; reflexivity|]. split; [vm_compute; reflexivity|].
  exists (88, 88, 88), (95, 95, 95). vm_compute. repeat split.
Qed.
