(* All rows of a frame, then the writer's prologue/epilogue: one Render against the
   reference terminal. *)
From Vx Require Import base.Prelude base.ListX model.Colour model.RenderTypes model.Render model.RefTerm
  model.RenderSpec proofs.RenderDelta proofs.RenderRow.
Require Import ZifyBool.

Section Frame.
Variable tw : list Z -> Z.
Variable measure : list Z -> Z.
Variable cp : caps.

Notation tracks := (tracks cp).
Notation view_row := (view_row cp).
Notation row_ok := (row_ok tw measure cp).
Notation claim := (claim measure cp).

(* every non-marker cell of a screenLast row is displayed by the terminal row T *)
Definition row_claims (T : Z -> disp) (ls : list cell) : Prop :=
  forall i l, zget ls i = Some l -> c_sixel l = false -> claim T i l.

Lemma closed_left_0 T : closed_left T 0.
Proof. intros p g w off pn lk Hp; lia. Qed.

Lemma rows_correct (refresh : bool) : forall nss lss row pen t,
  length nss = length lss ->
  row + zlen nss = tm_rows t -> 0 <= row ->
  (forall ns, In ns nss -> zlen ns = tm_cols t /\ row_ok ns 0 = true) ->
  (forall ls, In ls lss -> zlen ls = tm_cols t) ->
  tracks t pen -> style_wf pen ->
  (refresh = false -> forall k ls, zget lss k = Some ls -> row_claims (tm_grid t (row + k)) ls) ->
  let '(o, lss', pen') := render_rows cp refresh row nss lss pen in
  let t' := interp tw t o in
  stable t t' /\ tracks t' pen' /\ style_wf pen' /\
  (forall r, r < row -> tm_grid t' r = tm_grid t r) /\
  (forall k ns, zget nss k = Some ns -> forall i, 0 <= i < tm_cols t ->
                zget (view_row ns) i = Some (tm_grid t' (row + k) i)) /\
  length lss' = length lss /\
  (forall ls, In ls lss' -> zlen ls = tm_cols t) /\
  (forall k ls, zget lss' k = Some ls -> row_claims (tm_grid t' (row + k)) ls).
Proof.
  induction nss as [|ns nss IH]; intros lss row pen t Hlen Hrows Hrow Hns Hls Htr Wp Hold.
  - destruct lss; [|discriminate]. cbn [render_rows]. cbv zeta. unfold interp; cbn [fold_left].
    split; [apply stable_refl|]. split; [assumption|]. split; [assumption|]. split; [reflexivity|].
    split; [intros k ns Hz; apply zget_some_range in Hz; change (zlen (@nil (list cell))) with 0 in Hz; lia|].
    split; [reflexivity|]. split; [intros ls []|].
    intros k ls Hz. apply zget_some_range in Hz. change (zlen (@nil (list cell))) with 0 in Hz. lia.
  - destruct lss as [|ls lss]; [discriminate|]. injection Hlen as Hlen.
    rewrite zlen_cons in Hrows. cbn [render_rows].
    destruct (Hns ns (or_introl eq_refl)) as [Hnl Hok].
    pose proof (Hls ls (or_introl eq_refl)) as Hll.
    assert (Hlen1 : length ns = length ls) by (unfold zlen in *; lia).
    pose proof (zlen_nonneg nss) as Hnn.
    pose proof (cells_correct tw measure cp row refresh ns ls 0 0 true pen t cell0 Hlen1
                  ltac:(lia) ltac:(lia) ltac:(lia) ltac:(lia) Hok Htr Wp
                  ltac:(intros; discriminate) (closed_left_0 _)) as H1.
    assert (Hold1 : refresh = false -> forall i l, zget ls i = Some l -> 0 <= i -> c_sixel l = false ->
                                       claim (tm_grid t row) (0 + i) l).
    { intros Hr i l Hz _ Hsx. specialize (Hold Hr 0 ls (zget_cons_0 _ _)).
      rewrite Z.add_0_r in Hold. rewrite Z.add_0_l. exact (Hold i l Hz Hsx). }
    specialize (H1 Hold1).
    destruct (render_cells cp refresh row ns ls 0 0 true pen) as [[o1 l1] p1].
    cbv zeta in H1. destruct H1 as [S1 [T1 [W1 [O1 [_ [D1 [L1 C1]]]]]]].
    set (t1 := interp tw t o1) in *.
    assert (Hr1 : tm_rows t1 = tm_rows t) by (destruct S1 as [E _]; exact E).
    assert (Hc1 : tm_cols t1 = tm_cols t) by (destruct S1 as [_ [E _]]; exact E).
    pose proof (IH lss (row + 1) p1 t1 Hlen ltac:(lia) ltac:(lia)) as H2.
    assert (Hns' : forall ns0, In ns0 nss -> zlen ns0 = tm_cols t1 /\ row_ok ns0 0 = true).
    { intros ns0 Hin. rewrite Hc1. apply Hns. now right. }
    assert (Hls' : forall ls0, In ls0 lss -> zlen ls0 = tm_cols t1).
    { intros ls0 Hin. rewrite Hc1. apply Hls. now right. }
    assert (Hold2 : refresh = false -> forall k ls0, zget lss k = Some ls0 -> row_claims (tm_grid t1 (row + 1 + k)) ls0).
    { intros Hr k ls0 Hz. pose proof (zget_some_range _ _ _ Hz) as Hk.
      rewrite (O1 (row + 1 + k)) by lia.
      replace (row + 1 + k) with (row + (k + 1)) by lia. apply (Hold Hr).
      rewrite zget_cons_S by lia. now replace (k + 1 - 1) with k by lia. }
    specialize (H2 Hns' Hls' T1 W1 Hold2).
    destruct (render_rows cp refresh (row + 1) nss lss p1) as [[o2 l2] p2].
    cbv zeta in H2 |- *. rewrite interp_app. fold t1.
    destruct H2 as [S2 [T2 [W2 [A2 [D2 [L2 [LL2 C2]]]]]]].
    split; [exact (stable_trans _ _ _ S1 S2)|]. split; [assumption|]. split; [assumption|].
    split; [intros r Hr; rewrite A2 by lia; apply O1; lia|].
    split.
    { intros k ns0 Hz i Hi. destruct (Z.eq_dec k 0) as [->|Hne].
      - rewrite zget_cons_0 in Hz. injection Hz as <-. rewrite Z.add_0_r.
        rewrite A2 by lia. unfold RenderSpec.view_row.
        specialize (D1 i ltac:(lia)). rewrite Z.add_0_l in D1. exact D1.
      - pose proof (zget_some_range _ _ _ Hz) as Hk. rewrite zget_cons_S in Hz by lia.
        rewrite Hc1 in D2. specialize (D2 (k - 1) ns0 Hz i Hi).
        now replace (row + 1 + (k - 1)) with (row + k) in D2 by lia. }
    split; [cbn [length]; now rewrite L2|].
    split.
    { intros ls0 [<-|Hin]; [unfold zlen in *; lia|]. rewrite <- Hc1. now apply LL2. }
    intros k ls0 Hz. destruct (Z.eq_dec k 0) as [->|Hne].
    + rewrite zget_cons_0 in Hz. injection Hz as <-. rewrite Z.add_0_r. rewrite A2 by lia.
      intros i l Hzi Hsx. destruct (C1 i l Hzi Hsx) as [_ Hc]. now rewrite Z.add_0_l in Hc.
    + pose proof (zget_some_range _ _ _ Hz) as Hk. rewrite zget_cons_S in Hz by lia.
      specialize (C2 (k - 1) ls0 Hz). now replace (row + 1 + (k - 1)) with (row + k) in C2 by lia.
Qed.

(* ---------- tokens that do not touch the grid ---------- *)
Definition grid_neutral (k : tok) : bool :=
  match k with KText _ | KTextW _ _ | KSpace => false | _ => true end.

Lemma interp1_neutral t k :
  grid_neutral k = true ->
  tm_grid (interp1 tw t k) = tm_grid t /\ tm_rows (interp1 tw t k) = tm_rows t /\
  tm_cols (interp1 tw t k) = tm_cols t.
Proof. destruct k; try discriminate; intros _; repeat split. Qed.

Lemma interp_neutral ks : forall t,
  forallb grid_neutral ks = true ->
  tm_grid (interp tw t ks) = tm_grid t /\ tm_rows (interp tw t ks) = tm_rows t /\
  tm_cols (interp tw t ks) = tm_cols t.
Proof.
  induction ks as [|k ks IH]; intros t H; [repeat split|].
  cbn [forallb] in H. apply andb_prop in H as [Hk Hks].
  unfold interp in *. cbn [fold_left].
  destruct (IH (interp1 tw t k) Hks) as [G [R C]].
  destruct (interp1_neutral t k Hk) as [G1 [R1 C1]].
  repeat split; congruence.
Qed.

Lemma shown_style0 : shown cp style0 = tpen0.
Proof. unfold shown, col_params; cbn. destruct (cap_rgb cp), (cap_styled_ul cp); vm_compute; reflexivity. Qed.

Lemma tracks_style0 t : tm_pen t = tpen0 -> tm_link t = ([], []) -> tracks t style0.
Proof. intros Hp Hl. split; [now rewrite shown_style0|exact Hl]. Qed.

(* ---------- the invariant between Vaxis and the terminal ---------- *)
Definition dims_ok (s : vstate) (t : term) : Prop :=
  zlen (v_next s) = tm_rows t /\ length (v_next s) = length (v_last s) /\
  (forall r, In r (v_next s) -> zlen r = tm_cols t) /\
  (forall r, In r (v_last s) -> zlen r = tm_cols t).

Definition cursor_at (c : cursor) (t : term) : Prop :=
  cu_vis c = true ->
  tm_row t = clampz 0 (tm_rows t - 1) (cu_row c) /\ tm_col t = clampz 0 (tm_cols t - 1) (cu_col c) /\
  tm_shape t = cu_style c.

(* the hardware cursor is exactly as requested: hidden, or visible at the position and shape *)
Definition cursor_rel (c : cursor) (t : term) : Prop := tm_vis t = cu_vis c /\ cursor_at c t.

(* what every flush leaves behind and a size change does not disturb *)
Definition settled (s : vstate) (t : term) : Prop :=
  dims_ok s t /\ 1 <= tm_rows t /\ 1 <= tm_cols t /\ tm_pen t = tpen0 /\ tm_link t = ([], []) /\
  tm_vis t = cu_vis (v_clast s) /\ tm_mouse t = v_mlast s.

(* the terminal still shows the previous frame *)
Definition shows_last (s : vstate) (t : term) : Prop :=
  forall k ls, zget (v_last s) k = Some ls -> row_claims (tm_grid t k) ls.
Definition in_sync (s : vstate) (t : term) : Prop := shows_last s t /\ cursor_at (v_clast s) t.

(* the terminal shows the application's screen *)
Definition shows_next (s : vstate) (t : term) : Prop :=
  forall k ns, zget (v_next s) k = Some ns -> forall i, 0 <= i < tm_cols t ->
               zget (view_row ns) i = Some (tm_grid t k i).

Definition content_ok (s : vstate) : Prop :=
  forall ns, In ns (v_next s) -> row_ok ns 0 = true.

Lemma show_cursor_effect t c :
  let t' := interp tw t (show_cursor c) in
  tm_grid t' = tm_grid t /\ tm_rows t' = tm_rows t /\ tm_cols t' = tm_cols t /\
  tm_pen t' = tm_pen t /\ tm_link t' = tm_link t /\ tm_sync t' = tm_sync t /\ tm_mouse t' = tm_mouse t /\
  tm_vis t' = true /\ tm_shape t' = cu_style c /\
  tm_row t' = clampz 0 (tm_rows t - 1) (cu_row c) /\ tm_col t' = clampz 0 (tm_cols t - 1) (cu_col c).
Proof.
  unfold show_cursor, interp; cbn. repeat split; f_equal; lia.
Qed.

Lemma flush_cases s body :
  (body = [] /\ flush s body =
     (if negb (cu_vis (v_cnext s)) && cu_vis (v_clast s) then [KHideCursor]
      else if negb (cu_vis (v_cnext s)) then []
      else if cursor_moved (v_cnext s) (v_clast s) then show_cursor (v_cnext s)
      else [])) \/
  (body <> [] /\ flush s body =
     (when (cu_vis (v_clast s)) [KHideCursor] ++ when (cap_sync (v_caps s)) [KSyncOn]) ++
     body ++
     ([KSgrReset] ++ when (cu_vis (v_cnext s) && cu_vis (v_clast s)) (show_cursor (v_cnext s)) ++
      when (cap_sync (v_caps s)) [KSyncOff])).
Proof.
  destruct body as [|k b]; [left; split; reflexivity|right; split; [discriminate|]].
  unfold flush. rewrite <- !app_assoc. reflexivity.
Qed.

Lemma cursor_moved_false a b :
  cursor_moved a b = false -> cu_row a = cu_row b /\ cu_col a = cu_col b /\ cu_style a = cu_style b.
Proof. unfold cursor_moved. intros H. lia. Qed.

Lemma refresh_writes nss lss row pen :
  (exists n ns nss', nss = (n :: ns) :: nss' /\ c_sixel n = false) ->
  length nss = length lss -> (forall ns ls, In (ns, ls) (combine nss lss) -> length ns = length ls) ->
  let '(o, _, _) := render_rows cp true row nss lss pen in o <> [].
Proof.
  intros [n [ns [nss' [-> Hsx]]]] Hlen Hrow.
  destruct lss as [|ls lss]; [discriminate|].
  assert (Hl : length (n :: ns) = length ls) by (apply Hrow; now left).
  destruct ls as [|l ls]; [discriminate|].
  cbn [render_rows render_cells]. rewrite Z.ltb_irrefl, Hsx. rewrite andb_false_r.
  destruct (render_cells cp true row ns ls (0 + 1) (span n - 1) false (c_st n)) as [[o1 l1] p1].
  destruct (render_rows cp true (row + 1) nss' lss p1) as [[o2 l2] p2].
  cbn [when andb]. destruct (nonempty (s_link pen)); cbn; discriminate.
Qed.

Theorem render_correct s t :
  v_caps s = cp ->
  settled s t ->
  (v_refresh s = false -> in_sync s t) ->
  content_ok s ->
  let '(s', o) := do_render s in
  let t' := interp tw t o in
  settled s' t' /\ in_sync s' t' /\ v_refresh s' = false /\ v_next s' = v_next s /\
  v_caps s' = cp /\
  shows_next s t' /\ cursor_rel (v_cnext s) t' /\ tm_sync t' = tm_sync t.
Proof.
  intros Hcp [[Hnr [Hnl [Hnc Hlc]]] [Hr1 [Hc1 [Hpen [Hlink [Hvis Hmouse]]]]]] Hsync Hok.
  assert (Hshow : v_refresh s = false -> shows_last s t) by (intros E; exact (proj1 (Hsync E))).
  assert (Hcur : v_refresh s = false -> cursor_at (v_clast s) t) by (intros E; exact (proj2 (Hsync E))).
  unfold do_render, render_body. rewrite Hcp.
  assert (ROWS : forall t1, tm_grid t1 = tm_grid t -> tm_rows t1 = tm_rows t -> tm_cols t1 = tm_cols t ->
                 tm_pen t1 = tpen0 -> tm_link t1 = ([], []) ->
     let '(o, l, pen') := render_rows cp (v_refresh s) 0 (v_next s) (v_last s) style0 in
     let t2 := interp tw t1 o in
     stable t1 t2 /\ tracks t2 pen' /\
     (forall k ns, zget (v_next s) k = Some ns -> forall i, 0 <= i < tm_cols t ->
                   zget (view_row ns) i = Some (tm_grid t2 k i)) /\
     length l = length (v_last s) /\
     (forall ls, In ls l -> zlen ls = tm_cols t) /\
     (forall k ls, zget l k = Some ls -> row_claims (tm_grid t2 k) ls)).
  { intros t1 G R C P L.
    pose proof (rows_correct (v_refresh s) (v_next s) (v_last s) 0 style0 t1 Hnl ltac:(lia) ltac:(lia)) as H.
    assert (H1 : forall ns, In ns (v_next s) -> zlen ns = tm_cols t1 /\ row_ok ns 0 = true).
    { intros ns Hin. split; [rewrite C; now apply Hnc|now apply Hok]. }
    assert (H2 : forall ls, In ls (v_last s) -> zlen ls = tm_cols t1) by (intros ls Hin; rewrite C; now apply Hlc).
    assert (H3 : v_refresh s = false -> forall k ls, zget (v_last s) k = Some ls -> row_claims (tm_grid t1 (0 + k)) ls).
    { intros Hr k ls Hz. rewrite Z.add_0_l, G. exact (Hshow Hr k ls Hz). }
    specialize (H H1 H2 (tracks_style0 t1 P L) ltac:(unfold style_wf; cbn; lia) H3).
    destruct (render_rows cp (v_refresh s) 0 (v_next s) (v_last s) style0) as [[o l] pen'].
    cbv zeta in H |- *. destruct H as [S [T [_ [_ [D [Ln [LL Cl]]]]]]].
    split; [assumption|]. split; [assumption|].
    split; [intros k ns Hz i Hi; rewrite C in D; specialize (D k ns Hz i Hi); now rewrite Z.add_0_l in D|].
    split; [assumption|]. split; [intros ls Hin; rewrite <- C; now apply LL|].
    intros k ls Hz. specialize (Cl k ls Hz). now rewrite Z.add_0_l in Cl. }
  destruct (render_rows cp (v_refresh s) 0 (v_next s) (v_last s) style0) as [[o l] pen'] eqn:Er.
  cbv zeta in ROWS.
  set (shape := when (negb (zlist_eqb (v_mlast s) (v_mnext s))) [KMouseShape (v_mnext s)]).
  set (cl := when (nonempty (s_link pen')) [KLink [] []]).
  set (sc := when (cu_vis (v_cnext s) && negb (cu_vis (v_clast s))) (show_cursor (v_cnext s))).
  (* what remains to be shown once the terminal after the flush is known field by field *)
  assert (FIN : forall t2 t',
     (forall k ns, zget (v_next s) k = Some ns -> forall i, 0 <= i < tm_cols t ->
                   zget (view_row ns) i = Some (tm_grid t2 k i)) ->
     length l = length (v_last s) ->
     (forall ls, In ls l -> zlen ls = tm_cols t) ->
     (forall k ls, zget l k = Some ls -> row_claims (tm_grid t2 k) ls) ->
     tm_grid t' = tm_grid t2 -> tm_rows t' = tm_rows t -> tm_cols t' = tm_cols t ->
     tm_pen t' = tpen0 -> tm_link t' = ([], []) -> tm_mouse t' = v_mnext s ->
     cursor_rel (v_cnext s) t' -> tm_sync t' = tm_sync t ->
     let s' := {| v_caps := cp; v_next := v_next s; v_last := l; v_cnext := v_cnext s; v_clast := v_cnext s;
                  v_refresh := false; v_mnext := v_mnext s; v_mlast := v_mnext s |} in
     settled s' t' /\ in_sync s' t' /\ v_refresh s' = false /\ v_next s' = v_next s /\
     v_caps s' = cp /\ shows_next s t' /\ cursor_rel (v_cnext s) t' /\ tm_sync t' = tm_sync t).
  { intros t2 t' D Ln LL Cl G R C P L M Cu Sy. cbv zeta.
    split.
    { split.
      - split; [cbn; congruence|]. split; [cbn; congruence|].
        split; [intros r Hin; rewrite C; now apply Hnc|intros r Hin; rewrite C; now apply LL].
      - split; [congruence|]. split; [congruence|]. split; [exact P|]. split; [exact L|].
        split; [exact (proj1 Cu)|exact M]. }
    split; [split; [intros k ls Hz; rewrite G; now apply Cl|exact (proj2 Cu)]|].
    split; [reflexivity|]. split; [reflexivity|]. split; [reflexivity|].
    split; [intros k ns Hz i Hi; rewrite G; apply D; [exact Hz|congruence]|].
    split; [exact Cu|exact Sy]. }
  cbn [v_next v_last v_cnext v_clast v_refresh v_caps v_mnext v_mlast].
  destruct (flush_cases s (shape ++ o ++ cl ++ sc)) as [[Eb Ef]|[Eb Ef]]; rewrite Ef; clear Ef.
  - (* nothing was drawn *)
    apply app_eq_nil in Eb as [Es Eb]. apply app_eq_nil in Eb as [Eo Eb]. apply app_eq_nil in Eb as [Ec Esc].
    subst o. specialize (ROWS t eq_refl eq_refl eq_refl Hpen Hlink).
    unfold interp in ROWS at 1 2 3 4; cbn [fold_left] in ROWS.
    destruct ROWS as [_ [_ [D [Ln [LL Cl]]]]].
    assert (Hm : v_mnext s = v_mlast s).
    { unfold shape in Es. destruct (zlist_eqb (v_mlast s) (v_mnext s)) eqn:E; [|discriminate].
      apply zlist_eqb_eq in E. congruence. }
    assert (Hcase : (cu_vis (v_cnext s) = true -> cu_vis (v_clast s) = true)).
    { intros Hv. unfold sc in Esc. rewrite Hv in Esc. destruct (cu_vis (v_clast s)); [reflexivity|discriminate]. }
    destruct (cu_vis (v_cnext s)) eqn:Vn; destruct (cu_vis (v_clast s)) eqn:Vl; cbn [negb andb];
      try (specialize (Hcase eq_refl); discriminate).
    + (* both visible *)
      destruct (cursor_moved (v_cnext s) (v_clast s)) eqn:Em.
      * pose proof (show_cursor_effect t (v_cnext s)) as E. cbv zeta in E.
        destruct E as [G [R [C [P [L [Sy [M [V [Sh [Ro Co]]]]]]]]]].
        apply (FIN t); try assumption; try (cbn; congruence).
        unfold cursor_rel, cursor_at. rewrite Vn. split; [congruence|]. intros _. rewrite R, C. repeat split; assumption.
      * apply cursor_moved_false in Em as [E1 [E2 E3]].
        assert (Hrf : v_refresh s = false).
        { destruct (v_refresh s) eqn:Erf; [exfalso|reflexivity].
          (* a refresh always draws something *)
          unfold content_ok in Hok.
          destruct (v_next s) as [|r0 nss'] eqn:En; [rewrite zlen_nil in Hnr; lia|].
          pose proof (Hnc r0 (or_introl eq_refl)) as Hr0.
          destruct r0 as [|n0 ns0]; [rewrite zlen_nil in Hr0; lia|].
          destruct (row_ok_head tw measure cp n0 ns0 (Hok _ (or_introl eq_refl))) as [Hsx0 _].
          pose proof (refresh_writes ((n0 :: ns0) :: nss') (v_last s) 0 style0
                        (ex_intro _ n0 (ex_intro _ ns0 (ex_intro _ nss' (conj eq_refl Hsx0)))) Hnl) as Hw.
          rewrite Er in Hw. apply Hw; [|reflexivity].
          intros ns1 ls1 Hin. pose proof (in_combine_l _ _ _ _ Hin) as H1. pose proof (in_combine_r _ _ _ _ Hin) as H2.
          pose proof (Hnc ns1 H1). pose proof (Hlc ls1 H2). unfold zlen in *. lia. }
        destruct (Hcur Hrf Vl) as [Cr [Cc Cs]].
        unfold interp; cbn [fold_left].
        apply (FIN t); try assumption; try (cbn; congruence); try reflexivity.
        unfold cursor_rel, cursor_at. rewrite Vn. split; [congruence|]. intros _. repeat split; congruence.
    + (* shown -> hidden *)
      unfold interp; cbn [fold_left interp1].
      apply (FIN t); try assumption; try (cbn; congruence); try reflexivity.
      unfold cursor_rel, cursor_at. rewrite Vn. split; [reflexivity|]. intros; discriminate.
    + (* hidden stays hidden *)
      unfold interp; cbn [fold_left].
      apply (FIN t); try assumption; try (cbn; congruence); try reflexivity.
      unfold cursor_rel, cursor_at. rewrite Vn. split; [congruence|]. intros; discriminate.
  - (* something was drawn *)
    rewrite Hcp.
    set (pro := when (cu_vis (v_clast s)) [KHideCursor] ++ when (cap_sync cp) [KSyncOn]).
    set (epi := [KSgrReset] ++ when (cu_vis (v_cnext s) && cu_vis (v_clast s)) (show_cursor (v_cnext s)) ++
                when (cap_sync cp) [KSyncOff]).
    assert (Eq : interp tw t (pro ++ (shape ++ o ++ cl ++ sc) ++ epi) =
                 interp tw (interp tw (interp tw t (pro ++ shape)) o) (cl ++ sc ++ epi)).
    { unfold pro, epi. rewrite !interp_app. reflexivity. }
    rewrite Eq. clear Eq.
    set (t1 := interp tw t (pro ++ shape)).
    assert (F1 : tm_grid t1 = tm_grid t /\ tm_rows t1 = tm_rows t /\ tm_cols t1 = tm_cols t /\
                 tm_pen t1 = tpen0 /\ tm_link t1 = ([], []) /\ tm_vis t1 = false /\
                 tm_shape t1 = tm_shape t /\
                 tm_sync t1 = tm_sync t + (if cap_sync cp then 1 else 0) /\ tm_mouse t1 = v_mnext s).
    { unfold t1, pro, shape. rewrite <- Hmouse in *.
      destruct (cu_vis (v_clast s)) eqn:Vl; destruct (cap_sync cp);
        destruct (zlist_eqb (tm_mouse t) (v_mnext s)) eqn:Em; unfold interp; cbn;
        try (apply zlist_eqb_eq in Em);
        repeat split; try assumption; try lia; try congruence. }
    destruct F1 as [G1 [R1 [C1 [P1 [L1 [V1 [Sh1 [Sy1 M1]]]]]]]].
    specialize (ROWS t1 G1 R1 C1 P1 L1).
    set (t2 := interp tw t1 o) in *.
    destruct ROWS as [S2 [[T2p T2l] [D [Ln [LL Cl]]]]].
    destruct S2 as [R2 [C2 [V2 [Sh2 [Sy2 M2]]]]].
    set (tail := cl ++ sc ++ epi).
    assert (F3 : tm_grid (interp tw t2 tail) = tm_grid t2 /\ tm_rows (interp tw t2 tail) = tm_rows t2 /\
                 tm_cols (interp tw t2 tail) = tm_cols t2 /\
                 tm_pen (interp tw t2 tail) = tpen0 /\ tm_link (interp tw t2 tail) = ([], []) /\
                 tm_sync (interp tw t2 tail) = tm_sync t /\ tm_mouse (interp tw t2 tail) = v_mnext s /\
                 cursor_rel (v_cnext s) (interp tw t2 tail)).
    { unfold tail, epi, cl, sc, cursor_rel, cursor_at.
      assert (Hl0 : nonempty (s_link pen') = false -> tm_link t2 = ([], [])).
      { intros E. rewrite T2l. unfold shown_link. now rewrite E. }
      destruct (nonempty (s_link pen')) eqn:El; destruct (cu_vis (v_cnext s)) eqn:Vn;
        destruct (cu_vis (v_clast s)) eqn:Vl; destruct (cap_sync cp) eqn:Sy;
        unfold interp, show_cursor; cbn -[clampz];
        repeat split; try congruence; try lia; try (intros; discriminate);
        try (rewrite ?Hl0 by reflexivity; reflexivity);
        try (f_equal; lia). }
    destruct F3 as [G3 [R3 [C3 [P3 [L3 [Sy3 [M3 Cu3]]]]]]].
    apply (FIN t2); try assumption; congruence.
Qed.
End Frame.
