#!/usr/bin/env python3
"""Run checks against a seeded mutant WITHOUT touching /repo or /verif's build output.

  tools_mutant_check.py <seeded-name> <check id>[,<check id>...] [--tier quick]

Works on copies: /tmp/mc<pid>/v (a copy of /verif with its build output, as it is now, including
your uncommitted edits) and /tmp/mc<pid>/r (a copy of /repo's working tree with seeded/<name>/patch.diff
applied); the copy's harness module is pointed at r.  Runs `./check run <id>` there for each id, prints
each check's VIOLATION / summary lines and the failing case, removes the copies.  Needs no lock, so any
number of these can run at the same time.  Exit 0 if every listed check reported a violation."""
import sys, os, subprocess, shutil, json
name, ids = sys.argv[1], sys.argv[2].split(",")
extra = sys.argv[3:]
patch = name if "/" in name else os.path.join("/verif/seeded", name, "patch.diff")
assert os.path.exists(patch), patch
base = "/tmp/mc%d" % os.getpid()
v, r = base + "/v", base + "/r"
def sh(cmd, cwd=None, env=None):
    p = subprocess.run(cmd, cwd=cwd, shell=True, env=env, stdout=subprocess.PIPE, stderr=subprocess.STDOUT)
    return p.returncode, p.stdout.decode("utf-8", "replace")
ok = True
try:
    os.makedirs(base)
    sh("rsync -a --exclude .git --exclude work --exclude seeded /verif/ %s/" % v)
    sh("rsync -a /repo/ %s/" % r)
    sh("sed -i 's#=> /repo#=> %s#' %s/harness/go.mod" % (r, v))
    rc, out = sh("git apply %s" % patch, cwd=r)
    if rc != 0:
        print("patch does not apply to /repo's current tree:", out[-400:]); sys.exit(2)
    env = dict(os.environ, VERIF_REPO=r, VERIF_REPO_LOCKED="1")
    for i in ids:
        rc, out = sh("./check run %s %s" % (i, " ".join(extra)), cwd=v, env=env)
        lines = [l for l in out.splitlines() if l.startswith("VIOLATION") or " tier=" in l]
        print("%s on %s: rc=%d" % (i, name, rc)); print("\n".join("   " + l for l in lines))
        viol = [l for l in lines if l.startswith("VIOLATION")]
        if viol:
            try:
                rp = viol[0].split("replay=")[1].split()[0]
                rj = json.load(open(rp))
                print("   replay kind=%s stream=%s case=%s" % (rj.get("kind"), rj.get("stream"), json.dumps(rj.get("case"))[:700]))
                if rj.get("what"): print("   what: %s" % str(rj.get("what"))[:500])
            except Exception as e:
                print("   (replay unreadable: %s)" % e)
        else:
            print("   log tail:\n" + "\n".join("      " + l for l in out.splitlines()[-12:]))
        ok &= rc == 1 and bool(viol)
finally:
    shutil.rmtree(base, ignore_errors=True)
sys.exit(0 if ok else 1)
