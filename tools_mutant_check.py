#!/usr/bin/env python3
"""Run checks against a seeded mutant without disturbing other runs.

  tools_mutant_check.py <seeded-name> <check id>[,<check id>...] [--tier quick]

Takes /tmp/verif-repo.lock exclusively (ordinary ./check runs hold it shared), applies
seeded/<name>/patch.diff to /repo, runs the checks, reverts the patch, releases the lock.
Prints each check's VIOLATION / summary lines.  Exit 0 if every listed check reported a violation."""
import sys, os, subprocess, fcntl
name, ids = sys.argv[1], sys.argv[2].split(",")
extra = sys.argv[3:]
patch = os.path.join("/verif/seeded", name, "patch.diff")
assert os.path.exists(patch), patch
lock = open("/tmp/verif-repo.lock", "w")
fcntl.flock(lock, fcntl.LOCK_EX)
ok = True
try:
    assert subprocess.run("git status --porcelain --untracked-files=no", cwd="/repo", shell=True, capture_output=True, text=True).stdout.strip() == "", "/repo not clean"
    subprocess.run(["git", "apply", patch], cwd="/repo", check=True)
    try:
        for i in ids:
            p = subprocess.run(["./check", "run", i] + extra, cwd="/verif", env=dict(os.environ, VERIF_REPO_LOCKED="1"),
                               capture_output=True, text=True)
            lines = [l for l in p.stdout.splitlines() if l.startswith("VIOLATION") or " tier=" in l]
            print("%s on %s: rc=%d" % (i, name, p.returncode)); print("\n".join("   " + l for l in lines))
            ok &= p.returncode == 1 and any(l.startswith("VIOLATION") for l in lines)
    finally:
        subprocess.run(["git", "apply", "-R", patch], cwd="/repo", check=True)
finally:
    fcntl.flock(lock, fcntl.LOCK_UN)
sys.exit(0 if ok else 1)
