package main

import (
	"bufio"
	"fmt"
	"strings"
	"time"

	vaxis "git.sr.ht/~rockorager/vaxis"
	"git.sr.ht/~rockorager/vaxis/vxfw"
	"git.sr.ht/~rockorager/vaxis/vxfw/button"
	"git.sr.ht/~rockorager/vaxis/vxfw/center"
	"git.sr.ht/~rockorager/vaxis/vxfw/list"
	"git.sr.ht/~rockorager/vaxis/vxfw/richtext"
	"git.sr.ht/~rockorager/vaxis/vxfw/text"
	"git.sr.ht/~rockorager/vaxis/vxfw/textfield"
	"verif/harness/hx"
)

var drawExtra = map[string]interface{}{}

// ---- grapheme dictionary of one case: "" 0, "…" 1, " " 2, "▐" 3, content from 4
type dict struct {
	ids map[string]int
}

func newDict() *dict {
	return &dict{ids: map[string]int{"": 0, "…": 1, " ": 2, "▐": 3}}
}
func (d *dict) id(g string) int {
	if v, ok := d.ids[g]; ok {
		return v
	}
	v := len(d.ids)
	d.ids[g] = v
	return v
}

type ch struct{ G, W int }

// ---- widget specifications
type wspec struct {
	Kind    string // text rich center button field list
	Soft    bool
	Content string
	Segs    []string
	Child   *wspec
	Items   []*wspec
	Cursor  bool
	Gap     int

	lines [][]ch // recorded when drawn (scanner output at the width received)
	drawn bool
	bad   bool // the recording scanner panicked or ran away

	live vxfw.Widget // the widget object built from this spec (hist stream: fields are changed on it)
}

type env struct {
	d     *dict
	chars func(string) []vaxis.Character
}

func (e *env) conv(cs []vaxis.Character) []ch {
	out := make([]ch, len(cs))
	for i, c := range cs {
		out[i] = ch{e.d.id(c.Grapheme), c.Width}
	}
	return out
}

func (e *env) convCells(cs []vaxis.Cell) []ch {
	out := make([]ch, len(cs))
	for i, c := range cs {
		out[i] = ch{e.d.id(c.Grapheme), c.Width}
	}
	return out
}

const maxLines = 200000

// record runs the widget's own scanner for the width the widget receives
func (w *wspec) record(e *env, ctx vxfw.DrawContext) {
	w.drawn = true
	w.lines = nil
	panicked, _ := hx.Catch(func() {
		switch w.Kind {
		case "text", "button":
			if w.Soft {
				sc := text.NewSoftwrapScanner(w.Content, ctx.Max.Width)
				for sc.Scan(ctx) {
					w.lines = append(w.lines, e.conv(ctx.Characters(sc.Text())))
					if len(w.lines) > maxLines {
						w.bad = true
						return
					}
				}
			} else {
				sc := bufio.NewScanner(strings.NewReader(w.Content))
				for sc.Scan() {
					w.lines = append(w.lines, e.conv(ctx.Characters(sc.Text())))
				}
			}
		case "rich":
			cells := []vaxis.Cell{}
			for _, seg := range w.Segs {
				for _, c := range ctx.Characters(seg) {
					cells = append(cells, vaxis.Cell{Character: c})
				}
			}
			if w.Soft {
				sc := richtext.NewSoftwrapScanner(cells, ctx.Max.Width)
				for sc.Scan() {
					w.lines = append(w.lines, e.convCells(sc.Text()))
					if len(w.lines) > maxLines {
						w.bad = true
						return
					}
				}
			} else {
				sc := richtext.NewHardwrapScanner(cells)
				for sc.Scan() {
					w.lines = append(w.lines, e.convCells(sc.Line()))
				}
			}
		case "field":
			w.lines = [][]ch{e.conv(ctx.Characters(w.Content))}
		}
	})
	if panicked {
		w.bad = true
	}
}

// recorder wraps a leaf widget so that the constraint it receives is seen
type recorder struct {
	inner vxfw.Widget
	spec  *wspec
	e     *env
}

func (r *recorder) HandleEvent(ev vaxis.Event, ph vxfw.EventPhase) (vxfw.Command, error) {
	return nil, nil
}
func (r *recorder) Draw(ctx vxfw.DrawContext) (vxfw.Surface, error) {
	r.spec.record(r.e, ctx)
	return r.inner.Draw(ctx)
}

func (w *wspec) build(e *env) vxfw.Widget {
	switch w.Kind {
	case "text":
		t := text.New(w.Content)
		t.Softwrap = w.Soft
		w.live = t
		return &recorder{t, w, e}
	case "rich":
		segs := make([]vaxis.Segment, len(w.Segs))
		for i, s := range w.Segs {
			segs[i] = vaxis.Segment{Text: s, Style: vaxis.Style{Attribute: vaxis.AttributeMask(i % 3)}}
		}
		t := richtext.New(segs)
		t.Softwrap = w.Soft
		w.live = t
		return &recorder{t, w, e}
	case "center":
		c := &center.Center{Child: w.Child.build(e)}
		w.live = c
		return c
	case "button":
		b := button.New(w.Content, func() (vxfw.Command, error) { return nil, nil })
		w.live = b
		return b
	case "field":
		tf := textfield.New()
		tf.Value = w.Content
		w.live = tf
		return &recorder{tf, w, e}
	case "list":
		ws := make([]vxfw.Widget, len(w.Items))
		for i, it := range w.Items {
			ws[i] = it.build(e)
		}
		d := &list.Dynamic{
			Builder: func(i uint, cursor uint) vxfw.Widget {
				if i >= uint(len(ws)) {
					return nil
				}
				return ws[i]
			},
			DrawCursor: w.Cursor,
			Gap:        w.Gap,
		}
		w.live = d
		return d
	}
	panic("kind")
}

// rle prints a Coq list, writing runs of >= 8 equal items as (zrepeat x n)
func rle(items []string) string {
	var parts []string
	var lit []string
	flush := func() {
		if len(lit) > 0 {
			parts = append(parts, "["+strings.Join(lit, ";")+"]")
			lit = nil
		}
	}
	for i := 0; i < len(items); {
		j := i
		for j < len(items) && items[j] == items[i] {
			j++
		}
		if j-i >= 8 {
			flush()
			parts = append(parts, fmt.Sprintf("(zrepeat %s %d)", items[i], j-i))
		} else {
			lit = append(lit, items[i:j]...)
		}
		i = j
	}
	flush()
	if len(parts) == 0 {
		return "[]"
	}
	if len(parts) == 1 {
		return parts[0]
	}
	return "(" + strings.Join(parts, " ++ ") + ")"
}

func coqLine(l []ch) string {
	cs := make([]string, len(l))
	for j, c := range l {
		cs[j] = "(" + hx.Z(int64(c.G)) + "," + hx.Z(int64(c.W)) + ")"
	}
	return rle(cs)
}

func coqLines(ls [][]ch) string {
	out := make([]string, len(ls))
	for i, l := range ls {
		out[i] = coqLine(l)
	}
	return rle(out)
}

func (w *wspec) coq() string {
	switch w.Kind {
	case "text":
		return fmt.Sprintf("(WText false %s %s)", hx.Bool(w.Soft), coqLines(w.lines))
	case "rich":
		return fmt.Sprintf("(WText true %s %s)", hx.Bool(w.Soft), coqLines(w.lines))
	case "center":
		return "(WCenter " + w.Child.coq() + ")"
	case "button":
		return "(WButton " + coqLines(w.lines) + ")"
	case "field":
		var l []ch
		if len(w.lines) > 0 {
			l = w.lines[0]
		}
		return "(WField " + coqLine(l) + ")"
	case "list":
		its := make([]string, len(w.Items))
		for i, it := range w.Items {
			its[i] = it.coq()
		}
		return fmt.Sprintf("(WList %s %s %s)", hx.Bool(w.Cursor), hx.Z(int64(w.Gap)), hx.List(its))
	}
	panic("kind")
}

func clip(s string) string {
	if len(s) > 200 {
		return fmt.Sprintf("%s…(%d bytes)", s[:200], len(s))
	}
	return s
}

func (w *wspec) json() interface{} {
	m := map[string]interface{}{"kind": w.Kind}
	switch w.Kind {
	case "text", "button", "field":
		m["content"] = clip(w.Content)
		m["softwrap"] = w.Soft
	case "rich":
		segs := make([]string, len(w.Segs))
		for i, s := range w.Segs {
			segs[i] = clip(s)
		}
		m["segments"] = segs
		m["softwrap"] = w.Soft
	case "center":
		m["child"] = w.Child.json()
	case "list":
		its := []interface{}{}
		for _, it := range w.Items {
			its = append(its, it.json())
		}
		m["items"], m["draw_cursor"], m["gap"] = its, w.Cursor, w.Gap
	}
	return m
}

func (w *wspec) anyBad() bool {
	if w.bad {
		return true
	}
	if w.Child != nil && w.Child.anyBad() {
		return true
	}
	for _, it := range w.Items {
		if it.anyBad() {
			return true
		}
	}
	return false
}

// items of a list that were never reached keep empty lines: the model does not look at them
// either only if the loop stops before them; to stay exact we record them at the width the
// list would have passed.
func (w *wspec) recordUndrawn(e *env, ctx vxfw.DrawContext) {
	switch w.Kind {
	case "text", "rich", "field", "button":
		if !w.drawn {
			w.record(e, ctx)
		}
	case "center":
		w.Child.recordUndrawn(e, ctx)
	case "list":
		off := 0
		if w.Cursor {
			off = 2
		}
		c := ctx
		c.Max = vxfw.Size{Width: ctx.Max.Width - uint16(off), Height: 65535}
		for _, it := range w.Items {
			it.recordUndrawn(e, c)
		}
	}
}

// ---- observation
type onode struct {
	W, H, N int
	Cells   [][3]int // index, gid, width
	Kids    []okid
}
type okid struct {
	Col, Row, Z int
	T           *onode
}

func observeSurface(e *env, s vxfw.Surface) *onode {
	o := &onode{W: int(s.Size.Width), H: int(s.Size.Height), N: len(s.Buffer)}
	for i, c := range s.Buffer {
		if c.Grapheme != "" || c.Width != 0 {
			o.Cells = append(o.Cells, [3]int{i, e.d.id(c.Grapheme), c.Width})
		}
	}
	for _, k := range s.Children {
		o.Kids = append(o.Kids, okid{k.Origin.Col, k.Origin.Row, k.ZIndex, observeSurface(e, k.Surface)})
	}
	return o
}

func (o *onode) coq() string {
	var parts []string
	var lit []string
	flush := func() {
		if len(lit) > 0 {
			parts = append(parts, "["+strings.Join(lit, ";")+"]")
			lit = nil
		}
	}
	cs := o.Cells
	for i := 0; i < len(cs); {
		j := i + 1
		if j < len(cs) {
			stride := cs[j][0] - cs[i][0]
			for j < len(cs) && cs[j][1] == cs[i][1] && cs[j][2] == cs[i][2] && cs[j][0]-cs[j-1][0] == stride {
				j++
			}
			if j-i >= 8 {
				flush()
				parts = append(parts, fmt.Sprintf("(zrun %d %d %d (%s,%s))", cs[i][0], stride, j-i, hx.Z(int64(cs[i][1])), hx.Z(int64(cs[i][2]))))
				i = j
				continue
			}
		}
		lit = append(lit, fmt.Sprintf("(%d,(%s,%s))", cs[i][0], hx.Z(int64(cs[i][1])), hx.Z(int64(cs[i][2]))))
		i++
	}
	flush()
	cells := "[]"
	if len(parts) == 1 {
		cells = parts[0]
	} else if len(parts) > 1 {
		cells = "(" + strings.Join(parts, " ++ ") + ")"
	}
	ks := make([]string, len(o.Kids))
	for i, k := range o.Kids {
		ks[i] = hx.Tuple(hx.Z(int64(k.Col)), hx.Z(int64(k.Row)), hx.Z(int64(k.Z)), k.T.coq())
	}
	return fmt.Sprintf("(ONode %d %d %d %s %s)", o.W, o.H, o.N, cells, hx.List(ks))
}

func (o *onode) json() interface{} {
	ks := []interface{}{}
	for _, k := range o.Kids {
		ks = append(ks, map[string]interface{}{"col": k.Col, "row": k.Row, "z": k.Z, "surface": k.T.json()})
	}
	cells := o.Cells
	if len(cells) > 40 {
		cells = cells[:40]
	}
	return map[string]interface{}{"w": o.W, "h": o.H, "buflen": o.N, "nonblank_cells": len(o.Cells), "first_cells": cells, "children": ks}
}

// ---- content generators
var alphabet = []string{"a", "b", "c", "d", "e", " ", " ", " ", "\n", "\n", "世", "界", "😀", "é", "\t", "-", "…", "\r\n", "​", "x"}

func genContent(n int) string {
	var b strings.Builder
	for i := 0; i < n; i++ {
		b.WriteString(alphabet[cfg.Rand.Intn(len(alphabet))])
	}
	return b.String()
}

func genContentAny() string {
	switch cfg.Rand.Intn(12) {
	case 0:
		return ""
	case 1:
		return "\n"
	case 2:
		return strings.Repeat("line\n", cfg.Rand.Intn(8))
	case 3:
		return strings.Repeat("ab cd ", cfg.Rand.Intn(30))
	case 4:
		return strings.Repeat("世界", cfg.Rand.Intn(10))
	case 5:
		return strings.Repeat("x", cfg.Rand.Intn(300))
	case 6:
		return strings.Repeat("a\n", 250+cfg.Rand.Intn(12)) // around 255/256 lines
	default:
		return genContent(cfg.Rand.Intn(40))
	}
}

var cons = []int{0, 1, 2, 3, 7, 255, 256, 65534, 65535}

func genLeaf() *wspec {
	switch cfg.Rand.Intn(5) {
	case 0, 1:
		return &wspec{Kind: "text", Soft: cfg.Rand.Intn(2) == 0, Content: genContentAny()}
	case 2:
		n := cfg.Rand.Intn(4)
		segs := make([]string, n)
		for i := range segs {
			segs[i] = genContentAny()
		}
		return &wspec{Kind: "rich", Soft: cfg.Rand.Intn(2) == 0, Segs: segs}
	case 3:
		return &wspec{Kind: "field", Content: strings.ReplaceAll(genContent(cfg.Rand.Intn(20)), "\n", "")}
	default:
		return &wspec{Kind: "button", Soft: true, Content: genContentAny()}
	}
}

func genWidget(depth int) *wspec {
	if depth == 0 {
		return genLeaf()
	}
	switch cfg.Rand.Intn(4) {
	case 0:
		return &wspec{Kind: "center", Child: genWidget(depth - 1)}
	case 1:
		n := cfg.Rand.Intn(5)
		its := make([]*wspec, n)
		for i := range its {
			its[i] = &wspec{Kind: "text", Soft: cfg.Rand.Intn(2) == 0, Content: genContentAny()}
			if cfg.Rand.Intn(12) == 0 {
				its[i] = genLeaf()
			}
		}
		return &wspec{Kind: "list", Items: its, Cursor: cfg.Rand.Intn(2) == 0, Gap: pick([]int{0, 0, 1, 2})}
	default:
		return genLeaf()
	}
}

func (w *wspec) allocates() bool {
	return w.Kind == "center" || w.Kind == "button" || w.Kind == "list"
}

func (w *wspec) container() bool { return w.allocates() }

// characters functions: the real one, and one with adversarial widths (a ctx.Characters is
// supplied by the application)
func weirdChars(s string) []vaxis.Character {
	cs := vaxis.Characters(s)
	for i := range cs {
		switch len(cs[i].Grapheme) % 7 {
		case 3:
			cs[i].Width = 3
		case 4:
			cs[i].Width = 65536 + 1
		case 2:
			cs[i].Width = 0
		}
	}
	return cs
}

func drawCase(s *hx.Stream, w *wspec, maxw, maxh int, weird bool, tags ...string) {
	e := &env{d: newDict(), chars: vaxis.Characters}
	if weird {
		e.chars = weirdChars
	}
	ctx := vxfw.DrawContext{Max: vxfw.Size{Width: uint16(maxw), Height: uint16(maxh)}, Characters: e.chars}
	widget := w.build(e)
	var obs *onode
	t0 := time.Now()
	defer func() {
		ms, _ := drawExtra["draw_ms_"+w.Kind].(float64)
		drawExtra["draw_ms_"+w.Kind] = ms + float64(time.Since(t0).Microseconds())/1000
	}()
	panicked, msg := hx.Catch(func() {
		sf, err := widget.Draw(ctx)
		if err != nil {
			panic("error returned: " + err.Error())
		}
		obs = observeSurface(e, sf)
	})
	w.recordUndrawn(e, ctx)
	if w.anyBad() {
		n, _ := drawExtra["skipped_scanner_failed"].(int)
		drawExtra["skipped_scanner_failed"] = n + 1
		return
	}
	out := 0
	if panicked {
		out = 1
		obs = &onode{}
	}
	term := hx.Tuple(hx.Tuple(w.coq(), hx.Z(int64(maxw)), hx.Z(int64(maxh))), hx.Tuple(hx.Z(int64(out)), obs.coq()))
	js := map[string]interface{}{"stream": "draw", "widget": w.json(), "max_width": maxw, "max_height": maxh, "weird_widths": weird,
		"outcome": out, "surface": obs.json()}
	if panicked {
		js["panic"] = msg
	}
	nontrivial := w.container()
	if !nontrivial && len(w.lines) > 0 {
		if len(w.lines) > maxh {
			nontrivial = true
		}
		for _, l := range w.lines {
			tot := 0
			for _, c := range l {
				tot += c.W
			}
			if tot >= maxw {
				nontrivial = true
			}
		}
	}
	tags = append(tags, w.Kind)
	if panicked {
		tags = append(tags, "panic")
	}
	s.Add(term, js, nontrivial, tags...)
}

func capped(w *wspec, maxw, maxh int, limit int) bool {
	if !w.allocates() && w.Kind != "field" {
		return true
	}
	if w.Kind == "field" {
		return true
	}
	if maxw == 65535 || maxh == 65535 {
		return true // documented panic before allocating
	}
	if w.hasCursorList() && (maxh > 300 || maxw > 300) {
		// the gutter loop writes 2*Max.Height cells (quadratic in the list-based model) and the
		// cursor surface has Max.Width * (height of the first item) cells
		return false
	}
	return maxw*maxh <= limit
}

func drawStream() *hx.Stream {
	s := hx.NewStream("draw", "model.Surface model.Widgets", "draw_input * draw_obs", "c14_draw_mismatches", "c14_draw_violations")
	s.ShardMax = 120
	limit := 140000
	// the confirmed defect inputs
	for _, soft := range []bool{false, true} {
		drawCase(s, &wspec{Kind: "text", Soft: soft, Content: "a\nb\nc\nd"}, 10, 2, false, "corpus")
		drawCase(s, &wspec{Kind: "rich", Soft: soft, Segs: []string{"a\nb\n", "c\nd"}}, 10, 2, false, "corpus")
		drawCase(s, &wspec{Kind: "text", Soft: soft, Content: "a\nb\nc\nd"}, 10, 0, false, "corpus")
	}
	drawCase(s, &wspec{Kind: "center", Child: &wspec{Kind: "text", Soft: true, Content: "a\nb\nc\nd"}}, 10, 2, false, "corpus")
	drawCase(s, &wspec{Kind: "button", Soft: true, Content: "a\nb\nc\nd"}, 10, 2, false, "corpus")
	// every widget kind over the full constraint grid with a fixed content
	fixed := []*wspec{
		{Kind: "text", Soft: true, Content: "hello wide 世界 world\nsecond line\n\nfourth"},
		{Kind: "text", Soft: false, Content: "hello wide 世界 world\nsecond line\n\nfourth"},
		{Kind: "rich", Soft: true, Segs: []string{"hello wide 世界 ", "world\nsecond", " line\n\nfourth"}},
		{Kind: "rich", Soft: false, Segs: []string{"hello wide 世界 ", "world\nsecond", " line\n\nfourth"}},
		{Kind: "button", Soft: true, Content: "OK go"},
		{Kind: "field", Content: "some 世界 value"},
		{Kind: "center", Child: &wspec{Kind: "text", Soft: true, Content: "ab\ncde"}},
		{Kind: "center", Child: &wspec{Kind: "center", Child: &wspec{Kind: "field", Content: "v"}}},
		{Kind: "list", Cursor: true, Gap: 1, Items: []*wspec{{Kind: "text", Soft: true, Content: "one"}, {Kind: "text", Soft: false, Content: "two\nlines"}, {Kind: "text", Soft: true, Content: "three"}}},
		{Kind: "list", Cursor: false, Items: []*wspec{{Kind: "text", Soft: true, Content: "one"}, {Kind: "button", Soft: true, Content: "b"}}},
	}
	for _, f := range fixed {
		for _, mw := range cons {
			for _, mh := range cons {
				if !capped(f, mw, mh, limit) {
					continue
				}
				c := *f // fresh copy of the recorded fields
				cp := deepCopy(&c)
				drawCase(s, cp, mw, mh, false, "grid")
			}
		}
	}
	// very large contents: more than 65535 lines / columns (uint16 counters).  The lines between
	// the first and the last two are empty so that the list-based model stays cheap.
	{
		many := "x" + strings.Repeat("\n", 65536) + "y\nz"
		drawCase(s, &wspec{Kind: "text", Soft: false, Content: many}, 65535, 65535, false, "huge")
		drawCase(s, &wspec{Kind: "text", Soft: true, Content: many}, 3, 65535, false, "huge")
		drawCase(s, &wspec{Kind: "rich", Soft: false, Segs: []string{many}}, 7, 65535, false, "huge")
		drawCase(s, &wspec{Kind: "text", Soft: false, Content: many}, 65535, 65534, false, "huge")
		drawCase(s, &wspec{Kind: "rich", Soft: false, Segs: []string{strings.Repeat("c", 65540)}}, 65535, 65535, false, "huge")
		drawCase(s, &wspec{Kind: "text", Soft: false, Content: strings.Repeat("a\n", 300)}, 65535, 256, false, "huge")
	}
	n := 900
	if cfg.Thorough() {
		n = 50000
	}
	for i := 0; i < n; i++ {
		w := genWidget(cfg.Rand.Intn(3))
		mw, mh := pick(cons), pick(cons)
		if cfg.Rand.Intn(3) == 0 {
			mw, mh = cfg.Rand.Intn(30), cfg.Rand.Intn(12)
		}
		if !capped(w, mw, mh, limit) {
			mw, mh = cfg.Rand.Intn(300), cfg.Rand.Intn(300)
		}
		weird := cfg.Rand.Intn(8) == 0
		tag := "random"
		if weird {
			tag = "random-weird-widths"
		}
		drawCase(s, w, mw, mh, weird, tag)
	}
	return s
}

func (w *wspec) hasCursorList() bool {
	if w.Kind == "list" && w.Cursor {
		return true
	}
	return w.Child != nil && w.Child.hasCursorList()
}

func deepCopy(w *wspec) *wspec {
	c := *w
	c.lines, c.drawn, c.bad, c.live = nil, false, false, nil
	if w.Child != nil {
		c.Child = deepCopy(w.Child)
	}
	c.Items = nil
	for _, it := range w.Items {
		c.Items = append(c.Items, deepCopy(it))
	}
	return &c
}
