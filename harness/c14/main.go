// Harness for C14: runs the real vxfw code (NewSurface/WriteCell, Surface.render through a
// real Vaxis on a fake console, Draw of the built-in widgets) and writes Coq case files.
package main

import (
	"fmt"
	"math"
	"os"

	vaxis "git.sr.ht/~rockorager/vaxis"
	"git.sr.ht/~rockorager/vaxis/vxfw"
	"verif/harness/hx"
)

var cfg *hx.Config

func pick(xs []int) int { return xs[cfg.Rand.Intn(len(xs))] }

// idCell is a cell that carries an id (>= 1) in its Width; the zero Cell is id 0.
func idCell(id int) vaxis.Cell {
	return vaxis.Cell{Character: vaxis.Character{Grapheme: "x", Width: id}}
}

// ---------------------------------------------------------------- surface stream

type write struct{ Col, Row, ID int }

func surfaceCase(s *hx.Stream, w, h int, ws []write, tag string) {
	var buflen int
	var sparse [][2]int
	panicked, _ := hx.Catch(func() {
		sf := vxfw.NewSurface(uint16(w), uint16(h), nil)
		for _, x := range ws {
			sf.WriteCell(uint16(x.Col), uint16(x.Row), idCell(x.ID))
		}
		buflen = len(sf.Buffer)
		for i, c := range sf.Buffer {
			if c.Width != 0 || c.Grapheme != "" {
				sparse = append(sparse, [2]int{i, c.Width})
			}
		}
	})
	out := 0
	if panicked {
		out, buflen, sparse = 1, 0, nil
	}
	wt := make([]string, len(ws))
	inside := false
	for i, x := range ws {
		wt[i] = hx.Tuple(hx.Z(int64(x.Col)), hx.Z(int64(x.Row)), hx.Z(int64(x.ID)))
		if x.Col < w && x.Row < h {
			inside = true
		}
	}
	st := make([]string, len(sparse))
	for i, p := range sparse {
		st[i] = hx.Tuple(hx.Z(int64(p[0])), hx.Z(int64(p[1])))
	}
	term := hx.Tuple(hx.Tuple(hx.Z(int64(w)), hx.Z(int64(h)), hx.List(wt)),
		hx.Tuple(hx.Z(int64(out)), hx.Z(int64(buflen)), hx.List(st)))
	tags := []string{tag}
	if w*h > 65535 {
		tags = append(tags, "cells>65535")
	}
	s.Add(term, map[string]interface{}{"stream": "surface", "w": w, "h": h, "writes": ws, "outcome": out, "buflen": buflen, "nonblank": sparse},
		inside, tags...)
}

func genCoord(limit int) int {
	switch cfg.Rand.Intn(10) {
	case 0:
		return limit // == size: just outside
	case 1:
		return limit + 1
	case 2:
		if limit > 0 {
			return limit - 1
		}
		return 0
	case 3:
		return pick([]int{0, 1, 255, 256, 65534, 65535})
	case 4:
		return cfg.Rand.Intn(65536)
	default:
		if limit > 0 {
			return cfg.Rand.Intn(limit)
		}
		return 0
	}
}

func genWrites(w, h, n int) []write {
	ws := make([]write, n)
	for i := range ws {
		c, r := genCoord(w)&0xffff, genCoord(h)&0xffff
		if i > 0 && cfg.Rand.Intn(5) == 0 { // overwrite an earlier target
			c, r = ws[cfg.Rand.Intn(i)].Col, ws[cfg.Rand.Intn(i)].Row
		}
		ws[i] = write{c, r, i + 1}
	}
	return ws
}

func surfaceStream() *hx.Stream {
	s := hx.NewStream("surface", "model.Surface", "surf_input * surf_obs", "c14_surface_mismatches", "c14_surface_violations")
	s.ShardMax = 150
	small := []int{0, 1, 2, 3, 5, 7, 16}
	// every small size pair, with the four corner/edge writes
	for _, w := range small {
		for _, h := range small {
			ws := []write{{0, 0, 1}, {w - 1, h - 1, 2}, {w, 0, 3}, {0, h, 4}, {w, h, 5}, {w - 1, h, 6}, {w, h - 1, 7}}
			for i := range ws {
				ws[i].Col &= 0xffff
				ws[i].Row &= 0xffff
			}
			surfaceCase(s, w, h, ws, "small-edges")
		}
	}
	n := 250
	if cfg.Thorough() {
		n = 10000
	}
	for i := 0; i < n; i++ {
		w, h := pick(small), pick(small)
		if cfg.Rand.Intn(3) == 0 {
			w, h = cfg.Rand.Intn(40), cfg.Rand.Intn(40)
		}
		surfaceCase(s, w, h, genWrites(w, h, cfg.Rand.Intn(10)), "small-random")
	}
	// sizes around the 16-bit product boundary and beyond
	big := [][2]int{{256, 256}, {255, 257}, {257, 255}, {300, 300}, {65535, 1}, {1, 65535}, {65535, 2}, {2, 65535},
		{65535, 0}, {0, 65535}, {4096, 16}, {16, 4096}, {4097, 16}, {32768, 2}, {2, 32768}, {21846, 3}, {255, 256}, {181, 362}}
	reps := 1
	if cfg.Thorough() {
		reps = 12
		big = append(big, [2]int{1000, 1000}, [2]int{65535, 8}, [2]int{8, 65535})
	}
	for _, b := range big {
		w, h := b[0], b[1]
		ws := []write{{0, 0, 1}, {(w - 1) & 0xffff, (h - 1) & 0xffff, 2}, {w & 0xffff, 0, 3}, {0, h & 0xffff, 4}, {(w - 1) & 0xffff, h & 0xffff, 5}, {(w / 2), (h / 2), 6}}
		surfaceCase(s, w, h, ws, "big-edges")
		for r := 0; r < reps; r++ {
			surfaceCase(s, w, h, genWrites(w, h, 2+cfg.Rand.Intn(8)), "big-random")
		}
	}
	return s
}

// ---------------------------------------------------------------- render stream

type tree struct {
	W, H int
	Buf  []int
	Kids []kid
}
type kid struct {
	Col, Row, Z int
	T           *tree
}

var nextID int

func genTree(depth int, maxKids int) *tree {
	t := &tree{W: pick([]int{0, 1, 2, 3, 4, 5, 8}), H: pick([]int{0, 1, 2, 3, 4})}
	t.Buf = make([]int, t.W*t.H)
	for i := range t.Buf {
		nextID++
		t.Buf[i] = nextID
	}
	if depth > 0 {
		n := cfg.Rand.Intn(maxKids + 1)
		for i := 0; i < n; i++ {
			k := kid{Col: cfg.Rand.Intn(10) - 3, Row: cfg.Rand.Intn(7) - 2, Z: genZ()}
			k.T = genTree(depth-1, 3)
			t.Kids = append(t.Kids, k)
		}
	}
	return t
}

// z-indices: ZIndex is a Go int and "in z-order" means the mathematical order of the integers:
// small values and ties, and the ends of the int range (pairs more than MaxInt apart, whose
// difference does not fit an int)
var extremeZ = []int{math.MinInt, math.MinInt + 1, -math.MaxInt / 2, -2, -1, 0, 1, 2, math.MaxInt/2 + 1, math.MaxInt - 1, math.MaxInt}

func genZ() int {
	switch cfg.Rand.Intn(8) {
	case 0:
		return pick(extremeZ)
	case 1: // anywhere in the int range
		return int(cfg.Rand.Uint64())
	default:
		return pick([]int{0, 0, 0, 1, -1, 2, 5})
	}
}

// zTree: a root whose children (one per z in zs, in this sibling order) all cover the cell
// (1,0) and each have one cell of their own, so the whole paint order is visible
func zTree(zs []int) *tree {
	n := len(zs)
	t := filled(n+2, 2)
	for i, z := range zs {
		// child i: columns 1..i+1 of row 0 and row 1: every later-painted sibling hides a
		// different part of it
		t.Kids = append(t.Kids, kid{Col: 1, Row: 0, Z: z, T: filled(i+1, 1+i%2)})
	}
	return t
}

func permutations(xs []int) [][]int {
	if len(xs) <= 1 {
		return [][]int{append([]int{}, xs...)}
	}
	var out [][]int
	for i := range xs {
		rest := append(append([]int{}, xs[:i]...), xs[i+1:]...)
		for _, p := range permutations(rest) {
			out = append(out, append([]int{xs[i]}, p...))
		}
	}
	return out
}

// zOrders adds to the render stream: every ordered pair of extreme z-indices, every sibling
// order of triples / quadruples that mix the ends of the int range with small values, and
// random sibling lists drawn from the whole range (with ties)
func zOrders(s *hx.Stream) {
	for _, a := range extremeZ {
		for _, b := range extremeZ {
			nextID = 0
			renderCase(s, 6, 3, nil, false, zTree([]int{a, b}), "z-extreme", "z-pair")
		}
	}
	sets := [][]int{{-1, 0, math.MaxInt}, {math.MinInt, 0, 1}, {math.MinInt, -1, math.MaxInt}, {math.MinInt, math.MaxInt, math.MaxInt - 1},
		{-2, math.MaxInt - 1, math.MaxInt/2 + 1}, {math.MinInt, -1, 1, math.MaxInt}, {-math.MaxInt / 2, math.MaxInt/2 + 1, 0, 0}}
	for _, set := range sets {
		for _, p := range permutations(set) {
			nextID = 0
			renderCase(s, 8, 3, nil, false, zTree(p), "z-extreme", fmt.Sprintf("z-perm%d", len(p)))
		}
	}
	n := 60
	if cfg.Thorough() {
		n = 3000
	}
	for i := 0; i < n; i++ {
		nextID = 0
		k := 2 + cfg.Rand.Intn(5)
		if cfg.Rand.Intn(6) == 0 {
			k = 13 + cfg.Rand.Intn(4) // more than 12 children: sort.Slice leaves its insertion sort
		}
		zs := make([]int, k)
		for j := range zs {
			switch cfg.Rand.Intn(3) {
			case 0:
				zs[j] = pick(extremeZ)
			case 1:
				zs[j] = int(cfg.Rand.Uint64())
			default:
				zs[j] = cfg.Rand.Intn(5) - 2
			}
		}
		if k > 12 { // an unstable sort may order ties either way: keep the z-indices distinct
			seen := map[int]bool{}
			for j := range zs {
				for seen[zs[j]] {
					zs[j] = int(cfg.Rand.Uint64())
				}
				seen[zs[j]] = true
			}
		}
		renderCase(s, k+3, 3, nil, false, zTree(zs), "z-extreme", "z-random")
	}
}

func (t *tree) surface() vxfw.Surface {
	s := vxfw.NewSurface(uint16(t.W), uint16(t.H), nil)
	for i, id := range t.Buf {
		s.Buffer[i] = idCell(id)
	}
	for _, k := range t.Kids {
		s.AddChild(k.Col, k.Row, k.T.surface())
		s.Children[len(s.Children)-1].ZIndex = k.Z
	}
	return s
}

func (t *tree) coq() string {
	ks := make([]string, len(t.Kids))
	for i, k := range t.Kids {
		ks[i] = hx.Tuple(hx.Z(int64(k.Col)), hx.Z(int64(k.Row)), hx.Z(int64(k.Z)), k.T.coq())
	}
	return fmt.Sprintf("(Surf %d %d %s %s)", t.W, t.H, hx.IntList(t.Buf), hx.List(ks))
}

func (t *tree) json() interface{} {
	ks := []interface{}{}
	for _, k := range t.Kids {
		ks = append(ks, map[string]interface{}{"col": k.Col, "row": k.Row, "z": k.Z, "surface": k.T.json()})
	}
	return map[string]interface{}{"w": t.W, "h": t.H, "buffer": t.Buf, "children": ks}
}

func (t *tree) nodes() int {
	n := 1
	for _, k := range t.Kids {
		n += k.T.nodes()
	}
	return n
}

// frame is one Window.New(col,row,cols,rows) call applied to the terminal window before render
type frame struct{ Col, Row, W, H int }

func relTag(a, b int) string {
	switch {
	case a < b:
		return "<"
	case a == b:
		return "="
	}
	return ">"
}

// renderCase renders t into the terminal window (frames == nil: stream render) or into the
// terminal window narrowed by the given Window.New calls (stream renderwin).
func renderCase(s *hx.Stream, cols, rows int, frames []frame, withFrames bool, t *tree, tags ...string) {
	fc := hx.NewFakeConsole(hx.ProfileFromMask(0, rows, cols))
	vx, err := vaxis.New(vaxis.Options{WithConsole: fc, NoSignals: true})
	if err != nil {
		panic(err)
	}
	var grid [][]int
	ww, wh := cols, rows
	panicked, _ := hx.Catch(func() {
		win := vx.Window()
		for _, f := range frames {
			win = win.New(f.Col, f.Row, f.W, f.H)
		}
		ww, wh = win.Width, win.Height
		vxfw.VerifRender(t.surface(), win, nil)
		for _, line := range vx.VerifScreenNext() {
			r := make([]int, len(line))
			for i, c := range line {
				r[i] = c.Width
			}
			grid = append(grid, r)
		}
	})
	vx.Close()
	out := 0
	if panicked {
		out, grid = 1, nil
	}
	gs := make([]string, len(grid))
	for i, r := range grid {
		gs[i] = hx.IntList(r)
	}
	obs := hx.Tuple(hx.Z(int64(out)), hx.List(gs))
	js := map[string]interface{}{"cols": cols, "rows": rows, "tree": t.json(), "outcome": out, "screen": grid}
	var term string
	if withFrames {
		fs := make([]string, len(frames))
		for i, f := range frames {
			fs[i] = hx.Tuple(hx.Z(int64(f.Col)), hx.Z(int64(f.Row)), hx.Z(int64(f.W)), hx.Z(int64(f.H)))
		}
		term = hx.Tuple(hx.Tuple(hx.Z(int64(cols)), hx.Z(int64(rows)), hx.List(fs), t.coq()), obs)
		js["stream"], js["window_new_calls"] = "renderwin", frames
	} else {
		term = hx.Tuple(hx.Tuple(hx.Z(int64(cols)), hx.Z(int64(rows)), t.coq()), obs)
		js["stream"] = "render"
	}
	// how the root surface relates to the window it is rendered into (a window exceeds its
	// surface only at the root)
	tags = append(tags, fmt.Sprintf("nodes=%d", min(t.nodes(), 9)), "rootW"+relTag(t.W, ww)+"win", "rootH"+relTag(t.H, wh)+"win")
	if t.wrapDepth() > 0 {
		tags = append(tags, fmt.Sprintf("wrappers=%d", min(t.wrapDepth(), 3)))
	}
	s.Add(term, js, t.nodes() > 1, tags...)
}

func min(a, b int) int {
	if a < b {
		return a
	}
	return b
}

func max(a, b int) int {
	if a > b {
		return a
	}
	return b
}

// wrapDepth: length of the chain of children at (0,0) that have exactly their parent's size,
// starting at the root
func (t *tree) wrapDepth() int {
	for _, k := range t.Kids {
		if k.Col == 0 && k.Row == 0 && k.T.W == t.W && k.T.H == t.H {
			return 1 + k.T.wrapDepth()
		}
	}
	return 0
}

func filled(w, h int) *tree {
	t := &tree{W: w, H: h, Buf: make([]int, w*h)}
	for i := range t.Buf {
		nextID++
		t.Buf[i] = nextID
	}
	return t
}

// an offset for a child of size cw x ch in a parent of size pw x ph, by class: inside, hanging
// over the right/bottom edge, over the left/top edge (negative offset), just touching the edge
// from outside, far outside, and exactly covering (0,0)
func genOffset(p, c int) int {
	switch cfg.Rand.Intn(7) {
	case 0:
		return 0
	case 1: // inside
		if p > c {
			return cfg.Rand.Intn(p - c + 1)
		}
		return 0
	case 2: // overhangs the far edge by 1..c-1 (or lies at it)
		return p - c + 1 + cfg.Rand.Intn(max(c, 1))
	case 3: // overhangs the near edge
		return -1 - cfg.Rand.Intn(max(c, 1))
	case 4: // touches the far edge from outside
		return p
	case 5:
		return p + 1 + cfg.Rand.Intn(3)
	default:
		return cfg.Rand.Intn(p+3) - 1
	}
}

// genShaped: trees in which the shapes layouts really produce are frequent: a wrapper (child at
// (0,0) of exactly the parent's size, or one cell off in size or position), children that stick
// out of their parent, children larger than their parent, negative offsets
func genShaped(depth, w, h int) *tree {
	t := filled(w, h)
	if depth == 0 {
		return t
	}
	n := cfg.Rand.Intn(4)
	for i := 0; i < n; i++ {
		var k kid
		k.Z = genZ()
		switch cfg.Rand.Intn(6) {
		case 0, 1: // wrapper: same size at (0,0)
			k.T = genShaped(depth-1, w, h)
		case 2: // almost a wrapper: one cell off in size or position
			cw, ch := w, h
			switch cfg.Rand.Intn(6) {
			case 0:
				cw++
			case 1:
				ch++
			case 2:
				cw = max(cw-1, 0)
			case 3:
				ch = max(ch-1, 0)
			case 4:
				k.Col = pick([]int{1, -1})
			default:
				k.Row = pick([]int{1, -1})
			}
			k.T = genShaped(depth-1, cw, ch)
		default:
			cw, ch := pick([]int{0, 1, 2, 3, 4, 5, 8}), pick([]int{0, 1, 2, 3, 4})
			if cfg.Rand.Intn(4) == 0 {
				cw, ch = w+cfg.Rand.Intn(3), h+cfg.Rand.Intn(3) // at least as large as the parent
			}
			k.Col, k.Row = genOffset(w, cw), genOffset(h, ch)
			k.T = genShaped(depth-1, cw, ch)
		}
		t.Kids = append(t.Kids, k)
	}
	return t
}

// wrapperTree: a root of size w x h, k same-size children at (0,0) nested in each other, and in
// the innermost one the given children
func wrapperTree(w, h, k int, inner []kid) *tree {
	t := filled(w, h)
	cur := t
	for i := 0; i < k; i++ {
		c := filled(w, h)
		cur.Kids = append(cur.Kids, kid{T: c})
		cur = c
	}
	cur.Kids = append(cur.Kids, inner...)
	return t
}

func renderStream() *hx.Stream {
	s := hx.NewStream("render", "model.Surface", "render_input * render_obs", "c14_render_mismatches", "c14_render_violations")
	s.ShardMax = 100
	n := 400
	if cfg.Thorough() {
		n = 15000
	}
	for i := 0; i < n; i++ {
		nextID = 0
		depth := cfg.Rand.Intn(4)
		maxKids := 4
		if cfg.Rand.Intn(10) == 0 {
			maxKids = 12 // sort.Slice is an insertion sort (stable) up to 12 elements
		}
		renderCase(s, 1+cfg.Rand.Intn(12), 1+cfg.Rand.Intn(6), nil, false, genTree(depth, maxKids), fmt.Sprintf("depth=%d", depth))
	}
	return s
}

// renderShapes adds to the render stream (after the other streams have drawn their random
// numbers, so that their cases do not depend on these): directed wrapper trees and shaped
// random trees
func renderShapes(s *hx.Stream) {
	// directed: root surface smaller than / equal to / larger than the terminal window on each
	// axis; 0..3 same-size wrappers at (0,0); in the innermost wrapper one child inside and one
	// child that sticks out on one side (or lies inside)
	type rel struct{ dw, dh int } // root size = window size + (dw, dh)
	for _, r := range []rel{{-3, -2}, {0, -2}, {-3, 0}, {0, 0}, {2, 1}, {-1, 1}, {2, -1}} {
		for k := 0; k <= 3; k++ {
			for side := 0; side < 6; side++ {
				nextID = 0
				cols, rows := 7+cfg.Rand.Intn(3), 5+cfg.Rand.Intn(2)
				w, h := cols+r.dw, rows+r.dh
				in := kid{Col: 1, Row: 0, T: filled(2, 1)}
				over := kid{T: filled(3, 2), Z: pick([]int{0, 1, -1})}
				switch side {
				case 0: // bottom
					over.Col, over.Row = 0, h-1
				case 1: // right
					over.Col, over.Row = w-1, 1
				case 2: // bottom right corner
					over.Col, over.Row = w-2, h-1
				case 3: // top (negative row)
					over.Col, over.Row = 2, -1
				case 4: // left (negative column)
					over.Col, over.Row = -2, 1
				default: // inside
					over.Col, over.Row = 1, 1
				}
				renderCase(s, cols, rows, nil, false, wrapperTree(w, h, k, []kid{in, over}), "directed-wrapper", fmt.Sprintf("overhang-side=%d", side))
			}
		}
	}
	n := 300
	if cfg.Thorough() {
		n = 12000
	}
	for i := 0; i < n; i++ {
		nextID = 0
		depth := 1 + cfg.Rand.Intn(3)
		cols, rows := 1+cfg.Rand.Intn(12), 1+cfg.Rand.Intn(6)
		w, h := genRootSize(cols), genRootSize(rows)
		renderCase(s, cols, rows, nil, false, genShaped(depth, w, h), "shaped", fmt.Sprintf("depth=%d", depth))
	}
}

// a root size relative to the window size: smaller, equal, larger, zero
func genRootSize(win int) int {
	switch cfg.Rand.Intn(5) {
	case 0:
		return win
	case 1:
		return win + 1 + cfg.Rand.Intn(3)
	case 2:
		return cfg.Rand.Intn(3)
	default:
		if win > 1 {
			return 1 + cfg.Rand.Intn(win-1)
		}
		return win
	}
}

// a Window.New call on a window of size w x h, by class: the whole window, "-1 = the rest",
// inset, shifted partly or wholly outside, negative origin, larger than the parent
func genFrame(w, h int) frame {
	switch cfg.Rand.Intn(7) {
	case 0:
		return frame{0, 0, w, h}
	case 1:
		return frame{cfg.Rand.Intn(3), cfg.Rand.Intn(2), -1, -1}
	case 2:
		return frame{1, 1, w - 2, h - 2}
	case 3:
		return frame{cfg.Rand.Intn(w + 2), cfg.Rand.Intn(h + 2), 1 + cfg.Rand.Intn(w+1), 1 + cfg.Rand.Intn(h+1)}
	case 4:
		return frame{-1 - cfg.Rand.Intn(2), -cfg.Rand.Intn(2), w, h}
	case 5:
		return frame{0, 0, w + 1 + cfg.Rand.Intn(3), h + 1 + cfg.Rand.Intn(3)}
	default:
		return frame{cfg.Rand.Intn(4), cfg.Rand.Intn(3), cfg.Rand.Intn(w + 1), cfg.Rand.Intn(h + 1)}
	}
}

// renderwin stream: Surface.render into a window that is NOT the whole terminal: the terminal
// window narrowed by 1..3 Window.New calls (the window may be larger than, equal to, smaller
// than or partly outside the root surface, and offset on the screen)
func renderwinStream() *hx.Stream {
	s := hx.NewStream("renderwin", "model.Surface", "renderwin_input * render_obs", "c14_renderwin_mismatches", "c14_renderwin_violations")
	s.ShardMax = 100
	// directed: a window inset by one cell, a root smaller / equal / larger than it, wrappers
	for _, d := range [][2]int{{-2, -1}, {0, 0}, {1, 1}, {0, -1}, {-2, 0}} {
		for k := 0; k <= 2; k++ {
			nextID = 0
			cols, rows := 9, 6
			fr := []frame{{1, 1, cols - 2, rows - 2}}
			w, h := cols-2+d[0], rows-2+d[1]
			inner := []kid{{Col: 0, Row: h - 1, T: filled(3, 2)}, {Col: w - 1, Row: 0, Z: 1, T: filled(2, 2)}, {Col: -1, Row: -1, Z: -1, T: filled(2, 2)}}
			renderCase(s, cols, rows, fr, true, wrapperTree(w, h, k, inner), "directed-wrapper")
		}
	}
	n := 300
	if cfg.Thorough() {
		n = 12000
	}
	for i := 0; i < n; i++ {
		nextID = 0
		cols, rows := 1+cfg.Rand.Intn(12), 1+cfg.Rand.Intn(6)
		nf := 1 + cfg.Rand.Intn(3)
		fr := make([]frame, nf)
		w, h := cols, rows
		for j := range fr {
			fr[j] = genFrame(max(w, 0), max(h, 0))
			// the size Window.New will give the frame (only used to generate the next one)
			nw, nh := fr[j].W, fr[j].H
			if nw < 0 || nw+fr[j].Col > w {
				nw = w - fr[j].Col
			}
			if nh < 0 || nh+fr[j].Row > h {
				nh = h - fr[j].Row
			}
			w, h = nw, nh
		}
		depth := cfg.Rand.Intn(4)
		var t *tree
		if cfg.Rand.Intn(2) == 0 {
			t = genTree(depth, 4)
		} else {
			t = genShaped(depth, genRootSize(max(w, 0)), genRootSize(max(h, 0)))
		}
		renderCase(s, cols, rows, fr, true, t, "random", fmt.Sprintf("frames=%d", nf), fmt.Sprintf("depth=%d", depth))
	}
	return s
}

func main() {
	os.Unsetenv("COLORTERM")
	cfg = hx.ParseFlags()
	surf, rend, draw, paint, hist := surfaceStream(), renderStream(), drawStream(), paintStream(), histStream()
	renderShapes(rend)
	zOrders(rend)
	streams := []*hx.Stream{surf, rend, renderwinStream(), apprunStream(), apphistStream(), draw, paint, hist}
	cfg.Write("C14", "surface: NewSurface(w,h) + a sequence of WriteCell calls (sizes 0..40 and around/above 65535 cells; coordinates inside, ==size, size+1, 65535, random), non-trivial = at least one write inside the surface; render: surface trees rendered by Surface.render into the root window of a real Vaxis on a fake console — random trees (depth <= 3, <= 12 children per node, negative and overflowing offsets, tied and distinct z), directed wrapper trees (root smaller than / equal to / larger than the terminal on each axis, 0..3 same-size children at (0,0) nested in each other, innermost children inside and overhanging each side) and shaped random trees (wrappers, almost-wrappers one cell off in size or position, children larger than or sticking out of their parent, root sizes relative to the window), non-trivial = the tree has children; renderwin: the same into the terminal window narrowed by 1..3 Window.New calls (whole, rest -1, inset, shifted partly or wholly outside, negative origin, larger than the parent), non-trivial = the tree has children; apprun: the real vxfw.App.Run on a fake console with a root widget that returns a generated tree (root smaller / equal / larger than the terminal, children of the root overhanging it), the frame decoded from the terminal output, non-trivial = the tree has children; apphist: ONE App.Run during which the terminal is resized 1..5 times (directed: shrink then grow beyond the start, grow then shrink, the same size again, one axis each way, back to the first size; random size sequences 2..13 x 2..6) with a frame after every resize, the root widget returning a fresh generated tree per step (filling the terminal exactly, smaller, larger, with wrappers and overhanging children), every cell of the terminal after every frame compared with the model (window = the current terminal size), non-trivial = the size changes at least once; render also: overlapping siblings with z-indices at the ends of the int range (MinInt, MinInt+1, -1, 0, 1, MaxInt-1, MaxInt, random 64-bit) in every ordered pair, every sibling order of triples and quadruples, random lists of 2..16; draw: Draw of Text/RichText (soft and hard wrap), Center, Button, TextField, list.Dynamic (fresh state) and nestings over Max in {0,1,2,3,7,255,256,65534,65535}^2 (products capped for the allocating widgets) and generated contents (empty, multi-line, wide, combining, longer/taller than the maximum, >65535 lines or columns), non-trivial = content does not fit the maximum or the widget is a container; paint: App.layout + render — Draw of a generated widget tree with Max = window size, rendered into the root window of a real Vaxis (1..24 x 1..8), non-trivial = some screen cell is painted; hist: ONE widget value (every kind above and nestings) built once and drawn 3..6 times with a sequence of constraints (directed: shown/collapsed/still collapsed with 0x0, w x 0, 0 x h; collapsed first; alternating; the same frame repeated; unbounded in between; growing; shrinking; fields changed while the constraint repeats — and random sequences that repeat earlier constraints) and with exported fields changed between draws (Content/Softwrap, segments, Value, Label, Gap, DrawCursor, fields of list items, contents becoming empty); every step records the surface the long-lived value returned (decided against the contract clauses and against the model's history), non-trivial = at least 3 draws with two different constraints or a field change",
		streams, drawExtra, nil)
}
