package main

import (
	"strings"

	vaxis "git.sr.ht/~rockorager/vaxis"
	"git.sr.ht/~rockorager/vaxis/vxfw"
	"verif/harness/hx"
)

// paint stream: what App.layout + Surface.render do — Draw the root widget with Max = the
// window size and render the returned surface tree into a window of its own size (New(0,0,w,h)
// of the root window of a real Vaxis), as App.Run does.
func paintCase(s *hx.Stream, w *wspec, cols, rows int, tags ...string) {
	e := &env{d: newDict(), chars: vaxis.Characters}
	ctx := vxfw.DrawContext{Max: vxfw.Size{Width: uint16(cols), Height: uint16(rows)}, Characters: e.chars}
	widget := w.build(e)
	fc := hx.NewFakeConsole(hx.ProfileFromMask(0, rows, cols))
	vx, err := vaxis.New(vaxis.Options{WithConsole: fc, NoSignals: true})
	if err != nil {
		panic(err)
	}
	var grid [][]ch
	panicked, msg := hx.Catch(func() {
		sf, err := widget.Draw(ctx)
		if err != nil {
			panic("error returned: " + err.Error())
		}
		// App.Run's call: the root is rendered into a window of its own size
		vxfw.VerifRender(sf, vx.Window().New(0, 0, int(sf.Size.Width), int(sf.Size.Height)), nil)
		for _, line := range vx.VerifScreenNext() {
			r := make([]ch, len(line))
			for i, c := range line {
				r[i] = ch{e.d.id(c.Grapheme), c.Width}
			}
			grid = append(grid, r)
		}
	})
	vx.Close()
	w.recordUndrawn(e, ctx)
	if w.anyBad() {
		n, _ := drawExtra["skipped_scanner_failed"].(int)
		drawExtra["skipped_scanner_failed"] = n + 1
		return
	}
	out := 0
	if panicked {
		out, grid = 1, nil
	}
	rowsT := make([]string, len(grid))
	var jsRows [][][2]int
	nonblank := 0
	for i, r := range grid {
		rowsT[i] = coqLine(r)
		jr := make([][2]int, len(r))
		for j, c := range r {
			jr[j] = [2]int{c.G, c.W}
			if c.G != 0 || c.W != 0 {
				nonblank++
			}
		}
		jsRows = append(jsRows, jr)
	}
	term := hx.Tuple(hx.Tuple(w.coq(), hx.Z(int64(cols)), hx.Z(int64(rows))),
		hx.Tuple(hx.Z(int64(out)), "["+strings.Join(rowsT, ";")+"]"))
	js := map[string]interface{}{"stream": "paint", "widget": w.json(), "cols": cols, "rows": rows, "outcome": out, "screen": jsRows}
	if panicked {
		js["panic"] = msg
	}
	tags = append(tags, w.Kind)
	s.Add(term, js, nonblank > 0, tags...)
}

func paintStream() *hx.Stream {
	s := hx.NewStream("paint", "model.Surface model.Widgets", "draw_input * paint_obs", "c14_paint_mismatches", "c14_paint_violations")
	s.ShardMax = 100
	paintCase(s, &wspec{Kind: "button", Soft: true, Content: "OK"}, 10, 3, "corpus")
	paintCase(s, &wspec{Kind: "center", Child: &wspec{Kind: "text", Soft: true, Content: "a\nb\nc\nd"}}, 10, 2, "corpus")
	n := 300
	if cfg.Thorough() {
		n = 8000
	}
	for i := 0; i < n; i++ {
		paintCase(s, genWidget(cfg.Rand.Intn(3)), 1+cfg.Rand.Intn(24), 1+cfg.Rand.Intn(8), "random")
	}
	return s
}
