package main

import (
	"fmt"
	"time"
	"unicode/utf8"

	vaxis "git.sr.ht/~rockorager/vaxis"
	"git.sr.ht/~rockorager/vaxis/vxfw"
	"verif/harness/hx"
)

// apprun stream: the REAL vxfw.App.Run with a root widget whose Draw returns a prepared surface
// tree.  The frame App.Run renders (layout, win.Clear, root.render into the window App.Run
// makes for it, vx.Render) is read back from the bytes the fake terminal receives: Vaxis
// positions with CUP only and every cell of the tree is one width-1 grapheme that carries its
// id (rune idBase+id), so the decoder is "CUP sets the cursor, a printable rune is stored at the
// cursor and advances it by one, every other escape sequence is skipped".

const idBase = 0x1400 // Canadian Aboriginal Syllabics U+1400..U+167F: 640 letters of width 1, none combining
const idMax = 630

func (t *tree) appSurface(root vxfw.Widget) vxfw.Surface {
	s := vxfw.NewSurface(uint16(t.W), uint16(t.H), root)
	for i, id := range t.Buf {
		s.Buffer[i] = vaxis.Cell{Character: vaxis.Character{Grapheme: string(rune(idBase + id)), Width: 1}}
	}
	for _, k := range t.Kids {
		s.AddChild(k.Col, k.Row, k.T.appSurface(nil))
		s.Children[len(s.Children)-1].ZIndex = k.Z
	}
	return s
}

type treeWidget struct {
	t     *tree
	fc    *hx.FakeConsole
	draws chan struct{}
	frame []byte
}

const quitKey = 'q'

func (w *treeWidget) HandleEvent(ev vaxis.Event, _ vxfw.EventPhase) (vxfw.Command, error) {
	if k, ok := ev.(vaxis.Key); ok && k.Keycode == quitKey {
		// events are handled between frames: everything the frame wrote is in the console
		w.frame = w.fc.Take()
		return vxfw.QuitCmd{}, nil
	}
	return nil, nil
}

func (w *treeWidget) Draw(vxfw.DrawContext) (vxfw.Surface, error) {
	select {
	case w.draws <- struct{}{}:
	default:
	}
	return w.t.appSurface(w), nil
}

// decodeFrame: the screen a terminal shows after receiving b on a blank cols x rows screen
func decodeFrame(b []byte, cols, rows int) [][]int {
	grid := make([][]int, rows)
	for i := range grid {
		grid[i] = make([]int, cols)
	}
	row, col := 0, 0
	for i := 0; i < len(b); {
		c := b[i]
		if c == 0x1b && i+1 < len(b) {
			switch b[i+1] {
			case '[':
				j := i + 2
				var ps []int
				cur, have := 0, false
				for j < len(b) && (b[j] < 0x40 || b[j] > 0x7e) {
					switch {
					case b[j] >= '0' && b[j] <= '9':
						cur, have = cur*10+int(b[j]-'0'), true
					case b[j] == ';':
						ps = append(ps, cur)
						cur, have = 0, false
					}
					j++
				}
				if have {
					ps = append(ps, cur)
				}
				if j < len(b) && b[j] == 'H' {
					row, col = 0, 0
					if len(ps) > 0 && ps[0] > 0 {
						row = ps[0] - 1
					}
					if len(ps) > 1 && ps[1] > 0 {
						col = ps[1] - 1
					}
				}
				i = j + 1
			case ']', 'P', '_', '^', 'X': // string sequences: up to BEL or ST
				j := i + 2
				for j < len(b) && b[j] != 0x07 && !(b[j] == 0x1b && j+1 < len(b) && b[j+1] == '\\') {
					j++
				}
				if j < len(b) && b[j] == 0x1b {
					j++
				}
				i = j + 1
			case '(', ')', '*', '+':
				i += 3
			default:
				i += 2
			}
			continue
		}
		if c < 0x20 || c == 0x7f {
			i++
			continue
		}
		r, n := utf8.DecodeRune(b[i:])
		i += n
		if row >= 0 && row < rows && col >= 0 && col < cols {
			if r >= idBase {
				grid[row][col] = int(r) - idBase
			} else {
				grid[row][col] = 0 // a blank written by win.Clear
			}
		}
		col++
	}
	return grid
}

func apprunCase(s *hx.Stream, cols, rows int, t *tree, tags ...string) {
	fc := hx.NewFakeConsole(hx.ProfileFromMask(0, rows, cols))
	app, err := vxfw.NewApp(vaxis.Options{WithConsole: fc, NoSignals: true})
	if err != nil {
		panic(err)
	}
	fc.Take()
	w := &treeWidget{t: t, fc: fc, draws: make(chan struct{}, 8)}
	done := make(chan error, 1)
	out := 0
	go func() {
		var rerr error
		panicked, msg := hx.Catch(func() { rerr = app.Run(w) })
		if panicked {
			rerr = fmt.Errorf("panic: %s", msg)
		}
		done <- rerr
	}()
	// vaxis.New leaves the initial Resize in the queue: Run lays out once before its loop and
	// once for the frame the Resize asks for; after that second Draw the frame is rendered and
	// the quit key is handled only after it
	finished := false
	for n := 0; n < 2 && !finished; n++ {
		select {
		case <-w.draws:
		case err := <-done:
			finished = true
			if err != nil {
				out = 1
			}
		case <-time.After(20 * time.Second):
			panic("apprun: App.Run did not draw a frame")
		}
	}
	if !finished {
		app.PostEvent(vaxis.Key{Keycode: quitKey})
		select {
		case err := <-done:
			if err != nil {
				out = 1
			}
		case <-time.After(20 * time.Second):
			panic("apprun: App.Run did not quit")
		}
	}
	var grid [][]int
	if out == 0 {
		grid = decodeFrame(w.frame, cols, rows)
	}
	gs := make([]string, len(grid))
	for i, r := range grid {
		gs[i] = hx.IntList(r)
	}
	term := hx.Tuple(hx.Tuple(hx.Z(int64(cols)), hx.Z(int64(rows)), t.coq()), hx.Tuple(hx.Z(int64(out)), hx.List(gs)))
	js := map[string]interface{}{"stream": "apprun", "what": "vxfw.App.Run with a root widget returning this tree; screen decoded from the terminal output of the frame",
		"cols": cols, "rows": rows, "tree": t.json(), "outcome": out, "screen": grid}
	tags = append(tags, fmt.Sprintf("nodes=%d", min(t.nodes(), 9)), "rootW"+relTag(t.W, cols)+"win", "rootH"+relTag(t.H, rows)+"win")
	if t.wrapDepth() > 0 {
		tags = append(tags, fmt.Sprintf("wrappers=%d", min(t.wrapDepth(), 3)))
	}
	s.Add(term, js, t.nodes() > 1, tags...)
}

func apprunStream() *hx.Stream {
	s := hx.NewStream("apprun", "model.Surface", "render_input * render_obs", "c14_apprun_mismatches", "c14_apprun_violations")
	s.ShardMax = 100
	// directed: root smaller than / equal to / larger than the terminal, children of the ROOT
	// overhanging each side of it, 0..1 same-size wrappers
	for _, d := range [][2]int{{-3, -2}, {0, -2}, {-3, 0}, {0, 0}, {1, 1}} {
		for k := 0; k <= 1; k++ {
			nextID = 0
			cols, rows := 8, 5
			w, h := cols+d[0], rows+d[1]
			inner := []kid{{Col: 0, Row: h - 1, T: filled(3, 2)}, {Col: w - 1, Row: 0, Z: 1, T: filled(2, 2)}, {Col: -1, Row: -1, Z: -1, T: filled(2, 2)}, {Col: w, Row: h, T: filled(1, 1)}}
			apprunCase(s, cols, rows, wrapperTree(w, h, k, inner), "directed")
		}
	}
	n := 60
	if cfg.Thorough() {
		n = 1500
	}
	for i := 0; i < n; i++ {
		nextID = 0
		cols, rows := 2+cfg.Rand.Intn(11), 2+cfg.Rand.Intn(5)
		depth := 1 + cfg.Rand.Intn(2)
		t := genShaped(depth, genRootSize(cols), genRootSize(rows))
		if nextID > idMax {
			continue
		}
		apprunCase(s, cols, rows, t, "shaped")
	}
	return s
}
